package main

// Part 2 of C04, widened (called at the end of c04Natives).
//
//  1. The kinds target: expressions whose types are defined types over every kind of underlying type (pointer,
//     slice, array, struct, interface, map, chan, func, basic), defined types over defined types, aliases, pointers /
//     slices / arrays of those, fields and conversions.  The hand-written mirrors of c04_natives.go are run on it
//     (custom filter == go/types oracle == mirrored built-in predicate).
//  2. Generated filters over the dsl/types API: a straight-line function that walks from ctx.Type through
//     Underlying / As* / Elem / Field / New* / GetType with a nil guard after every As*, and ends in a predicate
//     (Identical, Implements, String, SizeOf, Len, NumFields, Embedded, As* ==/!= nil).  The same steps are carried out
//     by the harness with the go/types operation each helper stands for (AsPointer(x) is x.(*types.Pointer), Elem is
//     Elem, Identical is types.Identical, …): the filter must accept exactly the sites the go/types walk accepts.
//  3. Do functions that keep several DoVar values alive: ctx.Var results stored in locals, passed to helper
//     functions or used in place; Text() / Type() read in every order (all orders of the four reads of two variables
//     under both acquisition orders, a seeded sample of interleavings for two and three variables), into locals or
//     directly into the report; SetReport / SetSuggest receive the concatenation.  The oracle is the source text and
//     the go/types type of each capture, which the harness derives from the syntax tree itself.

import (
	"fmt"
	"go/ast"
	"go/types"
	"math/rand"
	"os"
	"sort"
	"strconv"
	"strings"
	"time"

	"verifharness/hx"
)

// ---- the kinds target -------------------------------------------------------------------------------------------------

const c04KindsDecls = `package p

type S2 struct{ a, b int }
type Node struct {
	next *Node
	val  int
}
type Emb struct {
	S2
	*Node
	x string
}
type MyErr struct{}

func (MyErr) Error() string { return "" }

type PErr struct{ code int }

func (*PErr) Error() string { return "" }

type DInt int
type DStr string
type DBool bool
type DPtr *Node
type DPtrInt *int
type DSlice []int
type DSliceS []string
type DArr [3]int
type DArr0 [0]string
type DStruct struct {
	p *int
	q DPtr
}
type DIface interface{ M() }
type DErr interface{ Error() string }
type DMap map[string]int
type DChan chan int
type DFunc func(int) string
type DD DPtr
type DDS DSlice
type DDSt DStruct

type APtr = *Node
type ASlice = []int
type ADPtr = DPtr
type AStruct = S2
type AInt = int

func probe(interface{}) {}
`

type c04KindVar struct{ name, ty, class string }

var c04KindVars = []c04KindVar{
	{"di", "DInt", "defined:basic"}, {"ds", "DStr", "defined:basic"}, {"db", "DBool", "defined:basic"},
	{"dp", "DPtr", "defined:pointer"}, {"dpi", "DPtrInt", "defined:pointer"},
	{"dsl", "DSlice", "defined:slice"}, {"dss", "DSliceS", "defined:slice"},
	{"da", "DArr", "defined:array"}, {"da0", "DArr0", "defined:array"},
	{"dst", "DStruct", "defined:struct"}, {"s2", "S2", "defined:struct"}, {"emb", "Emb", "defined:struct"},
	{"dif", "DIface", "defined:interface"}, {"derr", "DErr", "defined:interface"},
	{"dm", "DMap", "defined:map"}, {"dc", "DChan", "defined:chan"}, {"df", "DFunc", "defined:func"},
	{"dd", "DD", "defined-over-defined:pointer"}, {"dds", "DDS", "defined-over-defined:slice"}, {"ddst", "DDSt", "defined-over-defined:struct"},
	{"ap", "APtr", "alias:pointer"}, {"asl", "ASlice", "alias:slice"}, {"adp", "ADPtr", "alias-of-defined:pointer"},
	{"ast2", "AStruct", "alias-of-defined:struct"}, {"ai", "AInt", "alias:basic"},
	{"pdp", "*DPtr", "pointer-to-defined:pointer"}, {"pdsl", "*DSlice", "pointer-to-defined:slice"}, {"pdst", "*DStruct", "pointer-to-defined:struct"},
	{"pda", "*DArr", "pointer-to-defined:array"}, {"pdi", "*DInt", "pointer-to-defined:basic"}, {"pdif", "*DIface", "pointer-to-defined:interface"},
	{"pap", "*APtr", "pointer-to-alias:pointer"}, {"padp", "*ADPtr", "pointer-to-alias-of-defined:pointer"},
	{"pn", "*Node", "pointer-to-defined:struct"}, {"ppn", "**Node", "pointer-to-pointer"}, {"pi", "*int", "pointer"}, {"ppi", "**int", "pointer-to-pointer"},
	{"sdp", "[]DPtr", "slice-of-defined:pointer"}, {"spn", "[]*Node", "slice-of-pointer"}, {"sdsl", "[]DSlice", "slice-of-defined:slice"},
	{"adsl", "[2]DSlice", "array-of-defined:slice"}, {"apn", "[3]*Node", "array-of-pointer"}, {"a0", "[0]int", "array"}, {"adp3", "[3]DPtr", "array-of-defined:pointer"},
	{"anon", "struct {\n\tp DPtr\n\ts DSlice\n\tn *Node\n}", "struct"}, {"anonE", "struct {\n\tS2\n\t*Node\n}", "struct-embedding"},
	{"i", "int", "basic"}, {"s", "string", "basic"}, {"is", "[]int", "slice"}, {"ss", "[]string", "slice"}, {"arr", "[3]int", "array"},
	{"e", "error", "interface"}, {"any", "interface{}", "interface"}, {"me", "MyErr", "defined:struct"}, {"pme", "*MyErr", "pointer-to-defined:struct"},
	{"perr", "*PErr", "pointer-to-defined:struct"}, {"m", "map[string]int", "map"}, {"ch", "chan int", "chan"}, {"fn", "func()", "func"},
	{"u8", "uint8", "basic"}, {"f64", "float64", "basic"},
}

// expression sites (not a plain variable)
var c04KindExprs = []c04KindVar{
	{"", "&dp", "address-of-defined:pointer"}, {"", "&dsl", "address-of-defined:slice"}, {"", "&dst", "address-of-defined:struct"},
	{"", "*pdp", "deref-to-defined:pointer"}, {"", "*pdsl", "deref-to-defined:slice"}, {"", "dst.q", "field-of-defined:pointer"}, {"", "dst.p", "field-pointer"},
	{"", "emb.Node", "embedded-pointer"}, {"", "emb.S2", "embedded-struct"}, {"", "sdp[0]", "element-defined:pointer"}, {"", "anon.s", "field-of-defined:slice"},
	{"", "DD(nil)", "conversion-to-defined-over-defined:pointer"}, {"", "DPtr(pn)", "conversion-to-defined:pointer"}, {"", "APtr(nil)", "conversion-to-alias:pointer"},
	{"", "(*Node)(dp)", "conversion-to-pointer"}, {"", "[]int(dsl)", "conversion-to-slice"}, {"", "DSlice(is)", "conversion-to-defined:slice"},
	{"", "nil", "untyped-nil"}, {"", "42", "constant"}, {"", "&i", "pointer"}, {"", "[]DPtr{}", "slice-of-defined:pointer"}, {"", "DStruct{}", "defined:struct"},
	{"", "struct{ a DArr }{}", "struct"}, {"", "new(DPtr)", "pointer-to-defined:pointer"},
}

func c04KindsSource() string {
	var b strings.Builder
	b.WriteString(c04KindsDecls)
	b.WriteString("\nfunc f(\n")
	for _, v := range c04KindVars {
		fmt.Fprintf(&b, "\t%s %s,\n", v.name, v.ty)
	}
	b.WriteString(") {\n")
	for _, v := range c04KindVars {
		fmt.Fprintf(&b, "\tprobe(%s)\n", v.name)
	}
	for _, v := range c04KindExprs {
		fmt.Fprintf(&b, "\tprobe(%s)\n", v.ty)
	}
	b.WriteString("}\n")
	return b.String()
}

type c04KindSite struct {
	pos   int
	text  string
	typ   types.Type
	class string
}

func c04KindSites(tg *hx.Target) ([]c04KindSite, error) {
	classOf := map[string]string{}
	for _, v := range c04KindVars {
		classOf[v.name] = v.class
	}
	for _, v := range c04KindExprs {
		classOf[v.ty] = v.class
	}
	var sites []c04KindSite
	var bad error
	ast.Inspect(tg.File, func(n ast.Node) bool {
		call, ok := n.(*ast.CallExpr)
		if !ok {
			return true
		}
		if id, ok := call.Fun.(*ast.Ident); !ok || id.Name != "probe" || len(call.Args) != 1 {
			return true
		}
		a := call.Args[0]
		text := string(tg.Src[tg.Fset.Position(a.Pos()).Offset:tg.Fset.Position(a.End()).Offset])
		cl, ok := classOf[text]
		if !ok {
			bad = fmt.Errorf("kinds target: site %q has no class", text)
		}
		t := tg.Info.TypeOf(a)
		if t == nil {
			t = types.Typ[types.Invalid]
		}
		sites = append(sites, c04KindSite{pos: tg.Fset.Position(call.Pos()).Offset, text: text, typ: t, class: cl})
		return true
	})
	return sites, bad
}

const c04APIHeader = "package gorules\n\nimport (\n\t\"github.com/quasilyte/go-ruleguard/dsl\"\n\t\"github.com/quasilyte/go-ruleguard/dsl/types\"\n)\n\nvar _ = types.Identical\n\n"

// c04RunRules loads one rules file, runs it on tg and returns the reports.
func c04RunRules(res *hx.Result, tg *hx.Target, full string) ([]hx.Report, bool, error) {
	e, lerr := hx.LoadRules(full)
	if lerr != nil {
		return nil, false, fmt.Errorf("natives rules do not load: %v\n%s", lerr, full)
	}
	rs, pk, frame, rerr := hx.Run(e, tg, hx.RunOpts{})
	if rerr != nil {
		return nil, false, rerr
	}
	if pk != "" {
		res.Violate(hx.Violation{Signature: "natives:run-" + pk + "@" + frame, What: "Run panics in the dsl/types API", Input: map[string]interface{}{"rules": full}, Impl: pk, Spec: "reports"})
		return nil, false, nil
	}
	return rs, true, nil
}

// c04Accepted runs a filter rule over the kinds target and returns the set of accepted site offsets.
func c04Accepted(res *hx.Result, tg *hx.Target, decl, rule string) (map[int]bool, bool, error) {
	rs, ok, err := c04RunRules(res, tg, c04APIHeader+decl+"func g(m dsl.Matcher) {\n\t"+rule+"\n}\n")
	if err != nil || !ok {
		return nil, ok, err
	}
	got := map[int]bool{}
	for _, r := range rs {
		got[r.Pos] = true
	}
	return got, true, nil
}

// c04WrapperMirrors: every method of every wrapper kind of dsl/types, on results of As* and of New*, each against the
// go/types operation of the same name: String / Underlying on *Pointer, *Slice, *Array, *Struct, *Interface; Elem on
// the three containers; Len; NumFields / Field / Var.Type / Var.Embedded; Implements with an interface taken from the
// matched type; GetInterface on names of interface and non-interface types.  The literals are type strings of the
// target (the first site of each kind).
func c04WrapperMirrors(sites []c04KindSite) []c04Mirror {
	lit := map[string]string{}
	for _, s := range sites {
		k := strings.TrimPrefix(fmt.Sprintf("%T", s.typ.Underlying()), "*types.")
		if _, ok := lit[k]; !ok {
			lit[k] = s.typ.Underlying().String()
		}
	}
	errIface := types.Universe.Lookup("error").Type().Underlying().(*types.Interface)
	var ms []c04Mirror
	curLit := ""
	add := func(name, body string, oracle func(t types.Type) bool) {
		// laid out before the literal goes in (a type string may contain `; ` and braces); @L@ stands for the literal
		body = strings.ReplaceAll(c04BodyLines(body), "@L@", strconv.Quote(curLit))
		ms = append(ms, c04Mirror{name: name, body: body, oracle: func(t types.Type, _ *hx.Target) bool { return oracle(t) }})
	}
	for _, kind := range []string{"Pointer", "Slice", "Array", "Struct", "Interface"} {
		kind := kind
		as := func(t types.Type) (types.Type, bool) {
			v, ok := apiAs(kind, t.Underlying())
			if !ok {
				return nil, false
			}
			return v.(types.Type), true
		}
		pre := "x := types.As" + kind + "(ctx.Type.Underlying()); if x == nil { return false }; "
		l := lit[kind]
		curLit = l
		add("w"+kind+"String", pre+"return x.String() == ctx.Type.Underlying().String()", func(t types.Type) bool {
			x, ok := as(t)
			return ok && x.String() == t.Underlying().String()
		})
		add("w"+kind+"StringLit", pre+"return x.String() == @L@", func(t types.Type) bool {
			x, ok := as(t)
			return ok && x.String() == l
		})
		add("w"+kind+"Underlying", pre+"return types.Identical(x.Underlying(), ctx.Type.Underlying())", func(t types.Type) bool {
			x, ok := as(t)
			return ok && types.Identical(x.Underlying(), t.Underlying())
		})
		add("w"+kind+"UnderlyingString", pre+"u := x.Underlying(); return u.String() == @L@", func(t types.Type) bool {
			x, ok := as(t)
			return ok && x.Underlying().String() == l
		})
		add("w"+kind+"AsAgain", pre+"return types.As"+kind+"(x.Underlying()) != nil", func(t types.Type) bool {
			x, ok := as(t)
			if !ok {
				return false
			}
			_, ok = apiAs(kind, x.Underlying())
			return ok
		})
	}
	// Elem of the three containers, Len
	for _, kind := range []string{"Pointer", "Slice", "Array"} {
		kind := kind
		pre := "x := types.As" + kind + "(ctx.Type.Underlying()); if x == nil { return false }; "
		elem := func(t types.Type) (types.Type, bool) {
			v, ok := apiAs(kind, t.Underlying())
			if !ok {
				return nil, false
			}
			return v.(interface{ Elem() types.Type }).Elem(), true
		}
		add("w"+kind+"ElemInt", pre+`return types.Identical(x.Elem(), ctx.GetType("int"))`, func(t types.Type) bool {
			e, ok := elem(t)
			return ok && types.Identical(e, types.Typ[types.Int])
		})
		add("w"+kind+"ElemDefined", pre+"e := x.Elem(); return !types.Identical(e, e.Underlying())", func(t types.Type) bool {
			e, ok := elem(t)
			return ok && !types.Identical(e, e.Underlying())
		})
		add("w"+kind+"ElemString", pre+fmt.Sprintf("return x.Elem().String() == %q", "p.Node"), func(t types.Type) bool {
			e, ok := elem(t)
			return ok && e.String() == "p.Node"
		})
	}
	for _, n := range []int{0, 2, 3} {
		n := n
		add(fmt.Sprintf("wArrayLen%d", n), fmt.Sprintf("x := types.AsArray(ctx.Type.Underlying()); if x == nil { return false }; return x.Len() == %d", n), func(t types.Type) bool {
			a, ok := t.Underlying().(*types.Array)
			return ok && int(a.Len()) == n
		})
	}
	// New*: String, Underlying, Elem, Len of the constructed types
	add("wNewPointerString", `n := types.NewPointer(ctx.Type); return n.String() == "*" + ctx.Type.String()`, func(t types.Type) bool {
		return types.NewPointer(t).String() == "*"+t.String()
	})
	add("wNewPointerUnderlying", `n := types.NewPointer(ctx.Type); return types.Identical(n.Underlying(), n)`, func(t types.Type) bool {
		n := types.NewPointer(t)
		return types.Identical(n.Underlying(), n)
	})
	add("wNewPointerElem", `n := types.NewPointer(ctx.Type); return types.Identical(n.Elem(), ctx.Type.Underlying())`, func(t types.Type) bool {
		return types.Identical(types.NewPointer(t).Elem(), t.Underlying())
	})
	add("wNewSliceString", `n := types.NewSlice(ctx.Type); return n.String() == "[]" + ctx.Type.String()`, func(t types.Type) bool {
		return types.NewSlice(t).String() == "[]"+t.String()
	})
	add("wNewSliceUnderlying", `n := types.NewSlice(ctx.Type); u := n.Underlying(); return types.AsSlice(u) != nil`, func(t types.Type) bool {
		_, ok := types.NewSlice(t).Underlying().(*types.Slice)
		return ok
	})
	add("wNewSliceElem", `n := types.NewSlice(ctx.Type); return n.Elem().String() == ctx.Type.String()`, func(t types.Type) bool {
		return types.NewSlice(t).Elem().String() == t.String()
	})
	add("wNewArrayString", `n := types.NewArray(ctx.Type, 2); return n.String() == "[2]" + ctx.Type.String()`, func(t types.Type) bool {
		return types.NewArray(t, 2).String() == "[2]"+t.String()
	})
	add("wNewArrayLen", `n := types.NewArray(ctx.Type, 5); return n.Len() == 5`, func(t types.Type) bool { return types.NewArray(t, 5).Len() == 5 })
	add("wNewArrayUnderlyingElem", `n := types.NewArray(ctx.Type, 1); a := types.AsArray(n.Underlying()); if a == nil { return false }; return types.Identical(a.Elem(), ctx.Type)`, func(t types.Type) bool {
		a, ok := types.NewArray(t, 1).Underlying().(*types.Array)
		return ok && types.Identical(a.Elem(), t)
	})
	add("wNewNested", `n := types.NewSlice(types.NewPointer(types.NewArray(ctx.Type, 0))); return n.String() == "[]*[0]" + ctx.Type.String()`, func(t types.Type) bool {
		return types.NewSlice(types.NewPointer(types.NewArray(t, 0))).String() == "[]*[0]"+t.String()
	})
	// struct fields
	for i := 0; i < 3; i++ {
		i := i
		pre := fmt.Sprintf("x := types.AsStruct(ctx.Type.Underlying()); if x == nil { return false }; if x.NumFields() <= %d { return false }; v := x.Field(%d); ", i, i)
		field := func(t types.Type) (*types.Var, bool) {
			st, ok := t.Underlying().(*types.Struct)
			if !ok || st.NumFields() <= i {
				return nil, false
			}
			return st.Field(i), true
		}
		add(fmt.Sprintf("wField%dEmbedded", i), pre+"return v.Embedded()", func(t types.Type) bool {
			v, ok := field(t)
			return ok && v.Embedded()
		})
		add(fmt.Sprintf("wField%dTypePointer", i), pre+"return types.AsPointer(v.Type()) != nil", func(t types.Type) bool {
			v, ok := field(t)
			if !ok {
				return false
			}
			_, ok = v.Type().(*types.Pointer)
			return ok
		})
		add(fmt.Sprintf("wField%dTypeString", i), pre+`return v.Type().String() == "int"`, func(t types.Type) bool {
			v, ok := field(t)
			return ok && v.Type().String() == "int"
		})
	}
	for _, n := range []int{0, 2, 3} {
		n := n
		add(fmt.Sprintf("wNumFields%d", n), fmt.Sprintf("x := types.AsStruct(ctx.Type.Underlying()); if x == nil { return false }; return x.NumFields() == %d", n), func(t types.Type) bool {
			st, ok := t.Underlying().(*types.Struct)
			return ok && st.NumFields() == n
		})
	}
	// interfaces: Implements with the interface found in the matched type; GetInterface on interface and other names
	add("wErrorImplementsIt", `i := types.AsInterface(ctx.Type.Underlying()); if i == nil { return false }; return types.Implements(ctx.GetType("error"), i)`, func(t types.Type) bool {
		i, ok := t.Underlying().(*types.Interface)
		return ok && types.Implements(types.Universe.Lookup("error").Type(), i)
	})
	add("wGetInterfaceOfNonInterface", `i := ctx.GetInterface("int"); if i == nil { return types.AsPointer(ctx.Type) != nil }; return false`, func(t types.Type) bool {
		_, isIface := types.Typ[types.Int].Underlying().(*types.Interface)
		_, isPtr := t.(*types.Pointer)
		return !isIface && isPtr
	})
	add("wGetInterfaceString", `i := ctx.GetInterface("string"); if i != nil { return true }; j := ctx.GetInterface("error"); if j == nil { return true }; return types.Implements(ctx.Type, j)`, func(t types.Type) bool {
		return types.Implements(t, errIface)
	})
	add("wGetInterfaceStringOf", `i := ctx.GetInterface("error"); return i.String() == "interface{Error() string}"`, func(t types.Type) bool {
		return errIface.String() == "interface{Error() string}"
	})
	add("wGetInterfaceUnderlying", `i := ctx.GetInterface("error"); return types.Identical(i.Underlying(), ctx.Type.Underlying())`, func(t types.Type) bool {
		return types.Identical(errIface.Underlying(), t.Underlying())
	})
	return ms
}

// c04MissingType: GetType / GetInterface of a name that cannot be found fail (the dsl documents a panic), they do
// not return a value the filter could go on with.
func c04MissingType(c *Ctx, tg *hx.Target) error {
	res := c.Res
	calls := []string{`ctx.GetInterface("notqualified")`, `ctx.GetType("notqualified")`}
	if c.Thorough {
		// (a lookup in a package that does not exist goes through the importer: seconds)
		calls = append(calls, `ctx.GetInterface("nosuchpkg.Thing")`, `ctx.GetType("nosuchpkg.Thing")`)
	}
	for _, call := range calls {
		decl := "func missing(ctx *dsl.VarFilterContext) bool {\n\tt := " + call + "\n\treturn t == nil\n}\n\n"
		full := c04APIHeader + decl + "func g(m dsl.Matcher) {\n\tm.Match(`probe($x)`).Where(m[\"x\"].Filter(missing)).Report(\"hit\")\n}\n"
		e, lerr := hx.LoadRules(full)
		if lerr != nil {
			return fmt.Errorf("natives rules do not load: %v\n%s", lerr, full)
		}
		rs, pk, _, rerr := hx.Run(e, tg, hx.RunOpts{})
		if rerr != nil {
			return rerr
		}
		res.Count("natives-kinds", "missing/"+call, true)
		res.Dist("natives:missing-type:" + strings.SplitN(call, "(", 2)[0])
		if pk == "" {
			res.Violate(hx.Violation{Signature: "natives:" + strings.SplitN(strings.TrimPrefix(call, "ctx."), "(", 2)[0] + ":missing-type-does-not-fail",
				What:  "GetType / GetInterface of a type that cannot be found returns instead of failing (dsl: \"If a type can't be found (or a name is malformed), this function panics\")",
				Input: map[string]interface{}{"rules": full}, Impl: fmt.Sprintf("%d reports, no failure", len(rs)), Spec: "the run fails"})
		}
	}
	return nil
}

// c04InexactBuiltin: mirrors whose built-in counterpart is only equivalent on the sites of the first target
// (`Is("*$t") && !Is("*int")` stands for "pointer to a struct" there); on the kinds target they are compared with
// go/types only.
var c04InexactBuiltin = map[string]bool{"ptrToStruct": true}

// c04BodyLines lays a one-line body out as statements (`; ` separates statements, `{ … }` is a block).
func c04BodyLines(body string) string {
	body = strings.ReplaceAll(body, "{ ", "{\n\t\t")
	body = strings.ReplaceAll(body, " }", "\n\t}")
	return strings.ReplaceAll(body, "; ", "\n\t")
}

// c04KindsMirrors: the hand-written mirrors on the kinds target.
func c04KindsMirrors(c *Ctx, tg *hx.Target, sites []c04KindSite) error {
	res := c.Res
	for _, s := range sites {
		res.Dist("natives:kinds:site:" + s.class)
	}
	wrappers := c04WrapperMirrors(sites)
	res.Distribution["natives:kinds:wrapper-mirrors"] = len(wrappers)
	for _, m := range append(append([]c04Mirror(nil), c04Mirrors...), wrappers...) {
		decl := fmt.Sprintf("func %s(ctx *dsl.VarFilterContext) bool {\n\t%s\n}\n\n", m.name, c04BodyLines(m.body))
		if strings.Contains(m.body, "\n") {
			decl = fmt.Sprintf("func %s(ctx *dsl.VarFilterContext) bool {\n\t%s\n}\n\n", m.name, m.body) // laid out already
		}
		custom, ok, err := c04Accepted(res, tg, decl, fmt.Sprintf("m.Match(`probe($x)`).Where(m[\"x\"].Filter(%s)).Report(\"hit\")", m.name))
		if err != nil {
			return err
		}
		if !ok {
			continue
		}
		var builtin map[int]bool
		if m.builtin != "" && !c04InexactBuiltin[m.name] {
			if builtin, ok, err = c04Accepted(res, tg, "", fmt.Sprintf("m.Match(`probe($x)`).Where(%s).Report(\"hit\")", m.builtin)); err != nil {
				return err
			}
			if !ok {
				builtin = nil
			}
		}
		// one witness per mirror and comparison: the first failing site (its class is part of the signature)
		badOracle, badBuiltin := false, false
		for _, s := range sites {
			want := m.oracle(s.typ, tg)
			have := custom[s.pos]
			res.Count("natives-kinds", fmt.Sprintf("%s/%d", m.name, s.pos), true)
			in := map[string]interface{}{"helper": m.name, "body": m.body, "site": "probe(" + s.text + ")", "type": s.typ.String(), "site_class": s.class}
			if have != want && !badOracle {
				badOracle = true
				res.Violate(hx.Violation{Signature: "natives:" + m.name + "@" + s.class, What: "custom filter built on the dsl/types API disagrees with go/types", Input: in,
					Impl: fmt.Sprint(have), Spec: fmt.Sprint(want)})
			}
			if builtin != nil && builtin[s.pos] != have && !badBuiltin {
				badBuiltin = true
				res.Violate(hx.Violation{Signature: "natives:" + m.name + "@" + s.class + "-vs-builtin", What: "custom filter and the built-in predicate it mirrors (" + m.builtin + ") disagree", Input: in,
					Impl: fmt.Sprintf("custom=%v builtin=%v", have, builtin[s.pos]), Spec: "equal"})
			}
		}
	}
	return nil
}

// ---- generated filters over the dsl/types API ----------------------------------------------------------------------

// apiVal is the value of a local of a generated filter in the go/types walk: a types.Type, or a typed (possibly nil)
// *types.Pointer / *types.Slice / *types.Array / *types.Struct / *types.Interface / *types.Var.
type apiVal interface{}

type apiEnv struct {
	site types.Type
	vals map[string]apiVal
}

// apiStmt is one statement of a generated filter: its source lines and what it does in the go/types walk
// (ret != nil: the function returns *ret).
type apiStmt struct {
	src  string
	exec func(e *apiEnv) *bool
}

type apiFilter struct {
	name  string
	stmts []apiStmt
	ops   []string // the helpers used, in order
	// user functions the filter calls (declared before it)
	helpers []string
}

func (f *apiFilter) source() string {
	var b strings.Builder
	for _, h := range f.helpers {
		b.WriteString(h)
	}
	fmt.Fprintf(&b, "func %s(ctx *dsl.VarFilterContext) bool {\n", f.name)
	for _, s := range f.stmts {
		b.WriteString(s.src)
	}
	b.WriteString("}\n\n")
	return b.String()
}

// eval is the go/types walk; a panic (an operation go/types itself refuses) is reported as such.
func (f *apiFilter) eval(site types.Type) (out bool, panicked string) {
	defer func() {
		if r := recover(); r != nil {
			panicked = fmt.Sprint(r)
		}
	}()
	e := &apiEnv{site: site, vals: map[string]apiVal{}}
	for _, s := range f.stmts {
		if ret := s.exec(e); ret != nil {
			return *ret, ""
		}
	}
	return false, "no return"
}

func apiBool(b bool) *bool { return &b }

func apiAs(kind string, t types.Type) (apiVal, bool) {
	switch kind {
	case "Pointer":
		v, ok := t.(*types.Pointer)
		return v, ok
	case "Slice":
		v, ok := t.(*types.Slice)
		return v, ok
	case "Array":
		v, ok := t.(*types.Array)
		return v, ok
	case "Struct":
		v, ok := t.(*types.Struct)
		return v, ok
	default:
		v, ok := t.(*types.Interface)
		return v, ok
	}
}

type apiLocal struct {
	name string
	kind string     // Type, Pointer, Slice, Array, Struct, Interface, Var
	val  types.Type // its value on the guide site (for Var: the field's type); nil = unknown
	v    *types.Var
}

type apiGen struct {
	r       *rand.Rand
	locals  []apiLocal
	f       *apiFilter
	seq     int
	pending bool     // the next step opens the container found by the last one
	lits    []string // type strings seen on the target (for String() == "…")
	feat    func(string)
}

func (g *apiGen) pick(n int) int        { return g.r.Intn(n) }
func (g *apiGen) chance(p float64) bool { return g.r.Float64() < p }

func (g *apiGen) fresh(prefix string) string {
	g.seq++
	return fmt.Sprintf("%s%d", prefix, g.seq)
}

func (g *apiGen) localsOf(kinds ...string) []apiLocal {
	var out []apiLocal
	for _, l := range g.locals {
		for _, k := range kinds {
			if l.kind == k {
				out = append(out, l)
			}
		}
	}
	return out
}

// helper declares a user function of the rules file once.
func (g *apiGen) helper(name, src string) {
	for _, h := range g.f.helpers {
		if h == src {
			return
		}
	}
	g.f.helpers = append(g.f.helpers, src)
}

func (g *apiGen) op(name string) {
	g.f.ops = append(g.f.ops, name)
	g.feat("natives:gen:op:" + name)
}

// typeOf reads a local as a types.Type (every dsl/types value except *Var is one).
func apiType(e *apiEnv, name string) types.Type {
	t, _ := e.vals[name].(types.Type)
	return t
}

// defType adds `name := <expr>` for a Type-valued expression.
func (g *apiGen) defType(src string, guide types.Type, compute func(e *apiEnv) types.Type) apiLocal {
	l := apiLocal{name: g.fresh("t"), kind: "Type", val: guide}
	name := l.name
	g.f.stmts = append(g.f.stmts, apiStmt{src: "\t" + name + " := " + src + "\n", exec: func(e *apiEnv) *bool {
		e.vals[name] = compute(e)
		return nil
	}})
	g.locals = append(g.locals, l)
	return l
}

var apiGetTypes = map[string]types.Type{
	"int": types.Typ[types.Int], "string": types.Typ[types.String], "error": types.Universe.Lookup("error").Type(),
}

// step extends the walk by one statement; false when nothing more fits (8 locals).
func (g *apiGen) step() bool {
	if len(g.locals) >= 7 {
		return false
	}
	ts := g.localsOf("Type", "Pointer", "Slice", "Array", "Struct", "Interface")
	from := ts[g.pick(len(ts))]
	if g.chance(0.6) {
		from = ts[len(ts)-1] // mostly the walk continues from the newest value
	}
	fname := from.name
	k := g.pick(20)
	opening := false
	if g.pending || g.chance(0.65) {
		g.pending = false
		// a container is mostly opened: Elem of a pointer / slice / array, a field of a struct
		switch g.locals[len(g.locals)-1].kind {
		case "Pointer", "Slice", "Array":
			k, opening = 12, true
		case "Struct":
			k, opening = 15, true
		}
	}
	if from.kind == "Type" && from.val != nil && k < 17 && !opening {
		// on the guide site: a type that answers an As* is mostly asked, a defined type mostly has its underlying type taken
		opens := false
		for _, cand := range []string{"Pointer", "Slice", "Array", "Struct", "Interface"} {
			if _, ok := apiAs(cand, from.val); ok {
				opens = true
			}
		}
		switch {
		case opens && g.chance(0.6):
			k = 4
		case !opens && from.val.Underlying() != from.val && g.chance(0.6):
			k = 0
		}
	}
	switch {
	case k < 4:
		g.op(from.kind + ".Underlying")
		var gv types.Type
		if from.val != nil {
			gv = from.val.Underlying()
		}
		g.defType(fname+".Underlying()", gv, func(e *apiEnv) types.Type { return apiType(e, fname).Underlying() })
	case k < 12:
		// As*: mostly the one that succeeds on the guide site
		kinds := []string{"Pointer", "Slice", "Array", "Struct", "Interface"}
		kind := kinds[g.pick(len(kinds))]
		if from.val != nil && g.chance(0.85) {
			for _, cand := range kinds {
				if _, ok := apiAs(cand, from.val); ok {
					kind = cand
				}
			}
		}
		g.op("As" + kind)
		l := apiLocal{name: g.fresh(strings.ToLower(kind[:1])), kind: kind}
		if from.val != nil {
			if v, ok := apiAs(kind, from.val); ok {
				l.val = v.(types.Type)
			}
		}
		name := l.name
		onNil := g.chance(0.3)
		// the As* call is made in place, or by a user function whose (pointer) result is nil when the assertion fails;
		// the nil test is made in place, with nil on the left, or by a second user function the result is passed on to
		call := fmt.Sprintf("types.As%s(%s)", kind, fname)
		if g.chance(0.3) {
			h := g.f.name + "_as" + kind
			g.helper(h, fmt.Sprintf("func %s(t types.Type) *types.%s {\n\treturn types.As%s(t)\n}\n\n", h, kind, kind))
			g.feat("natives:gen:nil-result:pointer-result-of-user-function")
			call = h + "(" + fname + ")"
		}
		test := name + " == nil"
		switch g.pick(6) {
		case 0:
			g.feat("natives:gen:nil-result:nil-on-the-left")
			test = "nil == " + name
		case 1:
			h := g.f.name + "_nil" + kind
			g.helper(h, fmt.Sprintf("func %s(p *types.%s) bool {\n\treturn p == nil\n}\n\n", h, kind))
			g.feat("natives:gen:nil-result:passed-on-to-user-function")
			test = h + "(" + name + ")"
		case 2:
			g.feat("natives:gen:nil-result:negated-not-nil")
			test = "!(" + name + " != nil)"
		}
		g.f.stmts = append(g.f.stmts, apiStmt{
			src: fmt.Sprintf("\t%s := %s\n\tif %s {\n\t\treturn %v\n\t}\n", name, call, test, onNil),
			exec: func(e *apiEnv) *bool {
				v, ok := apiAs(kind, apiType(e, fname))
				e.vals[name] = v
				if !ok {
					return apiBool(onNil)
				}
				return nil
			}})
		g.locals = append(g.locals, l)
		if l.val == nil {
			return false // the guide site leaves here: the rest of the walk would be blind
		}
		g.pending = g.chance(0.8) // what was found is mostly looked into
	case k < 15:
		// Elem of a pointer, slice or array
		cs := g.localsOf("Pointer", "Slice", "Array")
		if len(cs) == 0 {
			return true
		}
		c := cs[len(cs)-1]
		cname := c.name
		g.op(c.kind + ".Elem")
		var gv types.Type
		if c.val != nil {
			gv = c.val.(interface{ Elem() types.Type }).Elem()
		}
		g.defType(cname+".Elem()", gv, func(e *apiEnv) types.Type {
			return e.vals[cname].(interface{ Elem() types.Type }).Elem()
		})
	case k < 17:
		// a field of a struct, behind a NumFields guard
		cs := g.localsOf("Struct")
		if len(cs) == 0 {
			return true
		}
		c := cs[len(cs)-1]
		cname := c.name
		i := g.pick(3)
		g.op("Struct.Field")
		l := apiLocal{name: g.fresh("v"), kind: "Var"}
		if st, ok := c.val.(*types.Struct); ok && st.NumFields() > i {
			l.v = st.Field(i)
		}
		name := l.name
		onShort := g.chance(0.3)
		g.f.stmts = append(g.f.stmts, apiStmt{
			src: fmt.Sprintf("\tif %s.NumFields() <= %d {\n\t\treturn %v\n\t}\n\t%s := %s.Field(%d)\n", cname, i, onShort, name, cname, i),
			exec: func(e *apiEnv) *bool {
				st := e.vals[cname].(*types.Struct)
				if st.NumFields() <= i {
					return apiBool(onShort)
				}
				e.vals[name] = st.Field(i)
				return nil
			}})
		g.locals = append(g.locals, l)
		if l.v == nil {
			return false
		}
		if g.chance(0.7) {
			g.op("Var.Type")
			g.defType(name+".Type()", l.v.Type(), func(e *apiEnv) types.Type { return e.vals[name].(*types.Var).Type() })
		}
	case k < 19:
		// New*
		switch g.pick(3) {
		case 0:
			g.op("NewPointer")
			var gv types.Type
			if from.val != nil {
				gv = types.NewPointer(from.val)
			}
			g.defType("types.NewPointer("+fname+")", gv, func(e *apiEnv) types.Type { return types.NewPointer(apiType(e, fname)) })
		case 1:
			g.op("NewSlice")
			var gv types.Type
			if from.val != nil {
				gv = types.NewSlice(from.val)
			}
			g.defType("types.NewSlice("+fname+")", gv, func(e *apiEnv) types.Type { return types.NewSlice(apiType(e, fname)) })
		default:
			n := int64(g.pick(4))
			g.op("NewArray")
			var gv types.Type
			if from.val != nil {
				gv = types.NewArray(from.val, n)
			}
			g.defType(fmt.Sprintf("types.NewArray(%s, %d)", fname, n), gv, func(e *apiEnv) types.Type { return types.NewArray(apiType(e, fname), n) })
		}
	default:
		names := []string{"int", "string", "error"}
		nm := names[g.pick(len(names))]
		g.op("GetType")
		g.defType(fmt.Sprintf("ctx.GetType(%q)", nm), apiGetTypes[nm], func(e *apiEnv) types.Type { return apiGetTypes[nm] })
	}
	return true
}

// final adds the return statement.
func (g *apiGen) final() {
	ts := g.localsOf("Type", "Pointer", "Slice", "Array", "Struct", "Interface")
	a := ts[len(ts)-1]
	if g.chance(0.3) {
		a = ts[g.pick(len(ts))]
	}
	b := ts[g.pick(len(ts))]
	an, bn := a.name, b.name
	neg := g.chance(0.2)
	wrap := func(s string) string {
		if neg {
			return "!(" + s + ")"
		}
		return s
	}
	ret := func(src string, f func(e *apiEnv) bool) {
		g.f.stmts = append(g.f.stmts, apiStmt{src: "\treturn " + wrap(src) + "\n", exec: func(e *apiEnv) *bool {
			v := f(e)
			if neg {
				v = !v
			}
			return &v
		}})
	}
	for tries := 0; ; tries++ {
		switch k := g.pick(13); k {
		case 0, 1:
			// Identical with another local, or with a type built for the purpose
			if an == bn || g.chance(0.5) {
				nm := []string{"int", "string", "error"}[g.pick(3)]
				wrapT := g.pick(4)
				src := fmt.Sprintf("ctx.GetType(%q)", nm)
				mk := func() types.Type { return apiGetTypes[nm] }
				switch wrapT {
				case 1:
					src = "types.NewPointer(" + src + ")"
					mk = func() types.Type { return types.NewPointer(apiGetTypes[nm]) }
				case 2:
					src = "types.NewSlice(" + src + ")"
					mk = func() types.Type { return types.NewSlice(apiGetTypes[nm]) }
				case 3:
					src = "types.NewArray(" + src + ", 3)"
					mk = func() types.Type { return types.NewArray(apiGetTypes[nm], 3) }
				}
				g.op("Identical")
				ret("types.Identical("+an+", "+src+")", func(e *apiEnv) bool { return types.Identical(apiType(e, an), mk()) })
				return
			}
			g.op("Identical")
			ret("types.Identical("+an+", "+bn+")", func(e *apiEnv) bool { return types.Identical(apiType(e, an), apiType(e, bn)) })
			return
		case 2:
			g.op("Implements")
			if is := g.localsOf("Interface"); len(is) > 0 && g.chance(0.6) {
				in := is[len(is)-1].name
				ret("types.Implements("+bn+", "+in+")", func(e *apiEnv) bool { return types.Implements(apiType(e, bn), e.vals[in].(*types.Interface)) })
				return
			}
			ret("types.Implements("+an+", ctx.GetInterface(\"error\"))", func(e *apiEnv) bool {
				return types.Implements(apiType(e, an), types.Universe.Lookup("error").Type().Underlying().(*types.Interface))
			})
			return
		case 3, 4:
			lit := g.lits[g.pick(len(g.lits))]
			if a.val != nil && g.chance(0.8) {
				lit = a.val.String()
			}
			g.op(a.kind + ".String")
			ret(fmt.Sprintf("%s.String() == %q", an, lit), func(e *apiEnv) bool { return apiType(e, an).String() == lit })
			return
		case 5, 6:
			n := []int{0, 1, 8, 16, 24}[g.pick(5)]
			op := []string{"==", ">=", "<"}[g.pick(3)]
			g.op("SizeOf")
			ret(fmt.Sprintf("ctx.SizeOf(%s) %s %d", an, op, n), func(e *apiEnv) bool {
				sz := int(sizeOfOracle(apiType(e, an)))
				switch op {
				case "==":
					return sz == n
				case ">=":
					return sz >= n
				}
				return sz < n
			})
			return
		case 7:
			if as := g.localsOf("Array"); len(as) > 0 {
				arr := as[len(as)-1].name
				n := g.pick(4)
				g.op("Array.Len")
				ret(fmt.Sprintf("%s.Len() == %d", arr, n), func(e *apiEnv) bool { return int(e.vals[arr].(*types.Array).Len()) == n })
				return
			}
		case 8:
			if ss := g.localsOf("Struct"); len(ss) > 0 {
				st := ss[len(ss)-1].name
				n := g.pick(4)
				g.op("Struct.NumFields")
				ret(fmt.Sprintf("%s.NumFields() == %d", st, n), func(e *apiEnv) bool { return e.vals[st].(*types.Struct).NumFields() == n })
				return
			}
		case 9:
			if vs := g.localsOf("Var"); len(vs) > 0 {
				v := vs[len(vs)-1].name
				g.op("Var.Embedded")
				ret(v+".Embedded()", func(e *apiEnv) bool { return e.vals[v].(*types.Var).Embedded() })
				return
			}
		case 10:
			if vs := g.localsOf("Var"); len(vs) > 0 {
				v := vs[len(vs)-1].name
				g.op("Var.Type")
				g.op("Identical")
				ret("types.Identical("+v+".Type(), "+bn+")", func(e *apiEnv) bool { return types.Identical(e.vals[v].(*types.Var).Type(), apiType(e, bn)) })
				return
			}
		default:
			kind := []string{"Pointer", "Slice", "Array", "Struct", "Interface"}[g.pick(5)]
			op := []string{"!=", "=="}[g.pick(2)]
			g.op("As" + kind)
			ret(fmt.Sprintf("types.As%s(%s) %s nil", kind, an, op), func(e *apiEnv) bool {
				_, ok := apiAs(kind, apiType(e, an))
				return ok == (op == "!=")
			})
			return
		}
		if tries > 20 {
			g.op("AsPointer")
			ret("types.AsPointer("+an+") != nil", func(e *apiEnv) bool { _, ok := apiAs("Pointer", apiType(e, an)); return ok })
			return
		}
	}
}

// genAPIFilter builds one filter whose walk is guided by the type of one site of the target.
func genAPIFilter(r *rand.Rand, name string, guide types.Type, lits []string, feat func(string)) *apiFilter {
	g := &apiGen{r: r, f: &apiFilter{name: name}, lits: lits, feat: feat}
	g.defType("ctx.Type", guide, func(e *apiEnv) types.Type { return e.site })
	g.op("ctx.Type")
	steps := 1 + g.pick(6)
	for i := 0; i < steps || g.pending; i++ {
		if !g.step() {
			break
		}
	}
	g.readUnused()
	g.final()
	return g.f
}

// readUnused: Go rejects a local that is never read.  A local the walk did not read gets a guard of its own that
// reads it: Identical(t, t) (reflexive in go/types), String() (never empty), Embedded() of a field.
func (g *apiGen) readUnused() {
	text := ""
	for _, s := range g.f.stmts {
		text += s.src
	}
	for _, l := range g.locals {
		if strings.Count(text, l.name+".")+strings.Count(text, l.name+")")+strings.Count(text, l.name+",")+strings.Count(text, l.name+" ==") > 0 {
			continue
		}
		name := l.name
		switch {
		case l.kind == "Var":
			on := g.chance(0.5)
			g.op("Var.Embedded")
			g.f.stmts = append(g.f.stmts, apiStmt{src: fmt.Sprintf("\tif %s.Embedded() {\n\t\treturn %v\n\t}\n", name, on), exec: func(e *apiEnv) *bool {
				if e.vals[name].(*types.Var).Embedded() {
					return apiBool(on)
				}
				return nil
			}})
		case g.chance(0.5):
			g.op("Identical")
			g.f.stmts = append(g.f.stmts, apiStmt{src: fmt.Sprintf("\tif !types.Identical(%s, %s) {\n\t\treturn true\n\t}\n", name, name), exec: func(e *apiEnv) *bool {
				if !types.Identical(apiType(e, name), apiType(e, name)) {
					return apiBool(true)
				}
				return nil
			}})
		default:
			g.op(l.kind + ".String")
			g.f.stmts = append(g.f.stmts, apiStmt{src: fmt.Sprintf("\tif %s.String() == \"\" {\n\t\treturn true\n\t}\n", name), exec: func(e *apiEnv) *bool {
				if apiType(e, name).String() == "" {
					return apiBool(true)
				}
				return nil
			}})
		}
	}
}

func c04GeneratedFilters(c *Ctx, tg *hx.Target, sites []c04KindSite) error {
	res := c.Res
	n := 70
	if c.Thorough {
		n = 900
	}
	r := hx.Rng(c.Seed, "c04-api-filters")
	litSet := map[string]bool{}
	for _, s := range sites {
		litSet[s.typ.String()] = true
		litSet[s.typ.Underlying().String()] = true
	}
	var lits []string
	for l := range litSet {
		lits = append(lits, l)
	}
	sort.Strings(lits)
	// guide sites are drawn by kind of underlying type first, so that structs and arrays guide as many walks as pointers
	groups := map[string][]c04KindSite{}
	var groupKeys []string
	for _, s := range sites {
		k := fmt.Sprintf("%T", s.typ.Underlying())
		if p, ok := s.typ.Underlying().(*types.Pointer); ok {
			k += fmt.Sprintf("%T", p.Elem().Underlying()) // pointers by what they point to
		}
		if groups[k] == nil {
			groupKeys = append(groupKeys, k)
		}
		groups[k] = append(groups[k], s)
	}
	sort.Strings(groupKeys)
	// structs (fields, embedding) and arrays have the most accessors: they guide three times as often
	for _, k := range append([]string(nil), groupKeys...) {
		if strings.Contains(k, "Struct") || strings.Contains(k, "Array") {
			groupKeys = append(groupKeys, k, k)
		}
	}
	reported := 0
	for i := 0; i < n; i++ {
		grp := groups[groupKeys[r.Intn(len(groupKeys))]]
		guide := grp[r.Intn(len(grp))]
		f := genAPIFilter(r, fmt.Sprintf("gen%d", i), guide.typ, lits, res.Dist)
		src := f.source()
		got, ok, err := c04Accepted(res, tg, src, fmt.Sprintf("m.Match(`probe($x)`).Where(m[\"x\"].Filter(%s)).Report(\"hit\")", f.name))
		if err != nil {
			return err
		}
		if !ok {
			continue
		}
		res.Distribution["natives:gen:filters"]++
		res.Distribution[fmt.Sprintf("natives:gen:statements-%d", len(f.stmts))]++
		if i == 0 {
			res.Sample(map[string]interface{}{"generated_filter": src, "guide_site": "probe(" + guide.text + ")"})
		}
		accepted := 0
		for _, s := range sites {
			want, pk := f.eval(s.typ)
			if pk != "" {
				// the walk itself is not defined by go/types here (the generator guards every As*): nothing to compare
				res.Dist("natives:gen:oracle-undefined")
				continue
			}
			have := got[s.pos]
			res.Count("natives-gen", fmt.Sprintf("%d/%d", i, s.pos), want || s.pos == guide.pos)
			if want {
				accepted++
			}
			if have != want && reported < 2 {
				reported++
				res.Violate(hx.Violation{Signature: "natives:gen:" + strings.Join(f.ops, ".") + "@" + s.class,
					What:  "a generated custom filter over the dsl/types API accepts a different set of matches than the same walk made with go/types",
					Input: map[string]interface{}{"filter": src, "site": "probe(" + s.text + ")", "type": s.typ.String(), "site_class": s.class, "helpers": f.ops},
					Impl:  fmt.Sprint(have), Spec: fmt.Sprint(want)})
			}
		}
		switch {
		case accepted == 0:
			res.Dist("natives:gen:accepts-no-site")
		case accepted == len(sites):
			res.Dist("natives:gen:accepts-every-site")
		default:
			res.Dist("natives:gen:accepts-some-sites")
		}
	}
	return nil
}

// ---- Do functions with several DoVar values alive --------------------------------------------------------------------

const c04DoTarget = `package p

type S2 struct{ a, b int }

func pair(a, b interface{})      {}
func triple(a, b, c interface{}) {}

func g(i int, s string, ps *S2, err error, ss []string, f64 float64) {
	pair(10, "str")
	pair(i, s)
	pair(ps, err)
	pair(ss, i+1)
	pair(s, s)
	pair(&ps.a, f64)
	triple(i, s, ps)
	triple("a", 2, err)
	triple(ss, ss[0], len(ss))
	triple(ps.b, ps, *ps)
}
`

type c04DoSite struct {
	pos   int
	n     int
	texts []string
	typs  []string
}

func c04DoSites(tg *hx.Target) []c04DoSite {
	var sites []c04DoSite
	ast.Inspect(tg.File, func(n ast.Node) bool {
		call, ok := n.(*ast.CallExpr)
		if !ok {
			return true
		}
		id, ok := call.Fun.(*ast.Ident)
		if !ok || (id.Name != "pair" && id.Name != "triple") {
			return true
		}
		st := c04DoSite{pos: tg.Fset.Position(call.Pos()).Offset, n: len(call.Args)}
		for _, a := range call.Args {
			st.texts = append(st.texts, string(tg.Src[tg.Fset.Position(a.Pos()).Offset:tg.Fset.Position(a.End()).Offset]))
			st.typs = append(st.typs, tg.Info.TypeOf(a).String())
		}
		sites = append(sites, st)
		return true
	})
	return sites
}

// doRead is one read of one variable: 0 = Text(), 1 = Type().String().
type doRead struct{ v, op int }

// doFunc is a generated Do function: the source of its declarations and the oracle (the report it must set for a site).
type doFunc struct {
	src     string
	nvars   int
	report  []doRead // in the order their values appear in the report
	suggest []doRead // same for the suggestion (nil: none set)
	shape   string
}

var doVarNames = []string{"x", "y", "z"}

// genDoFunc: acq = the order in which ctx.Var results are stored in locals (variables not listed are looked up in
// place); reads = the reads in evaluation order; early[i] = read i is stored in a string local at once (true) or is an
// operand of the final concatenation (false); helper[i] = the read goes through a user function with a *dsl.DoVar
// parameter.  The report lists first the early reads, then the late ones, which is also their evaluation order.
func genDoFunc(name string, nvars int, acq []int, acqAt []int, reads []doRead, early, helper []bool, suggest bool) doFunc {
	var b strings.Builder
	needTxt, needTyp := false, false
	for i := range reads {
		if helper[i] {
			if reads[i].op == 0 {
				needTxt = true
			} else {
				needTyp = true
			}
		}
	}
	if needTxt {
		fmt.Fprintf(&b, "func %s_txt(v *dsl.DoVar) string {\n\treturn v.Text()\n}\n\n", name)
	}
	if needTyp {
		fmt.Fprintf(&b, "func %s_typ(pre string, v *dsl.DoVar) string {\n\treturn pre + v.Type().String()\n}\n\n", name)
	}
	fmt.Fprintf(&b, "func %s(ctx *dsl.DoContext) {\n", name)
	held, usedHeld := map[int]bool{}, map[int]bool{}
	expr := func(rd doRead, viaHelper bool) string {
		ref := fmt.Sprintf("ctx.Var(%q)", doVarNames[rd.v])
		if held[rd.v] {
			ref = "d" + doVarNames[rd.v]
			usedHeld[rd.v] = true
		}
		switch {
		case viaHelper && rd.op == 0:
			return name + "_txt(" + ref + ")"
		case viaHelper:
			return name + "_typ(\"\", " + ref + ")"
		case rd.op == 0:
			return ref + ".Text()"
		}
		return ref + ".Type().String()"
	}
	// acquisitions happen before the read with the same index (acqAt[k] = index of the first read after acquisition k)
	var lateIdx []int
	var order []doRead
	ai := 0
	emitAcq := func(upto int) {
		for ai < len(acq) && acqAt[ai] <= upto {
			fmt.Fprintf(&b, "\td%s := ctx.Var(%q)\n", doVarNames[acq[ai]], doVarNames[acq[ai]])
			held[acq[ai]] = true
			ai++
		}
	}
	var parts []string
	for i, rd := range reads {
		emitAcq(i)
		if early[i] {
			fmt.Fprintf(&b, "\ts%d := %s\n", i, expr(rd, helper[i]))
			parts = append(parts, fmt.Sprintf("s%d", i))
			order = append(order, rd)
		} else {
			lateIdx = append(lateIdx, i)
		}
	}
	emitAcq(len(reads))
	for _, i := range lateIdx {
		parts = append(parts, expr(reads[i], helper[i]))
		order = append(order, reads[i])
	}
	// every acquired local must be read (Go rejects unused variables): a variable acquired and never read is read last
	for _, v := range acq {
		if !usedHeld[v] {
			parts = append(parts, expr(doRead{v, 0}, false))
			order = append(order, doRead{v, 0})
		}
	}
	fmt.Fprintf(&b, "\tctx.SetReport(%s)\n", strings.Join(parts, " + \"|\" + "))
	d := doFunc{nvars: nvars, report: order}
	if suggest {
		// the suggestion reads the variables once more, in reverse order
		var sp []string
		for i := len(order) - 1; i >= 0; i-- {
			sp = append(sp, expr(order[i], false))
			d.suggest = append(d.suggest, order[i])
		}
		fmt.Fprintf(&b, "\tctx.SetSuggest(%s)\n", strings.Join(sp, " + \"/\" + "))
	}
	b.WriteString("}\n\n")
	d.src = b.String()
	return d
}

func (d doFunc) want(s c04DoSite, reads []doRead, sep string) string {
	var parts []string
	for _, rd := range reads {
		if rd.op == 0 {
			parts = append(parts, s.texts[rd.v])
		} else {
			parts = append(parts, s.typs[rd.v])
		}
	}
	return strings.Join(parts, sep)
}

func c04Perms(n int) [][]int {
	if n == 0 {
		return [][]int{nil}
	}
	var out [][]int
	for _, p := range c04Perms(n - 1) {
		for i := 0; i <= len(p); i++ {
			q := append(append(append([]int(nil), p[:i]...), n-1), p[i:]...)
			out = append(out, q)
		}
	}
	return out
}

func c04DoVars(c *Ctx) error {
	res := c.Res
	tg, err := hx.ParseTarget("c04do.go", c04DoTarget)
	if err != nil {
		return fmt.Errorf("do target: %v", err)
	}
	sites := c04DoSites(tg)
	r := hx.Rng(c.Seed, "c04-dovars")
	var funcs []doFunc
	// every order of the four reads of two variables, both acquisition orders, everything alive before the first read
	four := []doRead{{0, 0}, {0, 1}, {1, 0}, {1, 1}}
	for _, acq := range [][]int{{0, 1}, {1, 0}} {
		for _, p := range c04Perms(4) {
			reads := make([]doRead, 4)
			for i, j := range p {
				reads[i] = four[j]
			}
			d := genDoFunc(fmt.Sprintf("do%d", len(funcs)), 2, acq, []int{0, 0}, reads, make([]bool, 4), make([]bool, 4), false)
			d.shape = "2-vars-alive:every-order"
			funcs = append(funcs, d)
		}
	}
	// seeded interleavings: acquisitions between reads, early and late reads, helpers, in-place lookups, suggestions
	nRandom := 32
	if c.Thorough {
		nRandom = 700
	}
	for k := 0; k < nRandom; k++ {
		nv := 2 + r.Intn(2)
		nr := nv + r.Intn(2*nv)
		if nr > 6 {
			nr = 6
		}
		reads := make([]doRead, nr)
		early, helper := make([]bool, nr), make([]bool, nr)
		nEarly := 0
		for i := range reads {
			reads[i] = doRead{r.Intn(nv), r.Intn(2)}
			if nEarly < 4 && r.Intn(3) == 0 {
				early[i] = true
				nEarly++
			}
			helper[i] = r.Intn(5) == 0
		}
		acq := r.Perm(nv)
		if r.Intn(3) == 0 {
			acq = acq[:nv-1] // one variable is only looked up in place
		}
		acqAt := make([]int, len(acq))
		at := 0
		for i := range acqAt {
			if r.Intn(2) == 0 {
				at += r.Intn(nr - at + 1)
			}
			acqAt[i] = at
		}
		d := genDoFunc(fmt.Sprintf("do%d", len(funcs)), nv, acq, acqAt, reads, early, helper, r.Intn(4) == 0)
		d.shape = fmt.Sprintf("%d-vars:%d-held:interleaved", nv, len(acq))
		funcs = append(funcs, d)
	}
	header := "package gorules\n\nimport \"github.com/quasilyte/go-ruleguard/dsl\"\n\n"
	for fi, d := range funcs {
		pat := "pair($x, $y)"
		if d.nvars == 3 {
			pat = "triple($x, $y, $z)"
		}
		name := fmt.Sprintf("do%d", fi)
		full := header + d.src + "func g(m dsl.Matcher) {\n\tm.Match(`" + pat + "`).Do(" + name + ")\n}\n"
		rs, ok, err := c04RunRules(res, tg, full)
		if err != nil {
			return err
		}
		if !ok {
			continue
		}
		res.Dist("natives:DoVar:" + d.shape)
		if fi == 0 || fi == len(funcs)-1 {
			res.Sample(map[string]interface{}{"do_function": d.src, "pattern": pat})
		}
		byPos := map[int]hx.Report{}
		for _, rp := range rs {
			byPos[rp.Pos] = rp
		}
		for _, s := range sites {
			if s.n != d.nvars {
				continue
			}
			res.Count("natives-dovars", fmt.Sprintf("%d/%d", fi, s.pos), true)
			want := d.want(s, d.report, "|")
			rp, found := byPos[s.pos]
			have := rp.Message
			if !found {
				have = "(no report)"
			}
			in := map[string]interface{}{"rules": full, "site": fmt.Sprintf("%s with captures %q of types %q", pat, s.texts, s.typs)}
			if have != want {
				res.Violate(hx.Violation{Signature: "natives:DoVar.Text/Type:" + fmt.Sprintf("%d-vars-alive", d.nvars),
					What:  "a Do function that keeps several DoVar values alive sees a different text/type than the source and go/types",
					Input: in, Impl: have, Spec: want})
			}
			if d.suggest != nil && found {
				ws := d.want(s, d.suggest, "/")
				if !rp.HasSugg || rp.Repl != ws {
					res.Violate(hx.Violation{Signature: "natives:DoContext.SetSuggest:" + fmt.Sprintf("%d-vars-alive", d.nvars),
						What:  "the suggestion set by a Do function from several DoVar values is not the captures' text/types",
						Input: in, Impl: fmt.Sprintf("%v %q", rp.HasSugg, rp.Repl), Spec: ws})
				}
			}
		}
	}
	res.Distribution["natives:DoVar:functions"] = len(funcs)
	res.Distribution["natives:DoVar:sites"] = len(sites)
	return nil
}

// c04API runs the three suites.
func c04API(c *Ctx) error {
	t0 := time.Now()
	lap := func(what string) {
		if os.Getenv("C04_DEBUG") != "" {
			fmt.Fprintf(os.Stderr, "C04_DEBUG natives %s: %.1fs\n", what, time.Since(t0).Seconds())
		}
		t0 = time.Now()
	}
	defer func() { lap("do-vars") }()
	tg, err := hx.ParseTarget("c04kinds.go", c04KindsSource())
	if err != nil {
		return fmt.Errorf("kinds target: %v", err)
	}
	sites, err := c04KindSites(tg)
	if err != nil {
		return err
	}
	c.Res.Distribution["natives:kinds:sites"] = len(sites)
	if err := c04KindsMirrors(c, tg, sites); err != nil {
		return err
	}
	lap("kinds mirrors")
	if err := c04MissingType(c, tg); err != nil {
		return err
	}
	lap("missing types")
	if err := c04GeneratedFilters(c, tg, sites); err != nil {
		return err
	}
	lap("generated filters")
	return c04DoVars(c)
}
