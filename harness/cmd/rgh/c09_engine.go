package main

// C09, suite "engine-history": a run depends only on its inputs — also not on what the *engine* saw
// before.  Rule sets made of every type-directed predicate (gen_typeid.go) are run over files with
// colliding type identities (instantiations of one generic type, same-named local types, packages
// type-checked under one path): file B after file A (and after longer histories) on one engine,
// in both orders, with no / a fresh / one reused RunnerState, must report exactly what file B
// reports alone on a fresh engine.

import (
	"fmt"
	"go/ast"
	"go/types"
	"path/filepath"
	"regexp"
	"sort"
	"strings"

	"github.com/quasilyte/go-ruleguard/ruleguard"
	"verifharness/hx"
)

var tidSinkRe = regexp.MustCompile(`^(s\d+|pair|many)$`)

// tidIdentities: FQN -> fingerprints of the distinct named types of that FQN among the sink arguments of t.
func tidIdentities(t *hx.Target) (ids map[string]map[string]bool, classes map[string]bool) {
	ids = map[string]map[string]bool{}
	classes = map[string]bool{}
	ast.Inspect(t.File, func(n ast.Node) bool {
		call, ok := n.(*ast.CallExpr)
		if !ok {
			return true
		}
		fn, ok := call.Fun.(*ast.Ident)
		if !ok || !tidSinkRe.MatchString(fn.Name) {
			return true
		}
		for _, a := range call.Args {
			typ := t.Info.TypeOf(a)
			if typ == nil {
				continue
			}
			_, viaAlias := typ.(*types.Alias)
			named, ok := types.Unalias(typ).(*types.Named)
			if !ok || named.Obj().Pkg() == nil {
				continue
			}
			fqn := named.Obj().Pkg().Path() + "." + named.Obj().Name()
			class := "package-level"
			switch {
			case named.TypeArgs().Len() > 0:
				class = "generic-instance"
			case named.Obj().Parent() != named.Obj().Pkg().Scope():
				class = "local"
			}
			if viaAlias {
				classes[fqn+"\x00via-alias"] = true
			}
			classes[fqn+"\x00"+class] = true
			if ids[fqn] == nil {
				ids[fqn] = map[string]bool{}
			}
			ids[fqn][types.TypeString(named, nil)+"|"+types.TypeString(named.Underlying(), nil)] = true
		}
		return true
	})
	return
}

type c09File struct {
	t     *hx.Target
	label string
	ids   map[string]map[string]bool
	cls   map[string]bool
}

// collide: some FQN names different types in a and b (or several in one of them)
func (a *c09File) collide(b *c09File) (bool, []string) {
	var classes []string
	for fqn, fa := range a.ids {
		fb, ok := b.ids[fqn]
		if !ok {
			continue
		}
		u := map[string]bool{}
		for k := range fa {
			u[k] = true
		}
		for k := range fb {
			u[k] = true
		}
		if len(u) >= 2 {
			for _, c := range []string{"generic-instance", "local", "package-level", "via-alias"} {
				if a.cls[fqn+"\x00"+c] || b.cls[fqn+"\x00"+c] {
					classes = append(classes, c)
				}
			}
		}
	}
	sort.Strings(classes)
	return len(classes) > 0, classes
}

func tidOutcome(e *ruleguard.Engine, t *hx.Target, st *ruleguard.RunnerState) []string {
	rs, pk, frame, err := hx.Run(e, t, hx.RunOpts{State: st})
	if err != nil {
		return []string{"ERR " + err.Error()}
	}
	var out []string
	for _, r := range rs {
		out = append(out, r.String()+"|"+r.FuncName)
	}
	if pk != "" {
		out = append(out, "PANIC "+pk+" @"+frame)
	}
	return out
}

func c09EngineHistories(c *Ctx) error {
	res := c.Res
	nSets, nHist, nPkgs, heavyEvery, nHistHeavy := 9, 14, 5, 9, 4
	if c.Thorough {
		nSets, nHist, nPkgs, heavyEvery, nHistHeavy = 96, 40, 8, 6, 10
	}
	const nSinks = 8
	rng := hx.Rng(c.Seed, "c09-engine")
	dir := filepath.Join(hx.TempDir(), "c09-engine")
	var files []*c09File
	for i := 0; i < nPkgs; i++ {
		// the first two packages (and every third one after) are type-checked under the same path
		name := "target"
		if i >= 2 && i%3 != 0 {
			name = []string{"other", "third"}[rng.Intn(2)]
		}
		p := tidGenPackage(rng, name, name, 2+rng.Intn(2), nSinks)
		ts, err := tidWritePackage(filepath.Join(dir, fmt.Sprintf("p%d", i)), p)
		if err != nil {
			return err
		}
		for k, t := range ts {
			if p.Files[k].Name == "types.go" {
				continue
			}
			f := &c09File{t: t, label: fmt.Sprintf("p%d(%s)/%s", i, name, p.Files[k].Name)}
			f.ids, f.cls = tidIdentities(t)
			files = append(files, f)
		}
	}
	// which files collide with which
	var partners = make([][]int, len(files))
	for a := range files {
		for b := range files {
			if a == b {
				continue
			}
			if ok, cls := files[a].collide(files[b]); ok {
				partners[a] = append(partners[a], b)
				if a < b {
					for _, c := range cls {
						res.Dist("engine-hist:file-pair-collides:" + c)
					}
				}
			}
		}
	}
	var deck []int
	panicNoted := map[int]bool{}
	for s := 0; s < nSets; s++ {
		// every heavyEvery-th rule set may name fmt / io interfaces (a fresh engine then type-checks them from
		// source: 0.3-0.6 s per engine), with fewer histories
		heavy := s%heavyEvery == heavyEvery-1
		nHist := nHist
		if heavy {
			nHist = nHistHeavy
		}
		rs := tidGenRules(rng, &deck, 6+rng.Intn(8), nSinks, nil, heavy)
		if heavy {
			res.Dist("engine-hist:rule-set:std-interfaces")
		} else {
			res.Dist("engine-hist:rule-set:light")
		}
		if _, err := hx.LoadRules(rs.Src); err != nil {
			res.Errorf("c09 engine-history: generated rules do not load: %v\n%s", err, rs.Src)
			continue
		}
		for _, ri := range rs.Rules {
			for _, k := range ri.Kinds {
				res.Dist("engine-hist:rule:" + k)
			}
		}
		fresh := func(src string) *ruleguard.Engine {
			e, err := hx.LoadRules(src)
			if err != nil {
				panic(err)
			}
			return e
		}
		base := map[int][]string{}
		baseOf := func(fi int) []string {
			if b, ok := base[fi]; ok {
				return b
			}
			e := fresh(rs.Src)
			b := tidOutcome(e, files[fi].t, ruleguard.NewRunnerState(e))
			base[fi] = b
			nrep, npanic := 0, 0
			for _, l := range b {
				if strings.HasPrefix(l, "PANIC") {
					npanic++
				} else {
					nrep++
				}
			}
			res.Dist(fmt.Sprintf("engine-hist:baseline-reports:%d", min(nrep/20*20, 100)))
			if npanic > 0 {
				res.Dist("engine-hist:baseline-panics")
				if !panicNoted[fi] && len(panicNoted) < 3 {
					panicNoted[fi] = true
					res.Notes = append(res.Notes, fmt.Sprintf("engine-history: a lone run of %s panics (%s) — C07's business; compared as an outcome here", files[fi].label, b[len(b)-1]))
				}
			}
			return b
		}
		// runHist runs the files of hist on one fresh engine loaded from src and returns every outcome
		runHist := func(src string, hist []int, mode string) [][]string {
			e := fresh(src)
			var st *ruleguard.RunnerState
			if mode == "reused" {
				st = ruleguard.NewRunnerState(e)
			}
			var outs [][]string
			for _, fi := range hist {
				s := st
				if mode == "fresh" {
					s = ruleguard.NewRunnerState(e)
				}
				outs = append(outs, tidOutcome(e, files[fi].t, s))
			}
			return outs
		}
		eq := func(a, b []string) bool { return strings.Join(a, "\n") == strings.Join(b, "\n") }
		labelsOf := func(hist []int) []string {
			var l []string
			for _, fi := range hist {
				l = append(l, files[fi].label)
			}
			return l
		}
		report := func(hist []int, i int, mode string, got []string) {
			want := baseOf(hist[i])
			// narrow the history to one earlier file
			short := hist[:i+1]
			for j := i - 1; j >= 0; j-- {
				if hist[j] == hist[i] {
					continue
				}
				h2 := []int{hist[j], hist[i]}
				if o := runHist(rs.Src, h2, mode); !eq(o[1], want) {
					short, got = h2, o[1]
					break
				}
			}
			// narrow the rule set to one rule, a composite Where clause to one atom
			ids := tidDiffRules(want, got)
			kinds, ruleText := "unattributed", ""
			if len(ids) > 0 {
				kinds, ruleText = strings.Join(rs.Rules[ids[0]].Kinds, "+"), rs.Rules[ids[0]].Text
			}
			if k, txt, w, g, ok := tidNarrowRule(rs, ids, func(src string) (bool, []string, []string) {
				if _, err := hx.LoadRules(src); err != nil {
					return false, nil, nil
				}
				lone := runHist(src, short[len(short)-1:], mode)[0]
				o := runHist(src, short, mode)
				return !eq(o[len(o)-1], lone), lone, o[len(o)-1]
			}); ok {
				kinds, ruleText, want, got = k, txt, w, g
			}
			onlyGot, onlyWant := tidLineDiff(got, want)
			probe := files[short[len(short)-1]]
			in := map[string]interface{}{"history": labelsOf(short), "state": mode, "rule": ruleText, "probe": probe.label, "probe_src": string(probe.t.Src),
				"reports_only_after_history": onlyGot, "reports_only_in_lone_run": onlyWant}
			if len(short) == 2 {
				in["earlier_src"] = string(files[short[0]].t.Src)
			}
			res.Violate(hx.Violation{Signature: "engine-history:" + kinds,
				What:  "the reports for a file depend on which files the engine analysed before (fresh engine + lone run is the reference)",
				Input: in, Impl: strings.Join(got, "\n"), Spec: strings.Join(want, "\n")})
		}
		for h := 0; h < nHist; h++ {
			mode := []string{"nil", "fresh", "reused"}[rng.Intn(3)]
			var hists [][]int
			kind := "seq"
			if h%2 == 0 {
				// a pair, in both orders; the partner preferably one with a colliding identity
				a := rng.Intn(len(files))
				b := rng.Intn(len(files))
				if len(partners[a]) > 0 && rng.Intn(4) != 0 {
					b = partners[a][rng.Intn(len(partners[a]))]
				}
				hists = [][]int{{a, b}, {b, a}}
				kind = "pair-both-orders"
			} else {
				n := 3 + rng.Intn(4)
				var hist []int
				for k := 0; k < n; k++ {
					hist = append(hist, rng.Intn(len(files)))
				}
				hists = [][]int{hist}
			}
			for _, hist := range hists {
				outs := runHist(rs.Src, hist, mode)
				nontrivial := false
				for i := range hist {
					for j := 0; j < i; j++ {
						if ok, _ := files[hist[j]].collide(files[hist[i]]); ok {
							nontrivial = true
						}
					}
					if !eq(outs[i], baseOf(hist[i])) {
						report(hist, i, mode, outs[i])
					}
				}
				res.Count("engine-history", fmt.Sprintf("%d:%v:%s", s, hist, mode), nontrivial)
				res.Dist("engine-hist:" + kind)
				res.Dist("engine-hist:state=" + mode)
				if nontrivial {
					res.Dist("engine-hist:history-with-colliding-identities")
				}
				if s == 0 && h == 0 {
					res.Sample(map[string]interface{}{"suite": "engine-history", "history": labelsOf(hist), "state": mode, "rules": rs.Src})
				}
			}
		}
	}
	return nil
}
