package main

// C18 — suites added in the strengthening round.
//
//   helperconst  every spelling of an integer / string constant (decimal, legacy octal, 0o, 0x, 0b, digit
//                separators, rune literals and their escapes, negative, parenthesised, constant expressions,
//                named / typed / float-spelled constants, conversions; interpreted, raw and escaped strings,
//                concatenations) x every place a helper can carry it (in the body, in a closure over the matcher,
//                as a call-site argument, as the argument of a nested helper call written in another helper's
//                body, in the body of a nested helper, under connectives) x every constant-taking position of
//                the DSL.  Judge: the hand-inlined file (no helper at all; go/types folds the constant):
//                the helper file is rejected with a located error, or converts to the IR of the inlined file.
//   stmts        statement shapes of a rule group other than `name := func…` and `m.Match…`: re-assignment
//                with `=`, `var h = func…`, `var h func…` + `=`, shadowing in nested blocks, use before the
//                definition, helpers calling each other (chains, swapped parameter names, a forward reference
//                through a declared variable), local constants, aliases, multi-value definitions.  The harness
//                keeps Go's own meaning of the group (lexical scopes, variables captured by reference, the
//                value a function variable has when the rule statement is reached) and writes the hand-inlined
//                file from it.  Judge: the group is rejected with a located error, or converts to the IR of
//                that file.

import (
	"bytes"
	"fmt"
	"go/ast"
	"go/parser"
	"go/printer"
	"go/token"
	"go/types"
	"math"
	"math/rand"
	"reflect"
	"regexp"
	"strconv"
	"strings"
	"unicode/utf8"

	"github.com/quasilyte/go-ruleguard/ruleguard/ir"
	"verifharness/hx"
)

// memoImporter: the packages a rules file imports (dsl, and what it imports) never change during a run;
// the source importer would otherwise resolve the import path anew (a `go list`) for every type-check.
type memoImporter struct {
	inner types.Importer
	pkgs  map[string]*types.Package
}

func (m *memoImporter) Import(path string) (*types.Package, error) {
	if p, ok := m.pkgs[path]; ok {
		return p, nil
	}
	p, err := m.inner.Import(path)
	if err != nil {
		return nil, err
	}
	m.pkgs[path] = p
	return p, nil
}

var c18LocatedRE = regexp.MustCompile(`rules\.go:\d+`)

// c18NormFile: the whole file's IR modulo lines, Src and custom declarations
func c18NormFile(f *ir.File) *ir.File {
	out := cloneFile(f)
	out.CustomDecls = nil
	for gi := range out.RuleGroups {
		g := &out.RuleGroups[gi]
		g.Line = 0
		for ri := range g.Rules {
			r := &g.Rules[ri]
			r.Line = 0
			r.WhereExpr = stripIR(r.WhereExpr)
			for i := range r.SyntaxPatterns {
				r.SyntaxPatterns[i].Line = 0
			}
			for i := range r.CommentPatterns {
				r.CommentPatterns[i].Line = 0
			}
		}
	}
	return out
}

func c18DescribeIR(f *ir.File) string {
	var parts []string
	for _, g := range f.RuleGroups {
		for _, r := range g.Rules {
			w := r.WhereExpr
			parts = append(parts, fmt.Sprintf("%s: %s", r.ReportTemplate, w.String()))
		}
	}
	return strings.Join(parts, " ; ")
}

// ---------- constant spellings ----------

type c18Spell struct{ text, class string }

// sepDigits puts `_` between digits (at least one, when there are two digits or more)
func c18SepDigits(d string, r *rand.Rand) string {
	if len(d) < 2 {
		return d
	}
	var sb strings.Builder
	forced := 1 + r.Intn(len(d)-1)
	for i := 0; i < len(d); i++ {
		if i > 0 && (i == forced || r.Intn(3) == 0) {
			sb.WriteByte('_')
		}
		sb.WriteByte(d[i])
	}
	return sb.String()
}

// c18IntSpellings: Go spellings of the integer v (the first one is the plain decimal literal)
func c18IntSpellings(v int64, r *rand.Rand) []c18Spell {
	var out []c18Spell
	add := func(class, text string) { out = append(out, c18Spell{text, class}) }
	if v < 0 {
		if v == math.MinInt64 {
			return []c18Spell{{"-9223372036854775808", "negative"}}
		}
		n := uint64(-v)
		add("negative", fmt.Sprintf("-%d", n))
		add("negative-paren", fmt.Sprintf("(-%d)", n))
		add("negative-paren", fmt.Sprintf("-(%d)", n))
		add("negative-hex", fmt.Sprintf("-0x%x", n))
		add("negative-legacy-octal", fmt.Sprintf("-0%o", n))
		add("negative-binary", fmt.Sprintf("-0b%b", n))
		add("const-expr", fmt.Sprintf("0 - %d", n))
		add("const-expr", fmt.Sprintf("%d - %d", 1, n+1))
		add("named-const", "cN")
		add("named-const-typed", "cNt")
		add("named-const-octal", "cNoct")
		add("conversion", fmt.Sprintf("int(-%d)", n))
		return out
	}
	u := uint64(v)
	dec := strconv.FormatUint(u, 10)
	oct := strconv.FormatUint(u, 8)
	hexs := strconv.FormatUint(u, 16)
	bin := strconv.FormatUint(u, 2)
	mixCase := func(s string) string {
		b := []byte(s)
		for i := range b {
			if r.Intn(2) == 0 {
				b[i] = byte(strings.ToUpper(string(b[i]))[0])
			}
		}
		return string(b)
	}
	add("decimal", dec)
	add("legacy-octal", "0"+oct)
	add("legacy-octal", "00"+oct)
	add("0o-octal", "0o"+oct)
	add("0o-octal", "0O"+oct)
	add("hex", "0x"+hexs)
	add("hex", "0X"+strings.ToUpper(hexs))
	add("hex", "0x"+mixCase(hexs))
	add("hex", "0x00"+hexs)
	add("binary", "0b"+bin)
	add("binary", "0B"+bin)
	if len(dec) >= 2 {
		add("decimal-sep", c18SepDigits(dec, r))
	}
	add("legacy-octal-sep", "0_"+c18SepDigits(oct, r))
	add("0o-octal-sep", "0o_"+c18SepDigits(oct, r))
	add("hex-sep", "0x_"+c18SepDigits(hexs, r))
	add("hex-sep", "0X"+c18SepDigits("0"+strings.ToUpper(hexs), r))
	add("binary-sep", "0b"+c18SepDigits("0"+bin, r))
	if v <= 0x10FFFF && !(v >= 0xD800 && v <= 0xDFFF) {
		if v >= 32 && v < 127 && v != '\'' && v != '\\' {
			add("rune", fmt.Sprintf("'%c'", rune(v)))
		}
		if v >= 128 && utf8.ValidRune(rune(v)) && strconv.IsPrint(rune(v)) {
			add("rune", fmt.Sprintf("'%c'", rune(v)))
		}
		if v < 256 {
			add("rune-hex-escape", fmt.Sprintf(`'\x%02x'`, v))
			add("rune-octal-escape", fmt.Sprintf(`'\%03o'`, v))
		}
		if v < 0x10000 {
			add("rune-u-escape", fmt.Sprintf(`'\u%04x'`, v))
		}
		add("rune-u-escape", fmt.Sprintf(`'\U%08x'`, v))
		if v == '\n' {
			add("rune-escape", `'\n'`)
		}
		if v == '\t' {
			add("rune-escape", `'\t'`)
		}
		if v == 0 {
			add("rune-octal-escape", `'\000'`)
		}
	}
	add("paren", "("+dec+")")
	add("paren-legacy-octal", "((0"+oct+"))")
	add("paren-hex", "(0x"+hexs+")")
	if v >= 1 {
		add("const-expr", fmt.Sprintf("%d + %d", v-1, 1))
		add("const-expr-octal", fmt.Sprintf("0%o + 01", v-1))
	}
	add("const-expr", dec+" * 1")
	add("const-expr-octal", "0"+oct+" | 0")
	if v > 0 && v&(v-1) == 0 {
		k := 0
		for w := v; w > 1; w >>= 1 {
			k++
		}
		add("const-expr", fmt.Sprintf("1 << %d", k))
	}
	add("named-const", "cN")
	add("named-const-typed", "cNt")
	add("named-const-octal", "cNoct")
	if v < 1<<53 {
		add("float-spelled", dec+".0")
		add("float-spelled", dec+"e0")
	}
	add("conversion", "int("+dec+")")
	add("conversion-octal", "int(0"+oct+")")
	return out
}

// c18LocalSpellings: the spellings that need no declaration outside the expression
func c18LocalSpellings(sp []c18Spell) []c18Spell {
	var out []c18Spell
	for _, s := range sp {
		if !strings.HasPrefix(s.class, "named-const") {
			out = append(out, s)
		}
	}
	return out
}

// c18StrSpellings: Go spellings of the string s (valid UTF-8; the first one is the interpreted literal)
func c18StrSpellings(s string) []c18Spell {
	var out []c18Spell
	add := func(class, text string) { out = append(out, c18Spell{text, class}) }
	q := strconv.Quote(s)
	add("interpreted", q)
	if !strings.ContainsAny(s, "`\r") {
		add("raw", "`"+s+"`")
	}
	var hexE, octE, uniE strings.Builder
	for i := 0; i < len(s); i++ {
		fmt.Fprintf(&hexE, `\x%02x`, s[i])
		fmt.Fprintf(&octE, `\%03o`, s[i])
	}
	for _, rn := range s {
		if rn < 0x10000 {
			fmt.Fprintf(&uniE, `\u%04x`, rn)
		} else {
			fmt.Fprintf(&uniE, `\U%08x`, rn)
		}
	}
	if len(s) > 0 {
		add("hex-escapes", `"`+hexE.String()+`"`)
		add("octal-escapes", `"`+octE.String()+`"`)
		add("unicode-escapes", `"`+uniE.String()+`"`)
	}
	add("paren", "("+q+")")
	if len(s) >= 2 {
		_, w := utf8.DecodeRuneInString(s)
		a, b := s[:w], s[w:]
		add("concat", strconv.Quote(a)+" + "+strconv.Quote(b))
		if !strings.ContainsAny(b, "`\r") {
			add("concat", strconv.Quote(a)+" + `"+b+"`")
		}
		add("concat-const", strconv.Quote(a)+" + cTail")
	}
	add("named-const", "cS")
	add("named-const-typed", "cSt")
	add("const-expr", `cS + ""`)
	add("const-expr", `"" + cS`)
	return out
}

type c18Pos struct {
	name  string
	tmpl  string // %V = the variable, %K = the constant, %M = the matcher
	isInt bool
	svals []string
	pat   string // the rule's pattern ("" = f($x))
	vname string // the variable's name ("" = x)
	argTy string // the type of a parameter that carries the constant ("" = int / string)
}

var c18Positions = []c18Pos{
	{name: "Value.Int==", tmpl: "%V.Value.Int() == %K", isInt: true},
	{name: "Value.Int<", tmpl: "%V.Value.Int() < %K", isInt: true},
	{name: "Line>=", tmpl: "%V.Line >= %K", isInt: true},
	{name: "Type.Size!=", tmpl: "%V.Type.Size != %K", isInt: true},
	{name: "==Line", tmpl: "%K == %V.Line", isInt: true},
	{name: "Text==", tmpl: "%V.Text == %K", svals: []string{"ab", "a\"b\\c", "x\ty", "héé", "07"}, argTy: "dsl.MatchedText"},
	{name: "!=Text", tmpl: "%K != %V.Text", svals: []string{"ab", "0777"}, argTy: "dsl.MatchedText"},
	{name: "Text.Matches", tmpl: "%V.Text.Matches(%K)", svals: []string{"ab", "^a.b$", "\\d+"}},
	{name: "Type.Is", tmpl: "%V.Type.Is(%K)", svals: []string{"int", "[]string"}},
	{name: "Type.Underlying.Is", tmpl: "%V.Type.Underlying().Is(%K)", svals: []string{"int"}},
	{name: "Type.ConvertibleTo", tmpl: "%V.Type.ConvertibleTo(%K)", svals: []string{"int"}},
	{name: "Type.Implements", tmpl: "%V.Type.Implements(%K)", svals: []string{"error"}},
	{name: "Type.OfKind", tmpl: "%V.Type.OfKind(%K)", svals: []string{"int"}},
	{name: "Node.Is", tmpl: "%V.Node.Is(%K)", svals: []string{"Ident"}},
	{name: "Object.Is", tmpl: "%V.Object.Is(%K)", svals: []string{"Var"}},
	{name: "Contains", tmpl: "%V.Contains(%K)", svals: []string{"ab", "$x"}},
	{name: "GoVersion.Eq", tmpl: "%M.GoVersion().Eq(%K)", svals: []string{"1.16"}},
	{name: "File.Imports", tmpl: "%M.File().Imports(%K)", svals: []string{"fmt", "io/ioutil"}},
	{name: "File.Name.Matches", tmpl: "%M.File().Name.Matches(%K)", svals: []string{"ab"}},
	{name: "File.PkgPath.Matches", tmpl: "%M.File().PkgPath.Matches(%K)", svals: []string{"ab"}},
	{name: "m[key]", tmpl: "%M[%K].Pure", svals: []string{"xy"}, pat: "f($xy)", vname: "xy"},
	{name: "IdenticalTo(m[key])", tmpl: "%V.Type.IdenticalTo(%M[%K])", svals: []string{"xy"}, pat: "f($xy)", vname: "xy"},
}

type c18Placement struct {
	name string
	// build returns the group's statements with the helper(s) and the hand-inlined Where expression
	build func(p *c18Pos, sp string, mv string) (stmts []string, where string, inlined string)
}

func c18Fill(tmpl, v, k string) string {
	return strings.NewReplacer("%V", v, "%K", k, "%M", "m").Replace(tmpl)
}

func c18Placements() []c18Placement {
	ty := func(p *c18Pos) string {
		if p.argTy != "" {
			return p.argTy
		}
		if p.isInt {
			return "int"
		}
		return "string"
	}
	return []c18Placement{
		{"body", func(p *c18Pos, sp, mv string) ([]string, string, string) {
			return []string{"h := func(v dsl.Var) bool { return " + c18Fill(p.tmpl, "v", sp) + " }"}, "h(" + mv + ")", c18Fill(p.tmpl, mv, sp)
		}},
		{"closure", func(p *c18Pos, sp, mv string) ([]string, string, string) {
			return []string{"h := func() bool { return " + c18Fill(p.tmpl, mv, sp) + " }"}, "h()", c18Fill(p.tmpl, mv, sp)
		}},
		{"arg", func(p *c18Pos, sp, mv string) ([]string, string, string) {
			return []string{"h := func(v dsl.Var, k " + ty(p) + ") bool { return " + c18Fill(p.tmpl, "v", "k") + " }"}, "h(" + mv + ", " + sp + ")", c18Fill(p.tmpl, mv, sp)
		}},
		{"nested-arg", func(p *c18Pos, sp, mv string) ([]string, string, string) {
			return []string{"h2 := func(v dsl.Var, k " + ty(p) + ") bool { return " + c18Fill(p.tmpl, "v", "k") + " }",
				"h := func(w dsl.Var) bool { return h2(w, " + sp + ") }"}, "h(" + mv + ")", "(" + c18Fill(p.tmpl, mv, sp) + ")"
		}},
		{"nested-body", func(p *c18Pos, sp, mv string) ([]string, string, string) {
			return []string{"h2 := func(v dsl.Var) bool { return " + c18Fill(p.tmpl, "v", sp) + " }",
				"h := func(w dsl.Var) bool { return !h2(w) }"}, "h(" + mv + ")", "!(" + c18Fill(p.tmpl, mv, sp) + ")"
		}},
		{"body-connective", func(p *c18Pos, sp, mv string) ([]string, string, string) {
			return []string{"h := func(v dsl.Var) bool { return v.Pure && " + c18Fill(p.tmpl, "v", sp) + " }"}, "!h(" + mv + ") || " + mv + ".Const",
				"!(" + mv + ".Pure && " + c18Fill(p.tmpl, mv, sp) + ") || " + mv + ".Const"
		}},
		{"arg-twice", func(p *c18Pos, sp, mv string) ([]string, string, string) {
			return []string{"h := func(k " + ty(p) + ", v dsl.Var) bool { return " + c18Fill(p.tmpl, "v", "k") + " || !(" + c18Fill(p.tmpl, "v", "k") + ") }"}, "h(" + sp + ", " + mv + ")",
				c18Fill(p.tmpl, mv, sp) + " || !(" + c18Fill(p.tmpl, mv, sp) + ")"
		}},
	}
}

func c18ConstFile(p *c18Pos, sval string, ival int64, stmts []string, where string) string {
	pat := p.pat
	if pat == "" {
		pat = "f($x)"
	}
	var sb strings.Builder
	sb.WriteString("package gorules\n\nimport \"github.com/quasilyte/go-ruleguard/dsl\"\n\n")
	if p.isInt {
		if ival >= 0 {
			fmt.Fprintf(&sb, "const cN = %d\nconst cNt int = %d\nconst cNoct = 0%o\n\n", ival, ival, ival)
		} else {
			fmt.Fprintf(&sb, "const cN = %d\nconst cNt int = %d\nconst cNoct = -0%o\n\n", ival, ival, -ival)
		}
	} else {
		tail := ""
		if len(sval) >= 2 {
			_, w := utf8.DecodeRuneInString(sval)
			tail = sval[w:]
		}
		fmt.Fprintf(&sb, "const cS = %q\nconst cSt string = %q\nconst cTail = %q\n\n", sval, sval, tail)
	}
	sb.WriteString("func g(m dsl.Matcher) {\n")
	for _, s := range stmts {
		sb.WriteString("\t" + s + "\n")
	}
	fmt.Fprintf(&sb, "\tm.Match(`%s`).Where(%s).Report(`r`)\n}\n", pat, where)
	return sb.String()
}

// c18Judge compares a helper-using file with its hand-inlined form.  outcome is one of
// equal | rejected | rejected-typecheck | violation | skipped.
func c18Judge(res *hx.Result, sigPrefix string, class string, helperSrc, inlinedSrc string, input map[string]interface{}) string {
	input["rules"] = helperSrc
	input["inlined"] = inlinedSrc
	lB, err := c18Load(inlinedSrc)
	if err != nil {
		// the hand-inlined file is not valid Go: nothing to compare with (the generator's business, counted)
		if len(res.Notes) < 4 {
			res.Notes = append(res.Notes, "hand-inlined file does not type-check: "+firstLine(err.Error())+" :: "+inlinedSrc)
		}
		return "skipped-inlined-does-not-typecheck"
	}
	fB, outB := lB.convert()
	lA, err := c18Load(helperSrc)
	if err != nil {
		if !c18LocatedRE.MatchString(err.Error()) {
			res.Violate(hx.Violation{Signature: sigPrefix + ":unlocated-error", What: "the helper-using file is rejected by the type checker without a location",
				Input: input, Impl: firstLine(err.Error()), Spec: "an error with a position, or the IR of the inlined file"})
			return "violation"
		}
		return "rejected-typecheck"
	}
	fA, outA := lA.convert()
	switch {
	case strings.HasPrefix(outA, "panic"):
		res.Violate(hx.Violation{Signature: sigPrefix + ":panic", What: "ConvertFile panics on a helper-using group (Load neither rejects it with an error nor accepts it)",
			Input: input, Impl: outA, Spec: "an error, or the IR of the inlined file"})
		return "violation"
	case outA != "ok":
		if !c18LocatedRE.MatchString(outA) {
			res.Violate(hx.Violation{Signature: sigPrefix + ":unlocated-error", What: "the helper-using file is rejected without a location",
				Input: input, Impl: outA, Spec: "an error with a position, or the IR of the inlined file"})
			return "violation"
		}
		return "rejected"
	}
	if outB != "ok" {
		if _, lerr := hx.LoadRules(helperSrc); lerr != nil {
			return "rejected-by-load"
		}
		res.Violate(hx.Violation{Signature: sigPrefix + ":" + class + ":accepted-but-inlined-rejected", What: "the helper-using file loads although the hand-inlined file is rejected",
			Input: input, Impl: "loads: " + c18DescribeIR(fA), Spec: outB})
		return "violation"
	}
	if reflect.DeepEqual(c18NormFile(fA), c18NormFile(fB)) {
		return "equal"
	}
	if _, lerr := hx.LoadRules(helperSrc); lerr != nil {
		return "rejected-by-load"
	}
	res.Violate(hx.Violation{Signature: sigPrefix + ":" + class + ":different-IR", What: "the helper-using file loads with a meaning different from the hand-inlined file's",
		Input: input, Impl: c18DescribeIR(fA), Spec: c18DescribeIR(fB)})
	return "violation"
}

func c18HelperConstSuite(c *Ctx) error {
	res := c.Res
	rng := hx.Rng(c.Seed, "c18-helperconst")
	fixedInts := []int64{0, 7, 8, 64, 420, 511}
	nRand, nStr := 3, 2
	if c.Thorough {
		nRand, nStr = 14, 5
	}
	randInt := func() int64 {
		switch rng.Intn(6) {
		case 0:
			return int64(rng.Intn(64))
		case 1:
			return int64(rng.Intn(4096))
		case 2:
			return int64(rng.Intn(1 << 20))
		case 3:
			return rng.Int63()
		case 4:
			return int64(1) << uint(rng.Intn(63))
		}
		return int64(rng.Intn(0x110000))
	}
	places := c18Placements()
	for pi := range c18Positions {
		p := &c18Positions[pi]
		vname := p.vname
		if vname == "" {
			vname = "x"
		}
		mvs := []string{`m["` + vname + `"]`, "m[`" + vname + "`]"}
		type val struct {
			s string
			i int64
		}
		var vals []val
		if p.isInt {
			for _, v := range fixedInts {
				vals = append(vals, val{i: v})
			}
			for k := 0; k < nRand; k++ {
				vals = append(vals, val{i: randInt()})
			}
			vals = append(vals, val{i: -int64(1 + rng.Intn(1000))})
			if rng.Intn(2) == 0 {
				vals = append(vals, val{i: math.MaxInt64})
			}
		} else {
			for k, s := range p.svals {
				if k < nStr {
					vals = append(vals, val{s: s})
				}
			}
		}
		for _, v := range vals {
			var spells []c18Spell
			if p.isInt {
				spells = c18IntSpellings(v.i, rng)
			} else {
				spells = c18StrSpellings(v.s)
			}
			kind := "string"
			if p.isInt {
				kind = "int"
			}
			// the plain literal, inline: every spelling written inline must give this IR (go/types is the judge of
			// what a spelling denotes; this ties the spellings the harness writes to the value it meant)
			plainSrc := c18ConstFile(p, v.s, v.i, nil, c18Fill(p.tmpl, mvs[0], spells[0].text))
			var plain *ir.File
			if l, err := c18Load(plainSrc); err == nil {
				if f, out := l.convert(); out == "ok" {
					plain = c18NormFile(f)
				}
			}
			if plain == nil {
				res.Dist("hconst:plain-literal-rejected:" + p.name)
				continue
			}
			for _, sp := range spells {
				mv := mvs[rng.Intn(len(mvs))]
				inl := c18ConstFile(p, v.s, v.i, nil, c18Fill(p.tmpl, mv, sp.text))
				l, err := c18Load(inl)
				if err != nil {
					res.Dist("hconst:spelling-not-valid-here:" + sp.class)
					continue
				}
				if f, out := l.convert(); out == "ok" && !reflect.DeepEqual(c18NormFile(f), plain) {
					res.Violate(hx.Violation{Signature: "const:" + p.name + ":different-IR", What: "a constant expression gives an IR different from the equivalent literal's",
						Input: map[string]interface{}{"position": p.name, "spelling": sp.text, "rules": inl}, Impl: c18DescribeIR(f), Spec: c18DescribeIR(plain)})
					continue
				}
				for _, pl := range places {
					stmts, where, inlinedWhere := pl.build(p, sp.text, mv)
					helperSrc := c18ConstFile(p, v.s, v.i, stmts, where)
					inlinedSrc := c18ConstFile(p, v.s, v.i, nil, inlinedWhere)
					res.Count("helperconst", helperSrc, true)
					out := c18Judge(res, "helper-const:"+kind, sp.class, helperSrc, inlinedSrc,
						map[string]interface{}{"position": p.name, "placement": pl.name, "spelling": sp.text, "class": sp.class})
					res.Dist("hconst:" + kind + ":" + sp.class + ":" + out)
					res.Dist("hconst:place:" + pl.name + ":" + out)
				}
			}
		}
	}
	return nil
}

// ---------- statement shapes of a rule group ----------

type c18Fn struct {
	params []c18Param
	body   string
}

func (f *c18Fn) text() string {
	var ps []string
	for _, p := range f.params {
		ps = append(ps, p.name+" "+p.typ)
	}
	return "func(" + strings.Join(ps, ", ") + ") bool { return " + f.body + " }"
}

type c18St struct {
	kind  string // define | assign | vardef | vardecl | const | rule | block | ifblock | raw
	name  string
	fn    *c18Fn
	where string
	raw   string
	cval  string // const: the spelling; cdec: its decimal value
	cdec  string
	body  []*c18St
}

func c18Render(sts []*c18St, indent string, nrule *int) string {
	var sb strings.Builder
	for _, s := range sts {
		switch s.kind {
		case "define":
			sb.WriteString(indent + s.name + " := " + s.fn.text() + "\n")
		case "assign":
			sb.WriteString(indent + s.name + " = " + s.fn.text() + "\n")
		case "vardef":
			sb.WriteString(indent + "var " + s.name + " = " + s.fn.text() + "\n")
		case "vardecl":
			sb.WriteString(indent + "var " + s.name + " func(dsl.Var) bool\n")
		case "const":
			sb.WriteString(indent + "const " + s.name + " = " + s.cval + "\n")
		case "rule":
			*nrule++
			fmt.Fprintf(&sb, "%sm.Match(`f($x, $y)`).Where(%s).Report(`r%d`)\n", indent, s.where, *nrule)
		case "block":
			sb.WriteString(indent + "{\n" + c18Render(s.body, indent+"\t", nrule) + indent + "}\n")
		case "ifblock":
			sb.WriteString(indent + "if true {\n" + c18Render(s.body, indent+"\t", nrule) + indent + "}\n")
		case "raw":
			sb.WriteString(indent + s.raw + "\n")
		}
	}
	return sb.String()
}

// Go's meaning of the group: lexical scopes, function variables are cells captured by reference
type c18Cell struct{ val *c18Closure }
type c18Closure struct {
	fn    *c18Fn
	scope *c18Scope
}
type c18Scope struct {
	vars   map[string]*c18Cell
	consts map[string]string
	parent *c18Scope
}

func (s *c18Scope) lookup(name string) *c18Cell {
	for ; s != nil; s = s.parent {
		if c, ok := s.vars[name]; ok {
			return c
		}
		if _, ok := s.consts[name]; ok {
			return nil
		}
	}
	return nil
}

func (s *c18Scope) lookupConst(name string) (string, bool) {
	for ; s != nil; s = s.parent {
		if _, ok := s.vars[name]; ok {
			return "", false
		}
		if v, ok := s.consts[name]; ok {
			return v, true
		}
	}
	return "", false
}

// snapshot: the scope as it is now (a later `:=` of the same block must not be visible to a closure made earlier)
func (s *c18Scope) snapshot() *c18Scope {
	if s == nil {
		return nil
	}
	out := &c18Scope{vars: map[string]*c18Cell{}, consts: map[string]string{}, parent: s.parent.snapshot()}
	for k, v := range s.vars {
		out.vars[k] = v
	}
	for k, v := range s.consts {
		out.consts[k] = v
	}
	return out
}

type c18InlineErr struct{ msg string }

// c18InlineIn rewrites e (written in scope sc, with the names in bound shadowing everything) into its
// helper-free form: every call of a function variable is replaced by the parenthesised body of the value the
// variable has now, arguments substituted for the parameters in variable positions.
func c18InlineIn(e ast.Expr, sc *c18Scope, bound map[string]bool, depth int) ast.Expr {
	if depth > 24 {
		panic(c18InlineErr{"cyclic helpers"})
	}
	rec := func(x ast.Expr) ast.Expr { return c18InlineIn(x, sc, bound, depth) }
	switch e := e.(type) {
	case *ast.Ident:
		if !bound[e.Name] {
			if v, ok := sc.lookupConst(e.Name); ok {
				return &ast.BasicLit{Kind: token.INT, Value: v}
			}
		}
		return e
	case *ast.ParenExpr:
		return &ast.ParenExpr{X: rec(e.X)}
	case *ast.SelectorExpr:
		return &ast.SelectorExpr{X: rec(e.X), Sel: e.Sel}
	case *ast.IndexExpr:
		return &ast.IndexExpr{X: rec(e.X), Index: rec(e.Index)}
	case *ast.UnaryExpr:
		return &ast.UnaryExpr{Op: e.Op, X: rec(e.X)}
	case *ast.BinaryExpr:
		return &ast.BinaryExpr{Op: e.Op, X: rec(e.X), Y: rec(e.Y)}
	case *ast.CallExpr:
		var args []ast.Expr
		for _, a := range e.Args {
			args = append(args, rec(a))
		}
		if id, ok := e.Fun.(*ast.Ident); ok && !bound[id.Name] {
			if cell := sc.lookup(id.Name); cell != nil {
				if cell.val == nil {
					panic(c18InlineErr{"call of a nil function variable " + id.Name})
				}
				cl := cell.val
				body, err := parser.ParseExpr(cl.fn.body)
				if err != nil {
					panic(c18InlineErr{"unparsable body"})
				}
				pb := map[string]bool{}
				for _, p := range cl.fn.params {
					pb[p.name] = true
				}
				inner := c18InlineIn(body, cl.scope, pb, depth+1)
				if len(args) != len(cl.fn.params) {
					panic(c18InlineErr{"arity"})
				}
				env := map[string]ast.Expr{}
				for i, p := range cl.fn.params {
					a := args[i]
					for {
						pe, ok := a.(*ast.ParenExpr)
						if !ok {
							break
						}
						a = pe.X
					}
					env[p.name] = a
				}
				return &ast.ParenExpr{X: c18Subst(inner, env)}
			}
			// the DSL has no plain functions: a bare identifier that is called and is not a function variable
			// in scope is a helper used outside the scope of its declaration
			if types.Universe.Lookup(id.Name) == nil {
				panic(c18InlineErr{"call of " + id.Name + ", which is not declared at this point"})
			}
		}
		return &ast.CallExpr{Fun: rec(e.Fun), Args: args}
	}
	return e
}

// c18Subst: simultaneous substitution of identifiers in variable positions
func c18Subst(e ast.Expr, env map[string]ast.Expr) ast.Expr {
	switch e := e.(type) {
	case *ast.Ident:
		if a, ok := env[e.Name]; ok {
			return a
		}
		return e
	case *ast.ParenExpr:
		return &ast.ParenExpr{X: c18Subst(e.X, env)}
	case *ast.SelectorExpr:
		return &ast.SelectorExpr{X: c18Subst(e.X, env), Sel: e.Sel}
	case *ast.IndexExpr:
		return &ast.IndexExpr{X: c18Subst(e.X, env), Index: c18Subst(e.Index, env)}
	case *ast.UnaryExpr:
		return &ast.UnaryExpr{Op: e.Op, X: c18Subst(e.X, env)}
	case *ast.BinaryExpr:
		return &ast.BinaryExpr{Op: e.Op, X: c18Subst(e.X, env), Y: c18Subst(e.Y, env)}
	case *ast.CallExpr:
		out := &ast.CallExpr{Fun: c18Subst(e.Fun, env)}
		for _, a := range e.Args {
			out.Args = append(out.Args, c18Subst(a, env))
		}
		return out
	}
	return e
}

// c18Meaning walks the statements in execution order and returns the hand-inlined rules (Where texts)
func c18Meaning(sts []*c18St) (wheres []string, err string) {
	defer func() {
		if r := recover(); r != nil {
			if ie, ok := r.(c18InlineErr); ok {
				wheres, err = nil, ie.msg
				return
			}
			panic(r)
		}
	}()
	var walk func(sts []*c18St, sc *c18Scope)
	walk = func(sts []*c18St, sc *c18Scope) {
		for _, s := range sts {
			switch s.kind {
			case "define", "vardef":
				cl := &c18Closure{fn: s.fn, scope: sc.snapshot()}
				delete(sc.consts, s.name)
				sc.vars[s.name] = &c18Cell{val: cl}
			case "vardecl":
				delete(sc.consts, s.name)
				sc.vars[s.name] = &c18Cell{}
			case "assign":
				cell := sc.lookup(s.name)
				if cell == nil {
					panic(c18InlineErr{"assignment to an undeclared name"})
				}
				// the closure sees the scope as it is at the assignment (cells are shared, so later assignments
				// to the variables it mentions are seen)
				cell.val = &c18Closure{fn: s.fn, scope: sc.snapshot()}
			case "const":
				delete(sc.vars, s.name)
				sc.consts[s.name] = s.cdec
			case "rule":
				e, perr := parser.ParseExpr(s.where)
				if perr != nil {
					panic(c18InlineErr{"unparsable where"})
				}
				out := c18InlineIn(e, sc, map[string]bool{}, 0)
				var buf bytes.Buffer
				if perr := printer.Fprint(&buf, token.NewFileSet(), out); perr != nil {
					panic(c18InlineErr{"unprintable"})
				}
				wheres = append(wheres, buf.String())
			case "block", "ifblock":
				walk(s.body, &c18Scope{vars: map[string]*c18Cell{}, consts: map[string]string{}, parent: sc})
			case "raw":
				panic(c18InlineErr{"a statement without a rule-group meaning: " + s.raw})
			}
		}
	}
	walk(sts, &c18Scope{vars: map[string]*c18Cell{}, consts: map[string]string{}})
	return wheres, ""
}

const c18StmtHeader = "package gorules\n\nimport \"github.com/quasilyte/go-ruleguard/dsl\"\n\nconst strConst = \"ab\"\nconst intConst = 3\n\n"

type c18StmtGen struct {
	r *rand.Rand
	g *c18Gen
}

var c18HelperNames = []string{"h", "h2", "isOK", "check", "v", "w", "pred", "Pure", "Text", "f"}
var c18ParamNames = []string{"v", "w", "x", "a", "s", "Text", "Line", "h", "h2"}

func (sg *c18StmtGen) names(n int) []string {
	perm := sg.r.Perm(len(c18HelperNames))
	var out []string
	for _, i := range perm[:n] {
		out = append(out, c18HelperNames[i])
	}
	return out
}

func (sg *c18StmtGen) param(avoid ...string) string {
	for {
		p := c18ParamNames[sg.r.Intn(len(c18ParamNames))]
		ok := true
		for _, a := range avoid {
			if a == p {
				ok = false
			}
		}
		if ok {
			return p
		}
	}
}

// leaf: a one-parameter predicate whose body calls no helper (the matcher is visible through the closure)
func (sg *c18StmtGen) leaf(avoid ...string) *c18Fn {
	p := sg.param(append(avoid, "m")...)
	ps := []c18Param{{p, "dsl.Var"}}
	body := sg.g.expr(ps, "m", sg.r.Intn(2))
	if sg.r.Intn(3) == 0 {
		// a constant in the body, any single-token spelling
		sp := c18LocalSpellings(c18IntSpellings(int64(sg.r.Intn(2000)), sg.r))
		k := sp[sg.r.Intn(len(sp))].text
		body = p + []string{".Value.Int() == ", ".Line < ", ".Type.Size >= "}[sg.r.Intn(3)] + k
	}
	return &c18Fn{params: ps, body: body}
}

// caller: a one-parameter predicate that calls the helpers named in callees
func (sg *c18StmtGen) caller(callees ...string) *c18Fn {
	p := sg.param(append(callees, "m")...)
	var parts []string
	for _, c := range callees {
		call := c + "(" + p + ")"
		if sg.r.Intn(3) == 0 {
			call = "!" + call
		}
		parts = append(parts, call)
	}
	if sg.r.Intn(2) == 0 {
		parts = append(parts, p+"."+[]string{"Pure", "Const", "Addressable"}[sg.r.Intn(3)])
	}
	sg.r.Shuffle(len(parts), func(i, j int) { parts[i], parts[j] = parts[j], parts[i] })
	return &c18Fn{params: []c18Param{{p, "dsl.Var"}}, body: strings.Join(parts, []string{" && ", " || "}[sg.r.Intn(2)])}
}

func (sg *c18StmtGen) rule(names ...string) *c18St {
	v := func() string { return []string{`m["x"]`, `m["y"]`, `(m["x"])`, "m[`y`]"}[sg.r.Intn(4)] }
	var parts []string
	for _, n := range names {
		call := n + "(" + v() + ")"
		if sg.r.Intn(4) == 0 {
			call = "!" + call
		}
		parts = append(parts, call)
	}
	if sg.r.Intn(3) == 0 {
		parts = append(parts, v()+".Pure")
	}
	return &c18St{kind: "rule", where: strings.Join(parts, []string{" && ", " || "}[sg.r.Intn(2)])}
}

func (sg *c18StmtGen) rules(n int, names ...string) []*c18St {
	var out []*c18St
	for i := 0; i < n; i++ {
		out = append(out, sg.rule(names...))
	}
	return out
}

var c18StmtFamilies = []string{"plain", "define-between-rules", "reassign", "reassign-before-use", "reassign-after-use", "reassign-other-params",
	"vardef", "vardecl-assign", "vardecl-unassigned", "block-shadow", "block-late", "if-block", "use-before-define", "chain", "chain-swapped-names",
	"chain-reassign-inner", "forward-var", "local-const", "local-const-in-helper", "alias", "blank-assign", "multi-define", "multi-define-mixed",
	"helper-named-like-param", "non-func-define", "reassign-in-block"}

func (sg *c18StmtGen) gen(family string) []*c18St {
	r := sg.r
	def := func(name string, fn *c18Fn) *c18St { return &c18St{kind: "define", name: name, fn: fn} }
	asg := func(name string, fn *c18Fn) *c18St { return &c18St{kind: "assign", name: name, fn: fn} }
	cat := func(parts ...[]*c18St) []*c18St {
		var out []*c18St
		for _, p := range parts {
			out = append(out, p...)
		}
		return out
	}
	one := func(s *c18St) []*c18St { return []*c18St{s} }
	ns := sg.names(4)
	h, h2, h3 := ns[0], ns[1], ns[2]
	switch family {
	case "plain":
		k := 1 + r.Intn(3)
		var sts []*c18St
		for i := 0; i < k; i++ {
			sts = append(sts, def(ns[i], sg.leaf(ns...)))
		}
		return cat(sts, sg.rules(1+r.Intn(2), ns[:k]...))
	case "define-between-rules":
		return cat(one(def(h, sg.leaf(ns...))), sg.rules(1, h), one(def(h2, sg.leaf(ns...))), sg.rules(1+r.Intn(2), h2, h))
	case "reassign":
		sts := cat(one(def(h, sg.leaf(ns...))), sg.rules(r.Intn(3), h))
		for k := 1 + r.Intn(2); k > 0; k-- {
			sts = cat(sts, one(asg(h, sg.leaf(ns...))), sg.rules(1+r.Intn(2), h))
		}
		return sts
	case "reassign-before-use":
		return cat(one(def(h, sg.leaf(ns...))), one(asg(h, sg.leaf(ns...))), sg.rules(1+r.Intn(2), h))
	case "reassign-after-use":
		return cat(one(def(h, sg.leaf(ns...))), sg.rules(1+r.Intn(2), h), one(asg(h, sg.leaf(ns...))))
	case "reassign-other-params":
		// the new value names its parameter differently (Go only allows the same signature)
		a, b := sg.leaf(ns...), sg.leaf(ns...)
		for b.params[0].name == a.params[0].name {
			b = sg.leaf(ns...)
		}
		return cat(one(def(h, a)), sg.rules(1, h), one(asg(h, b)), sg.rules(1, h), one(def(h2, sg.caller(h))), sg.rules(1, h2))
	case "vardef":
		return cat(one(&c18St{kind: "vardef", name: h, fn: sg.leaf(ns...)}), sg.rules(1+r.Intn(2), h))
	case "vardecl-assign":
		return cat(one(&c18St{kind: "vardecl", name: h}), one(asg(h, sg.leaf(ns...))), sg.rules(1+r.Intn(2), h))
	case "vardecl-unassigned":
		return cat(one(&c18St{kind: "vardecl", name: h}), sg.rules(1, h))
	case "block-shadow":
		inner := cat(one(def(h, sg.leaf(ns...))), sg.rules(1, h))
		kind := "block"
		return cat(one(def(h, sg.leaf(ns...))), sg.rules(r.Intn(2), h), one(&c18St{kind: kind, body: inner}), sg.rules(1, h))
	case "block-late":
		inner := cat(sg.rules(1, h), one(def(h, sg.leaf(ns...))), sg.rules(1, h))
		return cat(one(def(h, sg.leaf(ns...))), one(&c18St{kind: "block", body: inner}), sg.rules(r.Intn(2), h))
	case "if-block":
		return cat(one(def(h, sg.leaf(ns...))), one(&c18St{kind: "ifblock", body: sg.rules(1, h)}), sg.rules(r.Intn(2), h))
	case "use-before-define":
		return cat(sg.rules(1, h), one(def(h, sg.leaf(ns...))), sg.rules(r.Intn(2), h))
	case "chain":
		return cat(one(def(h2, sg.leaf(ns...))), one(def(h, sg.caller(h2))), one(def(h3, sg.caller(h, h2))), sg.rules(1+r.Intn(2), h3), sg.rules(1, h, h2))
	case "chain-swapped-names":
		if h2 == "v" { // the outer helper's parameter v would shadow it
			h2 = h3
		}
		inner := &c18Fn{params: []c18Param{{"v", "dsl.Var"}, {"s", "string"}}, body: []string{"v.Type.Is(s)", "v.Text.Matches(s)", "v.Node.Is(s) && v.Pure"}[r.Intn(3)]}
		outer := &c18Fn{params: []c18Param{{"s", "dsl.Var"}, {"v", "string"}}, body: h2 + "(s, v)"}
		rule := &c18St{kind: "rule", where: h + `(m["x"], ` + []string{`"int"`, "`a|b`", "strConst"}[r.Intn(3)] + ")"}
		return []*c18St{def(h2, inner), def(h, outer), rule}
	case "chain-reassign-inner":
		return cat(one(def(h2, sg.leaf(ns...))), one(def(h, sg.caller(h2))), sg.rules(1, h), one(asg(h2, sg.leaf(ns...))), sg.rules(1+r.Intn(2), h))
	case "forward-var":
		return cat(one(&c18St{kind: "vardecl", name: h2}), one(def(h, sg.caller(h2))), one(asg(h2, sg.leaf(ns...))), sg.rules(1+r.Intn(2), h))
	case "local-const", "local-const-in-helper":
		v := int64(r.Intn(5000))
		sp := c18LocalSpellings(c18IntSpellings(v, r))
		cst := &c18St{kind: "const", name: "k", cval: sp[r.Intn(len(sp))].text, cdec: strconv.FormatInt(v, 10)}
		op := []string{"==", "<", ">="}[r.Intn(3)]
		if family == "local-const" {
			return cat(one(cst), one(def(h, sg.leaf(ns...))), one(&c18St{kind: "rule", where: `m["x"].Value.Int() ` + op + " k && " + h + `(m["y"])`}))
		}
		return cat(one(cst), one(def(h, &c18Fn{params: []c18Param{{"v", "dsl.Var"}}, body: "v.Value.Int() " + op + " k"})), sg.rules(1, h))
	case "alias":
		return cat(one(def(h, sg.leaf(ns...))), one(&c18St{kind: "raw", raw: h2 + " := " + h}), sg.rules(1, h2))
	case "blank-assign":
		return cat(one(def(h, sg.leaf(ns...))), one(&c18St{kind: "raw", raw: "_ = " + h}), sg.rules(1, h))
	case "multi-define":
		return cat(one(&c18St{kind: "raw", raw: h + ", " + h2 + " := " + sg.leaf(ns...).text() + ", " + sg.leaf(ns...).text()}), sg.rules(1, h, h2))
	case "multi-define-mixed":
		return cat(one(def(h, sg.leaf(ns...))), sg.rules(1, h), one(&c18St{kind: "raw", raw: h + ", " + h2 + " := " + sg.leaf(ns...).text() + ", " + sg.leaf(ns...).text()}), sg.rules(1, h, h2))
	case "helper-named-like-param":
		// a helper called v, another helper whose parameter is called v, a third one that calls the helper v
		pv := &c18Fn{params: []c18Param{{"v", "dsl.Var"}}, body: []string{"v.Pure", "v.Const && v.Type.Is(`int`)", "!v.Addressable"}[r.Intn(3)]}
		callsV := &c18Fn{params: []c18Param{{"w", "dsl.Var"}}, body: "v(w) && w.Pure"}
		lf := sg.leaf("v", h, h2)
		for lf.params[0].name == "v" {
			lf = sg.leaf("v", h, h2)
		}
		if h == "v" || h2 == "v" {
			h, h2 = "hh", "hh2"
		}
		return cat(one(def("v", lf)), one(def(h, pv)), one(def(h2, callsV)), sg.rules(1, h, h2), sg.rules(1, "v"))
	case "non-func-define":
		return cat(one(&c18St{kind: "raw", raw: "n := " + []string{"010", "8", "0x8"}[r.Intn(3)]}), one(&c18St{kind: "rule", where: `m["x"].Line > n`}))
	case "reassign-in-block":
		inner := cat(one(asg(h, sg.leaf(ns...))), sg.rules(1, h))
		return cat(one(def(h, sg.leaf(ns...))), sg.rules(1, h), one(&c18St{kind: "block", body: inner}), sg.rules(1, h))
	}
	return nil
}

func c18StmtSuite(c *Ctx) error {
	res := c.Res
	rng := hx.Rng(c.Seed, "c18-stmts")
	sg := &c18StmtGen{r: rng, g: &c18Gen{r: rng, res: hx.NewResult("", "", 0)}}
	per := 6
	if c.Thorough {
		per = 80
	}
	var allSrcs []string
	for _, fam := range c18StmtFamilies {
		for i := 0; i < per; i++ {
			sts := sg.gen(fam)
			if sts == nil {
				res.Errorf("c18 stmts: no generator for family %s", fam)
				break
			}
			n := 0
			helperSrc := c18StmtHeader + "func g(m dsl.Matcher) {\n" + c18Render(sts, "\t", &n) + "}\n"
			res.Count("stmts", helperSrc, true)
			allSrcs = append(allSrcs, helperSrc)
			input := map[string]interface{}{"family": fam, "rules": helperSrc}
			wheres, merr := c18Meaning(sts)
			if merr != "" {
				// the group has no helper-free form (a statement that is not a definition or a rule, a nil function
				// variable, a name used before its declaration): it must be rejected
				input["no_inlined_form"] = merr
				out := "rejected"
				l, err := c18Load(helperSrc)
				if err != nil {
					out = "rejected-typecheck"
					if !c18LocatedRE.MatchString(err.Error()) {
						out = "violation"
						res.Violate(hx.Violation{Signature: "stmts:" + fam + ":unlocated-error", What: "the group is rejected by the type checker without a location", Input: input,
							Impl: firstLine(err.Error()), Spec: "an error with a position"})
					}
				} else if f, o := l.convert(); o == "ok" {
					if _, lerr := hx.LoadRules(helperSrc); lerr != nil {
						out = "rejected-by-load"
					} else {
						out = "violation"
						res.Violate(hx.Violation{Signature: "stmts:" + fam + ":accepted-without-a-meaning", What: "a group that has no helper-free form (" + merr + ") loads",
							Input: input, Impl: "loads: " + c18DescribeIR(f), Spec: "rejected with a located error"})
					}
				} else if strings.HasPrefix(o, "panic") {
					out = "violation"
					res.Violate(hx.Violation{Signature: "stmts:" + fam + ":panic", What: "ConvertFile panics on the group", Input: input, Impl: o, Spec: "rejected with a located error"})
				} else if !c18LocatedRE.MatchString(o) {
					out = "violation"
					res.Violate(hx.Violation{Signature: "stmts:" + fam + ":unlocated-error", What: "the group is rejected without a location", Input: input, Impl: o, Spec: "an error with a position"})
				}
				res.Dist("stmts:" + fam + ":" + out)
				continue
			}
			var sb strings.Builder
			sb.WriteString(c18StmtHeader + "func g(m dsl.Matcher) {\n")
			for k, w := range wheres {
				fmt.Fprintf(&sb, "\tm.Match(`f($x, $y)`).Where(%s).Report(`r%d`)\n", w, k+1)
			}
			sb.WriteString("}\n")
			out := c18Judge(res, "stmts:"+fam, "group", helperSrc, sb.String(), input)
			res.Dist("stmts:" + fam + ":" + out)
			if fam == "plain" && i == 0 {
				res.Sample(map[string]interface{}{"suite": "stmts", "family": fam, "rules": helperSrc, "inlined": sb.String(), "outcome": out})
			}
		}
	}
	return c18GroupTie(c, allSrcs)
}

// ---------- the model of the statement loop and of the literal patch, tied to the code ----------

var c18StmtLoopErrors = []string{"expected a m method call", "multi-value := is not supported", "only simple ident lhs is supported", "only func literals are supported on the rhs",
	"only funcs returning bool are supported", "only simple 1 return statement funcs are supported", "expected a return statement"}

// c18GroupOp: the statements of func g as the model's `Stmt`s (MacroLit.groupLoop)
func c18GroupOp(l *c18Loaded) (string, bool) {
	for _, d := range l.lf.Syntax.Decls {
		fd, ok := d.(*ast.FuncDecl)
		if !ok || fd.Name.Name != "g" {
			continue
		}
		parts := []string{"c18group"}
		for _, st := range fd.Body.List {
			switch st := st.(type) {
			case *ast.AssignStmt:
				good := len(st.Lhs) == 1 && len(st.Rhs) == 1
				name := ""
				if good {
					id, ok1 := st.Lhs[0].(*ast.Ident)
					fn, ok2 := st.Rhs[0].(*ast.FuncLit)
					good = ok1 && ok2
					if good {
						name = id.Name
						res := fn.Type.Results
						good = res != nil && len(res.List) == 1 && len(res.List[0].Names) <= 1
						if good {
							t, ok := res.List[0].Type.(*ast.Ident)
							good = ok && t.Name == "bool"
						}
						if good && len(fn.Body.List) == 1 {
							rs, ok := fn.Body.List[0].(*ast.ReturnStmt)
							good = ok && len(rs.Results) == 1
						} else {
							good = false
						}
					}
				}
				switch {
				case st.Tok == token.DEFINE && good:
					parts = append(parts, "(define "+name+")")
				case st.Tok == token.DEFINE:
					parts = append(parts, "(definebad)")
				case st.Tok == token.ASSIGN && good:
					parts = append(parts, "(assign "+name+")")
				default:
					parts = append(parts, "(other)")
				}
			case *ast.DeclStmt:
				parts = append(parts, "(decl)")
			case *ast.ExprStmt:
				call, ok := st.X.(*ast.CallExpr)
				if !ok {
					parts = append(parts, "(other)")
					continue
				}
				names := []string{"rule"}
				ast.Inspect(call, func(n ast.Node) bool {
					if c, ok := n.(*ast.CallExpr); ok {
						if id, ok := c.Fun.(*ast.Ident); ok {
							names = append(names, id.Name)
						}
					}
					return true
				})
				parts = append(parts, "("+strings.Join(names, " ")+")")
			default:
				parts = append(parts, "(other)")
			}
		}
		return strings.Join(parts, " "), true
	}
	return "", false
}

// c18GroupTie: accept / refuse of the real statement loop vs MacroLit.groupLoop, on every generated group that type-checks
func c18GroupTie(c *Ctx, srcs []string) error {
	res := c.Res
	var ops, impls []string
	var inputs []interface{}
	for _, src := range srcs {
		l, err := c18Load(src)
		if err != nil {
			continue
		}
		op, ok := c18GroupOp(l)
		if !ok {
			continue
		}
		_, out := l.convert()
		impl := ""
		switch {
		case out == "ok":
			impl = "ok"
		case strings.HasPrefix(out, "panic"):
			impl = out
		default:
			for _, w := range c18StmtLoopErrors {
				if strings.Contains(out, w) {
					impl = "err"
				}
			}
		}
		if impl == "" {
			res.Dist("group-model:rule-conversion-error(not-the-loop)")
			continue
		}
		ops = append(ops, op)
		impls = append(impls, impl)
		inputs = append(inputs, map[string]interface{}{"rules": src})
		res.Count("group-model", src, true)
		res.Dist("group-model:" + impl)
	}
	ans, err := c.Drv.Ask(ops)
	if err != nil {
		return err
	}
	for i := range ops {
		model := strings.SplitN(ans[i], " ", 2)[0]
		if model != impls[i] {
			res.Disagree(hx.Disagreement{Suite: "group-model", Op: ops[i], Impl: impls[i], Model: ans[i], Input: inputs[i]})
		}
	}
	return nil
}

// c18RetypeSuite: the constant expandMacro re-creates for a copied basic literal (observed in the IR of a helper whose
// body compares with the literal) vs MacroLit.retype, for every literal token the spelling generators produce and a
// stream of random well-formed integer literals of every base.
func c18RetypeSuite(c *Ctx) error {
	res := c.Res
	rng := hx.Rng(c.Seed, "c18-retype")
	seen := map[string]bool{}
	var toks []string
	add := func(t string) {
		if e, err := parser.ParseExpr(t); err == nil {
			if _, ok := e.(*ast.BasicLit); ok && !seen[t] {
				seen[t] = true
				toks = append(toks, t)
			}
		}
	}
	n := 40
	if c.Thorough {
		n = 600
	}
	vals := []int64{0, 1, 7, 8, 9, 10, 63, 64, 255, 256, 420, 511, 777, 1000, 4095, 65535, 1 << 31, 1<<32 - 1, 1 << 53, 1 << 62, math.MaxInt64, math.MaxInt64 - 1}
	for i := 0; i < n; i++ {
		switch rng.Intn(3) {
		case 0:
			vals = append(vals, int64(rng.Intn(100000)))
		case 1:
			vals = append(vals, rng.Int63())
		default:
			vals = append(vals, rng.Int63()>>uint(rng.Intn(63)))
		}
	}
	for _, v := range vals {
		for _, sp := range c18IntSpellings(v, rng) {
			add(sp.text)
		}
	}
	for _, s := range []string{"", "a", "ab", "a\"b", "x\ty", "héé", "\x00", "line\nbreak", "`"} {
		for _, sp := range c18StrSpellings(s) {
			add(sp.text)
		}
	}
	for _, t := range []string{"1.0", "1e3", "0x1p4", ".5", "1_0.2_5", "1i", "0i", "2.5i", "'a'", "'\\n'", "'\\x41'", "'\\101'", "'\\u00e9'", "'é'", "0e0", "00", "000", "0_0", "0x0", "0b0", "0o0",
		"9223372036854775807", "0x7fffffffffffffff", "0X7FFF_FFFF_FFFF_FFFF", "0o777777777777777777777", "0777777777777777777777",
		"0b111111111111111111111111111111111111111111111111111111111111111", "0000000000000000000000000000000000000000000001"} {
		add(t)
	}
	type item struct{ tok, op, impl string }
	var items []item
	for _, t := range toks {
		e, _ := parser.ParseExpr(t)
		lit := e.(*ast.BasicLit)
		body := `m["x"].Value.Int() == ` + t
		unq := "n"
		if lit.Kind == token.STRING {
			body = `m["x"].Text == ` + t
			u, err := strconv.Unquote(t)
			if err == nil {
				unq = "u" + hx.HexS(u)
			}
		}
		src := "package gorules\n\nimport \"github.com/quasilyte/go-ruleguard/dsl\"\n\nfunc g(m dsl.Matcher) {\n\th := func() bool { return " + body + " }\n\tm.Match(`f($x)`).Where(h()).Report(`r`)\n}\n"
		l, err := c18Load(src)
		if err != nil {
			res.Dist("retype:" + lit.Kind.String() + ":does-not-typecheck")
			continue
		}
		f, out := l.convert()
		impl := ""
		switch {
		case out == "ok":
			w, ok := whereOf(f)
			if !ok || len(w.Args) != 2 {
				res.Errorf("c18 retype: unexpected IR for %s", t)
				continue
			}
			switch v := w.Args[1].Value.(type) {
			case int64:
				impl = fmt.Sprintf("(i %d)", v)
			case string:
				impl = "(s " + hx.HexS(v) + ")"
			default:
				impl = "other-IR:" + w.Args[1].String()
			}
		case strings.Contains(out, "unsupported expr") && strings.Contains(out, "(*ast.BasicLit)"):
			impl = "nofold"
		default:
			impl = "other:" + out
		}
		res.Count("retype", t, true)
		res.Dist("retype:" + lit.Kind.String() + ":" + strings.SplitN(strings.Trim(impl, "("), " ", 2)[0])
		items = append(items, item{t, "c18retype " + lit.Kind.String() + " " + hx.HexS(t) + " " + unq, impl})
	}
	var ops []string
	for _, it := range items {
		ops = append(ops, it.op)
	}
	ans, err := c.Drv.Ask(ops)
	if err != nil {
		return err
	}
	for i, it := range items {
		model := ans[i]
		if model == "n" || model == "o" || model == "big" {
			model = "nofold"
		}
		if model != it.impl {
			res.Disagree(hx.Disagreement{Suite: "retype", Op: it.op, Impl: it.impl, Model: ans[i], Input: map[string]interface{}{"literal": it.tok}})
		}
	}
	return nil
}
