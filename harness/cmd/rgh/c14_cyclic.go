package main

// C14, cyclic anonymous interfaces.  The Lean model of xtypes covers the acyclic fragment only (DESIGN.md §7: the
// `ifacePair` stack is modelled out); this suite ties that part of the code to the property directly: interface types
// that reach themselves through a method signature (`type T interface{ m() interface{ T } }`) are compared with
// xtypes.Identical / xtypes.Implements in one universe and across two type-checks, go/types being the judge in one
// universe and "the counterpart, and nothing else" across universes.  A defect here is typically unbounded recursion,
// which kills the process, so the comparisons run in a child (`rgh c14cyclic`) under a deadline and a stack limit.

import (
	"bufio"
	"fmt"
	"go/ast"
	"go/importer"
	"go/parser"
	"go/token"
	"go/types"
	"os"
	"os/exec"
	"runtime/debug"
	"strings"
	"time"

	"github.com/quasilyte/go-ruleguard/ruleguard/verifx"
	"verifharness/hx"
)

const c14CyclicSrc = `package cyc

type T interface{ m() interface{ T } }
type U interface{ m() interface{ U } }
type V interface{ m() interface{ V }; n() }
type W interface{ m(interface{ W }) interface{ W } }
type X interface{ m(interface{ X }) interface{ X } }
type P interface{ m() interface{ Q } }
type Q interface{ m() interface{ P } }
type L interface{ next() interface{ L }; val() int }
type M interface{ next() interface{ M }; val() string }

type implT struct{}

func (implT) m() interface{ T } { return nil }

type implV struct{}

func (implV) m() interface{ V } { return nil }
func (implV) n()               {}

var (
	vt  interface{ T }
	vu  interface{ U }
	vv  interface{ V }
	vw  interface{ W }
	vx  interface{ X }
	vp  interface{ P }
	vq  interface{ Q }
	vl  interface{ L }
	vm  interface{ M }
	vst []interface{ T }
	vsu []interface{ U }
	vft func(interface{ T }) interface{ U }
	vfu func(interface{ U }) interface{ T }
	vmt map[string]interface{ L }
	vmm map[string]interface{ M }
	it  implT
	iv  implV
	nt  T
	nu  U
)
`

func init() {
	if len(os.Args) >= 2 && os.Args[1] == "c14cyclic" {
		os.Exit(c14CyclicChild())
	}
}

func c14CyclicUniverse() (map[string]types.Type, []string, error) {
	fset := token.NewFileSet()
	f, err := parser.ParseFile(fset, "cyc.go", c14CyclicSrc, 0)
	if err != nil {
		return nil, nil, err
	}
	cfg := types.Config{Importer: importer.Default()}
	pkg, err := cfg.Check("cyc", fset, []*ast.File{f}, nil)
	if err != nil {
		return nil, nil, err
	}
	out := map[string]types.Type{}
	var names []string
	for _, n := range pkg.Scope().Names() {
		if v, ok := pkg.Scope().Lookup(n).(*types.Var); ok {
			out[n] = v.Type()
			names = append(names, n)
		}
	}
	return out, names, nil
}

// child: reads "id <a> <b> <cross>" / "impl <a> <b> <cross>" lines, answers "t" / "f" per line.
func c14CyclicChild() int {
	debug.SetMaxStack(64 << 20)
	u1, _, err := c14CyclicUniverse()
	if err != nil {
		fmt.Println("ERR", err)
		return 2
	}
	u2, _, err := c14CyclicUniverse()
	if err != nil {
		fmt.Println("ERR", err)
		return 2
	}
	in := bufio.NewScanner(os.Stdin)
	w := bufio.NewWriter(os.Stdout)
	defer w.Flush()
	for in.Scan() {
		fs := strings.Fields(in.Text())
		if len(fs) != 4 {
			continue
		}
		x := u1[fs[1]]
		y := u1[fs[2]]
		if fs[3] == "1" {
			y = u2[fs[2]]
		}
		ans := false
		if fs[0] == "id" {
			ans = verifx.Identical(x, y)
		} else if it, ok := y.Underlying().(*types.Interface); ok {
			ans = verifx.Implements(x, it)
		}
		if ans {
			fmt.Fprintln(w, "t")
		} else {
			fmt.Fprintln(w, "f")
		}
		w.Flush()
	}
	return 0
}

func c14Cyclic(c *Ctx) error {
	res := c.Res
	u, names, err := c14CyclicUniverse()
	if err != nil {
		return fmt.Errorf("cyclic universe: %v", err)
	}
	type q struct {
		op, a, b string
		cross    bool
		want     bool
	}
	var qs []q
	for _, a := range names {
		for _, b := range names {
			same := types.Identical(u[a], u[b])
			qs = append(qs, q{"id", a, b, false, same})
			// across two type-checks a type is related to its counterpart and to whatever is identical to it in one universe
			qs = append(qs, q{"id", a, b, true, same})
			if it, ok := u[b].Underlying().(*types.Interface); ok {
				impl := types.Implements(u[a], it)
				qs = append(qs, q{"impl", a, b, false, impl})
				qs = append(qs, q{"impl", a, b, true, impl})
			}
		}
	}
	self, err := os.Executable()
	if err != nil {
		return err
	}
	ask := func(batch []q) ([]string, string) {
		cmd := exec.Command(self, "c14cyclic")
		var sb strings.Builder
		for _, x := range batch {
			fmt.Fprintf(&sb, "%s %s %s %s\n", x.op, x.a, x.b, b01s2(x.cross))
		}
		cmd.Stdin = strings.NewReader(sb.String())
		var out, errb strings.Builder
		cmd.Stdout, cmd.Stderr = &out, &errb
		if err := cmd.Start(); err != nil {
			return nil, "start: " + err.Error()
		}
		done := make(chan error, 1)
		go func() { done <- cmd.Wait() }()
		died := ""
		select {
		case err := <-done:
			if err != nil {
				died = "died: " + err.Error() + " " + firstLine(errb.String())
			}
		case <-time.After(60 * time.Second):
			_ = cmd.Process.Kill()
			<-done
			died = "timeout"
		}
		return strings.Fields(out.String()), died
	}
	for len(qs) > 0 {
		ans, died := ask(qs)
		n := len(ans)
		if n > len(qs) {
			n = len(qs)
		}
		for i := 0; i < n; i++ {
			x := qs[i]
			res.Count("cyclic", fmt.Sprintf("%s %s %s %v", x.op, x.a, x.b, x.cross), x.a != x.b)
			if (ans[i] == "t") != x.want {
				kind := "Identical"
				if x.op == "impl" {
					kind = "Implements"
				}
				dir := "rejects"
				if ans[i] == "t" {
					dir = "accepts"
				}
				res.Violate(hx.Violation{Signature: kind + ":" + dir + ":cyclic-anonymous-interface", What: "xtypes." + kind + " on interface types that reach themselves through a method signature differs from go/types",
					Input: map[string]interface{}{"x": x.a + " : " + u[x.a].String(), "y": x.b + " : " + u[x.b].String(), "second_type_check": x.cross, "source": c14CyclicSrc},
					Impl:  ans[i], Spec: c14Bool(x.want)})
			}
		}
		if n == len(qs) {
			break
		}
		// the child stopped at question n: that comparison does not return
		x := qs[n]
		res.Violate(hx.Violation{Signature: "Identical:does-not-return:cyclic-anonymous-interface", What: "the comparison does not return (" + died + ")",
			Input: map[string]interface{}{"op": x.op, "x": x.a + " : " + u[x.a].String(), "y": x.b + " : " + u[x.b].String(), "second_type_check": x.cross, "source": c14CyclicSrc},
			Impl:  died, Spec: c14Bool(x.want)})
		qs = qs[n+1:]
	}
	return nil
}

func b01s2(b bool) string {
	if b {
		return "1"
	}
	return "0"
}
