package main

// The focus stream of C04: small programs around three corners of the accepted subset that the type-directed
// stream of c04_gen.go reaches rarely or not at all.
//
//   - object results that are nil: user functions of result type error / interface{} whose result is the nil
//     interface for some arguments (the only source of such a value in the subset is the error of strconv.Atoi on a
//     valid number), called from other user functions: compared with nil (both operand orders, == and !=), stored
//     in a local, formatted with fmt.Sprintf, passed on to a function with an error parameter, returned again;
//   - the blank identifier: `_, e := strconv.Atoi(x)` and `n, _ := strconv.Atoi(x)` with parameters and locals of
//     every kind read afterwards, in functions called with temporaries of the caller on the stack; `_ = e` where the
//     compiler accepts it; a second `_` in one function and a `_ = e` without a local `_` (both rejected by the
//     compiler as it is: the rejection must be the model's as well);
//   - the natives: fmt.Sprintf with every verb that can be applied to an int, string, bool or error operand, flags,
//     width, precision, argument indexes, `%%`, verbs without an operand, operands without a verb, the format taken
//     from a parameter; strings.Replace with every count class, empty and overlapping patterns; strconv at the ends
//     of the int range.
//
// The programs go through the same pipeline as the other programs (bytes against the model, quasigo.Call against
// the model, the reference semantics, `go run`).  Where the reference semantics has no model of a native call the
// answer of quasigo.Call is compared with `go run` of the same source directly (suite go-direct in c04.go).
//
// Argument tuples come from a domain of their own (numeric strings, format strings, the ends of the int range).

import (
	"fmt"
	"go/types"
	"math"
	"math/rand"
	"strconv"
	"strings"

	"verifharness/hx"
)

// c04BlankReassign: the shape `_, e := strconv.Atoi(s); _ = len(d)` (an assignment to `_` after a local `_`
// exists).  quasigo.Compile used to panic on it with a nil dereference (go/types records no type for a `_` on the
// left of `=`, and compileAssignStmt asked typeIsInt of it; repaired in /repo, see known_findings.json).
const c04BlankReassign = true

type fGen struct {
	r       *rand.Rand
	prefix  string
	feat    map[string]int
	imports map[string]bool
	funcs   []string // complete function declarations, in order
	last    string   // a function the compiler as it is rejects: placed at the end (compilation stops there)
	seq     int
}

func (g *fGen) hit(f string)          { g.feat["focus:"+f]++ }
func (g *fGen) pick(n int) int        { return g.r.Intn(n) }
func (g *fGen) chance(p float64) bool { return g.r.Float64() < p }
func (g *fGen) oneOf(xs ...string) string {
	return xs[g.pick(len(xs))]
}

func (g *fGen) name(kind string) string {
	g.seq++
	return fmt.Sprintf("%s%s%d", g.prefix, kind, g.seq)
}

func (g *fGen) add(src string) { g.funcs = append(g.funcs, src) }

// ---- object results that are nil ------------------------------------------------------------------------------

// nilResultFunc declares a function `name(s string) <error|interface{}>` whose result is nil exactly when s is a number.
func (g *fGen) nilResultFunc() (name, resTy string) {
	g.imports["strconv"] = true
	name = g.name("e")
	resTy = "error"
	if g.chance(0.2) {
		resTy = "interface{}"
		g.hit("nil-result:interface{}")
	} else {
		g.hit("nil-result:error")
	}
	arg := "s"
	if g.chance(0.2) {
		g.imports["strings"] = true
		arg = `strings.TrimPrefix(s, "x")`
	}
	var b strings.Builder
	fmt.Fprintf(&b, "func %s(s string) %s {\n", name, resTy)
	switch g.pick(4) {
	case 0:
		g.hit("nil-result:callee-blank-int")
		fmt.Fprintf(&b, "\t_, e1 := strconv.Atoi(%s)\n\treturn e1\n", arg)
	case 1:
		g.hit("nil-result:callee-branches")
		fmt.Fprintf(&b, "\tn1, e1 := strconv.Atoi(%s)\n\tif n1 > %s {\n\t\treturn e1\n\t}\n\treturn e1\n", arg, g.oneOf("0", "5", "-1"))
	case 2:
		g.hit("nil-result:callee-local-copy")
		fmt.Fprintf(&b, "\tn1, e1 := strconv.Atoi(%s)\n\te2 := e1\n\tif n1 == 12 {\n\t\treturn e2\n\t}\n\treturn e2\n", arg)
	default:
		g.hit("nil-result:callee-nil-test-inside")
		fmt.Fprintf(&b, "\tn1, e1 := strconv.Atoi(%s)\n\tif e1 == nil {\n\t\tn1++\n\t}\n\tif n1 > 100 {\n\t\treturn e1\n\t}\n\treturn e1\n", arg)
	}
	b.WriteString("}\n")
	g.add(b.String())
	return name, resTy
}

func (g *fGen) nilTest(x string) string {
	op := g.oneOf("==", "!=")
	if g.chance(0.3) {
		g.hit("nil-result:nil-on-the-left")
		return "nil " + op + " " + x
	}
	return x + " " + op + " nil"
}

// nilResultFamily: a callee with a nil-able result and a few of its users.
func (g *fGen) nilResultFamily() {
	callee, resTy := g.nilResultFunc()
	users := 2 + g.pick(3)
	for u := 0; u < users; u++ {
		var b strings.Builder
		switch k := g.pick(9); k {
		case 0: // compared with nil in a condition
			g.hit("nil-result:user-compares")
			n := g.name("c")
			switch g.pick(3) {
			case 0:
				fmt.Fprintf(&b, "func %s(s string) string {\n\tif %s {\n\t\treturn \"A\" + s\n\t}\n\treturn \"B\"\n}\n", n, g.nilTest(callee+"(s)"))
			case 1:
				fmt.Fprintf(&b, "func %s(s string, n int) int {\n\tif %s {\n\t\treturn n + 1\n\t}\n\treturn n - len(s)\n}\n", n, g.nilTest(callee+"(s)"))
			default:
				fmt.Fprintf(&b, "func %s(s string) bool {\n\treturn %s\n}\n", n, g.nilTest(callee+"(s)"))
			}
		case 1: // stored in a local first
			g.hit("nil-result:user-local")
			g.imports["fmt"] = true
			n := g.name("l")
			fmt.Fprintf(&b, "func %s(s string, d string) string {\n\te2 := %s(s)\n\tif %s {\n\t\treturn d + fmt.Sprintf(\"%s\", e2)\n\t}\n\treturn s + fmt.Sprintf(\"[%%v]\", e2)\n}\n",
				n, callee, g.nilTest("e2"), g.oneOf("%v", "<%v>", "%v|%v"))
		case 2: // formatted
			g.hit("nil-result:user-formats")
			g.imports["fmt"] = true
			n := g.name("p")
			switch g.pick(3) {
			case 0:
				fmt.Fprintf(&b, "func %s(s string) string {\n\treturn fmt.Sprintf(\"%%s: %%v\", s, %s(s))\n}\n", n, callee)
			case 1:
				fmt.Fprintf(&b, "func %s(s string, n int) string {\n\treturn fmt.Sprintf(\"%s\", %s(s), n)\n}\n", n, g.oneOf("%v/%d", "%v %v", "%T %d", "%s|%5d|"), callee)
			default:
				fmt.Fprintf(&b, "func %s(s string) string {\n\treturn \"<\" + fmt.Sprintf(\"%%v\", %s(s)) + \">\" + s\n}\n", n, callee)
			}
		case 3: // passed on to a function with an object parameter
			g.hit("nil-result:user-passes-on")
			h := g.name("h")
			n := g.name("q")
			switch g.pick(3) {
			case 0:
				fmt.Fprintf(&b, "func %s(e %s) bool {\n\treturn %s\n}\n\n", h, resTy, g.nilTest("e"))
				fmt.Fprintf(&b, "func %s(s string) bool {\n\treturn %s(%s(s))\n}\n", n, h, callee)
			case 1:
				g.imports["fmt"] = true
				fmt.Fprintf(&b, "func %s(e %s, d string) string {\n\tif e == nil {\n\t\treturn d\n\t}\n\treturn fmt.Sprintf(\"%%v\", e)\n}\n\n", h, resTy)
				fmt.Fprintf(&b, "func %s(s string, d string) string {\n\treturn %s(%s(s), d) + \"|\" + d\n}\n", n, h, callee)
			default:
				fmt.Fprintf(&b, "func %s(n int, e %s, s string) int {\n\tif e != nil {\n\t\treturn n\n\t}\n\treturn len(s)\n}\n\n", h, resTy)
				fmt.Fprintf(&b, "func %s(s string, n int) int {\n\treturn 1 + %s(n, %s(s), s)\n}\n", n, h, callee)
			}
		case 4: // returned again, unchanged
			g.hit("nil-result:user-returns-it")
			i := g.name("i")
			n := g.name("r")
			fmt.Fprintf(&b, "func %s(e %s) %s {\n\treturn e\n}\n\n", i, resTy, resTy)
			fmt.Fprintf(&b, "func %s(s string) string {\n\tif %s {\n\t\treturn \"nil:\" + s\n\t}\n\treturn \"err\"\n}\n", n, g.nilTest(i+"("+callee+"(s))"))
		case 5: // a second function with the same kind of result that chooses between two calls
			g.hit("nil-result:user-chains")
			ch := g.name("e")
			n := g.name("t")
			fmt.Fprintf(&b, "func %s(s string, t string) %s {\n\tif %s(s) != nil {\n\t\treturn %s(t)\n\t}\n\treturn %s(s)\n}\n\n", ch, resTy, callee, callee, callee)
			fmt.Fprintf(&b, "func %s(s string, t string) string {\n\tif %s {\n\t\treturn \"ok\"\n\t}\n\treturn s + t\n}\n", n, g.nilTest(ch+"(s, t)"))
		case 6: // two results alive at once
			g.hit("nil-result:user-two-results")
			n := g.name("w")
			fmt.Fprintf(&b, "func %s(s string, t string) string {\n\te2 := %s(s)\n\te3 := %s(t)\n\tif e2 == nil {\n\t\tif e3 == nil {\n\t\t\treturn \"both\"\n\t\t}\n\t\treturn \"first\"\n\t}\n\tif e3 == nil {\n\t\treturn \"second\"\n\t}\n\treturn \"none\"\n}\n",
				n, callee, callee)
		case 7: // the call is an operand while temporaries of the caller are on the stack
			g.hit("nil-result:user-under-temporaries")
			g.imports["fmt"] = true
			n := g.name("m")
			fmt.Fprintf(&b, "func %s(s string, n int) string {\n\treturn s + fmt.Sprintf(\"%%d\", n) + fmt.Sprintf(\"%%v\", %s(s)) + s\n}\n", n, callee)
		default: // in a loop
			g.hit("nil-result:user-loop")
			n := g.name("o")
			fmt.Fprintf(&b, "func %s(s string) int {\n\ti1 := 0\n\tn1 := 0\n\tfor i1 < len(s) {\n\t\tif %s(s[i1:]) == nil {\n\t\t\tn1++\n\t\t}\n\t\ti1++\n\t}\n\treturn n1\n}\n", n, callee)
		}
		g.add(b.String())
	}
}

// ---- the blank identifier ---------------------------------------------------------------------------------------

type fParam struct {
	name string
	ty   string
}

func (g *fGen) params(min int) []fParam {
	n := min + g.pick(3)
	var ps []fParam
	for i := 0; i < n; i++ {
		ty := g.oneOf("string", "string", "int", "bool")
		ps = append(ps, fParam{fmt.Sprintf("%s%d", map[string]string{"string": "t", "int": "x", "bool": "c"}[ty], i), ty})
	}
	// at least one string (the operand of Atoi), at a random position
	has := false
	for _, p := range ps {
		has = has || p.ty == "string"
	}
	if !has {
		i := g.pick(len(ps))
		ps[i] = fParam{fmt.Sprintf("t%d", i), "string"}
	}
	return ps
}

func fParamList(ps []fParam) string {
	var out []string
	for _, p := range ps {
		out = append(out, p.name+" "+p.ty)
	}
	return strings.Join(out, ", ")
}

// readAll is a string expression that reads every parameter (left to right).
func (g *fGen) readAll(ps []fParam) string {
	g.imports["fmt"] = true
	var verbs, ops []string
	for _, p := range ps {
		verbs = append(verbs, "%v")
		ops = append(ops, p.name)
	}
	return "fmt.Sprintf(\"" + strings.Join(verbs, "|") + "\", " + strings.Join(ops, ", ") + ")"
}

func (g *fGen) firstOf(ps []fParam, ty string, last bool) string {
	out := ""
	for _, p := range ps {
		if p.ty == ty {
			out = p.name
			if !last {
				return out
			}
		}
	}
	return out
}

func (g *fGen) blankFamily() {
	g.imports["strconv"] = true
	ps := g.params(1)
	n := g.name("b")
	res := g.oneOf("string", "string", "int", "bool")
	var b strings.Builder
	fmt.Fprintf(&b, "func %s(%s) %s {\n", n, fParamList(ps), res)
	str := g.firstOf(ps, "string", g.chance(0.5))
	// locals defined before the statement and read after it
	pre := g.pick(3)
	var locals []string
	for i := 0; i < pre; i++ {
		switch g.pick(3) {
		case 0:
			fmt.Fprintf(&b, "\tk%d := len(%s) + %d\n", i, str, i)
			locals = append(locals, fmt.Sprintf("strconv.Itoa(k%d)", i))
		case 1:
			fmt.Fprintf(&b, "\tu%d := %s + \"!\"\n", i, str)
			locals = append(locals, fmt.Sprintf("u%d", i))
		default:
			fmt.Fprintf(&b, "\tk%d := %d\n\tk%d++\n", i, 7*i, i)
			locals = append(locals, fmt.Sprintf("strconv.Itoa(k%d)", i))
		}
	}
	operand := str
	switch g.pick(5) {
	case 0:
		operand = g.oneOf(`"12"`, `"x1"`, `"-7"`, `""`)
	case 1:
		operand = str + "[:]"
	}
	blankInt := g.chance(0.6)
	if blankInt {
		g.hit("blank:define-int")
		fmt.Fprintf(&b, "\t_, e1 := strconv.Atoi(%s)\n", operand)
	} else {
		g.hit("blank:define-object")
		fmt.Fprintf(&b, "\tn1, _ := strconv.Atoi(%s)\n", operand)
	}
	if c04BlankReassign && g.chance(0.5) {
		// `_ = e` after the local `_` exists
		switch g.pick(4) {
		case 0:
			g.hit("blank:assign-int")
			fmt.Fprintf(&b, "\t_ = len(%s)\n", str)
		case 1:
			g.hit("blank:assign-string")
			fmt.Fprintf(&b, "\t_ = %s\n", str)
		case 2:
			g.hit("blank:assign-bool")
			fmt.Fprintf(&b, "\t_ = len(%s) > 1\n", str)
		default:
			g.hit("blank:assign-call")
			fmt.Fprintf(&b, "\t_ = strconv.Itoa(len(%s))\n", str)
		}
	}
	all := g.readAll(ps)
	for _, l := range locals {
		all += " + \"/\" + " + l
	}
	test := "e1 != nil"
	if !blankInt {
		test = "n1 == " + g.oneOf("0", "12", "-7")
	} else if g.chance(0.5) {
		test = "e1 == nil"
	}
	switch res {
	case "string":
		switch g.pick(3) {
		case 0:
			g.hit("blank:then-reads-every-parameter")
			fmt.Fprintf(&b, "\tif %s {\n\t\treturn \"default:\" + %s\n\t}\n\treturn %s\n", test, all, str)
		case 1:
			g.hit("blank:then-reads-last-string")
			fmt.Fprintf(&b, "\tif %s {\n\t\treturn \"default:\" + %s\n\t}\n\treturn %s + \"/\" + %s\n", test, g.firstOf(ps, "string", true), str, all)
		default:
			g.hit("blank:then-returns-parameter")
			fmt.Fprintf(&b, "\tif %s {\n\t\treturn %s\n\t}\n\treturn %s\n", test, g.firstOf(ps, "string", true), all)
		}
	case "int":
		g.hit("blank:int-result")
		fmt.Fprintf(&b, "\tif %s {\n\t\treturn len(%s)\n\t}\n\treturn len(%s) + 1\n", test, all, g.firstOf(ps, "string", true))
	default:
		g.hit("blank:bool-result")
		fmt.Fprintf(&b, "\tif %s {\n\t\treturn len(%s) > %s\n\t}\n\treturn %s == \"12\"\n", test, all, g.oneOf("3", "6", "9"), g.firstOf(ps, "string", true))
	}
	b.WriteString("}\n")
	g.add(b.String())

	// a caller that has temporaries on the stack when the call is made
	if g.chance(0.7) {
		g.hit("blank:called-under-temporaries")
		c := g.name("k")
		var args []string
		for _, p := range ps {
			args = append(args, p.name)
		}
		call := n + "(" + strings.Join(args, ", ") + ")"
		var cb strings.Builder
		switch res {
		case "string":
			fmt.Fprintf(&cb, "func %s(%s) string {\n\treturn \"<\" + %s + \">\" + %s\n}\n", c, fParamList(ps), call, str)
		case "int":
			fmt.Fprintf(&cb, "func %s(%s) int {\n\treturn (len(%s) + %s) + 1\n}\n", c, fParamList(ps), str, call)
		default:
			g.imports["fmt"] = true
			fmt.Fprintf(&cb, "func %s(%s) string {\n\treturn %s + fmt.Sprintf(\"%%v\", %s) + %s\n}\n", c, fParamList(ps), str, call, str)
		}
		g.add(cb.String())
	}
}

// rejectedBlank: shapes the compiler as it is refuses (the blank identifier is an ordinary local for it; a call
// whose result is dropped is not compiled: no opPop is ever emitted).  The model must refuse them as well; should the
// compiler start to accept one, its answers are judged by the reference semantics or by go run.  The function is the
// last one of its program.
func (g *fGen) rejectedBlank() {
	n := g.name("z")
	var b strings.Builder
	k := g.pick(9)
	switch k {
	case 5:
		// a call whose result is dropped: the compiler as it is refuses it ("only void funcs can be used in stmt
		// context"); a compiler that accepts it has to discard the result from the right stack
		g.hit("drop:native-string-result-as-statement(rejected)")
		fmt.Fprintf(&b, "func %s(n int, d string) string {\n\tstrconv.Itoa(n)\n\treturn d + strconv.Itoa(n)\n}\n", n)
	case 6:
		g.hit("drop:user-int-result-as-statement(rejected)")
		fmt.Fprintf(&b, "func %sa(s string) int {\n\treturn len(s) + 1\n}\n\nfunc %s(s string, d string) string {\n\t%sa(s)\n\treturn d + s\n}\n", n, n, n)
	case 7:
		g.hit("drop:native-two-results-as-statement(rejected)")
		fmt.Fprintf(&b, "func %s(s string, d string) string {\n\tstrconv.Atoi(s)\n\treturn d + s\n}\n", n)
	case 8:
		g.hit("drop:user-string-result-as-statement-in-loop(rejected)")
		fmt.Fprintf(&b, "func %sa(s string) string {\n\treturn s + \"!\"\n}\n\nfunc %s(s string, n int) int {\n\ti1 := 0\n\tfor i1 < 3 {\n\t\t%sa(s)\n\t\ti1++\n\t}\n\treturn n + i1\n}\n", n, n, n)
	}
	switch k {
	case 0:
		g.hit("blank:second-define(rejected)")
		fmt.Fprintf(&b, "func %s(s string, d string) string {\n\t_, e1 := strconv.Atoi(s)\n\t_, e2 := strconv.Atoi(d)\n\tif e1 != nil {\n\t\treturn \"default:\" + d\n\t}\n\tif e2 != nil {\n\t\treturn d + s\n\t}\n\treturn s\n}\n", n)
	case 1:
		g.hit("blank:assign-int-without-local(rejected)")
		fmt.Fprintf(&b, "func %s(s string, d string) int {\n\t_ = len(s)\n\treturn len(d) + len(s)\n}\n", n)
	case 2:
		g.hit("blank:assign-string-without-local(rejected)")
		fmt.Fprintf(&b, "func %s(s string, d string) string {\n\t_ = s\n\treturn d + s\n}\n", n)
	case 3:
		g.hit("blank:assign-call-without-local(rejected)")
		fmt.Fprintf(&b, "func %s(n int, d string) string {\n\t_ = strconv.Itoa(n)\n\treturn d + strconv.Itoa(n)\n}\n", n)
	case 4:
		g.hit("blank:both-positions(rejected)")
		fmt.Fprintf(&b, "func %s(s string, d string) string {\n\tn1, _ := strconv.Atoi(s)\n\t_, e2 := strconv.Atoi(d)\n\tif e2 != nil {\n\t\treturn d + strconv.Itoa(n1)\n\t}\n\treturn s\n}\n", n)
	}
	g.last = b.String()
}

// ---- natives ----------------------------------------------------------------------------------------------------

// fFormats: format strings over the verbs that mean something for int, string, bool and error operands, with flags,
// width, precision, explicit argument indexes, `%%`, incomplete and unknown verbs.
var fFormats = []string{
	"%%", "100%% sure", "%d items", "%d", "%s", "%v", "%v|%v", "%d%%", "%s=%d", "%q", "%x", "%X", "%o", "%b", "%c", "%U",
	"%t", "%T", "%5d|", "%-5d|", "%05d", "%+d", "% d", "%8s|", "%-8s|", "%.2s", "%x % x", "%#x", "%#v", "%+v", "%6.2v|",
	"%[2]v %[1]v", "%[1]d %[1]v", "%[3]v", "%*d", "%-*d|", "%.*s", "%!", "%", "abc%", "%z", "%d %d", "%s %s %s", "%v %d %s",
	"%e", "%5t|", "%%%d%%", "%%d", "%v%%", "plain", "", "%s%s", "%3c|", "%08b", "%x|%X|%o", "%q %v", "%5q|", "%v %v %v %v",
}

func (g *fGen) format() string { return fFormats[g.pick(len(fFormats))] }

// fmtErrSafe: every verb of the format shows an error operand through its Error method (v, s, q, x, X), by its type
// (T), or not at all (%%, a trailing %).  Any other verb — and `#`, `*`, an argument index — makes fmt print the
// fields of the *strconv.NumError, one of which is a pointer: the text would depend on an address.
func fmtErrSafe(format string) bool {
	for i := 0; i < len(format); i++ {
		if format[i] != '%' {
			continue
		}
		i++
		for i < len(format) && strings.IndexByte("+- 0.123456789", format[i]) >= 0 {
			i++
		}
		if i < len(format) && strings.IndexByte("vsqxXT%", format[i]) < 0 {
			return false
		}
	}
	return true
}

// fmtFamily: fmt.Sprintf with a constant format, or a format taken from a parameter, over 0..4 operands that have
// nothing to do with the verbs.
func (g *fGen) fmtFamily() {
	g.imports["fmt"] = true
	n := g.name("f")
	withErr := g.chance(0.35)
	var b strings.Builder
	fmt.Fprintf(&b, "func %s(n int, s string, c bool, t string) string {\n", n)
	pool := []string{"n", "s", "c", "t", "n", "s", `"lit"`, "7", "true", "len(s)", "-1"}
	if withErr {
		g.imports["strconv"] = true
		g.hit("fmt:error-operand")
		b.WriteString("\tn1, e1 := strconv.Atoi(s)\n")
		pool = append(pool, "e1", "e1", "n1")
	}
	parts := 1 + g.pick(3)
	var exprs []string
	for i := 0; i < parts; i++ {
		f := g.format()
		format := strconv.Quote(f)
		errOK := fmtErrSafe(f)
		if g.chance(0.15) {
			g.hit("fmt:format-from-parameter")
			format, errOK = "t", false
		} else if g.chance(0.05) {
			g.hit("fmt:format-computed")
			format, errOK = `(t + "%v")`, false
		}
		k := g.pick(5)
		if g.chance(0.25) {
			k = 0
		}
		g.hit(fmt.Sprintf("fmt:operands-%d", k))
		ops := ""
		for j := 0; j < k; j++ {
			op := pool[g.pick(len(pool))]
			for op == "e1" && !errOK {
				// (an error operand under a verb that prints its fields would print an address)
				op = pool[g.pick(len(pool))]
			}
			if op == "e1" {
				g.hit("fmt:error-operand-used")
			}
			ops += ", " + op
		}
		exprs = append(exprs, "fmt.Sprintf("+format+ops+")")
	}
	if withErr {
		// (every local must be read)
		fmt.Fprintf(&b, "\tif e1 != nil {\n\t\treturn \"E\" + %s\n\t}\n", exprs[g.pick(len(exprs))])
		exprs = append(exprs, "strconv.Itoa(n1)")
	}
	fmt.Fprintf(&b, "\treturn %s\n}\n", strings.Join(exprs, " + \"|\" + "))
	g.add(b.String())
	if g.chance(0.25) {
		// the result of one Sprintf is the format of the next
		g.hit("fmt:nested")
		m := g.name("g")
		g.add(fmt.Sprintf("func %s(n int, s string, c bool, t string) string {\n\treturn fmt.Sprintf(%s(n, s, c, t), n, s) + \"|\" + fmt.Sprintf(%q)\n}\n", m, n, g.format()))
	}
	if g.chance(0.4) {
		// variadic calls with the same number of operands before and after a call of a user function that makes
		// variadic calls of its own (straight-line: no label in between)
		g.hit("fmt:variadic-calls-around-a-user-call")
		m := g.name("v")
		ops := []string{"", ", n", ", n, s", ", s, n, c", ", t, c, n, s"}[g.pick(5)]
		g.add(fmt.Sprintf("func %s(n int, s string, c bool, t string) string {\n\ta := fmt.Sprintf(\"<%%v|%%v|%%v|%%v>\"%s)\n\tb := %s(n, s, c, t)\n\treturn a + b + fmt.Sprintf(\"[%%v;%%v;%%v;%%v]\"%s)\n}\n", m, ops, n, ops))
	}
}

// stringsFamily: the strings / strconv natives at the corners of their argument space.
func (g *fGen) stringsFamily() {
	g.imports["strings"] = true
	g.imports["strconv"] = true
	g.imports["fmt"] = true
	n := g.name("s")
	var b strings.Builder
	fmt.Fprintf(&b, "func %s(s string, t string, n int) string {\n", n)
	var parts []string
	for i, k := 0, 2+g.pick(3); i < k; i++ {
		switch g.pick(9) {
		case 0:
			g.hit("strings:Replace")
			parts = append(parts, fmt.Sprintf("strings.Replace(s, %s, %s, %s)", g.oneOf("t", `""`, `"a"`, `"ab"`, "s"), g.oneOf(`"-"`, `""`, "t", `"ab"`), g.oneOf("n", "-1", "0", "1", "2")))
		case 1:
			g.hit("strings:ReplaceAll")
			parts = append(parts, fmt.Sprintf("strings.ReplaceAll(s, %s, %s)", g.oneOf("t", `""`, `"a"`, `"aa"`), g.oneOf(`"-"`, `""`, "t")))
		case 2:
			g.hit("strings:Trim")
			parts = append(parts, fmt.Sprintf("strings.%s(s, %s)", g.oneOf("TrimPrefix", "TrimSuffix"), g.oneOf("t", `""`, "s", `"a"`)))
		case 3:
			g.hit("strings:predicates")
			parts = append(parts, fmt.Sprintf("fmt.Sprintf(\"%%v%%v%%v\", strings.HasPrefix(s, %s), strings.HasSuffix(s, %s), strings.Contains(%s, %s))",
				g.oneOf("t", `""`, "s"), g.oneOf("t", `""`, "s"), g.oneOf("s", "t"), g.oneOf("t", `""`, "s")))
		case 4:
			g.hit("strconv:Itoa")
			parts = append(parts, fmt.Sprintf("strconv.Itoa(%s)", g.oneOf("n", "n + 1", "n - 1", "len(s)", "-9223372036854775808", "9223372036854775807")))
		case 5:
			g.hit("strconv:Atoi-both-results")
			fmt.Fprintf(&b, "\tn%d, e%d := strconv.Atoi(%s)\n", i, i, g.oneOf("s", "t", "s + t", `strconv.Itoa(n)`, `strconv.Itoa(n) + "0"`, `"-" + s`, `"+" + t`))
			parts = append(parts, fmt.Sprintf("fmt.Sprintf(\"%%d,%%v\", n%d, e%d)", i, i))
		case 6:
			g.hit("strconv:Atoi-nil-test")
			fmt.Fprintf(&b, "\tn%d, e%d := strconv.Atoi(%s)\n\tif e%d != nil {\n\t\tn%d = -1\n\t}\n", i, i, g.oneOf("s", "t"), i, i)
			parts = append(parts, fmt.Sprintf("strconv.Itoa(n%d)", i))
		case 7:
			g.hit("strings:slicing-a-result")
			parts = append(parts, fmt.Sprintf("strings.TrimPrefix(s, t)[%s:]", g.oneOf("0", "1", "len(t)")))
		default:
			g.hit("strings:len-of-result")
			parts = append(parts, fmt.Sprintf("strconv.Itoa(len(strings.Replace(s, t, s, %s)))", g.oneOf("n", "-1", "1")))
		}
	}
	fmt.Fprintf(&b, "\treturn %s\n}\n", strings.Join(parts, " + \"|\" + "))
	g.add(b.String())
}

// intCallAsLaterArgument: an int-returning user function without object parameters, whose body decides with || and &&
// (both operands, either deciding), is called while an earlier object argument of an enclosing call is already on the
// stack; the frame of the outer call must start where that argument lies.
func (g *fGen) intCallAsLaterArgument() {
	g.imports["strconv"] = true
	g.hit("call:int-function-with-short-circuit-body-as-a-later-argument")
	gr, j2, top := g.name("gr"), g.name("j"), g.name("t")
	a, b := 1+g.pick(90), 1+g.pick(9)
	g.add(fmt.Sprintf("func %s(n int) int {\n\tif n > %d || n < 0 {\n\t\treturn 1\n\t}\n\tif n > %d && n < %d {\n\t\treturn 2\n\t}\n\treturn 3\n}\n", gr, a, b, a))
	g.add(fmt.Sprintf("func %s(a string, b string) string {\n\treturn a + \"/\" + b\n}\n", j2))
	g.add(fmt.Sprintf("func %s(s string, n int) string {\n\treturn %s(s, strconv.Itoa(%s(n))) + %s(strconv.Itoa(%s(n+1)), s)\n}\n", top, j2, gr, j2, gr))
}

// genFocusProgram builds one program of the focus stream.
func genFocusProgram(r *rand.Rand, prefix string, feat map[string]int) qProgram {
	g := &fGen{r: r, prefix: prefix, feat: feat, imports: map[string]bool{}}
	fams := 2 + g.pick(2)
	for i := 0; i < fams; i++ {
		switch k := g.pick(10); {
		case k < 3:
			g.nilResultFamily()
		case k < 6:
			g.blankFamily()
		case k < 9:
			g.fmtFamily()
		default:
			g.stringsFamily()
		}
	}
	if g.chance(0.5) {
		g.intCallAsLaterArgument()
	}
	if g.chance(0.3) {
		g.rejectedBlank()
		g.funcs = append(g.funcs, g.last)
	}
	var p qProgram
	p.Src = strings.Join(g.funcs, "\n")
	// (the imports are the packages the text uses: no literal of the stream contains a package selector)
	for _, im := range []string{"fmt", "strconv", "strings"} {
		if strings.Contains(p.Src, im+".") {
			p.Imports = append(p.Imports, im)
		}
	}
	return p
}

// ---- arguments ----------------------------------------------------------------------------------------------------

var fArgInts = []int{0, 12, -1, 1, 7, 2, 42, 255, -7, 1000000, math.MinInt64, math.MaxInt64, 3, 65}

// numbers and non-numbers alternate, so that a handful of consecutive values contains both
var fArgStrs = []string{"12", "", "-7", "abc", "+3", "x1", "007", "%d", "0", "a", "99999999999999999999", "%%", "-9223372036854775808", "%v|%s",
	"9223372036854775807", "100%", "x12", "é", "1", "%[2]v%[1]v", "-0", "ab", " 1", "%5d|%-5s|", "+", "aXbXa", "1_000", "%!", "0x10", "X"}

// focusTuples: n argument tuples for sig; every parameter walks through its domain from a drawn start (a string
// parameter with its own stride, so that two string parameters are not always equal), and a few tuples are drawn.
func focusTuples(sig *types.Signature, r *rand.Rand, n int) ([]string, [][]interface{}) {
	np := sig.Params().Len()
	if np == 0 {
		return []string{"-"}, [][]interface{}{nil}
	}
	start := make([]int, np)
	for i := range start {
		start[i] = r.Intn(60)
	}
	var ts []string
	var as [][]interface{}
	for k := 0; k < n; k++ {
		var vals []interface{}
		var parts []string
		for i := 0; i < np; i++ {
			j := start[i] + k*(1+2*i)
			if k >= n-n/4 {
				j = r.Intn(1000)
			}
			switch qTyS(sig.Params().At(i).Type()) {
			case "int":
				v := fArgInts[j%len(fArgInts)]
				vals = append(vals, v)
				parts = append(parts, fmt.Sprintf("i:%d", v))
			case "str":
				v := fArgStrs[j%len(fArgStrs)]
				vals = append(vals, v)
				parts = append(parts, "s:"+hx.HexS(v))
			default:
				v := j%2 == 0
				vals = append(vals, v)
				parts = append(parts, "b:"+b01(v))
			}
		}
		ts = append(ts, strings.Join(parts, ","))
		as = append(as, vals)
	}
	return ts, as
}
