package main

// WriteSites.lean — tie (c) of C08, confinement half.
//
// Every instruction that writes memory (store through a pointer, map update, append/copy/delete/clear
// on an existing slice or map) inside a repository function reachable from (*Engine).Run over the
// repository-level call graph (extract_prog.go), with the *owner* of the written location:
//
//   field   T.f      a field of the named struct type T (type-based: any object of that type)
//   elem    T.f      an element of the slice / map / array stored in field T.f
//   global  pkg.v    a package-level variable (or an element of it)
//   captured fn.v    a variable captured by a closure; `fromRun` tells whether the function that
//                    created the closure is itself reachable from Run (per-run activation) or not
//                    (a load-time closure: its captured variables are shared between Run calls)
//   local            a local variable / an object allocated in the same function (not listed, counted)
//   param, unknown   a location reached through a parameter or a call result of non-struct type
//
// Writes made *for* the repository by library code are listed too (how = "call <method>"): a call of a
// non-repository method with a pointer receiver whose receiver is the address of an object stored by value
// in a captured variable, a package-level variable or a field of a repository struct (a sync.Map, a
// sync.Mutex, a sync.Once, an atomic.Value, a bytes.Buffer … kept in shared state is mutable shared state,
// whatever the library does to stay race-free).
//
// The classification policy (which types are per-run state, which fields are the guarded caches)
// is *not* here: it is in lean/Rg/Spec/C08.lean and is applied by a `decide` obligation.

import (
	"fmt"
	"go/types"
	"sort"
	"strings"

	"golang.org/x/tools/go/ssa"
)

func init() { registerGen("WriteSites.lean", cachedGen("WriteSites.lean", genWriteSites)) }

type wOwner struct {
	kind  string // field elem global captured local param unknown
	typ   string // "pkg.Type" / "pkg" for globals / creating function for captured
	field string
}

type wSite struct {
	owner wOwner
	how   string // store map-update append copy delete clear
	fn    string
	pos   string
	from  bool // captured: creating function reachable from Run
}

type writeExtract struct {
	p       *program
	reach   map[*ssa.Function]bool
	sites   []wSite
	nLocal  int
	nFuncs  int
	visited map[ssa.Value]bool
}

func (w *writeExtract) namedStruct(t types.Type) string {
	if structOf(t) == nil {
		return ""
	}
	return derefNamed(t)
}

// ownerOfAddr classifies the location an address value points to.
func (w *writeExtract) ownerOfAddr(v ssa.Value, depth int) wOwner {
	if depth > 12 {
		return wOwner{kind: "unknown", typ: "depth"}
	}
	switch v := v.(type) {
	case *ssa.FieldAddr:
		if rootIsAlloc(v.X) {
			return wOwner{kind: "local"}
		}
		if nm := w.namedStruct(v.X.Type()); nm != "" {
			st := structOf(v.X.Type())
			return wOwner{kind: "field", typ: nm, field: st.Field(v.Field).Name()}
		}
		return w.ownerOfAddr(v.X, depth+1)
	case *ssa.IndexAddr:
		// element of an array (through a pointer) or of a slice value
		if _, isPtr := types.Unalias(v.X.Type()).Underlying().(*types.Pointer); isPtr {
			o := w.ownerOfAddr(v.X, depth+1)
			if o.kind == "field" {
				o.kind = "elem"
			}
			return o
		}
		return w.ownerOfValue(v.X, depth+1)
	case *ssa.Global:
		return wOwner{kind: "global", typ: shortPkg(v.Pkg.Pkg), field: v.Name()}
	case *ssa.Alloc:
		return wOwner{kind: "local"}
	case *ssa.FreeVar:
		return wOwner{kind: "captured", typ: shortFn(v.Parent().Parent()), field: v.Name()}
	case *ssa.Parameter:
		if nm := w.namedStruct(v.Type()); nm != "" {
			return wOwner{kind: "field", typ: nm, field: "*"}
		}
		return wOwner{kind: "param", typ: shortFn(v.Parent()), field: v.Name()}
	case *ssa.UnOp: // a pointer loaded from somewhere
		if nm := w.namedStruct(v.Type()); nm != "" {
			return wOwner{kind: "field", typ: nm, field: "*"}
		}
		o := w.ownerOfAddr(v.X, depth+1)
		return o
	case *ssa.Phi:
		return w.merge(v.Edges, depth, true)
	case *ssa.Call, *ssa.Extract, *ssa.TypeAssert, *ssa.Lookup, *ssa.MakeInterface, *ssa.ChangeType, *ssa.Convert:
		if nm := w.namedStruct(v.Type()); nm != "" {
			return wOwner{kind: "field", typ: nm, field: "*"}
		}
		return wOwner{kind: "unknown", typ: fmt.Sprintf("%T", v)}
	}
	if nm := w.namedStruct(v.Type()); nm != "" {
		return wOwner{kind: "field", typ: nm, field: "*"}
	}
	return wOwner{kind: "unknown", typ: fmt.Sprintf("%T", v)}
}

func (w *writeExtract) merge(vs []ssa.Value, depth int, addr bool) wOwner {
	res := wOwner{kind: "local"}
	for _, e := range vs {
		if w.visited[e] {
			continue
		}
		w.visited[e] = true
		var o wOwner
		if addr {
			o = w.ownerOfAddr(e, depth+1)
		} else {
			o = w.ownerOfValue(e, depth+1)
		}
		delete(w.visited, e)
		if o.kind != "local" {
			if res.kind == "local" || o.kind == "unknown" {
				res = o
			}
		}
	}
	return res
}

// ownerOfValue classifies the backing store of a slice / map value.
func (w *writeExtract) ownerOfValue(v ssa.Value, depth int) wOwner {
	if depth > 12 {
		return wOwner{kind: "unknown", typ: "depth"}
	}
	switch v := v.(type) {
	case *ssa.UnOp: // loaded from a variable / field
		o := w.ownerOfAddr(v.X, depth+1)
		if o.kind == "field" {
			o.kind = "elem"
		}
		return o
	case *ssa.Slice:
		if _, isPtr := types.Unalias(v.X.Type()).Underlying().(*types.Pointer); isPtr {
			o := w.ownerOfAddr(v.X, depth+1)
			if o.kind == "field" {
				o.kind = "elem"
			}
			return o
		}
		return w.ownerOfValue(v.X, depth+1)
	case *ssa.MakeSlice, *ssa.MakeMap, *ssa.Const:
		return wOwner{kind: "local"}
	case *ssa.Alloc:
		return wOwner{kind: "local"}
	case *ssa.Phi:
		return w.merge(v.Edges, depth, false)
	case *ssa.Call:
		if b, ok := v.Call.Value.(*ssa.Builtin); ok && b.Name() == "append" && len(v.Call.Args) > 0 {
			return w.ownerOfValue(v.Call.Args[0], depth+1)
		}
		return wOwner{kind: "unknown", typ: "result of " + calleeName(&v.Call)}
	case *ssa.Parameter:
		return wOwner{kind: "param", typ: shortFn(v.Parent()), field: v.Name()}
	case *ssa.FreeVar:
		return wOwner{kind: "captured", typ: shortFn(v.Parent().Parent()), field: v.Name()}
	case *ssa.Field:
		if nm := w.namedStruct(v.X.Type()); nm != "" {
			st := structOf(v.X.Type())
			return wOwner{kind: "elem", typ: nm, field: st.Field(v.Field).Name()}
		}
	case *ssa.Lookup:
		return w.ownerOfValue(v.X, depth+1)
	case *ssa.Extract:
		return wOwner{kind: "unknown", typ: "multi-value result"}
	case *ssa.ChangeType:
		return w.ownerOfValue(v.X, depth+1)
	case *ssa.Convert:
		return wOwner{kind: "local"} // string <-> []byte conversions allocate
	}
	return wOwner{kind: "unknown", typ: fmt.Sprintf("%T", v)}
}

// rootIsAlloc: the address is inside an object allocated by this very function (a local variable or a
// composite literal under construction).
func rootIsAlloc(v ssa.Value) bool {
	for {
		switch x := v.(type) {
		case *ssa.Alloc:
			return true
		case *ssa.FieldAddr:
			v = x.X
		case *ssa.IndexAddr:
			if _, isPtr := types.Unalias(x.X.Type()).Underlying().(*types.Pointer); !isPtr {
				return false
			}
			v = x.X
		default:
			return false
		}
	}
}

func calleeName(c *ssa.CallCommon) string {
	if sc := c.StaticCallee(); sc != nil {
		return shortFn(sc)
	}
	if c.IsInvoke() {
		return "(" + c.Value.Type().String() + ")." + c.Method.Name()
	}
	return "dynamic call"
}

func (w *writeExtract) add(f *ssa.Function, in ssa.Instruction, how string, o wOwner) {
	if o.kind == "local" {
		w.nLocal++
		return
	}
	s := wSite{owner: o, how: how, fn: shortFn(f), pos: w.p.pos(in.Pos())}
	if o.kind == "captured" {
		// the closure's creating function
		if par := f.Parent(); par != nil {
			s.from = w.reach[par]
		}
	}
	w.sites = append(w.sites, s)
}

// sharedObject: v is the address of an object that lives by value in a captured variable, a package-level
// variable or a field of a repository struct (not in an object allocated by this function).
func (w *writeExtract) sharedObject(v ssa.Value) (wOwner, bool) {
	switch v := v.(type) {
	case *ssa.FreeVar:
		return wOwner{kind: "captured", typ: shortFn(v.Parent().Parent()), field: v.Name()}, true
	case *ssa.Global:
		if v.Pkg != nil && inRepo(v.Pkg.Pkg.Path()) {
			return wOwner{kind: "global", typ: shortPkg(v.Pkg.Pkg), field: v.Name()}, true
		}
	case *ssa.FieldAddr:
		if rootIsAlloc(v.X) {
			return wOwner{}, false
		}
		if nm := w.namedStruct(v.X.Type()); nm != "" {
			if n, ok := types.Unalias(derefType(v.X.Type())).(*types.Named); ok && n.Obj().Pkg() != nil && inRepo(n.Obj().Pkg().Path()) {
				return wOwner{kind: "field", typ: nm, field: structOf(v.X.Type()).Field(v.Field).Name()}, true
			}
		}
	}
	return wOwner{}, false
}

func derefType(t types.Type) types.Type {
	for {
		pt, ok := types.Unalias(t).(*types.Pointer)
		if !ok {
			return t
		}
		t = pt.Elem()
	}
}

func (w *writeExtract) scan(f *ssa.Function) {
	w.nFuncs++
	for _, b := range f.Blocks {
		for _, in := range b.Instrs {
			w.visited = map[ssa.Value]bool{}
			switch in := in.(type) {
			case *ssa.Store:
				w.add(f, in, "store", w.ownerOfAddr(in.Addr, 0))
			case *ssa.MapUpdate:
				w.add(f, in, "map-update", w.ownerOfValue(in.Map, 0))
			case ssa.CallInstruction:
				c := in.Common()
				if bi, ok := c.Value.(*ssa.Builtin); ok && len(c.Args) > 0 {
					switch bi.Name() {
					case "append":
						// writes the backing array of its first argument when capacity allows
						if cst, isConst := c.Args[0].(*ssa.Const); isConst && cst.IsNil() {
							continue
						}
						w.add(f, in, "append", w.ownerOfValue(c.Args[0], 0))
					case "copy", "delete", "clear":
						w.add(f, in, bi.Name(), w.ownerOfValue(c.Args[0], 0))
					}
				} else if callee := c.StaticCallee(); callee != nil && !w.p.isRepoFn(callee) && callee.Signature.Recv() != nil && len(c.Args) > 0 {
					// a library method with a pointer receiver, called on an object kept by value in shared state
					if _, ptr := types.Unalias(callee.Signature.Recv().Type()).(*types.Pointer); ptr {
						if o, ok := w.sharedObject(c.Args[0]); ok {
							w.add(f, in, "call "+shortFn(callee), o)
						}
					}
				}
			}
		}
	}
}

func genWriteSites() (string, error) {
	p, err := loadProgram()
	if err != nil {
		return "", err
	}
	var roots []*ssa.Function
	for _, f := range p.repoFuncs {
		if f.String() == "(*"+repoModule+"/ruleguard.Engine).Run" {
			roots = append(roots, f)
		}
	}
	if len(roots) != 1 {
		return "", fmt.Errorf("write sites: (*Engine).Run not found")
	}
	w := &writeExtract{p: p}
	w.reach = p.repoGraph().reachableFrom(roots...)
	var fns []*ssa.Function
	for f := range w.reach {
		fns = append(fns, f)
	}
	sort.Slice(fns, func(i, j int) bool { return fnKey(fns[i]) < fnKey(fns[j]) })
	for _, f := range fns {
		w.scan(f)
	}
	// one row per (owner, how); count and first position
	type row struct {
		s     wSite
		count int
	}
	rows := map[string]*row{}
	var keys []string
	for _, s := range w.sites {
		k := fmt.Sprintf("%s|%s|%s|%s|%v", s.owner.kind, s.owner.typ, s.owner.field, s.how, s.from)
		if r, ok := rows[k]; ok {
			r.count++
			continue
		}
		rows[k] = &row{s, 1}
		keys = append(keys, k)
	}
	sort.Strings(keys)
	var b strings.Builder
	b.WriteString("import Rg.Model.Locks\n")
	b.WriteString("/-! GENERATED by `rgh extract` (harness/cmd/rgh/extract_writes.go) — do not edit.\n")
	b.WriteString("Memory-writing instructions of the repository functions reachable from `(*Engine).Run`, grouped by the\n")
	b.WriteString("owner of the written location (one row per owner and kind of write, with the first position). -/\n")
	b.WriteString("namespace Gen.WriteSites\nopen Locks\n\n")
	fmt.Fprintf(&b, "def sourceHash : String := %s\n", leanStr(p.sourceHash()))
	fmt.Fprintf(&b, "def reachableFunctions : Nat := %d\n", w.nFuncs)
	fmt.Fprintf(&b, "def localWrites : Nat := %d\n\n", w.nLocal)
	b.WriteString("def sites : List WriteSite := [\n")
	for i, k := range keys {
		r := rows[k]
		sep := ","
		if i == len(keys)-1 {
			sep = ""
		}
		fmt.Fprintf(&b, "  { kind := .%s, typ := %s, field := %s, how := %s, fromRun := %v, count := %d, fn := %s, pos := %s }%s\n",
			r.s.owner.kind, leanStr(r.s.owner.typ), leanStr(r.s.owner.field), leanStr(r.s.how), r.s.from, r.count,
			leanStr(r.s.fn), leanStr(r.s.pos), sep)
	}
	b.WriteString("]\n\nend Gen.WriteSites\n")
	return b.String(), nil
}
