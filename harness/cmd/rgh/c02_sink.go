package main

// C02, SinkType.Is — the tie of the Lean sink model (Rg/Model/Sink.lean: findSinkRoot / findContainingFunc /
// findSinkType transcribed over an abstract ancestor chain) and of the Lean definition of a sink type
// (Rg/Spec/Sink.lean) to the real filter.
//
// The sink world of c02.go (every child slot of the usual expressions and statements, plain and parenthesised)
// plus contexts the first oracle (sinkOf) leaves unjudged and matches that are not `pv.(T)`: a parenthesised
// expression, a constant, a variable, a type name, a field name, a multi-valued call.  For every site the
// harness serialises the real ancestor chain and the go/types facts the code reads there (computed on its own
// from go/ast + go/types), then
//   * `c02sink`       : the model's sink, the prescribed sink, the facts contract (`wf`, asserted) and the known gap;
//   * `c02sinkis`     : the model's verdict for every probed type T  ==  the verdict of the real engine running
//                       `Match(<pattern>).Where(m["$$"].SinkType.Is(T))` (correspondence);
//   * `c02sinkspecis` : the prescribed verdict vs the engine's (violations, one signature per position class);
//   * sinkOf (c02.go) : where the first oracle judges a site, the Lean definition must say the same.

import (
	"fmt"
	"go/ast"
	"go/token"
	"go/types"
	"os"
	"strings"

	"github.com/quasilyte/go-ruleguard/ruleguard"
	"github.com/quasilyte/go-ruleguard/ruleguard/ir"
	"verifharness/hx"
)

// c02SinkVariant: "asis" = findSinkType as it stands in the tree (Sink.findSink); "repaired" = after
// fixes/c02-sink-contexts.diff (Sink.findSinkR; C02.sink_eq_spec holds for it without the gap hypothesis)
const c02SinkVariant = "repaired"

const c02SinkMarkers = `
const pk = 2

var pw int

type PA = int16
type PSl []int16
type PT struct {
	pf int8
	pg string
}
type GS[T any] struct{ v T }

var (
	gpt  PT
	gch8 chan int8
	gnch NCh
)

type NCh chan string

func ptup() (int, string)            { return 0, "" }
func sinkT(a int, b string) int      { return 0 }
func sinkTV(a int, bs ...string) int { return 0 }

`

// further sink sites: class, asserted type (for @ = `pv.(T)`), declaration
var c02SinkMoreTemplates = []struct{ class, typ, decl string }{
	// contexts sinkOf leaves unjudged or does not know
	{"composite:nested:elided-pointer:positional", "int64", "func #() {\n\t_ = []*S1{{1, @}}\n}"},
	{"composite:nested:elided-pointer:map-value", "int8", "func #() {\n\t_ = map[string]*S1{\"k\": {a: @}}\n}"},
	{"composite:nested:elided-pointer:slice-elements", "int", "func #() {\n\t_ = []*[]int{{@}}\n}"},
	{"composite:nested:elided-array", "int", "func #() {\n\t_ = [2][2]int{{@, 1}}\n}"},
	{"composite:struct:embedded-field", "W", "func #() {\n\t_ = WE{W: @}\n}"},
	{"composite:struct:generic", "int8", "func #() {\n\t_ = GS[int8]{v: @}\n}"},
	{"composite:struct:generic-positional", "string", "func #() {\n\t_ = GS[string]{@}\n}"},
	{"composite:map:ident-key:value", "int", "func #() {\n\t_ = map[string]int{gs: @}\n}"},
	{"send:value:element-type-differs", "int8", "func #() {\n\tgch8 <- @\n}"},
	{"send:value:named-channel", "string", "func #() {\n\tgnch <- @\n}"},
	{"send:value:in-select", "int", "func #() {\n\tselect {\n\tcase gch <- @:\n\t}\n}"},
	{"call:argument:spread-only", "[]int", "func #() {\n\tfv(@...)\n}"},
	{"call:argument:callee-of-type-parameter-type", "int", "func #[F func(int) int](f F) {\n\tf(@)\n}"},
	{"call:argument:interface-method", "[]byte", "func #() {\n\tgwr2.Write(@)\n}"},
	{"call:argument:method-expression", "W", "func #() {\n\tW.Write(@, nil)\n}"},
	{"call:argument:called-func-literal", "int8", "func #() {\n\tfunc(a int8) {}(@)\n}"},
	{"call:builtin:constant-sizeof", "int", "func #() {\n\t_ = unsafe.Sizeof(@)\n}"},
	{"call:builtin:min", "int", "func #() {\n\t_ = min(@, 3)\n}"},
	{"call:builtin:complex", "float64", "func #() {\n\t_ = complex(@, 1.5)\n}"},
	{"call:builtin:print", "int", "func #() {\n\tprint(@)\n}"},
	{"call:builtin:cap", "[]int", "func #() {\n\t_ = cap(@)\n}"},
	{"call:builtin:close", "chan int", "func #() {\n\tclose(@)\n}"},
	{"call:builtin:copy-to", "[]byte", "func #() {\n\tcopy(@, gs)\n}"},
	{"call:builtin:append-string-spread:first", "[]byte", "func #() {\n\tgbs = append(@, gs...)\n}"},
	{"call:function:tuple-argument", "func() (int, string)", "func #() {\n\tsinkT(@())\n}"},
	{"return:function:tuple-operand", "func() (int, error)", "func #() (int, error) {\n\treturn @()\n}"},
	{"return:in-if-in-for", "int8", "func #() int8 {\n\tfor {\n\t\tif mark {\n\t\t\treturn @\n\t\t}\n\t}\n}"},
	{"return:method-value-receiver", "string", "func (recv W) #() (int, string) {\n\treturn 0, @\n}"},
	{"return:func-literal-as-argument", "int8", "func #() string {\n\tsinkF(func(int) int { return 0 }, nil)\n\tsinkI(func() int8 { return @ })\n\treturn \"\"\n}"},
	{"return:func-literal-in-composite-in-return", "bool", "func #() []func() bool {\n\treturn []func() bool{func() bool { return @ }}\n}"},
	{"var:package-level-in-func-literal", "int", "var # = func() interface{} {\n\tvar x interface{} = @\n\treturn x\n}"},
	{"var:const-like-typed", "string", "func #() {\n\tvar a, b string = \"x\", @\n\t_, _ = a, b\n}"},
	{"var:tuple-call-initialiser", "func() (int, string)", "func #() {\n\tvar a, b = @()\n\t_, _ = a, b\n}"},
	{"range:assign-key", "[]int", "func #() {\n\tfor gi = range @ {\n\t}\n}"},
	{"labeled:assign", "int", "func #() {\nL:\n\tgif = @\n\tgoto L\n}"},
	{"index:key:generic-map", "string", "func #[M ~map[string]int](m M) {\n\t_ = m[@]\n}"},
	{"index:key:pointer-to-array", "int", "func #() {\n\tp := &garr\n\t_ = p[@]\n}"},
	// matches that are not `pv.(T)`
	{"marker:const:array-literal-index-key", "", "func #() {\n\t_ = [4]string{pk: \"a\"}\n}"},
	{"marker:const:slice-literal-index-key", "", "func #() {\n\t_ = []int64{pk: 1}\n}"},
	{"marker:const:slice-literal-index-key:parenthesised", "", "func #() {\n\t_ = []int64{(pk): 1}\n}"},
	{"marker:const:nested-slice-literal-index-key", "", "func #() {\n\t_ = [][]string{{pk: \"a\"}}\n}"},
	{"marker:const:map-literal-key", "", "func #() {\n\t_ = map[int8]string{pk: \"a\"}\n}"},
	{"marker:const:typed-const-initialiser", "", "func #() {\n\tconst c int64 = pk\n\t_ = c\n}"},
	{"marker:const:untyped-const-initialiser", "", "func #() {\n\tconst c = pk\n\t_ = c\n}"},
	{"marker:const:array-length", "", "func #() {\n\tvar a [pk]int8\n\t_ = a\n}"},
	{"marker:const:argument", "", "func #() {\n\tsinkW(nil, pk)\n}"},
	{"marker:const:slice-index", "", "func #() {\n\t_ = gsl[pk]\n}"},
	{"marker:const:shift-count", "", "func #() {\n\t_ = g64 << pk\n}"},
	{"marker:var:declared-name", "", "func #() {\n\tvar pw int64 = 1\n\t_ = pw\n}"},
	{"marker:var:declared-name:no-type", "", "func #() {\n\tvar pw = \"s\"\n\t_ = pw\n}"},
	{"marker:var:left-hand-side", "", "func #() {\n\tpw = 1\n}"},
	{"marker:var:left-hand-side-of-two", "", "func #() {\n\tgs, pw = \"\", 1\n}"},
	{"marker:var:right-hand-side", "", "func #() {\n\tg64, gif = 1, pw\n}"},
	{"marker:var:define", "", "func #() {\n\tpw := 1.5\n\t_ = pw\n}"},
	{"marker:var:address-argument", "", "func #() {\n\tsinkI(&pw)\n}"},
	{"marker:var:parameter-name", "", "func #(pw string) {\n\tgs = pw\n}"},
	{"marker:var:return-operand", "", "func #() (int8, interface{}) {\n\treturn 1, pw\n}"},
	{"marker:var:range-key", "", "func #() {\n\tfor pw = range gsl {\n\t}\n}"},
	{"marker:var:inc", "", "func #() {\n\tpw++\n}"},
	{"marker:type:var-declared-type", "", "func #() {\n\tvar x PA = 1\n\t_ = x\n}"},
	{"marker:type:var-declared-type:no-value", "", "func #() {\n\tvar x PA\n\t_ = x\n}"},
	{"marker:type:conversion-type", "", "func #() {\n\t_ = PA(gi)\n}"},
	{"marker:type:conversion-type:parenthesised", "", "func #() {\n\t_ = (PA)(gi)\n}"},
	{"marker:type:composite-literal-type:slice", "", "func #() {\n\t_ = PSl{1, 2}\n}"},
	{"marker:type:composite-literal-type:empty", "", "func #() {\n\t_ = PSl{}\n}"},
	{"marker:type:composite-literal-type:map-value-type", "", "func #() {\n\t_ = map[string]PA{}\n}"},
	{"marker:type:conversion-type:slice", "", "func #() {\n\t_ = PSl(nil)\n}"},
	{"marker:type:parameter-type", "", "func #(x PA) {\n}"},
	{"marker:type:type-assertion-type", "", "func #() {\n\t_ = gif.(PA)\n}"},
	{"marker:type:new-argument", "", "func #() {\n\t_ = new(PA)\n}"},
	{"marker:type:make-argument", "", "func #() {\n\t_ = make(PSl, 1)\n}"},
	{"marker:type:generic-instance-argument", "", "func #() {\n\t_ = gen[PA]\n}"},
	{"marker:field:struct-literal-field-name", "", "func #() {\n\t_ = PT{pf: 1}\n}"},
	{"marker:field:struct-literal-field-name:elided", "", "func #() {\n\t_ = []PT{{pf: 1}}\n}"},
	{"marker:field:selector", "", "func #() {\n\tgpt.pf = 1\n}"},
	{"marker:field:map-literal-key-named-like-field", "", "func #() {\n\tpf := \"k\"\n\t_ = map[string]int{pf: 1}\n}"},
	{"marker:tuple:argument", "", "func #() {\n\tsinkT(ptup())\n}"},
	{"marker:tuple:argument-of-variadic", "", "func #() {\n\tsinkTV(ptup())\n}"},
	{"marker:tuple:return", "", "func #() (int, string) {\n\treturn ptup()\n}"},
	{"marker:tuple:assignment", "", "func #() {\n\tgi, gs = ptup()\n}"},
	{"marker:tuple:var-initialiser", "", "func #() {\n\tvar a, b interface{} = ptup()\n\t_, _ = a, b\n}"},
}

// the match patterns of the suite and what they match in the target
type c02SinkPattern struct {
	name, pattern string
	is            func(n ast.Node) bool
}

func c02SinkIsProbe(n ast.Node) bool {
	ta, ok := n.(*ast.TypeAssertExpr)
	if !ok || ta.Type == nil {
		return false
	}
	id, ok := ta.X.(*ast.Ident)
	return ok && id.Name == "pv"
}

func c02SinkIdent(name string) func(ast.Node) bool {
	return func(n ast.Node) bool {
		id, ok := n.(*ast.Ident)
		return ok && id.Name == name
	}
}

var c02SinkPatterns = []c02SinkPattern{
	{"probe", "pv.($_)", c02SinkIsProbe},
	{"paren", "(pv.($_))", func(n ast.Node) bool {
		p, ok := n.(*ast.ParenExpr)
		return ok && c02SinkIsProbe(p.X)
	}},
	{"const", "pk", c02SinkIdent("pk")},
	{"var", "pw", c02SinkIdent("pw")},
	{"alias", "PA", c02SinkIdent("PA")},
	{"slicetype", "PSl", c02SinkIdent("PSl")},
	{"field", "pf", c02SinkIdent("pf")},
	{"tuple", "ptup()", func(n ast.Node) bool {
		c, ok := n.(*ast.CallExpr)
		if !ok || len(c.Args) != 0 {
			return false
		}
		id, ok := c.Fun.(*ast.Ident)
		return ok && id.Name == "ptup"
	}},
}

// the types T of `SinkType.Is(T)`
var c02SinkProbeTypes = []string{"int", "int8", "int16", "int64", "string", "float64", "interface{}", "io.Writer", "[]int", "[]byte", "[]string", "map[string]int",
	"error", "bool", "func(int) int", "*int", "chan int", "uint8", "[]interface{}", "[]int16", "func() (int, string)"}

type c02SinkSite struct {
	pat    int
	name   string // s<k>@<offset>
	class  string
	decl   ast.Decl
	tgt    *hx.Target // the declaration alone
	match  ast.Node
	path   []ast.Node // ancestors, outermost first
	offset int
	ctx    string // the serialised chain
	// answers of `c02sink`
	model, spec, gap string
}

type c02SinkWorld struct {
	t     *hx.Target
	types []types.Type // classes of types.Identical
	names map[string]int
	sites [][]*c02SinkSite // per pattern, in source order
	alias bool
}

func c02BuildSinkModel(seed int64, thorough bool) (string, map[string]string) {
	rng := hx.Rng(seed, "c02-sinkmodel")
	var sb strings.Builder
	sb.WriteString(c02Prelude)
	sb.WriteString(c02SinkDecls)
	sb.WriteString(c02SinkMarkers)
	sb.WriteString(c02SinkRandomDecls)
	classes := map[string]string{}
	k := 0
	emit := func(class, typ, decl string) {
		probe := "pv.(" + typ + ")"
		variants := []string{probe}
		if typ == "" {
			variants = []string{""}
		} else {
			variants = append(variants, "("+probe+")")
			if thorough || rng.Intn(3) == 0 {
				variants = append(variants, "(("+probe+"))")
			}
		}
		for vi, v := range variants {
			name := fmt.Sprintf("s%d", k)
			k++
			sb.WriteString(strings.Replace(strings.Replace(decl, "#", name, 1), "@", v, 1))
			sb.WriteString("\n\n")
			classes[name] = class
			if vi > 0 {
				classes[name] += ":parenthesised"
			}
		}
	}
	for _, tp := range c02SinkTemplates {
		emit(tp.class, tp.typ, tp.decl)
	}
	for _, tp := range c02SinkMoreTemplates {
		emit(tp.class, tp.typ, tp.decl)
	}
	nrand := 60
	if thorough {
		nrand = 600
	}
	for _, tp := range c02SinkRandom(seed, nrand) {
		emit(tp.class, tp.typ, tp.decl)
	}
	sb.WriteString("\n// end\n")
	return sb.String(), classes
}

// ---------------------------------------------------------------------------------------------
// random sites: the same contexts with random shapes around and above them (deterministic from the seed)

type c02SinkTy struct{ typ, zero, gvar string }

// types with a value of each and a package-level variable of that type
var c02SinkPool = []c02SinkTy{{"int", "0", "gi"}, {"string", "\"\"", "gs"}, {"int8", "1", "g8"}, {"int64", "2", "g64"}, {"float64", "0.5", "gf"}, {"bool", "false", "gb"},
	{"error", "nil", "gerr"}, {"[]int", "nil", "gsl"}, {"interface{}", "nil", "gif"}, {"*int", "nil", "gp"}, {"map[string]int", "nil", "gm"}, {"func(int) int", "nil", "gfn"},
	{"chan int", "nil", "gch"}, {"io.Writer", "nil", "gwr2"}, {"[]byte", "nil", "gbs"}, {"uint8", "3", "gu8"}}

const c02SinkRandomDecls = `
func rsinkA(a string, b int8, cs ...float64) int { return 0 }
func rsinkB(xs ...interface{}) int               { return 0 }
func rsinkC(a int, b string, c bool, d error) int { return 0 }
func rsinkD(w io.Writer, f func(int) int, ms ...map[string]int) {}

type RS struct {
	ra int
	rb string
	rc []int
	rd io.Writer
	re *int
}
`

var c02SinkRandomFuncs = []struct {
	name     string
	params   []string
	variadic bool
}{
	{"rsinkA", []string{"string", "int8", "float64"}, true},
	{"rsinkB", []string{"interface{}"}, true},
	{"rsinkC", []string{"int", "string", "bool", "error"}, false},
	{"rsinkD", []string{"io.Writer", "func(int) int", "map[string]int"}, true},
	{"sinkV", []string{"int", "string"}, true},
	{"sinkW", []string{"io.Writer", "int8"}, false},
}

func c02SinkZero(typ string) string {
	for _, t := range c02SinkPool {
		if t.typ == typ {
			return t.zero
		}
	}
	return "nil"
}

// the statements and expressions that may stand between a statement and the function it belongs to
func c02SinkWrapStmt(rng interface{ Intn(int) int }, stmt string) string {
	switch rng.Intn(6) {
	case 0:
		return "if mark {\n" + stmt + "\n}"
	case 1:
		return "for mark {\n" + stmt + "\n}"
	case 2:
		return "switch {\ncase mark:\n" + stmt + "\n}"
	case 3:
		return "{\n" + stmt + "\n}"
	case 4:
		return "select {\ndefault:\n" + stmt + "\n}"
	}
	return stmt
}

// c02SinkRandom: n declarations (class, asserted type, text with # and @)
func c02SinkRandom(seed int64, n int) []struct{ class, typ, decl string } {
	rng := hx.Rng(seed, "c02-sinkmodel-random")
	pick := func() c02SinkTy { return c02SinkPool[rng.Intn(len(c02SinkPool))] }
	var out []struct{ class, typ, decl string }
	for i := 0; i < n; i++ {
		switch i % 5 {
		case 0: // a return statement under 1..3 nested function literals with random result lists
			depth := 1 + rng.Intn(3)
			var results [][]c02SinkTy
			for d := 0; d <= depth; d++ {
				k := 1 + rng.Intn(3)
				var rs []c02SinkTy
				for j := 0; j < k; j++ {
					rs = append(rs, pick())
				}
				results = append(results, rs)
			}
			render := func(rs []c02SinkTy) (string, string) {
				var ts, zs []string
				for _, r := range rs {
					ts = append(ts, r.typ)
					zs = append(zs, r.zero)
				}
				return "(" + strings.Join(ts, ", ") + ")", strings.Join(zs, ", ")
			}
			inner := results[depth]
			pos := rng.Intn(len(inner))
			var ops []string
			for j, r := range inner {
				if j == pos {
					ops = append(ops, "@")
				} else {
					ops = append(ops, r.zero)
				}
			}
			body := c02SinkWrapStmt(rng, "return "+strings.Join(ops, ", "))
			for d := depth; d >= 1; d-- {
				sigd, _ := render(results[d])
				_, zouter := render(results[d-1])
				needRet := "\npanic(0)"
				_ = zouter
				lit := "func() " + sigd + " {\n" + body + needRet + "\n}"
				switch rng.Intn(3) {
				case 0:
					body = "_ = " + lit
				case 1:
					body = "sinkI(" + lit + ")"
				default:
					body = "defer " + lit + "()"
				}
				body = c02SinkWrapStmt(rng, body)
			}
			sig0, _ := render(results[0])
			out = append(out, struct{ class, typ, decl string }{fmt.Sprintf("random:return:depth-%d", depth), inner[pos].typ,
				"func #() " + sig0 + " {\n" + body + "\npanic(0)\n}"})
		case 1: // a call argument: random function, position, number of variadic arguments, spread or not
			f := c02SinkRandomFuncs[rng.Intn(len(c02SinkRandomFuncs))]
			nfix := len(f.params)
			if f.variadic {
				nfix--
			}
			var args []string
			typ := ""
			spread := f.variadic && rng.Intn(4) == 0
			extra := 0
			if f.variadic && !spread {
				extra = rng.Intn(4)
			}
			total := nfix + extra
			if spread {
				total = nfix + 1
			}
			if total == 0 {
				total, extra = 1, 1
			}
			pos := rng.Intn(total)
			for j := 0; j < total; j++ {
				pt := f.params[len(f.params)-1]
				if j < nfix {
					pt = f.params[j]
				}
				isSpread := spread && j == total-1
				if isSpread {
					pt = "[]" + pt
				}
				a := c02SinkZero(pt)
				if j == pos {
					a, typ = "@", pt
				}
				if isSpread {
					a += "..."
				}
				args = append(args, a)
			}
			class := "random:call:fixed-part"
			if pos >= nfix {
				class = "random:call:variadic-part"
			}
			if spread && pos == total-1 {
				class = "random:call:spread"
			}
			call := f.name + "(" + strings.Join(args, ", ") + ")"
			stmt := []string{call, "go " + call, "defer " + call, "_ = []interface{}{" + call + "}"}[rng.Intn(4)]
			if f.name == "rsinkD" && strings.HasPrefix(stmt, "_ =") {
				stmt = call
			}
			out = append(out, struct{ class, typ, decl string }{class, typ, "func #() {\n" + c02SinkWrapStmt(rng, stmt) + "\n}"})
		case 2: // an element of a (nested) composite literal
			el := pick()
			elems := func(k, pos int, hole, other string) string {
				var xs []string
				for j := 0; j < k; j++ {
					if j == pos {
						xs = append(xs, hole)
					} else {
						xs = append(xs, other)
					}
				}
				return strings.Join(xs, ", ")
			}
			k := 1 + rng.Intn(3)
			pos := rng.Intn(k)
			var lit, class, typ string
			typ = el.typ
			switch rng.Intn(8) {
			case 0:
				lit, class = "[]"+el.typ+"{"+elems(k, pos, "@", el.zero)+"}", "slice:element"
			case 1:
				lit, class = "[...]"+el.typ+"{"+elems(k, pos, fmt.Sprintf("%d: @", pos+3), el.zero)+"}", "array:keyed-element"
			case 2:
				var xs []string
				for j := 0; j < k; j++ {
					if j == pos {
						xs = append(xs, "\"k\": @")
					} else {
						xs = append(xs, fmt.Sprintf("\"o%d\": %s", j, el.zero))
					}
				}
				lit, class = "map[string]"+el.typ+"{"+strings.Join(xs, ", ")+"}", "map:value"
			case 3:
				lit, class, typ = "map[interface{}]"+el.typ+"{@: "+el.zero+"}", "map:key", "string"
			case 4:
				lit, class = "[][]"+el.typ+"{{"+el.zero+"}, {"+elems(k, pos, "@", el.zero)+"}}", "nested:elided-slice"
			case 5:
				lit, class = "map[string][]"+el.typ+"{\"k\": {"+elems(k, pos, "@", el.zero)+"}}", "nested:elided-slice-in-map"
			case 6:
				fields := []struct{ n, t string }{{"ra", "int"}, {"rb", "string"}, {"rc", "[]int"}, {"rd", "io.Writer"}, {"re", "*int"}}
				fi := rng.Intn(len(fields))
				typ = fields[fi].t
				if rng.Intn(2) == 0 {
					var xs []string
					for j, f := range fields {
						if j == fi {
							xs = append(xs, "@")
						} else {
							xs = append(xs, c02SinkZero(f.t))
						}
					}
					lit, class = "RS{"+strings.Join(xs, ", ")+"}", "struct:positional"
				} else {
					lit, class = "RS{"+fields[fi].n+": @}", "struct:keyed"
				}
			default:
				fields := []struct{ n, t string }{{"ra", "int"}, {"rb", "string"}, {"rc", "[]int"}, {"rd", "io.Writer"}, {"re", "*int"}}
				fi := rng.Intn(len(fields))
				typ = fields[fi].t
				outer := []string{"[]RS{{%s}}", "[]*RS{{%s}}", "map[string]RS{\"k\": {%s}}", "map[string]*RS{\"k\": {%s}}", "[2]*RS{1: {%s}}"}[rng.Intn(5)]
				lit, class = fmt.Sprintf(outer, fields[fi].n+": @"), "nested:elided-struct"
				if strings.Contains(outer, "*RS") {
					class = "nested:elided-pointer"
				}
			}
			out = append(out, struct{ class, typ, decl string }{"random:composite:" + class, typ, "func #() {\n" + c02SinkWrapStmt(rng, "_ = "+lit) + "\n}"})
		case 3: // a tuple assignment
			k := 1 + rng.Intn(4)
			pos := rng.Intn(k)
			var lhs, rhs []string
			typ := ""
			used := map[string]bool{}
			for j := 0; j < k; j++ {
				t := pick()
				for used[t.gvar] {
					t = pick()
				}
				used[t.gvar] = true
				lhs = append(lhs, t.gvar)
				if j == pos {
					rhs, typ = append(rhs, "@"), t.typ
				} else {
					rhs = append(rhs, t.zero)
				}
			}
			out = append(out, struct{ class, typ, decl string }{fmt.Sprintf("random:assign:%d-of-%d", pos+1, k), typ,
				"func #() {\n" + c02SinkWrapStmt(rng, strings.Join(lhs, ", ")+" = "+strings.Join(rhs, ", ")) + "\n}"})
		default: // var declarations, sends, map indices
			t := pick()
			switch rng.Intn(4) {
			case 0:
				k := 1 + rng.Intn(3)
				pos := rng.Intn(k)
				var names, vals []string
				for j := 0; j < k; j++ {
					names = append(names, fmt.Sprintf("v%d", j))
					if j == pos {
						vals = append(vals, "@")
					} else {
						vals = append(vals, t.zero)
					}
				}
				out = append(out, struct{ class, typ, decl string }{"random:var:declared-type", t.typ,
					"func #() {\n" + c02SinkWrapStmt(rng, "var "+strings.Join(names, ", ")+" "+t.typ+" = "+strings.Join(vals, ", ")+"\n_ = []interface{}{"+strings.Join(names, ", ")+"}") + "\n}"})
			case 1:
				out = append(out, struct{ class, typ, decl string }{"random:send:value", t.typ,
					"func #(ch chan " + t.typ + ") {\n" + c02SinkWrapStmt(rng, "ch <- @") + "\n}"})
			case 2:
				out = append(out, struct{ class, typ, decl string }{"random:index:map-key", "string",
					"func #(m map[string]" + t.typ + ") {\n" + c02SinkWrapStmt(rng, "_ = m[@]") + "\n}"})
			default:
				out = append(out, struct{ class, typ, decl string }{"random:index:map-key:interface", t.typ,
					"func #(m map[interface{}]" + t.typ + ") {\n" + c02SinkWrapStmt(rng, "m[@] = "+t.zero) + "\n}"})
			}
		}
	}
	return out
}

func c02SinkParse(path, src string, alias bool, classes map[string]string) (*c02SinkWorld, error) {
	t, err := c02ParseTarget(path, src, alias)
	if err != nil {
		return nil, err
	}
	w := &c02SinkWorld{t: t, alias: alias, names: map[string]int{}, sites: make([][]*c02SinkSite, len(c02SinkPatterns))}
	for _, d := range t.File.Decls {
		f2 := *t.File
		f2.Decls = []ast.Decl{d}
		t2 := *t
		t2.File = &f2
		declName := "decl"
		switch d := d.(type) {
		case *ast.FuncDecl:
			declName = d.Name.Name
		case *ast.GenDecl:
			if len(d.Specs) > 0 {
				switch s := d.Specs[0].(type) {
				case *ast.ValueSpec:
					declName = s.Names[0].Name
				case *ast.TypeSpec:
					declName = s.Name.Name
				}
			}
		}
		var stack []ast.Node
		stack = append(stack, t.File)
		ast.Inspect(d, func(n ast.Node) bool {
			if n == nil {
				stack = stack[:len(stack)-1]
				return true
			}
			for pi, p := range c02SinkPatterns {
				if p.is(n) {
					off := t.Fset.Position(n.Pos()).Offset
					class := classes[declName]
					if class == "" {
						class = "declaration"
					}
					s := &c02SinkSite{pat: pi, name: fmt.Sprintf("%s@%d", declName, off), class: class, decl: d, tgt: &t2, match: n,
						path: append([]ast.Node(nil), stack...), offset: off}
					w.sites[pi] = append(w.sites[pi], s)
				}
			}
			stack = append(stack, n)
			return true
		})
	}
	return w, nil
}

// the target, type-checked under the given alias mode
func c02ParseTarget(path, src string, alias bool) (*hx.Target, error) {
	if alias {
		os.Setenv("GODEBUG", "gotypesalias=1")
	} else {
		os.Setenv("GODEBUG", "gotypesalias=0")
	}
	return hx.ParseTarget(path, src)
}

// ---------------------------------------------------------------------------------------------
// facts: the ancestor chain of a match with what go/types knows at every ancestor

func (w *c02SinkWorld) ty(t types.Type) string {
	if t == nil {
		return "nil"
	}
	if b, ok := t.(*types.Basic); ok && b.Kind() == types.Invalid {
		return "inv"
	}
	for i, u := range w.types {
		if types.Identical(t, u) {
			return fmt.Sprint(i)
		}
	}
	w.types = append(w.types, t)
	return fmt.Sprint(len(w.types) - 1)
}

func (w *c02SinkWorld) nameID(s string) string {
	if id, ok := w.names[s]; ok {
		return fmt.Sprint(id)
	}
	w.names[s] = len(w.names)
	return fmt.Sprint(w.names[s])
}

func (w *c02SinkWorld) under(t types.Type, depth int) string {
	if t == nil || depth > 6 {
		return "(o)"
	}
	switch u := t.Underlying().(type) {
	case *types.Slice:
		return "(sl " + w.ty(u.Elem()) + ")"
	case *types.Array:
		return "(ar " + w.ty(u.Elem()) + ")"
	case *types.Map:
		return "(map " + w.ty(u.Key()) + " " + w.ty(u.Elem()) + ")"
	case *types.Struct:
		parts := []string{"st"}
		for i := 0; i < u.NumFields(); i++ {
			parts = append(parts, "("+w.nameID(u.Field(i).Name())+" "+w.ty(u.Field(i).Type())+")")
		}
		return "(" + strings.Join(parts, " ") + ")"
	case *types.Pointer:
		return "(ptr " + w.under(u.Elem(), depth+1) + ")"
	case *types.Chan:
		return "(ch " + w.ty(u.Elem()) + ")"
	}
	return "(o)"
}

func (w *c02SinkWorld) sig(s *types.Signature) string {
	var ps, rs []string
	for i := 0; i < s.Params().Len(); i++ {
		pt := s.Params().At(i).Type()
		el := "-"
		if sl, ok := pt.(*types.Slice); ok {
			el = w.ty(sl.Elem())
		}
		ps = append(ps, "("+w.ty(pt)+" "+el+")")
	}
	for i := 0; i < s.Results().Len(); i++ {
		rs = append(rs, w.ty(s.Results().At(i).Type()))
	}
	return fmt.Sprintf("(sig %s (%s) (%s))", b01(s.Variadic()), strings.Join(append([]string{"ps"}, ps...), " "), strings.Join(append([]string{"rs"}, rs...), " "))
}

func indexOfExpr(xs []ast.Expr, child ast.Node) int {
	for i, x := range xs {
		if ast.Node(x) == child {
			return i
		}
	}
	return -1
}

func (w *c02SinkWorld) frame(n, child ast.Node) (string, string) {
	info := w.t.Info
	switch p := n.(type) {
	case *ast.ParenExpr:
		return "(par)", "paren"
	case *ast.KeyValueExpr:
		id := "-"
		if k, ok := p.Key.(*ast.Ident); ok {
			id = w.nameID(k.Name)
		}
		return fmt.Sprintf("(kv %s %s)", b01(ast.Node(p.Key) == child), id), "keyvalue"
	case *ast.ValueSpec:
		slot := ""
		switch {
		case p.Type != nil && ast.Node(p.Type) == child:
			slot = "type"
		case indexOfExpr(p.Values, child) >= 0:
			slot = "value"
		default:
			for _, nm := range p.Names {
				if ast.Node(nm) == child {
					slot = "name"
				}
			}
		}
		if slot == "" {
			panic("sink facts: child of a ValueSpec in no slot")
		}
		dt := "-"
		if p.Type != nil {
			dt = w.ty(info.TypeOf(p.Type))
		}
		return fmt.Sprintf("(vs %s %s)", slot, dt), "valuespec:" + slot
	case *ast.ReturnStmt:
		i := indexOfExpr(p.Results, child)
		if i < 0 {
			panic("sink facts: child of a ReturnStmt is no result")
		}
		return fmt.Sprintf("(ret %d %d)", i, len(p.Results)-1-i), "return"
	case *ast.IndexExpr:
		in := ast.Node(p.Index) == child
		return fmt.Sprintf("(idx %s %s %s)", b01(in), w.ty(info.TypeOf(p.X)), w.under(info.TypeOf(p.X), 0)), "index:" + map[bool]string{true: "index", false: "x"}[in]
	case *ast.AssignStmt:
		tok := "other"
		switch p.Tok {
		case token.ASSIGN:
			tok = "assign"
		case token.DEFINE:
			tok = "define"
		}
		onRhs, pos := true, indexOfExpr(p.Rhs, child)
		if pos < 0 {
			onRhs, pos = false, indexOfExpr(p.Lhs, child)
		}
		if pos < 0 {
			panic("sink facts: child of an AssignStmt on neither side")
		}
		var lhs []string
		for _, l := range p.Lhs {
			lhs = append(lhs, w.ty(info.TypeOf(l)))
		}
		return fmt.Sprintf("(asg %s %s %d %d (%s))", tok, b01(onRhs), pos, len(p.Rhs), strings.Join(lhs, " ")), "assign:" + tok + ":" + map[bool]string{true: "rhs", false: "lhs"}[onRhs]
	case *ast.CompositeLit:
		slot := "-"
		if i := indexOfExpr(p.Elts, child); i >= 0 {
			slot = fmt.Sprint(i)
		} else if p.Type == nil || ast.Node(p.Type) != child {
			panic("sink facts: child of a CompositeLit in no slot")
		}
		k := "composite:elt"
		if slot == "-" {
			k = "composite:type"
		}
		return fmt.Sprintf("(lit %s %d %s %s %s)", slot, len(p.Elts), w.ty(info.TypeOf(p)), w.under(info.TypeOf(p), 0), b01(p.Type == nil)), k
	case *ast.CallExpr:
		slot := "-"
		if i := indexOfExpr(p.Args, child); i >= 0 {
			slot = fmt.Sprint(i)
		} else if ast.Node(p.Fun) != child {
			panic("sink facts: child of a CallExpr in no slot")
		}
		var fn, k string
		ft := info.TypeOf(p.Fun)
		if s, ok := ft.(*types.Signature); ok {
			fn, k = w.sig(s), "call:sig"
		} else {
			tv, found := info.Types[p.Fun]
			fn, k = fmt.Sprintf("(nosig %s %s)", w.ty(ft), b01(found && tv.IsType())), "call:nosig"
		}
		if slot == "-" {
			k += ":fun"
		} else {
			k += ":arg"
		}
		return fmt.Sprintf("(call %s %d %s %s)", slot, len(p.Args), fn, b01(p.Ellipsis.IsValid())), k
	case *ast.FuncLit:
		s := "-"
		if sg, ok := info.TypeOf(p).(*types.Signature); ok {
			s = w.sig(sg)
		}
		return "(flit " + s + ")", "funclit"
	case *ast.FuncDecl:
		s := "-"
		if obj := info.Defs[p.Name]; obj != nil {
			if sg, ok := obj.Type().(*types.Signature); ok {
				s = w.sig(sg)
			}
		}
		return "(fdecl " + s + ")", "funcdecl"
	case *ast.SendStmt:
		in := ast.Node(p.Value) == child
		return fmt.Sprintf("(send %s %s %s)", b01(in), w.ty(info.TypeOf(p.Chan)), w.under(info.TypeOf(p.Chan), 0)), "send:" + map[bool]string{true: "value", false: "chan"}[in]
	}
	_, isExpr := n.(ast.Expr)
	return "(oth " + b01(isExpr) + ")", "other"
}

func (w *c02SinkWorld) ctxSexp(s *c02SinkSite) (string, string) {
	_, isExpr := s.match.(ast.Expr)
	_, isParen := s.match.(*ast.ParenExpr)
	parts := []string{"ctx", b01(isExpr), b01(isParen)}
	child := s.match
	root := ""
	for i := len(s.path) - 1; i >= 0; i-- {
		f, kind := w.frame(s.path[i], child)
		if root == "" && kind != "paren" {
			root = kind
		}
		parts = append(parts, f)
		child = s.path[i]
	}
	return "(" + strings.Join(parts, " ") + ")", root
}

// ---------------------------------------------------------------------------------------------
// observation: the engine's verdict at every site of a pattern

func c02SinkObserve(e *ruleguard.Engine, w *c02SinkWorld, pat int) (string, error) {
	sites := w.sites[pat]
	st := ruleguard.NewRunnerState(e)
	verdict := make([]byte, len(sites))
	byOff := map[int]int{}
	for i, s := range sites {
		byOff[s.offset] = i
		verdict[i] = 'f'
	}
	reps, pk, _, err := hx.Run(e, w.t, hx.RunOpts{State: st})
	if err != nil {
		return "", err
	}
	if pk == "" {
		for _, r := range reps {
			i, ok := byOff[r.Pos]
			if !ok {
				return "", fmt.Errorf("report at offset %d is not a site of %s", r.Pos, c02SinkPatterns[pat].pattern)
			}
			verdict[i] = 't'
		}
		return string(verdict), nil
	}
	// a panic: one declaration at a time; the sites of a declaration that dies and were not reported get the panic's letter
	var last ast.Decl
	for i, s := range sites {
		if s.decl == last {
			continue
		}
		last = s.decl
		reps, pk1, _, err := hx.Run(e, s.tgt, hx.RunOpts{State: st})
		if err != nil {
			return "", err
		}
		for _, r := range reps {
			j, ok := byOff[r.Pos]
			if !ok {
				return "", fmt.Errorf("report at offset %d is not a site of %s", r.Pos, c02SinkPatterns[pat].pattern)
			}
			verdict[j] = 't'
		}
		if pk1 != "" {
			l, ok := c17PanicLetter[pk1]
			if !ok {
				return "", fmt.Errorf("unknown panic kind %q", pk1)
			}
			for j := i; j < len(sites) && sites[j].decl == s.decl; j++ {
				if verdict[j] != 't' {
					verdict[j] = l[0]
				}
			}
		}
	}
	return string(verdict), nil
}

// ---------------------------------------------------------------------------------------------

func c02SinkGroup2(s *c02SinkSite) string {
	g := c02SinkGroup(s.class)
	if strings.HasPrefix(s.class, "marker:") || s.class == "declaration" {
		g = strings.TrimSuffix(s.class, ":parenthesised")
	}
	return c02SinkPatterns[s.pat].name + ":" + g
}

func runC02SinkModel(c *Ctx, dir string) error {
	res := c.Res
	res.Rule += fmt.Sprintf("; sink model (variant %s): %d + %d templates and random nests x the match patterns pv.($_), (pv.($_)), pk, pw, PA, PSl, pf, ptup() x %d types T: "+
		"Lean findSinkRoot/findSinkType on the serialised ancestor chain vs the engine's verdict, SpecSink.specSink on the engine's verdicts, SpecSink.wf asserted, cross-check with sinkOf",
		c02SinkVariant, len(c02SinkTemplates), len(c02SinkMoreTemplates), len(c02SinkProbeTypes))
	src, classes := c02BuildSinkModel(c.Seed, c.Thorough)
	path := dir + "/c02target_sinkmodel.go"
	// the rules: one WhereExpr per probed type
	var sb strings.Builder
	for k, ty := range c02SinkProbeTypes {
		fmt.Fprintf(&sb, "func r%d(m dsl.Matcher) {\n\tm.Match(`pv.($_)`).Where(m[\"$$\"].SinkType.Is(%q)).Report(\"hit\")\n}\n", k, ty)
	}
	irf, err := c17ConvertIR(hx.RulesFile(sb.String()))
	if err != nil {
		return fmt.Errorf("irconv of the sink rules: %v", err)
	}
	if len(irf.RuleGroups) != len(c02SinkProbeTypes) {
		return fmt.Errorf("irconv: %d groups for %d sink rules", len(irf.RuleGroups), len(c02SinkProbeTypes))
	}
	for _, alias := range []bool{false, true} {
		mode := "alias=" + b01(alias)
		w, err := c02SinkParse(path, src, alias, classes)
		if err != nil {
			return fmt.Errorf("sinkmodel: %v", err)
		}
		ow := &c02World{t: w.t, alias: alias, class: classes}
		// the probed types, interned first (their ids do not depend on the sites)
		var tids []string
		var ttypes []types.Type
		for _, ty := range c02SinkProbeTypes {
			t := c02EvalType(ow, ty)
			ttypes = append(ttypes, t)
			tids = append(tids, w.ty(t))
		}
		// 1. chains, model / spec / contract per site
		var all []*c02SinkSite
		var ops []string
		for pi := range c02SinkPatterns {
			res.Distribution["sinkmodel:sites:"+c02SinkPatterns[pi].name] = len(w.sites[pi])
			for _, s := range w.sites[pi] {
				var root string
				s.ctx, root = w.ctxSexp(s)
				if !alias {
					res.Dist("sinkmodel:root:" + root)
				}
				all = append(all, s)
				ops = append(ops, "c02sink "+c02SinkVariant+" "+s.ctx)
			}
		}
		ans, err := c.Drv.Ask(ops)
		if err != nil {
			return err
		}
		for i, s := range all {
			f := strings.Fields(ans[i])
			if len(f) != 4 {
				return fmt.Errorf("c02sink: answer %q for site %s: %s", ans[i], s.name, s.ctx)
			}
			s.model, s.spec, s.gap = f[0], f[1], f[3]
			if f[2] != "wf" {
				res.Errorf("facts contract SpecSink.wf does not hold at site %s (%s): %s", s.name, s.class, s.ctx)
			}
			if !alias {
				res.Dist("sinkmodel:model:" + strings.SplitN(s.model, ":", 2)[0])
				res.Dist("sinkmodel:spec:" + strings.SplitN(s.spec, ":", 2)[0])
				res.Dist("sinkmodel:gap:" + s.gap)
			}
			// the first oracle, where it judges
			if s.pat == 0 {
				sink, state := ow.sinkOf(&c02Site{match: s.match, path: s.path[1:]})
				switch state {
				case "sink":
					if want := "id:" + w.ty(sink); s.spec != want {
						res.Errorf("the two sink oracles differ at site %s (%s): sinkOf says %s (%s), SpecSink.specSink says %s", s.name, s.class, want, sink, s.spec)
					}
				case "none":
					if s.spec != "none" {
						res.Errorf("the two sink oracles differ at site %s (%s): sinkOf says none, SpecSink.specSink says %s", s.name, s.class, s.spec)
					}
				}
				if !alias {
					res.Dist("sinkmodel:sinkOf:" + state)
				}
			}
		}
		// 2. the engine's verdicts, per pattern and probed type
		for pi, p := range c02SinkPatterns {
			sites := w.sites[pi]
			if len(sites) == 0 {
				return fmt.Errorf("sinkmodel: no site for pattern %s", p.pattern)
			}
			verd := make([][]byte, len(sites))
			for i := range verd {
				verd[i] = make([]byte, len(c02SinkProbeTypes))
			}
			for k := range c02SinkProbeTypes {
				f := &ir.File{PkgPath: "gorules", RuleGroups: []ir.RuleGroup{{Line: 1, Name: "r", MatcherName: "m",
					Rules: []ir.Rule{{Line: 1, SyntaxPatterns: []ir.PatternString{{Line: 1, Value: p.pattern}}, ReportTemplate: "hit", WhereExpr: irf.RuleGroups[k].Rules[0].WhereExpr}}}}}
				eng, load, errText := c17LoadIR(f)
				if load != "ok" {
					return fmt.Errorf("sinkmodel: loading SinkType.Is(%q) on %s: %s %s", c02SinkProbeTypes[k], p.pattern, load, errText)
				}
				v, err := c02SinkObserve(eng, w, pi)
				if err != nil {
					return fmt.Errorf("sinkmodel: SinkType.Is(%q) on %s: %v", c02SinkProbeTypes[k], p.pattern, err)
				}
				for i := range sites {
					verd[i][k] = v[i]
				}
			}
			// 3. correspondence and prescription
			var lines, impl, specOps []string
			var inputs []interface{}
			for i, s := range sites {
				// typematch territory (C10), as for Type.Is: a sink that is an alias or mentions a type parameter is not judged
				masked := false
				if strings.HasPrefix(s.model, "id:") {
					var id int
					fmt.Sscanf(s.model, "id:%d", &id)
					if hasAlias(w.types[id], 0) || mentionsTypeParam(w.types[id], 0) {
						masked = true
					}
				}
				if strings.HasPrefix(s.spec, "id:") {
					var id int
					fmt.Sscanf(s.spec, "id:%d", &id)
					if hasAlias(w.types[id], 0) || mentionsTypeParam(w.types[id], 0) {
						masked = true
					}
				}
				ts := append([]string(nil), tids...)
				got := append([]byte(nil), verd[i]...)
				if masked {
					for k := range ts {
						ts[k] = "?"
						got[k] = '?'
					}
					res.Dist("sinkmodel:masked")
				}
				tss := "(ts " + strings.Join(ts, " ") + ")"
				lines = append(lines, "c02sinkis "+c02SinkVariant+" "+s.ctx+" "+tss)
				impl = append(impl, string(got))
				specOps = append(specOps, "c02sinkspecis "+s.ctx+" "+tss+" "+string(got))
				text := string(w.t.Src[w.t.Fset.Position(s.match.Pos()).Offset:w.t.Fset.Position(s.match.End()).Offset])
				inputs = append(inputs, map[string]interface{}{"pattern": p.pattern, "site": s.name + ": " + text, "class": s.class, "mode": mode,
					"declaration": c02DeclText(w.t, s.decl), "types": strings.Join(c02SinkProbeTypes, " | ")})
				judged := strings.ReplaceAll(string(got), "?", "")
				nontrivial := judged != "" && strings.Trim(judged, judged[:1]) != ""
				for k := range c02SinkProbeTypes {
					res.Count("sinkmodel:"+mode, fmt.Sprintf("%s/%s/%d", p.name, s.name, k), nontrivial)
				}
				for _, ch := range "tfnai" {
					if strings.ContainsRune(string(got), ch) {
						res.Dist("sinkmodel:verdict-seen:" + string(ch))
					}
				}
			}
			if err := res.Compare(c.Drv, "sinkmodel:"+mode, lines, impl, inputs); err != nil {
				return err
			}
			sans, err := c.Drv.Ask(specOps)
			if err != nil {
				return err
			}
			for i, a := range sans {
				if strings.HasPrefix(a, "holds") {
					continue
				}
				parts := strings.Split(a, ":")
				if len(parts) != 4 || parts[0] != "wrong" {
					return fmt.Errorf("c02sinkspecis: answer %q for %s", a, specOps[i])
				}
				s := sites[i]
				var k int
				fmt.Sscanf(parts[1], "%d", &k)
				// a site in a context the Lean theorem excludes (SpecSink.gap) is filed under that gap; any other under its position class
				where := c02SinkGroup2(s)
				if s.gap != "-" {
					where = s.gap
				}
				sig := fmt.Sprintf("SinkType.Is:%s:want-%s", where, parts[2])
				if len(parts[3]) == 1 && strings.Contains("nsiax", parts[3]) {
					sig = fmt.Sprintf("SinkType.Is:%s:panic %s", where, parts[3])
				}
				text := string(w.t.Src[w.t.Fset.Position(s.match.Pos()).Offset:w.t.Fset.Position(s.match.End()).Offset])
				res.Violate(hx.Violation{Signature: sig, What: "SinkType.Is(T) does not say whether T is the type the context expects for the matched expression",
					Input: map[string]interface{}{"where": fmt.Sprintf(`m["$$"].SinkType.Is(%q)`, c02SinkProbeTypes[k]), "pattern": p.pattern, "site": s.name + ": " + text,
						"declaration": c02DeclText(w.t, s.decl), "mode": mode, "class": s.class, "gap": s.gap, "chain": s.ctx},
					Impl: "verdict " + parts[3] + " (model sink " + s.model + ")", Spec: "SpecSink.specSink = " + s.spec + ": wants " + parts[2]})
			}
			if pi == 0 && !alias && len(lines) > 0 {
				res.Sample(map[string]interface{}{"sink-op": lines[0], "impl": impl[0]})
			}
		}
	}
	return nil
}

func c02DeclText(t *hx.Target, d ast.Decl) string {
	return string(t.Src[t.Fset.Position(d.Pos()).Offset:t.Fset.Position(d.End()).Offset])
}
