package main

// C08 — concurrent Run calls on one Engine: race-free and equivalent to sequential.
//
//  1. static half: the regenerated lock-event table and write-site table (rgh extract) are checked
//     by the compiled Lean obligations (`locktable`, `writesites` ops) — `check` also fails the
//     proof build when they do not hold; here the failing functions are named.
//  2. cache-protocol correspondence: N goroutines × FindType call lists on cold engines (child
//     process, race build); per-call outcomes and final key sets are compared with the Lean model
//     (`ft`, `pkgafter`) and judged by the executable statement (`spec08cache`).
//  3. run-time search: generated (rules, files) with custom filters calling GetType/GetInterface on
//     packages nobody imported; per-goroutine report lists must equal the lone sequential baseline
//     (`spec08run`), the race detector's log is parsed.
//  4. "typeid" rounds of the run-time search (gen_typeid.go): rule sets made of every type-directed predicate
//     over multi-file packages with colliding type identities (instantiations of one generic type, same-named
//     local types, packages type-checked under one path): N goroutines over different files on one cold engine
//     vs the lone run of each file on a fresh engine, and the warm re-run.
//  5. "shared context" rounds (c08_ctx.go): the files of multi-file packages (one types.Info / FileSet / Package) linted by
//     N goroutines that share ONE RunContext value (State nil) or copy it (State own / pooled / nil), mixed disciplines, free
//     and forced ("nested": inside another call's Report callback) schedules; one goroutine-safe Report callback per package
//     files every report under its file by position; vs the lone run of each file on a fresh engine with a context of its own.

import (
	"bytes"
	"context"
	"crypto/sha1"
	"encoding/hex"
	"encoding/json"
	"fmt"
	"math/rand"
	"os"
	"os/exec"
	"path/filepath"
	"regexp"
	"sort"
	"strings"
	"time"

	"verifharness/hx"
)

func init() { register("C08", runC08) }

// c08CompareRecheck selects the variant of the cache-protocol model the correspondence compares the
// code with: false = engine.go as it stands (no second look-up after Lock), true = the repaired
// variant of fixes/findtype-recheck.diff.  (Both deliver the same *classes* of results; they
// differ in which universe's object ends up cached, which the property does not observe.)
const c08CompareRecheck = false

// ---- generated world ---------------------------------------------------------------------------

type c08Method struct{ name, sig, body string }

var c08Methods = []c08Method{
	{"A", "A() int", "return 0"},
	{"B", "B(s string) bool", "return false"},
	{"C", "C() string", `return ""`},
	{"D", "D(n int) int", "return n"},
	{"E", "E() error", "return nil"},
}

type c08Pkg struct {
	path   string
	deps   []int
	ifaces [][]int // method indices (index len(c08Methods) = the cross-package method F)
	types  [][]int
	ptr    []bool // methods on pointer receiver
}

type c08World struct {
	dir, gopath string
	pkgs        []c08Pkg
	targets     []string
	targetDeps  [][]int
	// packages with colliding type identities: tid[0..nImportable) live in GOPATH (importable by the rules),
	// the others are variants type-checked under the path of one of them
	tid    []c08PkgRef
	tidExt *tidExt
	// the "state" packages of the shared-context rounds (c08_ctx.go): several analysed files each, not importable
	cs []c08PkgRef
}

const c08TidSinks = 8

// c08GenTidWorld adds the multi-file packages of the typeid rounds to the world.
func c08GenTidWorld(r *rand.Rand, w *c08World, nImportable, nVariants int) error {
	w.tidExt = &tidExt{}
	add := func(path, dir string) error {
		name := path[strings.LastIndexByte(path, '/')+1:]
		p := tidGenPackage(r, path, name, 2+r.Intn(2), c08TidSinks)
		if _, err := tidWritePackage(dir, p); err != nil {
			return err
		}
		ref := c08PkgRef{Path: path, Dir: dir}
		for _, f := range p.Files {
			ref.All = append(ref.All, f.Name)
			if f.Name != "types.go" {
				ref.Targets = append(ref.Targets, f.Name)
			}
		}
		w.tid = append(w.tid, ref)
		return nil
	}
	for k := 0; k < nImportable; k++ {
		path := fmt.Sprintf("verifpkg/m%d", k)
		if err := add(path, filepath.Join(w.gopath, "src", "verifpkg", fmt.Sprintf("m%d", k))); err != nil {
			return err
		}
		w.tidExt.Pkgs = append(w.tidExt.Pkgs, path)
		w.tidExt.Ifaces = append(w.tidExt.Ifaces, path+".Getter")
	}
	for k := 0; k < nVariants; k++ {
		if err := add(fmt.Sprintf("verifpkg/m%d", k%nImportable), filepath.Join(w.dir, "variants", fmt.Sprintf("v%d", k))); err != nil {
			return err
		}
	}
	for n := range w.pkgs {
		for i := 0; i < 3; i++ {
			w.tidExt.Ifaces = append(w.tidExt.Ifaces, fmt.Sprintf("verifpkg/p%d.I%d", n, i))
		}
	}
	return nil
}

// genTidRound: a typeid round — 2-3 of the packages (preferably some that share their path), at most 7 of their
// files, a rule set of type-directed predicates, workers over the files.
func (w *c08World) genTidRound(r *rand.Rand, deck *[]int, id int, heavy bool) c08RunRound {
	rd := c08RunRound{ID: id}
	rs := tidGenRules(r, deck, 6+r.Intn(8), c08TidSinks, w.tidExt, heavy)
	rd.Rules, rd.TidRules = rs.Src, rs.Rules
	for _, ri := range rs.Rules {
		for _, k := range ri.Kinds {
			rd.Kinds = append(rd.Kinds, "tid:"+k)
		}
	}
	first := r.Intn(len(w.tid))
	chosen := []int{first}
	for k, p := range w.tid {
		if k != first && p.Path == w.tid[first].Path && r.Intn(3) != 0 {
			chosen = append(chosen, k)
		}
	}
	for len(chosen) < 2 || (len(chosen) < 3 && r.Intn(2) == 0) {
		k := r.Intn(len(w.tid))
		dup := false
		for _, c := range chosen {
			dup = dup || c == k
		}
		if !dup {
			chosen = append(chosen, k)
		}
	}
	r.Shuffle(len(chosen), func(i, j int) { chosen[i], chosen[j] = chosen[j], chosen[i] })
	budget := 7
	for _, k := range chosen {
		ref := w.tid[k]
		ts := append([]string(nil), ref.Targets...)
		if len(ts) > budget {
			ts = ts[:budget]
		}
		budget -= len(ts)
		if len(ts) == 0 {
			continue
		}
		ref.Targets = ts
		rd.Pkgs = append(rd.Pkgs, ref)
		for _, f := range ts {
			rd.Files = append(rd.Files, fmt.Sprintf("%s[%s]/%s", ref.Path, filepath.Base(ref.Dir), f))
		}
	}
	nf := len(rd.Files)
	nw := []int{2, 2, 3, 4, 4, 8}[r.Intn(6)]
	for k := 0; k < nw; k++ {
		n := 1 + r.Intn(3)
		var a []int
		for j := 0; j < n; j++ {
			a = append(a, r.Intn(nf))
		}
		rd.Assign = append(rd.Assign, a)
	}
	rd.StateMode = []string{"nil", "own", "pool"}[r.Intn(3)]
	return rd
}

func c08Subset(r *rand.Rand, n, min int) []int {
	var s []int
	for i := 0; i < n; i++ {
		if r.Intn(2) == 0 {
			s = append(s, i)
		}
	}
	for len(s) < min {
		s = append(s, r.Intn(n))
	}
	sort.Ints(s)
	out := s[:0]
	for i, x := range s {
		if i == 0 || x != s[i-1] {
			out = append(out, x)
		}
	}
	return out
}

func c08MethodDecl(recv string, mi int, dep string) string {
	if mi < len(c08Methods) {
		m := c08Methods[mi]
		return fmt.Sprintf("func (%s) %s { %s }\n", recv, m.sig, m.body)
	}
	return fmt.Sprintf("func (%s) F(x %s.T0) int { return 0 }\n", recv, dep)
}

func c08MethodSig(mi int, dep string) string {
	if mi < len(c08Methods) {
		return c08Methods[mi].sig
	}
	return fmt.Sprintf("F(x %s.T0) int", dep)
}

func c08Write(path, content string) error {
	if err := os.MkdirAll(filepath.Dir(path), 0o755); err != nil {
		return err
	}
	return os.WriteFile(path, []byte(content), 0o644)
}

func c08GenWorld(r *rand.Rand, dir, repoDir string, nPkgs, nTargets int) (*c08World, error) {
	w := &c08World{dir: dir, gopath: filepath.Join(dir, "gopath")}
	// the dsl packages the rules files import, resolvable in GOPATH mode
	dslDst := filepath.Join(w.gopath, "src", "github.com", "quasilyte", "go-ruleguard", "dsl")
	if err := os.MkdirAll(filepath.Dir(dslDst), 0o755); err != nil {
		return nil, err
	}
	if err := os.Symlink(filepath.Join(repoDir, "dsl"), dslDst); err != nil {
		return nil, err
	}
	for n := 0; n < nPkgs; n++ {
		p := c08Pkg{path: fmt.Sprintf("verifpkg/p%d", n)}
		for m := 0; m < n; m++ {
			if r.Intn(2) == 0 {
				p.deps = append(p.deps, m)
			}
		}
		nm := len(c08Methods)
		if len(p.deps) > 0 {
			nm++ // F(x dep.T0)
		}
		for i := 0; i < 3; i++ {
			p.ifaces = append(p.ifaces, c08Subset(r, nm, 1))
			p.types = append(p.types, c08Subset(r, nm, 0))
			p.ptr = append(p.ptr, r.Intn(2) == 0)
		}
		var b strings.Builder
		fmt.Fprintf(&b, "package p%d\n\n", n)
		for _, d := range p.deps {
			fmt.Fprintf(&b, "import p%d \"verifpkg/p%d\"\n", d, d)
		}
		for _, d := range p.deps {
			fmt.Fprintf(&b, "var _ p%d.T0\n", d)
		}
		dep := ""
		if len(p.deps) > 0 {
			dep = fmt.Sprintf("p%d", p.deps[0])
		}
		for i, ms := range p.ifaces {
			fmt.Fprintf(&b, "type I%d interface {\n", i)
			for _, mi := range ms {
				fmt.Fprintf(&b, "\t%s\n", c08MethodSig(mi, dep))
			}
			b.WriteString("}\n")
		}
		for i, ms := range p.types {
			fmt.Fprintf(&b, "type T%d struct{ X%d int }\n", i, i)
			recv := fmt.Sprintf("t T%d", i)
			if p.ptr[i] {
				recv = fmt.Sprintf("t *T%d", i)
			}
			for _, mi := range ms {
				b.WriteString(c08MethodDecl(recv, mi, dep))
			}
		}
		b.WriteString("func F0(x int) int { return x }\nvar V0 int\nconst C0 = 1\n")
		if err := c08Write(filepath.Join(w.gopath, "src", "verifpkg", fmt.Sprintf("p%d", n), "p.go"), b.String()); err != nil {
			return nil, err
		}
		w.pkgs = append(w.pkgs, p)
	}
	for k := 0; k < nTargets; k++ {
		var deps []int
		for n := 0; n < nPkgs; n++ {
			if r.Intn(3) == 0 {
				deps = append(deps, n)
			}
		}
		var b strings.Builder
		fmt.Fprintf(&b, "package t%d\n\n", k)
		for _, d := range deps {
			fmt.Fprintf(&b, "import p%d \"verifpkg/p%d\"\n", d, d)
		}
		b.WriteString("\nfunc sink(interface{}) {}\n\n")
		var vars []string
		for _, d := range deps {
			for i := 0; i < 3; i++ {
				vars = append(vars, fmt.Sprintf("p%d.T%d", d, i), fmt.Sprintf("*p%d.T%d", d, i))
			}
			vars = append(vars, fmt.Sprintf("p%d.I0", d))
		}
		for i := 0; i < 3; i++ {
			ms := c08Subset(r, len(c08Methods), 0)
			fmt.Fprintf(&b, "type L%d struct{ Y%d int }\n", i, i)
			recv := fmt.Sprintf("l L%d", i)
			if r.Intn(2) == 0 {
				recv = fmt.Sprintf("l *L%d", i)
			}
			for _, mi := range ms {
				b.WriteString(c08MethodDecl(recv, mi, ""))
			}
			vars = append(vars, fmt.Sprintf("L%d", i), fmt.Sprintf("*L%d", i))
		}
		vars = append(vars, "int", "string", "[]int", "error", "map[string]int")
		r.Shuffle(len(vars), func(i, j int) { vars[i], vars[j] = vars[j], vars[i] })
		b.WriteString("\nvar (\n")
		for i, v := range vars {
			fmt.Fprintf(&b, "\tv%d %s\n", i, v)
		}
		b.WriteString(")\n\nfunc use() {\n")
		for i := range vars {
			fmt.Fprintf(&b, "\tsink(v%d)\n", i)
		}
		b.WriteString("}\n")
		path := fmt.Sprintf("verifpkg/t%d", k)
		if err := c08Write(filepath.Join(w.gopath, "src", "verifpkg", fmt.Sprintf("t%d", k), "t.go"), b.String()); err != nil {
			return nil, err
		}
		w.targets = append(w.targets, path)
		w.targetDeps = append(w.targetDeps, deps)
	}
	return w, nil
}

// c08Name picks a name for FindType / GetType; kind tells what it is.
func (w *c08World) name(r *rand.Rand, wantIface bool, thorough bool) (fqn, kind string) {
	n := r.Intn(len(w.pkgs))
	x := r.Intn(100)
	switch {
	case wantIface && x < 80:
		return fmt.Sprintf("verifpkg/p%d.I%d", n, r.Intn(3)), "iface"
	case x < 45:
		return fmt.Sprintf("verifpkg/p%d.T%d", n, r.Intn(3)), "type"
	case x < 60:
		return fmt.Sprintf("verifpkg/p%d.I%d", n, r.Intn(3)), "iface"
	case x < 66:
		return fmt.Sprintf("verifpkg/p%d.%s", n, []string{"F0", "V0", "C0"}[r.Intn(3)]), "nontype"
	case x < 74:
		return fmt.Sprintf("verifpkg/p%d.Nope%d", n, r.Intn(2)), "noname"
	case x < 80:
		return fmt.Sprintf("verifpkg/nope%d.T0", r.Intn(2)), "nopkg"
	case x < 88:
		return []string{"int", "error", "string", "bool", "byte"}[r.Intn(5)], "builtin"
	case x < 92 && thorough:
		return []string{"sort.Interface", "io.Reader", "errors.New", "unicode/utf8.RuneError"}[r.Intn(4)], "std"
	default:
		return []string{"nodot", "", "a.", "verifpkg/p0.", "verifpkg/p0.t0", "verifpkg/p0.T0.X0"}[r.Intn(6)], "malformed"
	}
}

type c08Filter struct{ src, kind, fqn string }

func (w *c08World) genRules(r *rand.Rand, thorough bool) (string, []string) {
	var b strings.Builder
	b.WriteString("package gorules\n\nimport (\n\t\"github.com/quasilyte/go-ruleguard/dsl\"\n\t\"github.com/quasilyte/go-ruleguard/dsl/types\"\n)\n\n")
	b.WriteString("func fUse(ctx *dsl.VarFilterContext) bool {\n\treturn types.Identical(ctx.Type, ctx.Type)\n}\n\n")
	nf := 2 + r.Intn(4)
	var kinds []string
	var names []string
	for i := 0; i < nf; i++ {
		var body, kind string
		switch x := r.Intn(100); {
		case x < 45:
			fqn, k := w.name(r, true, thorough)
			if k != "iface" && r.Intn(4) != 0 {
				fqn, k = fmt.Sprintf("verifpkg/p%d.I%d", r.Intn(len(w.pkgs)), r.Intn(3)), "iface"
			}
			body = fmt.Sprintf("return types.Implements(ctx.Type, ctx.GetInterface(`%s`))", fqn)
			kind = "GetInterface:" + k
		case x < 75:
			fqn, k := w.name(r, false, thorough)
			if k == "malformed" || k == "nopkg" || k == "noname" {
				if r.Intn(3) != 0 {
					fqn, k = fmt.Sprintf("verifpkg/p%d.T%d", r.Intn(len(w.pkgs)), r.Intn(3)), "type"
				}
			}
			body = fmt.Sprintf("return types.Identical(ctx.Type, ctx.GetType(`%s`))", fqn)
			kind = "GetType:" + k
		case x < 90:
			fqn := fmt.Sprintf("verifpkg/p%d.T%d", r.Intn(len(w.pkgs)), r.Intn(3))
			body = fmt.Sprintf("return types.Identical(ctx.Type, types.NewPointer(ctx.GetType(`%s`)))", fqn)
			kind = "GetType:ptr"
		default:
			fqn := fmt.Sprintf("verifpkg/p%d.T%d", r.Intn(len(w.pkgs)), r.Intn(3))
			body = fmt.Sprintf("return ctx.SizeOf(ctx.GetType(`%s`)) == ctx.SizeOf(ctx.Type)", fqn)
			kind = "GetType:sizeof"
		}
		fmt.Fprintf(&b, "func f%d(ctx *dsl.VarFilterContext) bool {\n\t%s\n}\n\n", i, body)
		kinds = append(kinds, kind)
		names = append(names, fmt.Sprintf("f%d", i))
	}
	ng := 1 + r.Intn(3)
	for g := 0; g < ng; g++ {
		fmt.Fprintf(&b, "func g%d(m dsl.Matcher) {\n", g)
		nr := 1 + r.Intn(3)
		for k := 0; k < nr; k++ {
			switch x := r.Intn(100); {
			case x < 70:
				f := r.Intn(nf)
				cond := fmt.Sprintf("m[\"x\"].Filter(%s)", names[f])
				if r.Intn(3) == 0 {
					f2 := r.Intn(nf)
					op := []string{"&&", "||", "&& !"}[r.Intn(3)]
					cond = fmt.Sprintf("%s %sm[\"x\"].Filter(%s)", cond, op, names[f2])
				}
				fmt.Fprintf(&b, "\tm.Match(`sink($x)`).Where(%s).Report(`g%d.%d $x`)\n", cond, g, k)
			case x < 85:
				fqn := fmt.Sprintf("verifpkg/p%d.I%d", r.Intn(len(w.pkgs)), r.Intn(3))
				fmt.Fprintf(&b, "\tm.Match(`sink($x)`).Where(m[\"x\"].Type.Implements(`%s`)).Report(`g%d.%d impl $x`)\n", fqn, g, k)
				kinds = append(kinds, "Type.Implements")
			default:
				conds := []string{
					"m[\"x\"].Type.Is(`[]int`)", "m[\"x\"].Text.Matches(`v[0-9]*[02468]$`)", "m[\"x\"].Pure", "m[\"x\"].Addressable",
					"m[\"x\"].Type.Size >= 16", "m[\"x\"].Type.Underlying().Is(`struct{$*_}`)", "m[\"x\"].Type.Is(`*$_`)",
					"m[\"x\"].Object.IsGlobal()", "m[\"x\"].Node.Is(`Ident`)", "m[\"x\"].Type.Implements(`error`)",
				}
				cond := conds[r.Intn(len(conds))]
				kind := "builtin-filter"
				if r.Intn(2) == 0 {
					// any type-directed predicate of the DSL (gen_typeid.go), plain or negated
					tg := &tidRuleGen{r: r, imports: map[string]bool{}}
					tg.deck = []int{r.Intn(len(tidAtomKinds))}
					a, ka := tg.atom("x", false)
					if !strings.HasPrefix(ka, "Filter:") {
						cond, kind = a, "typed-filter:"+ka
						if r.Intn(3) == 0 {
							cond = "!(" + a + ")"
						}
					}
				}
				fmt.Fprintf(&b, "\tm.Match(`sink($x)`).Where(%s).Report(`g%d.%d builtin $x`)\n", cond, g, k)
				kinds = append(kinds, kind)
			}
		}
		b.WriteString("}\n\n")
	}
	return b.String(), kinds
}

// ---- child process -----------------------------------------------------------------------------

func c08HarnessDir() (string, error) {
	wd, err := os.Getwd()
	if err != nil {
		return "", err
	}
	cands := []string{wd}
	if exe, err := os.Executable(); err == nil {
		cands = append(cands, filepath.Dir(filepath.Dir(exe)))
	}
	for _, d := range cands {
		if b, err := os.ReadFile(filepath.Join(d, "go.mod")); err == nil && bytes.Contains(b, []byte("module verifharness")) {
			return d, nil
		}
	}
	return "", fmt.Errorf("cannot locate the harness module (run from verif/harness)")
}

func c08Env(extra ...string) []string {
	drop := map[string]bool{}
	for _, e := range extra {
		drop[strings.SplitN(e, "=", 2)[0]] = true
	}
	var env []string
	for _, e := range os.Environ() {
		if !drop[strings.SplitN(e, "=", 2)[0]] {
			env = append(env, e)
		}
	}
	return append(env, extra...)
}

func c08RepoDir(hdir string) (string, error) {
	cmd := exec.Command("go", "list", "-m", "-f", "{{.Dir}}", repoModule)
	cmd.Dir = hdir
	cmd.Env = c08Env("GOFLAGS=-mod=mod", "GOPROXY=off", "GOSUMDB=off", "GOTOOLCHAIN=local")
	out, err := cmd.Output()
	if err != nil {
		return "", fmt.Errorf("go list -m %s: %v", repoModule, err)
	}
	return strings.TrimSpace(string(out)), nil
}

func c08BuildRace(hdir string) (string, string, error) {
	bin := filepath.Join(hdir, "bin", "rgh.race")
	cmd := exec.Command("go", "build", "-race", "-tags", "verif", "-o", bin, "./cmd/rgh")
	cmd.Dir = hdir
	cmd.Env = c08Env("GOFLAGS=-mod=mod", "GOPROXY=off", "GOSUMDB=off", "GOTOOLCHAIN=local", "CGO_ENABLED=1")
	out, err := cmd.CombinedOutput()
	if err != nil {
		return "", string(out), err
	}
	return bin, "", nil
}

type c08Race struct {
	Signature string
	Text      string
}

var c08FrameRe = regexp.MustCompile(`^\s+(\S+)\(.*\)$`)
var c08FileRe = regexp.MustCompile(`^\s+(/\S+\.go):(\d+)`)

// c08ParseRaces extracts one entry per "WARNING: DATA RACE" block: the innermost frames of the two
// conflicting accesses that lie inside the repository (or, failing that, the innermost frames).
func c08ParseRaces(log, repoDir string) []c08Race {
	var res []c08Race
	blocks := strings.Split(log, "==================")
	for _, blk := range blocks {
		if !strings.Contains(blk, "WARNING: DATA RACE") {
			continue
		}
		lines := strings.Split(blk, "\n")
		var sites []string
		inAccess := false
		found := false
		first := ""
		for i := 0; i < len(lines); i++ {
			l := lines[i]
			t := strings.TrimSpace(l)
			if strings.HasPrefix(t, "Write at") || strings.HasPrefix(t, "Read at") || strings.HasPrefix(t, "Previous write at") ||
				strings.HasPrefix(t, "Previous read at") || strings.HasPrefix(t, "Previous atomic") || strings.HasPrefix(t, "Atomic") {
				if inAccess && !found && first != "" {
					sites = append(sites, first)
				}
				inAccess, found, first = true, false, ""
				continue
			}
			if strings.HasPrefix(t, "Goroutine ") {
				if inAccess && !found && first != "" {
					sites = append(sites, first)
				}
				inAccess = false
				continue
			}
			if !inAccess || found {
				continue
			}
			if m := c08FrameRe.FindStringSubmatch(l); m != nil && i+1 < len(lines) {
				if fm := c08FileRe.FindStringSubmatch(lines[i+1]); fm != nil {
					fn := m[1]
					if j := strings.LastIndex(fn, "/"); j >= 0 {
						fn = fn[j+1:]
					}
					file := fm[1]
					if first == "" {
						first = "external:" + fn
					}
					if strings.HasPrefix(file, repoDir+"/") && !strings.Contains(file, "verif_hooks") {
						sites = append(sites, strings.TrimPrefix(file, repoDir+"/")+":"+fn)
						found = true
					}
				}
			}
		}
		if inAccess && !found && first != "" {
			sites = append(sites, first)
		}
		sort.Strings(sites)
		uniq := sites[:0]
		for i, s := range sites {
			if i == 0 || s != sites[i-1] {
				uniq = append(uniq, s)
			}
		}
		sig := "race:" + strings.Join(uniq, "<->")
		txt := blk
		if len(txt) > 3000 {
			txt = txt[:3000]
		}
		res = append(res, c08Race{sig, txt})
	}
	return res
}

// c08CrashSignature: "fatal:<message>:<innermost repository frame of the first goroutine>".
func c08CrashSignature(stderr, repoDir string) (sig, head string) {
	lines := strings.Split(stderr, "\n")
	start := -1
	for i, l := range lines {
		if strings.HasPrefix(l, "fatal error:") || strings.HasPrefix(l, "panic:") {
			start = i
			break
		}
	}
	if start < 0 {
		head = stderr
		if len(head) > 2000 {
			head = head[:2000]
		}
		return "child-crash", head
	}
	msg := strings.TrimSpace(lines[start])
	frame := "?"
	inFirst := false
	for i := start + 1; i+1 < len(lines); i++ {
		if strings.HasPrefix(lines[i], "goroutine ") {
			if inFirst {
				break
			}
			inFirst = true
			continue
		}
		if !inFirst {
			continue
		}
		if fm := c08FileRe.FindStringSubmatch(lines[i+1]); fm != nil && strings.HasPrefix(fm[1], repoDir+"/") && !strings.Contains(fm[1], "verif_hooks") {
			fn := strings.TrimSpace(lines[i])
			if j := strings.LastIndex(fn, "("); j > 0 {
				fn = fn[:j]
			}
			if j := strings.LastIndex(fn, "/"); j >= 0 {
				fn = fn[j+1:]
			}
			frame = strings.TrimPrefix(fm[1], repoDir+"/") + ":" + fn
			break
		}
	}
	end := start + 40
	if end > len(lines) {
		end = len(lines)
	}
	return "fatal:" + strings.TrimPrefix(strings.TrimPrefix(msg, "fatal error: "), "panic: ") + ":" + frame, strings.Join(lines[start:end], "\n")
}

func c08Hash(ss []string) string {
	h := sha1.New()
	for _, s := range ss {
		h.Write([]byte(s))
		h.Write([]byte{0})
	}
	return hex.EncodeToString(h.Sum(nil))[:20]
}

// ---- the check ---------------------------------------------------------------------------------

func runC08(c *Ctx) error {
	res := c.Res
	res.Rule = "static: Lean obligations on the regenerated lock-event and write-site tables; " +
		"dynamic (race-built child, GOPATH mode, cold caches every round): (a) N goroutines x FindType name lists vs the Lean cache-protocol model " +
		"and the executable statement spec08cache, (b) generated rules with GetType/GetInterface filters x generated packages: per-goroutine reports vs " +
		"lone sequential baseline and warm re-run, (c) multi-file packages linted by goroutines sharing / copying one RunContext (State nil / own / pooled; free and " +
		"nested schedules): reports filed by position per file vs the lone run of the file on a fresh engine with its own context; race-detector log parsed; a case is non-trivial when at least two goroutines overlap on a name / file " +
		"and distinct by its inputs"

	// 0. what one insertion puts into the engine-wide package cache (c08_pkgcache.go)
	if err := runC08PkgCache(c); err != nil {
		return err
	}
	res.Rule += "; package cache: sequences of AddCachedPackage on synthetic package graphs (complete / incomplete packages) vs {inserted} ∪ {complete packages reachable through complete packages}"

	// 1. static half
	ans, err := c.Drv.Ask([]string{"locktable", "writesites"})
	if err != nil {
		return err
	}
	res.Count("static", "locktable", true)
	res.Count("static", "writesites", true)
	var suspects []string
	for i, a := range ans {
		if strings.HasPrefix(a, "ok") {
			res.Dist("static:" + []string{"locktable", "writesites"}[i] + ":ok")
			continue
		}
		res.Dist("static:" + []string{"locktable", "writesites"}[i] + ":bad")
		suspects = append(suspects, strings.TrimPrefix(a, "bad "))
		res.Notes = append(res.Notes, fmt.Sprintf("static obligation %s fails for: %s", []string{"lock_table_ok", "write_sites_confined"}[i], strings.TrimPrefix(a, "bad ")))
	}

	// 2./3. dynamic half
	hdir, err := c08HarnessDir()
	if err != nil {
		return err
	}
	repoDir, err := c08RepoDir(hdir)
	if err != nil {
		return err
	}
	t0 := time.Now()
	bin, out, err := c08BuildRace(hdir)
	if err != nil {
		return fmt.Errorf("go build -race of the harness failed: %v\n%s", err, out)
	}
	res.Notes = append(res.Notes, fmt.Sprintf("race build %.1fs", time.Since(t0).Seconds()))

	dir, err := os.MkdirTemp("", "rgh-c08-")
	if err != nil {
		return err
	}
	defer os.RemoveAll(dir)
	rng := hx.Rng(c.Seed, "c08-world")
	nFT, nRun := 300, 120
	procs := []int{0}
	if c.Thorough {
		nFT, nRun = 2000, 800
		procs = []int{0, 1, 4}
	}
	world, err := c08GenWorld(rng, dir, repoDir, 5, 6)
	if err != nil {
		return err
	}
	nTid := 24
	if c.Thorough {
		nTid = 150
	}
	if err := c08GenTidWorld(hx.Rng(c.Seed, "c08-tid-world"), world, 3, 4); err != nil {
		return err
	}
	nCtx := 60
	if c.Thorough {
		nCtx = 300
	}
	if err := c08GenCtxWorld(hx.Rng(c.Seed, "c08-ctx-world"), world, 6); err != nil {
		return err
	}
	for pi, gmp := range procs {
		spec := c08Spec{GoPath: world.gopath, GoMaxProcs: gmp}
		rft := hx.Rng(c.Seed, fmt.Sprintf("c08-ft-%d", pi))
		for i := 0; i < nFT; i++ {
			r := c08FTRound{ID: i}
			nt := []int{2, 2, 3, 4, 8, 16}[rft.Intn(6)]
			pool := make([]string, 2+rft.Intn(6))
			for k := range pool {
				pool[k], _ = world.name(rft, false, c.Thorough && i%10 == 0)
			}
			for t := 0; t < nt; t++ {
				n := 1 + rft.Intn(8)
				var th []string
				for k := 0; k < n; k++ {
					th = append(th, pool[rft.Intn(len(pool))])
				}
				r.Threads = append(r.Threads, th)
			}
			if rft.Intn(3) == 0 {
				r.CurrentPkg = world.targets[rft.Intn(len(world.targets))]
				r.Mixed = rft.Intn(2) == 0
			}
			r.Sequential = rft.Intn(6) == 0
			spec.FT = append(spec.FT, r)
		}
		rrun := hx.Rng(c.Seed, fmt.Sprintf("c08-run-%d", pi))
		for i := 0; i < nRun; i++ {
			r := c08RunRound{ID: i}
			r.Rules, r.Kinds = world.genRules(rrun, c.Thorough && i%10 == 0)
			nf := 1 + rrun.Intn(4)
			perm := rrun.Perm(len(world.targets))
			for k := 0; k < nf; k++ {
				r.Files = append(r.Files, world.targets[perm[k]])
			}
			nw := []int{2, 2, 4, 4, 8, 16}[rrun.Intn(6)]
			for w := 0; w < nw; w++ {
				n := 1 + rrun.Intn(3)
				var a []int
				for k := 0; k < n; k++ {
					a = append(a, rrun.Intn(nf))
				}
				r.Assign = append(r.Assign, a)
			}
			r.StateMode = []string{"nil", "own", "pool"}[rrun.Intn(3)]
			r.SharedUniverse = rrun.Intn(2) == 0
			spec.Runs = append(spec.Runs, r)
		}
		// typeid rounds: type-directed predicates x colliding type identities
		rtid := hx.Rng(c.Seed, fmt.Sprintf("c08-tid-%d", pi))
		var deck []int
		for i := 0; i < nTid; i++ {
			// names that make a fresh engine type-check fmt / io from source (slow under -race): thorough only
			spec.Runs = append(spec.Runs, world.genTidRound(rtid, &deck, nRun+i, c.Thorough && i%10 == 9))
		}
		// shared-context rounds: the files of multi-file packages linted by goroutines that share / copy one RunContext
		{
			rctx := hx.Rng(c.Seed, fmt.Sprintf("c08-ctx-%d", pi))
			var csDeck, tidDeck []int
			for i := 0; i < nCtx; i++ {
				spec.Ctx = append(spec.Ctx, world.genCtxRound(rctx, &csDeck, &tidDeck, i))
			}
		}
		// the analysis adapter's once-only engine under contention (one round per child: the engine is process-wide)
		{
			ra := hx.Rng(c.Seed, fmt.Sprintf("c08-adapter-%d", pi))
			a := &c08AdapterRound{Files: world.targets}
			// rules without unresolvable names: a Run that panics is C07's business, here the relay matters
			for try := 0; try < 50; try++ {
				rules, kinds := world.genRules(ra, false)
				bad := false
				for _, k := range kinds {
					if strings.HasSuffix(k, ":malformed") || strings.HasSuffix(k, ":nopkg") || strings.HasSuffix(k, ":noname") ||
						strings.HasSuffix(k, ":builtin") || strings.HasSuffix(k, ":nontype") || k == "GetInterface:type" {
						bad = true
					}
				}
				a.Rules = rules
				if !bad {
					break
				}
			}
			for w := 0; w < 8; w++ {
				var as []int
				for k := 0; k < 3; k++ {
					as = append(as, ra.Intn(len(world.targets)))
				}
				a.Assign = append(a.Assign, as)
			}
			if pi == 2 {
				// the failure path of the once-only engine: exactly one caller must get the load error
				a.Rules = "package gorules\n\nthis is not a rules file\n"
			}
			spec.Adapter = a
		}
		if err := c08RunChild(c, bin, dir, repoDir, &spec, pi, suspects); err != nil {
			return err
		}
	}
	return nil
}

func c08RunChild(c *Ctx, bin, dir, repoDir string, spec *c08Spec, idx int, suspects []string) error {
	res := c.Res
	specPath := filepath.Join(dir, fmt.Sprintf("spec%d.json", idx))
	b, _ := json.Marshal(spec)
	if err := os.WriteFile(specPath, b, 0o644); err != nil {
		return err
	}
	logPrefix := filepath.Join(dir, fmt.Sprintf("race%d", idx))
	limit := 2 * time.Minute
	if c.Thorough {
		limit = 15 * time.Minute
	}
	cctx, cancel := context.WithTimeout(context.Background(), limit)
	defer cancel()
	cmd := exec.CommandContext(cctx, bin, "c08child", specPath)
	cmd.Dir = dir
	cmd.Env = c08Env("GO111MODULE=off", "GOPATH="+spec.GoPath, "GOFLAGS=",
		"GORACE=log_path="+logPrefix+" halt_on_error=0 exitcode=0 history_size=3")
	var stdout, stderr bytes.Buffer
	cmd.Stdout, cmd.Stderr = &stdout, &stderr
	t0 := time.Now()
	runErr := cmd.Run()
	res.Notes = append(res.Notes, fmt.Sprintf("child %d (GOMAXPROCS=%d): %d FT rounds, %d Run rounds, %.1fs", idx, spec.GoMaxProcs, len(spec.FT), len(spec.Runs)+len(spec.Ctx), time.Since(t0).Seconds()))
	// races (also when the child died: the detector usually reports before the runtime gives up)
	logs, _ := filepath.Glob(logPrefix + ".*")
	nRaces := 0
	for _, lp := range logs {
		lb, _ := os.ReadFile(lp)
		for _, r := range c08ParseRaces(string(lb), repoDir) {
			nRaces++
			res.Dist("race-report")
			res.Violate(hx.Violation{Signature: r.Signature, What: "the race detector reported a data race during concurrent Run / FindType calls",
				Input: map[string]interface{}{"seed": c.Seed, "gomaxprocs": spec.GoMaxProcs, "static_suspects": suspects},
				Impl:  r.Text, Spec: "no data races (C08)"})
		}
	}
	if nRaces == 0 {
		res.Dist("race-log:clean")
	}
	if cctx.Err() != nil {
		res.Dist("child:timeout")
		res.Violate(hx.Violation{Signature: "child-timeout", What: "the concurrent child process did not finish (live-lock or blocked goroutines with others spinning)",
			Input: map[string]interface{}{"seed": c.Seed, "gomaxprocs": spec.GoMaxProcs, "static_suspects": suspects},
			Impl:  "killed after " + limit.String(), Spec: "all goroutines complete"})
		return nil
	}
	if runErr != nil {
		sig, head := c08CrashSignature(stderr.String(), repoDir)
		res.Dist("child:crash")
		res.Violate(hx.Violation{Signature: sig, What: "the concurrent child process died (fatal error / deadlock / unrecovered panic)",
			Input: map[string]interface{}{"seed": c.Seed, "gomaxprocs": spec.GoMaxProcs, "static_suspects": suspects},
			Impl:  runErr.Error() + ": " + head, Spec: "all goroutines complete"})
		return nil
	}
	var out c08Out
	if err := json.Unmarshal(stdout.Bytes(), &out); err != nil {
		return fmt.Errorf("child output: %v", err)
	}
	for _, e := range out.Errors {
		res.Errorf("child: %s", e)
	}

	// adapter round
	if a := out.Adapter; a != nil {
		res.Count("adapter", fmt.Sprintf("%d", idx), true)
		if a.Err != "" {
			res.Dist("adapter:setup-error")
			res.Notes = append(res.Notes, "adapter round not run: "+a.Err)
		} else {
			var want, got, diffs []string
			loadErrs := 0
			for w, as := range spec.Adapter.Assign {
				for j, fi := range as {
					g := ""
					if w < len(a.Concurrent) && j < len(a.Concurrent[w]) {
						g = a.Concurrent[w][j]
					}
					if strings.HasPrefix(g, "ERR load rules") {
						// documented behaviour: the first caller reports the load error, everybody else is silent
						loadErrs++
						res.Dist("adapter:load-error")
						g = ""
					}
					want = append(want, a.Sequential[fi])
					got = append(got, g)
					if g != a.Sequential[fi] && len(diffs) < 3 {
						diffs = append(diffs, fmt.Sprintf("worker %d file %s: concurrent=%q sequential=%q", w, spec.Adapter.Files[fi], g, a.Sequential[fi]))
					}
					switch {
					case strings.HasPrefix(g, "ERR"), strings.HasPrefix(g, "PANIC"):
						res.Dist("adapter:error")
					case g == "":
						res.Dist("adapter:no-diagnostic")
					default:
						res.Dist("adapter:diagnostics")
					}
				}
			}
			if loadErrs > 1 {
				res.Violate(hx.Violation{Signature: "analyzer:load-error-reported-more-than-once",
					What:  "several concurrent passes ran newEngine() (the once-only engine was created or failed more than once)",
					Input: map[string]interface{}{"round": spec.Adapter, "gomaxprocs": spec.GoMaxProcs}, Impl: fmt.Sprintf("%d passes returned the load error", loadErrs), Spec: "at most one"})
			}
			ans, err := c.Drv.Ask([]string{fmt.Sprintf("spec08run %s %s", c08Hash(want), c08Hash(got))})
			if err != nil {
				return err
			}
			if ans[0] != "holds" {
				res.Violate(hx.Violation{Signature: "analyzer:concurrent-passes-differ-from-sequential",
					What:  "diagnostics of concurrent analysis passes differ from a sequential pass on the same file",
					Input: map[string]interface{}{"round": spec.Adapter, "diffs": diffs, "gomaxprocs": spec.GoMaxProcs}, Impl: fmt.Sprint(diffs), Spec: "spec08run -> " + ans[0]})
			}
		}
	}

	// FT rounds: model correspondence + executable statement
	var ops, impl, specOps []string
	var inputs []interface{}
	for k, o := range out.FT {
		r := spec.FT[k]
		ids := map[string]int{}
		id := func(s string) int {
			if v, ok := ids[s]; ok {
				return v
			}
			ids[s] = len(ids) + 1
			return ids[s]
		}
		csv := func(xs []int) string {
			if len(xs) == 0 {
				return "-"
			}
			sort.Ints(xs)
			var s []string
			for _, x := range xs {
				s = append(s, fmt.Sprint(x))
			}
			return strings.Join(s, ",")
		}
		builtin := map[string]bool{}
		var before, after, resv []int
		for _, s := range o.Before {
			builtin[s] = true
			before = append(before, id(s))
		}
		var progs, outs, obs []string
		overlap := map[string]int{}
		for t, calls := range o.Calls {
			var p, q []string
			seen := map[string]bool{}
			for _, cl := range calls {
				p = append(p, fmt.Sprintf("%d:%d", id(cl.Fqn), t+1))
				var oid string
				switch {
				case cl.Out == "e":
					oid = "e"
				case cl.Out != "" && cl.Out != "PANIC" && (cl.Out == o.Oracle[cl.Fqn] || builtin[cl.Fqn]):
					oid = fmt.Sprint(id(cl.Fqn))
				default:
					oid = fmt.Sprint(id("<wrong:" + cl.Out + ">"))
				}
				q = append(q, oid)
				obs = append(obs, fmt.Sprintf("%d:%s", id(cl.Fqn), oid))
				if !seen[cl.Fqn] {
					seen[cl.Fqn] = true
					overlap[cl.Fqn]++
				}
			}
			if len(p) == 0 {
				progs, outs = append(progs, "-"), append(outs, "-")
			} else {
				progs, outs = append(progs, strings.Join(p, ",")), append(outs, strings.Join(q, "."))
			}
		}
		for fqn, cls := range o.Oracle {
			if cls != "" && !builtin[fqn] {
				resv = append(resv, id(fqn))
			}
		}
		for _, s := range o.After {
			after = append(after, id(s))
		}
		nontrivial := false
		for _, n := range overlap {
			if n >= 2 {
				nontrivial = true
			}
		}
		variant := "0"
		if c08CompareRecheck {
			variant = "1"
		}
		sched := "rounds"
		if r.Sequential {
			sched = "rr"
		}
		ops = append(ops, fmt.Sprintf("ft %s %s %s %s %s", variant, sched, csv(resv), csv(before), strings.Join(progs, "/")))
		impl = append(impl, fmt.Sprintf("ok %s %s", csv(after), strings.Join(outs, "/")))
		specOps = append(specOps, fmt.Sprintf("spec08cache %s %s %s %s", csv(resv), csv(before), func() string {
			if len(obs) == 0 {
				return "-"
			}
			return strings.Join(obs, ",")
		}(), csv(after)))
		in := map[string]interface{}{"round": r, "calls": o.Calls, "after": o.After, "oracle": o.Oracle, "gomaxprocs": spec.GoMaxProcs}
		inputs = append(inputs, in)
		key, _ := json.Marshal(r)
		res.Count("findtype", string(key), nontrivial)
		for _, cls := range o.Calls {
			for _, cl := range cls {
				switch {
				case cl.Out == "e":
					res.Dist("ft:err")
				case builtin[cl.Fqn]:
					res.Dist("ft:builtin-hit")
				case cl.Out == "PANIC":
					res.Dist("ft:panic")
				default:
					res.Dist("ft:ok")
				}
			}
		}
		if r.Sequential {
			res.Dist("ft-round:sequential")
		} else {
			res.Dist(fmt.Sprintf("ft-round:threads=%d", len(r.Threads)))
		}
		if r.CurrentPkg != "" {
			res.Dist("ft-round:with-current-pkg")
		}
		if len(o.Unstable) > 0 {
			// two calls for one name got different objects: allowed by the code as it stands (no second
			// look-up after Lock), impossible in the repaired variant (theorem findType_pointer_stable)
			res.Dist("ft-round:identity-unstable")
			if c08CompareRecheck {
				res.Disagree(hx.Disagreement{Suite: "findtype", Op: "identity-stable " + strings.Join(o.Unstable, ","),
					Impl: "different objects returned for one name", Model: "stable (repaired variant)", Input: in})
			}
		}
		for _, p := range o.Panics {
			res.Violate(hx.Violation{Signature: "FindType:panic", What: "FindType panicked", Input: in, Impl: p, Spec: "returns a type or an error"})
		}
		// package cache: with no current package every importable package path that was asked for is
		// imported once and cached together with its complete transitive imports
		var pkgIDs = map[string]int{}
		pid := func(s string) int {
			if v, ok := pkgIDs[s]; ok {
				return v
			}
			pkgIDs[s] = len(pkgIDs) + 1
			return pkgIDs[s]
		}
		if r.CurrentPkg == "" {
			var req []int
			var cl []string
			var paths []string
			for p := range o.Closure {
				paths = append(paths, p)
			}
			sort.Strings(paths)
			for _, p := range paths {
				req = append(req, pid(p))
				var ds []string
				for _, d := range o.Closure[p] {
					ds = append(ds, fmt.Sprint(pid(d)))
				}
				cl = append(cl, fmt.Sprintf("%d=%s", pid(p), strings.Join(ds, ".")))
			}
			// only packages whose name part made FindType reach the importer: every FQN with a dot
			var pa []int
			for _, s := range o.PkgAfter {
				pa = append(pa, pid(s))
			}
			clS := "-"
			if len(cl) > 0 {
				clS = strings.Join(cl, ",")
			}
			ops = append(ops, fmt.Sprintf("pkgafter %s %s", clS, csv(req)))
			impl = append(impl, "ok "+csv(pa))
			specOps = append(specOps, "")
			inputs = append(inputs, map[string]interface{}{"round": r, "pkg_after": o.PkgAfter, "closure": o.Closure})
			res.Count("pkgcache", string(key), len(o.PkgAfter) > 0)
		}
	}
	if len(ops) > 0 {
		res.Sample(map[string]interface{}{"op": ops[0], "impl": impl[0]})
		if err := res.Compare(c.Drv, "findtype", ops, impl, inputs); err != nil {
			return err
		}
		var sops []string
		var sidx []int
		for i, s := range specOps {
			if s != "" {
				sops = append(sops, s)
				sidx = append(sidx, i)
			}
		}
		sans, err := c.Drv.Ask(sops)
		if err != nil {
			return err
		}
		for k, a := range sans {
			if a != "holds" {
				i := sidx[k]
				res.Violate(hx.Violation{Signature: "FindType:cache-protocol", What: "outcomes / cache contents of concurrent FindType calls not allowed by the cache statement of C08",
					Input: inputs[i], Impl: impl[i], Spec: sops[k] + " -> " + a})
			}
		}
	}

	// Run rounds
	var rops []string
	var rmeta []map[string]interface{}
	for k, o := range out.Runs {
		r := spec.Runs[k]
		key, _ := json.Marshal(r)
		if o.LoadErr != "" {
			res.Dist("run-round:load-error")
			res.Count("run", string(key), false)
			if len(res.Notes) < 12 {
				res.Notes = append(res.Notes, "generated rules did not load: "+o.LoadErr)
			}
			continue
		}
		shared := map[int]int{}
		for _, a := range r.Assign {
			seen := map[int]bool{}
			for _, fi := range a {
				if !seen[fi] {
					seen[fi] = true
					shared[fi]++
				}
			}
		}
		nontrivial := false
		for _, n := range shared {
			if n >= 2 {
				nontrivial = true
			}
		}
		suite, sigSuffix := "run", ""
		var narrow interface{}
		if len(r.Pkgs) > 0 {
			// typeid round: non-trivial when two different files of packages with one path are analysed on the engine
			suite, nontrivial = "run-typeid", false
			pathOf := map[int]string{}
			fi := 0
			for _, p := range r.Pkgs {
				for range p.Targets {
					pathOf[fi] = p.Path
					fi++
				}
			}
			used := map[string]map[int]bool{}
			for _, a := range r.Assign {
				for _, fi := range a {
					if used[pathOf[fi]] == nil {
						used[pathOf[fi]] = map[int]bool{}
					}
					used[pathOf[fi]][fi] = true
				}
			}
			for _, fs := range used {
				if len(fs) >= 2 {
					nontrivial = true
				}
			}
			paths := map[string]int{}
			for _, p := range r.Pkgs {
				paths[p.Path]++
			}
			for _, n := range paths {
				if n >= 2 {
					res.Dist("run-typeid:packages-sharing-a-path")
					break
				}
			}
			res.Dist(fmt.Sprintf("run-typeid:files=%d", len(r.Files)))
			if o.Narrow != nil {
				sigSuffix, narrow = ":"+o.Narrow.Kinds, o.Narrow
			} else {
				// no sequential single-rule replay: name the rules whose reports differ
				var ids []int
				for fi := range r.Files {
					ids = append(ids, tidDiffRules(strings.Split(o.Baseline[fi], " | "), strings.Split(o.WarmAfter[fi], " | "))...)
				}
				for w, a := range r.Assign {
					for j, fi := range a {
						if w < len(o.Workers) && j < len(o.Workers[w]) {
							ids = append(ids, tidDiffRules(strings.Split(o.Baseline[fi], " | "), strings.Split(o.Workers[w][j], " | "))...)
						}
					}
				}
				if len(ids) > 0 {
					sort.Ints(ids)
					sigSuffix = ":" + strings.Join(r.TidRules[ids[0]].Kinds, "+")
					narrow = map[string]interface{}{"first_differing_rule": r.TidRules[ids[0]].Text}
				}
			}
		}
		res.Count(suite, string(key), nontrivial)
		res.Dist("run-round:state=" + r.StateMode)
		res.Dist(fmt.Sprintf("run-round:workers=%d", len(r.Assign)))
		for _, kd := range r.Kinds {
			res.Dist("filter:" + kd)
		}
		for _, bl := range o.Baseline {
			switch {
			case strings.HasPrefix(bl, "PANIC"):
				res.Dist("baseline:panic")
			case bl == "":
				res.Dist("baseline:no-report")
			default:
				res.Dist("baseline:reports")
			}
		}
		var want, got []string
		var diffs []string
		for w, a := range r.Assign {
			for j, fi := range a {
				want = append(want, o.Baseline[fi])
				g := ""
				if w < len(o.Workers) && j < len(o.Workers[w]) {
					g = o.Workers[w][j]
				}
				got = append(got, g)
				if g != o.Baseline[fi] && len(diffs) < 3 {
					diffs = append(diffs, fmt.Sprintf("worker %d file %s: concurrent=%q sequential=%q", w, r.Files[fi], g, o.Baseline[fi]))
				}
			}
		}
		var wantW, gotW []string
		var diffsW []string
		for fi := range r.Files {
			wantW = append(wantW, o.Baseline[fi])
			gotW = append(gotW, o.WarmAfter[fi])
			if o.WarmAfter[fi] != o.Baseline[fi] && len(diffsW) < 3 {
				diffsW = append(diffsW, fmt.Sprintf("file %s: warm=%q cold=%q", r.Files[fi], o.WarmAfter[fi], o.Baseline[fi]))
			}
		}
		rops = append(rops, fmt.Sprintf("spec08run %s %s", c08Hash(want), c08Hash(got)))
		rmeta = append(rmeta, map[string]interface{}{"sig": "Run:concurrent-differs-from-sequential" + sigSuffix, "round": r, "diffs": diffs, "gomaxprocs": spec.GoMaxProcs, "narrowed": narrow})
		rops = append(rops, fmt.Sprintf("spec08run %s %s", c08Hash(wantW), c08Hash(gotW)))
		rmeta = append(rmeta, map[string]interface{}{"sig": "Run:warm-cache-differs-from-cold" + sigSuffix, "round": r, "diffs": diffsW, "gomaxprocs": spec.GoMaxProcs, "narrowed": narrow})
	}
	if len(rops) > 0 {
		rans, err := c.Drv.Ask(rops)
		if err != nil {
			return err
		}
		for i, a := range rans {
			if a != "holds" {
				m := rmeta[i]
				res.Violate(hx.Violation{Signature: m["sig"].(string), What: "reports of a Run call depend on what other Run calls did to the shared engine",
					Input: m, Impl: fmt.Sprint(m["diffs"]), Spec: rops[i] + " -> " + a})
			}
		}
		res.Sample(map[string]interface{}{"op": rops[0], "answer": rans[0]})
	}
	return c08EvalCtx(c, spec, out.Ctx)
}
