package main

// Generator of type-rich Go sources for C14 / C10: three packages (two of them with the same
// package name and the same declarations under different import paths) plus randomly generated
// variable declarations whose types are built from a small grammar, each base type followed by
// variants: an identical copy, a copy that differs only in spelling (aliases, byte/uint8, method
// order), and near misses (one node changed: package of a named type, type argument, tag, field name
// or case, embeddedness, array length, channel direction, variadic flag, method name, ...).

import (
	"fmt"
	"go/ast"
	"go/parser"
	"go/token"
	"go/types"
	"math/rand"
	"os"
	"regexp"
	"sort"
	"strings"
)

type tx struct {
	k     string // basic named gen ptr slice array map chan func struct iface tparam
	s     string // basic: name; named: qualified name; gen: generic type name; tparam: name
	n     int    // array: length; chan: direction (0 both, 1 send, 2 recv); func: number of params
	v     bool   // func: variadic
	a     []*tx  // children (gen: type arguments; func: params then results; map: key, elem)
	f     []txField
	m     []txMeth
	fixed bool // do not mutate (map keys, comparable type arguments, embedded fields' types)
}

type txField struct {
	name string // "" = embedded
	tag  string
	t    *tx
}

type txMeth struct {
	name string
	sig  *tx
}

func (t *tx) clone() *tx {
	c := *t
	c.a = make([]*tx, len(t.a))
	for i, x := range t.a {
		c.a[i] = x.clone()
	}
	c.f = make([]txField, len(t.f))
	for i, x := range t.f {
		c.f[i] = txField{x.name, x.tag, x.t.clone()}
	}
	c.m = make([]txMeth, len(t.m))
	for i, x := range t.m {
		c.m[i] = txMeth{x.name, x.sig.clone()}
	}
	return &c
}

func (t *tx) sigText() string {
	var sb strings.Builder
	sb.WriteString("(")
	for i := 0; i < t.n; i++ {
		if i > 0 {
			sb.WriteString(", ")
		}
		if t.v && i == t.n-1 {
			sb.WriteString("..." + t.a[i].String())
		} else {
			sb.WriteString(t.a[i].String())
		}
	}
	sb.WriteString(")")
	res := t.a[t.n:]
	switch len(res) {
	case 0:
	case 1:
		sb.WriteString(" " + res[0].String())
	default:
		sb.WriteString(" (")
		for i, r := range res {
			if i > 0 {
				sb.WriteString(", ")
			}
			sb.WriteString(r.String())
		}
		sb.WriteString(")")
	}
	return sb.String()
}

func (t *tx) String() string {
	switch t.k {
	case "basic", "named", "tparam":
		return t.s
	case "gen":
		parts := make([]string, len(t.a))
		for i, x := range t.a {
			parts[i] = x.String()
		}
		return t.s + "[" + strings.Join(parts, ", ") + "]"
	case "ptr":
		return "*" + t.a[0].String()
	case "slice":
		return "[]" + t.a[0].String()
	case "array":
		return fmt.Sprintf("[%d]%s", t.n, t.a[0].String())
	case "map":
		return "map[" + t.a[0].String() + "]" + t.a[1].String()
	case "chan":
		switch t.n {
		case 1:
			return "chan<- " + t.a[0].String()
		case 2:
			return "<-chan " + t.a[0].String()
		}
		return "chan (" + t.a[0].String() + ")"
	case "func":
		return "func" + t.sigText()
	case "struct":
		var sb strings.Builder
		sb.WriteString("struct{")
		for i, f := range t.f {
			if i > 0 {
				sb.WriteString("; ")
			}
			if f.name != "" {
				sb.WriteString(f.name + " ")
			}
			sb.WriteString(f.t.String())
			if f.tag != "" {
				fmt.Fprintf(&sb, " %q", f.tag)
			}
		}
		sb.WriteString("}")
		return sb.String()
	case "iface":
		var sb strings.Builder
		sb.WriteString("interface{")
		for i, m := range t.m {
			if i > 0 {
				sb.WriteString("; ")
			}
			sb.WriteString(m.name + m.sig.sigText())
		}
		sb.WriteString("}")
		return sb.String()
	}
	panic("tx kind " + t.k)
}

// name pools -------------------------------------------------------------------------------------

var (
	tgBasics = []string{"bool", "int", "int8", "int32", "int64", "uint", "uint8", "uint32", "uintptr", "float64",
		"complex128", "string", "byte", "rune", "unsafe.Pointer"}
	// classes of named types inside which a swap keeps the source valid in every position used
	tgStructish = []string{"atmpl.Template", "btmpl.Template", "Template", "ATmpl", "Tree", "vtmpl.Template"}
	tgIntish    = []string{"atmpl.Option", "btmpl.Option", "MyInt", "AInt", "int", "Option", "vtmpl.Option"}
	tgIfaceish  = []string{"error", "Node", "Stringer", "any", "atmpl.Iface", "btmpl.Iface", "interface{}"}
	tgGenerics  = []string{"Box", "atmpl.Box", "btmpl.Box"}
	tgKeys      = []string{"int", "string", "MyInt", "atmpl.Option", "btmpl.Option", "AInt", "uint8", "byte", "Option"}
	// spelling-only substitutions (identical types)
	tgSynonyms = map[string]string{"int": "AInt", "AInt": "int", "byte": "uint8", "uint8": "byte", "rune": "int32",
		"int32": "rune", "any": "interface{}", "interface{}": "any", "atmpl.Template": "ATmpl", "ATmpl": "atmpl.Template"}
	tgFieldNames  = []string{"F0", "F1", "f0", "f1", "Name", "name", "X", "x"}
	tgMethodNames = []string{"M0", "M1", "m0", "m1", "String", "Exec", "exec"}
	tgTags        = []string{"", "", `json:"a"`, `json:"b"`}
)

type tgen struct {
	r       *rand.Rand
	tparams []string // type parameter names usable in this context
}

func pick(r *rand.Rand, xs []string) string { return xs[r.Intn(len(xs))] }

func (g *tgen) key() *tx {
	if len(g.tparams) > 0 && g.r.Intn(4) == 0 {
		return &tx{k: "tparam", s: "U", fixed: true} // U is constrained by Number: comparable
	}
	s := pick(g.r, tgKeys)
	return &tx{k: "named", s: s, fixed: true}
}

func (g *tgen) leaf() *tx {
	switch g.r.Intn(8) {
	case 0, 1:
		return &tx{k: "basic", s: pick(g.r, tgBasics)}
	case 2, 3:
		return &tx{k: "named", s: pick(g.r, tgStructish)}
	case 4:
		return &tx{k: "named", s: pick(g.r, tgIntish)}
	case 5:
		return &tx{k: "named", s: pick(g.r, tgIfaceish)}
	case 6:
		if len(g.tparams) > 0 {
			return &tx{k: "tparam", s: pick(g.r, g.tparams)}
		}
		return &tx{k: "named", s: pick(g.r, tgStructish)}
	default:
		return &tx{k: "gen", s: pick(g.r, tgGenerics), a: []*tx{g.leaf0()}}
	}
}

func (g *tgen) leaf0() *tx {
	if g.r.Intn(2) == 0 {
		return &tx{k: "basic", s: pick(g.r, tgBasics)}
	}
	return &tx{k: "named", s: pick(g.r, append(append([]string{}, tgStructish...), tgIntish...))}
}

func (g *tgen) sig(d int) *tx {
	np := g.r.Intn(4)
	nr := g.r.Intn(3)
	t := &tx{k: "func", n: np}
	for i := 0; i < np+nr; i++ {
		t.a = append(t.a, g.typ(d-1))
	}
	if np > 0 && g.r.Intn(3) == 0 {
		t.v = true
	}
	return t
}

func (g *tgen) typ(d int) *tx {
	if d <= 0 {
		return g.leaf()
	}
	switch g.r.Intn(12) {
	case 0, 1:
		return g.leaf()
	case 2:
		if g.r.Intn(4) == 0 {
			return &tx{k: "ptr", a: []*tx{g.arr(d)}}
		}
		return &tx{k: "ptr", a: []*tx{g.typ(d - 1)}}
	case 3:
		if g.r.Intn(6) == 0 {
			return &tx{k: "slice", a: []*tx{g.arr(d)}}
		}
		return &tx{k: "slice", a: []*tx{g.typ(d - 1)}}
	case 4:
		return g.arr(d)
	case 5:
		return &tx{k: "map", a: []*tx{g.key(), g.typ(d - 1)}}
	case 6:
		return &tx{k: "chan", n: g.r.Intn(3), a: []*tx{g.typ(d - 1)}}
	case 7:
		return g.sig(d)
	case 8, 9:
		t := &tx{k: "struct"}
		nf := g.r.Intn(4)
		used := map[string]bool{}
		for i := 0; i < nf; i++ {
			if i == 0 && g.r.Intn(4) == 0 {
				// one embedded field at most (names of embedded fields must not clash)
				et := &tx{k: "named", s: pick(g.r, tgStructish[:5]), fixed: false}
				t.f = append(t.f, txField{"", pick(g.r, tgTags), et})
				continue
			}
			name := pick(g.r, tgFieldNames)
			if used[name] {
				continue
			}
			used[name] = true
			t.f = append(t.f, txField{name, pick(g.r, tgTags), g.typ(d - 1)})
		}
		return t
	case 10:
		t := &tx{k: "iface"}
		nm := g.r.Intn(3)
		used := map[string]bool{}
		for i := 0; i < nm; i++ {
			name := pick(g.r, tgMethodNames)
			if used[name] {
				continue
			}
			used[name] = true
			t.m = append(t.m, txMeth{name, g.sig(d - 1)})
		}
		return t
	default:
		if g.r.Intn(2) == 0 {
			return &tx{k: "gen", s: "Pair", a: []*tx{g.key(), g.typ(d - 1)}}
		}
		return &tx{k: "gen", s: pick(g.r, tgGenerics), a: []*tx{g.typ(d - 1)}}
	}
}

// tgArrayLens: the lengths generated arrays take; zero-length arrays are a class of their own (a length
// of 0 is a known length, not the "unknown length" sentinel of go/types, which is negative).
var tgArrayLens = []int{0, 0, 1, 2, 3, 3, 8}

func (g *tgen) arrLen() int { return tgArrayLens[g.r.Intn(len(tgArrayLens))] }

// arr generates an array type; one in three is an array of arrays (any mix of zero and non-zero lengths).
func (g *tgen) arr(d int) *tx {
	if g.r.Intn(3) == 0 {
		inner := &tx{k: "array", n: g.arrLen(), a: []*tx{g.typ(d - 2)}}
		return &tx{k: "array", n: g.arrLen(), a: []*tx{inner}}
	}
	return &tx{k: "array", n: g.arrLen(), a: []*tx{g.typ(d - 1)}}
}

// cmp generates a comparable type (usable as a map key): arrays of / pointers to arrays of key types.
func (g *tgen) cmp(d int) *tx {
	if d <= 0 {
		return g.key()
	}
	switch g.r.Intn(5) {
	case 0:
		return g.key()
	case 1:
		return &tx{k: "ptr", fixed: true, a: []*tx{g.arr(1)}}
	default:
		return &tx{k: "array", n: g.arrLen(), a: []*tx{g.cmp(d - 1)}}
	}
}

func (t *tx) nodes(out *[]*tx) {
	*out = append(*out, t)
	for _, x := range t.a {
		x.nodes(out)
	}
	for _, x := range t.f {
		x.t.nodes(out)
	}
	for _, x := range t.m {
		x.sig.nodes(out)
	}
}

func c14ClassOf(s string) []string {
	for _, c := range [][]string{tgStructish, tgIntish, tgIfaceish} {
		for _, x := range c {
			if x == s {
				return c
			}
		}
	}
	return nil
}

// embeddedOK: names that may be embedded next to any other generated field
var tgEmbeddable = tgStructish[:5]

// mutate changes one node of t in place; harmless = spelling only (the type stays identical).
// Returns a label of the change or "" when nothing applicable was found.
func (g *tgen) mutate(t *tx, harmless bool) string {
	var ns []*tx
	t.nodes(&ns)
	for try := 0; try < 20; try++ {
		n := ns[g.r.Intn(len(ns))]
		if harmless {
			switch n.k {
			case "basic", "named":
				if s, ok := tgSynonyms[n.s]; ok {
					n.k = "named"
					if s == "byte" || s == "uint8" || s == "rune" || s == "int32" || s == "int" {
						n.k = "basic"
					}
					n.s = s
					return "synonym"
				}
			case "iface":
				if len(n.m) >= 2 {
					n.m[0], n.m[1] = n.m[1], n.m[0]
					return "method-order"
				}
			}
			continue
		}
		switch n.k {
		case "basic":
			if n.fixed {
				continue
			}
			o := pick(g.r, tgBasics)
			if o != n.s {
				n.s = o
				return "basic"
			}
		case "named":
			c := c14ClassOf(n.s)
			if n.fixed {
				c = tgKeys
			}
			if c == nil {
				continue
			}
			o := pick(g.r, c)
			if o != n.s {
				n.s = o
				return "named-swap"
			}
		case "gen":
			if n.s == "Pair" {
				continue
			}
			o := pick(g.r, tgGenerics)
			if o != n.s {
				n.s = o
				return "generic-swap"
			}
		case "array":
			// another known length: to or from zero half of the time, else one more
			switch {
			case n.n != 0 && g.r.Intn(2) == 0:
				n.n = 0
				return "array-len-to-zero"
			case n.n == 0:
				n.n = []int{1, 2, 8}[g.r.Intn(3)]
				return "array-len-from-zero"
			}
			n.n++
			return "array-len"
		case "chan":
			n.n = (n.n + 1 + g.r.Intn(2)) % 3
			return "chan-dir"
		case "func":
			switch g.r.Intn(3) {
			case 0:
				if n.n > 0 {
					if n.v {
						// `...T` -> `[]T`
						n.a[n.n-1] = &tx{k: "slice", a: []*tx{n.a[n.n-1]}}
						n.v = false
						return "variadic-off"
					}
					if n.a[n.n-1].k == "slice" {
						n.a[n.n-1] = n.a[n.n-1].a[0]
						n.v = true
						return "variadic-on"
					}
				}
			case 1:
				if n.n >= 2 && !n.v {
					n.a[0], n.a[1] = n.a[1], n.a[0]
					return "param-order"
				}
			default:
				if len(n.a) > n.n {
					// a result becomes a parameter
					if !n.v {
						n.n++
						return "result-to-param"
					}
				}
			}
		case "struct":
			if len(n.f) == 0 {
				continue
			}
			i := g.r.Intn(len(n.f))
			f := &n.f[i]
			switch g.r.Intn(5) {
			case 0:
				if f.tag == `json:"a"` {
					f.tag = `json:"b"`
				} else {
					f.tag = `json:"a"`
				}
				return "tag"
			case 1:
				if f.name != "" {
					// flip the case of the first letter
					c := f.name[0]
					var nn string
					if c >= 'a' && c <= 'z' {
						nn = string(c-32) + f.name[1:]
					} else {
						nn = string(c+32) + f.name[1:]
					}
					clash := false
					for _, o := range n.f {
						if o.name == nn {
							clash = true
						}
					}
					if !clash {
						f.name = nn
						return "field-case"
					}
				}
			case 2:
				if f.name != "" {
					f.name = "Zz"
					for _, o := range n.f[:i] {
						if o.name == "Zz" {
							f.name = "Zy"
						}
					}
					return "field-name"
				}
			case 3:
				if f.name == "" {
					// embedded T -> named field T (same name, not embedded)
					nm := f.t.s
					if j := strings.LastIndex(nm, "."); j >= 0 {
						nm = nm[j+1:]
					}
					f.name = nm
					return "embedded-off"
				}
			default:
				if len(n.f) >= 2 {
					j := (i + 1) % len(n.f)
					n.f[i], n.f[j] = n.f[j], n.f[i]
					return "field-order"
				}
			}
		case "iface":
			if len(n.m) == 0 {
				n.m = append(n.m, txMeth{"Mx", &tx{k: "func"}})
				return "method-add"
			}
			i := g.r.Intn(len(n.m))
			switch g.r.Intn(2) {
			case 0:
				nn := n.m[i].name
				c := nn[0]
				if c >= 'a' && c <= 'z' {
					nn = string(c-32) + nn[1:]
				} else {
					nn = string(c+32) + nn[1:]
				}
				clash := false
				for _, o := range n.m {
					if o.name == nn {
						clash = true
					}
				}
				if !clash {
					n.m[i].name = nn
					return "method-case"
				}
			default:
				n.m[i].sig.a = append([]*tx{{k: "basic", s: "int"}}, n.m[i].sig.a...)
				n.m[i].sig.n++
				return "method-sig"
			}
		case "ptr", "slice":
			if n.fixed {
				continue
			}
			if g.r.Intn(2) == 0 {
				if n.k == "ptr" {
					n.k = "slice"
				} else {
					n.k = "ptr"
				}
				return "ctor"
			}
		}
	}
	return ""
}

// sources ----------------------------------------------------------------------------------------

const c14ExtSrc = `package tmpl

type Template struct {
	Name string
	priv int
}

type Option int

type lower struct{ X int }

type Lower = lower

type Iface interface {
	Exec(*Template) error
	hidden()
}

type Box[T any] struct{ V T }

var Anon struct {
	x int
	Y string
}

var AnonI interface {
	m() int
	M()
}

var AnonF func(lower, *Template) Option

func New() lower { return lower{} }

func (*Template) Exec(*Template) error { return nil }
func (*Template) hidden()               {}
`

const c14MainHead = `package p

import (
	"unsafe"

	atmpl "ext/alpha/tmpl"
	btmpl "ext/beta/tmpl"
	vtmpl "example.com/m/vendor/ext/alpha/tmpl"
)

var _ unsafe.Pointer

type Template struct {
	Name string
	priv int
}

type Option int

type Box[T any] struct{ V T }

type Pair[K comparable, V any] struct {
	Key K
	Val V
}

type Node interface {
	Next() Node
	Val() int
}

type Stringer interface{ String() string }

type Tree struct {
	L, R *Tree
	kids []Tree
}

type MyInt int

type AInt = int
type ATmpl = atmpl.Template
type ABoxInt = Box[int]
type AAInt = AInt

type Number interface {
	~int | ~int64 | float64
}

type Str interface {
	~string
	String() string
}

type Cmp interface {
	comparable
	M0()
}

type IExecA interface{ Exec(*atmpl.Template) error }
type IExecB interface{ Exec(*btmpl.Template) error }
type IBoxI interface{ Get() Box[int] }
type IBoxS interface{ Get() Box[string] }
type Ihid interface{ hidden() }

type ExecA struct{}
type ExecB struct{}
type PtrRecv struct{}
type WithField struct{ Exec func(*atmpl.Template) error }
type EmbA struct{ atmpl.Template }
type GetI struct{}
type GetS struct{}

func (ExecA) Exec(*atmpl.Template) error  { return nil }
func (ExecB) Exec(*btmpl.Template) error  { return nil }
func (*PtrRecv) Exec(*atmpl.Template) error { return nil }
func (GetI) Get() Box[int]                 { return Box[int]{} }
func (GetS) Get() Box[string]              { return Box[string]{} }
func (MyInt) String() string               { return "" }
func (MyInt) M0()                          {}
func (*Tree) Next() Node                   { return nil }
func (*Tree) Val() int                     { return 0 }
func (b Box[T]) Get() T {
	var m0 []T
	var m1 Box[T]
	_, _ = m0, m1
	return b.V
}

var (
	k0  atmpl.Template
	k1  btmpl.Template
	k2  Template
	k3  = atmpl.Anon
	k4  = btmpl.Anon
	k5  = atmpl.AnonI
	k6  = btmpl.AnonI
	k7  = atmpl.New()
	k8  = btmpl.New()
	k9  atmpl.Lower
	k10 Box[int]
	k11 Box[string]
	k12 ABoxInt
	k13 AInt
	k14 AAInt
	k15 int
	k16 Node
	k17 error
	k18 any
	k19 interface{}
	k20 Number2
	k21 = atmpl.AnonF
	k22 = btmpl.AnonF
	k23 Pair[string, Box[int]]
	k24 Pair[string, Box[uint]]
	k25 vtmpl.Template
	k26 struct {
		atmpl.Template
		X int
	}
	k27 struct {
		btmpl.Template
		X int
	}
	k28 IExecA
	k29 IExecB
	k30 ExecA
	k31 ExecB
	k32 *PtrRecv
	k33 PtrRecv
	k34 WithField
	k35 EmbA
	k36 *EmbA
	k37 IBoxI
	k38 IBoxS
	k39 GetI
	k40 GetS
	k41 MyInt
	k42 *Tree
	k43 Stringer
	k44 Ihid
	k45 atmpl.Iface
	k46 *atmpl.Template
	k47 [2]func(...int) (string, error)
	k48 [2]func([]int) (string, error)
	k49 unsafe.Pointer
	k50 struct {
		A int "json:\"a\""
	}
	k51 struct {
		A int "json:\"b\""
	}
	k52 struct{ A int }
	k53 map[string]atmpl.Template
	k54 map[string]btmpl.Template
	k55 map[string]ATmpl
	k56 chan<- atmpl.Option
	k57 chan<- btmpl.Option
	k58 <-chan atmpl.Option
	k59 struct{ a int }
	k60 [3]AInt
	k61 [3]int
	k62 [4]int
	k63 func(AInt) ATmpl
	k64 func(int) atmpl.Template
	k65 interface{ M(AInt) }
	k66 interface{ M(int) }
	k67 *AInt
	k68 *int
	k69 Box[AInt]
	k70 struct{ A, a int }
	k71 struct{ a, A int }
	k72 func(int, ...string)
	k73 func(int, []string)
	k74 struct{ Tree }
	k75 struct{ Tree Tree }
	k76 func(int, int)
	k77 func(int, string, string)
	k78 struct {
		A map[string]string
		B map[bool]int
		C bool
	}
	k79 func(string, int)
	k80 struct {
		A int
		B string
		C int
	}
	k81 [2]func(...int) (string, error)
	k82 map[atmpl.Option]btmpl.Option
	k83 map[atmpl.Option]atmpl.Option
	k84 [4][4]int
	k85 [3][4]int
	k86 func(map[string]string, map[bool]int, bool)
	k87 func(map[string]int, string)
	k88 map[AInt]int
	k89 map[int]AInt
	// zero-length arrays (a known length, unlike the negative "unknown length" of go/types), alone, nested,
	// behind pointers and slices, and at the two positions a repeated pattern variable compares
	k90  [0]int
	k91  [0]AInt
	k92  [1]int
	k93  [0]string
	k94  [0][4]int
	k95  [4][0]int
	k96  [0][0]int
	k97  *[0]int
	k98  *[3]int
	k99  [][0]int
	k100 func([0]byte, [8]byte)
	k101 func([8]byte, [8]byte)
	k102 func([0]byte, [0]uint8)
	k103 map[[0]byte][16]byte
	k104 map[[16]byte][16]byte
	k105 struct {
		A [4]int
		B [0]int
	}
	k106 []func(*[0]int) *[3]int
	k107 [0]struct{}
	k108 [2][0]int
	k109 map[*[0]int]*[0]int
	// structs that differ only in embedding a type or an alias of it (the field is named after what is written)
	k110 struct{ Tree }
	k111 struct{ ATree }
	k112 struct{ *Tree }
	k113 struct{ *ATree }
	k114 struct {
		Tree
		n int
	}
	k115 struct {
		ATree
		n int
	}
)

type ATree = Tree

type Number2 interface{ M0() }

// anonymous interfaces recurring through their own method signatures (the ifacePair stack of xtypes)
type Cyc1 interface{ M() interface{ Cyc1 } }
type Cyc2 interface{ M() interface{ Cyc2 } }

var (
	kc1 interface{ Cyc1 }
	kc2 interface{ Cyc2 }
	kc3 interface{ M() interface{ Cyc1 } }
)

func localA() {
	type T struct{ A int }
	type u int
	type Template struct{ Name string }
	var la0 T
	var la1 u
	var la2 Template
	var la3 []T
	_, _, _, _ = la0, la1, la2, la3
}

func localB() {
	type T struct{ A int }
	type u int
	type Template struct{ Name string }
	var lb0 T
	var lb1 u
	var lb2 Template
	var lb3 []T
	_, _, _, _ = lb0, lb1, lb2, lb3
}

func GenC[T Number, S Str, C Cmp](T, S, C) {}
`

// c14LastKernelVar: k0 … k<n> are the hand-written declarations of c14MainHead.
const c14LastKernelVar = 109

// c14Call is one call of the end-to-end section of the main file (one per line).
type c14Call struct {
	Line int
	Kind string // same | implS | implE
	A, B string // variable names
}

// c14Sources returns path -> file text for one group, the labels of the generated declarations and
// the calls of the end-to-end section.
func c14Sources(r *rand.Rand, nBase int, e2eVars int) (map[string]string, map[string]string, []c14Call) {
	srcs, labels, calls, _ := c14SourcesTx(r, nBase, e2eVars)
	return srcs, labels, calls
}

// c14Group1 is one base type expression and the names of the variables declared from it and its variants.
type c14Base struct {
	Tx   *tx
	Vars []string
}

func c14SourcesTx(r *rand.Rand, nBase int, e2eVars int) (map[string]string, map[string]string, []c14Call, []c14Base) {
	var bases []c14Base
	labels := map[string]string{}
	var sb strings.Builder
	sb.WriteString(c14MainHead)
	g := &tgen{r: r}
	vi := 0
	emit := func(sb *strings.Builder, prefix string, t *tx, label string, indent string) {
		name := fmt.Sprintf("%s%d", prefix, vi)
		vi++
		labels[name] = label
		if prefix == "v" {
			if label == "base" {
				bases = append(bases, c14Base{Tx: t})
			}
			bases[len(bases)-1].Vars = append(bases[len(bases)-1].Vars, name)
		}
		fmt.Fprintf(sb, "%svar %s %s\n", indent, name, t.String())
		if indent != "" {
			fmt.Fprintf(sb, "%s_ = %s\n", indent, name)
		}
	}
	group := func(sb *strings.Builder, prefix, indent string, g *tgen, n int) {
		for i := 0; i < n; i++ {
			base := g.typ(2 + g.r.Intn(2))
			emit(sb, prefix, base, "base", indent)
			emit(sb, prefix, base.clone(), "copy", indent)
			h := base.clone()
			if l := g.mutate(h, true); l != "" {
				emit(sb, prefix, h, "same:"+l, indent)
			}
			for k := 0; k < 2; k++ {
				m := base.clone()
				if l := g.mutate(m, false); l != "" {
					emit(sb, prefix, m, "near:"+l, indent)
				}
			}
		}
	}
	group(&sb, "v", "", g, nBase)
	// twins: one declaration holding a type and a copy / respelt copy / near miss of it at two positions
	// (what a repeated pattern variable, a map[K]K or an IdenticalTo filter compares), biased to arrays
	// (zero and non-zero lengths, arrays of arrays, pointers to arrays) and comparable types
	for i := 0; i < nBase+4; i++ {
		var a *tx
		comparable := false
		switch g.r.Intn(3) {
		case 0:
			a, comparable = g.cmp(2), true
		case 1:
			a = g.arr(2)
		default:
			a = g.typ(1 + g.r.Intn(2))
		}
		b, label := a.clone(), "copy"
		switch g.r.Intn(4) {
		case 0:
		case 1:
			if l := g.mutate(b, true); l != "" {
				label = "same:" + l
			}
		default:
			if l := g.mutate(b, false); l != "" {
				label = "near:" + l
			}
		}
		if g.r.Intn(2) == 0 {
			a, b = b, a
		}
		var t *tx
		shape := g.r.Intn(7)
		if shape == 0 && !comparable {
			shape = 1 + g.r.Intn(6)
		}
		switch shape {
		case 0:
			t = &tx{k: "map", a: []*tx{a, b}}
		case 1:
			t = &tx{k: "func", n: 2, a: []*tx{a, b}}
		case 2:
			t = &tx{k: "func", n: 1, a: []*tx{a, b}}
		case 3:
			t = &tx{k: "struct", f: []txField{{"F0", "", a}, {"F1", "", b}}}
		case 4:
			t = &tx{k: "slice", a: []*tx{{k: "func", n: 1, a: []*tx{a, b}}}}
		case 5:
			t = &tx{k: "func", n: 4, a: []*tx{{k: "basic", s: "int"}, a, {k: "basic", s: "string"}, b}}
		default:
			t = &tx{k: "ptr", a: []*tx{{k: "struct", f: []txField{{"X", "", a}, {"Y", "", b}}}}}
		}
		emit(&sb, "w", t, "twin:"+label, "")
	}
	// two generic functions with identical signatures and bodies: the same spelling denotes
	// different type parameters
	gg := &tgen{r: r, tparams: []string{"T", "U"}}
	var body strings.Builder
	group(&body, "g", "\t", gg, 1+nBase/4)
	body1 := body.String()
	body2 := regexp.MustCompile(`\bg(\d+)\b`).ReplaceAllString(body1, "h$1")
	for name, l := range labels {
		if strings.HasPrefix(name, "g") {
			labels["h"+name[1:]] = l
		}
	}
	sigT := gg.typ(1)
	fmt.Fprintf(&sb, "\nfunc Gen1[T any, U Number](x T, y U, z %s) (T, error) {\n%s\tvar zero T\n\treturn zero, nil\n}\n", sigT.String(), body1)
	fmt.Fprintf(&sb, "\nfunc Gen2[T any, U Number](x T, y U, z %s) (T, error) {\n%s\tvar zero T\n\treturn zero, nil\n}\n", sigT.String(), body2)
	fmt.Fprintf(&sb, "\nfunc Gen3[T any, U Number](x T, y U) (U, error) {\n\tvar zero U\n\treturn zero, nil\n}\n")
	// end-to-end section: one call per line, over the package-level variables
	var pvars []string
	for i := 0; i <= c14LastKernelVar; i++ {
		pvars = append(pvars, fmt.Sprintf("k%d", i))
	}
	for i := 0; i < vi; i++ {
		for _, pfx := range []string{"v", "w"} {
			if _, ok := labels[fmt.Sprintf("%s%d", pfx, i)]; ok {
				pvars = append(pvars, fmt.Sprintf("%s%d", pfx, i))
			}
		}
	}
	if len(pvars) > e2eVars {
		r.Shuffle(len(pvars), func(a, b int) { pvars[a], pvars[b] = pvars[b], pvars[a] })
		pvars = pvars[:e2eVars]
		sort.Strings(pvars)
	}
	var calls []c14Call
	sb.WriteString("\nfunc same(a, b interface{}) {}\nfunc implS(a interface{}) {}\nfunc implE(a interface{}) {}\n\nfunc e2e() {\n")
	line := strings.Count(sb.String(), "\n") + 1
	for _, a := range pvars {
		fmt.Fprintf(&sb, "\timplS(%s)\n\timplE(%s)\n", a, a)
		calls = append(calls, c14Call{line, "implS", a, ""}, c14Call{line + 1, "implE", a, ""})
		line += 2
		for _, b := range pvars {
			fmt.Fprintf(&sb, "\tsame(%s, %s)\n", a, b)
			calls = append(calls, c14Call{line, "same", a, b})
			line++
		}
	}
	sb.WriteString("}\n")
	src := sb.String()
	return calls2(map[string]string{
		"ext/alpha/tmpl":                      c14ExtSrc,
		"ext/beta/tmpl":                       c14ExtSrc,
		"example.com/m/vendor/ext/alpha/tmpl": c14ExtSrc,
		"example.com/m/p":                     src,
	}), labels, calls, bases
}

func calls2(m map[string]string) map[string]string { return m }

// type-checking ----------------------------------------------------------------------------------

type c14Session struct {
	U     int
	Fset  *token.FileSet
	Pkgs  map[string]*types.Package
	Files map[string]*ast.File
	Info  *types.Info // of the main package
	Main  *types.Package
}

type mapImporter map[string]*types.Package

func (m mapImporter) Import(path string) (*types.Package, error) {
	if path == "unsafe" {
		return types.Unsafe, nil
	}
	if p, ok := m[path]; ok {
		return p, nil
	}
	return nil, fmt.Errorf("package %q not found", path)
}

// c14Check type-checks the sources (dependencies first) in a fresh universe.
func c14Check(u int, srcs map[string]string, mainPath string, aliasMode string) (*c14Session, error) {
	old := os.Getenv("GODEBUG")
	os.Setenv("GODEBUG", "gotypesalias="+aliasMode)
	defer os.Setenv("GODEBUG", old)
	s := &c14Session{U: u, Fset: token.NewFileSet(), Pkgs: map[string]*types.Package{}, Files: map[string]*ast.File{}}
	var paths []string
	for p := range srcs {
		if p != mainPath {
			paths = append(paths, p)
		}
	}
	sort.Strings(paths)
	paths = append(paths, mainPath)
	imp := mapImporter{}
	for _, p := range paths {
		f, err := parser.ParseFile(s.Fset, p+"/file.go", srcs[p], 0)
		if err != nil {
			return nil, fmt.Errorf("parse %s: %v", p, err)
		}
		info := &types.Info{
			Types:      map[ast.Expr]types.TypeAndValue{},
			Uses:       map[*ast.Ident]types.Object{},
			Defs:       map[*ast.Ident]types.Object{},
			Selections: map[*ast.SelectorExpr]*types.Selection{},
			Implicits:  map[ast.Node]types.Object{},
			Scopes:     map[ast.Node]*types.Scope{},
			Instances:  map[*ast.Ident]types.Instance{},
		}
		cfg := types.Config{Importer: imp}
		pkg, err := cfg.Check(p, s.Fset, []*ast.File{f}, info)
		if err != nil {
			return nil, fmt.Errorf("check %s: %v", p, err)
		}
		imp[p] = pkg
		s.Pkgs[p] = pkg
		s.Files[p] = f
		if p == mainPath {
			s.Info = info
			s.Main = pkg
		}
	}
	return s, nil
}

type c14Probe struct {
	Name string
	Type types.Type
}

// c14Probes lists the types to compare, in source order (so that index i in two sessions over the same
// sources is the same construction): every variable and function of the main package, plus derived
// top-level shapes (parameter tuples, embedded unions of constraint interfaces, the nil type).
func c14Probes(s *c14Session) []c14Probe {
	type po struct {
		pos token.Pos
		obj types.Object
	}
	var objs []po
	for id, obj := range s.Info.Defs {
		switch o := obj.(type) {
		case *types.Var:
			if o.IsField() || id.Name == "_" {
				continue
			}
			objs = append(objs, po{id.Pos(), o})
		case *types.Func:
			objs = append(objs, po{id.Pos(), o})
		case *types.TypeName:
			objs = append(objs, po{id.Pos(), o})
		}
	}
	sort.Slice(objs, func(i, j int) bool { return objs[i].pos < objs[j].pos })
	var out []c14Probe
	seenTuple := 0
	for _, o := range objs {
		name := o.obj.Name()
		if _, isFn := o.obj.(*types.Func); isFn {
			name = "func:" + name
		}
		if _, isTN := o.obj.(*types.TypeName); isTN {
			name = "type:" + name
		}
		t := o.obj.Type()
		out = append(out, c14Probe{name, t})
		if sig, ok := t.(*types.Signature); ok && seenTuple < 6 {
			seenTuple++
			out = append(out, c14Probe{name + ".params", sig.Params()})
			out = append(out, c14Probe{name + ".results", sig.Results()})
		}
		if it, ok := t.Underlying().(*types.Interface); ok && !it.IsMethodSet() {
			if _, isTN := o.obj.(*types.TypeName); isTN {
				for i := 0; i < it.NumEmbeddeds(); i++ {
					if un, ok := it.EmbeddedType(i).(*types.Union); ok {
						out = append(out, c14Probe{name + ".union", un})
						if un.Len() > 0 {
							out = append(out, c14Probe{name + ".term0", un.Term(0).Type()})
						}
					}
				}
				out = append(out, c14Probe{name + ".underlying", it})
			}
		}
	}
	out = append(out, c14Probe{"nil", nil})
	return out
}
