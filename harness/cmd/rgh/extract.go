package main

import (
	"bytes"
	"os"
	"path/filepath"
)

// genFile is one regenerated Lean table.
type genFile struct {
	name string
	gen  func() (string, error)
}

var genFiles []genFile

func registerGen(name string, f func() (string, error)) {
	genFiles = append(genFiles, genFile{name, f})
}

// extractAll rewrites every Gen file whose content changed (so that lake rebuilds only then).
func extractAll(dir string) error {
	if err := os.MkdirAll(dir, 0o755); err != nil {
		return err
	}
	for _, g := range genFiles {
		s, err := g.gen()
		if err != nil {
			return err
		}
		p := filepath.Join(dir, g.name)
		old, _ := os.ReadFile(p)
		if !bytes.Equal(old, []byte(s)) {
			if err := os.WriteFile(p, []byte(s), 0o644); err != nil {
				return err
			}
		}
	}
	return nil
}
