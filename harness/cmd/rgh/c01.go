package main

import (
	"fmt"

	"verifharness/hx"
)

func init() { register("C01", runC01) }

// handWritten exercises node kinds and fields that are rare in ordinary code.
var c01Handwritten = []string{
	`package p
import ( "fmt"; str "strings" )
type Pair[K comparable, V int | string] struct { k K; v V ` + "`json:\"v\"`" + ` }
type Num interface { ~int | ~int64; String() string }
func Map[T, U any](xs []T, f func(T) U) []U { var out []U; for _, x := range xs { out = append(out, f(x)) }; return out }
func g() { _ = Map[int, string](nil, nil); var p Pair[string, int]; _ = p; ; L: for { break L }; goto L2; L2: }
func h(a ...int) (r int, err error) { defer func() { recover() }(); go g(); select { case <-make(chan int): default: }; switch x := interface{}(a).(type) { case []int: _ = x }; return }
var _ = fmt.Sprint; var _ = str.ToUpper
var arr = [...]int{1: 2, 3}
var m = map[string][]chan<- int{"a": nil}
func (p *Pair[K, V]) Get() V { return p.v }
`,
	`package q
func f(x int) int {
	if x > 0 { return 1 } else if x < 0 { return -1 } else { return 0 }
}
func k() { if false { f(1) } else { f(2) }; if true { f(3) } else if false { f(4) } else { f(5) }; f(6) }
const debug = false
func d() { if debug { if true { f(7) } else { f(8) } }; if !debug { f(9) }; func() { if debug { f(10) } }() }
`,
	// "kitchen sink": every child slot of every expression / statement kind holds a call of pr, so that a walker
	// that skips, repeats or reorders any one field shows in the trace of this file (and in the reports of a
	// `pr($x)` rule) as a concrete failing input, not only in the regenerated table
	`package ks
type S struct{ a, b int; next *S; f func(int) int; m map[int]int; c chan int; s []int; arr [4]int }
func pr(x int) int { return x }
func ps(x int) *S { return &S{} }
func pb(x int) bool { return x > 0 }
func pf(x int) func(int) int { return pr }
func pc(x int) chan int { return nil }
func pi(x int) interface{} { return x }
func pl(x int) []int { return nil }
func pm(x int) map[int]int { return nil }
func gen[T any, U any](t T, u U) T { return t }
func sink(xs ...interface{}) {}
func exprs(s *S) (int, error) {
	_ = ps(1).s[pr(2):pr(3)]
	_ = ps(4).s[pr(5):pr(6):pr(7)]
	_ = ps(8).s[:pr(9)]
	_ = ps(10).s[pr(11):]
	_ = ps(12).arr[pr(13)]
	_ = ps(14).m[pr(15)]
	_ = pf(16)(pr(17))
	_ = gen[int, string](pr(18), "x")
	_ = *ps(19)
	_ = -pr(20)
	_ = pr(21) + pr(22)*pr(23)
	_ = (pr(24))
	_ = ps(25).next.next.a
	_ = pi(26).(int)
	_ = S{a: pr(27), b: pr(28)}
	_ = S{pr(29), pr(30), nil, nil, nil, nil, nil, [4]int{}}
	_ = []int{pr(31), 2: pr(32)}
	_ = map[int]int{pr(33): pr(34)}
	_ = [...]*S{ps(35), {a: pr(36)}}
	_ = func(x int) int { return pr(37) + x }(pr(38))
	_ = &S{a: pr(39)}
	_ = <-pc(40)
	_ = !pb(41) && pb(42) || pb(43)
	_ = []func(int) int{pf(44)}[pr(45)](pr(46))
	sink(pr(47), pl(48), pm(49))
	sink(pl(50)...)
	return pr(51), nil
}
func stmts(s *S, ch chan int) (r int) {
	var v1, v2 = pr(100), pr(101)
	var v3 int = pr(102)
	const k = 3
	x, y := pr(103), pr(104)
	x, y = pr(105), pr(106)
	ps(107).a, ps(108).s[pr(109)] = pr(110), pr(111)
	x += pr(112)
	ps(113).a++
	ps(114).s[pr(115)]--
	pc(116) <- pr(117)
	go pf(118)(pr(119))
	defer pf(120)(pr(121))
	pr(122)
	{
		pr(123)
	}
	if z2 := pr(1240); false {
		pr(1241 + z2)
	} else if z3 := pr(1242); true {
		pr(1243 + z3)
	}
	if z := pr(124); pb(125) {
		pr(126)
	} else if pb(127) {
		pr(128)
	} else {
		pr(129)
	}
	switch w := pr(130); pr(131) {
	case pr(132), pr(133):
		pr(134)
		pr(w)
		fallthrough
	default:
		pr(135)
	}
	switch {
	case pb(136):
		pr(137)
	}
	switch q := pi(138).(type) {
	case int, string:
		pr(139)
		_ = q
	default:
		pr(140)
	}
	switch u := pr(141); pi(u).(type) {
	case nil:
		pr(142)
	}
	select {
	case a := <-pc(143):
		pr(a)
		pr(144)
	case pc(145) <- pr(146):
		pr(147)
		pr(148)
	case <-pc(149):
	default:
		pr(150)
		pr(151)
	}
	for i := pr(152); pb(i); i += pr(153) {
		pr(154)
		if pb(155) {
			continue
		}
		break
	}
	for pb(156) {
		pr(157)
	}
	for {
		pr(158)
		break
	}
	for i, e := range pl(159) {
		pr(i + e)
	}
	for i := range pm(160) {
		pr(i)
	}
	for range pl(161) {
		pr(162)
	}
	for ps(163).a, ps(164).b = range pl(165) {
	}
outer:
	for {
		for {
			pr(166)
			break outer
		}
	}
	func() {
		defer func() { pr(167) }()
		pr(168)
	}()
	type local struct{ f int }
	_ = local{f: pr(169)}
	_, _, _, _, _ = v1, v2, v3, y, k
	if pb(170) {
		return pr(171)
	}
	goto end
end:
	return pr(172) + x
}
func (s *S) method(a int, bs ...int) (n int, err error) { return pr(a) + pr(len(bs)), nil }
var pkgVar, pkgVar2 = pr(200), pr(201)
var (
	grouped = pr(202)
	typed int = pr(203)
)
`,
}

func runC01(c *Ctx) error {
	res := c.Res
	nFiles := 120
	if c.Thorough {
		nFiles = 4000
	}
	res.Rule = fmt.Sprintf("walker level: %d GOROOT source files (seeded sample; thorough: 4000) + hand-written files covering rare node kinds; "+
		"per file the real walker's visit trace (node, tag, deadcode, currentFunc, path length, parent via VerifWalk) must equal the Lean model's "+
		"trace with the regenerated table (correspondence) and the property-level reference specFull (source order, nodetag tags, ancestor-chain "+
		"contexts); a file is non-trivial when it has >= 20 nodes; distinct by path. Table level: walkRows/inspectOrder/nodeTags/childKinds regenerated by "+
		"probing all %d go/ast kinds (exhaustive per kind). Rule level: generated rule sets (1-3 files, 1-2 groups each, 1-4 rules drawn from a pool of 39 patterns/filters over 25 root tags incl. "+
		"stmt/expr/decl lists) through Engine.Load/Run on generated targets; delivered (node, rule) pairs == model (placement+merge+loop, oracle = each rule run alone) == reference (first accepting rule in load order).", nFiles, len(hx.KindNames))
	var cases []*walkCase
	for i, src := range c01Handwritten {
		wc, err := mkWalkCase(fmt.Sprintf("hand%d.go", i), []byte(src))
		if err != nil {
			return err
		}
		cases = append(cases, wc)
	}
	// generated files of nested ifs with constant / non-constant conditions, init statements, function literals
	ifRng := hx.Rng(c.Seed, "c01-ifs")
	nIfs := 12
	if c.Thorough {
		nIfs = 200
	}
	for i := 0; i < nIfs; i++ {
		wc, err := mkWalkCase(fmt.Sprintf("ifs%d.go", i), []byte(genIfFile(ifRng, 2+ifRng.Intn(4))))
		if err != nil {
			return err
		}
		cases = append(cases, wc)
	}
	cases = append(cases, gorootCases(c, nFiles, "c01-goroot")...)
	kinds := map[int]int{}
	for _, wc := range cases {
		res.Count("walk", wc.name, len(wc.tree.Nodes) >= 20)
		for _, n := range wc.tree.Nodes {
			kinds[n.Kind]++
		}
	}
	for k, n := range kinds {
		res.Distribution["kind:"+hx.KindNames[k]] = n
	}
	res.Sample(map[string]interface{}{"file": cases[0].name, "nodes": len(cases[0].tree.Nodes), "impl_trace": clip(cases[0].impl)})
	// batches keep the driver's input lines bounded
	const batch = 200
	for i := 0; i < len(cases); i += batch {
		j := i + batch
		if j > len(cases) {
			j = len(cases)
		}
		if err := walkSuite(c, "walk", cases[i:j]); err != nil {
			return err
		}
	}
	return c01E2E(c)
}
