package main

import (
	"fmt"
	"math/rand"
	"os"
	"path/filepath"
	"regexp"
	"regexp/syntax"
	"sort"
	"strconv"
	"strings"

	"github.com/quasilyte/go-ruleguard/ruleguard"
	"verifharness/hx"
)

func init() { register("C12", runC12) }

// c12DefaultVariant chooses the Lean variant the correspondence compares the code with:
// "fixed" = runner.go / ir_loader.go as they stand; "asis" = before fixes/comment-rule-line.diff
// (every alternative of a comment rule reports the rule's line); "crasis" = before fixes/c12-cr-offsets.diff
// (indices into the CR-stripped comment text used as distances in the file, Rg/Model/CommentAsIs.lean).
const c12DefaultVariant = "fixed"

var c12Variant = func() string {
	if v := os.Getenv("VERIF_C12_VARIANT"); v == "asis" || v == "fixed" || v == "crasis" {
		return v
	}
	return c12DefaultVariant
}()

// ---------------------------------------------------------------- rules

type c12Atom struct {
	eq       bool
	vr, lit  string
}

type c12Rule struct {
	group    string
	alts     []string // regexps
	altLines []int
	line     int
	filter   []c12Atom // nil: no Where
	report   string    // "" = no Report()
	suggest  string    // "" = no Suggest()
	at       string    // "" = no At()
	altLits  []string  // assertion stream: the piece of text each alternative was built around (parallel to alts)
}

// msg as irconv builds it: the Report template, or "suggestion: "+Suggest template
func (r *c12Rule) msg() string {
	if r.report != "" || r.suggest == "" {
		return r.report
	}
	return "suggestion: " + r.suggest
}

var c12Words = []string{"foo", "bar", "TODO", "nolint", "é", "世界", "x", "fix", "b", "FIXME", "a", "ж", "go", "baz"}

func c12W(r *rand.Rand) string { return c12Words[r.Intn(len(c12Words))] }

// c12Regexp draws a regexp with some mix of named / unnamed / non-participating / nested groups.
func c12Regexp(r *rand.Rand) string {
	w, v := regexp.QuoteMeta(c12W(r)), regexp.QuoteMeta(c12W(r))
	t := []string{
		"W", "W", "W|V", "(?:W)", "(W)", "(W)|(V)",
		"(?P<a>W)", "(?P<a>W)", "(?P<a>W)|(?P<b>V)", "(W)|(?P<b>V)", "(?P<a>W)|(V)",
		"(?P<a>W(?P<b>V)?)", `(?P<a>\w+):(?P<bb>\w*)`, "(?P<a>W)*", `^//\s*(?P<a>\w+)`, `(?s)/\*.*(?P<a>W).*`,
		"(?P<a>)W", "(?P<a>W)(?P<ab> ?V)", "(?P<ab>W)|(?P<a>V)", `\b(?P<w>\pL+)\b`, "(?P<a>.)$", "(?i)(?P<a>W)",
		`(?m)^(?P<a>\s*\*.*)$`, `(?P<a>W) (?P<b>V)`, `(?P<a>[^ ]+) (?P<b>[^ ]*)$`, "((?P<a>W)|(?P<b>V))+", `(?P<a>\PL*)W`, `(?s)(?P<a>W.*V)`,
		`(?P<a>W)|(?P<a>V)`, `(?P<x1>W)(?P<x12>.?)`, `(?P<a>W)?V`, `(?P<long_name>W)`, `W(?P<a>\s*)`, `(?P<a>(?P<b>(?P<c>W)))`,
		// pieces that begin, end or lie across line breaks (where go/scanner strips carriage returns) and kept `*\r/`
		`(?P<a>W)\s+(?P<b>V)`, `(?P<a>\s+)W`, `W(?P<a>\s+)(?P<b>\S*)`, `(?s)(?P<a>W.+)`, `(?P<a>[^\n]*)\n(?P<b>[^\n]*)`, `\n(?P<a>[^\n]*)`,
		`(?m)W(?P<a>.*)(?P<b>$)`, `(?m)(?P<a>^)(?P<b>.?)`, `(?P<a>\*)(?P<b>\r?)/`, `(?P<a>\r)`, `(?s)(?P<a>\n.*\n)`, `(?P<a>\S+)(?P<b>\s*)$`, `\n`, `(?s)W.*V`,
		// every group under a counted repetition
		"(?P<a>W){1,2}", `(?:(?P<a>W)\W*){1,2}`, "(?P<a>.){3}", `W(?P<a>\W){0,2}`, "((?P<a>W)|(?P<b>V)){1,3}", `(?P<a>\w){2,}`, "(W){1}(?:V)?",
		// group-less patterns whose match depends on where in the comment text the piece lies (the dedicated
		// stream is c12AssertSets; these mix such rules with the rules above)
		`^//W$`, `^// ?W`, `W$`, `\bW\b`, `\A/\* ?W ?\*/\z`, `(?m)^W$`, `^W|V$`, `\BW`, `W\s*\*/$`, `(?m)^//W|V$`,
	}
	s := t[r.Intn(len(t))]
	s = strings.NewReplacer("W", w, "V", v).Replace(s)
	if r.Intn(3) == 0 {
		// the other spelling of a named group, (?<name>re), accepted by regexp/syntax since Go 1.22
		s = strings.ReplaceAll(s, "(?P<", "(?<")
	}
	return s
}

func c12Names(re *regexp.Regexp) []string {
	var out []string
	seen := map[string]bool{}
	for i, n := range re.SubexpNames() {
		if i > 0 && n != "" && !seen[n] {
			seen[n] = true
			out = append(out, n)
		}
	}
	return out
}

// c12Template draws a message template over the group names of the alternatives.
func c12Template(r *rand.Rand, names []string) string {
	parts := []string{"$$", "$$", "<$$>", "$", " $ ", "cost $5", "$nosuch", "$$$", "$$$$", "x", "é", " ", "=", "$$a"}
	for _, n := range names {
		parts = append(parts, "$"+n, "$"+n, "["+"$"+n+"]", "$"+n+"z", "$"+n+"$"+n)
	}
	n := 1 + r.Intn(4)
	var sb strings.Builder
	for i := 0; i < n; i++ {
		sb.WriteString(parts[r.Intn(len(parts))])
		if r.Intn(3) == 0 {
			sb.WriteString([]string{" ", ":", "", "-"}[r.Intn(4)])
		}
	}
	if sb.Len() == 0 {
		return "m"
	}
	return sb.String()
}

func c12GenRule(r *rand.Rand, group string) c12Rule {
	rule := c12Rule{group: group}
	n := 1
	if r.Intn(4) == 0 {
		n = 2 + r.Intn(2)
	}
	nameSet := map[string]bool{}
	for i := 0; i < n; i++ {
		p := c12Regexp(r)
		re, err := regexp.Compile(p)
		if err != nil {
			continue
		}
		rule.alts = append(rule.alts, p)
		for _, nm := range c12Names(re) {
			nameSet[nm] = true
		}
	}
	if len(rule.alts) == 0 {
		rule.alts = []string{"foo"}
	}
	var names []string
	for nm := range nameSet {
		names = append(names, nm)
	}
	sort.Strings(names)
	// variables every alternative defines (a filter / At on a variable some alternative lacks is a nil-node panic: malformed stream)
	var common []string
	for _, nm := range names {
		all := true
		for _, p := range rule.alts {
			has := false
			for _, x := range c12Names(regexp.MustCompile(p)) {
				has = has || x == nm
			}
			all = all && has
		}
		if all {
			common = append(common, nm)
		}
	}
	switch r.Intn(5) {
	case 0:
		rule.suggest = c12Template(r, names)
	case 1:
		rule.report = c12Template(r, names)
		rule.suggest = c12Template(r, names)
	default:
		rule.report = c12Template(r, names)
	}
	if r.Intn(3) == 0 {
		vars := append([]string{"$$"}, common...)
		k := 1 + r.Intn(2)
		for i := 0; i < k; i++ {
			rule.filter = append(rule.filter, c12Atom{eq: r.Intn(3) == 0, vr: vars[r.Intn(len(vars))], lit: []string{c12W(r), c12W(r), "", "o", " " + c12W(r)}[r.Intn(5)]})
		}
	}
	if len(common) > 0 && r.Intn(4) == 0 {
		rule.at = common[r.Intn(len(common))]
	}
	return rule
}

// c12RulesFile renders the rules (one alternative per line so that every alternative has its own line).
func c12RulesFile(rules []c12Rule) string {
	var sb strings.Builder
	sb.WriteString("package gorules\n\nimport \"github.com/quasilyte/go-ruleguard/dsl\"\n\n")
	line := 5
	cur := ""
	for i := range rules {
		ru := &rules[i]
		if ru.group != cur {
			if cur != "" {
				sb.WriteString("}\n")
				line++
			}
			fmt.Fprintf(&sb, "func %s(m dsl.Matcher) {\n", ru.group)
			line++
			cur = ru.group
		}
		ru.line = line
		sb.WriteString("\tm.MatchComment(\n")
		line++
		for _, a := range ru.alts {
			fmt.Fprintf(&sb, "\t\t%s,\n", strconv.Quote(a))
			ru.altLines = append(ru.altLines, line)
			line++
		}
		sb.WriteString("\t)")
		if ru.filter != nil {
			var as []string
			for _, a := range ru.filter {
				op := "!="
				if a.eq {
					op = "=="
				}
				as = append(as, fmt.Sprintf("m[%s].Text %s %s", strconv.Quote(a.vr), op, strconv.Quote(a.lit)))
			}
			fmt.Fprintf(&sb, ".Where(%s)", strings.Join(as, " && "))
		}
		if ru.report != "" {
			fmt.Fprintf(&sb, ".Report(%s)", strconv.Quote(ru.report))
		}
		if ru.suggest != "" {
			fmt.Fprintf(&sb, ".Suggest(%s)", strconv.Quote(ru.suggest))
		}
		if ru.at != "" {
			fmt.Fprintf(&sb, ".At(m[%s])", strconv.Quote(ru.at))
		}
		sb.WriteString("\n")
		line++
	}
	sb.WriteString("}\n")
	return sb.String()
}

// ---------------------------------------------------------------- target files

func c12CommentText(r *rand.Rand) string {
	n := 1 + r.Intn(5)
	var ws []string
	for i := 0; i < n; i++ {
		switch r.Intn(8) {
		case 0:
			ws = append(ws, c12W(r)+":"+c12W(r))
		case 1:
			ws = append(ws, strings.ToUpper(c12W(r)))
		default:
			ws = append(ws, c12W(r))
		}
	}
	return strings.Join(ws, []string{" ", " ", "  ", ""}[r.Intn(4)])
}

// c12File builds a Go file with comments of every kind; kind describes what it exercises.
func c12File(r *rand.Rand, crlf bool) (src string, kinds []string) {
	var sb strings.Builder
	nl := "\n"
	if crlf {
		nl = "\r\n"
		kinds = append(kinds, "crlf")
	}
	if r.Intn(4) == 0 { // a comment at offset 0
		if r.Intn(2) == 0 {
			sb.WriteString("// " + c12CommentText(r) + nl)
		} else {
			sb.WriteString("/* " + c12CommentText(r) + " */" + nl)
		}
		kinds = append(kinds, "offset0")
	}
	sb.WriteString("package p" + nl)
	n := 2 + r.Intn(6)
	for i := 0; i < n; i++ {
		switch r.Intn(9) {
		case 0:
			sb.WriteString("// " + c12CommentText(r) + nl)
			kinds = append(kinds, "line")
		case 1:
			sb.WriteString("//" + c12CommentText(r) + nl + "// " + c12CommentText(r) + nl)
			kinds = append(kinds, "line-group")
		case 2:
			sb.WriteString("/* " + c12CommentText(r) + " */" + nl)
			kinds = append(kinds, "block")
		case 3:
			sb.WriteString("/* " + c12CommentText(r) + nl + " * " + c12CommentText(r) + nl + " " + c12CommentText(r) + " */" + nl)
			kinds = append(kinds, "block-multiline")
		case 4:
			sb.WriteString("/*" + c12CommentText(r) + "*//* " + c12CommentText(r) + " */ // " + c12CommentText(r) + nl)
			kinds = append(kinds, "adjacent")
		case 5:
			fmt.Fprintf(&sb, "var v%d = \"%s\" // %s%s", i, c12CommentText(r), c12CommentText(r), nl)
			kinds = append(kinds, "trailing")
		case 6:
			fmt.Fprintf(&sb, "func f%d( /* %s */ a int) int { // %s%s\treturn a /* %s */ + 1%s}%s", i, c12CommentText(r), c12CommentText(r), nl, c12CommentText(r), nl, nl)
			kinds = append(kinds, "inside-func")
		case 7:
			fmt.Fprintf(&sb, "var é%d = `ж%s` /* 世界 %s */%s", i, c12W(r), c12CommentText(r), nl)
			kinds = append(kinds, "multibyte-prefix")
		default:
			fmt.Fprintf(&sb, "var w%d = %d%s", i, i, nl)
		}
		if crlf && r.Intn(2) == 0 { // carriage returns the scanner strips or keeps, in every position
			t := func() string { return c12CommentText(r) }
			switch r.Intn(9) {
			case 0:
				sb.WriteString("/* " + t() + " *\r/ " + t() + " */" + nl)
				kinds = append(kinds, "cr:kept-star-cr-slash")
			case 1:
				sb.WriteString("/* " + t() + nl + " *\r\r/ " + t() + nl + t() + " */" + nl)
				kinds = append(kinds, "cr:star-cr-cr-slash")
			case 2:
				sb.WriteString("/* " + t() + "\r" + t() + " \r\r" + t() + " */" + nl)
				kinds = append(kinds, "cr:stray-in-block")
			case 3:
				sb.WriteString("// " + t() + "\r" + t() + "\r\r" + nl)
				kinds = append(kinds, "cr:stray-in-line")
			case 4:
				sb.WriteString("/*" + nl + t() + nl + nl + t() + nl + "*/" + nl)
				kinds = append(kinds, "cr:block-breaks-at-ends")
			case 5:
				sb.WriteString("/*\r/ " + t() + " *\r/" + nl + t() + "*\r*/" + nl)
				kinds = append(kinds, "cr:after-opening")
			case 6:
				sb.WriteString("/* " + t() + "\n" + t() + "\r\n" + t() + "\n\r" + t() + " */" + nl)
				kinds = append(kinds, "cr:mixed-breaks")
			case 7:
				sb.WriteString("/*" + t() + nl + t() + "*/ /* " + t() + nl + " */ // " + t() + nl)
				kinds = append(kinds, "cr:adjacent-multiline")
			default:
				sb.WriteString("/*\r" + nl + "\r" + t() + "\r" + nl + "\r*/" + nl)
				kinds = append(kinds, "cr:around-breaks")
			}
		}
	}
	switch r.Intn(4) { // a comment that ends at EOF
	case 0:
		sb.WriteString("// " + c12CommentText(r))
		kinds = append(kinds, "eof-line")
	case 1:
		sb.WriteString("/* " + c12CommentText(r) + " */")
		kinds = append(kinds, "eof-block")
	case 2:
		if crlf {
			sb.WriteString("/* " + c12CommentText(r) + nl + c12CommentText(r) + " */")
			kinds = append(kinds, "eof-block-multiline")
		}
	}
	return sb.String(), kinds
}

// ---------------------------------------------------------------- position assertions
//
// Rules whose regexp says WHERE in the comment text a piece has to lie (`^…`, `…$`, `\A…\z`, `(?m)^…$`, `\b…\b`, the
// comment markers spelled out: `^//…$`, `^/\*…\*/$`), mostly without capture groups (the runner's FindStringIndex path),
// over comments that carry the piece at the start / in the middle / at the end / several times / glued to word
// characters / in another case / on a line of its own inside a block comment / broken across lines / not at all.
// The expectation is Go's regexp on Comment.Text, as everywhere in this file.

// c12Lits: the pieces of text the patterns and the comments of one set are built around (no markers, no line breaks)
var c12Lits = []string{"nolint", "nolint:errcheck", "TODO", "go:generate", "fallthrough", "foo", "a.b", "x+y", "fix me", "é", "世界", "ж", "b",
	"TODO(bob)", "*", "no lint", "Deprecated:", "FIXME", "a", "[x]"}

type c12Piece struct {
	s string
	m bool // an assertion about lines: needs the m flag
}

var c12Lefts = []c12Piece{{"", false}, {"^", false}, {`\A`, false}, {"^", true}, {`\b`, false}, {`\B`, false}, {"^//", false}, {"^// ?", false},
	{`^/\*`, false}, {`\A/\* ?`, false}, {`^//\s*`, false}, {`^\s*\*? ?`, true}, {"^..", false}}

var c12Rights = []c12Piece{{"", false}, {"$", false}, {`\z`, false}, {"$", true}, {`\b`, false}, {`\B`, false}, {`\*/$`, false}, {` ?\*/\z`, false},
	{`\s*$`, false}, {`\n`, false}, {`\s*$`, true}}

// the shapes of the part between the assertions; the last three have capture groups (FindStringSubmatchIndex path)
var c12Cores = []string{"lit", "quoted", "noncap", "class", "alt", "alt-top", "rep", "dotstar", "opt-tail", "word", "empty", "ws", "fold", "dotall",
	"group", "named", "named-tail"}

func c12Core(kind, lit, other string) (core, flags string) {
	q, q2 := regexp.QuoteMeta(lit), regexp.QuoteMeta(other)
	switch kind {
	case "quoted":
		return `\Q` + lit + `\E`, ""
	case "noncap":
		return "(?:" + q + ")", ""
	case "class":
		rs := []rune(lit)
		first := regexp.QuoteMeta(string(rs[0]))
		if lo, up := strings.ToLower(string(rs[0])), strings.ToUpper(string(rs[0])); lo != up {
			first = lo + up
		}
		return "[" + first + "]" + regexp.QuoteMeta(string(rs[1:])), ""
	case "alt":
		return "(?:" + q + "|" + q2 + ")", ""
	case "alt-top": // the assertions bind to one branch each: `^W|V$`
		return q + "|" + q2, ""
	case "rep":
		return q + "+", ""
	case "dotstar":
		return q + ".*" + q2, ""
	case "opt-tail":
		return q + `(?::\w+)?`, ""
	case "word":
		return `\w+`, ""
	case "empty": // the assertions alone: empty matches
		return "", ""
	case "ws":
		return `\s*` + q + `\s*`, ""
	case "fold":
		return q, "i"
	case "dotall":
		return q + ".*" + q2, "s"
	case "group":
		return "(" + q + ")", ""
	case "named":
		return "(?P<a>" + q + ")", ""
	case "named-tail":
		return q + `:?(?P<a>\w*)`, ""
	}
	return q, ""
}

// c12AssertPattern: flags + left assertion + core + right assertion.  Both assertions about lines: `(?m)` in front
// (the usual spelling); one of them: scoped `(?m:^)`, so that the other one keeps talking about the text's ends.
func c12AssertPattern(li, ci, ri int, lit, other string) string {
	l, rt := c12Lefts[li], c12Rights[ri]
	core, flags := c12Core(c12Cores[ci], lit, other)
	ls, rs := l.s, rt.s
	switch {
	case l.m && rt.m:
		flags = "m" + flags
	case l.m:
		ls = "(?m:^)" + strings.TrimPrefix(ls, "^")
	case rt.m:
		rs = strings.TrimSuffix(rs, "$") + "(?m:$)"
	}
	p := ls + core + rs
	if flags != "" {
		p = "(?" + flags + ")" + p
	}
	if _, err := regexp.Compile(p); err != nil || p == "" {
		return regexp.QuoteMeta(lit)
	}
	return p
}

func c12SwapCase(s string) string {
	rs := []rune(s)
	for i, c := range rs {
		if u := []rune(strings.ToUpper(string(c))); len(u) == 1 && u[0] != c {
			rs[i] = u[0]
		} else if l := []rune(strings.ToLower(string(c))); len(l) == 1 {
			rs[i] = l[0]
		}
	}
	return string(rs)
}

// c12Place: what stands between the comment markers, and which placement of lit that is.
func c12Place(r *rand.Rand, lit, other, nl string) (body, kind string) {
	w := func() string { return c12W(r) }
	switch r.Intn(17) {
	case 0, 1:
		return lit, "exact"
	case 2:
		return lit + " " + w(), "start"
	case 3:
		return w() + " " + lit + " " + w(), "middle"
	case 4:
		return w() + " " + lit, "end"
	case 5:
		sep := []string{" ", "", ", ", " x ", "  "}[r.Intn(5)]
		return strings.TrimSuffix(strings.Repeat(lit+sep, 2+r.Intn(2)), sep), "repeated"
	case 6:
		return []string{"x" + lit + "y", lit + "s", "_" + lit + "_", "9" + lit, lit + other, other + lit}[r.Intn(6)], "glued"
	case 7:
		return []string{c12SwapCase(lit), w() + " " + c12SwapCase(lit), strings.ToUpper(lit) + " " + lit}[r.Intn(3)], "case-variant"
	case 8:
		return w() + " " + w(), "absent"
	case 9:
		rs := []rune(lit)
		return []string{string(rs[:len(rs)-1]), string(rs[1:]), string(rs[:len(rs)-1]) + " " + w()}[r.Intn(3)], "partial"
	case 10:
		return []string{lit + " " + other, other + " " + lit, other + ":" + lit}[r.Intn(3)], "with-other"
	case 11:
		return []string{w() + " //" + lit + " " + w(), "//" + lit, w() + " /*" + lit, "// " + lit + " " + w(), "/*" + lit + "* /"}[r.Intn(5)], "marker-inside"
	case 12:
		return []string{lit + ":", "(" + lit + ")", lit + ".", "-" + lit, lit + ":" + w(), lit + ", " + lit + "."}[r.Intn(6)], "punct-adjacent"
	case 13:
		return lit + []string{" ", "\t", "  "}[r.Intn(3)], "trailing-space"
	}
	switch r.Intn(9) { // a block comment over several lines
	case 0:
		return nl + lit + nl, "lines:own-line"
	case 1:
		return " " + w() + nl + lit + nl + w() + " ", "lines:own-line-between"
	case 2:
		return nl + " * " + lit + nl + " ", "lines:starred"
	case 3:
		return lit + nl + lit, "lines:first-and-last"
	case 4:
		return " " + w() + " " + lit + nl + lit + " " + w() + " ", "lines:end-of-line-and-start-of-next"
	case 5:
		rs := []rune(lit)
		k := len(rs) / 2
		return " " + string(rs[:k]) + nl + string(rs[k:]) + " ", "lines:broken-across"
	case 6:
		return " " + w() + nl + lit, "lines:last-line"
	case 7:
		return lit + nl + " " + w() + " ", "lines:first-line"
	}
	return " " + w() + nl + " " + lit + " " + w() + nl + nl + lit + " ", "lines:indented-and-after-blank"
}

// c12AssertComment: one comment (source text) around lit; block says it can be followed by something on its line.
func c12AssertComment(r *rand.Rand, lit, other, nl string) (cm string, kind string, inline bool) {
	if r.Intn(5) == 0 {
		lit, other = other, lit
	}
	body, kind := c12Place(r, lit, other, nl)
	multi := strings.Contains(body, "\n")
	if multi {
		body = strings.ReplaceAll(body, "*/", "* /")
	}
	block := multi || (r.Intn(2) == 0 && !strings.Contains(body, "*/"))
	pad := ""
	if !multi && r.Intn(2) == 0 {
		pad = " "
	}
	switch {
	case block && pad == "":
		return "/*" + body + "*/", kind + ":block", !multi
	case block:
		return "/* " + body + " */", kind + ":block-spaced", !multi
	case pad == "":
		return "//" + body, kind + ":line", false
	}
	return "// " + body, kind + ":line-spaced", false
}

func c12AssertFile(r *rand.Rand, lit, other string, crlf, small bool) (string, []string) {
	nl := "\n"
	var kinds []string
	if crlf {
		nl = "\r\n"
		kinds = append(kinds, "crlf")
	}
	n := 3 + r.Intn(6)
	if small {
		n = 1 + r.Intn(3)
	}
	var sb strings.Builder
	one := func() (string, bool) {
		cm, kind, inline := c12AssertComment(r, lit, other, nl)
		kinds = append(kinds, "assert:"+kind)
		return cm, inline
	}
	if r.Intn(4) == 0 {
		cm, _ := one()
		sb.WriteString(cm + nl)
		kinds = append(kinds, "offset0")
	}
	sb.WriteString("package p" + nl)
	for i := 0; i < n; i++ {
		cm, inline := one()
		last := i == n-1
		switch lay := r.Intn(8); {
		case lay == 0:
			fmt.Fprintf(&sb, "var a%d = %d %s", i, i, cm)
			kinds = append(kinds, "trailing")
		case lay == 1 && inline:
			cm2, _ := one()
			sb.WriteString(cm + cm2)
			kinds = append(kinds, "adjacent")
		case lay == 2 && inline:
			fmt.Fprintf(&sb, "func f%d( %s a int) {}", i, cm)
			kinds = append(kinds, "inside-func")
		case lay == 3 && !inline && !strings.HasPrefix(cm, "/*"): // consecutive `//` lines: one comment each
			cm2, _, _ := c12AssertComment(r, lit, other, nl)
			if strings.HasPrefix(cm2, "//") {
				sb.WriteString(cm2 + nl)
				kinds = append(kinds, "line-group")
			}
			sb.WriteString(cm)
		default:
			sb.WriteString(cm)
		}
		if last && r.Intn(3) == 0 {
			kinds = append(kinds, "eof")
		} else {
			sb.WriteString(nl)
		}
	}
	return sb.String(), kinds
}

type c12Set struct {
	rules  []c12Rule
	files  []string
	kinds  [][]string // per file; nil: hand-picked
	assert bool
}

// c12AssertSets: n rule sets with their files.  The first alternative of two sets in three takes the next element of the
// shuffled product cores x left assertions x right assertions (the thorough tier goes through all of it); the first
// alternative of every third set, and the other alternatives and rules of every set, are drawn, half of them from the shapes people write (`^//W$`, `\AW\z`, `^// ?W\b`, plain W,
// `W:(?P<a>\w*)`), all around the same one or two pieces, so that several rules of a set want the same comment.
// The first sets are small (one rule, one alternative, a few comments).
func c12AssertSets(r *rand.Rand, n int) []c12Set {
	type tri struct{ c, l, r int }
	var prod []tri
	for c := range c12Cores {
		for l := range c12Lefts {
			for rt := range c12Rights {
				prod = append(prod, tri{c, l, rt})
			}
		}
	}
	r.Shuffle(len(prod), func(i, j int) { prod[i], prod[j] = prod[j], prod[i] })
	usualC, usualL, usualR := []int{0, 0, 0, 1, 2, 16}, []int{0, 1, 1, 2, 6, 6, 7, 8}, []int{0, 1, 1, 2, 4, 6}
	var out []c12Set
	for i := 0; i < n; i++ {
		small := i < n/5
		lit := c12Lits[r.Intn(len(c12Lits))]
		other := c12Lits[r.Intn(len(c12Lits))]
		if r.Intn(3) == 0 {
			other = c12W(r)
		}
		nr := 1
		if !small {
			nr = 1 + r.Intn(4)
		}
		// two sets in three have a rule that takes every comment with the piece in it (plain, or with groups), mostly
		// after the others: it reports exactly the comments the rules before it turn down, and is silent for the others
		catchAll := -1
		if !small && r.Intn(3) > 0 {
			nr++
			catchAll = nr - 1
			if r.Intn(3) == 0 {
				catchAll = r.Intn(nr)
			}
		}
		var rules []c12Rule
		for k := 0; k < nr; k++ {
			rule := c12Rule{group: fmt.Sprintf("g%d", k/2)}
			na := 1
			if !small && r.Intn(4) == 0 && k != catchAll {
				na = 2 + r.Intn(2)
			}
			for a := 0; a < na; a++ {
				if k == catchAll {
					rule.alts = append(rule.alts, c12AssertPattern(0, []int{0, 0, 15, 16}[r.Intn(4)], 0, lit, other))
					rule.altLits = append(rule.altLits, lit)
					continue
				}
				t := prod[r.Intn(len(prod))]
				usual := tri{usualC[r.Intn(len(usualC))], usualL[r.Intn(len(usualL))], usualR[r.Intn(len(usualR))]}
				switch {
				case k == 0 && a == 0 && i%3 != 2:
					t = prod[(i-i/3)%len(prod)]
				case k == 0 && a == 0, r.Intn(2) == 0:
					t = usual
				}
				l, o := lit, other
				if (k > 0 || a > 0) && r.Intn(4) == 0 {
					l, o = o, l
				}
				rule.alts = append(rule.alts, c12AssertPattern(t.l, t.c, t.r, l, o))
				rule.altLits = append(rule.altLits, l)
			}
			var common []string // names every alternative has
			for _, nm := range c12Names(regexp.MustCompile(rule.alts[0])) {
				all := true
				for _, p := range rule.alts[1:] {
					has := false
					for _, x := range c12Names(regexp.MustCompile(p)) {
						has = has || x == nm
					}
					all = all && has
				}
				if all {
					common = append(common, nm)
				}
			}
			switch r.Intn(4) {
			case 0:
				rule.suggest = c12Template(r, common)
			case 1:
				rule.report, rule.suggest = c12Template(r, common), c12Template(r, common)
			default:
				rule.report = c12Template(r, common)
			}
			if !small && r.Intn(3) == 0 { // a filter on the texts: a regexp match the rule then rejects hands the comment to the next rule
				vars := append([]string{"$$", "$$"}, common...)
				for j := 1 + r.Intn(2); j > 0; j-- {
					vals := []string{lit, "//" + lit, "// " + lit, "/*" + lit + "*/", other, "", c12W(r)}
					rule.filter = append(rule.filter, c12Atom{eq: r.Intn(2) == 0, vr: vars[r.Intn(len(vars))], lit: vals[r.Intn(len(vals))]})
				}
			}
			if len(common) > 0 && r.Intn(3) == 0 {
				rule.at = common[r.Intn(len(common))]
			}
			rules = append(rules, rule)
		}
		set := c12Set{rules: rules, assert: true}
		nf := 3
		if small {
			nf = 2
		}
		for f := 0; f < nf; f++ {
			src, kinds := c12AssertFile(r, lit, other, f == 2 || (small && f == 1 && i%3 == 0), small)
			set.files = append(set.files, src)
			set.kinds = append(set.kinds, kinds)
		}
		out = append(out, set)
	}
	return out
}

// c12AssertDist records, for one comment of an assertion set, how each alternative's regexp relates to plain
// containment of its piece, and how many alternatives / rules want the comment.
func c12AssertDist(res *hx.Result, flat []c12Loaded, text string) {
	nAlts, rulesSeen := 0, map[*c12Rule]bool{}
	for _, l := range flat {
		lit := l.rule.altLits[l.alt]
		path := "fast"
		if l.cg {
			path = "groups"
		}
		at := strings.Index(text, lit)
		m := l.re.FindStringIndex(text)
		class := ""
		switch {
		case m == nil && at < 0:
			class = "piece-absent:no-match"
		case m == nil:
			class = "piece-present:regexp-rejects"
		case at < 0:
			class = "piece-absent:regexp-matches"
		case m[0] == at && m[1] == at+len(lit):
			class = "match-is-first-occurrence"
		case m[0] == m[1]:
			class = "empty-match"
		case m[0] > at && m[1]-m[0] == len(lit):
			class = "match-is-a-later-occurrence"
		default:
			class = "match-wider-or-elsewhere"
		}
		res.Dist("assert-alt:" + path + ":" + class)
		if m != nil {
			nAlts++
			rulesSeen[l.rule] = true
		}
	}
	switch {
	case len(rulesSeen) > 1:
		res.Dist("assert-comment:regexps-of-several-rules-match")
	case nAlts > 1:
		res.Dist("assert-comment:several-alternatives-of-one-rule-match")
	case nAlts == 1:
		res.Dist("assert-comment:one-alternative-matches")
	default:
		res.Dist("assert-comment:nothing-matches")
	}
}

// ---------------------------------------------------------------- carriage returns: the harness's own arithmetic

// c12RawEnd: where the source bytes of the comment starting at src[start] end (what go/scanner takes as `lit`).
func c12RawEnd(src string, start int) int {
	if start+1 < len(src) && src[start+1] == '/' {
		if k := strings.IndexByte(src[start:], '\n'); k >= 0 {
			return start + k
		}
		return len(src)
	}
	if k := strings.Index(src[start+2:], "*/"); k >= 0 {
		return start + 2 + k + 2
	}
	return len(src)
}

// c12Origins: for every byte of text its index in raw, text being raw with some carriage returns removed
// (each byte as far left as possible); ok=false when text is not that.
func c12Origins(raw, text string) (at []int, ok bool) {
	p := 0
	for i := 0; i < len(text); i++ {
		for p < len(raw) && raw[p] != text[i] {
			if raw[p] != '\r' {
				return nil, false
			}
			p++
		}
		if p >= len(raw) {
			return nil, false
		}
		at = append(at, p)
		p++
	}
	return at, true
}

// c12RawSpan: the part of raw that text[lo:hi] stands for.
func c12RawSpan(at []int, lo, hi int) (int, int) {
	after := func(i int) int {
		if i == 0 {
			return 0
		}
		return at[i-1] + 1
	}
	if lo < hi {
		return at[lo], after(hi)
	}
	return after(lo), after(lo)
}

func c12NoCR(s string) string { return strings.ReplaceAll(s, "\r", "") }

// ---------------------------------------------------------------- protocol

func c12Ints(xs []int) string {
	if xs == nil {
		return "nil"
	}
	var ps []string
	for _, x := range xs {
		ps = append(ps, strconv.Itoa(x))
	}
	return "(" + strings.Join(ps, ",") + ")"
}

type c12Loaded struct {
	rule *c12Rule
	alt  int
	re   *regexp.Regexp
	cg   bool
}

// c12RulesSexp renders the flat commentRules list with the regexp's answers for one comment text.
func c12RulesSexp(flat []c12Loaded, text string) string {
	var rs []string
	for _, l := range flat {
		var names []string
		for _, n := range l.re.SubexpNames() {
			names = append(names, hx.HexS(n))
		}
		filter := "nil"
		if l.rule.filter != nil {
			var as []string
			for _, a := range l.rule.filter {
				op := "ne"
				if a.eq {
					op = "eq"
				}
				as = append(as, fmt.Sprintf("(%s,%s,%s)", op, hx.HexS(a.vr), hx.HexS(a.lit)))
			}
			filter = "(" + strings.Join(as, ",") + ")"
		}
		cg := "0"
		if l.cg {
			cg = "1"
		}
		rs = append(rs, fmt.Sprintf("(%s,(%s),%s,%s,%s,%s,%s,%s,%d,%d)", cg, strings.Join(names, ","),
			c12Ints(l.re.FindStringSubmatchIndex(text)), c12Ints(l.re.FindStringIndex(text)), filter,
			hx.HexS(l.rule.msg()), hx.HexS(l.rule.at), hx.HexS(l.rule.suggest), l.rule.line, l.rule.altLines[l.alt]))
	}
	return "(" + strings.Join(rs, ",") + ")"
}

func c12ShowReport(r hx.Report, lineOf map[string]int) string {
	node := "nil"
	if !r.NodeNil {
		node = fmt.Sprintf("%d:%d", r.Pos, r.End)
	}
	sugg := "none"
	if r.HasSugg {
		sugg = fmt.Sprintf("%d:%d:%s", r.From, r.To, hx.HexS(r.Repl))
	}
	return fmt.Sprintf("report %d %s %s %s", r.RuleLine, node, hx.HexS(r.Message), sugg)
}

// ---------------------------------------------------------------- the run

func runC12(c *Ctx) error {
	res := c.Res
	nSets, nFiles, nAssert := 250, 8, 300
	if c.Thorough {
		nSets, nFiles, nAssert = 6000, 12, 3*len(c12Cores)*len(c12Lefts)*len(c12Rights)/2+1
	}
	res.Rule = fmt.Sprintf("(0) scantext: ast.Comment.Text of go/parser vs the model of go/scanner's CR stripping, on generated comments with carriage returns in every position and on every comment of the e2e files; "+
		"textspan: commentTextSpan through the hook vs the model, on generated (source, comment text, index pair) incl. sources that are not the text's, no source, indices out of range; "+
		"(1) hascap: regexpHasCaptureGroups through the hook vs the model's walk over syntax.Parse's tree, on generated regexps; "+
		"(2) e2e: %d generated MatchComment rule sets (named / unnamed / non-participating / nested / duplicate-name groups, Where on group texts, Report/Suggest templates, At) x %d generated files each "+
		"(line, block, multi-line, adjacent, trailing, inside-function comments, multi-byte prefixes, a comment at offset 0, a comment ending at EOF; CRLF files with block comments over several lines, stray carriage returns, kept `*\\r/`; in memory and on disk) through Engine.Run: "+
		"every comment's report (Pos, End, Message, Suggestion, rule line) or absence of one vs model `runCommentRules` fed with the real regexp's index vectors; "+
		"(2a) the same for %d position-assertion rule sets: patterns = 17 shapes (plain / quoted / non-capturing / class / alternation / repetition / case-folded / empty literal pieces, three with groups) x 13 left x 11 right assertions "+
		"(`^`, `\\A`, `(?m)^`, `\\b`, `\\B`, spelled-out comment markers, `$`, `\\z`, `(?m)$`, …), several rules and alternatives around the same piece, Where on `$$`, over comments with the piece alone / at the start / in the middle / at the end / "+
		"repeated / glued to word characters / in another case / partial / after a nested marker / on its own line of a block comment / broken across lines / absent, LF and CRLF, in memory and on disk; "+
		"(3) the executable statement `spec12` on every implementation report (precondition: the runner can read the file, or no carriage return was stripped from the comment); "+
		"(4) every Suggest is applied to the file's bytes and the edited file compared with the file edited at the bytes the match stands for (harness's own arithmetic), and, carriage returns ignored, with the edit done on the comment text. "+
		"Distinct by (rule set, file, comment); non-trivial when some rule's regexp matches the comment.", nSets, nFiles, nAssert)

	if err := c12Scan(c); err != nil {
		return err
	}

	if err := c12HasCap(c); err != nil {
		return err
	}
	if err := c12E2E(c, nSets, nFiles, nAssert); err != nil {
		return err
	}
	return c12Malformed(c)
}

// c12Scan: (a) go/parser's comment text vs the model of the scanner's carriage-return stripping;
// (b) commentTextSpan (through the hook) vs the model, on sources that are, and are not, the text's.
func c12Scan(c *Ctx) error {
	res := c.Res
	r := hx.Rng(c.Seed, "c12-scan")
	n := 400
	if c.Thorough {
		n = 12000
	}
	alphabet := []string{"\r", "\r", "\r", "*", "/", "a", " ", "\n", "é", "*\r/", "\r\n", "*\r\r/", "b"}
	var ops, impl, ops2, impl2 []string
	var inputs, inputs2 []interface{}
	hand := []string{"//\r", "// a\r", "//\r\r", "/*\r*/", "/*\r/*/", "/**\r/*/", "/* *\r/ */", "/* \r*\r/ */", "/* *\r\r/ */", "/*\r\n*/", "// a\rb", "//a\r\rb\r", "/***\r/*/", "/* a\r\n foo */"}
	for i := 0; i < n+len(hand); i++ {
		var raw string
		if i < len(hand) {
			raw = hand[i]
		} else {
			var sb strings.Builder
			k := r.Intn(9)
			for j := 0; j < k; j++ {
				sb.WriteString(alphabet[r.Intn(len(alphabet))])
			}
			body := sb.String()
			if r.Intn(3) == 0 {
				raw = "//" + strings.ReplaceAll(body, "\n", "\r")
			} else {
				raw = "/*" + strings.ReplaceAll(body, "*/", "*\r/") + "*/"
				if k := strings.Index(raw[2:], "*/"); k+4 != len(raw) { // the body ended in `*`: `/*…**/` is fine, `/*/` + `*/` is not one comment
					raw = "/* " + strings.ReplaceAll(body, "*/", "*\r/") + " */"
				}
			}
		}
		pre := []string{"package p\n", "package p\r\n", "", "package p\n\tvar x = 1 "}[r.Intn(4)]
		post := []string{"\n", "\npackage q\n", ""}[r.Intn(3)]
		if pre == "" {
			post = "\npackage p\n"
		}
		if strings.HasSuffix(post, "package q\n") {
			post = "\nvar y = 2\n"
		}
		src := pre + raw + post
		t, perr := hx.ParseTargetMem("scan.go", src)
		if perr != nil || len(t.File.Comments) == 0 {
			res.Dist("scantext:unparsable")
			continue
		}
		cm := t.File.Comments[0].List[0]
		off := t.Fset.Position(cm.Pos()).Offset
		if off != len(pre) || c12RawEnd(src, off) != len(pre)+len(raw) {
			res.Errorf("c12 scan: comment %q of %q found at %d..%d", raw, src, off, c12RawEnd(src, off))
			continue
		}
		ops = append(ops, "scantext "+hx.HexS(raw))
		impl = append(impl, hx.HexS(cm.Text))
		inputs = append(inputs, map[string]interface{}{"raw": raw, "file": src})
		res.Count("scantext", raw, strings.Contains(raw, "\r"))
		switch {
		case !strings.Contains(raw, "\r"):
			res.Dist("scantext:no-cr")
		case strings.Contains(cm.Text, "\r"):
			res.Dist("scantext:cr-kept")
		default:
			res.Dist("scantext:cr-stripped")
		}
		// commentTextSpan on this comment: every index pair of a short text, a sample of a long one
		text := cm.Text
		for k := 0; k < 6; k++ {
			b, e := 0, 0
			if len(text) > 0 {
				b = r.Intn(len(text) + 1)
				e = b + r.Intn(len(text)+1-b)
			}
			srcArg, base, textArg := src, off, text
			kind := "own-source"
			switch r.Intn(10) {
			case 0:
				srcArg, kind = "", "no-source"
			case 1:
				srcArg, kind = strings.ReplaceAll(src, "\r", ""), "source-without-cr"
				base = strings.Index(srcArg, c12NoCR(raw))
			case 2:
				if len(text) > 3 {
					bs := []byte(src)
					bs[off+2+r.Intn(len(raw)-2)] ^= 1
					srcArg, kind = string(bs), "source-differs"
				}
			case 3:
				e, kind = len(text)+1+r.Intn(2), "end-out-of-range"
				if r.Intn(2) == 0 {
					srcArg = src[:off+r.Intn(len(raw)+1)]
				}
			case 4:
				base, kind = len(src)+r.Intn(3), "base-at-or-past-end"
			case 5:
				srcArg, kind = src[:off+r.Intn(len(raw)+1)], "source-cut-short"
			}
			if base < 0 {
				base = 0
			}
			ops2 = append(ops2, fmt.Sprintf("textspan %s %d %s %d %d", hx.HexS(srcArg), base, hx.HexS(textArg), b, e))
			impl2 = append(impl2, hx.Safe(func() string {
				f, t := ruleguard.VerifCommentTextSpan([]byte(srcArg), base, textArg, b, e)
				return fmt.Sprintf("ok %d %d", f, t)
			}))
			inputs2 = append(inputs2, map[string]interface{}{"src": srcArg, "base": base, "text": textArg, "begin": b, "end": e})
			res.Count("textspan", fmt.Sprintf("%q/%d/%q/%d/%d", srcArg, base, textArg, b, e), true)
			out := impl2[len(impl2)-1]
			switch {
			case strings.HasPrefix(out, "panic"):
				res.Dist("textspan:" + kind + ":panic")
			case out == fmt.Sprintf("ok %d %d", base+b, base+e):
				res.Dist("textspan:" + kind + ":plain-arithmetic")
			default:
				res.Dist("textspan:" + kind + ":shifted")
			}
		}
	}
	if err := res.Compare(c.Drv, "scantext", ops, impl, inputs); err != nil {
		return err
	}
	return res.Compare(c.Drv, "textspan", ops2, impl2, inputs2)
}

func c12HasCap(c *Ctx) error {
	res := c.Res
	r := hx.Rng(c.Seed, "c12-hascap")
	pats := []string{"", "a", "(a)", "(?:a)", "(?P<n>a)", "a|(b)", "(?:a|(?:b(c)))", "[(]", `\(`, "(", "(?P<n", `\Q(a)\E`, "(?i:a)", "((a))", "a{2}", "(a){2}", "x(?:y)z*", "(?s).*", "(?:(?:(?:a)))", "(?:a)(b)?"}
	n := 300
	if c.Thorough {
		n = 5000
	}
	for i := 0; i < n; i++ {
		if i%2 == 0 {
			pats = append(pats, c12Regexp(r))
		} else {
			pats = append(pats, c11GenPattern(r).src)
		}
	}
	var ops, impl []string
	var inputs []interface{}
	for _, p := range pats {
		tree := "err"
		st, err := syntax.Parse(p, syntax.Perl)
		if err == nil {
			tree = c11Tree(st)
		}
		ops = append(ops, "hascap "+tree)
		impl = append(impl, hx.Safe(func() string { return c11B(ruleguard.VerifRegexpHasCaptureGroups(p)) }))
		inputs = append(inputs, map[string]interface{}{"pattern": p})
		res.Count("hascap", p, true)
		res.Dist("hascap:" + impl[len(impl)-1])
	}
	return res.Compare(c.Drv, "hascap", ops, impl, inputs)
}

type c12Case struct {
	rules []c12Rule
	files []string
}

// c12FixedCases: small hand-picked cases run first, so that the witnesses of known defect classes are minimal.
func c12FixedCases() []c12Case {
	return []c12Case{
		{[]c12Rule{{group: "g0", alts: []string{"(?P<w>foo)"}, report: "w=$w all=$$", suggest: "X"}},
			[]string{"package p\n// a foo b\n", "package p\r\n/* a\r\n foo */\r\n", "// foo\npackage p\n", "package p\n/* foo */", "package p\r\n// foo\r\n"}},
		// carriage returns: a match before / after / across the stripped ones, an empty group at the end of a line, a kept `*\r/`,
		// a stray one inside the match, the final one of a `//` line, a block comment that ends at EOF
		{[]c12Rule{{group: "g0", alts: []string{`(?s)(?P<x>a.*foo)`}, filter: []c12Atom{{true, "x", "a\n foo"}}, report: "x=$x", suggest: "$$!", at: "x"},
			{group: "g0", alts: []string{`(?m)b(?P<e>$)`}, report: "eol", suggest: ";", at: "e"},
			{group: "g1", alts: []string{`(?P<s>\*)(?P<r>\r)/`}, report: "kept [$r]", suggest: "<$s>", at: "r"},
			{group: "g1", alts: []string{`(?P<w>x\w*)$`}, report: "last=$w", suggest: "$w$w"}},
			[]string{"package p\r\n/* a\r\n foo */\r\n", "package p\r\n/* b\r\n\r\n b\r *\r\r/ */\r\nvar v = 1 // xy\r\r\n// xz\r\n/* c\r\n foo xyz*/", "/*\r\n a\r\r\n foo*\r/\r\n*/package p\r\n"}},
		{[]c12Rule{{group: "g0", alts: []string{"begining", "bizzare"}, report: "$$ may contain a typo"}},
			[]string{"package p\n// a bizzare begining\n// bizzare\n"}},
		{[]c12Rule{{group: "g0", alts: []string{"(?P<x>collegue)|(commitee)"}, report: "x=[$x] $$"}, {group: "g0", alts: []string{"commitee"}, report: "second"}},
			[]string{"package p\n// commitee collegue\n/* commitee */\n"}},
		{[]c12Rule{{group: "g0", alts: []string{"//go:(?P<x>\\w+)"}, filter: []c12Atom{{false, "x", "generate"}}, report: "don't use $x"},
			{group: "g1", alts: []string{"go:(?P<y>g\\w*)"}, report: "fallthrough $y", suggest: "<$y>", at: "y"}},
			[]string{"package p\n//go:generate x\n//go:noinline\n"}},
	}
}

func c12E2E(c *Ctx, nSets, nFiles, nAssert int) error {
	res := c.Res
	r := hx.Rng(c.Seed, "c12-e2e")
	tmp, err := os.MkdirTemp("", "c12-")
	if err != nil {
		return err
	}
	defer os.RemoveAll(tmp)
	var ops, impl, specOps []string
	var inputs []interface{}
	var scanOps, scanImpl []string
	var scanInputs []interface{}
	var fixed []c12Set
	for _, f := range c12FixedCases() {
		fixed = append(fixed, c12Set{rules: f.rules, files: f.files})
	}
	fixed = append(fixed, c12AssertSets(hx.Rng(c.Seed, "c12-assert"), nAssert)...)
	for si := 0; si < nSets+len(fixed); si++ {
		// a rule set: 1..3 groups of 1..3 rules (after the hand-picked small cases and the position-assertion sets)
		var rules []c12Rule
		var fixedFiles []string
		var fixedKinds [][]string
		assert := false
		if si < len(fixed) {
			rules, fixedFiles, fixedKinds, assert = fixed[si].rules, fixed[si].files, fixed[si].kinds, fixed[si].assert
		} else {
			ng := 1 + r.Intn(3)
			for g := 0; g < ng; g++ {
				nr := 1 + r.Intn(3)
				for k := 0; k < nr; k++ {
					rules = append(rules, c12GenRule(r, fmt.Sprintf("g%d", g)))
				}
			}
		}
		rulesSrc := c12RulesFile(rules)
		e, lerr := hx.LoadRules(rulesSrc)
		if lerr != nil {
			res.Errorf("c12: load failed: %v\n%s", lerr, rulesSrc)
			continue
		}
		var flat []c12Loaded
		for i := range rules {
			for a, p := range rules[i].alts {
				flat = append(flat, c12Loaded{rule: &rules[i], alt: a, re: regexp.MustCompile(p), cg: ruleguard.VerifRegexpHasCaptureGroups(p)})
			}
		}
		nf := nFiles
		if fixedFiles != nil {
			nf = 2 * len(fixedFiles)
		}
		for fi := 0; fi < nf; fi++ {
			crlf := fi%4 == 3 || fi%8 == 4 // on disk (3, 7, …) and in memory (4, 12, …)
			onDisk := fi%2 == 1
			var src string
			var kinds []string
			if fixedFiles != nil {
				src, kinds = fixedFiles[fi/2], []string{"hand-picked"}
				if fixedKinds != nil {
					kinds = append([]string{"assert-set"}, fixedKinds[fi/2]...)
				}
			} else {
				src, kinds = c12File(r, crlf)
			}
			name := fmt.Sprintf("s%df%d.go", si, fi)
			if onDisk {
				name = filepath.Join(tmp, name)
				if err := os.WriteFile(name, []byte(src), 0o644); err != nil {
					return err
				}
				kinds = append(kinds, "on-disk")
			} else {
				kinds = append(kinds, "in-memory")
			}
			t, perr := hx.ParseTargetMem(name, src)
			if perr != nil {
				res.Errorf("c12: target does not parse: %v\n%q", perr, src)
				continue
			}
			cfg := []int{0, 0, 0, 7, 12, 1000}[r.Intn(6)]
			reports, pk, _, rerr := hx.Run(e, t, hx.RunOpts{TruncateLen: cfg})
			if rerr != nil {
				return rerr
			}
			for _, k := range kinds {
				res.Dist("file:" + k)
			}
			// comments in the order the runner visits them
			type cm struct {
				off  int
				text string
			}
			var cms []cm
			for _, g := range t.File.Comments {
				for _, cc := range g.List {
					cms = append(cms, cm{t.Fset.Position(cc.Pos()).Offset, cc.Text})
				}
			}
			// attribute each report to the last comment starting at or before its position; an empty node where one
			// comment ends and the next one begins (`/*a*//*b*/`) belongs to the one in which the reporting alternative's
			// At group (or whole match) lies there
			byComment := map[int][]hx.Report{}
			for _, rep := range reports {
				at := -1
				for i, cc := range cms {
					if cc.off <= rep.Pos {
						at = i
					}
				}
				if at > 0 && rep.Pos == rep.End && rep.Pos == cms[at].off && c12RawEnd(src, cms[at-1].off) == rep.Pos &&
					len(byComment[at-1]) == 0 && !c12GroupAt(flat, cms[at].text, rep.RuleLine, 0) && c12GroupAt(flat, cms[at-1].text, rep.RuleLine, len(cms[at-1].text)) {
					at--
					res.Dist("attribution:empty-node-between-adjacent-comments")
				}
				byComment[at] = append(byComment[at], rep)
			}
			if pk != "" || len(byComment[-1]) > 0 {
				res.Violate(hx.Violation{Signature: "Engine.Run:comment-rules:" + strings.TrimSpace(pk+" unattributable-report"), What: "a run of well-formed comment rules failed",
					Input: map[string]interface{}{"rules": rulesSrc, "file": src, "on_disk": onDisk}, Impl: fmt.Sprintf("%s %v", pk, byComment[-1]), Spec: "no panic; every report inside a comment"})
				res.Disagree(hx.Disagreement{Suite: "e2e", Op: "run", Impl: pk, Model: "ok", Input: map[string]interface{}{"rules": rulesSrc, "file": src}})
				continue
			}
			fileSrc := ""
			if onDisk {
				fileSrc = src
			}
			for ci, cc := range cms {
				got := "none"
				switch len(byComment[ci]) {
				case 0:
				case 1:
					got = c12ShowReport(byComment[ci][0], nil)
				default:
					got = fmt.Sprintf("%d reports for one comment", len(byComment[ci]))
				}
				// the scanner model on this comment; the harness's own alignment of text and source
				raw := src[cc.off:c12RawEnd(src, cc.off)]
				scanOps = append(scanOps, "scantext "+hx.HexS(raw))
				scanImpl = append(scanImpl, hx.HexS(cc.text))
				scanInputs = append(scanInputs, map[string]interface{}{"raw": raw, "file": src})
				res.Count("scantext", "e2e:"+raw, raw != cc.text)
				crStripped := raw != cc.text
				if crStripped {
					res.Dist("comment:cr-stripped")
				}
				if len(byComment[ci]) == 1 && byComment[ci][0].HasSugg && (onDisk || !crStripped) {
					c12CheckEdit(res, flat, src, cc.off, raw, cc.text, byComment[ci][0], map[string]interface{}{"rules": rulesSrc, "file": src, "on_disk": onDisk, "comment_offset": cc.off, "comment_text": cc.text})
				}
				rs := c12RulesSexp(flat, cc.text)
				ops = append(ops, fmt.Sprintf("cmrun %s %d %s %d %d %s %s", c12Variant, cfg, hx.HexS(fileSrc), len(src), cc.off, hx.HexS(cc.text), rs))
				impl = append(impl, got)
				specOps = append(specOps, fmt.Sprintf("spec12 %d %s %d %s %s %s", cfg, hx.HexS(src), cc.off, hx.HexS(cc.text), rs, strings.ReplaceAll(got, " ", ";")))
				if !onDisk && crStripped {
					// the runner cannot read the file and the comment text is not the file's bytes: it has no way of
					// knowing where the carriage returns were; outside the property's domain, left to the correspondence
					specOps[len(specOps)-1] = ""
					res.Dist("spec12:skipped:unreadable-file-and-cr-stripped")
				}
				in := map[string]interface{}{"rules": rulesSrc, "file": src, "on_disk": onDisk, "comment_offset": cc.off, "comment_text": cc.text, "TruncateLen": cfg, "cr_stripped": crStripped}
				inputs = append(inputs, in)
				matched := false
				for _, l := range flat {
					matched = matched || l.re.MatchString(cc.text)
				}
				if assert && !onDisk {
					c12AssertDist(res, flat, cc.text)
				}
				res.Count("e2e", fmt.Sprintf("%d/%d/%d", si, fi, ci), matched)
				if got == "none" {
					res.Dist("comment:no-report")
				} else {
					res.Dist("comment:report")
				}
			}
		}
	}
	if len(ops) > 0 {
		res.Sample(map[string]interface{}{"op": ops[len(ops)/2], "impl": impl[len(impl)/2]})
	}
	if err := res.Compare(c.Drv, "e2e", ops, impl, inputs); err != nil {
		return err
	}
	if err := res.Compare(c.Drv, "scantext", scanOps, scanImpl, scanInputs); err != nil {
		return err
	}
	// the executable statement of the property on the implementation's own outcome
	var askOps []string
	var askIdx []int
	for i, o := range specOps {
		if o != "" {
			askOps = append(askOps, o)
			askIdx = append(askIdx, i)
		}
	}
	askAns, err := c.Drv.Ask(askOps)
	if err != nil {
		return err
	}
	ans := make([]string, len(specOps))
	for i := range ans {
		ans[i] = "holds"
	}
	for k, a := range askAns {
		ans[askIdx[k]] = a
	}
	for i, a := range ans {
		if a == "holds" {
			continue
		}
		in := inputs[i].(map[string]interface{})
		if a == "bad-op" { // more than one report for a comment, or a position outside the file
			res.Violate(hx.Violation{Signature: "comment-rule:ill-formed-outcome", What: "the outcome for one comment is not `no report` or one report with positions inside the file",
				Input: in, Impl: impl[i], Spec: "at most one report per comment"})
			continue
		}
		// go/scanner strips carriage returns from comment text: inside a multi-line block comment of a CRLF
		// file the text is shorter than the bytes it came from
		crStripped := in["cr_stripped"].(bool)
		for _, clause := range strings.Split(strings.TrimPrefix(a, "violates "), ",") {
			sig := "comment-rule:" + clause
			switch {
			case clause == "rule-line":
				sig = "loadCommentRule:reports-the-rule-line-not-the-alternative-line"
			case crStripped && (clause == "span" || clause == "span-bytes" || clause == "suggest-span"):
				// (which rule reports, and with which texts, does not depend on where the carriage returns were)
				sig = "runCommentRules:CR-stripped-comment-text:offsets-into-Text-used-as-file-offsets"
			}
			res.Dist("spec12:" + clause)
			res.Violate(hx.Violation{Signature: sig, What: "SpecC12.verdict: clause " + clause + " is violated by the implementation's outcome for this comment",
				Input: in, Impl: impl[i], Spec: a})
		}
	}
	return nil
}

// c12GroupAt: does the alternative on line `line` put its At group (or whole match) as an empty piece at index i of text
func c12GroupAt(flat []c12Loaded, text string, line, i int) bool {
	for k := range flat {
		l := &flat[k]
		if l.rule.altLines[l.alt] != line {
			continue
		}
		idx := l.re.FindStringSubmatchIndex(text)
		if idx == nil {
			return false
		}
		lo, hi := idx[0], idx[1]
		if l.rule.at != "" {
			for gi, nm := range l.re.SubexpNames() {
				if gi > 0 && nm == l.rule.at {
					lo, hi = idx[2*gi], idx[2*gi+1]
					break
				}
			}
		}
		return lo == i && hi == i
	}
	return false
}

// c12CheckEdit applies the report's Suggest to the file's bytes and compares the result with the file edited where
// the harness's own arithmetic puts the match: the reporting alternative is found by its line, the match (or the At
// group) by the real regexp on the comment text, its place in the file by c12Origins.  Second, without any
// alignment: with carriage returns ignored, the edited file is the file with the edit done on the comment text.
func c12CheckEdit(res *hx.Result, flat []c12Loaded, src string, off int, raw, text string, rep hx.Report, in map[string]interface{}) {
	var l *c12Loaded
	for i := range flat {
		if flat[i].rule.altLines[flat[i].alt] == rep.RuleLine {
			l = &flat[i]
			break
		}
	}
	if l == nil {
		return // the rule-line clause of the spec reports this
	}
	idx := l.re.FindStringSubmatchIndex(text)
	if idx == nil {
		return // not the first accepting rule: the spec reports this
	}
	lo, hi := idx[0], idx[1]
	if l.rule.at != "" {
		for gi, nm := range l.re.SubexpNames() {
			if gi > 0 && nm == l.rule.at {
				lo, hi = idx[2*gi], idx[2*gi+1]
				break
			}
		}
		if lo < 0 || hi < 0 {
			lo, hi = 0, 0 // a group that did not participate sits, empty, at the comment's start
		}
	}
	at, ok := c12Origins(raw, text)
	if !ok {
		res.Errorf("c12: comment text %q is not its source %q with carriage returns removed", text, raw)
		return
	}
	f, t := c12RawSpan(at, lo, hi)
	want := src[:off+f] + rep.Repl + src[off+t:]
	got := "edit outside the file"
	if 0 <= rep.From && rep.From <= rep.To && rep.To <= len(src) {
		got = src[:rep.From] + rep.Repl + src[rep.To:]
	}
	res.Count("suggest-edit", fmt.Sprintf("%q/%d/%d/%q", src, rep.From, rep.To, rep.Repl), true)
	if raw != text {
		res.Dist("suggest-edit:cr-stripped-comment")
		if c12NoCR(src[off+f:off+t]) != src[off+f:off+t] {
			res.Dist("suggest-edit:cr-inside-the-replaced-span")
		}
	} else {
		res.Dist("suggest-edit:plain")
	}
	wantNoCR := c12NoCR(src[:off]) + c12NoCR(text[:lo]+rep.Repl+text[hi:]) + c12NoCR(src[off+len(raw):])
	if got != want || c12NoCR(got) != wantNoCR {
		sig := "comment-rule:suggest-edit"
		if raw != text {
			sig = "runCommentRules:CR-stripped-comment-text:offsets-into-Text-used-as-file-offsets"
		}
		in["edited"] = got
		res.Violate(hx.Violation{Signature: sig, What: "applying the Suggest to the file's bytes does not replace the bytes the match stands for",
			Input: in, Impl: fmt.Sprintf("%d:%d %q -> %q", rep.From, rep.To, rep.Repl, got), Spec: fmt.Sprintf("%d:%d -> %q", off+f, off+t, want)})
	}
}

// c12Malformed: rule shapes outside the property's quantifier (At / Where naming a group the regexp does not
// have, an alternative lacking the variable, invalid regexps).  The model is compared as it is (nil nodes and
// nil-dereference panics included); nothing here is judged by the spec.
func c12Malformed(c *Ctx) error {
	res := c.Res
	type tc struct {
		rules []c12Rule
		file  string
	}
	file := "package p\n// a foo b\n"
	cases := []tc{
		{[]c12Rule{{group: "g0", alts: []string{"(?P<w>foo)"}, report: "w=$w", at: "nosuch"}}, file},
		{[]c12Rule{{group: "g0", alts: []string{"(?P<w>foo)"}, suggest: "w=$w", at: "nosuch"}}, file},
		{[]c12Rule{{group: "g0", alts: []string{"(?P<w>foo)"}, report: "w=$w", filter: []c12Atom{{true, "nosuch", "a"}}}}, file},
		{[]c12Rule{{group: "g0", alts: []string{"(?P<w>foo)"}, report: "w=$w", filter: []c12Atom{{true, "w", "zzz"}, {true, "nosuch", "a"}}}}, file},
		{[]c12Rule{{group: "g0", alts: []string{"(?P<v>zzz)", "(?P<w>foo)"}, report: "w=$w v=$v", at: "v"}}, file},
		{[]c12Rule{{group: "g0", alts: []string{"foo"}, report: "$$", at: "$$"}}, file},
		{[]c12Rule{{group: "g0", alts: []string{"foo"}, report: "$$", filter: []c12Atom{{true, "w", "foo"}}}}, file},
		{[]c12Rule{{group: "g0", alts: []string{"(?P<a>f)(?P<a>o)"}, report: "$a", at: "a"}}, file},
		{[]c12Rule{{group: "g0", alts: []string{"(?P<a1>f)(?P<a2>o)(?P<a3>o)(?P<a4> )(?P<a5>b)"}, report: "$a1$a2$a3$a4$a5$a6"}}, file},
	}
	var ops, impl []string
	var inputs []interface{}
	for i, t := range cases {
		rules := t.rules
		rulesSrc := c12RulesFile(rules)
		e, lerr := hx.LoadRules(rulesSrc)
		if lerr != nil {
			// since `fix: Load rejects At() and comment-rule filter variables that the pattern does not bind`
			// these shapes are located load errors (C06); anything else is unexpected
			if strings.Contains(lerr.Error(), "non-existing var") && !strings.HasPrefix(lerr.Error(), "PANIC") {
				res.Count("malformed-load", fmt.Sprint(i), true)
				res.Dist("malformed:rejected-at-load")
				continue
			}
			res.Errorf("c12 malformed %d: load: %v", i, lerr)
			continue
		}
		var flat []c12Loaded
		for k := range rules {
			for a, p := range rules[k].alts {
				flat = append(flat, c12Loaded{rule: &rules[k], alt: a, re: regexp.MustCompile(p), cg: ruleguard.VerifRegexpHasCaptureGroups(p)})
			}
		}
		tg, perr := hx.ParseTargetMem(fmt.Sprintf("m%d.go", i), t.file)
		if perr != nil {
			return perr
		}
		reports, pk, _, rerr := hx.Run(e, tg, hx.RunOpts{})
		if rerr != nil {
			return rerr
		}
		got := "none"
		switch {
		case pk != "":
			got = pk
		case len(reports) == 1:
			got = c12ShowReport(reports[0], nil)
		case len(reports) > 1:
			got = fmt.Sprintf("%d reports", len(reports))
		}
		cm := tg.File.Comments[0].List[0]
		ops = append(ops, fmt.Sprintf("cmrun %s 0 - %d %d %s %s", c12Variant, len(t.file), tg.Fset.Position(cm.Pos()).Offset, hx.HexS(cm.Text), c12RulesSexp(flat, cm.Text)))
		impl = append(impl, got)
		inputs = append(inputs, map[string]interface{}{"rules": rulesSrc, "file": t.file})
		res.Count("malformed", fmt.Sprint(i), true)
		res.Dist("malformed:" + strings.SplitN(got, " ", 3)[0] + " " + strings.SplitN(got+" ", " ", 3)[1])
	}
	// invalid regexps must be a load error, never a panic
	for _, p := range []string{"(", "(?P<n", "a{2,1}", "\\", "[a", "(?P<n>a"} {
		rules := []c12Rule{{group: "g0", alts: []string{p}, report: "x"}}
		_, lerr := hx.LoadRules(c12RulesFile(rules))
		res.Count("malformed-load", p, true)
		if lerr == nil || strings.HasPrefix(lerr.Error(), "PANIC") {
			res.Violate(hx.Violation{Signature: "loadCommentRule:invalid-regexp-not-a-load-error", What: "an invalid MatchComment regexp is not reported as a load error",
				Input: map[string]interface{}{"pattern": p}, Impl: fmt.Sprint(lerr), Spec: "load error"})
		}
	}
	return res.Compare(c.Drv, "malformed", ops, impl, inputs)
}
