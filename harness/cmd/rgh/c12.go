package main

import (
	"fmt"
	"math/rand"
	"os"
	"path/filepath"
	"regexp"
	"regexp/syntax"
	"sort"
	"strconv"
	"strings"

	"github.com/quasilyte/go-ruleguard/ruleguard"
	"verifharness/hx"
)

func init() { register("C12", runC12) }

// c12DefaultVariant chooses the Lean variant the correspondence compares the code with:
// "asis" = runner.go / ir_loader.go as they stand, "fixed" = after fixes/comment-rule-line.diff
// (a comment rule reports the line of the matching alternative).
const c12DefaultVariant = "fixed"

var c12Variant = func() string {
	if v := os.Getenv("VERIF_C12_VARIANT"); v == "asis" || v == "fixed" {
		return v
	}
	return c12DefaultVariant
}()

// ---------------------------------------------------------------- rules

type c12Atom struct {
	eq       bool
	vr, lit  string
}

type c12Rule struct {
	group    string
	alts     []string // regexps
	altLines []int
	line     int
	filter   []c12Atom // nil: no Where
	report   string    // "" = no Report()
	suggest  string    // "" = no Suggest()
	at       string    // "" = no At()
}

// msg as irconv builds it: the Report template, or "suggestion: "+Suggest template
func (r *c12Rule) msg() string {
	if r.report != "" || r.suggest == "" {
		return r.report
	}
	return "suggestion: " + r.suggest
}

var c12Words = []string{"foo", "bar", "TODO", "nolint", "é", "世界", "x", "fix", "b", "FIXME", "a", "ж", "go", "baz"}

func c12W(r *rand.Rand) string { return c12Words[r.Intn(len(c12Words))] }

// c12Regexp draws a regexp with some mix of named / unnamed / non-participating / nested groups.
func c12Regexp(r *rand.Rand) string {
	w, v := regexp.QuoteMeta(c12W(r)), regexp.QuoteMeta(c12W(r))
	t := []string{
		"W", "W", "W|V", "(?:W)", "(W)", "(W)|(V)",
		"(?P<a>W)", "(?P<a>W)", "(?P<a>W)|(?P<b>V)", "(W)|(?P<b>V)", "(?P<a>W)|(V)",
		"(?P<a>W(?P<b>V)?)", `(?P<a>\w+):(?P<bb>\w*)`, "(?P<a>W)*", `^//\s*(?P<a>\w+)`, `(?s)/\*.*(?P<a>W).*`,
		"(?P<a>)W", "(?P<a>W)(?P<ab> ?V)", "(?P<ab>W)|(?P<a>V)", `\b(?P<w>\pL+)\b`, "(?P<a>.)$", "(?i)(?P<a>W)",
		`(?m)^(?P<a>\s*\*.*)$`, `(?P<a>W) (?P<b>V)`, `(?P<a>[^ ]+) (?P<b>[^ ]*)$`, "((?P<a>W)|(?P<b>V))+", `(?P<a>\PL*)W`, `(?s)(?P<a>W.*V)`,
		`(?P<a>W)|(?P<a>V)`, `(?P<x1>W)(?P<x12>.?)`, `(?P<a>W)?V`, `(?P<long_name>W)`, `W(?P<a>\s*)`, `(?P<a>(?P<b>(?P<c>W)))`,
	}
	s := t[r.Intn(len(t))]
	return strings.NewReplacer("W", w, "V", v).Replace(s)
}

func c12Names(re *regexp.Regexp) []string {
	var out []string
	seen := map[string]bool{}
	for i, n := range re.SubexpNames() {
		if i > 0 && n != "" && !seen[n] {
			seen[n] = true
			out = append(out, n)
		}
	}
	return out
}

// c12Template draws a message template over the group names of the alternatives.
func c12Template(r *rand.Rand, names []string) string {
	parts := []string{"$$", "$$", "<$$>", "$", " $ ", "cost $5", "$nosuch", "$$$", "$$$$", "x", "é", " ", "=", "$$a"}
	for _, n := range names {
		parts = append(parts, "$"+n, "$"+n, "["+"$"+n+"]", "$"+n+"z", "$"+n+"$"+n)
	}
	n := 1 + r.Intn(4)
	var sb strings.Builder
	for i := 0; i < n; i++ {
		sb.WriteString(parts[r.Intn(len(parts))])
		if r.Intn(3) == 0 {
			sb.WriteString([]string{" ", ":", "", "-"}[r.Intn(4)])
		}
	}
	if sb.Len() == 0 {
		return "m"
	}
	return sb.String()
}

func c12GenRule(r *rand.Rand, group string) c12Rule {
	rule := c12Rule{group: group}
	n := 1
	if r.Intn(4) == 0 {
		n = 2 + r.Intn(2)
	}
	nameSet := map[string]bool{}
	for i := 0; i < n; i++ {
		p := c12Regexp(r)
		re, err := regexp.Compile(p)
		if err != nil {
			continue
		}
		rule.alts = append(rule.alts, p)
		for _, nm := range c12Names(re) {
			nameSet[nm] = true
		}
	}
	if len(rule.alts) == 0 {
		rule.alts = []string{"foo"}
	}
	var names []string
	for nm := range nameSet {
		names = append(names, nm)
	}
	sort.Strings(names)
	// variables every alternative defines (a filter / At on a variable some alternative lacks is a nil-node panic: malformed stream)
	var common []string
	for _, nm := range names {
		all := true
		for _, p := range rule.alts {
			has := false
			for _, x := range c12Names(regexp.MustCompile(p)) {
				has = has || x == nm
			}
			all = all && has
		}
		if all {
			common = append(common, nm)
		}
	}
	switch r.Intn(5) {
	case 0:
		rule.suggest = c12Template(r, names)
	case 1:
		rule.report = c12Template(r, names)
		rule.suggest = c12Template(r, names)
	default:
		rule.report = c12Template(r, names)
	}
	if r.Intn(3) == 0 {
		vars := append([]string{"$$"}, common...)
		k := 1 + r.Intn(2)
		for i := 0; i < k; i++ {
			rule.filter = append(rule.filter, c12Atom{eq: r.Intn(3) == 0, vr: vars[r.Intn(len(vars))], lit: []string{c12W(r), c12W(r), "", "o", " " + c12W(r)}[r.Intn(5)]})
		}
	}
	if len(common) > 0 && r.Intn(4) == 0 {
		rule.at = common[r.Intn(len(common))]
	}
	return rule
}

// c12RulesFile renders the rules (one alternative per line so that every alternative has its own line).
func c12RulesFile(rules []c12Rule) string {
	var sb strings.Builder
	sb.WriteString("package gorules\n\nimport \"github.com/quasilyte/go-ruleguard/dsl\"\n\n")
	line := 5
	cur := ""
	for i := range rules {
		ru := &rules[i]
		if ru.group != cur {
			if cur != "" {
				sb.WriteString("}\n")
				line++
			}
			fmt.Fprintf(&sb, "func %s(m dsl.Matcher) {\n", ru.group)
			line++
			cur = ru.group
		}
		ru.line = line
		sb.WriteString("\tm.MatchComment(\n")
		line++
		for _, a := range ru.alts {
			fmt.Fprintf(&sb, "\t\t%s,\n", strconv.Quote(a))
			ru.altLines = append(ru.altLines, line)
			line++
		}
		sb.WriteString("\t)")
		if ru.filter != nil {
			var as []string
			for _, a := range ru.filter {
				op := "!="
				if a.eq {
					op = "=="
				}
				as = append(as, fmt.Sprintf("m[%s].Text %s %s", strconv.Quote(a.vr), op, strconv.Quote(a.lit)))
			}
			fmt.Fprintf(&sb, ".Where(%s)", strings.Join(as, " && "))
		}
		if ru.report != "" {
			fmt.Fprintf(&sb, ".Report(%s)", strconv.Quote(ru.report))
		}
		if ru.suggest != "" {
			fmt.Fprintf(&sb, ".Suggest(%s)", strconv.Quote(ru.suggest))
		}
		if ru.at != "" {
			fmt.Fprintf(&sb, ".At(m[%s])", strconv.Quote(ru.at))
		}
		sb.WriteString("\n")
		line++
	}
	sb.WriteString("}\n")
	return sb.String()
}

// ---------------------------------------------------------------- target files

func c12CommentText(r *rand.Rand) string {
	n := 1 + r.Intn(5)
	var ws []string
	for i := 0; i < n; i++ {
		switch r.Intn(8) {
		case 0:
			ws = append(ws, c12W(r)+":"+c12W(r))
		case 1:
			ws = append(ws, strings.ToUpper(c12W(r)))
		default:
			ws = append(ws, c12W(r))
		}
	}
	return strings.Join(ws, []string{" ", " ", "  ", ""}[r.Intn(4)])
}

// c12File builds a Go file with comments of every kind; kind describes what it exercises.
func c12File(r *rand.Rand, crlf bool) (src string, kinds []string) {
	var sb strings.Builder
	nl := "\n"
	if crlf {
		nl = "\r\n"
		kinds = append(kinds, "crlf")
	}
	if r.Intn(4) == 0 { // a comment at offset 0
		if r.Intn(2) == 0 {
			sb.WriteString("// " + c12CommentText(r) + nl)
		} else {
			sb.WriteString("/* " + c12CommentText(r) + " */" + nl)
		}
		kinds = append(kinds, "offset0")
	}
	sb.WriteString("package p" + nl)
	n := 2 + r.Intn(6)
	for i := 0; i < n; i++ {
		switch r.Intn(9) {
		case 0:
			sb.WriteString("// " + c12CommentText(r) + nl)
			kinds = append(kinds, "line")
		case 1:
			sb.WriteString("//" + c12CommentText(r) + nl + "// " + c12CommentText(r) + nl)
			kinds = append(kinds, "line-group")
		case 2:
			sb.WriteString("/* " + c12CommentText(r) + " */" + nl)
			kinds = append(kinds, "block")
		case 3:
			sb.WriteString("/* " + c12CommentText(r) + nl + " * " + c12CommentText(r) + nl + " " + c12CommentText(r) + " */" + nl)
			kinds = append(kinds, "block-multiline")
		case 4:
			sb.WriteString("/*" + c12CommentText(r) + "*//* " + c12CommentText(r) + " */ // " + c12CommentText(r) + nl)
			kinds = append(kinds, "adjacent")
		case 5:
			fmt.Fprintf(&sb, "var v%d = \"%s\" // %s%s", i, c12CommentText(r), c12CommentText(r), nl)
			kinds = append(kinds, "trailing")
		case 6:
			fmt.Fprintf(&sb, "func f%d( /* %s */ a int) int { // %s%s\treturn a /* %s */ + 1%s}%s", i, c12CommentText(r), c12CommentText(r), nl, c12CommentText(r), nl, nl)
			kinds = append(kinds, "inside-func")
		case 7:
			fmt.Fprintf(&sb, "var é%d = `ж%s` /* 世界 %s */%s", i, c12W(r), c12CommentText(r), nl)
			kinds = append(kinds, "multibyte-prefix")
		default:
			fmt.Fprintf(&sb, "var w%d = %d%s", i, i, nl)
		}
	}
	switch r.Intn(4) { // a comment that ends at EOF
	case 0:
		sb.WriteString("// " + c12CommentText(r))
		kinds = append(kinds, "eof-line")
	case 1:
		sb.WriteString("/* " + c12CommentText(r) + " */")
		kinds = append(kinds, "eof-block")
	}
	return sb.String(), kinds
}

// ---------------------------------------------------------------- protocol

func c12Ints(xs []int) string {
	if xs == nil {
		return "nil"
	}
	var ps []string
	for _, x := range xs {
		ps = append(ps, strconv.Itoa(x))
	}
	return "(" + strings.Join(ps, ",") + ")"
}

type c12Loaded struct {
	rule *c12Rule
	alt  int
	re   *regexp.Regexp
	cg   bool
}

// c12RulesSexp renders the flat commentRules list with the regexp's answers for one comment text.
func c12RulesSexp(flat []c12Loaded, text string) string {
	var rs []string
	for _, l := range flat {
		var names []string
		for _, n := range l.re.SubexpNames() {
			names = append(names, hx.HexS(n))
		}
		filter := "nil"
		if l.rule.filter != nil {
			var as []string
			for _, a := range l.rule.filter {
				op := "ne"
				if a.eq {
					op = "eq"
				}
				as = append(as, fmt.Sprintf("(%s,%s,%s)", op, hx.HexS(a.vr), hx.HexS(a.lit)))
			}
			filter = "(" + strings.Join(as, ",") + ")"
		}
		cg := "0"
		if l.cg {
			cg = "1"
		}
		rs = append(rs, fmt.Sprintf("(%s,(%s),%s,%s,%s,%s,%s,%s,%d,%d)", cg, strings.Join(names, ","),
			c12Ints(l.re.FindStringSubmatchIndex(text)), c12Ints(l.re.FindStringIndex(text)), filter,
			hx.HexS(l.rule.msg()), hx.HexS(l.rule.at), hx.HexS(l.rule.suggest), l.rule.line, l.rule.altLines[l.alt]))
	}
	return "(" + strings.Join(rs, ",") + ")"
}

func c12ShowReport(r hx.Report, lineOf map[string]int) string {
	node := "nil"
	if !r.NodeNil {
		node = fmt.Sprintf("%d:%d", r.Pos, r.End)
	}
	sugg := "none"
	if r.HasSugg {
		sugg = fmt.Sprintf("%d:%d:%s", r.From, r.To, hx.HexS(r.Repl))
	}
	return fmt.Sprintf("report %d %s %s %s", r.RuleLine, node, hx.HexS(r.Message), sugg)
}

// ---------------------------------------------------------------- the run

func runC12(c *Ctx) error {
	res := c.Res
	nSets, nFiles := 250, 8
	if c.Thorough {
		nSets, nFiles = 6000, 12
	}
	res.Rule = fmt.Sprintf("(1) hascap: regexpHasCaptureGroups through the hook vs the model's walk over syntax.Parse's tree, on generated regexps; "+
		"(2) e2e: %d generated MatchComment rule sets (named / unnamed / non-participating / nested / duplicate-name groups, Where on group texts, Report/Suggest templates, At) x %d generated files each "+
		"(line, block, multi-line, adjacent, trailing, inside-function comments, multi-byte prefixes, a comment at offset 0, a comment ending at EOF, CRLF files; in memory and on disk) through Engine.Run: "+
		"every comment's report (Pos, End, Message, Suggestion, rule line) or absence of one vs model `runCommentRules` fed with the real regexp's index vectors; "+
		"(3) the executable statement `spec12` on every implementation report. Distinct by (rule set, file, comment); non-trivial when some rule's regexp matches the comment.", nSets, nFiles)

	if err := c12HasCap(c); err != nil {
		return err
	}
	if err := c12E2E(c, nSets, nFiles); err != nil {
		return err
	}
	return c12Malformed(c)
}

func c12HasCap(c *Ctx) error {
	res := c.Res
	r := hx.Rng(c.Seed, "c12-hascap")
	pats := []string{"", "a", "(a)", "(?:a)", "(?P<n>a)", "a|(b)", "(?:a|(?:b(c)))", "[(]", `\(`, "(", "(?P<n", `\Q(a)\E`, "(?i:a)", "((a))", "a{2}", "(a){2}", "x(?:y)z*", "(?s).*", "(?:(?:(?:a)))", "(?:a)(b)?"}
	n := 300
	if c.Thorough {
		n = 5000
	}
	for i := 0; i < n; i++ {
		if i%2 == 0 {
			pats = append(pats, c12Regexp(r))
		} else {
			pats = append(pats, c11GenPattern(r).src)
		}
	}
	var ops, impl []string
	var inputs []interface{}
	for _, p := range pats {
		tree := "err"
		st, err := syntax.Parse(p, syntax.Perl)
		if err == nil {
			tree = c11Tree(st)
		}
		ops = append(ops, "hascap "+tree)
		impl = append(impl, hx.Safe(func() string { return c11B(ruleguard.VerifRegexpHasCaptureGroups(p)) }))
		inputs = append(inputs, map[string]interface{}{"pattern": p})
		res.Count("hascap", p, true)
		res.Dist("hascap:" + impl[len(impl)-1])
	}
	return res.Compare(c.Drv, "hascap", ops, impl, inputs)
}

type c12Case struct {
	rules []c12Rule
	files []string
}

// c12FixedCases: small hand-picked cases run first, so that the witnesses of known defect classes are minimal.
func c12FixedCases() []c12Case {
	return []c12Case{
		{[]c12Rule{{group: "g0", alts: []string{"(?P<w>foo)"}, report: "w=$w all=$$", suggest: "X"}},
			[]string{"package p\n// a foo b\n", "package p\r\n/* a\r\n foo */\r\n", "// foo\npackage p\n", "package p\n/* foo */", "package p\r\n// foo\r\n"}},
		{[]c12Rule{{group: "g0", alts: []string{"begining", "bizzare"}, report: "$$ may contain a typo"}},
			[]string{"package p\n// a bizzare begining\n// bizzare\n"}},
		{[]c12Rule{{group: "g0", alts: []string{"(?P<x>collegue)|(commitee)"}, report: "x=[$x] $$"}, {group: "g0", alts: []string{"commitee"}, report: "second"}},
			[]string{"package p\n// commitee collegue\n/* commitee */\n"}},
		{[]c12Rule{{group: "g0", alts: []string{"//go:(?P<x>\\w+)"}, filter: []c12Atom{{false, "x", "generate"}}, report: "don't use $x"},
			{group: "g1", alts: []string{"go:(?P<y>g\\w*)"}, report: "fallthrough $y", suggest: "<$y>", at: "y"}},
			[]string{"package p\n//go:generate x\n//go:noinline\n"}},
	}
}

func c12E2E(c *Ctx, nSets, nFiles int) error {
	res := c.Res
	r := hx.Rng(c.Seed, "c12-e2e")
	tmp, err := os.MkdirTemp("", "c12-")
	if err != nil {
		return err
	}
	defer os.RemoveAll(tmp)
	var ops, impl, specOps []string
	var inputs []interface{}
	fixed := c12FixedCases()
	for si := 0; si < nSets+len(fixed); si++ {
		// a rule set: 1..3 groups of 1..3 rules (after the hand-picked small cases)
		var rules []c12Rule
		var fixedFiles []string
		if si < len(fixed) {
			rules, fixedFiles = fixed[si].rules, fixed[si].files
		} else {
			ng := 1 + r.Intn(3)
			for g := 0; g < ng; g++ {
				nr := 1 + r.Intn(3)
				for k := 0; k < nr; k++ {
					rules = append(rules, c12GenRule(r, fmt.Sprintf("g%d", g)))
				}
			}
		}
		rulesSrc := c12RulesFile(rules)
		e, lerr := hx.LoadRules(rulesSrc)
		if lerr != nil {
			res.Errorf("c12: load failed: %v\n%s", lerr, rulesSrc)
			continue
		}
		var flat []c12Loaded
		for i := range rules {
			for a, p := range rules[i].alts {
				flat = append(flat, c12Loaded{rule: &rules[i], alt: a, re: regexp.MustCompile(p), cg: ruleguard.VerifRegexpHasCaptureGroups(p)})
			}
		}
		nf := nFiles
		if fixedFiles != nil {
			nf = 2 * len(fixedFiles)
		}
		for fi := 0; fi < nf; fi++ {
			crlf := fi%4 == 3
			onDisk := fi%2 == 1
			var src string
			var kinds []string
			if fixedFiles != nil {
				src, kinds = fixedFiles[fi/2], []string{"hand-picked"}
			} else {
				src, kinds = c12File(r, crlf)
			}
			name := fmt.Sprintf("s%df%d.go", si, fi)
			if onDisk {
				name = filepath.Join(tmp, name)
				if err := os.WriteFile(name, []byte(src), 0o644); err != nil {
					return err
				}
				kinds = append(kinds, "on-disk")
			} else {
				kinds = append(kinds, "in-memory")
			}
			t, perr := hx.ParseTargetMem(name, src)
			if perr != nil {
				res.Errorf("c12: target does not parse: %v\n%q", perr, src)
				continue
			}
			cfg := []int{0, 0, 0, 7, 12, 1000}[r.Intn(6)]
			reports, pk, _, rerr := hx.Run(e, t, hx.RunOpts{TruncateLen: cfg})
			if rerr != nil {
				return rerr
			}
			for _, k := range kinds {
				res.Dist("file:" + k)
			}
			// comments in the order the runner visits them
			type cm struct {
				off  int
				text string
			}
			var cms []cm
			for _, g := range t.File.Comments {
				for _, cc := range g.List {
					cms = append(cms, cm{t.Fset.Position(cc.Pos()).Offset, cc.Text})
				}
			}
			// attribute each report to the last comment starting at or before its position
			byComment := map[int][]hx.Report{}
			for _, rep := range reports {
				at := -1
				for i, cc := range cms {
					if cc.off <= rep.Pos {
						at = i
					}
				}
				byComment[at] = append(byComment[at], rep)
			}
			if pk != "" || len(byComment[-1]) > 0 {
				res.Violate(hx.Violation{Signature: "Engine.Run:comment-rules:" + strings.TrimSpace(pk+" unattributable-report"), What: "a run of well-formed comment rules failed",
					Input: map[string]interface{}{"rules": rulesSrc, "file": src, "on_disk": onDisk}, Impl: fmt.Sprintf("%s %v", pk, byComment[-1]), Spec: "no panic; every report inside a comment"})
				res.Disagree(hx.Disagreement{Suite: "e2e", Op: "run", Impl: pk, Model: "ok", Input: map[string]interface{}{"rules": rulesSrc, "file": src}})
				continue
			}
			fileSrc := ""
			if onDisk {
				fileSrc = src
			}
			for ci, cc := range cms {
				got := "none"
				switch len(byComment[ci]) {
				case 0:
				case 1:
					got = c12ShowReport(byComment[ci][0], nil)
				default:
					got = fmt.Sprintf("%d reports for one comment", len(byComment[ci]))
				}
				rs := c12RulesSexp(flat, cc.text)
				ops = append(ops, fmt.Sprintf("cmrun %s %d %s %d %d %s %s", c12Variant, cfg, hx.HexS(fileSrc), len(src), cc.off, hx.HexS(cc.text), rs))
				impl = append(impl, got)
				specOps = append(specOps, fmt.Sprintf("spec12 %d %s %d %s %s %s", cfg, hx.HexS(src), cc.off, hx.HexS(cc.text), rs, strings.ReplaceAll(got, " ", ";")))
				in := map[string]interface{}{"rules": rulesSrc, "file": src, "on_disk": onDisk, "comment_offset": cc.off, "comment_text": cc.text, "TruncateLen": cfg}
				inputs = append(inputs, in)
				matched := false
				for _, l := range flat {
					matched = matched || l.re.MatchString(cc.text)
				}
				res.Count("e2e", fmt.Sprintf("%d/%d/%d", si, fi, ci), matched)
				if got == "none" {
					res.Dist("comment:no-report")
				} else {
					res.Dist("comment:report")
				}
			}
		}
	}
	if len(ops) > 0 {
		res.Sample(map[string]interface{}{"op": ops[len(ops)/2], "impl": impl[len(impl)/2]})
	}
	if err := res.Compare(c.Drv, "e2e", ops, impl, inputs); err != nil {
		return err
	}
	// the executable statement of the property on the implementation's own outcome
	ans, err := c.Drv.Ask(specOps)
	if err != nil {
		return err
	}
	for i, a := range ans {
		if a == "holds" {
			continue
		}
		in := inputs[i].(map[string]interface{})
		if a == "bad-op" { // more than one report for a comment, or a position outside the file
			res.Violate(hx.Violation{Signature: "comment-rule:ill-formed-outcome", What: "the outcome for one comment is not `no report` or one report with positions inside the file",
				Input: in, Impl: impl[i], Spec: "at most one report per comment"})
			continue
		}
		// go/scanner strips carriage returns from comment text: inside a multi-line block comment of a CRLF
		// file the text is shorter than the bytes it came from
		crStripped := strings.Contains(in["file"].(string), "\r") && strings.Contains(in["comment_text"].(string), "\n")
		for _, clause := range strings.Split(strings.TrimPrefix(a, "violates "), ",") {
			sig := "comment-rule:" + clause
			switch {
			case clause == "rule-line":
				sig = "loadCommentRule:reports-the-rule-line-not-the-alternative-line"
			case crStripped:
				sig = "runCommentRules:CR-stripped-comment-text:offsets-into-Text-used-as-file-offsets"
			}
			res.Dist("spec12:" + clause)
			res.Violate(hx.Violation{Signature: sig, What: "SpecC12.verdict: clause " + clause + " is violated by the implementation's outcome for this comment",
				Input: in, Impl: impl[i], Spec: a})
		}
	}
	return nil
}

// c12Malformed: rule shapes outside the property's quantifier (At / Where naming a group the regexp does not
// have, an alternative lacking the variable, invalid regexps).  The model is compared as it is (nil nodes and
// nil-dereference panics included); nothing here is judged by the spec.
func c12Malformed(c *Ctx) error {
	res := c.Res
	type tc struct {
		rules []c12Rule
		file  string
	}
	file := "package p\n// a foo b\n"
	cases := []tc{
		{[]c12Rule{{group: "g0", alts: []string{"(?P<w>foo)"}, report: "w=$w", at: "nosuch"}}, file},
		{[]c12Rule{{group: "g0", alts: []string{"(?P<w>foo)"}, suggest: "w=$w", at: "nosuch"}}, file},
		{[]c12Rule{{group: "g0", alts: []string{"(?P<w>foo)"}, report: "w=$w", filter: []c12Atom{{true, "nosuch", "a"}}}}, file},
		{[]c12Rule{{group: "g0", alts: []string{"(?P<w>foo)"}, report: "w=$w", filter: []c12Atom{{true, "w", "zzz"}, {true, "nosuch", "a"}}}}, file},
		{[]c12Rule{{group: "g0", alts: []string{"(?P<v>zzz)", "(?P<w>foo)"}, report: "w=$w v=$v", at: "v"}}, file},
		{[]c12Rule{{group: "g0", alts: []string{"foo"}, report: "$$", at: "$$"}}, file},
		{[]c12Rule{{group: "g0", alts: []string{"foo"}, report: "$$", filter: []c12Atom{{true, "w", "foo"}}}}, file},
		{[]c12Rule{{group: "g0", alts: []string{"(?P<a>f)(?P<a>o)"}, report: "$a", at: "a"}}, file},
		{[]c12Rule{{group: "g0", alts: []string{"(?P<a1>f)(?P<a2>o)(?P<a3>o)(?P<a4> )(?P<a5>b)"}, report: "$a1$a2$a3$a4$a5$a6"}}, file},
	}
	var ops, impl []string
	var inputs []interface{}
	for i, t := range cases {
		rules := t.rules
		rulesSrc := c12RulesFile(rules)
		e, lerr := hx.LoadRules(rulesSrc)
		if lerr != nil {
			// since `fix: Load rejects At() and comment-rule filter variables that the pattern does not bind`
			// these shapes are located load errors (C06); anything else is unexpected
			if strings.Contains(lerr.Error(), "non-existing var") && !strings.HasPrefix(lerr.Error(), "PANIC") {
				res.Count("malformed-load", fmt.Sprint(i), true)
				res.Dist("malformed:rejected-at-load")
				continue
			}
			res.Errorf("c12 malformed %d: load: %v", i, lerr)
			continue
		}
		var flat []c12Loaded
		for k := range rules {
			for a, p := range rules[k].alts {
				flat = append(flat, c12Loaded{rule: &rules[k], alt: a, re: regexp.MustCompile(p), cg: ruleguard.VerifRegexpHasCaptureGroups(p)})
			}
		}
		tg, perr := hx.ParseTargetMem(fmt.Sprintf("m%d.go", i), t.file)
		if perr != nil {
			return perr
		}
		reports, pk, _, rerr := hx.Run(e, tg, hx.RunOpts{})
		if rerr != nil {
			return rerr
		}
		got := "none"
		switch {
		case pk != "":
			got = pk
		case len(reports) == 1:
			got = c12ShowReport(reports[0], nil)
		case len(reports) > 1:
			got = fmt.Sprintf("%d reports", len(reports))
		}
		cm := tg.File.Comments[0].List[0]
		ops = append(ops, fmt.Sprintf("cmrun %s 0 - %d %d %s %s", c12Variant, len(t.file), tg.Fset.Position(cm.Pos()).Offset, hx.HexS(cm.Text), c12RulesSexp(flat, cm.Text)))
		impl = append(impl, got)
		inputs = append(inputs, map[string]interface{}{"rules": rulesSrc, "file": t.file})
		res.Count("malformed", fmt.Sprint(i), true)
		res.Dist("malformed:" + strings.SplitN(got, " ", 3)[0] + " " + strings.SplitN(got+" ", " ", 3)[1])
	}
	// invalid regexps must be a load error, never a panic
	for _, p := range []string{"(", "(?P<n", "a{2,1}", "\\", "[a", "(?P<n>a"} {
		rules := []c12Rule{{group: "g0", alts: []string{p}, report: "x"}}
		_, lerr := hx.LoadRules(c12RulesFile(rules))
		res.Count("malformed-load", p, true)
		if lerr == nil || strings.HasPrefix(lerr.Error(), "PANIC") {
			res.Violate(hx.Violation{Signature: "loadCommentRule:invalid-regexp-not-a-load-error", What: "an invalid MatchComment regexp is not reported as a load error",
				Input: map[string]interface{}{"pattern": p}, Impl: fmt.Sprint(lerr), Spec: "load error"})
		}
	}
	return res.Compare(c.Drv, "malformed", ops, impl, inputs)
}
