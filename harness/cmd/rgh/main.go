// rgh — verification harness for go-ruleguard (built with -tags verif against /repo).
//
//	rgh run <Cxx> -tier quick|thorough -seed N -drv <rgdrv> -out <result.json>
//	rgh extract -out <dir>          regenerate lean/Rg/Gen/*.lean from the code in /repo
package main

import (
	"flag"
	"fmt"
	"os"
	"sort"
	"time"

	"verifharness/hx"
)

// Ctx is what a property runner gets.
type Ctx struct {
	Tier     string
	Seed     int64
	Drv      *hx.Drv
	Res      *hx.Result
	Thorough bool
}

type runner func(c *Ctx) error

var runners = map[string]runner{}

func register(id string, f runner) { runners[id] = f }

func main() {
	if len(os.Args) < 2 {
		usage()
	}
	switch os.Args[1] {
	case "run":
		if len(os.Args) < 3 {
			usage()
		}
		id := os.Args[2]
		fs := flag.NewFlagSet("run", flag.ExitOnError)
		tier := fs.String("tier", "quick", "quick|thorough")
		seed := fs.Int64("seed", 1, "PRNG seed")
		drv := fs.String("drv", "/verif/lean/.lake/build/bin/rgdrv", "path of the Lean driver")
		out := fs.String("out", "-", "result file")
		_ = fs.Parse(os.Args[3:])
		f, ok := runners[id]
		if !ok {
			fmt.Fprintf(os.Stderr, "no runner for %s\n", id)
			os.Exit(2)
		}
		c := &Ctx{Tier: *tier, Seed: *seed, Drv: &hx.Drv{Path: *drv}, Thorough: *tier == "thorough"}
		c.Res = hx.NewResult(id, *tier, *seed)
		t0 := time.Now()
		defer hx.Cleanup()
		if err := f(c); err != nil {
			c.Res.Errorf("harness error: %v", err)
		}
		c.Res.Notes = append(c.Res.Notes, fmt.Sprintf("harness wall %.1fs", time.Since(t0).Seconds()))
		hx.Cleanup()
		if err := c.Res.Write(*out); err != nil {
			fmt.Fprintln(os.Stderr, err)
			os.Exit(2)
		}
	case "extract":
		fs := flag.NewFlagSet("extract", flag.ExitOnError)
		out := fs.String("out", "/verif/lean/Rg/Gen", "output directory")
		_ = fs.Parse(os.Args[2:])
		if err := extractAll(*out); err != nil {
			fmt.Fprintln(os.Stderr, "extract:", err)
			os.Exit(1)
		}
	case "c08child":
		if len(os.Args) < 3 {
			usage()
		}
		os.Exit(c08ChildMain(os.Args[2]))
	case "callpath":
		debugCallPath(os.Args[2], os.Args[3])
	case "list":
		var ids []string
		for id := range runners {
			ids = append(ids, id)
		}
		sort.Strings(ids)
		for _, id := range ids {
			fmt.Println(id)
		}
	default:
		usage()
	}
}

func usage() {
	fmt.Fprintln(os.Stderr, "usage: rgh run <Cxx> [-tier T] [-seed N] [-drv P] [-out F] | rgh extract [-out DIR] | rgh list")
	os.Exit(2)
}
