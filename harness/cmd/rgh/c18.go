package main

// C18 — rules files are Go: helper functions and constants are transparent.
//
// Suites
//   expand       generated helpers x call sites: the real localDefine+expandMacro (hook VerifExpandMacro; the
//                returned Src is the printed expansion, re-parsed) == Lean model `expandAsIs` (or `expand`, see
//                c18CompareFixed): same expansion tree / same unsafe argument / same panic
//   transparent  the property itself on the real code: ConvertFile IR of the helper-using group == IR of the
//                harness-inlined group modulo Src/Line, or the helper-using file is rejected with an error;
//                a panic or a loadable different meaning is a violation
//   const        constant spellings (named constants, concatenation, arithmetic, every literal syntax) at every
//                argument position outside helper bodies give the IR of the plain literal
//   helperconst, stmts, group-model, retype: see c18_helpers.go (constants of every spelling wherever a helper can
//                carry them; statement shapes of a rule group; both against the hand-inlined file; the Lean models
//                of the statement loop and of the literal patch against the code)

import (
	"bytes"
	"fmt"
	"go/ast"
	"go/constant"
	"go/parser"
	"go/printer"
	"go/token"
	"go/types"
	"math/rand"
	"reflect"
	"strconv"
	"strings"

	"github.com/quasilyte/go-ruleguard/ruleguard/goutil"
	"github.com/quasilyte/go-ruleguard/ruleguard/ir"
	"github.com/quasilyte/go-ruleguard/ruleguard/irconv"
	"verifharness/hx"
)

func init() { register("C18", runC18) }

// c18CompareFixed: false = compare the code with `expandAsIs` (the repository as it is),
// true = with `expand` (after fixes/irconv-macro-sel.diff).
const c18CompareFixed = true

// ---------- go/ast -> S-expression of the Lean GExpr ----------

func gexpr(e ast.Expr) (string, bool) {
	switch e := e.(type) {
	case *ast.Ident:
		return "(id " + e.Name + ")", true
	case *ast.BasicLit:
		return "(lit " + e.Kind.String() + " " + hx.HexS(e.Value) + ")", true
	case *ast.ParenExpr:
		x, ok := gexpr(e.X)
		return "(paren " + x + ")", ok
	case *ast.SelectorExpr:
		x, ok := gexpr(e.X)
		return "(sel " + x + " " + e.Sel.Name + ")", ok
	case *ast.IndexExpr:
		x, ok1 := gexpr(e.X)
		i, ok2 := gexpr(e.Index)
		return "(idx " + x + " " + i + ")", ok1 && ok2
	case *ast.CallExpr:
		f, ok := gexpr(e.Fun)
		parts := []string{"call", f}
		for _, a := range e.Args {
			s, ok2 := gexpr(a)
			ok = ok && ok2
			parts = append(parts, s)
		}
		return "(" + strings.Join(parts, " ") + ")", ok && !e.Ellipsis.IsValid()
	case *ast.UnaryExpr:
		x, ok := gexpr(e.X)
		return "(un " + e.Op.String() + " " + x + ")", ok
	case *ast.BinaryExpr:
		x, ok1 := gexpr(e.X)
		y, ok2 := gexpr(e.Y)
		return "(bin " + e.Op.String() + " " + x + " " + y + ")", ok1 && ok2
	}
	return "", false
}

// stripParens removes every (paren X) wrapper from an S-expression line.
func stripParens(s string) string {
	toks := strings.Fields(strings.NewReplacer("(", " ( ", ")", " ) ").Replace(s))
	var out []string
	var stack []bool // for every open list: is it a paren wrapper?
	for i := 0; i < len(toks); i++ {
		t := toks[i]
		switch t {
		case "(":
			isParen := i+1 < len(toks) && toks[i+1] == "paren"
			stack = append(stack, isParen)
			if isParen {
				i++ // skip the head
			} else {
				out = append(out, "(")
			}
		case ")":
			if len(stack) == 0 {
				out = append(out, ")")
				continue
			}
			isParen := stack[len(stack)-1]
			stack = stack[:len(stack)-1]
			if !isParen {
				out = append(out, ")")
			}
		default:
			out = append(out, t)
		}
	}
	return strings.Join(out, " ")
}

// ---------- generator of helpers and call sites ----------

type c18Param struct {
	name string
	typ  string // "dsl.Var" | "string" | "int" | "dsl.Matcher"
}

type c18Case struct {
	params   []c18Param
	variadic bool // last parameter is variadic
	unnamed  bool // parameters have no names
	body     string
	args     []string
	inner    string // an inner helper defined before (may be "")
	src      string // the whole rules file
}

var c18VarNames = []string{"v", "x", "a", "Text", "Pure", "Line", "Type", "Const", "Value", "Node", "Object", "m", "Is", "Matches", "Int", "Size"}
var c18StrNames = []string{"s", "pat", "Is", "Matches", "Text", "Imports", "name"}
var c18IntNames = []string{"n", "k", "Line", "Size", "Int", "val"}
var c18MatNames = []string{"mm", "m2", "m", "File", "Deadcode"}

type c18Gen struct {
	r   *rand.Rand
	res *hx.Result
}

func (g *c18Gen) pickName(pool []string, used map[string]bool) string {
	for i := 0; i < 50; i++ {
		n := pool[g.r.Intn(len(pool))]
		if !used[n] {
			used[n] = true
			return n
		}
	}
	n := fmt.Sprintf("p%d", len(used))
	used[n] = true
	return n
}

// atom over the parameters (all type-correct); matcher is the name by which the matcher is reachable in the body
func (g *c18Gen) atom(ps []c18Param, matcher string) string {
	r := g.r
	var vars, strs, ints, mats []string
	for _, p := range ps {
		switch p.typ {
		case "dsl.Var":
			vars = append(vars, p.name)
		case "string":
			strs = append(strs, p.name)
		case "int":
			ints = append(ints, p.name)
		case "dsl.Matcher":
			mats = append(mats, p.name)
		}
	}
	vr := func() string {
		if len(vars) > 0 && r.Intn(5) != 0 {
			return vars[r.Intn(len(vars))]
		}
		if matcher != "" {
			return matcher + `["y"]`
		}
		if len(vars) > 0 {
			return vars[0]
		}
		return ""
	}
	str := func() string {
		if len(strs) > 0 && r.Intn(3) != 0 {
			return strs[r.Intn(len(strs))]
		}
		return []string{`"int"`, "`string`", `"a|b"`, `"quo\"te"`, `""`, `"\x69nt"`, `"\151nt"`, `"\u0069nt"`, `("int")`, "strConst"}[r.Intn(10)]
	}
	in := func() string {
		if len(ints) > 0 && r.Intn(3) != 0 {
			return ints[r.Intn(len(ints))]
		}
		pool := []string{"0", "10", "0x10", "1_000", "-1", "1+2", "'a'", "2.0", "010", "0777", "0o17", "0O7", "0b101", "0X1F", "0_7", "0x_f", "(8)", "(017)",
			"00", "intConst", "+5", "'\\n'", "'\\101'", "9223372036854775807", "1e2", "int(7)"}
		return pool[r.Intn(len(pool))]
	}
	for tries := 0; tries < 20; tries++ {
		switch r.Intn(16) {
		case 0, 1:
			if v := vr(); v != "" {
				return v + "." + []string{"Pure", "Const", "ConstSlice", "Addressable", "Comparable"}[r.Intn(5)]
			}
		case 2:
			if v := vr(); v != "" {
				return v + ".Text == " + []string{`"a"`, "`b`", `""`, `"a" + "b"`}[r.Intn(4)]
			}
		case 3:
			if v := vr(); v != "" {
				return v + ".Text.Matches(" + str() + ")"
			}
		case 4:
			if v := vr(); v != "" {
				return v + ".Type.Is(" + str() + ")"
			}
		case 5:
			if v := vr(); v != "" {
				return v + ".Line " + []string{">", "<", "==", ">=", "!="}[r.Intn(5)] + " " + in()
			}
		case 6:
			if v := vr(); v != "" {
				return v + ".Value.Int() " + []string{">", "<=", "=="}[r.Intn(3)] + " " + in()
			}
		case 7:
			if v := vr(); v != "" {
				return v + ".Node.Is(" + str() + ")"
			}
		case 8:
			if v := vr(); v != "" {
				return v + ".Type.Size >= " + in()
			}
		case 9:
			if v, w := vr(), vr(); v != "" && w != "" {
				return v + ".Text == " + w + ".Text"
			}
		case 10:
			if len(mats) > 0 {
				mm := mats[r.Intn(len(mats))]
				return []string{mm + `.File().Imports("fmt")`, mm + `["x"].Pure`, mm + `.Deadcode()`, mm + `.File().Name.Matches(` + str() + `)`}[r.Intn(4)]
			}
		case 11:
			if matcher != "" {
				return matcher + ".File().Imports(" + str() + ")"
			}
		case 12:
			if v := vr(); v != "" {
				return v + ".Type.Underlying().Is(" + str() + ")"
			}
		case 13:
			if v := vr(); v != "" {
				return v + ".Object.Is(`Var`)"
			}
		case 14:
			if v := vr(); v != "" {
				return "(" + v + ").Pure"
			}
		case 15:
			if v, w := vr(), vr(); v != "" && w != "" {
				return v + ".Type.IdenticalTo(" + w + ")"
			}
		}
	}
	return "true == true"
}

func (g *c18Gen) expr(ps []c18Param, matcher string, depth int) string {
	r := g.r
	if depth <= 0 || r.Intn(3) == 0 {
		return g.atom(ps, matcher)
	}
	switch r.Intn(4) {
	case 0:
		return "!" + wrapParen(g.expr(ps, matcher, depth-1))
	case 1:
		return wrapParen(g.expr(ps, matcher, depth-1)) + " && " + g.atom(ps, matcher)
	case 2:
		return g.atom(ps, matcher) + " || " + wrapParen(g.expr(ps, matcher, depth-1))
	}
	return wrapParen(g.expr(ps, matcher, depth-1))
}

// wrapParen parenthesises s unless it already is one parenthesised expression (go/printer, through which
// the expansion is observed, drops redundant double parentheses).
func wrapParen(s string) string {
	if e, err := parser.ParseExpr(s); err == nil {
		if _, ok := e.(*ast.ParenExpr); ok {
			return s
		}
	}
	return "(" + s + ")"
}

func (g *c18Gen) arg(typ string) string {
	r := g.r
	switch typ {
	case "dsl.Var":
		return []string{`m["x"]`, `m["y"]`, `(m["x"])`, "m[`x`]", `m[("y")]`, `(m)["x"]`, `m["$$"]`}[r.Intn(7)]
	case "string":
		return []string{`"int"`, "`a|b`", `("s")`, "strConst", `"quo\"te"`, `""`}[r.Intn(6)]
	case "int":
		pool := []string{"5", "0x10", "(7)", "intConst", "Const", "0", "1_0", "0777", "010", "0o10", "0b11", "'a'", "(0644)", "2.0", "0_1"}
		return pool[r.Intn(len(pool))]
	}
	return []string{"m", "(m)"}[r.Intn(2)]
}

func (g *c18Gen) unsafeArg(typ string) string {
	r := g.r
	switch typ {
	case "dsl.Var":
		return []string{`m[key]`, `m["x"+""]`}[r.Intn(2)]
	case "string":
		return []string{`"a" + "b"`, `strConst + ""`}[r.Intn(2)]
	case "int":
		return []string{"-1", "1 + 2", "+5"}[r.Intn(3)]
	}
	return "m"
}

func (g *c18Gen) gen() *c18Case {
	r := g.r
	c := &c18Case{}
	used := map[string]bool{"h": true, "h2": true}
	np := []int{1, 1, 1, 2, 2, 3, 0}[r.Intn(7)]
	for i := 0; i < np; i++ {
		switch r.Intn(8) {
		case 0:
			c.params = append(c.params, c18Param{g.pickName(c18StrNames, used), "string"})
		case 1:
			c.params = append(c.params, c18Param{g.pickName(c18IntNames, used), "int"})
		case 2:
			c.params = append(c.params, c18Param{g.pickName(c18MatNames, used), "dsl.Matcher"})
		default:
			c.params = append(c.params, c18Param{g.pickName(c18VarNames, used), "dsl.Var"})
		}
	}
	// is the outer matcher `m` still visible in the body?
	matcher := "m"
	for _, p := range c.params {
		if p.name == "m" {
			matcher = ""
			if p.typ == "dsl.Matcher" {
				matcher = "m"
			}
		}
	}
	// inner helper (nested calls)
	if r.Intn(4) == 0 && matcher == "m" {
		c.inner = "\th2 := func(w dsl.Var) bool { return " + []string{"w.Const", "w.Pure && w.Type.Is(`int`)", "!w.Addressable"}[r.Intn(3)] + " }\n"
	}
	c.body = g.expr(c.params, matcher, 2)
	if c.inner != "" {
		var vars []string
		for _, p := range c.params {
			if p.typ == "dsl.Var" {
				vars = append(vars, p.name)
			}
		}
		call := `h2(m["y"])`
		if len(vars) > 0 {
			call = "h2(" + vars[r.Intn(len(vars))] + ")"
		}
		c.body = c.body + " && " + call
		g.res.Dist("helper:nested-call")
	}
	for _, p := range c.params {
		if r.Intn(12) == 0 {
			c.args = append(c.args, g.unsafeArg(p.typ))
			g.res.Dist("call:unsafe-arg")
		} else {
			c.args = append(c.args, g.arg(p.typ))
		}
	}
	// rare shapes: variadic last parameter, unnamed parameters
	switch r.Intn(30) {
	case 0:
		if len(c.params) > 0 && c.params[len(c.params)-1].typ == "dsl.Var" {
			if matcher == "m" && !used["m"] {
				c.variadic = true
				c.body = `m["y"].Pure`
				c.inner = ""
				c.args = append(c.args, `m["y"]`)
				g.res.Dist("helper:variadic")
			}
		}
	case 1:
		if len(c.params) > 0 && matcher == "m" && !used["m"] {
			c.unnamed = true
			c.body = `m["y"].Const`
			c.inner = ""
			g.res.Dist("helper:unnamed-params")
		}
	}
	c.src = c.source("h("+strings.Join(c.args, ", ")+")", true)
	return c
}

const c18Header = "package gorules\n\nimport \"github.com/quasilyte/go-ruleguard/dsl\"\n\nconst strConst = \"ab\"\nconst intConst = 3\nconst Const = 1\nconst key = \"x\"\n\n"

func (c *c18Case) signature() string {
	var ps []string
	for i, p := range c.params {
		t := p.typ
		if c.variadic && i == len(c.params)-1 {
			t = "..." + t
		}
		if c.unnamed {
			ps = append(ps, t)
		} else {
			ps = append(ps, p.name+" "+t)
		}
	}
	return "func(" + strings.Join(ps, ", ") + ") bool"
}

// source builds the rules file: with the helper (where = the call) or without it (where = the inlined expression).
func (c *c18Case) source(where string, withHelper bool) string {
	var sb strings.Builder
	sb.WriteString(c18Header)
	sb.WriteString("func g(m dsl.Matcher) {\n")
	if withHelper {
		sb.WriteString(c.inner)
		fmt.Fprintf(&sb, "\th := %s { return %s }\n", c.signature(), c.body)
	}
	fmt.Fprintf(&sb, "\tm.Match(`f($x, $y)`).Where(%s).Report(`r`)\n}\n", where)
	return sb.String()
}

// ---------- running the real code ----------

type c18Loaded struct {
	fset *token.FileSet
	lf   *goutil.LoadResult
	src  string
}

// one file set and one source importer for all C18 loads (sequential): dsl is type-checked once
var c18Fset = token.NewFileSet()
var c18Imp = &memoImporter{inner: c05SrcImporterFor(c18Fset), pkgs: map[string]*types.Package{}}

func c18Load(src string) (*c18Loaded, error) {
	fset := c18Fset
	lf, err := goutil.LoadGoFile(goutil.LoadConfig{Fset: fset, Filename: "rules.go", Data: src, Importer: c18Imp})
	if err != nil {
		return nil, err
	}
	return &c18Loaded{fset: fset, lf: lf, src: src}, nil
}

func (l *c18Loaded) convert() (f *ir.File, outcome string) {
	defer func() {
		if r := recover(); r != nil {
			f, outcome = nil, "panic "+hx.PanicKind(r)+": "+firstLine(fmt.Sprint(r))
		}
	}()
	ctx := &irconv.Context{Pkg: l.lf.Pkg, Types: l.lf.Types, Fset: l.fset, Src: []byte(l.src)}
	f, err := irconv.ConvertFile(ctx, l.lf.Syntax)
	if err != nil {
		return nil, "error: " + firstLine(err.Error())
	}
	return f, "ok"
}

// helper statement `h := func…` and the Where(...) argument of the last rule of func g
func (l *c18Loaded) helperAndCall() (assign *ast.AssignStmt, where ast.Expr) {
	for _, d := range l.lf.Syntax.Decls {
		fd, ok := d.(*ast.FuncDecl)
		if !ok || fd.Name.Name != "g" {
			continue
		}
		for _, st := range fd.Body.List {
			if a, ok := st.(*ast.AssignStmt); ok {
				if id, ok := a.Lhs[0].(*ast.Ident); ok && id.Name == "h" {
					assign = a
				}
			}
		}
		ast.Inspect(fd.Body, func(n ast.Node) bool {
			if call, ok := n.(*ast.CallExpr); ok {
				if sel, ok := call.Fun.(*ast.SelectorExpr); ok && sel.Sel.Name == "Where" && len(call.Args) == 1 {
					where = call.Args[0]
				}
			}
			return true
		})
	}
	return
}

// stripIR: the IR modulo Src and Line
func stripIR(e ir.FilterExpr) ir.FilterExpr {
	e.Src, e.Line = "", 0
	if e.Args != nil {
		as := make([]ir.FilterExpr, len(e.Args))
		for i := range e.Args {
			as[i] = stripIR(e.Args[i])
		}
		e.Args = as
	}
	return e
}

func whereOf(f *ir.File) (ir.FilterExpr, bool) {
	if len(f.RuleGroups) != 1 || len(f.RuleGroups[0].Rules) != 1 {
		return ir.FilterExpr{}, false
	}
	return stripIR(f.RuleGroups[0].Rules[0].WhereExpr), true
}

func runC18(c *Ctx) error {
	res := c.Res
	n := 500
	if c.Thorough {
		n = 8000
	}
	res.Rule = fmt.Sprintf("%d generated helpers (0-3 parameters of types dsl.Var/string/int/dsl.Matcher, names drawn from a pool that contains the DSL's own field and "+
		"method names, bodies over every connective with literals of every syntax, nested helper calls, closure-captured matcher, variadic and unnamed parameters) x call sites "+
		"(m[\"x\"] in every parenthesisation and quoting, literals, named constants, unsafe arguments); each case: real localDefine+expandMacro vs the Lean model (tree equality of the "+
		"expansion), and the property itself: ConvertFile IR of the helper group vs the harness-inlined group modulo Src/Line, or an error. Plus every constant spelling at "+
		"every argument position. Plus (helperconst) every spelling of an integer / string constant - decimal, legacy octal, 0o, 0x, 0b, digit separators, rune literals and escapes, "+
		"negative, parenthesised, constant expressions, named/typed constants, float-spelled, conversions; interpreted, raw, escaped, concatenated strings - at %d constant-taking "+
		"positions x 7 places a helper can carry it (body, closure, call-site argument, nested helper argument, nested helper body, under connectives, used twice), judged by the "+
		"hand-inlined file; (stmts) %d statement-shape families of a rule group (re-assignment with =, var h = func, var h func + =, shadowing blocks, use before definition, chains of "+
		"helpers, swapped parameter names, forward reference through a declared variable, local constants, aliases, multi-value definitions), judged by the file hand-inlined "+
		"from Go's meaning of the group (lexical scopes, variables by reference), or a located error; (group-model, retype) the Lean models of the statement loop and of the "+
		"literal patch against the code. A case is non-trivial when the helper has a parameter; distinct by source text.", n, len(c18Positions), len(c18StmtFamilies))

	g := &c18Gen{r: hx.Rng(c.Seed, "c18-helpers"), res: res}
	var cases []*c18Case
	for _, hand := range c18Corpus() {
		cases = append(cases, hand)
	}
	for i := 0; i < n; i++ {
		cases = append(cases, g.gen())
	}
	if err := c18ExpandSuite(c, cases); err != nil {
		return err
	}
	if err := c18ConstSuite(c); err != nil {
		return err
	}
	if err := c18ScopeSuite(c); err != nil {
		return err
	}
	if err := c18HelperConstSuite(c); err != nil {
		return err
	}
	if err := c18StmtSuite(c); err != nil {
		return err
	}
	if err := c18RetypeSuite(c); err != nil {
		return err
	}
	return c18ConvSuite(c, cases)
}

// ---------- convertFilterExpr outside helper bodies: real ConvertFile vs the Lean model Conv.convert ----------

func c18Ann(info *types.Info, e ast.Expr) string {
	tv, ok := info.Types[e]
	cv := "n"
	if ok && tv.Value != nil {
		switch tv.Value.Kind() {
		case constant.String:
			cv = "(s " + hx.HexS(constant.StringVal(tv.Value)) + ")"
		case constant.Int:
			if v, exact := constant.Int64Val(tv.Value); exact {
				cv = fmt.Sprintf("(i %d)", v)
			} else {
				cv = "big"
			}
		default:
			cv = "o"
		}
	}
	isStr := "0"
	if ok && tv.Type != nil && tv.Type.String() == "string" {
		isStr = "1"
	}
	return "(a " + cv + " " + isStr + ")"
}

// cexpr: the annotated tree of Rg/Model/IRConv.lean; hasMacro reports a bare-identifier call (a local helper)
func cexpr(info *types.Info, e ast.Expr, hasMacro *bool) string {
	a := c18Ann(info, e)
	switch e := e.(type) {
	case *ast.BasicLit:
		isStr, unq := "0", "n"
		if e.Kind == token.STRING {
			isStr = "1"
			if s, err := strconv.Unquote(e.Value); err == nil {
				unq = "(u " + hx.HexS(s) + ")"
			}
		}
		return "(lit " + a + " " + isStr + " " + unq + ")"
	case *ast.Ident:
		return "(id " + a + " " + e.Name + ")"
	case *ast.ParenExpr:
		return "(paren " + a + " " + cexpr(info, e.X, hasMacro) + ")"
	case *ast.SelectorExpr:
		return "(sel " + a + " " + cexpr(info, e.X, hasMacro) + " " + e.Sel.Name + ")"
	case *ast.IndexExpr:
		return "(idx " + a + " " + cexpr(info, e.X, hasMacro) + " " + cexpr(info, e.Index, hasMacro) + ")"
	case *ast.CallExpr:
		if _, ok := e.Fun.(*ast.Ident); ok {
			*hasMacro = true
		}
		parts := []string{"call", a, cexpr(info, e.Fun, hasMacro)}
		for _, x := range e.Args {
			parts = append(parts, cexpr(info, x, hasMacro))
		}
		return "(" + strings.Join(parts, " ") + ")"
	case *ast.UnaryExpr:
		return "(un " + a + " " + e.Op.String() + " " + cexpr(info, e.X, hasMacro) + ")"
	case *ast.BinaryExpr:
		return "(bin " + a + " " + e.Op.String() + " " + cexpr(info, e.X, hasMacro) + " " + cexpr(info, e.Y, hasMacro) + ")"
	}
	return "(other " + a + ")"
}

func c18ConvSuite(c *Ctx, cases []*c18Case) error {
	res := c.Res
	r := hx.Rng(c.Seed, "c18-conv")
	g := &rulesGen{r: r, res: hx.NewResult("", "", 0)}
	var wheres []string
	n := 350
	if c.Thorough {
		n = 4000
	}
	for i := 0; i < n; i++ {
		wheres = append(wheres, g.filter(2))
	}
	// hand-picked: constant spellings, non-constant strings (D28), odd operators, every path
	wheres = append(wheres, `m["x"].Text == "a"+"b"`, `m["x"].Text == strConst`, `m["x"].Line > -intConst`, `m["x"].Value.Int() == 1<<62`,
		`m["x"].Value.Int() < 9223372036854775807+1`, `m["x"].Type.Is(typeConst)`, `m[strConst].Pure`, `m[("x")].Const`, `(m)["x"].Pure`,
		`m["x"].Text.Matches(nonConst)`, `m.File().Imports(nonConst)`, `m[nonConst].Pure`, `m["x"].Line == m["y"].Line + 1`, `m["x"].Line > 2.5`,
		`-m["x"].Line > 0`, `m["x"].Text == 'a'`, `true`, `m["x"].Pure == true`, `m["x"].Type.IdenticalTo((m["y"]))`, `m["x"].Filter((isIntType))`,
		`m["y"].Node.Parent().Is("ExprStmt")`, `m["y"].SinkType.Is("int")`, `m["$$"].SinkType.Is(typeConst)`, `m["x"].Object.IsGlobal()`,
		`m["x"].Type.HasPointers()`, `(m["x"].Type).Size >= 8`, `m["x"].Type.Size >= m["y"].Type.Size`, `m["x"].Contains("$" + "y")`)
	for _, cs := range cases {
		if inl, ok := c18Inline(cs); ok && cs.inner == "" {
			i := strings.Index(inl, ".Where(")
			j := strings.LastIndex(inl, ").Report(")
			if i > 0 && j > i {
				wheres = append(wheres, inl[i+len(".Where("):j])
			}
		}
	}
	var ops, impl []string
	var inputs []interface{}
	for _, w := range wheres {
		src := strings.Replace(c05RulesHeader, "const typeConst = \"int\"\n", "const typeConst = \"int\"\nconst Const = 1\nconst key = \"x\"\n\nvar nonConst = \"fmt\"\n", 1) +
			"func g(m dsl.Matcher) {\n\tm.Match(`f($x, $y)`).Where(" + w + ").Report(`r`)\n}\n"
		l, err := c18Load(src)
		if err != nil {
			res.Dist("conv:does-not-typecheck")
			continue
		}
		_, where := l.helperAndCall()
		if where == nil {
			continue
		}
		hasMacro := false
		sx := cexpr(l.lf.Types, where, &hasMacro)
		if hasMacro {
			res.Dist("conv:skipped-helper-call")
			continue
		}
		f, out := l.convert()
		var ans string
		switch {
		case out == "ok":
			wx, ok := whereOf(f)
			if !ok {
				continue
			}
			var sb strings.Builder
			if !encFilter(&sb, &wx) {
				continue
			}
			ans = "ok " + sb.String()
		case strings.HasPrefix(out, "panic"):
			ans = strings.SplitN(out, ":", 2)[0]
		default:
			ans = "err"
		}
		ops = append(ops, "c18conv "+sx)
		impl = append(impl, ans)
		inputs = append(inputs, map[string]interface{}{"where": w})
		res.Count("conv", w, true)
		res.Dist("conv:" + strings.SplitN(ans, " ", 2)[0])
	}
	return res.Compare(c.Drv, "conv", ops, impl, inputs)
}

// hand-picked: the known defect D18 and friends
func c18Corpus() []*c18Case {
	mk := func(params []c18Param, body string, args ...string) *c18Case {
		cs := &c18Case{params: params, body: body, args: args}
		cs.src = cs.source("h("+strings.Join(args, ", ")+")", true)
		return cs
	}
	return []*c18Case{
		mk([]c18Param{{"Text", "dsl.Var"}}, `Text.Text.Matches("1")`, `m["x"]`),
		mk([]c18Param{{"v", "dsl.Var"}}, `v.Const && v.Type.Is("int")`, `m["x"]`),
		mk([]c18Param{{"Line", "int"}}, `m["x"].Line == Line`, `Const`),
		mk([]c18Param{{"Line", "int"}}, `m["x"].Line == Line`, `5`),
		mk([]c18Param{{"x", "dsl.Var"}, {"y", "dsl.Var"}}, `x.Const && y.Const`, `m["x"]`, `m["y"]`),
		mk(nil, `m.File().Imports("fmt")`),
	}
}

func c18ExpandSuite(c *Ctx, cases []*c18Case) error {
	res := c.Res
	op := "c18expand_asis"
	if c18CompareFixed {
		op = "c18expand"
	}
	type pending struct {
		cs       *c18Case
		modelOp  string
		impl     string // "ok <sexp>" | "unsafe <i>" | "panic <kind>" | "converr <msg>"
		inlineOp string
	}
	var pend []pending
	for _, cs := range cases {
		res.Count("cases", cs.src, len(cs.params) > 0)
		l, err := c18Load(cs.src)
		if err != nil {
			res.Dist("gen:does-not-typecheck")
			if len(res.Notes) < 3 {
				res.Notes = append(res.Notes, "generated file does not type-check: "+firstLine(err.Error())+" :: "+cs.signature()+" { return "+cs.body+" } args "+strings.Join(cs.args, ", "))
			}
			continue
		}
		assign, where := l.helperAndCall()
		call, _ := where.(*ast.CallExpr)
		if assign == nil || call == nil {
			res.Errorf("helper or call not found in %s", cs.src)
			continue
		}
		fn := assign.Rhs[0].(*ast.FuncLit)
		bodyExpr := fn.Body.List[0].(*ast.ReturnStmt).Results[0]
		bodyS, ok := gexpr(bodyExpr)
		if !ok {
			res.Dist("gen:body-outside-GExpr")
			continue
		}
		var ps, as []string
		for _, fld := range fn.Type.Params.List {
			for _, id := range fld.Names {
				ps = append(ps, id.Name)
			}
		}
		okArgs := true
		for _, a := range call.Args {
			s, ok := gexpr(a)
			okArgs = okArgs && ok
			as = append(as, s)
		}
		if !okArgs {
			res.Dist("gen:arg-outside-GExpr")
			continue
		}
		tail := "(" + strings.Join(append([]string{"ps"}, ps...), " ") + ") (" + strings.Join(append([]string{"as"}, as...), " ") + ") " + bodyS
		// the real expansion through the hook
		impl := hx.Safe(func() string {
			ctx := &irconv.Context{Pkg: l.lf.Pkg, Types: l.lf.Types, Fset: l.fset, Src: []byte(cs.src)}
			out, err := irconv.VerifExpandMacro(ctx, "m", assign, call)
			if err != nil {
				msg := err.Error()
				if strings.Contains(msg, "variadic and unnamed parameters are not supported") {
					return "toomany"
				}
				if i := strings.Index(msg, "unsupported/too complex "); i >= 0 {
					name := strings.TrimSuffix(msg[i+len("unsupported/too complex "):], " argument")
					for k, p := range ps {
						if p == name {
							return fmt.Sprintf("badarg %d", k)
						}
					}
					return "badarg ?" + name
				}
				return "converr " + firstLine(msg)
			}
			e, perr := parser.ParseExpr(out.Src)
			if perr != nil {
				return "converr unparsable expansion " + out.Src
			}
			s, ok := gexpr(e)
			if !ok {
				return "converr expansion outside GExpr"
			}
			return "ok " + s
		})
		pend = append(pend, pending{cs: cs, modelOp: op + " m " + tail, impl: impl, inlineOp: "c18inline " + tail})
		res.Count("expand", cs.src, len(cs.params) > 0)
		res.Dist("expand:impl:" + strings.SplitN(impl, " ", 2)[0])
	}
	var ops []string
	for _, p := range pend {
		ops = append(ops, p.modelOp)
	}
	ans, err := c.Drv.Ask(ops)
	if err != nil {
		return err
	}
	for i, p := range pend {
		model := ans[i]
		res.Dist("expand:model:" + strings.SplitN(model, " ", 2)[0])
		// parentheses are compared away: whether an argument keeps its own parentheses is layout as far as the
		// expansion is concerned (the positions where they matter are covered by the conv suite)
		agree := stripParens(model) == stripParens(p.impl)
		if strings.HasPrefix(p.impl, "converr ") && strings.HasPrefix(model, "ok ") {
			// the expansion happened but its conversion was rejected: the expansion itself is not observable
			agree = true
			res.Dist("expand:ok-but-conversion-rejected")
		}
		if !agree {
			res.Disagree(hx.Disagreement{Suite: "expand", Op: p.modelOp, Impl: p.impl, Model: model,
				Input: map[string]interface{}{"helper": p.cs.signature() + " { return " + p.cs.body + " }", "args": p.cs.args}})
		}
		if i == 1 {
			res.Sample(map[string]interface{}{"helper": p.cs.signature() + " { return " + p.cs.body + " }", "args": p.cs.args, "impl": p.impl})
		}
	}

	// the property on the real code: helper-using group vs inlined group
	for _, cs := range cases {
		l, err := c18Load(cs.src)
		if err != nil {
			continue
		}
		fA, outA := l.convert()
		res.Count("transparent", cs.src, len(cs.params) > 0)
		input := map[string]interface{}{"helper": cs.signature() + " { return " + cs.body + " }", "args": cs.args, "rules": cs.src}
		if strings.HasPrefix(outA, "panic") {
			sig := "expandMacro:panic:other"
			switch {
			case strings.Contains(outA, "reflect.Set") || strings.Contains(outA, "not assignable"):
				sig = "expandMacro:panic:reflect.Set:parameter-named-like-a-selected-field"
			case strings.Contains(outA, "index out of range"):
				sig = "expandMacro:panic:index:more-arguments-than-parameter-names"
			}
			res.Violate(hx.Violation{Signature: sig, What: "a helper-using group makes ConvertFile panic (Load neither rejects it with an error nor accepts it)",
				Input: input, Impl: outA, Spec: "an error, or the IR of the inlined group"})
			res.Dist("transparent:panic")
			continue
		}
		if outA != "ok" {
			res.Dist("transparent:helper-rejected")
			continue
		}
		inl, ok := c18Inline(cs)
		if !ok {
			res.Dist("transparent:not-inlinable")
			continue
		}
		lB, err := c18Load(inl)
		if err != nil {
			res.Violate(hx.Violation{Signature: "helper-accepted:inlined-group-does-not-typecheck", What: "the helper group converts although the inlined group is not valid Go",
				Input: map[string]interface{}{"rules": cs.src, "inlined": inl}, Impl: "ok", Spec: firstLine(err.Error())})
			continue
		}
		fB, outB := lB.convert()
		if outB != "ok" {
			res.Violate(hx.Violation{Signature: "helper-accepted:inlined-group-rejected", What: "the helper group converts although the inlined group is rejected",
				Input: map[string]interface{}{"rules": cs.src, "inlined": inl}, Impl: "ok", Spec: outB})
			res.Dist("transparent:inlined-rejected")
			continue
		}
		wA, okA := whereOf(fA)
		wB, okB := whereOf(fB)
		if !okA || !okB {
			res.Errorf("unexpected IR shape for %s", cs.src)
			continue
		}
		if reflect.DeepEqual(wA, wB) {
			res.Dist("transparent:equal-IR")
			continue
		}
		// different IR: is the helper version at least rejected by Load?
		if _, lerr := hx.LoadRules(cs.src); lerr != nil {
			res.Dist("transparent:different-IR-but-Load-rejects")
			continue
		}
		res.Violate(hx.Violation{Signature: "helper-changes-meaning:loads-with-different-IR", What: "the helper group loads with an IR different from the inlined group's",
			Input: map[string]interface{}{"rules": cs.src, "inlined": inl}, Impl: wA.String(), Spec: wB.String()})
	}
	return nil
}

// c18Inline: the rules file with every call h(args) replaced by the helper's body with arguments substituted
// (variable positions only), nested helper calls included.
func c18Inline(cs *c18Case) (string, bool) {
	if cs.variadic || cs.unnamed {
		return "", false
	}
	fset := token.NewFileSet()
	parse := func(s string) ast.Expr {
		e, err := parser.ParseExprFrom(fset, "", s, 0)
		if err != nil {
			return nil
		}
		return e
	}
	var substitute func(e ast.Expr, env map[string]ast.Expr) ast.Expr
	substitute = func(e ast.Expr, env map[string]ast.Expr) ast.Expr {
		switch e := e.(type) {
		case *ast.Ident:
			if a, ok := env[e.Name]; ok {
				return a
			}
			return e
		case *ast.ParenExpr:
			return &ast.ParenExpr{X: substitute(e.X, env)}
		case *ast.SelectorExpr:
			return &ast.SelectorExpr{X: substitute(e.X, env), Sel: e.Sel}
		case *ast.IndexExpr:
			return &ast.IndexExpr{X: substitute(e.X, env), Index: substitute(e.Index, env)}
		case *ast.CallExpr:
			out := &ast.CallExpr{Fun: substitute(e.Fun, env)}
			for _, a := range e.Args {
				out.Args = append(out.Args, substitute(a, env))
			}
			return out
		case *ast.UnaryExpr:
			return &ast.UnaryExpr{Op: e.Op, X: substitute(e.X, env)}
		case *ast.BinaryExpr:
			return &ast.BinaryExpr{Op: e.Op, X: substitute(e.X, env), Y: substitute(e.Y, env)}
		}
		return e
	}
	var inlineInner func(e ast.Expr) ast.Expr
	innerBody := ""
	if cs.inner != "" {
		i := strings.Index(cs.inner, "return ")
		j := strings.LastIndex(cs.inner, " }")
		innerBody = cs.inner[i+len("return ") : j]
	}
	inlineInner = func(e ast.Expr) ast.Expr {
		switch e := e.(type) {
		case *ast.CallExpr:
			if id, ok := e.Fun.(*ast.Ident); ok && id.Name == "h2" && innerBody != "" && len(e.Args) == 1 {
				return &ast.ParenExpr{X: substitute(parse(innerBody), map[string]ast.Expr{"w": e.Args[0]})}
			}
			out := &ast.CallExpr{Fun: inlineInner(e.Fun)}
			for _, a := range e.Args {
				out.Args = append(out.Args, inlineInner(a))
			}
			return out
		case *ast.ParenExpr:
			return &ast.ParenExpr{X: inlineInner(e.X)}
		case *ast.SelectorExpr:
			return &ast.SelectorExpr{X: inlineInner(e.X), Sel: e.Sel}
		case *ast.IndexExpr:
			return &ast.IndexExpr{X: inlineInner(e.X), Index: inlineInner(e.Index)}
		case *ast.UnaryExpr:
			return &ast.UnaryExpr{Op: e.Op, X: inlineInner(e.X)}
		case *ast.BinaryExpr:
			return &ast.BinaryExpr{Op: e.Op, X: inlineInner(e.X), Y: inlineInner(e.Y)}
		}
		return e
	}
	body := parse(cs.body)
	if body == nil {
		return "", false
	}
	env := map[string]ast.Expr{}
	for i, p := range cs.params {
		if i >= len(cs.args) {
			return "", false
		}
		a := parse(cs.args[i])
		if a == nil {
			return "", false
		}
		for {
			pe, ok := a.(*ast.ParenExpr)
			if !ok {
				break
			}
			a = pe.X
		}
		env[p.name] = a
	}
	out := inlineInner(substitute(body, env))
	var buf bytes.Buffer
	if err := printer.Fprint(&buf, token.NewFileSet(), &ast.ParenExpr{X: out}); err != nil {
		return "", false
	}
	return cs.source(buf.String(), false), true
}

// ---------- constant spellings ----------

func c18ConstSuite(c *Ctx) error {
	res := c.Res
	strSpell := func(v string) []string { // v is "ab" or "1.16" etc. (plain, no escapes needed)
		q := fmt.Sprintf("%q", v)
		out := []string{q, "`" + v + "`", "(" + q + ")", "cS", "cS + \"\"", "\"\" + cS", "cTyped"}
		if len(v) >= 2 {
			out = append(out, fmt.Sprintf("%q + %q", v[:1], v[1:]), fmt.Sprintf("%q + cTail", v[:1]), fmt.Sprintf("\"\\x%02x\" + %q", v[0], v[1:]))
		}
		return out
	}
	intSpell := func(v int) []string {
		out := []string{fmt.Sprint(v), fmt.Sprintf("(%d)", v), "cN", "cN + 0", "cN * 1", fmt.Sprintf("%d + %d", v-1, 1), "int(cN)"}
		if v >= 0 {
			out = append(out, fmt.Sprintf("0x%x", v), fmt.Sprintf("0o%o", v), fmt.Sprintf("0b%b", v), fmt.Sprintf("0%o", v), fmt.Sprintf("%d.0", v), fmt.Sprintf("%de0", v))
			if v >= 10 {
				s := fmt.Sprint(v)
				out = append(out, s[:1]+"_"+s[1:])
			}
			if v < 128 && v >= 32 && v != '\'' && v != '\\' {
				out = append(out, fmt.Sprintf("'%c'", rune(v)))
			}
		} else {
			out = append(out, fmt.Sprintf("-(%d)", -v), fmt.Sprintf("0 - %d", -v), fmt.Sprintf("-0x%x", -v))
		}
		return out
	}
	type tmpl struct {
		name  string
		text  string // one rule statement with %s for the constant
		isInt bool
		sval  string
		ivals []int
	}
	tmpls := []tmpl{
		{name: "Text==", text: "m.Match(`f($x)`).Where(m[\"x\"].Text == %s).Report(`r`)", sval: "ab"},
		{name: "==Text", text: "m.Match(`f($x)`).Where(%s != m[\"x\"].Text).Report(`r`)", sval: "ab"},
		{name: "Text.Matches", text: "m.Match(`f($x)`).Where(m[\"x\"].Text.Matches(%s)).Report(`r`)", sval: "ab"},
		{name: "Type.Is", text: "m.Match(`f($x)`).Where(m[\"x\"].Type.Is(%s)).Report(`r`)", sval: "int"},
		{name: "Type.Underlying.Is", text: "m.Match(`f($x)`).Where(m[\"x\"].Type.Underlying().Is(%s)).Report(`r`)", sval: "int"},
		{name: "Type.ConvertibleTo", text: "m.Match(`f($x)`).Where(m[\"x\"].Type.ConvertibleTo(%s)).Report(`r`)", sval: "int"},
		{name: "Type.Implements", text: "m.Match(`f($x)`).Where(m[\"x\"].Type.Implements(%s)).Report(`r`)", sval: "error"},
		{name: "Type.OfKind", text: "m.Match(`f($x)`).Where(m[\"x\"].Type.OfKind(%s)).Report(`r`)", sval: "int"},
		{name: "Node.Is", text: "m.Match(`f($x)`).Where(m[\"x\"].Node.Is(%s)).Report(`r`)", sval: "Ident"},
		{name: "Object.Is", text: "m.Match(`f($x)`).Where(m[\"x\"].Object.Is(%s)).Report(`r`)", sval: "Var"},
		{name: "Contains", text: "m.Match(`f($x)`).Where(m[\"x\"].Contains(%s)).Report(`r`)", sval: "ab"},
		{name: "GoVersion.Eq", text: "m.Match(`f($x)`).Where(m.GoVersion().Eq(%s)).Report(`r`)", sval: "1.16"},
		{name: "GoVersion.LessThan", text: "m.Match(`f($x)`).Where(m.GoVersion().LessThan(%s)).Report(`r`)", sval: "1.16"},
		{name: "File.Imports", text: "m.Match(`f($x)`).Where(m.File().Imports(%s)).Report(`r`)", sval: "fmt"},
		{name: "File.Name.Matches", text: "m.Match(`f($x)`).Where(m.File().Name.Matches(%s)).Report(`r`)", sval: "ab"},
		{name: "File.PkgPath.Matches", text: "m.Match(`f($x)`).Where(m.File().PkgPath.Matches(%s)).Report(`r`)", sval: "ab"},
		{name: "m[key]", text: "m.Match(`f($xy)`).Where(m[%s].Pure).Report(`r`)", sval: "xy"},
		{name: "IdenticalTo(m[key])", text: "m.Match(`f($xy)`).Where(m[\"xy\"].Type.IdenticalTo(m[%s])).Report(`r`)", sval: "xy"},
		{name: "At(m[key])", text: "m.Match(`f($xy)`).Report(`r`).At(m[%s])", sval: "xy"},
		{name: "Match", text: "m.Match(%s).Report(`r`)", sval: "ab"},
		{name: "MatchComment", text: "m.MatchComment(%s).Report(`r`)", sval: "ab"},
		{name: "Report", text: "m.Match(`f($x)`).Report(%s)", sval: "ab"},
		{name: "Suggest", text: "m.Match(`f($x)`).Suggest(%s)", sval: "ab"},
		{name: "Import", text: "m.Import(%s)\n\tm.Match(`f($x)`).Report(`r`)", sval: "fmt"},
		{name: "Line==", text: "m.Match(`f($x)`).Where(m[\"x\"].Line == %s).Report(`r`)", isInt: true, ivals: []int{16, 0, -3, 97}},
		{name: "<Line", text: "m.Match(`f($x)`).Where(%s < m[\"x\"].Line).Report(`r`)", isInt: true, ivals: []int{16, 0, -3}},
		{name: "Value.Int", text: "m.Match(`f($x)`).Where(m[\"x\"].Value.Int() >= %s).Report(`r`)", isInt: true, ivals: []int{16, 0, -3, 65}},
		{name: "Type.Size", text: "m.Match(`f($x)`).Where(m[\"x\"].Type.Size != %s).Report(`r`)", isInt: true, ivals: []int{16, 0, 8}},
	}
	mkSrc := func(stmt string, sval string, ival int) string {
		tail := ""
		if len(sval) >= 2 {
			tail = sval[1:]
		}
		return fmt.Sprintf("package gorules\n\nimport \"github.com/quasilyte/go-ruleguard/dsl\"\n\nconst cS = %q\nconst cTail = %q\nconst cTyped string = %q\nconst cN = %d\n\nfunc g(m dsl.Matcher) {\n\t%s\n}\n",
			sval, tail, sval, ival, stmt)
	}
	normIR := func(f *ir.File) *ir.File {
		out := cloneFile(f)
		out.CustomDecls = nil
		for gi := range out.RuleGroups {
			g := &out.RuleGroups[gi]
			g.Line = 0
			for ri := range g.Rules {
				r := &g.Rules[ri]
				r.Line = 0
				r.WhereExpr = stripIR(r.WhereExpr)
				for i := range r.SyntaxPatterns {
					r.SyntaxPatterns[i].Line = 0
				}
				for i := range r.CommentPatterns {
					r.CommentPatterns[i].Line = 0
				}
			}
		}
		return out
	}
	for _, t := range tmpls {
		vals := t.ivals
		if !t.isInt {
			vals = []int{0}
		}
		for _, iv := range vals {
			var spells []string
			if t.isInt {
				spells = intSpell(iv)
			} else {
				spells = strSpell(t.sval)
			}
			var ref *ir.File
			for k, sp := range spells {
				src := mkSrc(fmt.Sprintf(t.text, sp), t.sval, iv)
				res.Count("const", src, true)
				l, err := c18Load(src)
				if err != nil {
					res.Dist("const:spelling-does-not-typecheck")
					continue
				}
				f, out := l.convert()
				key := fmt.Sprintf("const:%s", t.name)
				if k == 0 {
					if out != "ok" {
						res.Violate(hx.Violation{Signature: "const:" + t.name + ":plain-literal-rejected", What: "a plain literal is rejected at an argument position",
							Input: map[string]interface{}{"position": t.name, "spelling": sp, "rules": src}, Impl: out, Spec: "converts"})
						break
					}
					ref = normIR(f)
					res.Dist(key + ":reference")
					continue
				}
				if strings.HasPrefix(out, "panic") {
					res.Violate(hx.Violation{Signature: "const:" + t.name + ":panic", What: "a constant spelling makes ConvertFile panic",
						Input: map[string]interface{}{"position": t.name, "spelling": sp, "rules": src}, Impl: out, Spec: "the IR of the plain literal"})
					continue
				}
				if out != "ok" {
					res.Violate(hx.Violation{Signature: "const:" + t.name + ":spelling-rejected", What: "a constant expression is rejected where the equivalent literal is accepted",
						Input: map[string]interface{}{"position": t.name, "spelling": sp, "rules": src}, Impl: out, Spec: "the IR of the plain literal"})
					res.Dist(key + ":rejected")
					continue
				}
				if !reflect.DeepEqual(normIR(f), ref) {
					res.Violate(hx.Violation{Signature: "const:" + t.name + ":different-IR", What: "a constant expression gives an IR different from the equivalent literal's",
						Input: map[string]interface{}{"position": t.name, "spelling": sp, "rules": src}, Impl: fmt.Sprintf("%+v", normIR(f).RuleGroups), Spec: fmt.Sprintf("%+v", ref.RuleGroups)})
					continue
				}
				res.Dist(key + ":equal")
			}
		}
	}
	return nil
}

// ---------- helpers are local to their rule group ----------

// c18ScopeSuite: several rule groups of one file declare local helpers under the same name (same or
// different arity, different bodies).  Each group must convert to the IR of the group with its *own*
// helper inlined (or the file is rejected); a helper of an earlier group must never be used.
func c18ScopeSuite(c *Ctx) error {
	res := c.Res
	type grp struct{ helper, call, inlined string }
	pool := []grp{
		{`h := func(v dsl.Var) bool { return v.Const }`, `h(m["x"])`, `m["x"].Const`},
		{`h := func(v dsl.Var) bool { return v.Pure }`, `h(m["x"])`, `m["x"].Pure`},
		{`h := func(v dsl.Var) bool { return !v.Addressable }`, `h(m["x"])`, `!m["x"].Addressable`},
		{`h := func(v dsl.Var, s string) bool { return v.Type.Is(s) }`, `h(m["x"], "int")`, `m["x"].Type.Is("int")`},
		{`h := func(s string, v dsl.Var) bool { return v.Text.Matches(s) }`, `h("^a", m["x"])`, `m["x"].Text.Matches("^a")`},
		{`h := func() bool { return m.Deadcode() }`, `h()`, `m.Deadcode()`},
	}
	rng := hx.Rng(c.Seed, "c18-scope")
	n := 40
	if c.Thorough {
		n = 600
	}
	norm := func(f *ir.File) []ir.FilterExpr {
		var out []ir.FilterExpr
		for _, g := range f.RuleGroups {
			for _, r := range g.Rules {
				out = append(out, stripIR(r.WhereExpr))
			}
		}
		return out
	}
	for i := 0; i < n; i++ {
		k := 2 + rng.Intn(3)
		var with, without strings.Builder
		hdr := "package gorules\n\nimport \"github.com/quasilyte/go-ruleguard/dsl\"\n\n"
		with.WriteString(hdr)
		without.WriteString(hdr)
		for gi := 0; gi < k; gi++ {
			g := pool[rng.Intn(len(pool))]
			fmt.Fprintf(&with, "func g%d(m dsl.Matcher) {\n\t%s\n\tm.Match(`f($x)`).Where(%s).Report(`r`)\n}\n\n", gi, g.helper, g.call)
			fmt.Fprintf(&without, "func g%d(m dsl.Matcher) {\n\tm.Match(`f($x)`).Where(%s).Report(`r`)\n}\n\n", gi, g.inlined)
		}
		res.Count("scope", with.String(), true)
		lw, err := c18Load(with.String())
		if err != nil {
			res.Errorf("c18 scope: generated file does not type-check: %v", err)
			continue
		}
		lo, err := c18Load(without.String())
		if err != nil {
			res.Errorf("c18 scope: inlined file does not type-check: %v", err)
			continue
		}
		fw, ow := lw.convert()
		fo, oo := lo.convert()
		in := map[string]interface{}{"rules": with.String(), "inlined": without.String()}
		switch {
		case strings.HasPrefix(ow, "panic"):
			res.Dist("scope:panic")
			res.Violate(hx.Violation{Signature: "scope:panic", What: "ConvertFile panics on same-named helpers in different groups: " + ow, Input: in, Impl: ow, Spec: "IR of the inlined groups"})
		case oo != "ok":
			res.Errorf("c18 scope: the inlined file is rejected: %s", oo)
		case ow != "ok":
			// rejected although every group is valid on its own: allowed by C18 (rejected, never different), counted
			res.Dist("scope:rejected")
			res.Violate(hx.Violation{Signature: "scope:valid-groups-rejected", What: "a file whose groups each use their own local helper is rejected: " + ow, Input: in, Impl: ow, Spec: "IR of the inlined groups"})
		case !reflect.DeepEqual(norm(fw), norm(fo)):
			res.Dist("scope:different-IR")
			res.Violate(hx.Violation{Signature: "scope:helper-of-another-group-used", What: "a group converts to something else than its own helper inlined (a same-named helper of another group leaked)",
				Input: in, Impl: fmt.Sprintf("%+v", norm(fw)), Spec: fmt.Sprintf("%+v", norm(fo))})
		default:
			res.Dist("scope:equal-IR")
		}
	}
	return nil
}
