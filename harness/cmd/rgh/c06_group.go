package main

// C06, group stream: the front of irconv — ConvertFile's declaration loop, convertInitFunc, convertRuleGroup's
// statement loop (localDefine, Import, doc comments) and convertRuleExpr's chain walk — against the Lean model
// Rg/Model/SrcGroup.lean (driver op `c06src`).
//
// Every generated file is valid Go (it parses and type-checks; the ones that do not are counted and skipped).  The
// file's syntax tree is serialised as the model's abstract syntax *before* the real converter runs (expandMacro
// writes into types.Info), the model answers with an outcome class and, for `ok`, the whole converted file (rules
// with their Where IR, group imports, doc pragmas, bundle imports); the real irconv.ConvertFile must answer the same.
//
// Where the model predicts unbounded recursion (`panic stack`: a local helper whose expansion calls it again) the
// real converter is run in a child process (`rgh c06child`, small stack limit): Go's stack overflow is a fatal
// error that no recover() can stop, it would take the harness down.
//
// A run-time panic (or fatal error) of the real converter on a valid Go file is a violation of C06 whatever the
// model says; the signature is the panic kind and the innermost irconv frame.

import (
	"bufio"
	"bytes"
	"fmt"
	"go/ast"
	"go/token"
	"go/types"
	"io"
	"math/rand"
	"os"
	"os/exec"
	"regexp"
	"runtime/debug"
	"strconv"
	"strings"
	"time"

	"github.com/quasilyte/go-ruleguard/ruleguard/ir"
	"github.com/quasilyte/go-ruleguard/ruleguard/irconv"
	"verifharness/hx"
)

// The variant of the model the real code is compared with (default: the code as it is).
const (
	c06GroupGuard   = true // true: after fixes/c06-helper-recursion.diff (a helper being expanded is not expanded again)
	c06GroupInitFix = true // true: after fixes/c06-init-arity.diff (ImportRules look-alikes are located errors)
	c06GroupFuel    = 64    // nested helper expansions the model follows before it answers `panic stack`
)

func init() {
	// main.go dispatches on os.Args[1]; the child entry point is taken before it gets there
	if len(os.Args) >= 2 && os.Args[1] == "c06child" {
		os.Exit(c06ChildMain())
	}
}

// c06ChildMain: for every line on stdin (a hex-encoded rules source): parse, type-check and irconv.ConvertFile
// (what Engine.Load does first), with a 64 MB stack limit; one outcome line each: the converted file as
// c06RealFile prints it, `err`, `typecheck …` or `panic KIND FRAME`.  A stack overflow kills the process.
func c06ChildMain() int {
	debug.SetMaxStack(64 << 20)
	in := bufio.NewReaderSize(os.Stdin, 1<<20)
	for {
		line, err := in.ReadString('\n')
		if err != nil {
			return 0
		}
		src := string(hx.UnHex(strings.TrimSpace(line)))
		l, err := c18Load(src)
		if err != nil {
			fmt.Println("typecheck " + firstLine(err.Error()))
			continue
		}
		out := func() (out string) {
			defer func() {
				if r := recover(); r != nil {
					out = "panic " + hx.PanicKind(r) + " " + hx.Frame(debug.Stack())
				}
			}()
			ctx := &irconv.Context{Pkg: l.lf.Pkg, Types: l.lf.Types, Fset: l.fset, Src: []byte(l.src)}
			f, err := irconv.ConvertFile(ctx, l.lf.Syntax)
			if err != nil {
				return "err"
			}
			return c06RealFile(f)
		}()
		fmt.Println(out)
	}
}

// c06Child: one child process serving conversions until it dies
type c06Child struct {
	cmd   *exec.Cmd
	stdin io.WriteCloser
	lines chan string
	errb  *bytes.Buffer
}

var c06TheChild *c06Child

func c06StartChild() (*c06Child, error) {
	cmd := exec.Command(os.Args[0], "c06child")
	stdin, err := cmd.StdinPipe()
	if err != nil {
		return nil, err
	}
	stdout, err := cmd.StdoutPipe()
	if err != nil {
		return nil, err
	}
	p := &c06Child{cmd: cmd, stdin: stdin, lines: make(chan string, 1), errb: &bytes.Buffer{}}
	cmd.Stderr = p.errb
	if err := cmd.Start(); err != nil {
		return nil, err
	}
	go func() {
		rd := bufio.NewReaderSize(stdout, 1<<20)
		for {
			l, err := rd.ReadString('\n')
			if err != nil {
				close(p.lines)
				return
			}
			p.lines <- strings.TrimRight(l, "\n")
		}
	}()
	return p, nil
}

func c06StopChild() {
	if c06TheChild != nil {
		c06TheChild.stdin.Close()
		_ = c06TheChild.cmd.Wait()
		c06TheChild = nil
	}
}

// c06ChildOutcome: the child's outcome line | "FATAL stack-overflow@frame" | "HANG" | "DIED …"
func c06ChildOutcome(src string) string {
	if c06TheChild == nil {
		p, err := c06StartChild()
		if err != nil {
			return "DIED " + err.Error()
		}
		c06TheChild = p
	}
	p := c06TheChild
	if _, err := io.WriteString(p.stdin, hx.HexS(src)+"\n"); err != nil {
		c06TheChild = nil
		return "DIED " + err.Error()
	}
	select {
	case l, ok := <-p.lines:
		if ok {
			return l
		}
		// the child is gone: why?
		_ = p.cmd.Wait()
		c06TheChild = nil
		st := p.errb.String()
		if strings.Contains(st, "stack overflow") || strings.Contains(st, "goroutine stack exceeds") {
			frame := "?"
			if strings.Count(st, "irconv.(*converter).expandMacro(") > 10 {
				frame = "ruleguard/irconv/irconv.go:irconv.(*converter).expandMacro"
			}
			return "FATAL stack-overflow@" + frame
		}
		return "DIED " + firstLine(st)
	case <-time.After(120 * time.Second):
		_ = p.cmd.Process.Kill()
		c06TheChild = nil
		return "HANG"
	}
}

// ---------- go/ast -> the abstract syntax of Rg/Model/SrcGroup.lean ----------

type c06Ser struct {
	info *types.Info
	fset *token.FileSet
	ok   bool // false: something outside the model's syntax (a helper body outside GExpr)
}

func (s *c06Ser) line(p token.Pos) int { return s.fset.Position(p).Line }

// gexprU: a helper body (Macro.GExpr) with strconv.Unquote's answer on every literal
func (s *c06Ser) gexprU(e ast.Expr) string {
	switch e := e.(type) {
	case *ast.Ident:
		return "(id " + e.Name + ")"
	case *ast.BasicLit:
		unq := "n"
		if e.Kind == token.STRING {
			if v, err := strconv.Unquote(e.Value); err == nil {
				unq = "u" + hx.HexS(v)
			}
		}
		return "(lit " + e.Kind.String() + " " + hx.HexS(e.Value) + " " + unq + ")"
	case *ast.ParenExpr:
		return "(paren " + s.gexprU(e.X) + ")"
	case *ast.SelectorExpr:
		return "(sel " + s.gexprU(e.X) + " " + e.Sel.Name + ")"
	case *ast.IndexExpr:
		return "(idx " + s.gexprU(e.X) + " " + s.gexprU(e.Index) + ")"
	case *ast.CallExpr:
		if e.Ellipsis.IsValid() {
			s.ok = false
		}
		parts := []string{"call", s.gexprU(e.Fun)}
		for _, a := range e.Args {
			parts = append(parts, s.gexprU(a))
		}
		return "(" + strings.Join(parts, " ") + ")"
	case *ast.UnaryExpr:
		return "(un " + e.Op.String() + " " + s.gexprU(e.X) + ")"
	case *ast.BinaryExpr:
		return "(bin " + e.Op.String() + " " + s.gexprU(e.X) + " " + s.gexprU(e.Y) + ")"
	}
	s.ok = false
	return "(id _)"
}

// rexpr: the expression of an expression statement
func (s *c06Ser) rexpr(e ast.Expr) string {
	switch e := e.(type) {
	case *ast.Ident:
		return "(id " + e.Name + ")"
	case *ast.CallExpr:
		parts := []string{"call", s.rexpr(e.Fun)}
		for _, a := range e.Args {
			var hm bool
			parts = append(parts, fmt.Sprintf("(%d %s)", s.line(a.Pos()), cexpr(s.info, a, &hm)))
		}
		return "(" + strings.Join(parts, " ") + ")"
	case *ast.SelectorExpr:
		return "(sel " + s.rexpr(e.X) + " " + e.Sel.Name + ")"
	}
	return "(o)"
}

func (s *c06Ser) stmt(st ast.Stmt) string {
	switch st := st.(type) {
	case *ast.AssignStmt:
		def := "0"
		if st.Tok == token.DEFINE {
			def = "1"
		}
		lhs := []string{"lhs"}
		for _, l := range st.Lhs {
			if id, ok := l.(*ast.Ident); ok {
				lhs = append(lhs, "(id "+id.Name+")")
			} else {
				lhs = append(lhs, "(o)")
			}
		}
		rhs := []string{"rhs"}
		for _, r := range st.Rhs {
			fn, ok := r.(*ast.FuncLit)
			if !ok {
				rhs = append(rhs, "(o)")
				continue
			}
			// isBoolResult of localDefine
			isBool := "0"
			if sig, ok := s.info.TypeOf(fn).(*types.Signature); ok {
				if sig.Results() != nil && sig.Results().Len() == 1 && sig.Results().At(0).Type() == types.Typ[types.Bool] {
					isBool = "1"
				}
			}
			ps := []string{"ps"}
			for _, f := range fn.Type.Params.List {
				for _, id := range f.Names {
					ps = append(ps, id.Name)
				}
			}
			parts := []string{"fl", isBool, "(" + strings.Join(ps, " ") + ")"}
			for _, b := range fn.Body.List {
				if rs, ok := b.(*ast.ReturnStmt); ok {
					rp := []string{"ret"}
					for _, x := range rs.Results {
						rp = append(rp, s.gexprU(x))
					}
					parts = append(parts, "("+strings.Join(rp, " ")+")")
				} else {
					parts = append(parts, "(o)")
				}
			}
			rhs = append(rhs, "("+strings.Join(parts, " ")+")")
		}
		return "(assign " + def + " (" + strings.Join(lhs, " ") + ") (" + strings.Join(rhs, " ") + "))"
	case *ast.DeclStmt:
		return "(decl)"
	case *ast.ExprStmt:
		return fmt.Sprintf("(expr %d %s)", s.line(st.X.Pos()), s.rexpr(st.X))
	}
	return "(other)"
}

func (s *c06Ser) initStmt(st ast.Stmt) string {
	es, ok := st.(*ast.ExprStmt)
	if !ok {
		return "(o)"
	}
	call, ok := es.X.(*ast.CallExpr)
	if !ok {
		return "(xo)"
	}
	fn := "(o)"
	if sel, ok := call.Fun.(*ast.SelectorExpr); ok {
		if id, ok := sel.X.(*ast.Ident); ok {
			fn = "(sel (id " + id.Name + ") " + sel.Sel.Name + ")"
		} else {
			fn = "(sel (o) " + sel.Sel.Name + ")"
		}
	}
	parts := []string{"call", strconv.Itoa(s.line(es.Pos())), fn}
	for _, a := range call.Args {
		obj := "n"
		if sel, ok := a.(*ast.SelectorExpr); ok {
			if o := s.info.ObjectOf(sel.Sel); o != nil {
				if o.Pkg() == nil {
					obj = "np"
				} else {
					obj = "(p " + hx.HexS(o.Pkg().Path()) + ")"
				}
			}
		}
		var hm bool
		parts = append(parts, "(arg "+cexpr(s.info, a, &hm)+" "+obj+")")
	}
	return "(" + strings.Join(parts, " ") + ")"
}

// isMatcherFunc of irconv
func (s *c06Ser) isMatcherFunc(fd *ast.FuncDecl) bool {
	sig := s.info.ObjectOf(fd.Name).Type().(*types.Signature)
	return sig.Results().Len() == 0 && sig.Params().Len() == 1 &&
		sig.Params().At(0).Type().String() == "github.com/quasilyte/go-ruleguard/dsl.Matcher"
}

// c06SrcFile: the whole file as the argument of `c06src`; ok=false: outside the model's syntax
func c06SrcFile(l *c18Loaded) (sx string, ok bool) {
	defer func() {
		if recover() != nil {
			sx, ok = "", false
		}
	}()
	s := &c06Ser{info: l.lf.Types, fset: l.fset, ok: true}
	f := l.lf.Syntax
	imps := []string{"imps"}
	for _, imp := range f.Imports {
		name, path := "-", "!"
		if imp.Name != nil {
			name = imp.Name.Name
		}
		if p, err := strconv.Unquote(imp.Path.Value); err == nil {
			path = hx.HexS(p)
		}
		imps = append(imps, "(imp "+name+" "+path+")")
	}
	parts := []string{"file", "(" + strings.Join(imps, " ") + ")"}
	for _, d := range f.Decls {
		fd, isFunc := d.(*ast.FuncDecl)
		switch {
		case !isFunc:
			parts = append(parts, "(gen)")
		case fd.Body == nil:
			parts = append(parts, "(bodyless)")
		case fd.Name.String() == "init":
			ps := []string{"init"}
			for _, st := range fd.Body.List {
				ps = append(ps, s.initStmt(st))
			}
			parts = append(parts, "("+strings.Join(ps, " ")+")")
		case s.isMatcherFunc(fd):
			names := []string{"names"}
			for _, id := range fd.Type.Params.List[0].Names {
				names = append(names, id.Name)
			}
			doc := "n"
			if fd.Doc != nil {
				ds := []string{"doc"}
				for _, c := range fd.Doc.List {
					ds = append(ds, hx.HexS(c.Text))
				}
				doc = "(" + strings.Join(ds, " ") + ")"
			}
			ps := []string{"group", strconv.Itoa(s.line(fd.Name.Pos())), fd.Name.String(), "(" + strings.Join(names, " ") + ")", doc}
			for _, st := range fd.Body.List {
				ps = append(ps, s.stmt(st))
			}
			parts = append(parts, "("+strings.Join(ps, " ")+")")
		default:
			parts = append(parts, "(custom)")
		}
	}
	return "(" + strings.Join(parts, " ") + ")", s.ok
}

// ---------- the converted file, in the driver's output format ----------

func c06DocFields(summary, before, after, note string, tags []string) string {
	return fmt.Sprintf("(docs %s %s %s %s %s)", hx.HexS(summary), hx.HexS(before), hx.HexS(after), hx.HexS(note), hx.HexS(strings.Join(tags, "\x00")))
}

func c06RealFile(f *ir.File) string {
	var sb strings.Builder
	sb.WriteString("ok (bundles")
	for _, b := range f.BundleImports {
		fmt.Fprintf(&sb, " (%d %s %s)", b.Line, hx.HexS(b.Prefix), hx.HexS(b.PkgPath))
	}
	sb.WriteString(")")
	for i := range f.RuleGroups {
		g := &f.RuleGroups[i]
		fmt.Fprintf(&sb, " (group %d %s (imports", g.Line, g.Name)
		for _, im := range g.Imports {
			sb.WriteString(" " + hx.HexS(im.Path))
		}
		sb.WriteString(") " + c06DocFields(g.DocSummary, g.DocBefore, g.DocAfter, g.DocNote, g.DocTags) + " (rules")
		for j := range g.Rules {
			sb.WriteString(" " + c06RuleSExp(&g.Rules[j]))
		}
		sb.WriteString("))")
	}
	return sb.String()
}

var c06DocsRE = regexp.MustCompile(`\(docs((?: \([0-9a-f-]+ [0-9a-f-]+\))*)\)`)
var c06DocRE = regexp.MustCompile(`\(([0-9a-f-]+) ([0-9a-f-]+)\)`)

// c06FoldDocs: the model lists the pragmas in order with the raw text after the pragma; what the group keeps is
// the last of each, through strings.TrimSpace / strings.Fields (Go's; not modelled)
func c06FoldDocs(ans string) string {
	return c06DocsRE.ReplaceAllStringFunc(ans, func(m string) string {
		var summary, before, after, note string
		var tags []string
		for _, d := range c06DocRE.FindAllStringSubmatch(m, -1) {
			s := strings.TrimSpace(string(hx.UnHex(d[2])))
			switch string(hx.UnHex(d[1])) {
			case "summary":
				summary = s
			case "before":
				before = s
			case "after":
				after = s
			case "note":
				note = s
			case "tags":
				tags = strings.Fields(s)
			}
		}
		return c06DocFields(summary, before, after, note, tags)
	})
}

// ---------- generator ----------

const c06GroupPrelude = `
func isOK2(ctx *dsl.DoContext) {}

func getLM() *LM { return lm }

func hrec(v dsl.Var) bool { return true }

func hb(v dsl.Var) bool { return true }

type F func(F, dsl.Var) bool

type B = bool

var ch chan int
var cnt int
`

// a file without the dsl package: `dsl` is a look-alike
const c06InitLookPrelude = `package gorules

type DS struct {
	ImportRules, Other func(...interface{})
	Sub                *DS
}

type BB struct{ Bundle int }

var dsl DS
var other DS
var bb BB
var e error
var nonC = "p"
var ch chan int

const strC = "q"

func f(...interface{}) {}
`

const c06InitRealPrelude = `package gorules

import (
	"github.com/quasilyte/go-ruleguard/dsl"
	bundle "verifharness/c05bundle"
)

type HB struct{ B dsl.Bundle }

var hbv HB
var nonC = "p"

const strC = "q"
`

type c06Helper struct {
	name   string
	params []string // "var" (dsl.Var) | "lv" (LV) | "str" (string); nil with variadic/unnamed forms
	odd    string   // "" | "variadic" | "unnamed" | "F"
}

type c06GrpGen struct {
	look    *c06LookGen
	r       *rand.Rand
	helpers []c06Helper
	nh      int
	valid   bool // mostly-valid mode: statements that end the conversion with an error are rare
	strict  bool // valid mode without the rare wild choices (the one-defect groups)
}

func (g *c06GrpGen) pick(xs []string) string { return xs[g.r.Intn(len(xs))] }

// body of a helper over a dsl.Var parameter v
func (g *c06GrpGen) varBody(v string, depth int) string {
	r := g.r
	if depth > 0 && r.Intn(3) == 0 {
		op := g.pick([]string{"&&", "||"})
		return g.varBody(v, depth-1) + " " + op + " " + g.varBody(v, depth-1)
	}
	switch r.Intn(12) {
	case 0:
		return v + ".Pure"
	case 1:
		return v + `.Type.Is("int")`
	case 2:
		return "!" + v + ".Const"
	case 3:
		return v + ".Line > 1"
	case 4:
		return "(" + v + `.Text.Matches("a.*"))`
	case 5:
		return v + ".Type.Size >= 8"
	case 6:
		return v + ".Value.Int() > 0x10"
	case 7:
		return v + `.Text == "a"`
	case 8:
		// a call of an earlier helper over a dsl.Var
		for _, h := range g.helpers {
			if len(h.params) == 1 && h.params[0] == "var" && h.odd == "" && r.Intn(2) == 0 {
				return h.name + "(" + v + ")"
			}
		}
		return v + ".Addressable"
	case 9:
		return "hrec(" + v + ")" // the package-level function, unless the body defines a local hrec
	case 10:
		return v + `.Node.Is("CallExpr")`
	default:
		return v + `.Type.Implements("error")`
	}
}

// helperStmts: a `:=` statement (plus what keeps it valid Go); kinds = Dist labels
func (g *c06GrpGen) helperStmts(kinds *[]string) string {
	r := g.r
	g.nh++
	name := fmt.Sprintf("h%d", g.nh)
	use := "\tvar _ = " + name + "\n"
	k := r.Intn(30)
	if g.valid && (g.strict || r.Intn(12) != 0) {
		k = []int{0, 1, 2, 3, 4, 5, 10, 12, 28, 29}[r.Intn(10)]
	}
	return g.helperStmtsKind(k, name, use, kinds)
}

// defectStmt: one statement (or clause) the converter refuses, of every kind the model knows
func (g *c06GrpGen) defectStmt(kinds *[]string) string {
	r := g.r
	*kinds = append(*kinds, "group/one-defect")
	switch r.Intn(6) {
	case 0, 1:
		return g.chainDefect(kinds)
	case 2:
		// a plain `=` to a recorded helper: not a definition
		for _, h := range g.helpers {
			if len(h.params) == 1 && h.params[0] == "var" && h.odd == "" && h.name != "hrec" && h.name != "hb" {
				*kinds = append(*kinds, "stmt/reassign-helper")
				return "\t" + h.name + " = func(v dsl.Var) bool { return v.Const }\n"
			}
		}
	}
	if r.Intn(2) == 0 {
		g.nh++
		name := fmt.Sprintf("h%d", g.nh)
		return g.helperStmtsKind(22+r.Intn(6), name, "\tvar _ = "+name+"\n", kinds)
	}
	if len(g.helpers) > 0 && r.Intn(3) == 0 {
		// a helper call with an argument expandMacro refuses
		for _, h := range g.helpers {
			if len(h.params) == 1 && h.params[0] == "var" && h.odd == "" {
				*kinds = append(*kinds, "call/unsafe-argument")
				return "\tm.Match(`f($x, $y)`).Where(" + h.name + "(" + g.pick([]string{"m[strC]", `m["x"+"y"]`, `m[nonC]`}) + ")).Report(`h`)\n"
			}
		}
	}
	if r.Intn(2) == 0 {
		return g.chainDefect(kinds)
	}
	return g.oddStmt(kinds)
}

// chainDefect: a rule of the real DSL with exactly one thing wrong with its chain (or one harmless oddity)
func (g *c06GrpGen) chainDefect(kinds *[]string) string {
	r := g.r
	match, where, report := "Match(`f($x, $y)`)", "Where(m[`x`].Pure)", "Report(`r`)"
	links := []string{match}
	if r.Intn(2) == 0 {
		links = append(links, where)
	}
	if r.Intn(4) == 0 {
		links = append(links, "At(m[`x`])")
	}
	links = append(links, report)
	insert := func(l string) {
		k := r.Intn(len(links) + 1)
		links = append(links[:k], append([]string{l}, links[k:]...)...)
	}
	root, kind := "m", ""
	switch r.Intn(16) {
	case 0:
		kind = "repeat/Match"
		insert("Match(`g($x)`)")
	case 1:
		kind = "repeat/Where"
		links = []string{match, where, report}
		insert("Where(m[`y`].Const)")
	case 2:
		kind = "repeat/Report"
		insert("Report(`s`)")
	case 3:
		kind = "repeat/Suggest"
		insert("Suggest(`a`)")
		insert("Suggest(`b`)")
	case 4:
		kind = "repeat/At"
		links = []string{match, "At(m[`x`])", report}
		insert("At(m[`y`])")
	case 5:
		kind = "repeat/MatchComment"
		links = []string{"MatchComment(`a`)", report}
		insert("MatchComment(`b`)")
	case 6:
		kind = "match-and-comment"
		insert("MatchComment(`c`)")
	case 7:
		kind = "unknown-outermost"
		links = append(links, g.pick([]string{"File()", "GoVersion()", "Deadcode()"}))
	case 8:
		kind = "unknown-inner"
		root = "lm"
		links = []string{"Match(`x`)", "Report(`r`)"}
		insert(g.pick([]string{"Import(`p`)", "Import()"}))
	case 9:
		kind = "missing-match"
		links = links[1:]
	case 10:
		kind = "missing-report"
		links = links[:len(links)-1]
	case 11:
		kind = "do-and-report"
		insert("Do(isOK2)")
	case 12:
		kind = "do-and-comment"
		links = []string{"MatchComment(`a`)", "Do(isOK2)"}
	case 13:
		kind = "paren-chain"
		*kinds = append(*kinds, "chain-defect/"+kind)
		return "\t(m." + links[0] + ")." + strings.Join(links[1:], ".") + "\n"
	case 14:
		kind = "paren-receiver(harmless)"
		root = "(m)"
	default:
		kind = "do-twice(harmless)"
		links = []string{match, "Do(isOK2)", "Do(isOK2)"}
	}
	*kinds = append(*kinds, "chain-defect/"+kind)
	return "\t" + root + "." + strings.Join(links, ".") + "\n"
}

func (g *c06GrpGen) helperStmtsKind(k int, name, use string, kinds *[]string) string {
	switch {
	case k < 10:
		*kinds = append(*kinds, "define/var")
		body := g.varBody("v", 1)
		g.helpers = append(g.helpers, c06Helper{name: name, params: []string{"var"}})
		return "\t" + name + " := func(v dsl.Var) bool { return " + body + " }\n"
	case k < 12:
		*kinds = append(*kinds, "define/var-var")
		body := g.varBody("a", 0) + " && " + g.varBody("b", 0)
		g.helpers = append(g.helpers, c06Helper{name: name, params: []string{"var", "var"}})
		return "\t" + name + " := func(a, b dsl.Var) bool { return " + body + " }\n"
	case k < 14:
		*kinds = append(*kinds, "define/var-str")
		g.helpers = append(g.helpers, c06Helper{name: name, params: []string{"var", "str"}})
		return "\t" + name + " := func(v dsl.Var, s string) bool { return v.Type." + g.pick([]string{"Is", "ConvertibleTo", "Implements"}) + "(s) }\n"
	case k < 16:
		*kinds = append(*kinds, "define/look-alike")
		g.helpers = append(g.helpers, c06Helper{name: name, params: []string{"lv"}})
		call, _ := g.look.lookCall()
		call = strings.Replace(call, "lv.", "v.", 1)
		return "\t" + name + " := func(v LV) bool { return " + call + " }\n"
	case k == 16:
		*kinds = append(*kinds, "define/variadic")
		g.helpers = append(g.helpers, c06Helper{name: name, odd: "variadic"})
		return "\t" + name + " := func(vs ...dsl.Var) bool { return true }\n"
	case k == 17:
		*kinds = append(*kinds, "define/unnamed-param")
		g.helpers = append(g.helpers, c06Helper{name: name, odd: "unnamed"})
		return "\t" + name + " := func(dsl.Var) bool { return lv.Pure }\n"
	case k == 18:
		*kinds = append(*kinds, "define/self-recursive")
		g.helpers = append(g.helpers, c06Helper{name: "hrec", params: []string{"var"}})
		return "\threc := func(v dsl.Var) bool { return " + g.pick([]string{"hrec(v)", "v.Pure && hrec(v)", "!hrec((v))", "hrec(v) || v.Const"}) + " }\n"
	case k == 19:
		*kinds = append(*kinds, "define/mutually-recursive")
		g.helpers = append(g.helpers, c06Helper{name: name, params: []string{"var"}}, c06Helper{name: "hb", params: []string{"var"}})
		return "\t" + name + " := func(v dsl.Var) bool { return hb(v) }\n\thb := func(v dsl.Var) bool { return " + name + "(v) }\n"
	case k == 20:
		*kinds = append(*kinds, "define/applies-its-parameter")
		g.helpers = append(g.helpers, c06Helper{name: name, odd: "F"})
		return "\t" + name + " := func(f F, v dsl.Var) bool { return f(f, v) }\n"
	case k == 21:
		*kinds = append(*kinds, "define/recursive-under-error")
		g.helpers = append(g.helpers, c06Helper{name: "hrec", params: []string{"var"}})
		return "\threc := func(v dsl.Var) bool { return hrec(m[strC]) }\n"
	case k == 22:
		*kinds = append(*kinds, "define-bad/multi-value")
		return "\t" + name + ", x" + name + " := " + g.pick([]string{"1", "func(v dsl.Var) bool { return v.Pure }"}) + ", 2\n\tvar _, _ = " + name + ", x" + name + "\n"
	case k == 23:
		*kinds = append(*kinds, "define-bad/not-a-func")
		return "\t" + name + " := " + g.pick([]string{"1", `"s"`, "lv", "isOK2", "lm.Match"}) + "\n" + use
	case k == 24:
		*kinds = append(*kinds, "define-bad/result-type")
		return "\t" + name + " := func(v dsl.Var) " + g.pick([]string{"int { return 1 }", "B { return v.Pure }", "(bool, bool) { return true, false }", "{ }", "interface{} { return true }"}) + "\n" + use
	case k == 25:
		*kinds = append(*kinds, "define-bad/statements")
		return "\t" + name + " := func(v dsl.Var) bool { " + g.pick([]string{"x := v.Pure; return x", "if v.Pure { return true }; return false", "return v.Pure; return false"}) + " }\n" + use
	case k == 26:
		*kinds = append(*kinds, "define-bad/not-a-return")
		return "\t" + name + " := func(v dsl.Var) bool { " + g.pick([]string{"panic(1)", "for {}", "{ return true }", "switch { default: return true }"}) + " }\n" + use
	case k == 27:
		*kinds = append(*kinds, "define-bad/naked-or-many-results")
		return "\t" + name + " := func(v dsl.Var) (ok bool) { return }\n" + use
	case k == 28:
		*kinds = append(*kinds, "define/named-result")
		g.helpers = append(g.helpers, c06Helper{name: name, params: []string{"var"}})
		return "\t" + name + " := func(v dsl.Var) (ok bool) { return v.Pure }\n"
	default:
		*kinds = append(*kinds, "define/no-params")
		g.helpers = append(g.helpers, c06Helper{name: name})
		return "\t" + name + " := func() bool { return " + g.pick([]string{`m["x"].Pure`, "lv.Const", "true", `m.File().Imports("fmt")`}) + " }\n"
	}
}

// helperCall: a call of one of the recorded helpers
func (g *c06GrpGen) helperCall(kinds *[]string) string {
	r := g.r
	h := g.helpers[r.Intn(len(g.helpers))]
	*kinds = append(*kinds, "call/helper")
	switch h.odd {
	case "variadic":
		n := r.Intn(3)
		*kinds = append(*kinds, fmt.Sprintf("call/variadic-helper/%d", n))
		return h.name + "(" + strings.Join([]string{`m["x"]`, `m["y"]`}[:n], ", ") + ")"
	case "unnamed":
		return h.name + `(m["x"])`
	case "F":
		return h.name + "(" + h.name + `, m["x"])`
	}
	var as []string
	for _, p := range h.params {
		switch p {
		case "var":
			if g.valid && r.Intn(10) != 0 {
				as = append(as, g.pick([]string{`m["x"]`, `m["y"]`, `(m["x"])`, "m[`x`]", `m[("y")]`}))
				continue
			}
			as = append(as, g.pick([]string{`m["x"]`, `m["x"]`, `m["y"]`, `(m["x"])`, `m[("x")]`, `(m)["$$"]`, `m[strC]`, `m["x"+"y"]`, "m[`x`]"}))
		case "lv":
			as = append(as, g.pick([]string{"lv", "(lv)", `lvv["x"]`, "lv"}))
		case "str":
			if g.valid && r.Intn(10) != 0 {
				as = append(as, g.pick([]string{`"int"`, "`error`", "strC", `("int")`}))
				continue
			}
			as = append(as, g.pick([]string{`"int"`, "`error`", "strC", "nonC", `"a" + "b"`, `("int")`}))
		}
	}
	return h.name + "(" + strings.Join(as, ", ") + ")"
}

func (g *c06GrpGen) ruleWithHelper(kinds *[]string) string {
	r := g.r
	w := g.helperCall(kinds)
	switch r.Intn(5) {
	case 0:
		w = "!" + w
	case 1:
		w = w + ` && m["x"].Pure`
	case 2:
		w = "(" + w + ") || " + g.helperCall(kinds)
	}
	root := "m.Match(`f($x, $y)`)"
	if r.Intn(5) == 0 {
		root = "lm.Match(`x`)"
	}
	return "\t" + root + ".Where(" + w + ").Report(`h`)\n"
}

// validRule: a rule of the real DSL (several alternatives, clauses in any order, real predicates, helper calls)
func (g *c06GrpGen) validRule(kinds *[]string) string {
	r := g.r
	atom := func() string {
		if len(g.helpers) > 0 && r.Intn(3) == 0 {
			return g.helperCall(kinds)
		}
		return g.pick(c06LookRealAtoms)
	}
	w := atom()
	for i, n := 0, r.Intn(3); i < n; i++ {
		switch r.Intn(3) {
		case 0:
			w = "!(" + w + ")"
		case 1:
			w = w + " && " + atom()
		default:
			w = "(" + w + ") || " + atom()
		}
	}
	pats := g.pick([]string{"`f($x, $y)`", "`f($x, $y)`, `g($x, $y)`", "`$x = $y`,\n\t\t`$y = $x`", "strC + `($x, $y)`"})
	var links []string
	comment := r.Intn(8) == 0
	if comment {
		links = append(links, "MatchComment(`(?P<x>a)(?P<y>b)`)")
	} else {
		links = append(links, "Match("+pats+")")
	}
	if r.Intn(3) != 0 {
		links = append(links, "Where("+w+")")
	}
	if r.Intn(4) == 0 {
		links = append(links, "At(m["+g.pick([]string{"`x`", `"y"`, "(`x`)"})+"])")
	}
	switch k := r.Intn(6); {
	case k == 0 && !comment:
		links = append(links, "Do(isOK2)")
	case k == 1:
		links = append(links, "Suggest(`g($x)`)")
	case k == 2:
		links = append(links, "Suggest(`g($x)`)", "Report(`r $x`)")
	default:
		links = append(links, "Report("+g.pick([]string{"`r $x`", "strC", "`a` + `b`"})+")")
	}
	// the clauses after Match in any order (the walk goes by names)
	if r.Intn(3) == 0 {
		rest := links[1:]
		r.Shuffle(len(rest), func(i, j int) { rest[i], rest[j] = rest[j], rest[i] })
	}
	*kinds = append(*kinds, "rule/valid")
	sep := "."
	if r.Intn(6) == 0 {
		sep = ".\n\t\t"
	}
	return "\tm." + strings.Join(links, sep) + "\n"
}

// oddStmt: statements and chain shapes the look-alike generator does not produce
func (g *c06GrpGen) oddStmt(kinds *[]string) string {
	r := g.r
	xs := []struct{ kind, text string }{
		{"stmt/paren-chain", "(m.Match(`x`)).Report(`r`)"},
		{"stmt/paren-receiver", "(m).Match(`x`).Report(`r`)"},
		{"stmt/paren-import", "(m).Import(`fmt`)"},
		{"stmt/call-receiver", "getLM().Match(`x`).Report(`r`)"},
		{"stmt/call-receiver", "getLM().Report(`r`)"},
		{"stmt/unknown-method", "lm.Match(`x`).Deadcode()"},
		{"stmt/unknown-method", "lm.Match(`x`).File()"},
		{"stmt/unknown-method", "lm.File().Underlying()"},
		{"stmt/unknown-method", "lm.Match(`x`).Import(`fmt`).Report(`r`)"},
		{"stmt/unknown-method-inner", "lm.Import(`fmt`).Match(`x`).Report(`r`)"},
		{"stmt/plain-call", "isOK2(nil)"},
		{"stmt/plain-call", "println(`x`)"},
		{"stmt/plain-call", "func() {}()"},
		{"stmt/receive", "<-ch"},
		{"stmt/do-twice", "lm.Match(`x`).Do(isOK2).Do(lv)"},
		{"stmt/do-twice", "lm.Match(`x`).Do().Do(isOK2)"},
		{"stmt/do-twice", "lm.Match(`x`).Do(isOK2).Do()"},
		{"stmt/match-twice", "lm.Match(`x`).Match(`y`).Report(`r`)"},
		{"stmt/match-and-comment", "lm.MatchComment(`x`).Match(`y`).Report(`r`)"},
		{"stmt/match-and-comment", "lm.Match(`x`).MatchComment(`y`).Report(`r`)"},
		{"stmt/where-twice", "lm.Match(`x`).Where(true).Where(false).Report(`r`)"},
		{"stmt/report-twice", "lm.Match(`x`).Report(`r`).Report(`s`)"},
		{"stmt/suggest-twice", "lm.Match(`x`).Suggest(`r`).Suggest(`s`)"},
		{"stmt/at-twice", "lm.Match(`x`).At(lvv[`x`]).At(lvv[`x`]).Report(`r`)"},
		{"stmt/reversed", "lm.Report(`r`).Where(lv.Pure).Match(`x`)"},
		{"stmt/reversed", "lm.Suggest(`s`).At(lvv[`x`]).MatchComment(`c`)"},
		{"stmt/multi-line", "m.Match(\n\t\t`f($x)`,\n\t\t`g($x)`,\n\t).\n\t\tWhere(m[`x`].Pure).\n\t\tReport(`r`)"},
		{"stmt/multi-line", "lm.\n\t\tMatch(`a`,\n\n\t\t\tstrC).\n\t\tReport(\n\t\t\t`r`)"},
		{"stmt/assign", "cnt = 1"},
		{"stmt/assign-func", "lm = nil"},
		{"stmt/incdec", "cnt++"},
		{"stmt/if", "if cnt > 0 {\n\t\tm.Match(`x`).Report(`r`)\n\t}"},
		{"stmt/block", "{\n\t\tm.Match(`x`).Report(`r`)\n\t}"},
		{"stmt/for", "for cnt < 0 {\n\t}"},
		{"stmt/go", "go isOK2(nil)"},
		{"stmt/defer", "defer isOK2(nil)"},
		{"stmt/return", "return"},
		{"stmt/empty", ";"},
		{"stmt/labeled", "L:\n\tfor {\n\t\tbreak L\n\t}"},
		{"stmt/decl-const", "const k = `x`"},
		{"stmt/decl-type", "type T int"},
		{"stmt/decl-var", "var v0 = lv\n\t_ = v0"},
		{"stmt/import", "m.Import(`fmt`)"},
		{"stmt/import", "m.Import(`github.com/a/b`)"},
		{"stmt/import-const", "m.Import(strC)"},
		{"stmt/import-const", "m.Import(`a` + `/b`)"},
		{"stmt/import-nonconst", "m.Import(nonC)"},
		{"stmt/import-look-alike", "lm.Import(`fmt`)"},
		{"stmt/import-look-alike", "lm.Import()"},
	}
	x := xs[r.Intn(len(xs))]
	*kinds = append(*kinds, x.kind)
	return "\t" + x.text + "\n"
}

func (g *c06GrpGen) docLines(kinds *[]string) string {
	r := g.r
	if r.Intn(3) != 0 {
		return ""
	}
	if g.valid && r.Intn(6) != 0 {
		var sb strings.Builder
		for i, n := 0, 1+r.Intn(4); i < n; i++ {
			sb.WriteString(g.pick([]string{"// g does things", "//doc:summary  finds f calls ", "//doc:summary\tx\u00a0", "//doc:before f(x)", "//doc:after g(x)", "//doc:note see the docs",
				"//doc:tags diagnostic  experimental\tx", "//doc:tags", "//doc:tagsx y", "//doc:notes", "// doc:summary x", "/*doc:summary x*/", "//doc:summary second"}) + "\n")
		}
		*kinds = append(*kinds, "doc/valid")
		return sb.String()
	}
	xs := []struct{ kind, text string }{
		{"doc/plain", "// g does things"},
		{"doc/summary", "//doc:summary  finds f calls "},
		{"doc/summary", "//doc:summary"},
		{"doc/summary", "//doc:summary\tx\u00a0"},
		{"doc/before", "//doc:before f(x)"},
		{"doc/after", "//doc:after g(x)"},
		{"doc/note", "//doc:note see the docs"},
		{"doc/tags", "//doc:tags diagnostic  experimental\tx"},
		{"doc/tags", "//doc:tags"},
		{"doc/pragma-prefix", "//doc:tagsx y"},
		{"doc/pragma-prefix", "//doc:notes"},
		{"doc/pragma-prefix", "//doc:beforehand"},
		{"doc/unknown-pragma", "//doc:unknown x"},
		{"doc/unknown-pragma", "//doc: summary x"},
		{"doc/unknown-pragma", "//doc:"},
		{"doc/unknown-pragma", "//doc:Summary x"},
		{"doc/not-doc", "// doc:summary x"},
		{"doc/not-doc", "//Doc:summary x"},
		{"doc/block-comment", "/*doc:summary x*/"},
	}
	n := 1 + r.Intn(3)
	var sb strings.Builder
	for i := 0; i < n; i++ {
		x := xs[r.Intn(len(xs))]
		*kinds = append(*kinds, x.kind)
		sb.WriteString(x.text + "\n")
	}
	return sb.String()
}

// group: one matcher function
func (g *c06GrpGen) group(i int, kinds *[]string) string {
	r := g.r
	g.helpers, g.nh = nil, 0
	var sb strings.Builder
	n := 1 + r.Intn(5)
	usedT := false
	g.valid = r.Intn(5) < 3
	g.strict = g.valid && r.Intn(2) == 0
	defectAt := -1
	if g.strict {
		defectAt = r.Intn(n)
	}
	if g.valid {
		*kinds = append(*kinds, "group/mostly-valid")
		for j, ni := 0, r.Intn(3); j < ni; j++ {
			sb.WriteString("\tm.Import(" + g.pick([]string{"`fmt`", "`io/ioutil`", "strC", "`a` + `/b`"}) + ")\n")
			*kinds = append(*kinds, "stmt/import")
		}
	}
	for j := 0; j < n; j++ {
		if j == defectAt {
			sb.WriteString(g.defectStmt(kinds))
			continue
		}
		if g.valid && (g.strict || r.Intn(15) != 0) {
			switch k := r.Intn(10); {
			case k < 3:
				sb.WriteString(g.helperStmts(kinds))
			case k == 3:
				sb.WriteString(g.pick([]string{"\tconst k" + fmt.Sprint(j) + " = `x`\n", "\ttype T" + fmt.Sprint(j) + " int\n", "\tvar v" + fmt.Sprint(j) + " = lv\n\t_ = v" + fmt.Sprint(j) + "\n"}))
				*kinds = append(*kinds, "stmt/decl")
			default:
				sb.WriteString(g.validRule(kinds))
			}
			continue
		}
		switch k := r.Intn(10); {
		case k < 3:
			sb.WriteString(g.helperStmts(kinds))
		case k < 6 && len(g.helpers) > 0:
			sb.WriteString(g.ruleWithHelper(kinds))
		case k < 8:
			g.look.hasT = false
			sb.WriteString("\t" + g.look.chainStmt(kinds) + "\n")
		case k == 8 && !usedT:
			usedT = true
			sb.WriteString("\tvar t = lm\n\tt.Match(`x`).Report(`t`)\n")
			*kinds = append(*kinds, "stmt/local-look-alike")
		default:
			sb.WriteString(g.oddStmt(kinds))
		}
	}
	// a helper that is never called does not type-check ("declared and not used")
	for _, h := range g.helpers {
		sb.WriteString("\tvar _ = " + h.name + "\n")
	}
	body := sb.String()
	doc := g.docLines(kinds)
	sh := c06LookDeclShapes[0]
	if r.Intn(8) == 0 && !g.valid {
		sh = c06LookDeclShapes[r.Intn(len(c06LookDeclShapes))]
	}
	*kinds = append(*kinds, sh.kind)
	if strings.Contains(sh.text, "%s") {
		return doc + fmt.Sprintf(sh.text, i, body)
	}
	return doc + fmt.Sprintf(sh.text, i)
}

var c06InitLookStmts = []struct{ kind, text string }{
	{"init/look/0-args", "dsl.ImportRules()"},
	{"init/look/1-arg", "dsl.ImportRules(`p`)"},
	{"init/look/1-arg", "dsl.ImportRules(nonC)"},
	{"init/look/2-args-field", "dsl.ImportRules(`p`, bb.Bundle)"},
	{"init/look/2-args-field", "dsl.ImportRules(strC, bb.Bundle)"},
	{"init/look/2-args-universe-method", "dsl.ImportRules(`p`, e.Error)"},
	{"init/look/2-args-not-selector", "dsl.ImportRules(`p`, bb)"},
	{"init/look/2-args-nonconst-prefix", "dsl.ImportRules(nonC, bb.Bundle)"},
	{"init/look/3-args", "dsl.ImportRules(`p`, bb.Bundle, 3)"},
	{"init/look/other-method", "dsl.Other()"},
	{"init/look/other-receiver", "other.ImportRules(`p`, bb.Bundle)"},
	{"init/look/paren-receiver", "(dsl).ImportRules()"},
	{"init/look/deep-receiver", "dsl.Sub.ImportRules()"},
	{"init/plain-call", "f()"},
	{"init/plain-call", "f(dsl.ImportRules)"},
	{"init/receive", "<-ch"},
	{"init/assign", "_ = dsl"},
	{"init/if", "if true {\n\t}"},
}

var c06InitRealStmts = []struct{ kind, text string }{
	{"init/real/bundle", "dsl.ImportRules(`p`, bundle.Bundle)"},
	{"init/real/bundle", "dsl.ImportRules(``, bundle.Bundle)"},
	{"init/real/const-prefix", "dsl.ImportRules(strC, bundle.Bundle)"},
	{"init/real/const-prefix", "dsl.ImportRules(`a`+`b`, bundle.Bundle)"},
	{"init/real/nonconst-prefix", "dsl.ImportRules(nonC, bundle.Bundle)"},
	{"init/real/field-bundle", "dsl.ImportRules(`p`, hbv.B)"},
	{"init/real/literal-bundle", "dsl.ImportRules(`p`, dsl.Bundle{})"},
	{"init/real/paren-bundle", "dsl.ImportRules(`p`, (bundle.Bundle))"},
	{"init/real/other-call", "_ = hbv"},
}

// file: a whole rules file; kinds = the classes it contains
func (g *c06GrpGen) file() (src string, kinds []string) {
	r := g.r
	switch k := r.Intn(12); {
	case k == 0:
		var sb strings.Builder
		sb.WriteString(c06InitLookPrelude + "\nfunc init() {\n")
		for i, n := 0, 1+r.Intn(3); i < n; i++ {
			x := c06InitLookStmts[r.Intn(len(c06InitLookStmts))]
			kinds = append(kinds, x.kind)
			sb.WriteString("\t" + x.text + "\n")
		}
		sb.WriteString("}\n")
		return sb.String(), kinds
	case k == 1:
		var sb strings.Builder
		sb.WriteString(c06InitRealPrelude + "\nfunc init() {\n")
		for i, n := 0, 1+r.Intn(3); i < n; i++ {
			x := c06InitRealStmts[r.Intn(len(c06InitRealStmts))]
			kinds = append(kinds, x.kind)
			sb.WriteString("\t" + x.text + "\n")
		}
		sb.WriteString("\t_ = bundle.Bundle\n}\n\nfunc g(m dsl.Matcher) {\n\tm.Match(`x`).Report(`r`)\n}\n")
		return sb.String(), kinds
	}
	var sb strings.Builder
	prelude := c06LookPrelude
	switch r.Intn(12) {
	case 0:
		prelude = strings.Replace(prelude, `import "github.com/quasilyte/go-ruleguard/dsl"`, "import (\n\t\"fmt\"\n\n\t\"github.com/quasilyte/go-ruleguard/dsl\"\n)\n\nvar _ = fmt.Sprint", 1)
		kinds = append(kinds, "imports/custom")
	case 1:
		prelude = strings.Replace(prelude, `import "github.com/quasilyte/go-ruleguard/dsl"`, "import (\n\tdsl \"github.com/quasilyte/go-ruleguard/dsl\"\n\t_ \"strings\"\n)", 1)
		kinds = append(kinds, "imports/named-dsl")
	}
	sb.WriteString(prelude)
	sb.WriteString(c06GroupPrelude)
	g.look.fixed = nil
	n := 1 + r.Intn(2)
	for i := 0; i < n; i++ {
		sb.WriteString("\n" + g.group(i, &kinds))
	}
	if r.Intn(10) == 0 {
		sb.WriteString("\nfunc init() {\n}\n")
		kinds = append(kinds, "init/empty")
	}
	return sb.String(), kinds
}

// hand-written members of every class (always run first)
var c06GroupSeeds = []string{
	// helpers: chains of helpers, recursion through a package-level function of the same name, mutual recursion,
	// a helper that applies its parameter to itself, recursion that ends in an argument error
	"func r(m dsl.Matcher) {\n\th1 := func(v dsl.Var) bool { return v.Pure }\n\th2 := func(v dsl.Var) bool { return h1(v) && !v.Const }\n\tm.Match(`f($x)`).Where(h2(m[`x`])).Report(`r`)\n}\n",
	"func r(m dsl.Matcher) {\n\threc := func(v dsl.Var) bool { return hrec(v) }\n\tm.Match(`f($x)`).Where(hrec(m[`x`])).Report(`r`)\n}\n",
	"func r(m dsl.Matcher) {\n\th1 := func(v dsl.Var) bool { return hb(v) }\n\thb := func(v dsl.Var) bool { return h1(v) }\n\tm.Match(`f($x)`).Where(h1(m[`x`])).Report(`r`)\n\t_ = hb\n}\n",
	"func r(m dsl.Matcher) {\n\th1 := func(f F, v dsl.Var) bool { return f(f, v) }\n\tm.Match(`f($x)`).Where(h1(h1, m[`x`])).Report(`r`)\n}\n",
	"func r(m dsl.Matcher) {\n\threc := func(v dsl.Var) bool { return hrec(m[strC]) }\n\tm.Match(`f($x)`).Where(hrec(m[`x`])).Report(`r`)\n}\n",
	"func r(m dsl.Matcher) {\n\threc := func(v dsl.Var) bool { return hrec(v) }\n\tm.Match(`f($x)`).Report(`r`)\n\t_ = hrec\n}\n",
	"func r(m dsl.Matcher) {\n\th1 := func(v dsl.Var) bool { return hrec(v) }\n\tm.Match(`f($x)`).Where(h1(m[`x`])).Report(`r`)\n}\n",
	"func r(m dsl.Matcher) {\n\th1 := func(v dsl.Var, s string) bool { return v.Type.Is(s) && v.Text.Matches(`a`) }\n\tm.Match(`f($x)`).Where(h1(m[`x`], `int`)).Report(`r`)\n\tm.Match(`g($x)`).Where(h1(m[`x`], nonC)).Report(`r`)\n}\n",
	// Import: order, arguments
	"func r(m dsl.Matcher) {\n\tm.Import(`fmt`)\n\tm.Import(`a/b`)\n\tm.Match(`f($x)`).Report(`r`)\n}\n",
	"func r(m dsl.Matcher) {\n\tm.Match(`f($x)`).Report(`r`)\n\tm.Import(`fmt`)\n}\n",
	"func r(m dsl.Matcher) {\n\tm.Import(nonC)\n}\n",
	"func r(mm dsl.Matcher) {\n\tmm.Import(`fmt`)\n\tmm.Match(`f($x)`).Where(mm[`x`].Pure).Report(`r`)\n}\n",
	"func r(mm dsl.Matcher) {\n\th := func(v dsl.Var) bool { return v.Pure }\n\tmm.Match(`f($x)`).Where(h(mm[`x`])).Report(`r`)\n}\n",
	// doc comments
	"//doc:summary  s \n//doc:tags a  b\n//doc:summary t\nfunc r(m dsl.Matcher) {\n\tm.Match(`f($x)`).Report(`r`)\n}\n",
	"//doc:tagsx\nfunc r(m dsl.Matcher) {\n\tm.Match(`f($x)`).Report(`r`)\n}\n",
	"//doc:nope\nfunc r(m dsl.Matcher) {\n\tm.Match(`f($x)`).Report(`r`)\n}\n",
	// the walk
	"func r(m dsl.Matcher) {\n\tlm.Report(`r`).Where(lv.Pure).Match(`x`)\n}\n",
	"func r(m dsl.Matcher) {\n\tlm.Match(`x`).Do(isOK2).Do()\n}\n",
	"func r(m dsl.Matcher) {\n\tlm.Match(`x`).Do().Do(isOK2)\n}\n",
	"func r(m dsl.Matcher) {\n\t(m.Match(`x`)).Report(`r`)\n}\n",
	"func r(m dsl.Matcher) {\n\tgetLM().Match(`x`).Report(`r`)\n}\n",
	"func r(m dsl.Matcher) {\n\tlm.Match(`x`).File()\n}\n",
	"func r(m dsl.Matcher) {\n\t<-ch\n}\n",
	"func r(m dsl.Matcher) {\n\tcnt = 1\n}\n",
}

var c06GroupSeedFiles = []string{
	// the reviewer's witnesses: a look-alike `dsl` with an ImportRules *method* (any arity, any argument kinds) in a file
	// that does not import the dsl package
	"package gorules\n\ntype T struct{}\n\nfunc (T) ImportRules() {}\n\nvar dsl T\n\nfunc init() {\n\tdsl.ImportRules()\n}\n",
	"package gorules\n\ntype T struct{}\n\nfunc (T) ImportRules(p string) {}\n\nvar dsl T\n\nfunc init() {\n\tdsl.ImportRules(`p`)\n}\n",
	"package gorules\n\ntype T struct{}\n\nfunc (T) ImportRules(n int) {}\n\nvar dsl T\n\nfunc init() {\n\tdsl.ImportRules(1)\n}\n",
	"package gorules\n\ntype T struct{}\n\nfunc (T) ImportRules(p string, f func() string) {}\n\nvar dsl T\nvar e error\n\nfunc init() {\n\tdsl.ImportRules(`p`, e.Error)\n}\n",
	"package gorules\n\ntype T struct{ x int }\n\nfunc (T) ImportRules(p string, n int) {}\n\nvar dsl T\n\nfunc init() {\n\tdsl.ImportRules(`p`, dsl.x)\n}\n",
	// … and a helper that refers to its own name while a package-level function of that name exists
	"package gorules\n\nimport \"github.com/quasilyte/go-ruleguard/dsl\"\n\nfunc f(v dsl.Var) bool { return true }\n\nfunc g(m dsl.Matcher) {\n\tf := func(v dsl.Var) bool { return f(v) }\n\tm.Match(`x($x)`).Where(f(m[\"x\"])).Report(`r`)\n}\n",
	"package gorules\n\nimport \"github.com/quasilyte/go-ruleguard/dsl\"\n\nfunc a(v dsl.Var) bool { return true }\n\nfunc b(v dsl.Var) bool { return true }\n\nfunc g(m dsl.Matcher) {\n\ta := func(v dsl.Var) bool { return b(v) }\n\tb := func(v dsl.Var) bool { return !a(v) }\n\tm.Match(`x($x)`).Where(m[\"x\"].Pure && b(m[\"x\"])).Report(`r`)\n}\n",
	c06InitLookPrelude + "\nfunc init() {\n\tdsl.ImportRules()\n}\n",
	c06InitLookPrelude + "\nfunc init() {\n\tdsl.ImportRules(`p`)\n}\n",
	c06InitLookPrelude + "\nfunc init() {\n\tdsl.ImportRules(`p`, e.Error)\n}\n",
	c06InitLookPrelude + "\nfunc init() {\n\tdsl.ImportRules(`p`, bb.Bundle)\n\tdsl.ImportRules(strC, bb.Bundle, 1)\n}\n",
	c06InitRealPrelude + "\nfunc init() {\n\tdsl.ImportRules(`p`, bundle.Bundle)\n\tdsl.ImportRules(strC, hbv.B)\n}\n",
	// the dsl package under another local name: `d2.ImportRules` is the real one, a variable `dsl` is nothing
	"package gorules\n\nimport (\n\td2 \"github.com/quasilyte/go-ruleguard/dsl\"\n\tbundle \"verifharness/c05bundle\"\n)\n\nfunc init() {\n\td2.ImportRules(`p`, bundle.Bundle)\n}\n\nfunc g(m d2.Matcher) {\n\tm.Match(`x`).Report(`r`)\n}\n",
	"package gorules\n\nimport d2 \"github.com/quasilyte/go-ruleguard/dsl\"\n\ntype DS struct{ ImportRules func(...interface{}) }\n\nvar dsl DS\n\nfunc init() {\n\tdsl.ImportRules()\n}\n\nfunc g(m d2.Matcher) {\n\tm.Match(`x`).Report(`r`)\n}\n",
	"package gorules\n\nimport (\n\t\"github.com/quasilyte/go-ruleguard/dsl\"\n\td2 \"github.com/quasilyte/go-ruleguard/dsl\"\n\tbundle \"verifharness/c05bundle\"\n)\n\nfunc init() {\n\tdsl.ImportRules(`p`, bundle.Bundle)\n}\n\nfunc g(m d2.Matcher) {\n\tm.Match(`x`).Report(`r`)\n}\n",
}

func c06GroupDist(res *hx.Result, kinds []string) {
	seen := map[string]bool{}
	for _, k := range kinds {
		f := strings.Split(strings.TrimPrefix(k, "helper:"), "/")
		if (f[0] == "var" || f[0] == "matcher" || f[0] == "fixed") && len(f) == 3 {
			k = f[0] + "-predicate"
		}
		if strings.HasPrefix(k, "chain/look/") {
			k = "chain/look-link"
		}
		if !seen[k] {
			seen[k] = true
			res.Dist("group:class:" + k)
		}
	}
}

// c06Groups: the group stream
func c06Groups(c *Ctx) error {
	res := c.Res
	n := 600
	if c.Thorough {
		n = 4000
	}
	r := hx.Rng(c.Seed, "c06-groups")
	g := &c06GrpGen{r: r, look: &c06LookGen{r: r}}
	bit := func(b bool) string {
		if b {
			return "1"
		}
		return "0"
	}
	ar := "1"
	if os.Getenv("VERIF_C06_NOARITY") != "" {
		ar = "0"
	}
	// VERIF_C06_GUARD=1 / VERIF_C06_INITFIX=1: compare with the repaired variants (fixes/c06-helper-recursion.diff, c06-init-arity.diff applied to the tree)
	guard, initFix := c06GroupGuard || os.Getenv("VERIF_C06_GUARD") != "", c06GroupInitFix || os.Getenv("VERIF_C06_INITFIX") != ""
	prefix := fmt.Sprintf("c06src %s %s %s %d ", ar, bit(guard), bit(initFix), c06GroupFuel)
	type gcase struct {
		src   string
		kinds []string
		l     *c18Loaded
	}
	var cases []gcase
	var ops []string
	total := len(c06GroupSeeds) + len(c06GroupSeedFiles) + n
	for i := 0; i < total; i++ {
		var src string
		var kinds []string
		switch {
		case i < len(c06GroupSeedFiles):
			src, kinds = c06GroupSeedFiles[i], []string{"seed"} // self-contained and minimal: the witnesses a violation is reported with
		case i < len(c06GroupSeeds)+len(c06GroupSeedFiles):
			src, kinds = c06LookPrelude+c06GroupPrelude+"\n"+c06GroupSeeds[i-len(c06GroupSeedFiles)], []string{"seed"}
		default:
			src, kinds = g.file()
		}
		l, err := c18Load(src)
		if err != nil {
			res.Dist("group:does-not-typecheck")
			if os.Getenv("VERIF_C06_DEBUG") != "" {
				fmt.Fprintf(os.Stderr, "group file does not type-check: %v\n%s\n", err, src)
			}
			continue
		}
		sx, ok := c06SrcFile(l)
		if !ok {
			res.Dist("group:outside-the-model-syntax")
			continue
		}
		cases = append(cases, gcase{src, kinds, l})
		ops = append(ops, prefix+sx)
	}
	ans, err := c.Drv.Ask(ops)
	if err != nil {
		return err
	}
	defer c06StopChild()
	for i, cs := range cases {
		model := c06FoldDocs(ans[i])
		in := map[string]interface{}{"rules_src": cs.src, "classes": cs.kinds}
		var real string
		// a helper that can reach itself (hrec, hb: package-level namesakes; F: applied to itself) never runs in-process:
		// a stack overflow cannot be recovered, whatever the model predicts
		risky := strings.Contains(cs.src, "\threc := ") || strings.Contains(cs.src, "\thb := ") || strings.Contains(cs.src, "(f F,") ||
			strings.Contains(cs.src, "\tf := func") || strings.Contains(cs.src, "\tb := func")
		if model == "panic stack" || risky {
			out := c06ChildOutcome(cs.src)
			switch {
			case strings.HasPrefix(out, "FATAL stack-overflow"):
				real = "panic stack"
				res.Violate(hx.Violation{Signature: "load:fatal " + strings.TrimPrefix(out, "FATAL "),
					What:  "irconv.ConvertFile (the first thing Engine.Load does with a type-checked rules file) dies with `fatal error: stack overflow`, which no recover() can stop, on a rules file that is valid Go: a local helper whose expansion calls a helper of the same name again is expanded without bound",
					Input: in, Impl: out, Spec: "success or located error"})
			case strings.HasPrefix(out, "panic "):
				f := strings.Fields(out)
				real = "panic " + f[1]
				res.Violate(hx.Violation{Signature: "load:panic " + f[1] + "@" + f[len(f)-1], What: "irconv.ConvertFile panics on a rules file that is valid Go: " + clip(out),
					Input: in, Impl: clip(out), Spec: "success or located error"})
			default:
				real = out
			}
			res.Dist("group:in-child-process")
		} else {
			f, out := cs.l.convert()
			switch {
			case out == "ok":
				real = c06RealFile(f)
			case strings.HasPrefix(out, "panic"):
				real = strings.SplitN(out, ":", 2)[0]
				// the same file through the public API: one signature (panic kind @ frame) per defect
				c06LookViolate(res, c06LoadOutcome(cs.src), in)
			default:
				real = "err"
				// which refusal: every error branch of the model should show up here
				msg := strings.TrimPrefix(out, "error: ")
				if k := strings.Index(msg, ": "); k >= 0 {
					msg = msg[k+2:]
				}
				if w := strings.Fields(msg); len(w) > 4 {
					msg = strings.Join(w[:4], " ")
				}
				mode := "wild"
				for _, k := range cs.kinds {
					if k == "group/mostly-valid" {
						mode = "mostly-valid"
					}
				}
				res.Dist("group:error:" + mode + ":" + msg)
			}
		}
		cls := strings.SplitN(real, " ", 2)[0]
		if cls == "panic" {
			cls = real
		}
		res.Count("group-src", cs.src, strings.Count(ops[i], "(expr ") >= 1)
		res.Dist("group:outcome:" + cls)
		c06GroupDist(res, cs.kinds)
		if real != model {
			res.Disagree(hx.Disagreement{Suite: "group-src", Op: ops[i], Impl: real, Model: model, Input: in})
		}
		if i == len(c06GroupSeeds)+len(c06GroupSeedFiles) {
			res.Sample(map[string]interface{}{"group_rules_src": cs.src, "outcome": clip(real)})
		}
	}
	return nil
}
