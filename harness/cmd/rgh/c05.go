package main

// C05 — precompiled IR rules behave exactly like the source rules.
//
// Suites
//   irprint   generated / hand-picked / converter-produced ir.File values: go/scanner tokens of the real
//             irprint.File output == Lean model `printFile_asis` (or `printFile`, see c05CompareFixed)
//   evalLit   Lean `SpecC05.evalLit` == the reflection-based evaluator of the parsed text (go/parser), on the
//             printed outputs and on mutated token streams (reordered / duplicated / unknown keys, explicit
//             element types, dropped commas and tokens)
//   spec      the executable statement `SpecC05.specHolds` evaluated on the implementation's tokens; a failing
//             well-formed input is shrunk and reported as a violation
//   e2e       (c05_e2e.go, c05_hist.go) load histories of 1..3 rules files per engine: Engine.Load of every file  vs
//             precompile -> irprint -> evaluate -> Engine.LoadFromIR of every file (outcomes, groups, report streams)

import (
	"fmt"
	"reflect"
	"sort"
	"strings"
	"time"

	"github.com/quasilyte/go-ruleguard/ruleguard/ir"
	"verifharness/hx"
)

func init() { register("C05", runC05) }

// c05CompareFixed chooses the Lean variant of the printer that the correspondence compares the code
// against: false = `printFile_asis` (the repository as it is), true = `printFile` (the repository
// after fixes/irprint-roundtrip.diff has been applied).
const c05CompareFixed = true

func c05PrintOp() string {
	if c05CompareFixed {
		return "irprint"
	}
	return "irprint_asis"
}

type c05Case struct {
	f      *ir.File
	origin string // stream name
	sexp   string
	text   string // printed text ("" when the printer panicked)
	impl   string // "ok <tokens>" | "panic <kind>"
	toks   []string
}

// c05Run prints one file with the real printer and tokenises the result.
func c05Prepare(f *ir.File, origin string) (*c05Case, error) {
	sexp, ok := encFile(f)
	if !ok {
		return nil, fmt.Errorf("%s: value outside the mirror", origin)
	}
	cs := &c05Case{f: f, origin: origin, sexp: sexp}
	text, res := printIR(f)
	if res != "ok" {
		cs.impl = res
		return cs, nil
	}
	toks, err := tokenize(text)
	if err != nil {
		return nil, fmt.Errorf("%s: tokenising the printed text: %v", origin, err)
	}
	cs.text, cs.toks = text, toks
	cs.impl = strings.Join(append([]string{"ok"}, stripLastCommas(toks)...), " ")
	return cs, nil
}

// stripLastCommas: the comparison form of a token stream (a comma directly in front of `}` is layout:
// gofmt keeps or deletes it depending on line breaks); the spec is evaluated on the raw tokens.
func stripLastCommas(toks []string) []string {
	out := make([]string, 0, len(toks))
	for i, t := range toks {
		if t == "," && i+1 < len(toks) && toks[i+1] == "}" {
			continue
		}
		out = append(out, t)
	}
	return out
}

func c05SpecOp(cs *c05Case) string {
	if cs.toks == nil && !strings.HasPrefix(cs.impl, "ok") {
		return "c05spec panic | " + cs.sexp
	}
	return "c05spec " + strings.Join(cs.toks, " ") + " | " + cs.sexp
}

// c05Corpus: hand-picked values (run first): the fixed-text property's own list.
func c05Corpus() []*ir.File {
	str := func(s string) ir.FilterExpr {
		return ir.FilterExpr{Op: ir.FilterOp(filterOpConsts["FilterStringOp"]), Value: s}
	}
	op := func(name string) ir.FilterOp { return ir.FilterOp(filterOpConsts["Filter"+name+"Op"]) }
	var fs []*ir.File
	fs = append(fs, &ir.File{})
	fs = append(fs, &ir.File{PkgPath: "gorules"})
	fs = append(fs, &ir.File{PkgPath: "gorules", RuleGroups: []ir.RuleGroup{}, CustomDecls: []string{}, BundleImports: []ir.BundleImport{}})
	// every op once, in its schema shape
	var all []ir.FilterExpr
	g := &irGen{r: hx.Rng(7, "c05-corpus"), mode: genValid, res: hx.NewResult("", "", 0)}
	rows, _ := readFilterOps()
	g.ops = rows
	for i := 0; i < 400; i++ {
		all = append(all, g.filter(2))
	}
	var rules []ir.Rule
	for i, e := range all {
		rules = append(rules, ir.Rule{Line: i + 1, SyntaxPatterns: []ir.PatternString{{Line: i + 1, Value: "$x"}}, ReportTemplate: "m", WhereExpr: e})
	}
	fs = append(fs, &ir.File{PkgPath: "gorules", RuleGroups: []ir.RuleGroup{{Line: 1, Name: "g", MatcherName: "m", Rules: rules}}})
	// int / string constants: negative, zero, empty, quote-laden
	consts := []ir.FilterExpr{
		{Op: op("Int"), Value: int64(0)}, {Op: op("Int"), Value: int64(-1)}, {Op: op("Int"), Value: int64(-1 << 63)}, {Op: op("Int"), Value: int64(1<<63 - 1)},
		str(""), str(`"`), str("`"), str("\\"), str("\n"), str("\x00\xff"), str("'"), str(`a"b` + "`c`"),
	}
	for i, cst := range consts {
		cmp := ir.FilterExpr{Op: op("Eq"), Src: "x", Args: []ir.FilterExpr{{Op: op("VarLine"), Value: "x"}, cst}}
		fs = append(fs, &ir.File{PkgPath: "gorules", RuleGroups: []ir.RuleGroup{{Line: 2, Name: fmt.Sprintf("c%d", i), MatcherName: "m",
			Rules: []ir.Rule{{Line: 3, SyntaxPatterns: []ir.PatternString{{Line: 3, Value: "$x"}}, ReportTemplate: "r", WhereExpr: cmp}}}}})
	}
	// doc pragmas, Import(), custom decls
	fs = append(fs, &ir.File{PkgPath: "gorules", CustomDecls: []string{`import "strings"`, "func f(ctx *dsl.VarFilterContext) bool { return true }", ""},
		RuleGroups: []ir.RuleGroup{{Line: 9, Name: "doc", MatcherName: "m", DocTags: []string{"a", "b"}, DocSummary: "s", DocBefore: "b", DocAfter: "a", DocNote: "n",
			Imports: []ir.PackageImport{{Path: "a/b", Name: "b"}, {Path: "", Name: "."}},
			Rules:   []ir.Rule{{Line: 10, CommentPatterns: []ir.PatternString{{Line: 10, Value: "^x"}}, ReportTemplate: "r", LocationVar: "x"}}}}})
	fs = append(fs, &ir.File{PkgPath: "gorules", RuleGroups: []ir.RuleGroup{{Line: 1, Name: "t", MatcherName: "m", DocTags: []string{}}}})
	// bundle imports (D13)
	fs = append(fs, &ir.File{PkgPath: "gorules", BundleImports: []ir.BundleImport{{Line: 3, PkgPath: "a/b", Prefix: "p"}}})
	fs = append(fs, &ir.File{PkgPath: "gorules", BundleImports: []ir.BundleImport{{Line: 3, PkgPath: "a/b", Prefix: "a/b"}, {Line: 4, PkgPath: "c", Prefix: ""}}})
	// zero-valued slice elements
	fs = append(fs, &ir.File{PkgPath: "gorules", RuleGroups: []ir.RuleGroup{{Line: 1, Name: "t", MatcherName: "m", DocTags: []string{"a", "", "b"}}}})
	fs = append(fs, &ir.File{PkgPath: "gorules", RuleGroups: []ir.RuleGroup{{}, {Line: 1}}})
	return fs
}

func runC05(c *Ctx) error {
	res := c.Res
	if err := loadFilterOpConsts(); err != nil {
		return err
	}
	rows, err := readFilterOps()
	if err != nil {
		return err
	}
	nValid, nBundle, nZero, nMal, nMut := 700, 120, 250, 250, 600
	if c.Thorough {
		nValid, nBundle, nZero, nMal, nMut = 24000, 3000, 6000, 6000, 12000
	}
	res.Rule = fmt.Sprintf("ir.File values: hand-picked corpus (every op in its schema shape, negative/zero/extreme ints, empty and quote-laden strings, "+
		"doc pragmas, imports, custom decls, bundle imports, zero-valued slice elements) + %d schema-valid + %d with bundle imports + %d with zero-valued slice elements "+
		"+ %d outside the schema (numbers without a name, non-string Value or Args on one-line ops), every one printed by the real irprint.File, tokenised with go/scanner "+
		"and compared with the Lean printer model; every printed text is evaluated by SpecC05.evalLit (Lean) and by a reflection evaluator over go/parser (Go) and both "+
		"must agree, also on %d mutated token streams; the statement SpecC05.specHolds is evaluated on the implementation's tokens for every schema-valid value; "+
		"rules files (fixtures + generated) go through Load vs precompile->irprint->evaluate->LoadFromIR, one file per engine and as load histories of 1..3 files in one engine "+
		"(all-source engine vs all-IR engine over the same files in the same order: package clauses other than gorules, per-file custom Filter()/Do() function names and bodies, "+
		"files drawing patterns from a small common pool so that rules of different files accept the same node, colliding group names, equal file names, bundle imports, "+
		"2..3 fixture files together): equal outcome of every load call, equal LoadedGroups(), equal report streams in the same order. "+
		"Loader half: every ir.File the real irconv produced for those rules files plus values of C06's IR generator (1/3 malformed), sent whole (all fields, nil/empty bits) to the Lean "+
		"model loadFile(toLoaderFile f) and to the model of the precompiled path (print, read back, load): outcome class (accepted alternatives with buckets / error line / panic kind) "+
		"== real LoadFromIR of the value / of the evaluated printed text; LoadFromIR of the value with every empty slice nil and with every nil slice empty-but-non-nil must behave the same. "+
		"A case is non-trivial when the file has at least one rule group or bundle import; distinct by S-expression.", nValid, nBundle, nZero, nMal, nMut)

	var cases []*c05Case
	add := func(f *ir.File, origin string) {
		cs, err := c05Prepare(f, origin)
		if err != nil {
			res.Errorf("%v", err)
			return
		}
		cases = append(cases, cs)
	}
	for i, f := range c05Corpus() {
		add(f, fmt.Sprintf("corpus#%d", i))
	}
	streams := []struct {
		name string
		mode irGenMode
		n    int
	}{{"valid", genValid, nValid}, {"bundle", genBundle, nBundle}, {"zero-elems", genZeroElems, nZero}, {"malformed", genMalformed, nMal}}
	for _, s := range streams {
		g := &irGen{r: hx.Rng(c.Seed, "c05-"+s.name), mode: s.mode, ops: rows, res: res}
		for i := 0; i < s.n; i++ {
			add(g.file(), s.name)
		}
	}
	// rules files converted by the real irconv (fixtures + generated): their IR goes through the same suites
	t0 := time.Now()
	e2eFiles, err := c05E2E(c)
	if err != nil {
		return err
	}
	res.Notes = append(res.Notes, fmt.Sprintf("e2e suite %.1fs", time.Since(t0).Seconds()))
	t0 = time.Now()
	// the loader half: Lean model of LoadFile on the whole ir.File, the precompiled path, nil vs empty (c05_load.go)
	if err := c05LoadSuites(c, e2eFiles); err != nil {
		return err
	}
	res.Notes = append(res.Notes, fmt.Sprintf("load suites %.1fs", time.Since(t0).Seconds()))
	t0 = time.Now()
	defer func() { res.Notes = append(res.Notes, fmt.Sprintf("IR suites %.1fs", time.Since(t0).Seconds())) }()
	for _, ef := range e2eFiles {
		add(ef.irfile, "irconv:"+ef.name)
	}

	if err := c05IRSuites(c, cases); err != nil {
		return err
	}
	return c05Mutations(c, cases, nMut)
}

// c05IRSuites: printer correspondence, evaluator correspondence, and the executable spec.
func c05IRSuites(c *Ctx, cases []*c05Case) error {
	res := c.Res
	var ops, impl []string
	var inputs []interface{}
	for _, cs := range cases {
		ops = append(ops, c05PrintOp()+" "+cs.sexp)
		impl = append(impl, cs.impl)
		inputs = append(inputs, map[string]interface{}{"origin": cs.origin, "ir": cs.sexp})
		res.Count("irprint", cs.sexp, len(cs.f.RuleGroups) > 0 || len(cs.f.BundleImports) > 0)
		switch {
		case strings.HasPrefix(cs.impl, "panic"):
			res.Dist("irprint:" + cs.impl)
		default:
			res.Dist("irprint:ok")
		}
		res.Dist("stream:" + strings.SplitN(strings.SplitN(cs.origin, "#", 2)[0], ":", 2)[0])
	}
	if len(cases) > 3 {
		res.Sample(map[string]interface{}{"op": ops[3], "impl": impl[3]})
	}
	if err := res.Compare(c.Drv, "irprint", ops, impl, inputs); err != nil {
		return err
	}

	// evaluator correspondence on the printed outputs
	var eops, eimpl []string
	var einputs []interface{}
	goEqual := map[*c05Case]bool{}
	for _, cs := range cases {
		if cs.toks == nil {
			continue
		}
		got, err := evalIRText(cs.text)
		ans := "none"
		if err == nil {
			s, ok := encFile(normalizeFile(got))
			if !ok {
				return fmt.Errorf("evaluator produced a value outside the mirror")
			}
			ans = "some " + s
			goEqual[cs] = reflect.DeepEqual(normalizeFile(got), normalizeFile(cs.f))
			res.Dist("evalLit:printed:some")
		} else {
			res.Dist("evalLit:printed:none")
		}
		eops = append(eops, "c05eval "+strings.Join(cs.toks, " "))
		eimpl = append(eimpl, ans)
		einputs = append(einputs, map[string]interface{}{"origin": cs.origin, "text": cs.text})
		res.Count("evalLit", cs.sexp, len(cs.f.RuleGroups) > 0)
	}
	if err := res.Compare(c.Drv, "evalLit", eops, eimpl, einputs); err != nil {
		return err
	}

	// the property itself, on the implementation's output
	var wops, sops []string
	for _, cs := range cases {
		wops = append(wops, "c05wf "+cs.sexp)
		sops = append(sops, c05SpecOp(cs))
	}
	wf, err := c.Drv.Ask(wops)
	if err != nil {
		return err
	}
	verdict, err := c.Drv.Ask(sops)
	if err != nil {
		return err
	}
	for i, cs := range cases {
		res.Count("spec", cs.sexp, len(cs.f.RuleGroups) > 0 || len(cs.f.BundleImports) > 0)
		if verdict[i] != "holds" && verdict[i] != "violates" {
			res.Errorf("spec op answered %q", verdict[i])
			continue
		}
		if cs.toks != nil {
			if ge := goEqual[cs]; ge != (verdict[i] == "holds") {
				res.Errorf("the two oracles disagree on %s: reflect.DeepEqual=%v, SpecC05.specHolds=%s", cs.sexp, ge, verdict[i])
			}
		}
		if wf[i] != "wf" {
			res.Dist("spec:outside-schema:" + verdict[i])
			continue
		}
		res.Dist("spec:" + verdict[i])
		if verdict[i] == "holds" {
			continue
		}
		if err := c05ReportViolation(c, cs); err != nil {
			return err
		}
	}
	return nil
}

// ---------- shrinking and classification of a failing IR value ----------

func cloneFile(f *ir.File) *ir.File {
	var cloneF func(e ir.FilterExpr) ir.FilterExpr
	cloneF = func(e ir.FilterExpr) ir.FilterExpr {
		if e.Args != nil {
			as := make([]ir.FilterExpr, len(e.Args))
			for i := range e.Args {
				as[i] = cloneF(e.Args[i])
			}
			e.Args = as
		}
		return e
	}
	out := *f
	if f.RuleGroups != nil {
		out.RuleGroups = make([]ir.RuleGroup, len(f.RuleGroups))
		for i, g := range f.RuleGroups {
			ng := g
			if g.DocTags != nil {
				ng.DocTags = append([]string{}, g.DocTags...)
			}
			if g.Imports != nil {
				ng.Imports = append([]ir.PackageImport{}, g.Imports...)
			}
			if g.Rules != nil {
				ng.Rules = make([]ir.Rule, len(g.Rules))
				for j, r := range g.Rules {
					nr := r
					if r.SyntaxPatterns != nil {
						nr.SyntaxPatterns = append([]ir.PatternString{}, r.SyntaxPatterns...)
					}
					if r.CommentPatterns != nil {
						nr.CommentPatterns = append([]ir.PatternString{}, r.CommentPatterns...)
					}
					nr.WhereExpr = cloneF(r.WhereExpr)
					ng.Rules[j] = nr
				}
			}
			out.RuleGroups[i] = ng
		}
	}
	if f.CustomDecls != nil {
		out.CustomDecls = append([]string{}, f.CustomDecls...)
	}
	if f.BundleImports != nil {
		out.BundleImports = append([]ir.BundleImport{}, f.BundleImports...)
	}
	return &out
}

// shrinkCandidates: one-step simplifications of f (smaller first).
func shrinkCandidates(f *ir.File) []*ir.File {
	var out []*ir.File
	mod := func(fn func(g *ir.File) bool) {
		g := cloneFile(f)
		if fn(g) {
			out = append(out, g)
		}
	}
	mod(func(g *ir.File) bool { ok := g.RuleGroups != nil; g.RuleGroups = nil; return ok })
	// big cuts first: keep one group, keep one rule of one group, halve the rules
	if len(f.RuleGroups) > 1 {
		for i := range f.RuleGroups {
			i := i
			mod(func(g *ir.File) bool { g.RuleGroups = []ir.RuleGroup{g.RuleGroups[i]}; return true })
		}
	}
	for i := range f.RuleGroups {
		i := i
		n := len(f.RuleGroups[i].Rules)
		if n > 3 {
			mod(func(g *ir.File) bool { x := &g.RuleGroups[i]; x.Rules = x.Rules[:n/2]; return true })
			mod(func(g *ir.File) bool { x := &g.RuleGroups[i]; x.Rules = x.Rules[n/2:]; return true })
		}
		if n > 1 && n <= 64 {
			for j := 0; j < n; j++ {
				j := j
				mod(func(g *ir.File) bool { x := &g.RuleGroups[i]; x.Rules = []ir.Rule{x.Rules[j]}; return true })
			}
		}
	}
	mod(func(g *ir.File) bool { ok := g.CustomDecls != nil; g.CustomDecls = nil; return ok })
	mod(func(g *ir.File) bool { ok := g.BundleImports != nil; g.BundleImports = nil; return ok })
	mod(func(g *ir.File) bool { ok := g.PkgPath != ""; g.PkgPath = ""; return ok })
	for i := range f.BundleImports {
		i := i
		mod(func(g *ir.File) bool {
			g.BundleImports = append(g.BundleImports[:i:i], g.BundleImports[i+1:]...)
			return true
		})
		mod(func(g *ir.File) bool { b := &g.BundleImports[i]; ok := b.Line != 0; b.Line = 0; return ok })
		mod(func(g *ir.File) bool { b := &g.BundleImports[i]; ok := b.Prefix != ""; b.Prefix = ""; return ok })
		mod(func(g *ir.File) bool { b := &g.BundleImports[i]; ok := b.PkgPath != ""; b.PkgPath = ""; return ok })
	}
	for i := range f.RuleGroups {
		i := i
		mod(func(g *ir.File) bool {
			g.RuleGroups = append(g.RuleGroups[:i:i], g.RuleGroups[i+1:]...)
			return true
		})
		gr := f.RuleGroups[i]
		mod(func(g *ir.File) bool {
			x := &g.RuleGroups[i]
			ok := x.Name != "" || x.MatcherName != "" || x.DocSummary != "" || x.DocBefore != "" || x.DocAfter != "" || x.DocNote != ""
			x.Name, x.MatcherName, x.DocSummary, x.DocBefore, x.DocAfter, x.DocNote = "", "", "", "", "", ""
			return ok
		})
		mod(func(g *ir.File) bool { x := &g.RuleGroups[i]; ok := x.Line != 0 && x.Line != 1; x.Line = 1; return ok })
		mod(func(g *ir.File) bool { x := &g.RuleGroups[i]; ok := x.DocTags != nil; x.DocTags = nil; return ok })
		mod(func(g *ir.File) bool { x := &g.RuleGroups[i]; ok := x.Imports != nil; x.Imports = nil; return ok })
		mod(func(g *ir.File) bool { x := &g.RuleGroups[i]; ok := x.Rules != nil; x.Rules = nil; return ok })
		for j := range gr.DocTags {
			j := j
			mod(func(g *ir.File) bool {
				x := &g.RuleGroups[i]
				x.DocTags = append(x.DocTags[:j:j], x.DocTags[j+1:]...)
				return true
			})
		}
		for j := range gr.Imports {
			j := j
			mod(func(g *ir.File) bool {
				x := &g.RuleGroups[i]
				x.Imports = append(x.Imports[:j:j], x.Imports[j+1:]...)
				return true
			})
		}
		for j := range gr.Rules {
			j := j
			mod(func(g *ir.File) bool {
				x := &g.RuleGroups[i]
				x.Rules = append(x.Rules[:j:j], x.Rules[j+1:]...)
				return true
			})
			ru := gr.Rules[j]
			mod(func(g *ir.File) bool {
				x := &g.RuleGroups[i].Rules[j]
				ok := !reflect.ValueOf(x.WhereExpr).IsZero()
				x.WhereExpr = ir.FilterExpr{}
				return ok
			})
			mod(func(g *ir.File) bool {
				x := &g.RuleGroups[i].Rules[j]
				ok := x.SyntaxPatterns != nil || x.CommentPatterns != nil
				x.SyntaxPatterns, x.CommentPatterns = nil, nil
				return ok
			})
			mod(func(g *ir.File) bool {
				x := &g.RuleGroups[i].Rules[j]
				ok := x.ReportTemplate != "" || x.SuggestTemplate != "" || x.DoFuncName != "" || x.LocationVar != ""
				x.ReportTemplate, x.SuggestTemplate, x.DoFuncName, x.LocationVar = "", "", "", ""
				return ok
			})
			// replace the filter by one of its arguments / drop one argument
			for k := range ru.WhereExpr.Args {
				k := k
				mod(func(g *ir.File) bool {
					x := &g.RuleGroups[i].Rules[j]
					x.WhereExpr = x.WhereExpr.Args[k]
					return true
				})
				mod(func(g *ir.File) bool {
					x := &g.RuleGroups[i].Rules[j]
					x.WhereExpr.Args = append(x.WhereExpr.Args[:k:k], x.WhereExpr.Args[k+1:]...)
					return true
				})
			}
			mod(func(g *ir.File) bool {
				x := &g.RuleGroups[i].Rules[j].WhereExpr
				ok := x.Src != "" || x.Line != 0
				x.Src, x.Line = "", 0
				return ok
			})
		}
	}
	return out
}

// c05Shrink greedily shrinks a failing, well-formed value (still failing, still well-formed).
func c05Shrink(c *Ctx, cs *c05Case) (*c05Case, error) {
	cur := cs
	deadline := time.Now().Add(20 * time.Second)
	for round := 0; round < 400 && time.Now().Before(deadline); round++ {
		cands := shrinkCandidates(cur.f)
		var next *c05Case
		for lo := 0; lo < len(cands) && next == nil && time.Now().Before(deadline); lo += 24 {
			hi := lo + 24
			if hi > len(cands) {
				hi = len(cands)
			}
			var pcs []*c05Case
			var wops, sops []string
			for _, f := range cands[lo:hi] {
				p, err := c05Prepare(f, cs.origin+":shrunk")
				if err != nil {
					continue
				}
				pcs = append(pcs, p)
				wops = append(wops, "c05wf "+p.sexp)
				sops = append(sops, c05SpecOp(p))
			}
			if len(pcs) == 0 {
				continue
			}
			wf, err := c.Drv.Ask(wops)
			if err != nil {
				return nil, err
			}
			verdict, err := c.Drv.Ask(sops)
			if err != nil {
				return nil, err
			}
			for i := range pcs {
				if wf[i] == "wf" && verdict[i] == "violates" {
					next = pcs[i]
					break
				}
			}
		}
		if next == nil {
			break
		}
		cur = next
	}
	return cur, nil
}

func hasZeroElems(f *ir.File) bool {
	zero := func(v interface{}) bool { return reflect.ValueOf(v).IsZero() }
	var fz func(e *ir.FilterExpr) bool
	fz = func(e *ir.FilterExpr) bool {
		for i := range e.Args {
			if zero(e.Args[i]) || fz(&e.Args[i]) {
				return true
			}
		}
		return false
	}
	for _, g := range f.RuleGroups {
		if zero(g) {
			return true
		}
		for _, t := range g.DocTags {
			if t == "" {
				return true
			}
		}
		for _, im := range g.Imports {
			if zero(im) {
				return true
			}
		}
		for _, r := range g.Rules {
			if zero(r) {
				return true
			}
			for _, p := range r.SyntaxPatterns {
				if zero(p) {
					return true
				}
			}
			for _, p := range r.CommentPatterns {
				if zero(p) {
					return true
				}
			}
			if fz(&r.WhereExpr) {
				return true
			}
		}
	}
	return false
}

// c05ReportViolation shrinks the witness and files it under a specific signature.
func c05ReportViolation(c *Ctx, cs *c05Case) error {
	// cheap pre-classification so that only the first witness of a class is shrunk
	class := func(x *c05Case) string {
		switch {
		case strings.HasPrefix(x.impl, "panic"):
			return "irprint:" + x.impl
		case len(x.f.BundleImports) > 0:
			return "irprint:BundleImports:elements-unbraced"
		case hasZeroElems(x.f):
			return "irprint:zero-valued-slice-element-dropped"
		}
		return "irprint:roundtrip-differs"
	}
	pre := class(cs)
	for _, v := range c.Res.Violations {
		if v.Signature == pre {
			return nil
		}
	}
	small, err := c05Shrink(c, cs)
	if err != nil {
		return err
	}
	sig := class(small)
	spec := "none"
	if small.toks != nil {
		ans, err := c.Drv.Ask([]string{"c05eval " + strings.Join(small.toks, " ")})
		if err != nil {
			return err
		}
		spec = ans[0]
	}
	norm, err := c.Drv.Ask([]string{"c05norm " + small.sexp})
	if err != nil {
		return err
	}
	c.Res.Violate(hx.Violation{
		Signature: sig,
		What:      "evaluating the text printed by irprint.File does not give back the IR value (nil and empty slices identified)",
		Input:     map[string]interface{}{"origin": cs.origin, "ir": small.sexp, "go": fmt.Sprintf("%#v", *small.f), "printed": small.text},
		Impl:      "printed text evaluates to: " + spec + "  (printer: " + strings.SplitN(small.impl, " ", 2)[0] + ")",
		Spec:      "expected: some " + norm[0],
	})
	return nil
}

// ---------- mutated token streams: evalLit vs the Go-side evaluator ----------

func c05Mutations(c *Ctx, cases []*c05Case, n int) error {
	res := c.Res
	r := hx.Rng(c.Seed, "c05-mutations")
	var pool []*c05Case
	for _, cs := range cases {
		if cs.toks != nil && len(cs.toks) > 12 && len(cs.toks) < 1500 {
			pool = append(pool, cs)
		}
	}
	if len(pool) == 0 {
		return nil
	}
	fieldNames := []string{"Line", "Name", "Value", "Op", "Src", "Args", "PkgPath", "Rules", "Nope", "Prefix", "Path", "WhereExpr", "DocTags"}
	var ops, impl []string
	var inputs []interface{}
	for i := 0; i < n; i++ {
		cs := pool[r.Intn(len(pool))]
		toks := append([]string{}, cs.toks...)
		kind := ""
		idx := func(pred func(i int) bool) int {
			var cand []int
			for i := range toks {
				if pred(i) {
					cand = append(cand, i)
				}
			}
			if len(cand) == 0 {
				return -1
			}
			return cand[r.Intn(len(cand))]
		}
		isKey := func(i int) bool { return i+1 < len(toks) && strings.HasPrefix(toks[i], "id:") && toks[i+1] == ":" }
		switch r.Intn(10) {
		case 0: // delete one token
			j := r.Intn(len(toks))
			toks = append(toks[:j], toks[j+1:]...)
			kind = "delete-token"
		case 1: // rename a key
			if j := idx(isKey); j >= 0 {
				toks[j] = "id:" + fieldNames[r.Intn(len(fieldNames))]
			}
			kind = "rename-key"
		case 2: // duplicate a key: value, element
			if j := idx(func(i int) bool { return isKey(i) && i+3 < len(toks) && toks[i+3] == "," }); j >= 0 {
				dup := append([]string{}, toks[j:j+4]...)
				toks = append(toks[:j], append(dup, toks[j:]...)...)
			}
			kind = "duplicate-field"
		case 3: // drop a comma in front of a closing brace
			if j := idx(func(i int) bool { return toks[i] == "," && i+1 < len(toks) && toks[i+1] == "}" }); j >= 0 {
				toks = append(toks[:j], toks[j+1:]...)
			}
			kind = "drop-last-comma"
		case 4: // explicit element type in front of an elided literal
			if j := idx(func(i int) bool { return toks[i] == "{" && i > 0 && (toks[i-1] == "{" || toks[i-1] == ",") }); j >= 0 {
				ty := []string{"Rule", "RuleGroup", "FilterExpr", "PatternString", "PackageImport", "BundleImport", "File"}[r.Intn(7)]
				toks = append(toks[:j], append([]string{"id:ir", ".", "id:" + ty}, toks[j:]...)...)
			}
			kind = "explicit-elem-type"
		case 5: // move the PkgPath field of the file to the end
			if len(toks) > 9 && toks[4] == "id:PkgPath" {
				fld := append([]string{}, toks[4:8]...)
				body := append([]string{}, toks[8:len(toks)-1]...)
				toks = append(append(append(append([]string{}, toks[:4]...), body...), fld...), "}")
			}
			kind = "reorder-fields"
		case 6: // negate / un-negate an integer
			if j := idx(func(i int) bool {
				return strings.HasPrefix(toks[i], "n:") && toks[i] != "n:0" && toks[i] != "n:9223372036854775808"
			}); j >= 0 {
				if j > 0 && toks[j-1] == "-" {
					toks = append(toks[:j-1], toks[j:]...)
				} else {
					toks = append(toks[:j], append([]string{"-"}, toks[j:]...)...)
				}
			}
			kind = "negate-int"
		case 7: // unwrap int64(n) / wrap an int
			if j := idx(func(i int) bool { return toks[i] == "id:int64" }); j >= 0 && j+1 < len(toks) {
				toks = append(toks[:j], toks[j+1:]...)
				kind = "drop-int64"
			} else if j := idx(func(i int) bool { return strings.HasPrefix(toks[i], "n:") }); j >= 0 {
				toks = append(toks[:j], append([]string{"id:int64", "(", toks[j], ")"}, toks[j+1:]...)...)
				kind = "wrap-int64"
			}
		case 8: // another package / type name
			if j := idx(func(i int) bool { return toks[i] == "id:ir" }); j >= 0 {
				toks[j] = "id:" + []string{"irx", "ruleguard", "string"}[r.Intn(3)]
			}
			kind = "rename-package"
		case 9: // swap a string for an int or the reverse
			if j := idx(func(i int) bool { return strings.HasPrefix(toks[i], "s:") || strings.HasPrefix(toks[i], "n:") }); j >= 0 {
				if strings.HasPrefix(toks[j], "s:") {
					toks[j] = "n:7"
				} else {
					toks[j] = "s:" + hx.HexS("q")
				}
			}
			kind = "swap-literal-kind"
		}
		if kind == "" {
			kind = "unchanged"
		}
		text := renderTokens(toks)
		// the token stream the model sees is the re-tokenised text (so both sides read the same thing)
		rt, err := tokenize(text)
		if err != nil {
			continue
		}
		got, gerr := evalIRText(text)
		ans := "none"
		if gerr != nil && strings.Contains(gerr.Error(), "out of range") {
			// an integer beyond int64: Go rejects the constant, the mirror's integers are unbounded (modelled out)
			res.Dist("mutation:skipped-int-beyond-int64")
			continue
		}
		if gerr == nil {
			s, ok := encFile(normalizeFile(got))
			if !ok {
				continue
			}
			ans = "some " + s
		}
		res.Dist("mutation:" + kind + ":" + ans[:4])
		ops = append(ops, "c05eval "+strings.Join(rt, " "))
		impl = append(impl, ans)
		inputs = append(inputs, map[string]interface{}{"mutation": kind, "text": text})
		res.Count("evalLit-mutated", text, true)
	}
	return res.Compare(c.Drv, "evalLit-mutated", ops, impl, inputs)
}

func sortedKeys(m map[string]int) []string {
	var ks []string
	for k := range m {
		ks = append(ks, k)
	}
	sort.Strings(ks)
	return ks
}
