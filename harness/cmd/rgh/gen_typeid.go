package main

// gen_typeid.go — generators shared by C08 and C09 for the input class "engine-level state could matter":
//
//  1. rule sets built from *every type-directed predicate* of the DSL (HasPointers, OfKind, Size,
//     Implements, ConvertibleTo, AssignableTo, Comparable, IdenticalTo, Is, Underlying().Is,
//     HasMethod, Object.Is, IsGlobal, Addressable, Pure, Const, custom bytecode filters that look at
//     ctx.Type / SizeOf / GetType / GetInterface), plain, negated and combined, on single captures,
//     pairs and list captures;
//  2. multi-file target packages whose files contain *colliding type identities*: several
//     instantiations of one generic type (Box[int] vs Box[*string]: one origin object, one name),
//     function-local types of one name with different shapes (in different functions, files and
//     nested blocks), local aliases of one name, and whole packages type-checked under the same
//     package path whose package-level types of one name differ (a package and its variant).
//
// Anything an engine remembers per *name* (or per origin object, per package path) instead of per
// type gives different answers for such files depending on which was analysed first; the judges are
// the lone run of the file on a fresh engine (C08, C09).

import (
	"fmt"
	"go/ast"
	"go/importer"
	"go/parser"
	"go/token"
	"go/types"
	"math/rand"
	"os"
	"path/filepath"
	"regexp"
	"sort"
	"strings"

	"verifharness/hx"
)

type tidFile struct {
	Name string `json:"name"`
	Src  string `json:"src"`
}

type tidPkg struct {
	Path  string    `json:"path"` // the package path it is type-checked under
	Name  string    `json:"name"`
	Files []tidFile `json:"files"`
}

// ---- target packages ---------------------------------------------------------------------------

var tidArgs = []string{"int", "int8", "uint8", "string", "*string", "float64", "[4]byte", "[]int", "struct{}", "error", "bool", "*int",
	"map[string]int", "func()", "complex128", "uintptr", "[2]*int", "struct{ a int; p *int }", "interface{}", "chan int", "[3]int16", "int64", "[]byte", "string"}
var tidCmpArgs = []string{"int", "string", "uint8", "*int", "[2]int", "bool", "float64", "struct{ a int }", "int64"}
var tidNumArgs = []string{"int", "int8", "float64"}

type tidGeneric struct {
	name     string
	variants []string
}

// one declaration per generic type and package, drawn per package: packages type-checked under one
// path then disagree about the shape of `Box` itself
var tidGenerics = []tidGeneric{
	{"Box", []string{
		"type Box[T any] struct{ v T }\n\nfunc (b Box[T]) Get() T { return b.v }\n",
		"type Box[T any] struct {\n\tn int\n\tv T\n}\n\nfunc (b Box[T]) Get() T { return b.v }\n",
		"type Box[T any] struct{ p *T }\n\nfunc (b Box[T]) Get() T { return *b.p }\n",
		"type Box[T any] [1]T\n\nfunc (b Box[T]) Get() T { return b[0] }\n",
	}},
	{"Pair", []string{
		"type Pair[K comparable, V any] struct {\n\tk K\n\tv V\n}\n",
		"type Pair[K comparable, V any] map[K]V\n",
		"type Pair[K comparable, V any] struct {\n\tk K\n\tv V\n}\n\nfunc (p Pair[K, V]) MarshalText() (V, error) { return p.v, nil }\n\nfunc (p Pair[K, V]) Error() K { return p.k }\n",
		"type Pair[K comparable, V any] struct {\n\tv V\n\tk [2]K\n}\n\nfunc (p Pair[K, V]) Get() V { return p.v }\n",
	}},
	{"Arr", []string{"type Arr[T any] [2]T\n", "type Arr[T any] [0]T\n", "type Arr[T any] []T\n"}},
	{"Opt", []string{
		"type Opt[T any] struct {\n\tok bool\n\tv  T\n}\n\nfunc (o Opt[T]) String() string { return \"\" }\n",
		"type Opt[T any] struct{ v *T }\n\nfunc (o *Opt[T]) String() string { return \"\" }\n",
		"type Opt[T any] struct{ v T }\n\nfunc (o Opt[T]) Error() string { return \"\" }\n",
		"type Opt[T any] struct{ v T }\n\nfunc (o Opt[T]) MarshalText() ([]byte, error) { return nil, nil }\n",
		// method sets that depend on the type argument: Opt[string] is an error, Opt[int] is not
		"type Opt[T any] struct{ v T }\n\nfunc (o Opt[T]) Error() T { return o.v }\n",
		"type Opt[T any] struct {\n\tn int\n\tv T\n}\n\nfunc (o Opt[T]) Error() T { return o.v }\n\nfunc (o Opt[T]) MarshalBinary() (T, error) { return o.v, nil }\n",
	}},
	{"Wrap", []string{"type Wrap[T any] struct{ Box[T] }\n", "type Wrap[T any] struct {\n\tBox[T]\n\terr error\n}\n", "type Wrap[T any] struct{ b *Box[T] }\n"}},
	// method sets that always depend on the type argument: Res[string] is an error, Res[[]byte] a TextMarshaler, Res[int] neither
	{"Res", []string{
		"type Res[T any] struct{ v T }\n\nfunc (r Res[T]) Error() T { return r.v }\n\nfunc (r Res[T]) MarshalText() (T, error) { return r.v, nil }\n",
		"type Res[T any] struct {\n\tv   T\n\terr error\n}\n\nfunc (r Res[T]) Error() T { return r.v }\n\nfunc (r *Res[T]) MarshalBinary() (T, error) { return r.v, nil }\n",
	}},
	{"Fn", []string{"type Fn[T any] func(T) T\n", "type Fn[T any] func() T\n"}},
	{"Num", []string{"type Num[T ~int | ~int8 | ~float64] struct{ n T }\n", "type Num[T ~int | ~int8 | ~float64] [3]T\n"}},
}

type tidShape struct {
	src     string
	methods bool // methods may be declared on a package-level type of this shape
}

var tidShapes = []tidShape{
	{"struct{ a int }", true}, {"struct{ a int; b string }", true}, {"struct{ p *int }", true}, {"struct{ a, b int64; c [3]uint8 }", true},
	{"struct{ f func() }", true}, {"struct{ s []byte }", true}, {"struct{}", true}, {"int", true}, {"uint8", true}, {"float64", true},
	{"string", true}, {"[]int", true}, {"[4]int32", true}, {"map[string]int", true}, {"*int", false}, {"func(int) int", true},
	{"chan int", true}, {"interface{ M() }", false}, {"struct{ Base }", true}, {"struct{ *Base }", true}, {"struct{ e error }", true},
	{"Box[int]", true}, {"Box[*string]", true}, {"struct{ b Box[uint8] }", true}, {"bool", true}, {"complex64", true}, {"[0]int", true},
	{"struct{ x, y float32 }", true}, {"interface{ String() string }", false}, {"error", false}, {"uint16", true}, {"[2]string", true},
	{"struct{ Opt[string] }", true}, {"struct{ Opt[int] }", true}, {"Opt[string]", true}, {"struct{ Pair[string, []byte] }", true}, {"struct{ *Opt[[]byte] }", true},
}

var tidLocalNames = []string{"record", "item", "state"}
var tidGlobalNames = []string{"Rec", "Node", "Buf"}

type tidGen struct {
	r      *rand.Rand
	nSinks int
}

func (g *tidGen) pick(xs []string) string { return xs[g.r.Intn(len(xs))] }

// inst: an instantiation of one of the generic types
// instOf: an instantiation of the generic type `name`
func (g *tidGen) instOf(name string) string {
	switch name {
	case "Pair":
		return "Pair[" + g.pick(tidCmpArgs) + ", " + g.arg() + "]"
	case "Res":
		return "Res[" + g.pick([]string{"string", "[]byte", "int", "*string", "error", "string", "[]byte"}) + "]"
	case "Num":
		return "Num[" + g.pick(tidNumArgs) + "]"
	}
	return name + "[" + g.arg() + "]"
}

func (g *tidGen) inst() string {
	switch x := g.r.Intn(20); {
	case x < 6:
		return "Box[" + g.arg() + "]"
	case x < 8:
		return "Pair[" + g.pick(tidCmpArgs) + ", " + g.arg() + "]"
	case x < 10:
		return "Arr[" + g.arg() + "]"
	case x < 13:
		return "Opt[" + g.arg() + "]"
	case x < 16:
		return "Res[" + g.pick([]string{"string", "[]byte", "int", "*string", "error", "string", "[]byte"}) + "]"
	case x < 18:
		return "Wrap[" + g.arg() + "]"
	case x < 19:
		return "Fn[" + g.arg() + "]"
	default:
		return "Num[" + g.pick(tidNumArgs) + "]"
	}
}

func (g *tidGen) arg() string {
	if g.r.Intn(8) == 0 {
		return "Box[" + g.pick(tidArgs) + "]"
	}
	return g.pick(tidArgs)
}

func (g *tidGen) wrap(t string) string {
	switch g.r.Intn(28) {
	case 0:
		return "*" + t
	case 1:
		return "[]" + t
	case 2:
		return "[2]" + t
	case 3:
		return "map[string]" + t
	case 4:
		return "struct{ x " + t + " }"
	case 5:
		return "func() " + t
	case 6:
		return "chan " + t
	}
	return t
}

// fn writes one function: local types (defined and alias) under the colliding names, variables of
// instantiated / local / package-level types, and every value passed to every sink.
func (g *tidGen) fn(sb *strings.Builder, name string, fileAliases []string) {
	fmt.Fprintf(sb, "func %s(arg int, rest ...string) {\n", name)
	g.body(sb, 1, fileAliases, true)
	sb.WriteString("}\n\n")
}

func (g *tidGen) body(sb *strings.Builder, depth int, fileAliases []string, mayNest bool) {
	ind := strings.Repeat("\t", depth)
	var locals []string
	names := append([]string(nil), tidLocalNames...)
	g.r.Shuffle(len(names), func(i, j int) { names[i], names[j] = names[j], names[i] })
	for _, n := range names[:1+g.r.Intn(len(names))] {
		if g.r.Intn(4) == 0 {
			// local alias
			var rhs string
			switch g.r.Intn(3) {
			case 0:
				rhs = g.inst()
			case 1:
				rhs = g.pick(tidGlobalNames)
			default:
				rhs = tidShapes[g.r.Intn(len(tidShapes))].src
			}
			fmt.Fprintf(sb, "%stype %s = %s\n", ind, n, rhs)
		} else {
			fmt.Fprintf(sb, "%stype %s %s\n", ind, n, tidShapes[g.r.Intn(len(tidShapes))].src)
		}
		locals = append(locals, n)
	}
	cands := func() string {
		switch x := g.r.Intn(20); {
		case x < 8:
			return g.inst()
		case x < 13:
			return g.pick(locals)
		case x < 16:
			return g.pick(tidGlobalNames)
		case x < 18 && len(fileAliases) > 0:
			return g.pick(fileAliases)
		default:
			return g.pick([]string{"int", "string", "*int", "error", "[]byte", "float64", "uint8"})
		}
	}
	// the types of the variables: an instantiation of most generic types (so that any two functions disagree
	// about the type arguments of some of them), the local types, then a few others
	var vtypes []string
	for _, gen := range tidGenerics {
		if g.r.Intn(4) != 0 {
			vtypes = append(vtypes, g.instOf(gen.name))
		}
	}
	vtypes = append(vtypes, locals...)
	for k := 2 + g.r.Intn(3); k > 0; k-- {
		vtypes = append(vtypes, cands())
	}
	g.r.Shuffle(len(vtypes), func(i, j int) { vtypes[i], vtypes[j] = vtypes[j], vtypes[i] })
	nv := len(vtypes)
	var vars, exprs []string
	for i := 0; i < nv; i++ {
		t := g.wrap(vtypes[i])
		if i > 0 && g.r.Intn(10) == 0 {
			t = "" // same type as the previous variable (IdenticalTo needs identical pairs)
		}
		v := fmt.Sprintf("v%d", i)
		if t == "" {
			fmt.Fprintf(sb, "%svar %s = %s\n", ind, v, vars[i-1])
		} else {
			fmt.Fprintf(sb, "%svar %s %s\n", ind, v, t)
		}
		vars = append(vars, v)
		switch g.r.Intn(10) {
		case 0:
			exprs = append(exprs, "id("+v+")")
		case 1:
			exprs = append(exprs, "("+v+")")
		case 2:
			exprs = append(exprs, "*(&"+v+")")
		default:
			exprs = append(exprs, v)
		}
	}
	for i := range vars {
		for k := 0; k < g.nSinks; k++ {
			fmt.Fprintf(sb, "%ss%d(%s)\n", ind, k, exprs[i])
		}
	}
	for k := 0; k < 4; k++ {
		fmt.Fprintf(sb, "%spair(%s, %s)\n", ind, exprs[g.r.Intn(nv)], exprs[g.r.Intn(nv)])
	}
	for k := 0; k < 3; k++ {
		n := g.r.Intn(4)
		var as []string
		for j := 0; j < n; j++ {
			as = append(as, exprs[g.r.Intn(nv)])
		}
		fmt.Fprintf(sb, "%smany(%s)\n", ind, strings.Join(as, ", "))
	}
	if mayNest && g.r.Intn(3) == 0 {
		// the same local names declared once more in a nested block of the same function
		fmt.Fprintf(sb, "%sif arg > 0 {\n", ind)
		g.body(sb, depth+1, fileAliases, false)
		fmt.Fprintf(sb, "%s}\n", ind)
	}
}

// tidGenPackage generates one package: types.go (generic declarations, the package-level types with
// colliding names, sinks) and nFiles files of functions.
func tidGenPackage(r *rand.Rand, path, name string, nFiles, nSinks int) tidPkg {
	g := &tidGen{r: r, nSinks: nSinks}
	p := tidPkg{Path: path, Name: name}
	var sb strings.Builder
	fmt.Fprintf(&sb, "package %s\n\n", name)
	for _, gen := range tidGenerics {
		sb.WriteString(gen.variants[r.Intn(len(gen.variants))])
		sb.WriteString("\n")
	}
	sb.WriteString("type Base struct{ id int }\n\nfunc (Base) String() string { return \"\" }\n\nfunc (*Base) Write(p []byte) (int, error) { return 0, nil }\n\nfunc (Base) MarshalText() ([]byte, error) { return nil, nil }\n\n")
	sb.WriteString("type Getter interface{ Get() int }\n\n")
	for _, n := range tidGlobalNames {
		sh := tidShapes[r.Intn(len(tidShapes))]
		fmt.Fprintf(&sb, "type %s %s\n\n", n, sh.src)
		if sh.methods {
			if r.Intn(3) == 0 {
				fmt.Fprintf(&sb, "func (%s) String() string { return \"\" }\n\n", n)
			}
			if r.Intn(4) == 0 {
				fmt.Fprintf(&sb, "func (*%s) Error() string { return \"\" }\n\n", n)
			}
			if r.Intn(4) == 0 {
				fmt.Fprintf(&sb, "func (%s) Get() int { return 0 }\n\n", n)
			}
			if r.Intn(3) == 0 {
				fmt.Fprintf(&sb, "func (%s%s) MarshalText() ([]byte, error) { return nil, nil }\n\n", []string{"", "*"}[r.Intn(2)], n)
			}
		}
	}
	sb.WriteString("func id[T any](x T) T { return x }\n\n")
	for k := 0; k < nSinks; k++ {
		fmt.Fprintf(&sb, "func s%d(...interface{}) {}\n", k)
	}
	sb.WriteString("func pair(a, b interface{}) {}\nfunc many(xs ...interface{}) {}\n")
	p.Files = append(p.Files, tidFile{"types.go", sb.String()})
	for fi := 0; fi < nFiles; fi++ {
		sb.Reset()
		fmt.Fprintf(&sb, "package %s\n\n", name)
		var aliases []string
		for a := 0; a < r.Intn(3); a++ {
			an := fmt.Sprintf("A%d%c", fi, 'x'+a)
			var rhs string
			if r.Intn(2) == 0 {
				rhs = g.inst()
			} else {
				rhs = g.wrap(g.pick(tidGlobalNames))
			}
			fmt.Fprintf(&sb, "type %s = %s\n\n", an, rhs)
			aliases = append(aliases, an)
		}
		if r.Intn(3) == 0 {
			fmt.Fprintf(&sb, "var G%d %s\n\n", fi, g.inst())
			fmt.Fprintf(&sb, "func u%dglobals() {\n", fi)
			for k := 0; k < nSinks; k++ {
				fmt.Fprintf(&sb, "\ts%d(G%d)\n", k, fi)
			}
			sb.WriteString("}\n\n")
		}
		nf := 1 + r.Intn(2)
		for k := 0; k < nf; k++ {
			g.fn(&sb, fmt.Sprintf("u%df%d", fi, k), aliases)
		}
		if r.Intn(3) == 0 {
			// values whose types mention type parameters
			fmt.Fprintf(&sb, "func u%dg[T any, N ~int | ~float64](x T, n N, b Box[T], ps []*T, o Opt[N]) {\n", fi)
			// (the composite types that mention a type parameter come last: Type.Size / ctx.SizeOf on them hits a
			// go/types assertion today, which aborts the run)
			for _, v := range []string{"x", "n", "ps", "b", "o"} {
				for k := 0; k < nSinks; k++ {
					fmt.Fprintf(&sb, "\ts%d(%s)\n", k, v)
				}
			}
			sb.WriteString("\tpair(x, b)\n\tpair(b, b)\n\tmany(x, n, ps)\n}\n\n")
		}
		p.Files = append(p.Files, tidFile{fmt.Sprintf("u%d.go", fi), sb.String()})
	}
	return p
}

// tidCheckPackage parses and type-checks the files of dir as package pkgPath; every file becomes a
// target (all share the file set, the types.Info and the *types.Package, as the passes of one
// package do in a real analysis).
func tidCheckPackage(dir, pkgPath string, names []string, fset *token.FileSet, imp types.Importer) ([]*hx.Target, error) {
	var files []*ast.File
	var srcs [][]byte
	for _, n := range names {
		fn := filepath.Join(dir, n)
		src, err := os.ReadFile(fn)
		if err != nil {
			return nil, err
		}
		f, err := parser.ParseFile(fset, fn, src, parser.ParseComments)
		if err != nil {
			return nil, err
		}
		files = append(files, f)
		srcs = append(srcs, src)
	}
	info := &types.Info{
		Types:      map[ast.Expr]types.TypeAndValue{},
		Uses:       map[*ast.Ident]types.Object{},
		Defs:       map[*ast.Ident]types.Object{},
		Selections: map[*ast.SelectorExpr]*types.Selection{},
		Implicits:  map[ast.Node]types.Object{},
		Scopes:     map[ast.Node]*types.Scope{},
		Instances:  map[*ast.Ident]types.Instance{},
	}
	cfg := types.Config{Importer: imp}
	pkg, err := cfg.Check(pkgPath, fset, files, info)
	if err != nil {
		return nil, err
	}
	var ts []*hx.Target
	for i, f := range files {
		ts = append(ts, &hx.Target{Fset: fset, File: f, Info: info, Pkg: pkg, Src: srcs[i], Name: filepath.Join(dir, names[i])})
	}
	return ts, nil
}

// tidWritePackage writes the files of p into dir and type-checks them.
func tidWritePackage(dir string, p tidPkg) ([]*hx.Target, error) {
	if err := os.MkdirAll(dir, 0o755); err != nil {
		return nil, err
	}
	var names []string
	for _, f := range p.Files {
		if err := os.WriteFile(filepath.Join(dir, f.Name), []byte(f.Src), 0o644); err != nil {
			return nil, err
		}
		names = append(names, f.Name)
	}
	fset := token.NewFileSet()
	ts, err := tidCheckPackage(dir, p.Path, names, fset, importer.ForCompiler(fset, "source", nil))
	if err != nil {
		return nil, fmt.Errorf("generated package %s does not type-check: %v", p.Path, err)
	}
	return ts, nil
}

// ---- rule sets ---------------------------------------------------------------------------------

// tidExt: names resolvable by the engine's importer beyond the standard library (C08's GOPATH world)
type tidExt struct {
	Pkgs   []string // importable packages generated by tidGenPackage (types Rec/Node/Buf/Base, interface Getter)
	Ifaces []string // FQNs of other importable interfaces
	Types  []string // FQNs of other importable named types
}

type tidRuleInfo struct {
	ID    int      `json:"id"`
	Text  string   `json:"text"`
	Kinds []string `json:"kinds"`
	// the pattern and, per kind, the bare atom of the Where clause: a composite clause can be narrowed to one atom
	Pat   string   `json:"pat"`
	Atoms []string `json:"atoms"`
}

type tidRuleSet struct {
	Src   string
	Rules []tidRuleInfo
}

const tidFilterDecls = `func fBig(ctx *dsl.VarFilterContext) bool {
	return ctx.SizeOf(ctx.Type) > 16
}

func fZero(ctx *dsl.VarFilterContext) bool {
	return ctx.SizeOf(ctx.Type) == 0
}

func fPtr(ctx *dsl.VarFilterContext) bool {
	return types.AsPointer(ctx.Type) != nil
}

func fStruct2(ctx *dsl.VarFilterContext) bool {
	s := types.AsStruct(ctx.Type.Underlying())
	if s == nil {
		return false
	}
	return s.NumFields() == 2
}

func fPtrField(ctx *dsl.VarFilterContext) bool {
	s := types.AsStruct(ctx.Type.Underlying())
	if s == nil {
		return false
	}
	i := 0
	for i < s.NumFields() {
		if types.AsPointer(s.Field(i).Type()) != nil {
			return true
		}
		i++
	}
	return false
}

func fMarshaler(ctx *dsl.VarFilterContext) bool {
	return types.Implements(ctx.Type, ctx.GetInterface(` + "`encoding.TextMarshaler`" + `))
}

func fNameBox(ctx *dsl.VarFilterContext) bool {
	s := ctx.Type.String()
	return len(s) >= 3 && s[len(s)-1:] == "]"
}

func fIsError(ctx *dsl.VarFilterContext) bool {
	return types.Identical(ctx.Type, ctx.GetType(` + "`error`" + `))
}

func fIface(ctx *dsl.VarFilterContext) bool {
	return types.AsInterface(ctx.Type.Underlying()) != nil
}

func fElemSmall(ctx *dsl.VarFilterContext) bool {
	a := types.AsArray(ctx.Type.Underlying())
	if a == nil {
		return false
	}
	return ctx.SizeOf(a.Elem()) < ctx.SizeOf(ctx.GetType(` + "`uintptr`" + `))
}

`

const tidFilterDeclsHeavy = `func fStringer(ctx *dsl.VarFilterContext) bool {
	return types.Implements(ctx.Type, ctx.GetInterface(` + "`fmt.Stringer`" + `))
}

`

var tidFilterNames = []string{"fBig", "fZero", "fPtr", "fStruct2", "fPtrField", "fMarshaler", "fNameBox", "fIsError", "fIface", "fElemSmall"}

var tidKinds = []string{"integer", "unsigned", "float", "complex", "numeric", "signed", "int", "uint"}
var tidDstTypes = []string{"int", "string", "[]byte", "float64", "*int", "interface{}", "error", "uint8", "[4]byte", "*string", "int64", "[]int", "map[string]int", "[2]string"} // no struct/func/chan/named: typeFromString refuses them
var tidIsPats = []string{"int", "string", "*$_", "[]$_", "[$_]$_", "map[$_]$_", "struct{$*_}", "func($*_) $*_", "chan $_", "error", "*int", "[]int",
	"map[$t]$t", "[2]$_", "interface{}", "uint8", "func() $_", "struct{}", "encoding.TextMarshaler"}

// only pkg.Iface.Method references load.  "Heavy" names make the engine type-check fmt / io from source
// (0.3-0.6 s per fresh engine); they are used in a fraction of the rule sets only.
var tidMethods = []string{"encoding.TextMarshaler.MarshalText", "encoding.BinaryMarshaler.MarshalBinary"}
var tidMethodsHeavy = []string{"io.Writer.Write", "fmt.Stringer.String", "io.Reader.Read", "io.StringWriter.WriteString"}
var tidIfaces = []string{"error", "encoding.TextMarshaler", "encoding.BinaryMarshaler"}
var tidIfacesHeavy = []string{"fmt.Stringer", "io.Writer"}

// the kinds of atoms; list = usable on a list capture ($*xs)
type tidAtomKind struct {
	kind string
	list bool
}

var tidAtomKinds = []tidAtomKind{
	{"HasPointers", true}, {"OfKind", true}, {"Underlying.OfKind", true}, {"Size", false}, {"Implements", true}, {"ConvertibleTo", true},
	{"AssignableTo", true}, {"Comparable", true}, {"Addressable", false}, {"Pure", false}, {"Const", false}, {"Is", true},
	{"Underlying.Is", true}, {"HasMethod", false}, {"Object.Is", false}, {"Object.IsGlobal", false}, {"Node.Is", false}, {"Filter", false},
	{"Text.Matches", false}, {"Is:qualified", true}, {"Implements:qualified", true},
	{"HasMethod:qualified", false},
}

type tidRuleGen struct {
	r       *rand.Rand
	ext     *tidExt
	heavy   bool
	deck    []int // stratification: atom kinds are dealt from a shuffled deck, every kind comes up regularly
	imports map[string]bool
}

func (g *tidRuleGen) deal(list bool) tidAtomKind {
	for tries := 0; tries < 100; tries++ {
		if len(g.deck) == 0 {
			g.deck = g.r.Perm(len(tidAtomKinds))
		}
		k := tidAtomKinds[g.deck[0]]
		g.deck = g.deck[1:]
		if list && !k.list {
			continue
		}
		if strings.HasSuffix(k.kind, ":qualified") && (g.ext == nil || len(g.ext.Pkgs) == 0) {
			continue
		}
		return k
	}
	return tidAtomKinds[0]
}

func (g *tidRuleGen) pick(xs []string) string { return xs[g.r.Intn(len(xs))] }

func (g *tidRuleGen) qualified() string {
	p := g.pick(g.ext.Pkgs)
	g.imports[p] = true
	base := p[strings.LastIndexByte(p, '/')+1:]
	t := base + "." + g.pick([]string{"Rec", "Node", "Buf", "Base"})
	switch g.r.Intn(5) {
	case 0:
		return "*" + t
	case 1:
		return "[]" + t
	}
	return t
}

func (g *tidRuleGen) atom(v string, list bool) (string, string) {
	k := g.deal(list)
	mv := fmt.Sprintf("m[%q]", v)
	switch k.kind {
	case "HasPointers":
		return mv + ".Type.HasPointers()", k.kind
	case "OfKind":
		return fmt.Sprintf("%s.Type.OfKind(%q)", mv, g.pick(tidKinds)), k.kind
	case "Underlying.OfKind":
		return fmt.Sprintf("%s.Type.Underlying().OfKind(%q)", mv, g.pick(tidKinds)), k.kind
	case "Size":
		return fmt.Sprintf("%s.Type.Size %s %d", mv, g.pick([]string{"==", "!=", "<", ">", "<=", ">="}), []int{0, 1, 4, 8, 16, 24, 32}[g.r.Intn(7)]), k.kind
	case "Implements":
		ifs := tidIfaces
		if g.heavy && g.r.Intn(2) == 0 {
			ifs = tidIfacesHeavy
		}
		if g.ext != nil && len(g.ext.Ifaces) > 0 && g.r.Intn(2) == 0 {
			ifs = g.ext.Ifaces
		}
		return fmt.Sprintf("%s.Type.Implements(`%s`)", mv, g.pick(ifs)), k.kind
	case "Implements:qualified":
		return fmt.Sprintf("%s.Type.Implements(`%s.Getter`)", mv, g.pick(g.ext.Pkgs)), k.kind
	case "ConvertibleTo":
		return fmt.Sprintf("%s.Type.ConvertibleTo(`%s`)", mv, g.pick(tidDstTypes)), k.kind
	case "AssignableTo":
		return fmt.Sprintf("%s.Type.AssignableTo(`%s`)", mv, g.pick(tidDstTypes)), k.kind
	case "Comparable":
		return mv + ".Comparable", k.kind
	case "Addressable":
		return mv + ".Addressable", k.kind
	case "Pure":
		return mv + ".Pure", k.kind
	case "Const":
		return mv + ".Const", k.kind
	case "Is":
		return fmt.Sprintf("%s.Type.Is(`%s`)", mv, g.pick(tidIsPats)), k.kind
	case "Is:qualified":
		return fmt.Sprintf("%s.Type.Is(`%s`)", mv, g.qualified()), k.kind
	case "Underlying.Is":
		return fmt.Sprintf("%s.Type.Underlying().Is(`%s`)", mv, g.pick(tidIsPats)), k.kind
	case "HasMethod":
		ms := tidMethods
		if g.heavy && g.r.Intn(2) == 0 {
			ms = tidMethodsHeavy
		}
		return fmt.Sprintf("%s.Type.HasMethod(`%s`)", mv, g.pick(ms)), k.kind
	case "HasMethod:qualified":
		p := g.pick(g.ext.Pkgs)
		g.imports[p] = true
		return fmt.Sprintf("%s.Type.HasMethod(`%s.Getter.Get`)", mv, p[strings.LastIndexByte(p, '/')+1:]), k.kind
	case "Object.Is":
		return fmt.Sprintf("%s.Object.Is(`%s`)", mv, g.pick([]string{"Var", "Func", "Const", "TypeName"})), k.kind
	case "Object.IsGlobal":
		return mv + ".Object.IsGlobal()", k.kind
	case "Node.Is":
		return fmt.Sprintf("%s.Node.Is(`%s`)", mv, g.pick([]string{"Ident", "CallExpr", "ParenExpr", "StarExpr"})), k.kind
	case "Filter":
		f := g.pick(tidFilterNames)
		if g.heavy && g.r.Intn(4) == 0 {
			f = "fStringer"
		}
		return fmt.Sprintf("%s.Filter(%s)", mv, f), "Filter:" + f
	default:
		return fmt.Sprintf("%s.Text.Matches(`v[0-9]*[02468]`)", mv), "Text.Matches"
	}
}

// cond: one atom, a negated atom, or a combination of two
func (g *tidRuleGen) cond(v string, list bool) (string, []string, []string) {
	a, ka := g.atom(v, list)
	switch x := g.r.Intn(10); {
	case x < 5:
		return a, []string{ka}, []string{a}
	case x < 8:
		return "!(" + a + ")", []string{ka}, []string{a}
	default:
		b, kb := g.atom(v, list)
		op := g.pick([]string{" && ", " || ", " && !"})
		return "(" + a + ")" + op + "(" + b + ")", []string{ka, kb}, []string{a, b}
	}
}

// tidGenRules generates one rules file: nRules rules over the sinks s0..s<nSinks-1> (some sinks shared
// by two rules: then the first accepting rule wins), pair($x, $y) and many($*xs).  Every report starts
// with "r<id> " so that a differing report names its rule.
func tidGenRules(r *rand.Rand, deck *[]int, nRules, nSinks int, ext *tidExt, heavy bool) *tidRuleSet {
	g := &tidRuleGen{r: r, ext: ext, heavy: heavy, deck: *deck, imports: map[string]bool{}}
	rs := &tidRuleSet{}
	var lines []string
	for i := 0; i < nRules; i++ {
		var line, pat string
		var kinds, atoms []string
		switch x := r.Intn(12); {
		case x < 8:
			c, ks, as := g.cond("x", false)
			pat = fmt.Sprintf("s%d($x)", r.Intn(nSinks))
			line = fmt.Sprintf("m.Match(`%s`).Where(%s).Report(`r%d $x`)", pat, c, i)
			kinds, atoms = ks, as
		case x < 10:
			pat = "pair($x, $y)"
			switch r.Intn(4) {
			case 0:
				line = fmt.Sprintf("m.Match(`pair($x, $y)`).Where(m[\"x\"].Type.IdenticalTo(m[\"y\"])).Report(`r%d $$`)", i)
				kinds, atoms = []string{"IdenticalTo"}, []string{"m[\"x\"].Type.IdenticalTo(m[\"y\"])"}
			case 1:
				a := fmt.Sprintf("m[\"x\"].Type.Size %s m[\"y\"].Type.Size", g.pick([]string{"==", "<", ">="}))
				line = fmt.Sprintf("m.Match(`pair($x, $y)`).Where(%s).Report(`r%d $$`)", a, i)
				kinds, atoms = []string{"Size:var"}, []string{a}
			case 2:
				pats := [][2]string{{"[]$t", "$t"}, {"map[$k]$v", "$v"}, {"*$t", "$t"}, {"$t", "$t"}, {"[$_]$t", "[]$t"}, {"func() $t", "$t"}}
				p := pats[r.Intn(len(pats))]
				a := fmt.Sprintf("m[\"x\"].Type.Is(`%s`) && m[\"y\"].Type.Is(`%s`)", p[0], p[1])
				line = fmt.Sprintf("m.Match(`pair($x, $y)`).Where(%s).Report(`r%d $$`)", a, i)
				kinds, atoms = []string{"Is:binding"}, []string{a}
			default:
				cx, kx, ax := g.cond("x", false)
				cy, ky, ay := g.cond("y", false)
				line = fmt.Sprintf("m.Match(`pair($x, $y)`).Where((%s) && (%s)).Report(`r%d $$`)", cx, cy, i)
				kinds, atoms = append(kx, ky...), append(ax, ay...)
			}
		default:
			c, ks, as := g.cond("xs", true)
			pat = "many($*xs)"
			line = fmt.Sprintf("m.Match(`many($*xs)`).Where(%s).Report(`r%d $$`)", c, i)
			for _, k := range ks {
				kinds = append(kinds, k+":list")
			}
			atoms = as
		}
		lines = append(lines, line)
		rs.Rules = append(rs.Rules, tidRuleInfo{ID: i, Text: line, Kinds: kinds, Pat: pat, Atoms: atoms})
	}
	*deck = g.deck
	var b strings.Builder
	b.WriteString("package gorules\n\nimport (\n\t\"github.com/quasilyte/go-ruleguard/dsl\"\n\t\"github.com/quasilyte/go-ruleguard/dsl/types\"\n)\n\n")
	b.WriteString(tidFilterDecls)
	if heavy {
		b.WriteString(tidFilterDeclsHeavy)
	}
	var imps []string
	for p := range g.imports {
		imps = append(imps, p)
	}
	sort.Strings(imps)
	ng := 1 + r.Intn(3)
	for gi := 0; gi < ng; gi++ {
		fmt.Fprintf(&b, "func g%d(m dsl.Matcher) {\n", gi)
		for _, p := range imps {
			fmt.Fprintf(&b, "\tm.Import(`%s`)\n", p)
		}
		for i, l := range lines {
			if i*ng/len(lines) == gi {
				fmt.Fprintf(&b, "\t%s\n", l)
			}
		}
		b.WriteString("}\n\n")
	}
	rs.Src = b.String()
	return rs
}

// tidSingleRule: a rules file with one rule (or one Where clause on the pattern of a rule) — used to
// narrow a failing rule set down.
func tidSingleRule(rs *tidRuleSet, id int) string { return tidOneRule(rs, rs.Rules[id].Text) }

// tidAtomRules: for a rule with a composite Where clause, one rules file per atom (the atom and its negation on
// the rule's pattern), with the atom's kind.
func tidAtomRules(rs *tidRuleSet, id int) (srcs, kinds []string) {
	ri := rs.Rules[id]
	if len(ri.Atoms) < 2 {
		return nil, nil
	}
	for k, a := range ri.Atoms {
		text := fmt.Sprintf("m.Match(`%s`).Where(%s).Report(`r%d $$`)\n\tm.Match(`%s`).Where(!(%s)).Report(`r%d not $$`)", ri.Pat, a, id, ri.Pat, a, id)
		srcs = append(srcs, tidOneRule(rs, text))
		kinds = append(kinds, ri.Kinds[k])
	}
	return
}

func tidOneRule(rs *tidRuleSet, text string) string {
	var b strings.Builder
	b.WriteString(rs.Src[:strings.Index(rs.Src, "func g0(m dsl.Matcher)")])
	b.WriteString("func g0(m dsl.Matcher) {\n")
	for _, l := range strings.Split(rs.Src, "\n") {
		if strings.HasPrefix(l, "\tm.Import(") {
			b.WriteString(l + "\n")
		}
	}
	fmt.Fprintf(&b, "\t%s\n}\n", text)
	return b.String()
}

var tidRuleIDRe = regexp.MustCompile(`"r(\d+) `)

// tidDiffRules: the ids of the rules whose reports differ between two outcomes (multiset difference of
// the lines; an outcome is a list of canonical report strings).
func tidDiffRules(a, b []string) []int {
	cnt := map[string]int{}
	for _, s := range a {
		cnt[s]++
	}
	for _, s := range b {
		cnt[s]--
	}
	seen := map[int]bool{}
	var keys []string
	for s, n := range cnt {
		if n != 0 {
			keys = append(keys, s)
		}
	}
	sort.Strings(keys)
	var ids []int
	for _, s := range keys {
		if m := tidRuleIDRe.FindStringSubmatch(s); m != nil {
			var id int
			fmt.Sscan(m[1], &id)
			if !seen[id] {
				seen[id] = true
				ids = append(ids, id)
			}
		}
	}
	sort.Ints(ids)
	return ids
}

// tidNarrowRule narrows a failing rule set down: the first of the rules `ids` that reproduces the difference
// alone, and, when its Where clause is composite, the first of its atoms that does.  differs(src) loads src
// into fresh engines and tells whether the reference run and the run under test differ (false when src does
// not load).
func tidNarrowRule(rs *tidRuleSet, ids []int, differs func(src string) (bool, []string, []string)) (kinds, text string, want, got []string, ok bool) {
	for _, id := range ids {
		d, w, g := differs(tidSingleRule(rs, id))
		if !d {
			continue
		}
		kinds, text, want, got = strings.Join(rs.Rules[id].Kinds, "+"), rs.Rules[id].Text, w, g
		srcs, ks := tidAtomRules(rs, id)
		for k, src := range srcs {
			if d, w, g := differs(src); d {
				return ks[k], fmt.Sprintf("m.Match(`%s`).Where(%s) / .Where(!(%s))", rs.Rules[id].Pat, rs.Rules[id].Atoms[k], rs.Rules[id].Atoms[k]), w, g, true
			}
		}
		return kinds, text, want, got, true
	}
	return "", "", nil, nil, false
}

// tidLineDiff: the lines only in a / only in b (multiset difference), for readable witnesses.
func tidLineDiff(a, b []string) (onlyA, onlyB []string) {
	onlyA, onlyB = []string{}, []string{}
	cnt := map[string]int{}
	for _, s := range b {
		cnt[s]++
	}
	for _, s := range a {
		if cnt[s] > 0 {
			cnt[s]--
		} else {
			onlyA = append(onlyA, s)
		}
	}
	cnt = map[string]int{}
	for _, s := range a {
		cnt[s]++
	}
	for _, s := range b {
		if cnt[s] > 0 {
			cnt[s]--
		} else {
			onlyB = append(onlyB, s)
		}
	}
	return
}
