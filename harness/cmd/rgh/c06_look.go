package main

// C06, look-alike stream: rules files that are valid Go (they parse and type-check) but are not valid DSL.
//
// irconv recognises the DSL by *names* only: a call statement in a matcher function is a rule chain whatever its
// receiver is, and a selector path `….Text.Matches(…)` is a predicate whatever type it is selected from.  The dsl
// package fixes the arity of the real methods, so only a user-declared look-alike can reach the converter with 0 or
// 2 arguments where it reads `Args[0]`.  The look-alike declarations are structs of func-typed, variadic fields
// (no method bodies: nothing for quasigo to compile or to reject before the loader sees the IR), plus a small family
// of concrete types with fixed-arity methods.
//
//	(L1) whole files (function-declaration shapes x statement shapes) through Engine.Load under recover;
//	(L2) single Where expressions: real ConvertFile vs the Lean model Conv.convert; what irconv accepts must be inside
//	     the well-formedness domain of the loader theorems (spec06.wf) and LoadFromIR must not panic on it
//	     (the executable form of C06.source_filter_load_total).

import (
	"fmt"
	"go/ast"
	"math/rand"
	"os"
	"strings"
	"time"

	"github.com/quasilyte/go-ruleguard/ruleguard"
	"github.com/quasilyte/go-ruleguard/ruleguard/ir"
	"verifharness/hx"
)

// declarations shared by every generated file: constants, a filter function, the look-alike types
const c06LookPrelude = `package gorules

import "github.com/quasilyte/go-ruleguard/dsl"

const strC = "int"
const intC = 3

var nonC = "fmt"

func isOK(ctx *dsl.VarFilterContext) bool { return true }

type LP struct {
	Matches, Is, OfKind, Implements, HasMethod, ConvertibleTo, AssignableTo, IdenticalTo func(...interface{}) bool
	HasPointers, IsGlobal, IsVariadicParam, Imports                                    func(...interface{}) bool
	Eq, LessThan, GreaterThan, LessEqThan, GreaterEqThan                               func(...interface{}) bool
	Int                                                                                func(...interface{}) int
	Underlying, Parent                                                                 func(...interface{}) *LP
	Size                                                                               int
	PkgPath, Name                                                                      *LP
}

type LV struct {
	Text, Type, Node, Object, Value, SinkType          *LP
	Line                                               int
	Pure, Const, ConstSlice, Addressable, Comparable   bool
	Filter, Contains                                   func(...interface{}) bool
}

type LW struct {
	Text string
	Line int
	Type struct{ Size int }
}

type LM struct {
	Match, MatchComment, Where, At, Report, Suggest, Do, Import func(...interface{}) *LM
	File, GoVersion                                             func(...interface{}) *LP
	Deadcode                                                    func(...interface{}) bool
}

type S0 struct{}

var lm *LM
var lv LV
var lw LW
var lvv map[string]LV
var lww map[string]LW
`

type c06LookGen struct {
	r *rand.Rand
	// fixed-arity family of this file: method name -> parameter types ("string" / "int"); nil = family absent
	fixed     map[string][]string
	fixedText string
	hasT      bool // the body declares a local look-alike `t`
}

func (g *c06LookGen) pick(xs []string) string { return xs[g.r.Intn(len(xs))] }

var (
	c06LookArgs = []string{`"int"`, `"a.*b"`, `"CallExpr"`, `"Func"`, `"("`, "`$x`", `""`, `"io.Reader"`, `"1.16"`, `"signed"`, `1`, `-1`, `1.5`, `true`, `nil`,
		`strC`, `intC`, `nonC`, `lv`, `lvv["y"]`, `m["y"]`, `isOK`, `"a" + "b"`, `lv.Text.Matches("a")`, `lw.Line`}
	c06LookVarPaths = []string{"Text.Matches", "Node.Is", "Node.Parent().Is", "Object.Is", "Object.IsGlobal", "Object.IsVariadicParam", "Type.Is",
		"Type.Underlying().Is", "Type.OfKind", "Type.Underlying().OfKind", "Type.ConvertibleTo", "Type.AssignableTo", "Type.Implements",
		"Type.HasMethod", "Type.HasPointers", "Type.IdenticalTo", "SinkType.Is", "Filter", "Contains", "Node.Parent(1).Is", "Type.Underlying().Underlying().Is"}
	c06LookMatcherPaths = []string{"File().Imports", "File().PkgPath.Matches", "File().Name.Matches", "GoVersion().Eq", "GoVersion().LessThan",
		"GoVersion().GreaterThan", "GoVersion().LessEqThan", "GoVersion().GreaterEqThan", "Deadcode", "File(1).Imports"}
	c06LookVarRoots  = []string{`lv`, `lv`, `lvv["x"]`, `lvv["$$"]`, `(lvv)["x"]`, `lvv[strC]`, `lvv[nonC]`, `(lv)`}
	c06LookBoolSels  = []string{"Pure", "Const", "ConstSlice", "Addressable", "Comparable"}
	c06LookRealAtoms = []string{`m["x"].Pure`, `m["x"].Type.Is("int")`, `m["x"].Text.Matches("a")`, `m["x"].Line > 1`, `m.File().Imports("fmt")`,
		`m["y"].Const`, `m["x"].Text == "a"`, `m.Deadcode()`, `m["x"].Node.Is("CallExpr")`, `m["x"].Type.Size >= 8`, `m["x"].Object.Is("Var")`,
		`m["x"].Filter(isOK)`, `m["x"].Contains("$y")`, `m["x"].Type.IdenticalTo(m["y"])`, `m["$$"].Node.Parent().Is("ExprStmt")`, `m["$$"].SinkType.Is("int")`,
		`m.GoVersion().GreaterEqThan("1.16")`, `m["x"].Value.Int() > 3`, `m["x"].Type.Implements("error")`, `m["x"].Type.HasMethod("io.Reader.Read")`}
	c06LookCmpOps = []string{"==", "!=", "<", ">", "<=", ">="}
	// predicate names of the fixed-arity family
	c06LookFixedNames = []string{"Matches", "Is", "OfKind", "Implements", "HasMethod", "ConvertibleTo", "AssignableTo", "Filter", "Contains", "Imports", "Eq", "IdenticalTo"}
)

// args renders n arguments; the caller says whether they should be of the type the real DSL expects (strings)
func (g *c06LookGen) args(n int, right bool) string {
	var xs []string
	for i := 0; i < n; i++ {
		if right {
			xs = append(xs, g.pick(c06LookArgs[:10]))
		} else {
			xs = append(xs, g.pick(c06LookArgs))
		}
	}
	return strings.Join(xs, ", ")
}

// arity: 0, 1, 2 arguments, one argument being the most frequent
func (g *c06LookGen) arity() int { return []int{0, 0, 1, 1, 1, 2}[g.r.Intn(6)] }

// lookCall: a predicate-like call on a look-alike value; kind is the Dist label
func (g *c06LookGen) lookCall() (string, string) {
	r := g.r
	if g.fixed != nil && r.Intn(4) == 0 {
		// fixed-arity family: the call has to match the declared parameters
		name := g.pick(c06LookFixedNames)
		var as []string
		for _, t := range g.fixed[name] {
			if t == "int" {
				as = append(as, g.pick([]string{"1", "intC", "lw.Line"}))
			} else {
				as = append(as, g.pick([]string{`"int"`, `"a.*b"`, "strC", "nonC", `""`}))
			}
		}
		field := g.pick([]string{"Text", "Type", "Node", "Object"})
		if name == "Filter" || name == "Contains" {
			return "sv." + name + "(" + strings.Join(as, ", ") + ")", fmt.Sprintf("fixed/%s/%d", name, len(as))
		}
		return "sv." + field + "." + name + "(" + strings.Join(as, ", ") + ")", fmt.Sprintf("fixed/%s/%d", name, len(as))
	}
	n := g.arity()
	right := r.Intn(3) != 0
	if r.Intn(4) == 0 {
		p := g.pick(c06LookMatcherPaths)
		return "lm." + p + "(" + g.args(n, right) + ")", fmt.Sprintf("matcher/%s/%d", p, n)
	}
	p := g.pick(c06LookVarPaths)
	root := g.pick(c06LookVarRoots)
	if i := strings.Index(p, "."); i > 0 && r.Intn(8) == 0 {
		// parentheses inside the selector chain: `(lv.Type).Is(…)`
		return "(" + root + "." + p[:i] + ")" + p[i:] + "(" + g.args(n, right) + ")", fmt.Sprintf("var/%s/%d", p, n)
	}
	return root + "." + p + "(" + g.args(n, right) + ")", fmt.Sprintf("var/%s/%d", p, n)
}

func (g *c06LookGen) atom(kinds *[]string) string {
	r := g.r
	switch r.Intn(12) {
	case 0:
		return g.pick(c06LookRealAtoms)
	case 1:
		return g.pick(c06LookVarRoots) + "." + g.pick(c06LookBoolSels)
	case 2:
		// comparisons over look-alike operands
		switch r.Intn(5) {
		case 0:
			return g.pick([]string{"lw", `lww["x"]`}) + ".Text " + g.pick(c06LookCmpOps) + " " + g.pick([]string{`"a"`, "strC", "nonC", `lww["y"].Text`, `"a" + "b"`})
		case 1:
			return g.pick([]string{"lw", `lww["x"]`}) + ".Line " + g.pick(c06LookCmpOps) + " " + g.pick([]string{"1", "intC", `lww["y"].Line`, `m["y"].Line`, "1 << 62"})
		case 2:
			return g.pick([]string{"lw", `lww["x"]`}) + ".Type.Size " + g.pick(c06LookCmpOps) + " " + g.pick([]string{"8", `lww["y"].Type.Size`, `lw.Line`})
		case 3:
			n := g.arity()
			*kinds = append(*kinds, fmt.Sprintf("var/Value.Int/%d", n))
			return g.pick(c06LookVarRoots) + ".Value.Int(" + g.args(n, false) + ") " + g.pick(c06LookCmpOps) + " " + g.pick([]string{"1", "intC", `m["y"].Value.Int()`})
		default:
			a, k1 := g.lookCall()
			b, k2 := g.lookCall()
			*kinds = append(*kinds, k1, k2)
			return a + " " + g.pick([]string{"==", "!="}) + " " + b
		}
	default:
		s, k := g.lookCall()
		*kinds = append(*kinds, k)
		return s
	}
}

// where: a boolean expression over look-alike and real atoms
func (g *c06LookGen) where(depth int, kinds *[]string) string {
	r := g.r
	if depth <= 0 || r.Intn(2) == 0 {
		return g.atom(kinds)
	}
	switch r.Intn(4) {
	case 0:
		return "!" + g.paren(depth-1, kinds)
	case 1:
		return g.paren(depth-1, kinds) + " && " + g.paren(depth-1, kinds)
	case 2:
		return g.paren(depth-1, kinds) + " || " + g.paren(depth-1, kinds)
	default:
		return "(" + g.where(depth-1, kinds) + ")"
	}
}

func (g *c06LookGen) paren(depth int, kinds *[]string) string {
	s := g.where(depth, kinds)
	if strings.Contains(s, " ") {
		return "(" + s + ")"
	}
	return s
}

// fixedDecls: the concrete family `SP` (predicate names, per-file arities, bodies for quasigo) and its holder `sv`
func (g *c06LookGen) fixedDecls() string {
	g.fixed = map[string][]string{}
	var sb strings.Builder
	sb.WriteString("\ntype SP struct{}\n\n")
	for _, name := range c06LookFixedNames {
		var ps []string
		for i, n := 0, []int{0, 0, 1, 2}[g.r.Intn(4)]; i < n; i++ {
			ps = append(ps, g.pick([]string{"string", "string", "int"}))
		}
		g.fixed[name] = ps
		var decl []string
		for i, t := range ps {
			decl = append(decl, fmt.Sprintf("a%d %s", i, t))
		}
		fmt.Fprintf(&sb, "func (SP) %s(%s) bool { return true }\n", name, strings.Join(decl, ", "))
	}
	sb.WriteString("\ntype SV struct {\n\tSP\n\tText, Type, Node, Object SP\n}\n\nvar sv SV\n")
	g.fixedText = sb.String()
	return g.fixedText
}

// chainStmt: one call statement of a matcher function
func (g *c06LookGen) chainStmt(kinds *[]string) string {
	r := g.r
	switch r.Intn(10) {
	case 0, 1, 2, 3:
		// a real chain whose Where clause mixes look-alike predicates in
		s := "m.Match(`f($x, $y)`)"
		if r.Intn(6) == 0 {
			s = "m.Match(`f($x, $y)`, `g($x)`)"
		}
		s += ".Where(" + g.where(2, kinds) + ")"
		switch r.Intn(5) {
		case 0:
			s += `.At(m["x"])`
		case 1:
			s += ".Suggest(`g($x)`)"
		}
		*kinds = append(*kinds, "chain/real")
		return s + ".Report(`r`)"
	case 4:
		*kinds = append(*kinds, "chain/real-plain")
		return g.pick([]string{"m.Match(`f($x)`).Report(`r`)", "m.MatchComment(`TODO`).Report(`c`)", "m.Match(`f($x)`).Suggest(`g($x)`)", "m.Match(`f($x)`).Do(isOK2)"})
	default:
		// a look-alike chain: any links, any arity
		root := g.pick([]string{"lm", "lm", "lm", "(lm)"})
		if g.hasT {
			root = "t"
			g.hasT = false // the first look-alike chain of the body uses the local (an unused local does not type-check)
		}
		n := 1 + r.Intn(4)
		links := []string{"Match"}
		if r.Intn(6) == 0 {
			links = []string{g.pick([]string{"MatchComment", "Where", "Report", "Import", "At"})}
		}
		for i := 0; i < n; i++ {
			links = append(links, g.pick([]string{"Where", "At", "Report", "Suggest", "Do", "Report", "At", "Match", "MatchComment", "Import"}))
		}
		s := root
		for _, l := range links {
			k := g.arity()
			var as string
			switch {
			case l == "Where" && k > 0 && r.Intn(2) == 0:
				as = g.where(1, kinds)
				for i := 1; i < k; i++ {
					as += ", " + g.args(1, false)
				}
			case l == "At" && k > 0 && r.Intn(2) == 0:
				as = g.pick([]string{`m["x"]`, `lvv["x"]`, `lvv[nonC]`, `(lvv["x"])`, `lv`})
				for i := 1; i < k; i++ {
					as += ", " + g.args(1, false)
				}
			case l == "Do" && k > 0 && r.Intn(2) == 0:
				as = "isOK2"
				for i := 1; i < k; i++ {
					as += ", " + g.args(1, false)
				}
			default:
				as = g.args(k, r.Intn(3) != 0)
			}
			s += "." + l + "(" + as + ")"
			*kinds = append(*kinds, fmt.Sprintf("chain/look/%s/%d", l, k))
		}
		return s
	}
}

func (g *c06LookGen) body(kinds *[]string) string {
	r := g.r
	var sb strings.Builder
	g.hasT = false
	if r.Intn(3) == 0 {
		// a local of a look-alike type: the DeclStmt is skipped by the converter, the chain on it is not
		sb.WriteString(g.pick([]string{"\tvar t LM\n", "\tvar t = lm\n", "\tvar t *LM\n"}))
		g.hasT = true
		*kinds = append(*kinds, "stmt/local-look-alike")
	}
	if r.Intn(5) == 0 {
		// a local helper over look-alike parameters: expandMacro substitutes the argument and converts the body again
		var hk []string
		call, k := g.lookCall()
		hk = append(hk, "helper:"+k)
		call = strings.Replace(call, "lv.", "v.", 1)
		fmt.Fprintf(&sb, "\th := func(v LV) bool { return %s }\n", call)
		fmt.Fprintf(&sb, "\tm.Match(`h($x)`).Where(h(%s)).Report(`h`)\n", g.pick([]string{"lv", "(lv)", `lvv["x"]`}))
		*kinds = append(*kinds, hk...)
	}
	n := 1 + r.Intn(3)
	for i := 0; i < n; i++ {
		sb.WriteString("\t" + g.chainStmt(kinds) + "\n")
	}
	if g.hasT {
		sb.WriteString("\tt.Match(`x`).Report(`t`)\n")
		g.hasT = false
	}
	return sb.String()
}

// c06LookDeclShapes: function-declaration shapes; %s = body
var c06LookDeclShapes = []struct{ kind, text string }{
	{"decl/normal", "func g%d(m dsl.Matcher) {\n%s}\n"},
	{"decl/normal", "func g%d(m dsl.Matcher) {\n%s}\n"},
	{"decl/normal", "func g%d(m dsl.Matcher) {\n%s}\n"},
	{"decl/normal", "func g%d(m dsl.Matcher) {\n%s}\n"},
	{"decl/bodyless", "func g%d(m dsl.Matcher)\n"},
	{"decl/bodyless-custom", "func g%d(ctx *dsl.VarFilterContext) bool\n"},
	{"decl/bodyless-results", "func g%d(m dsl.Matcher) int\n"},
	{"decl/extra-param", "func g%d(m dsl.Matcher, n int) {\n%s}\n"},
	{"decl/result", "func g%d(m dsl.Matcher) (ok bool) {\n%s\treturn\n}\n"},
	{"decl/method", "func (S0) g%d(m dsl.Matcher) {\n%s}\n"},
	{"decl/method-ptr", "func (s *S0) g%d(m dsl.Matcher) {\n%s}\n"},
	{"decl/bodyless-method", "func (S0) g%d(m dsl.Matcher)\n"},
	{"decl/method-init-bodyless", "func (S0) init() // %d\n"},
	{"decl/method-init", "func (S0) init() { /* %d */ }\n"},
	{"decl/unnamed-param", "func g%d(dsl.Matcher) {}\n"},
	{"decl/blank-param", "func g%d(_ dsl.Matcher) {}\n"},
	{"decl/blank-name", "func _(m dsl.Matcher) { /* %d */\n%s}\n"},
	{"decl/two-matchers", "func g%d(m, n dsl.Matcher) {\n%s}\n"},
	{"decl/pointer-param", "func g%d(m *dsl.Matcher) {}\n"},
	{"decl/variadic-param", "func g%d(m ...dsl.Matcher) {}\n"},
	{"decl/generic", "func g%d[T any](m dsl.Matcher) {\n%s}\n"},
	{"decl/empty-body", "func g%d(m dsl.Matcher) {}\n"},
	{"decl/init-empty", "func init() { /* %d */ }\n"},
}

// file: a whole rules file; kinds = the classes it contains (Dist labels)
func (g *c06LookGen) file() (src string, kinds []string) {
	r := g.r
	var sb strings.Builder
	sb.WriteString(c06LookPrelude)
	sb.WriteString("\nfunc isOK2(ctx *dsl.DoContext) {}\n")
	g.fixed = nil
	if r.Intn(4) == 0 {
		sb.WriteString(g.fixedDecls())
		kinds = append(kinds, "family/fixed-arity")
	}
	n := 1 + r.Intn(3)
	methodInit := false
	for i := 0; i < n; i++ {
		sh := c06LookDeclShapes[r.Intn(len(c06LookDeclShapes))]
		if strings.HasPrefix(sh.kind, "decl/method-init") {
			if methodInit {
				sh = c06LookDeclShapes[0] // one method of a name per type
			}
			methodInit = true
		}
		kinds = append(kinds, sh.kind)
		if strings.Contains(sh.text, "%s") {
			fmt.Fprintf(&sb, "\n"+sh.text, i, g.body(&kinds))
		} else {
			fmt.Fprintf(&sb, "\n"+sh.text, i)
		}
	}
	return sb.String(), kinds
}

// whereFile: one group `g` with one rule whose Where clause is w (the shape c18Load/helperAndCall expect)
func (g *c06LookGen) whereFile(w string) string {
	fixed := ""
	if g.fixed != nil {
		fixed = g.fixedText
	}
	return c06LookPrelude + fixed + "\nfunc g(m dsl.Matcher) {\n\tm.Match(`f($x, $y)`).Where(" + w + ").Report(`r`)\n}\n"
}

// hand-written members of every class (always run first, unmutated)
var c06LookSeeds = []string{
	"func r(m dsl.Matcher)\n",
	"func (S0) init()\n",
	"func ext(ctx *dsl.VarFilterContext) bool\n\nfunc r(m dsl.Matcher) {\n\tm.Match(`f($x)`).Where(m[`x`].Filter(ext)).Report(`r`)\n}\n",
	"func r(m dsl.Matcher) {\n\tvar t LM\n\tt.Match(`x`).At().Report(``)\n}\n",
	"func r(m dsl.Matcher) {\n\tlm.Match(`x`).Where().Report(``)\n}\n",
	"func r(m dsl.Matcher) {\n\tlm.Match(`x`).Suggest()\n}\n",
	"func r(m dsl.Matcher) {\n\tlm.Match(`x`).Report()\n}\n",
	"func r(m dsl.Matcher) {\n\tlm.Match(`x`).Do()\n}\n",
	"func r(m dsl.Matcher) {\n\tlm.Match().Report(`r`)\n}\n",
	"func r(m dsl.Matcher) {\n\tlm.Report(`r`)\n}\n",
	"func r(m dsl.Matcher) {\n\tlm.Match(`x`, `y`).At(lvv[`x`], 1).Report(`r`, 2)\n}\n",
	"func r(m dsl.Matcher) {\n\tm.Match(`f($x)`).Where(lv.Text.Matches()).Report(`r`)\n}\n",
	"func r(m dsl.Matcher) {\n\tm.Match(`f($x)`).Where(lv.Text.Matches(`a`, `b`)).Report(`r`)\n}\n",
	"func r(m dsl.Matcher) {\n\tm.Match(`f($x)`).Where(lvv[`x`].Type.Is()).Report(`r`)\n}\n",
	"func r(m dsl.Matcher) {\n\tm.Match(`f($x)`).Where(lvv[`x`].Node.Is()).Report(`r`)\n}\n",
	"func r(m dsl.Matcher) {\n\tm.Match(`f($x)`).Where(lvv[`x`].Object.Is()).Report(`r`)\n}\n",
	"func r(m dsl.Matcher) {\n\tm.Match(`f($x)`).Where(lvv[`x`].Type.Implements()).Report(`r`)\n}\n",
	"func r(m dsl.Matcher) {\n\tm.Match(`f($x)`).Where(lvv[`$$`].Node.Parent().Is()).Report(`r`)\n}\n",
	"func r(m dsl.Matcher) {\n\tm.Match(`f($x)`).Where(lvv[`$$`].SinkType.Is()).Report(`r`)\n}\n",
	"func r(m dsl.Matcher) {\n\tm.Match(`f($x)`).Where(lvv[`x`].Filter()).Report(`r`)\n}\n",
	"func r(m dsl.Matcher) {\n\tm.Match(`f($x)`).Where(lvv[`x`].Contains()).Report(`r`)\n}\n",
	"func r(m dsl.Matcher) {\n\tm.Match(`f($x)`).Where(lm.GoVersion().Eq()).Report(`r`)\n}\n",
	"func r(m dsl.Matcher) {\n\tm.Match(`f($x)`).Where(lm.File().Imports()).Report(`r`)\n}\n",
	"func r(m dsl.Matcher) {\n\tm.Match(`f($x)`).Where(lv.Type.IdenticalTo()).Report(`r`)\n}\n",
	"func r(m dsl.Matcher) {\n\th := func(v LV) bool { return v.Type.OfKind() }\n\tm.Match(`f($x)`).Where(h(lv)).Report(`r`)\n}\n",
	"func r(m dsl.Matcher) {\n\tm.Match(`f($x)`).Where(m[`x`].Pure && !lv.Type.HasMethod()).Report(`r`)\n\tm.Match(`g($x)`).Report(`g`)\n}\n",
	"func (S0) r(m dsl.Matcher) {\n\tm.Match(`f($x)`).Report(`r`)\n}\n",
	"func r(m dsl.Matcher, n int) {\n\tm.Match(`f($x)`).Report(`r`)\n}\n",
}

// c06LookDist records the classes of one case: predicate paths and arities separately (the product is too many keys)
func c06LookDist(res *hx.Result, pfx string, kinds []string) {
	seen := map[string]bool{}
	add := func(k string) {
		if !seen[k] {
			seen[k] = true
			res.Dist(pfx + k)
		}
	}
	for _, k := range kinds {
		helper := strings.HasPrefix(k, "helper:")
		k = strings.TrimPrefix(k, "helper:")
		f := strings.Split(k, "/")
		switch {
		case (f[0] == "var" || f[0] == "matcher" || f[0] == "fixed") && len(f) == 3:
			if helper {
				add("helper-body/args=" + f[2])
			}
			add(f[0] + "/" + f[1])
			add("pred-args=" + f[2])
		default:
			add(k)
		}
	}
}

// c06LoadOutcome: Engine.Load under recover and a 20 s timeout
func c06LoadOutcome(src string) string {
	done := make(chan string, 1)
	go func() {
		e := ruleguard.NewEngine()
		err := hx.LoadInto(e, "rules.go", src, nil)
		switch {
		case err == nil:
			done <- "ok"
		case strings.HasPrefix(err.Error(), "PANIC"):
			done <- err.Error()
		case strings.Contains(err.Error(), "typechecker error"), strings.Contains(err.Error(), "parse file error"), strings.Contains(err.Error(), "parser error"):
			done <- "notgo " + err.Error()
		case !c06Located(err.Error()):
			done <- "UNLOCATED " + err.Error()
		default:
			done <- "err " + err.Error()
		}
	}()
	select {
	case out := <-done:
		return out
	case <-time.After(120 * time.Second):
		return "HANG"
	}
}

func c06LookViolate(res *hx.Result, out string, in map[string]interface{}) {
	switch {
	case strings.HasPrefix(out, "PANIC"):
		f := strings.Fields(out)
		res.Violate(hx.Violation{Signature: "load:panic " + f[1] + "@" + strings.TrimSuffix(f[3], ":"),
			What: "Engine.Load panics on a rules file that is valid Go: " + clip(out), Input: in, Impl: clip(out), Spec: "success or located error"})
	case out == "HANG":
		res.Violate(hx.Violation{Signature: "load:hang", What: "Engine.Load does not return", Input: in, Impl: out, Spec: "success or located error"})
	case strings.HasPrefix(out, "UNLOCATED"):
		res.Violate(hx.Violation{Signature: "load:error-without-file-and-line", What: "Load returns an error that does not name the file and line: " + clip(out),
			Input: in, Impl: clip(out), Spec: "rules.go:<line>: ..."})
	}
}

// c06Look: the look-alike stream (L1 + L2)
func c06Look(c *Ctx) error {
	res := c.Res
	nFiles, nWhere, nRules := 220, 300, 200
	if c.Thorough {
		nFiles, nWhere, nRules = 2000, 2500, 2000
	}
	g := &c06LookGen{r: hx.Rng(c.Seed, "c06-look")}

	// ---- L1: whole files
	for i := 0; i < nFiles+len(c06LookSeeds); i++ {
		var src string
		var kinds []string
		if i < len(c06LookSeeds) {
			src, kinds = c06LookPrelude+"\n"+c06LookSeeds[i], []string{"seed"}
		} else {
			src, kinds = g.file()
		}
		out := c06LoadOutcome(src)
		cls := strings.Fields(out)[0]
		res.Count("look-file", src, true)
		res.Dist("look:file:" + cls)
		c06LookDist(res, "look:class:", kinds)
		c06LookViolate(res, out, map[string]interface{}{"rules_src": src, "classes": kinds})
		if i == len(c06LookSeeds) {
			res.Sample(map[string]interface{}{"look_alike_rules_src": src, "outcome": clip(out)})
		}
	}

	// ---- L2: single Where expressions
	// VERIF_C06_NOARITY=1: compare with the converter model before fixes/c06-predicate-arity.diff and c06-chain-arity.diff
	op := "c18conv"
	if os.Getenv("VERIF_C06_NOARITY") != "" {
		op = "c18conv_asis"
	}
	var ops, impl, wfOps, loadOps, loadImpl []string
	var inputs, loadInputs []interface{}
	var wfIdx []int
	orc := &c06Oracles{probeCache: map[string]int{}}
	strict := "1"
	if os.Getenv("VERIF_C06_ASIS") != "" {
		strict = "0"
	}
	g2 := &c06LookGen{r: hx.Rng(c.Seed, "c06-look-where")}
	for i := 0; i < nWhere; i++ {
		g2.fixed, g2.fixedText = nil, ""
		if i%5 == 4 {
			g2.fixedDecls()
		}
		var kinds []string
		w := g2.where(2, &kinds)
		src := g2.whereFile(w)
		l, err := c18Load(src)
		if err != nil {
			res.Dist("look:where:does-not-typecheck")
			if os.Getenv("VERIF_C06_DEBUG") != "" {
				fmt.Fprintf(os.Stderr, "look-where does not type-check: %s: %v\n", w, err)
			}
			continue
		}
		_, where := l.helperAndCall()
		if where == nil {
			continue
		}
		hasMacro := false
		sx := cexpr(l.lf.Types, where, &hasMacro)
		if hasMacro {
			continue // a local helper call: outside Conv.convert
		}
		f, out := l.convert()
		in := map[string]interface{}{"where": w, "rules_src": src}
		var ans string
		switch {
		case out == "ok":
			wx, ok := whereOf(f)
			if !ok {
				continue
			}
			var sb strings.Builder
			if !encFilter(&sb, &wx) {
				continue
			}
			ans = "ok " + sb.String()
			// what irconv accepts must be inside the loader theorems' domain, and the real loader must not panic on it
			wfOps = append(wfOps, "spec06.wfwhy "+c06File(f))
			wfIdx = append(wfIdx, len(ops))
			lout, frame := c06Load(f, func(string) bool { return true })
			res.Dist("look:where:load:" + strings.Fields(lout)[0])
			if strings.HasPrefix(lout, "panic") {
				res.Violate(hx.Violation{Signature: "load:" + lout + "@" + frame, What: "LoadFromIR panics on IR that irconv produced from valid Go: " + w,
					Input: in, Impl: lout, Spec: "success or located error"})
			}
			// the loader model on the same IR (the custom declarations' compilation is not modelled: its failures carry no line)
			if !strings.HasPrefix(lout, "err ?") {
				funcs := []string{"isOK"}
				if g2.fixed != nil {
					funcs = append(funcs, c06LookFixedNames...)
				}
				loadOps = append(loadOps, "loader.load "+strict+" ("+c06File(f)+" "+orc.render(f, func(string) bool { return true }, funcs)+")")
				loadImpl = append(loadImpl, lout)
				loadInputs = append(loadInputs, in)
				res.Count("look-load", w, true)
			}
		case strings.HasPrefix(out, "panic"):
			ans = strings.SplitN(out, ":", 2)[0]
			c06LookViolate(res, c06LoadOutcome(src), in)
		default:
			ans = "err"
		}
		ops = append(ops, op+" "+sx)
		impl = append(impl, ans)
		inputs = append(inputs, in)
		res.Count("look-conv", w, true)
		res.Dist("look:where:conv:" + strings.SplitN(ans, " ", 2)[0])
		c06LookDist(res, "look:where:", kinds)
	}
	if err := res.Compare(c.Drv, "look-conv", ops, impl, inputs); err != nil {
		return err
	}
	if err := res.Compare(c.Drv, "look-load", loadOps, loadImpl, loadInputs); err != nil {
		return err
	}
	ans, err := c.Drv.Ask(wfOps)
	if err != nil {
		return err
	}
	nbad := 0
	for k, a := range ans {
		if a != "ok" {
			in := inputs[wfIdx[k]].(map[string]interface{})
			res.Dist("look:where:ill-formed-ir")
			if nbad++; nbad > 3 {
				continue
			}
			res.Errorf("irconv produced IR outside the well-formedness domain of C06.load_total / C06.convert_wf (%s) for Where(%s): the loader theorems do not apply to it", a, in["where"])
		}
	}
	return c06LookRules(c, nRules)
}

// ---- (L3) convertRuleExpr after the chain walk: real ConvertFile vs the Lean model Comp.convertRuleG --------------------

// c06ChainOf replays the chain walk of convertRuleExpr on one call statement and serialises what it collected
// (the argument list of each clause) for `c06rule`.  walkErr: the walk itself reports a located error
// (a repeated clause, an unexpected method) — the model starts after the walk.
func c06ChainOf(l *c18Loaded, call *ast.CallExpr, hasMacro *bool) (sx string, walkErr bool) {
	info, fset := l.lf.Types, l.fset
	var matchArgs, matchCommentArgs, whereArgs, suggestArgs, reportArgs, atArgs, doArgs *[]ast.Expr
	orig := call
	for {
		chain, ok := call.Fun.(*ast.SelectorExpr)
		if !ok {
			break
		}
		switch chain.Sel.Name {
		case "Match":
			if matchArgs != nil || matchCommentArgs != nil {
				return "", true
			}
			matchArgs = &call.Args
		case "MatchComment":
			if matchCommentArgs != nil || matchArgs != nil {
				return "", true
			}
			matchCommentArgs = &call.Args
		case "Where":
			if whereArgs != nil {
				return "", true
			}
			whereArgs = &call.Args
		case "Suggest":
			if suggestArgs != nil {
				return "", true
			}
			suggestArgs = &call.Args
		case "Report":
			if reportArgs != nil {
				return "", true
			}
			reportArgs = &call.Args
		case "Do":
			doArgs = &call.Args
		case "At":
			if atArgs != nil {
				return "", true
			}
			atArgs = &call.Args
		default:
			return "", true
		}
		call, ok = chain.X.(*ast.CallExpr)
		if !ok {
			break
		}
	}
	clause := func(as *[]ast.Expr) string {
		if as == nil {
			return "n"
		}
		parts := []string{"args"}
		for _, a := range *as {
			parts = append(parts, cexpr(info, a, hasMacro))
		}
		return "(" + strings.Join(parts, " ") + ")"
	}
	pats := func(as *[]ast.Expr) string {
		if as == nil {
			return "n"
		}
		parts := []string{"args"}
		for _, a := range *as {
			parts = append(parts, fmt.Sprintf("(%d %s)", fset.Position(a.Pos()).Line, cexpr(info, a, hasMacro)))
		}
		return "(" + strings.Join(parts, " ") + ")"
	}
	return fmt.Sprintf("(chain %d %s %s %s %s %s %s %s)", fset.Position(orig.Pos()).Line, pats(matchArgs), pats(matchCommentArgs),
		clause(whereArgs), clause(suggestArgs), clause(reportArgs), clause(atArgs), clause(doArgs)), false
}

func c06RuleSExp(r *ir.Rule) string {
	var sb strings.Builder
	fmt.Fprintf(&sb, "(rule %d (syn", r.Line)
	for _, p := range r.SyntaxPatterns {
		fmt.Fprintf(&sb, " (%d %s)", p.Line, hx.HexS(p.Value))
	}
	sb.WriteString(") (com")
	for _, p := range r.CommentPatterns {
		fmt.Fprintf(&sb, " (%d %s)", p.Line, hx.HexS(p.Value))
	}
	fmt.Fprintf(&sb, ") %s %s %s %s ", hx.HexS(r.ReportTemplate), hx.HexS(r.SuggestTemplate), hx.HexS(r.DoFuncName), hx.HexS(r.LocationVar))
	c06FE(&sb, stripIR(r.WhereExpr))
	sb.WriteString(")")
	return sb.String()
}

// c06LookRules: single call statements (real chains, look-alike chains of any arity) in a group `g`
func c06LookRules(c *Ctx, n int) error {
	res := c.Res
	ar := "1"
	if os.Getenv("VERIF_C06_NOARITY") != "" {
		ar = "0"
	}
	g := &c06LookGen{r: hx.Rng(c.Seed, "c06-look-rules")}
	var ops, impl []string
	var inputs []interface{}
	hand := []string{"lm.Match(`x`).At().Report(``)", "lm.Match(`x`).Where().Report(``)", "lm.Match(`x`).Suggest()", "lm.Match(`x`).Report()", "lm.Match(`x`).Do()",
		"lm.Match().Report(`r`)", "lm.Match(`x`, strC).At(lvv[`x`], 1).Report(`r`, 2)", "m.Match(`f($x)`).Where(lv.Text.Matches()).Report(`r`)",
		"m.Match(`f($x)`, `g($x)`).Where(m[`x`].Pure).At(m[`x`]).Suggest(`h($x)`)", "m.MatchComment(`TODO`).Report(`c`)", "m.Match(`f($x)`).Do(isOK2)",
		"lm.MatchComment(`x`).Do(isOK2)", "lm.Match(`x`).Do(isOK2).Report(`r`)", "lm.Match(`x`).At(lv).Report(`r`)", "lm.Match(nonC).Report(`r`)", "lm.Match(`x`).Do(lv.Pure)",
		"lm.Where(true)", "lm.Match(`x`)"}
	for i := 0; i < n+len(hand); i++ {
		var kinds []string
		g.fixed, g.fixedText, g.hasT = nil, "", false
		var stmt string
		if i < len(hand) {
			stmt = hand[i]
		} else {
			stmt = g.chainStmt(&kinds)
		}
		src := c06LookPrelude + "\nfunc isOK2(ctx *dsl.DoContext) {}\n\nfunc g(m dsl.Matcher) {\n\t" + stmt + "\n}\n"
		l, err := c18Load(src)
		if err != nil {
			res.Dist("look:rule:does-not-typecheck")
			if os.Getenv("VERIF_C06_DEBUG") != "" {
				fmt.Fprintf(os.Stderr, "look-rule does not type-check: %s: %v\n", stmt, err)
			}
			continue
		}
		var call *ast.CallExpr
		for _, d := range l.lf.Syntax.Decls {
			if fd, ok := d.(*ast.FuncDecl); ok && fd.Name.Name == "g" && fd.Body != nil && len(fd.Body.List) == 1 {
				if es, ok := fd.Body.List[0].(*ast.ExprStmt); ok {
					call, _ = es.X.(*ast.CallExpr)
				}
			}
		}
		if call == nil {
			continue
		}
		hasMacro := false
		sx, walkErr := c06ChainOf(l, call, &hasMacro)
		f, out := l.convert()
		in := map[string]interface{}{"stmt": stmt, "rules_src": src}
		if strings.HasPrefix(out, "panic") {
			// the same file through the public API: one signature (panic kind @ frame) per defect, whichever suite met it
			c06LookViolate(res, c06LoadOutcome(src), in)
		}
		if walkErr {
			res.Dist("look:rule:walk-error")
			if out == "ok" {
				res.Errorf("the harness's replay of the chain walk rejects `%s` but ConvertFile accepts it: the replay no longer matches convertRuleExpr", stmt)
			}
			continue
		}
		if hasMacro {
			continue
		}
		var ans string
		switch {
		case out == "ok":
			if len(f.RuleGroups) != 1 || len(f.RuleGroups[0].Rules) != 1 {
				continue
			}
			ans = "ok " + c06RuleSExp(&f.RuleGroups[0].Rules[0])
		case strings.HasPrefix(out, "panic"):
			ans = strings.SplitN(out, ":", 2)[0]
		default:
			ans = "err"
		}
		ops = append(ops, "c06rule "+ar+" "+sx)
		impl = append(impl, ans)
		inputs = append(inputs, in)
		res.Count("look-rule", stmt, true)
		res.Dist("look:rule:" + strings.SplitN(ans, " ", 2)[0])
		c06LookDist(res, "look:rule:", kinds)
	}
	return res.Compare(c.Drv, "look-rule", ops, impl, inputs)
}
