package main

// C06, argument stream (child processes, c06_fn.go): the load-time argument forms the loader and the converter
// refuse, and the load settings.
//
//	arg       Type.Implements / Type.HasMethod argument strings built from parts (package part x name part x form,
//	          with and without Import() of the package), through Load and LoadFromIR
//	conv      rule statements aimed at the converter's branches the other streams do not reach (helper arguments that
//	          index something else than the matcher, At / IdenticalTo / m[...] with keys that are not string
//	          literals, filters whose receiver is not `m[...]`)
//	bundle    dsl.ImportRules of bundles that load, do not convert, do not load, import bundles themselves, collide
//	          with the importing file; in IR form also bundles that are not there
//	ir-decls  custom declarations in IR form that no conversion produces (text that does not parse / type-check,
//	          declarations without functions); a panic on these is recorded, not judged (malformed IR, as in the
//	          IR stream of c06.go)
//	settings  LoadContext.DebugFunc (a compiled function, a function that is refused, no such function, a group name)
//	          and DebugImports, against the verdict of the same file without them

import (
	"fmt"
	"math/rand"
	"strconv"
	"strings"

	"github.com/quasilyte/go-ruleguard/ruleguard/ir"
	"verifharness/hx"
)

type c06aCase struct {
	mode, kind string
	base       int // settings: index of the case with the same source and no settings (-1: none)
	job        *c06xJob
}

const c06aHead = "package gorules\n\nimport \"github.com/quasilyte/go-ruleguard/dsl\"\n\n"

func c06aRuleFile(imports []string, where string) string {
	var sb strings.Builder
	sb.WriteString(c06aHead + "func r(m dsl.Matcher) {\n")
	for _, p := range imports {
		sb.WriteString("\tm.Import(" + strconv.Quote(p) + ")\n")
	}
	sb.WriteString("\tm.Match(`f($x)`).Where(" + where + ").Report(`x`)\n}\n")
	return sb.String()
}

var (
	c06aPkgs       = []string{"io", "fmt", "bytes", "strings", "nosuchpkg", "", "ast", "pkgpath", "c05bundle", "io/fs", "IO", "_", "go"}
	c06aNames      = []string{"Reader", "Stringer", "Buffer", "NoSuch", "EOF", "Copy", "Node", "T", "Bundle", "", "reader", "FS", "_"}
	c06aMethods    = []string{"Read", "String", "Write", "Nope", "", "Pos", "Error", "read"}
	c06aImports    = [][]string{nil, nil, nil, {"io"}, {"go/ast"}, {"no/such/pkgpath"}, {"verifharness/c05bundle"}, {"io", "io"}, {""}, {"text/template", "html/template"}, {"io/fs"}}
	c06aIfaceForms = []string{"%p.%n", "%p.%n", "%p.%n", "%n", "%p.%n.M", "(%p).%n", "(%p.%n)", "*%p.%n", "[]%p.%n", "%p.%n()", "%p . %n", " %p.%n ", "%p..%n", "%p.%n.", "%p/%p.%n", `"%p".%n`,
		"%p.(%n)", "%p.%n[int]", "%p.%n{}", "interface{}", "error", "func()", "1", "(", "a.b.c.d", "struct{}", "any", "comparable", "%p.%n\n", "%p.\n%n", "go/ast.Node", "./%p.%n", "%p.%n // c", "$t", "%p.$t", "map[%p.%n]int"}
	c06aFuncForms = []string{"%p.%n.%m", "%p.%n.%m", "%p.%n.%m", "%n.%m", "%p.%n", "%m", "(%p).%n.%m", "(%p.%n).%m", "%p.%n.%m()", "%p.%n.%m(int)", "a.b.c.%m", "a.b.c.d.%m", "%p.%n.(%m)", "*%p.%n.%m", "(*%p.%n).%m",
		"%p.%n[int].%m", "%p().%n.%m", "%p.%n().%m", "%p[0].%n.%m", "\"%p\".%n.%m", "1.%m", "%p.%n.%m.x", " %p.%n.%m ", "%p.%n.\n%m", "func().%m", "f()", "", "(", "%%", "$x.%n.%m", "%p.%n.$m", "go/ast.Node.Pos", "interface{}.%m", "struct{}.x.y"}
)

func c06aSubst(form, p, n, m string) string {
	return strings.NewReplacer("%p", p, "%n", n, "%m", m, "%%", "%").Replace(form)
}

func c06aArgCases(r *rand.Rand, n int) []*c06aCase {
	var out []*c06aCase
	slow := func(src string) bool {
		return strings.Contains(src, "fmt") || strings.Contains(src, "bytes") || strings.Contains(src, "strings") || strings.Contains(src, "template") || strings.Contains(src, "ast")
	}
	add := func(kind, pred, arg string, imports []string) {
		src := c06aRuleFile(imports, `m["x"].Type.`+pred+`(`+strconv.Quote(arg)+`)`)
		out = append(out, &c06aCase{mode: "arg", kind: kind, base: -1, job: &c06xJob{Src: src, Once: slow(src)}})
	}
	// every form once with the parts that resolve, then random combinations
	for _, f := range c06aIfaceForms {
		add("Implements:"+f, "Implements", c06aSubst(f, "io", "Reader", ""), nil)
	}
	for _, f := range c06aFuncForms {
		add("HasMethod:"+f, "HasMethod", c06aSubst(f, "io", "Reader", "Read"), nil)
	}
	fixed := []struct {
		pred, arg string
		imports   []string
	}{
		{"Implements", "nosuchpkg.T", nil}, {"Implements", "pkgpath.T", []string{"no/such/pkgpath"}}, {"Implements", "io.NoSuch", nil}, {"Implements", "bytes.Buffer", nil},
		{"Implements", "io.EOF", nil}, {"Implements", "io.Copy", nil}, {"Implements", "c05bundle.Bundle", []string{"verifharness/c05bundle"}}, {"Implements", "ast.Node", []string{"go/ast"}},
		{"Implements", "ast.Node", nil}, {"Implements", "ast.File", []string{"go/ast"}}, {"Implements", "template.Template", []string{"text/template", "html/template"}},
		{"HasMethod", "bytes.Buffer.Write", nil}, {"HasMethod", "io.Reader.Nope", nil}, {"HasMethod", "io.EOF.Error", nil}, {"HasMethod", "io.Copy.x", nil}, {"HasMethod", "nosuchpkg.T.M", nil},
		{"HasMethod", "pkgpath.T.M", []string{"no/such/pkgpath"}}, {"HasMethod", "ast.Node.Pos", []string{"go/ast"}}, {"HasMethod", "ast.Node.Pos", nil}, {"HasMethod", "fs.FS.Open", []string{"io/fs"}},
		{"HasMethod", "error.Error", nil}, {"HasMethod", "io.Reader.Read.x", nil},
	}
	for _, f := range fixed {
		add(f.pred+":fixed:"+f.arg, f.pred, f.arg, f.imports)
	}
	for i := 0; i < n; i++ {
		p, nm, m := c06aPkgs[r.Intn(len(c06aPkgs))], c06aNames[r.Intn(len(c06aNames))], c06aMethods[r.Intn(len(c06aMethods))]
		imp := c06aImports[r.Intn(len(c06aImports))]
		if r.Intn(2) == 0 {
			f := c06aIfaceForms[r.Intn(len(c06aIfaceForms))]
			add("Implements:"+f, "Implements", c06aSubst(f, p, nm, m), imp)
		} else {
			f := c06aFuncForms[r.Intn(len(c06aFuncForms))]
			add("HasMethod:"+f, "HasMethod", c06aSubst(f, p, nm, m), imp)
		}
	}
	return out
}

func c06aConvCases() []*c06aCase {
	var out []*c06aCase
	const decls = `var mm map[string]map[string]string

var ms []dsl.Matcher

var pm *dsl.Matcher

var vs []dsl.Var

var vm map[string][]dsl.Var

type MI map[int]dsl.Var

type MF map[float64]dsl.Var

type MR map[rune]dsl.Var

type MS string

var mi MI

var mf MF

var mr MR

var sv = "x"

const cs = "x"

const ci = 1

const cms MS = "x"

var getM func() dsl.Matcher

var getS func() string

`
	add := func(kind string, stmts ...string) {
		src := c06aHead + decls + "func r(m dsl.Matcher) {\n\t" + strings.Join(stmts, "\n\t") + "\n}\n"
		out = append(out, &c06aCase{mode: "conv", kind: kind, base: -1, job: &c06xJob{Src: src}})
	}
	h := "h := func(v dsl.Var, s string) bool { return v.Type.Is(s) }"
	w := func(where string) string { return "m.Match(`f($x)`).Where(" + where + ").Report(`x`)" }
	// helper arguments (isSafe)
	add("helper-arg:index-of-index", h, w(`h(m["x"], mm["a"]["b"])`))
	add("helper-arg:index-of-call", h, w(`h(getM()["x"], "int")`))
	add("helper-arg:index-of-slice-element", h, w(`h(ms[0]["x"], "int")`))
	add("helper-arg:index-of-deref", h, w(`h((*pm)["x"], "int")`))
	add("helper-arg:paren-matcher", h, w(`h((m)["x"], "int")`))
	add("helper-arg:paren-key", h, w(`h(m[("x")], ("int"))`))
	add("helper-arg:other-map", h, w(`h(vm["x"][0], "int")`))
	add("helper-arg:const-key", h, w(`h(m[cs], "int")`))
	add("helper-arg:nonconst-key", h, w(`h(m[sv], "int")`))
	add("helper-arg:int-key", h, w(`h(mi[1], "int")`))
	add("helper-arg:call", h, w(`h(m["x"], getS())`))
	add("helper-arg:concat", h, w(`h(m["x"], "in" + "t")`))
	add("helper-arg:slice-element", h, w(`h(vs[0], "int")`))
	// At / IdenticalTo / Contains / m[...] keys (toStringValue)
	at := func(arg string) string { return "m.Match(`f($x)`).At(" + arg + ").Report(`x`)" }
	add("at:int-literal-key", at(`mi[1]`))
	add("at:int-const-key", at(`mi[ci]`))
	add("at:float-literal-key", at(`mf[1.5]`))
	add("at:rune-literal-key", at(`mr['x']`))
	add("at:slice-element", at(`vs[1]`))
	add("at:nonconst-key", at(`m[sv]`))
	add("at:call-key", at(`m[getS()]`))
	add("at:const-key", at(`m[cs]`))
	add("at:concat-key", at(`m["x" + ""]`))
	add("at:converted-key", at(`m[string(cms)]`))
	add("at:paren-key", at(`m[("x")]`))
	add("at:raw-key", at("m[`x`]"))
	add("at:other-matcher", at(`ms[0]["x"]`))
	add("at:paren-index", at(`(m["x"])`))
	add("at:not-an-index", at(`vs[0:1][0]`))
	add("identical-to:int-literal-key", w(`m["x"].Type.IdenticalTo(mi[1])`))
	add("identical-to:slice-element", w(`m["x"].Type.IdenticalTo(vs[0])`))
	add("identical-to:nonconst-key", w(`m["x"].Type.IdenticalTo(m[sv])`))
	add("identical-to:paren-index", w(`m["x"].Type.IdenticalTo((m["x"]))`))
	add("var-key:int-literal", w(`mi[1].Pure`))
	add("var-key:int-const", w(`mi[ci].Type.Is("int")`))
	add("var-key:float-literal", w(`mf[1.5].Pure`))
	add("var-key:rune-literal", w(`mr['x'].Text.Matches("a")`))
	add("var-key:nonconst", w(`m[sv].Pure`))
	add("var-key:call", w(`m[getS()].Pure`))
	add("var-key:converted", w(`m[string(cms)].Pure`))
	add("var-key:concat", w(`m["x" + ""].Pure`))
	// filters whose receiver is not m[...] (inspectFilterSelector)
	add("receiver:other-matcher-element", w(`ms[0]["x"].Pure`))
	add("receiver:call-result", w(`getM()["x"].Type.Is("int")`))
	add("receiver:deref", w(`(*pm)["x"].Pure`))
	add("receiver:slice-element", w(`vs[0].Pure`))
	add("receiver:map-of-slices", w(`vm["x"][0].Text.Matches("a")`))
	add("receiver:paren-everything", w(`((m)[("x")]).Pure`))
	add("receiver:paren-chain", w(`((m["x"].Type)).Is(("int"))`))
	// string arguments that are not literals
	add("string-arg:nonconst-report", "m.Match(`f($x)`).Report(sv)")
	add("string-arg:call-report", "m.Match(`f($x)`).Report(getS())")
	add("string-arg:converted-const", "m.Match(`f($x)`).Report(string(cms))")
	add("string-arg:rune-conversion", "m.Match(`f($x)`).Report(string(rune(65)))")
	add("string-arg:nonconst-match", "m.Match(sv).Report(`x`)")
	add("string-arg:nonconst-suggest", "m.Match(`f($x)`).Suggest(sv)")
	add("string-arg:nonconst-import", "m.Import(sv)", "m.Match(`f($x)`).Report(`x`)")
	add("string-arg:nonconst-type", w(`m["x"].Type.Is(sv)`))
	add("string-arg:nonconst-regexp", w(`m["x"].Text.Matches(getS())`))
	add("string-arg:nonconst-version", w(`m.GoVersion().Eq(sv)`))
	return out
}

func c06aBundleCases(thorough bool) []*c06aCase {
	var out []*c06aCase
	src := func(prefix string, pkgs ...string) string {
		var sb strings.Builder
		sb.WriteString("package gorules\n\nimport (\n\t\"github.com/quasilyte/go-ruleguard/dsl\"\n")
		for i, p := range pkgs {
			fmt.Fprintf(&sb, "\tb%d \"verifharness/%s\"\n", i, p)
		}
		sb.WriteString(")\n\nfunc init() {\n")
		for i := range pkgs {
			fmt.Fprintf(&sb, "\tdsl.ImportRules(%q, b%d.Bundle)\n", prefix, i)
		}
		sb.WriteString("}\n\nfunc own(m dsl.Matcher) {\n\tm.Match(`f($x)`).Report(`x`)\n}\n")
		return sb.String()
	}
	add := func(kind, s string) {
		out = append(out, &c06aCase{mode: "bundle", kind: kind, base: -1, job: &c06xJob{Src: s, Once: true}})
	}
	for _, name := range []string{"ok", "badconv", "badload", "badfunc", "nested", "twofiles", "empty"} {
		add("src:"+name, src("p", "c06bundle/"+name))
	}
	add("src:dupgroup-empty-prefix", src("", "c06bundle/dupgroup"))
	add("src:dupgroup-with-prefix", src("p", "c06bundle/dupgroup"))
	add("src:same-bundle-twice", src("p", "c06bundle/ok", "c06bundle/ok"))
	add("src:two-bundles", src("p", "c06bundle/ok", "c05bundle"))
	add("src:second-bundle-bad", src("p", "c06bundle/ok", "c06bundle/badload"))
	// in IR form: the bundle list is free text
	plain := c06aHead + "func own(m dsl.Matcher) {\n\tm.Match(`f($x)`).Report(`x`)\n}\n"
	irb := func(kind string, bs ...ir.BundleImport) {
		out = append(out, &c06aCase{mode: "bundle", kind: kind, base: -1, job: &c06xJob{Src: plain, NoSrc: true, Once: true, Bundles: bs}})
	}
	irb("ir:no-such-package", ir.BundleImport{Line: 7, PkgPath: "no/such/bundlepkg", Prefix: "p"})
	irb("ir:empty-path", ir.BundleImport{Line: 7, PkgPath: "", Prefix: "p"})
	irb("ir:notgo", ir.BundleImport{Line: 7, PkgPath: "verifharness/c06bundle/notgo", Prefix: "p"})
	irb("ir:ok", ir.BundleImport{Line: 7, PkgPath: "verifharness/c06bundle/ok", Prefix: "p"})
	irb("ir:ok-line-zero", ir.BundleImport{Line: 0, PkgPath: "verifharness/c06bundle/ok", Prefix: ""})
	irb("ir:ok-twice", ir.BundleImport{Line: 7, PkgPath: "verifharness/c06bundle/ok", Prefix: "p"}, ir.BundleImport{Line: 8, PkgPath: "verifharness/c06bundle/ok", Prefix: "p"})
	irb("ir:nested", ir.BundleImport{Line: 7, PkgPath: "verifharness/c06bundle/nested", Prefix: "p"})
	irb("ir:relative-path", ir.BundleImport{Line: 7, PkgPath: "./c06bundle/ok", Prefix: "p"})
	irb("ir:flag-like-path", ir.BundleImport{Line: 7, PkgPath: "-badflag", Prefix: "p"})
	irb("ir:package-without-go-files", ir.BundleImport{Line: 7, PkgPath: "verifharness/c06bundle", Prefix: "p"})
	irb("ir:not-a-rules-package", ir.BundleImport{Line: 7, PkgPath: "verifharness/hx", Prefix: "p"})
	if thorough {
		irb("ir:pattern-of-packages", ir.BundleImport{Line: 7, PkgPath: "./c06bundle/...", Prefix: "p"})
		irb("ir:stdlib-package", ir.BundleImport{Line: 7, PkgPath: "unicode/utf8", Prefix: "p"})
	}
	return out
}

// c06aDeclCases: custom declarations in IR form
func c06aDeclCases() []*c06aCase {
	var out []*c06aCase
	plain := c06aHead + "func flt(ctx *dsl.VarFilterContext) bool {\n\treturn true\n}\n\nfunc r(m dsl.Matcher) {\n\tm.Match(`f($x)`).Where(m[\"x\"].Filter(flt)).Report(`x`)\n}\n"
	add := func(kind string, decls ...string) {
		out = append(out, &c06aCase{mode: "ir-decls", kind: kind, base: -1, job: &c06xJob{Src: plain, NoSrc: true, DeclsSet: true, Decls: decls}})
	}
	const flt = "func flt(ctx *dsl.VarFilterContext) bool {\n\treturn true\n}"
	add("as-converted", flt)
	add("none")
	add("empty-string", "")
	add("only-a-variable", "var x = 1")
	add("does-not-parse", "func flt(")
	add("does-not-type-check", "func flt(ctx *dsl.VarFilterContext) bool {\n\treturn undefinedName\n}")
	add("package-clause", "package other")
	add("import-after-declaration", flt, `import "strings"`)
	add("import-unused", `import "strings"`, flt)
	add("import-of-missing-package", `import "no/such/pkg"`, flt)
	add("two-functions-in-one-string", flt+"\n\nfunc other() int {\n\treturn 1\n}")
	add("same-function-twice", flt, flt)
	add("function-without-body", "func flt(ctx *dsl.VarFilterContext) bool")
	add("method-declaration", "type T int", "func (T) flt(ctx *dsl.VarFilterContext) bool {\n\treturn true\n}")
	add("other-signature", "func flt(a int) int {\n\treturn a\n}")
	add("matcher-function", "func flt(m dsl.Matcher) {\n\tm.Match(`x`).Report(`x`)\n}")
	add("comment-only", "// nothing")
	add("unterminated-comment", flt, "/* open")
	add("binary-text", "\x00\xff\xfe")
	add("refused-function", "func flt(ctx *dsl.VarFilterContext) bool {\n\tgo func() {}()\n\treturn true\n}")
	add("init-function", "func init() {\n\tprintln(1)\n}", flt)
	return out
}

// c06aSettingsCases: files with and without DebugFunc / DebugImports. bases: sources to combine the settings with.
func c06aSettingsCases(r *rand.Rand, thorough bool) []*c06aCase {
	var out []*c06aCase
	type base struct {
		kind, src string
		funcs     []string
	}
	var bases []base
	nSub := 6
	if thorough {
		nSub = 60
	}
	for i := 0; i < nSub; i++ {
		cs := c06fSubsetCase(r)
		bases = append(bases, base{"subset-function", cs.job.Src, []string{"flt", "act", "hlp", "hI", "M"}})
	}
	bases = append(bases,
		base{"refused-function", c06fFilterFile("", "\tswitch {\n\t}\n\treturn true"), []string{"flt", "hS"}},
		base{"limits-256-constants", c06fFilterFile("", "\ts := ctx.Type.String()\n"+c06fRep(256, func(i int) string { return fmt.Sprintf("\tif s == \"k%d\" {\n\t\treturn true\n\t}\n", i) })+"\treturn false"), []string{"flt"}},
		base{"loop-and-calls", c06fFilterFile("func hlp(a int, s string, _ int, _ string) int {\n\tn := a\n\tfor n > 0 {\n\t\tn--\n\t\tif n == 3 {\n\t\t\tbreak\n\t\t}\n\t}\n\treturn hI(n, hS(s)) - 1\n}", "\tt := ctx.Type\n\treturn hlp(ctx.SizeOf(t), t.String(), 1, `a`) == 1 || types.Implements(t, ctx.GetInterface(`error`))"), []string{"hlp", "flt"}},
		base{"no-functions", c06aRuleFile(nil, `m["x"].Pure`), []string{"flt", "r"}},
		base{"implements-stdlib", c06aRuleFile(nil, `m["x"].Type.Implements("io.Reader") && m["x"].Type.Implements("io.Reader")`), []string{"r"}},
		base{"implements-missing-package", c06aRuleFile([]string{"no/such/pkgpath"}, `m["x"].Type.Implements("pkgpath.T")`), []string{"r"}},
		base{"does-not-type-check", c06aHead + "func r(m dsl.Matcher) {\n\tm.Match(undefinedName).Report(`x`)\n}\n", []string{"r"}},
		base{"imports-missing-package", "package gorules\n\nimport (\n\t\"github.com/quasilyte/go-ruleguard/dsl\"\n\t\"no/such/pkg\"\n)\n\nvar _ = pkg.X\n\nfunc r(m dsl.Matcher) {\n\tm.Match(`f($x)`).Report(`x`)\n}\n", []string{"r"}},
	)
	for _, b := range bases {
		bi := len(out)
		out = append(out, &c06aCase{mode: "settings", kind: b.kind + ":plain", base: -1, job: &c06xJob{Src: b.src}})
		fn := b.funcs[r.Intn(len(b.funcs))]
		for _, name := range b.funcs {
			if strings.Contains(b.src, "func "+name+"(") { // the function under test, when the file has it
				fn = name
				break
			}
		}
		out = append(out, &c06aCase{mode: "settings", kind: b.kind + ":DebugFunc", base: bi, job: &c06xJob{Src: b.src, DebugFunc: fn}})
		out = append(out, &c06aCase{mode: "settings", kind: b.kind + ":DebugFunc-no-such-function", base: bi, job: &c06xJob{Src: b.src, DebugFunc: "noSuchFunction"}})
		out = append(out, &c06aCase{mode: "settings", kind: b.kind + ":DebugImports", base: bi, job: &c06xJob{Src: b.src, DebugImports: true}})
		out = append(out, &c06aCase{mode: "settings", kind: b.kind + ":DebugFunc+DebugImports", base: bi, job: &c06xJob{Src: b.src, DebugFunc: b.funcs[r.Intn(len(b.funcs))], DebugImports: true}})
	}
	return out
}

// c06ArgCases: the argument stream
func c06ArgCases(c *Ctx) []*c06aCase {
	r := hx.Rng(c.Seed, "c06-args")
	nArg := 60
	if c.Thorough {
		nArg = 1500
	}
	var cases []*c06aCase
	cases = append(cases, c06aArgCases(r, nArg)...)
	cases = append(cases, c06aConvCases()...)
	cases = append(cases, c06aBundleCases(c.Thorough)...)
	cases = append(cases, c06aDeclCases()...)
	off := len(cases)
	for _, cs := range c06aSettingsCases(r, c.Thorough) {
		if cs.base >= 0 {
			cs.base += off
		}
		cases = append(cases, cs)
	}
	return cases
}

// c06ArgsJudge: the property on the answers of the argument stream
func c06ArgsJudge(c *Ctx, cases []*c06aCase, outs []*c06xOut) {
	res := c.Res
	first := func(o *c06xOut) string {
		if o.Load[0] != "" {
			return o.Load[0]
		}
		return o.IR[0]
	}
	for i, cs := range cases {
		out := outs[i]
		in := map[string]interface{}{"rules_src": cs.job.Src, "mode": cs.mode, "kind": cs.kind}
		if cs.job.DebugFunc != "" {
			in["LoadContext.DebugFunc"] = cs.job.DebugFunc
		}
		if cs.job.DebugImports {
			in["LoadContext.DebugImports"] = true
		}
		if cs.job.Bundles != nil {
			in["ir.File.BundleImports"] = cs.job.Bundles
			in["entry_point"] = "LoadFromIR of the converted source with these bundle imports"
		}
		if cs.job.DeclsSet {
			in["ir.File.CustomDecls"] = cs.job.Decls
			in["entry_point"] = "LoadFromIR of the converted source with these custom declarations"
		}
		res.Count("args-"+cs.mode, cs.kind+"\x00"+cs.job.Src+fmt.Sprint(cs.job.Bundles, cs.job.Decls, cs.job.DebugFunc, cs.job.DebugImports), true)
		var cls string
		if cs.mode == "ir-decls" && out.Died == "" && strings.HasPrefix(out.IR[0], "panic ") && cs.kind != "as-converted" && cs.kind != "refused-function" {
			// IR that no conversion produces: recorded, not judged
			cls = "panic-on-malformed-ir"
			f := strings.Fields(out.IR[0])
			res.Dist("args:ir-decls:malformed:panic " + f[1] + "@" + f[2])
		} else {
			cls = c06xJudge(res, "args:"+cs.mode, cs.job, out, in)
		}
		kind := cs.kind
		if cs.mode == "arg" && i >= len(c06aIfaceForms)+len(c06aFuncForms) && !strings.Contains(kind, ":fixed:") {
			kind = strings.SplitN(kind, ":", 2)[0] + ":random-parts"
		}
		res.Dist("args:" + cs.mode + ":" + kind + ":" + cls)
		if out.Died != "" {
			continue
		}
		if cls == "rejected-located" || cls == "rejected-unlocated" {
			res.Dist("args:refusal:" + c06xErrKey(first(out)))
		}
		if cs.mode != "settings" {
			continue
		}
		for _, cl := range out.Imp {
			res.Dist("args:settings:DebugImports-line:" + cl)
		}
		if cs.job.DebugFunc != "" {
			switch {
			case out.Disasm:
				res.Dist("args:settings:DebugFunc:disassembly-printed")
			default:
				res.Dist("args:settings:DebugFunc:nothing-printed:" + cls)
			}
		}
		if cs.base >= 0 && outs[cs.base].Died == "" {
			b := outs[cs.base]
			for k, pair := range [][2]string{{b.Load[0], out.Load[0]}, {b.IR[0], out.IR[0]}} {
				if pair[0] == "" || pair[1] == "" {
					continue
				}
				if c06xVerdict(pair[0]) != c06xVerdict(pair[1]) {
					res.Dist("args:settings:VERDICT-CHANGES")
					res.Violate(hx.Violation{Signature: "load:debug-settings-change-the-verdict", What: fmt.Sprintf("%s of the same file with and without the debug settings of LoadContext: %s  ///  %s", []string{"Load", "LoadFromIR"}[k], clip(pair[0]), clip(pair[1])),
						Input: in, Impl: clip(pair[1]), Spec: clip(pair[0])})
				} else {
					res.Dist("args:settings:same-verdict-as-without")
				}
			}
		}
	}
}
