package main

// C06, class streams (source level, real DSL): inputs whose interesting part is a *combination* that neither the
// IR generator nor token mutation reaches with useful probability.
//
//	(K1) comparisons between two variables x several Match()/MatchComment() alternatives that bind different subsets:
//	     Load must reject what some alternative leaves unbound; what it accepts is judged by the soundness oracle
//	     (spec06.unsound on the converted IR) and compared with the loader model;
//	(K2) group-local helpers whose bodies use named string constants (package-level and function-local) wherever the
//	     DSL takes a string; with and without parameters, nested: success or a located error, never a panic;
//	(K3) type strings with interface types of every element count and kind at any depth, at every position that parses
//	     a type pattern or a type: success or a located error, never a panic (source level here, IR level in c06.go).

import (
	"fmt"
	"math/rand"
	"os"
	"strings"

	"verifharness/hx"
)

// ---- K1 -----------------------------------------------------------------------------------------------------------

type c06CmpCase struct {
	src   string
	label string
}

var (
	c06CmpKinds = []struct{ name, sel string }{{"Line", ".Line"}, {"Text", ".Text"}, {"Type.Size", ".Type.Size"}, {"Value.Int", ".Value.Int()"}}
	// alternatives: which of x, y each pattern binds
	c06CmpAlts = []struct {
		name    string
		comment bool
		pats    []string
	}{
		{"both", false, []string{"f($x, $y)"}},
		{"y-missing-in-2nd", false, []string{"f($x, $y)", "g($x)"}},
		{"x-missing-in-1st", false, []string{"g($y)", "f($x, $y)"}},
		{"x-missing-in-3rd", false, []string{"f($x, $y)", "g($x, $y)", "h($y)"}},
		{"each-missing-somewhere", false, []string{"f($x)", "g($y)"}},
		{"both-in-both", false, []string{"f($x, $y)", "g($y, $x)"}},
		{"y-missing-in-last-of-4", false, []string{"f($x, $y)", "$x + $y", "$x = $y", "return $x"}},
		{"comment-both", true, []string{`(?P<x>a)(?P<y>b)`}},
		{"comment-y-missing-in-2nd", true, []string{`(?P<x>a)(?P<y>b)`, `(?P<x>a+)`}},
		{"comment-x-missing-in-1st", true, []string{`(?P<y>b+)`, `(?P<y>b)(?P<x>a)`}},
	}
	c06CmpWraps = []string{"%s", "!(%s)", "%s && m[\"x\"].Pure", "m[\"y\"].Const || %s", "(%s)", "%s && %s"}
)

// c06CmpCases enumerates the product (operator x operand kind x variable pair x alternatives x wrapper x At) and
// samples n of it (all of it when n is larger)
func c06CmpCases(r *rand.Rand, n int) []c06CmpCase {
	var all []c06CmpCase
	vars := [][2]string{{"x", "y"}, {"y", "x"}, {"x", "x"}, {"y", "y"}}
	for _, op := range c06LookCmpOps {
		for ki, k := range c06CmpKinds {
			for _, vp := range vars {
				for _, alt := range c06CmpAlts {
					for wi, wrap := range c06CmpWraps {
						rhsKind := k
						if wi == 4 && ki != 1 {
							// mixed kinds of the same Go type (int): "unsupported binary expr"
							rhsKind = c06CmpKinds[map[int]int{0: 2, 2: 3, 3: 0}[ki]]
						}
						cmp := fmt.Sprintf(`m["%s"]%s %s m["%s"]%s`, vp[0], k.sel, op, vp[1], rhsKind.sel)
						if alt.comment && (k.name == "Type.Size" || k.name == "Value.Int") {
							continue // comment rules have no typed captures: keep to Text/Line
						}
						where := strings.ReplaceAll(wrap, "%s", cmp)
						all = append(all, c06CmpCase{label: fmt.Sprintf("%s/%s/%s%s/%s/w%d", op, k.name, vp[0], vp[1], alt.name, wi), src: c06CmpFile(alt.pats, alt.comment, where, "")})
					}
				}
			}
		}
	}
	// At() over a variable an alternative leaves unbound, constants on either side, one variable against a constant
	for _, alt := range c06CmpAlts {
		for _, v := range []string{"x", "y"} {
			all = append(all, c06CmpCase{label: "at/" + v + "/" + alt.name, src: c06CmpFile(alt.pats, alt.comment, `m["x"].Line == m["x"].Line`, v)})
			for _, w := range []string{`3 == m["%s"].Line`, `m["%s"].Text != "a"`, `"a" == m["%s"].Text`, `m["%s"].Line > 3`} {
				all = append(all, c06CmpCase{label: "const/" + v + "/" + alt.name, src: c06CmpFile(alt.pats, alt.comment, fmt.Sprintf(w, v), "")})
			}
		}
	}
	if n >= len(all) {
		return all
	}
	r.Shuffle(len(all), func(i, j int) { all[i], all[j] = all[j], all[i] })
	return all[:n]
}

func c06CmpFile(pats []string, comment bool, where, at string) string {
	var qs []string
	for _, p := range pats {
		qs = append(qs, "`"+p+"`")
	}
	call := "Match"
	if comment {
		call = "MatchComment"
	}
	s := "func r(m dsl.Matcher) {\n\tm." + call + "(" + strings.Join(qs, ",\n\t\t") + ").\n\t\tWhere(" + where + ")"
	if at != "" {
		s += ".\n\t\tAt(m[\"" + at + "\"])"
	}
	return hx.RulesFile(s + ".\n\t\tReport(`r`)\n}\n")
}

// c06JudgeSources: every source through Engine.Load under recover (panic / hang / unlocated error = violation); the IR
// the real irconv makes of it through the real LoadFromIR vs the loader model; what Load accepts through the
// soundness oracle.  The violation carries the rules file.
func c06JudgeSources(c *Ctx, suite string, cases []c06CmpCase) error {
	res := c.Res
	orc := &c06Oracles{probeCache: map[string]int{}}
	strict := "1"
	if os.Getenv("VERIF_C06_ASIS") != "" {
		strict = "0"
	}
	all := func(string) bool { return true }
	var ops, impl, unsoundOps []string
	var inputs, unsoundInputs []interface{}
	for i, cs := range cases {
		out := c06LoadOutcome(cs.src)
		cls := strings.Fields(out)[0]
		in := map[string]interface{}{"rules_src": cs.src, "class": cs.label}
		res.Count(suite, cs.src, true)
		res.Dist(suite + ":load:" + cls)
		c06LookViolate(res, out, in)
		if os.Getenv("VERIF_C06_DEBUG") != "" {
			fmt.Fprintf(os.Stderr, "%s [%s] %s\n", suite, cs.label, clip(out))
		}
		if i == 0 {
			res.Sample(map[string]interface{}{suite + "_rules_src": cs.src, "outcome": clip(out)})
		}
		f, err := c06Convert([]byte(cs.src))
		if err != nil {
			if cls == "ok" {
				res.Errorf("%s: Engine.Load accepts a file the harness's own parse+typecheck+irconv rejects (%v): %s", suite, err, cs.label)
			}
			continue
		}
		lout, _ := c06Load(f, all)
		if (cls == "ok") != strings.HasPrefix(lout, "ok") && !strings.HasPrefix(out, "PANIC") {
			res.Errorf("%s: Engine.Load (%s) and LoadFromIR on the converted file (%s) disagree for %s", suite, clip(out), lout, cs.label)
		}
		arg := "(" + c06File(f) + " " + orc.render(f, all, nil) + ")"
		ops = append(ops, "loader.load "+strict+" "+arg)
		impl = append(impl, lout)
		inputs = append(inputs, in)
		if strings.HasPrefix(lout, "ok") {
			unsoundOps = append(unsoundOps, "spec06.unsound "+arg)
			unsoundInputs = append(unsoundInputs, in)
		}
	}
	if err := res.Compare(c.Drv, suite, ops, impl, inputs); err != nil {
		return err
	}
	uns, err := c.Drv.Ask(unsoundOps)
	if err != nil {
		return err
	}
	for k, a := range uns {
		if strings.TrimSpace(a) != "ok" {
			res.Violate(hx.Violation{Signature: "load:accepts-unbound-variable", What: "Load accepts a rule whose Where/At variable is not bound by every alternative: " + a,
				Input: unsoundInputs[k], Impl: "loaded", Spec: "load error naming the rule's line"})
		}
	}
	return nil
}

// ---- K2 -----------------------------------------------------------------------------------------------------------

// c06HelperConstFile: helpers over named constants
func c06HelperConstFile(r *rand.Rand) (string, []string) {
	pick := func(xs ...string) string { return xs[r.Intn(len(xs))] }
	var kinds []string
	var sb strings.Builder
	sb.WriteString("const (\n\tpkgC  = \"fmt\"\n\tvarC  = \"x\"\n\tverC  = \"1.16\"\n\treC   = \"a.*b\"\n\ttypeC = \"[]$t\"\n\tmsgC  = \"msg $x\"\n\tsugC  = \"g($x)\"\n\tnodeC = \"CallExpr\"\n\tcatC  = \"f\" + \"mt\"\n)\n\n")
	sb.WriteString("type myStr string\n\nconst typedC myStr = \"int\"\n\nconst strTypedC string = \"io.Reader\"\n\n")
	sb.WriteString("func r(m dsl.Matcher) {\n")
	local := r.Intn(2) == 0
	if local {
		sb.WriteString("\tconst (\n\t\tlocVar = \"x\"\n\t\tlocPkg = \"strings\"\n\t\tlocRe  = `^x`\n\t\tlocTy  = \"error\"\n\t)\n")
		kinds = append(kinds, "const/function-local")
	}
	strName := func() string {
		if local && r.Intn(2) == 0 {
			return pick("locVar", "locPkg", "locRe", "locTy")
		}
		return pick("pkgC", "varC", "verC", "reC", "typeC", "nodeC", "catC", "strTypedC", "string(typedC)", `"x"`, "`int`", `"fmt"`, `"1.16"`, "(pkgC)", "pkgC + reC")
	}
	// atoms of a helper body: string positions filled with constant names; `v` = a dsl.Var parameter or m[const]
	atom := func(v string, sparam string) string {
		s := strName()
		if sparam != "" && r.Intn(3) == 0 {
			s = sparam
		}
		switch r.Intn(14) {
		case 0:
			return "m.File().Imports(" + s + ")"
		case 1:
			return "m[" + s + "].Pure"
		case 2:
			return "m.GoVersion()." + pick("LessThan", "Eq", "GreaterEqThan", "GreaterThan", "LessEqThan") + "(" + s + ")"
		case 3:
			return v + ".Text.Matches(" + s + ")"
		case 4:
			return v + ".Type." + pick("Is", "Underlying().Is", "ConvertibleTo", "AssignableTo", "Implements", "HasMethod", "OfKind") + "(" + s + ")"
		case 5:
			return v + ".Node.Is(" + s + ")"
		case 6:
			return v + ".Object.Is(" + s + ")"
		case 7:
			return v + ".Contains(" + s + ")"
		case 8:
			return v + ".Text == " + pick("pkgC", "varC", "catC", `"lit"`, "reC + verC")
		case 9:
			return "m.File().PkgPath.Matches(" + s + ")"
		case 10:
			return "m.File().Name.Matches(" + s + ")"
		case 11:
			return v + ".Type.IdenticalTo(m[" + s + "])"
		case 12:
			return "m[\"$$\"].SinkType.Is(" + s + ")"
		default:
			return v + ".Const"
		}
	}
	body := func(v, sparam string) string {
		n := 1 + r.Intn(3)
		var as []string
		for i := 0; i < n; i++ {
			a := atom(v, sparam)
			if r.Intn(5) == 0 {
				a = "!(" + a + ")"
			}
			as = append(as, a)
		}
		return strings.Join(as, pick(" && ", " || "))
	}
	var call string
	switch r.Intn(4) {
	case 0: // no parameters
		fmt.Fprintf(&sb, "\th := func() bool { return %s }\n", body(`m["x"]`, ""))
		call = "h()"
		kinds = append(kinds, "helper/no-params")
	case 1: // a dsl.Var parameter
		fmt.Fprintf(&sb, "\th := func(v dsl.Var) bool { return %s }\n", body("v", ""))
		call = "h(" + pick(`m["x"]`, `m["x"]`, `m["y"]`, "m[varC]", `(m["x"])`) + ")"
		kinds = append(kinds, "helper/var-param")
	case 2: // a dsl.Var and a string parameter; the string argument is a named constant
		fmt.Fprintf(&sb, "\th := func(v dsl.Var, s string) bool { return %s }\n", body("v", "s"))
		call = "h(" + pick(`m["x"]`, `m["x"]`, `m["x"]`, "m[varC]") + ", " + pick(strName(), "pkgC", "typeC", "reC", `"int"`, "`a`") + ")"
		kinds = append(kinds, "helper/var+string-param")
	default: // nested helpers
		fmt.Fprintf(&sb, "\th0 := func(v dsl.Var) bool { return %s }\n", body("v", ""))
		fmt.Fprintf(&sb, "\th := func(w dsl.Var, s string) bool { return h0(w) %s %s }\n", pick("&&", "||"), body("w", "s"))
		call = "h(" + pick(`m["x"]`, `m["x"]`, `m["x"]`, "m[varC]") + ", " + pick(strName(), "pkgC", "typeC", "reC", `"int"`, "`a`") + ")"
		kinds = append(kinds, "helper/nested")
	}
	pat := pick("`f($x)`", "patC", "`f($x, $y)`", "`f(` + `$x)`")
	if pat == "patC" {
		sb.WriteString("\tconst patC = \"f($x)\"\n")
	}
	chain := "m.Match(" + pat + ").Where(" + call + ")"
	if r.Intn(4) == 0 {
		chain += ".At(m[" + pick("varC", `"x"`, "locVarOrX") + "])"
		chain = strings.Replace(chain, "locVarOrX", map[bool]string{true: "locVar", false: `"x"`}[local], 1)
	}
	switch r.Intn(4) {
	case 0:
		chain += ".Report(msgC)"
		kinds = append(kinds, "template/named-const")
	case 1:
		chain += ".Suggest(sugC)"
		kinds = append(kinds, "template/named-const")
	case 2:
		chain += ".Suggest(sugC).Report(msgC + \"!\")"
		kinds = append(kinds, "template/named-const")
	default:
		chain += ".Report(`r`)"
	}
	sb.WriteString("\t" + chain + "\n}\n")
	return hx.RulesFile(sb.String()), kinds
}

// ---- K3 -----------------------------------------------------------------------------------------------------------

// c06TypeString: a type pattern / type string; interface types of every element count and kind at any depth
func c06TypeString(r *rand.Rand, depth int) string {
	pick := func(xs ...string) string { return xs[r.Intn(len(xs))] }
	iface := func() string {
		elem := func() string {
			switch r.Intn(12) {
			case 0:
				return "$*_"
			case 1:
				return "Stringer"
			case 2:
				return "fmt.Stringer"
			case 3:
				return "any"
			case 4:
				return "~int"
			case 5:
				return "int | string"
			case 6:
				return "error"
			case 7:
				return "String() string"
			case 8:
				return "Read(p []byte) (n int, err error)"
			case 9:
				return "$_"
			case 10:
				return "~[]" + pick("int", "$t", "interface{}")
			default:
				return "M(" + pick("", "int", "interface{ $*_ }", "$x") + ")"
			}
		}
		n := []int{0, 1, 1, 1, 2, 2, 3}[r.Intn(7)]
		var es []string
		for i := 0; i < n; i++ {
			es = append(es, elem())
		}
		if n == 0 {
			return pick("interface{}", "interface {}", "interface{ }")
		}
		return "interface{ " + strings.Join(es, "; ") + " }"
	}
	if depth <= 0 || r.Intn(3) == 0 {
		if r.Intn(2) == 0 {
			return iface()
		}
		return pick("int", "string", "$t", "error", "io.Reader", "any", "[]byte", "struct{}", "struct{ $*_ }", "nosuch.T", "$_")
	}
	t := func() string { return c06TypeString(r, depth-1) }
	switch r.Intn(9) {
	case 0:
		return "[]" + t()
	case 1:
		return "map[" + t() + "]" + t()
	case 2:
		return "*" + t()
	case 3:
		return "func(" + t() + ") " + t()
	case 4:
		return "func(" + t() + ", " + t() + ") (" + t() + ", error)"
	case 5:
		return "chan " + t()
	case 6:
		return "[" + pick("4", "$n", "...") + "]" + t()
	case 7:
		return "struct{ " + pick("x", "$_", "F") + " " + t() + " }"
	default:
		return "(" + t() + ")"
	}
}

func c06TypeStringFile(r *rand.Rand) (string, string) {
	ts := c06TypeString(r, 1+r.Intn(3))
	q := "`" + ts + "`"
	pos := []string{`m["x"].Type.Is(%s)`, `m["x"].Type.Underlying().Is(%s)`, `m["$$"].SinkType.Is(%s)`, `m["x"].Type.ConvertibleTo(%s)`,
		`m["x"].Type.AssignableTo(%s)`, `m["x"].Type.Implements(%s)`, `!m["x"].Type.Is(%s) && m["x"].Type.Underlying().Is(%s)`}
	w := strings.ReplaceAll(pos[r.Intn(len(pos))], "%s", q)
	imp := ""
	if strings.Contains(ts, "fmt.") || strings.Contains(ts, "io.") {
		if r.Intn(3) != 0 {
			imp = "\tm.Import(`fmt`)\n\tm.Import(`io`)\n"
		}
	}
	return hx.RulesFile("func r(m dsl.Matcher) {\n" + imp + "\tm.Match(`f($x)`).Where(" + w + ").Report(`r`)\n}\n"), ts
}

// ---- driver ---------------------------------------------------------------------------------------------------------

func c06Classes(c *Ctx) error {
	res := c.Res
	nCmp, nHelper, nType := 140, 100, 150
	if c.Thorough {
		nCmp, nHelper, nType = 2500, 1000, 2000 // K1: half of the product (4996 cases)
	}
	if err := c06JudgeSources(c, "cmp-alternatives", c06CmpCases(hx.Rng(c.Seed, "c06-cmp"), nCmp)); err != nil {
		return err
	}
	r := hx.Rng(c.Seed, "c06-helper-const")
	var hs []c06CmpCase
	for i := 0; i < nHelper; i++ {
		src, kinds := c06HelperConstFile(r)
		hs = append(hs, c06CmpCase{src: src, label: strings.Join(kinds, ",")})
		for _, k := range kinds {
			res.Dist("helper-const:class:" + k)
		}
	}
	if err := c06JudgeSources(c, "helper-const", hs); err != nil {
		return err
	}
	r = hx.Rng(c.Seed, "c06-type-strings")
	var ts []c06CmpCase
	for i := 0; i < nType; i++ {
		src, t := c06TypeStringFile(r)
		ts = append(ts, c06CmpCase{src: src, label: t})
		n := strings.Count(t, "interface")
		res.Dist(fmt.Sprintf("type-string:interfaces=%d", n))
	}
	return c06JudgeSources(c, "type-string", ts)
}
