package main

import (
	"fmt"
	"os"
	"strings"

	"golang.org/x/tools/go/ssa"
)

// debugCallPath prints one call-graph path from a function whose name contains `from` to one whose name contains `to`.
func debugCallPath(from, to string) {
	p, err := loadProgram()
	if err != nil {
		fmt.Fprintln(os.Stderr, err)
		return
	}
	var start []*ssa.Function
	for f := range p.cg.Nodes {
		if f != nil && strings.Contains(f.String(), from) {
			start = append(start, f)
		}
	}
	prev := map[*ssa.Function]*ssa.Function{}
	queue := append([]*ssa.Function{}, start...)
	for _, s := range start {
		prev[s] = s
	}
	for len(queue) > 0 {
		f := queue[0]
		queue = queue[1:]
		if strings.Contains(f.String(), to) && prev[f] != f {
			for g := f; ; g = prev[g] {
				fmt.Println("  ", g.String())
				if prev[g] == g {
					return
				}
			}
		}
		for _, e := range p.cg.Nodes[f].Out {
			c := e.Callee.Func
			if _, ok := prev[c]; !ok {
				prev[c] = f
				queue = append(queue, c)
			}
		}
	}
	fmt.Println("no path")
}
