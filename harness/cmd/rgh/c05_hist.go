package main

// C05 end to end, load histories: generators of the histories (1..3 rules files per engine, package
// clauses other than gorules, per-file custom function names and bodies, files that compete for the
// same nodes, colliding group names), the distribution record and the shrinker of a failing history.

import (
	"fmt"
	"go/ast"
	"go/parser"
	"go/token"
	"go/types"
	"regexp"
	"sort"
	"strings"
	"time"

	"github.com/quasilyte/go-ruleguard/ruleguard/ir"
	"verifharness/hx"
)

// package clauses of rules files: nothing in ruleguard asks for `gorules`
var c05PkgNames = []string{"rules", "myrules", "lint", "p", "main", "gorules_v2", "ruleguard", "Rules"}

// suffixes of the custom function names of a file; files of one engine share a name when they draw the same suffix
var c05FnSuffixes = []string{"", "", "2", "_b", "X"}

var c05CustomFuncNames = []string{"isIntType", "hasLongText", "reportText", "doTag"}

// c05HeaderFor: c05RulesHeader with the package clause, the bodies and the reported text of the custom
// functions varied (the zero options give c05RulesHeader itself).
func c05HeaderFor(o rulesOpts) string {
	h := c05RulesHeader
	if o.pkg != "" && o.pkg != "gorules" {
		h = strings.Replace(h, "package gorules\n", "package "+o.pkg+"\n", 1)
	}
	if o.noStrings {
		h = strings.Replace(h, "\t\"strings\"\n\n", "", 1)
		h = strings.Replace(h, `strings.TrimPrefix(ctx.Type.String(), "*")`, `ctx.Type.String()`, 1)
	}
	switch o.variant {
	case 1:
		h = strings.Replace(h, `ctx.GetType("int")`, `ctx.GetType("string")`, 1)
		h = strings.Replace(h, `> 3`, `> 5`, 1)
	case 2: // a custom function calling another one of its file
		h = strings.Replace(h, `types.Identical(ctx.Type, ctx.GetType("int"))`, `types.Identical(ctx.Type.Underlying(), ctx.GetType("int"))`, 1)
		h = strings.Replace(h, `> 3`, `> 2`, 1)
		h = strings.Replace(h, "func reportText(ctx *dsl.DoContext) {\n\tctx.SetReport(\"do: \" + ctx.Var(\"x\").Text())\n}\n",
			"func doTag() string { return \"do: \" }\n\nfunc reportText(ctx *dsl.DoContext) {\n\ts := doTag()\n\tctx.SetReport(s + ctx.Var(\"x\").Text())\n}\n", 1)
	}
	if o.tag != "" {
		h = strings.Replace(h, `"do: "`, `"do`+o.tag+`: "`, 1)
	}
	return h
}

func c05RenameFuncs(src, suffix string) string {
	if suffix == "" {
		return src
	}
	var pairs []string
	for _, n := range c05CustomFuncNames {
		pairs = append(pairs, n, n+suffix)
	}
	return strings.NewReplacer(pairs...).Replace(src)
}

var c05PkgClauseRe = regexp.MustCompile(`(?m)^package[ \t]+(\w+)`)

func c05PkgClause(src string) string {
	m := c05PkgClauseRe.FindStringSubmatch(src)
	if m == nil {
		return ""
	}
	return m[1]
}

// c05Histories generates n load histories over generated rules files.
func c05Histories(c *Ctx, n int, genTarget *hx.Target) []*e2eJob {
	r := hx.Rng(c.Seed, "c05-histories")
	g := &rulesGen{r: r, res: c.Res}
	var jobs []*e2eJob
	for hi := 0; hi < n; hi++ {
		nf := 1 + r.Intn(3)
		mode := r.Intn(4)
		var traits []string
		var pool []string
		switch mode {
		case 1, 2: // the files draw their patterns from a small common pool and mostly have no Where: they compete for nodes
			perm := r.Perm(len(c05Patterns))
			for _, k := range perm[:1+r.Intn(3)] {
				pool = append(pool, c05Patterns[k])
			}
			traits = append(traits, "common-pattern-pool")
		}
		if mode >= 2 {
			traits = append(traits, "custom-func-bias")
		}
		sameName := r.Intn(8) == 0
		// a file with dsl.ImportRules comes first when there is one: Load of such a file into an engine that
		// has loaded anything before is the business of c05BundleAfterHistories
		bundleAt := -1
		if r.Intn(10) == 0 {
			bundleAt = 0
			traits = append(traits, "bundle-import-first")
		}
		j := &e2eJob{name: fmt.Sprintf("history#%d", hi), kind: "history", targets: []*hx.Target{genTarget},
			goVersion: []string{"", "1.16", "1.20"}[r.Intn(3)]}
		prevIdx := -1
		suffixes := map[string]bool{}
		for fi := 0; fi < nf; fi++ {
			filename := fmt.Sprintf("rules_%c.go", 'a'+fi)
			if sameName {
				filename = "rules.go"
			}
			if fi == bundleAt {
				j.files = append(j.files, e2eSrc{filename, c05BundleRules([]string{"pfx", "", "a/b"}[r.Intn(3)], fmt.Sprintf("own%d", fi))})
				continue
			}
			idx := 1000 + hi*3 + fi
			if prevIdx >= 0 && r.Intn(10) == 0 { // group names of an earlier file again: the later load call must fail in both engines
				idx = prevIdx
				traits = append(traits, "group-name-collision")
			}
			prevIdx = idx
			o := rulesOpts{patterns: pool, fewFilters: mode == 1 || mode == 2, customBias: mode >= 2,
				variant: r.Intn(3), tag: fmt.Sprint(fi), fnSuffix: c05FnSuffixes[r.Intn(len(c05FnSuffixes))], noStrings: r.Intn(5) != 0}
			if r.Intn(2) == 0 {
				o.pkg = c05PkgNames[r.Intn(len(c05PkgNames))]
			}
			if suffixes[o.fnSuffix] {
				traits = append(traits, "shared-custom-func-names")
			}
			suffixes[o.fnSuffix] = true
			g.opt = o
			j.files = append(j.files, e2eSrc{filename, g.file(idx)})
		}
		g.opt = rulesOpts{}
		if sameName && nf > 1 {
			traits = append(traits, "same-file-name")
		}
		j.traits = traits
		jobs = append(jobs, j)
	}
	return jobs
}

// c05BundleAfterHistories: a file with dsl.ImportRules loaded into an engine that has already loaded a
// file (generated, any package clause) or another bundle-importing file.
func c05BundleAfterHistories(c *Ctx, genTarget *hx.Target) []*e2eJob {
	r := hx.Rng(c.Seed, "c05-bundle-after")
	g := &rulesGen{r: r, res: c.Res}
	var jobs []*e2eJob
	n := 3
	if c.Thorough {
		n = 24
	}
	for hi := 0; hi < n; hi++ {
		j := &e2eJob{name: fmt.Sprintf("bundle-after#%d", hi), kind: "history", targets: []*hx.Target{genTarget}, traits: []string{"bundle-import-after-earlier-load"}}
		prefixes := []string{"pfx", "", "a/b"}
		if hi%3 == 2 {
			j.files = append(j.files, e2eSrc{"rules_a.go", c05BundleRules(prefixes[r.Intn(3)], "own0")})
		} else {
			g.opt = rulesOpts{variant: r.Intn(3), tag: "0", fnSuffix: c05FnSuffixes[r.Intn(len(c05FnSuffixes))], noStrings: true}
			if r.Intn(2) == 0 {
				g.opt.pkg = c05PkgNames[r.Intn(len(c05PkgNames))]
			}
			j.files = append(j.files, e2eSrc{"rules_a.go", g.file(5000 + hi)})
		}
		j.files = append(j.files, e2eSrc{"rules_b.go", c05BundleRules(prefixes[r.Intn(3)], "own1")})
		jobs = append(jobs, j)
	}
	return jobs
}

// c05FixtureHistories: 2..3 of the fixture rules files in one engine, run on the union of their targets.
func c05FixtureHistories(c *Ctx, n int, fixtures []*e2eJob) []*e2eJob {
	r := hx.Rng(c.Seed, "c05-fixture-histories")
	var jobs []*e2eJob
	if len(fixtures) < 3 {
		return nil
	}
	for hi := 0; hi < n; hi++ {
		nf := 2 + r.Intn(2)
		perm := r.Perm(len(fixtures))[:nf]
		j := &e2eJob{name: fmt.Sprintf("fixture-history#%d", hi), kind: "fixture-history"}
		seen := map[*hx.Target]bool{}
		var names []string
		for _, k := range perm {
			f := fixtures[k]
			rel := strings.TrimPrefix(f.name, "fixture:")
			names = append(names, rel)
			j.files = append(j.files, e2eSrc{strings.ReplaceAll(rel, "/", "_"), f.files[0].src})
			for _, t := range f.targets {
				if !seen[t] {
					seen[t] = true
					j.targets = append(j.targets, t)
				}
			}
		}
		j.name += ":" + strings.Join(names, "+")
		jobs = append(jobs, j)
	}
	return jobs
}

func c05UsesCustomFunc(f *ir.File) bool {
	var walk func(e *ir.FilterExpr) bool
	walk = func(e *ir.FilterExpr) bool {
		if e.Op.String() == "VarFilter" {
			return true
		}
		for i := range e.Args {
			if walk(&e.Args[i]) {
				return true
			}
		}
		return false
	}
	for _, g := range f.RuleGroups {
		for i := range g.Rules {
			if g.Rules[i].DoFuncName != "" || walk(&g.Rules[i].WhereExpr) {
				return true
			}
		}
	}
	return false
}

// c05HistoryDist records which input classes a history belongs to (Dist keys `history:…`).
func c05HistoryDist(res *hx.Result, j *e2eJob, o *e2eLoaded, v *e2eVerdict) {
	if j.kind != "history" && j.kind != "fixture-history" {
		// single-file jobs of the older streams: only the class the brief of C05 names
		for i, f := range j.files {
			if c05PkgClause(f.src) != "gorules" && o.steps[i].irf != nil && c05UsesCustomFunc(o.steps[i].irf) {
				res.Dist("history:file:package-not-gorules+custom-func")
			}
		}
		return
	}
	res.Dist(fmt.Sprintf("history:%s:files=%d", j.kind, len(j.files)))
	for _, t := range j.traits {
		res.Dist("history:trait:" + t)
	}
	nOther := 0
	for i, f := range j.files {
		custom := o.steps[i].irf != nil && c05UsesCustomFunc(o.steps[i].irf)
		other := c05PkgClause(f.src) != "gorules"
		switch {
		case other && custom:
			res.Dist("history:file:package-not-gorules+custom-func")
			nOther++
		case other:
			res.Dist("history:file:package-not-gorules")
			nOther++
		case custom:
			res.Dist("history:file:package-gorules+custom-func")
		default:
			res.Dist("history:file:package-gorules")
		}
	}
	if nOther > 0 && nOther < len(j.files) {
		res.Dist("history:mixed-package-clauses")
	}
	if v.someFail {
		res.Dist("history:some-load-call-fails-in-both")
	}
	if len(j.files) < 2 || !o.built {
		return
	}
	// nodes accepted by rules of two or more files: each file alone in a fresh engine, reported node spans collected
	accepted := map[string]int{}
	nOK := 0
	for _, e := range o.lone {
		if e == nil {
			continue
		}
		nOK++
		own := map[string]bool{}
		for _, t := range j.targets {
			reports, _, _, _ := hx.Run(e, t, hx.RunOpts{GoVersion: j.goVersion})
			for _, rp := range reports {
				own[fmt.Sprintf("%s|%d:%d", t.Name, rp.Pos, rp.End)] = true
			}
		}
		for k := range own {
			accepted[k]++
		}
	}
	if nOK < 2 {
		return
	}
	contested := 0
	for _, n := range accepted {
		if n > 1 {
			contested++
		}
	}
	switch {
	case contested == 0:
		res.Dist("history:contested-nodes:0")
	case contested <= 3:
		res.Dist("history:contested-nodes:1-3")
	default:
		res.Dist("history:contested-nodes:4+")
	}
}

// c05InputClass: the features a shrunk failing history still needs, as a signature suffix.
func c05InputClass(j *e2eJob) string {
	s := ""
	if len(j.files) > 1 {
		s += ":multi-file-engine"
	}
	for _, f := range j.files {
		if c05PkgClause(f.src) != "gorules" {
			s += ":package-clause-not-gorules"
			break
		}
	}
	for _, f := range j.files {
		if strings.Contains(f.src, ".ImportRules(") {
			s += ":bundle-import"
			break
		}
	}
	return s
}

type c05Span struct{ from, to int }

// c05TextCuts: byte spans whose removal leaves a syntactically valid file: whole top-level functions
// (with their doc comments) first, then single statements of function bodies.
func c05TextCuts(src string) []c05Span {
	fset := token.NewFileSet()
	f, err := parser.ParseFile(fset, "x.go", src, parser.ParseComments)
	if err != nil {
		return nil
	}
	off := func(p token.Pos) int { return fset.Position(p).Offset }
	ext := func(to int) int {
		for to < len(src) && src[to] == '\n' {
			to++
		}
		return to
	}
	var funcs, stmts []c05Span
	for _, d := range f.Decls {
		fd, ok := d.(*ast.FuncDecl)
		if !ok || fd.Body == nil {
			continue
		}
		from := off(fd.Pos())
		if fd.Doc != nil {
			from = off(fd.Doc.Pos())
		}
		funcs = append(funcs, c05Span{from, ext(off(fd.End()))})
		for _, st := range fd.Body.List {
			from := off(st.Pos())
			for from > 0 && (src[from-1] == '\t' || src[from-1] == ' ') {
				from--
			}
			stmts = append(stmts, c05Span{from, ext(off(st.End()))})
		}
	}
	sort.SliceStable(funcs, func(a, b int) bool { return funcs[a].to-funcs[a].from > funcs[b].to-funcs[b].from })
	return append(funcs, stmts...)
}

// c05ShrinkHistory greedily shrinks a failing history: fewer files (order kept), `package gorules`
// wherever the failure does not need another clause, one target, fewer functions and statements.  A
// candidate is kept when the two engines still fail the same way (same class, same base signature).
func c05ShrinkHistory(j *e2eJob, v e2eVerdict, imp types.Importer, fset *token.FileSet) (*e2eJob, e2eVerdict) {
	deadline := time.Now().Add(8 * time.Second)
	cur, curV := j, v
	try := func(cand *e2eJob) bool {
		if time.Now().After(deadline) {
			return false
		}
		cv := c05Judge(cand, c05LoadJob(cand, imp, fset, false))
		if cv.class == v.class && cv.sig == v.sig {
			cur, curV = cand, cv
			return true
		}
		return false
	}
	with := func(files []e2eSrc, targets []*hx.Target) *e2eJob {
		return &e2eJob{name: j.name, kind: j.kind, files: files, targets: targets, goVersion: j.goVersion, traits: j.traits}
	}
	for progress := true; progress && len(cur.files) > 1; {
		progress = false
		for i := range cur.files {
			files := append(append([]e2eSrc{}, cur.files[:i]...), cur.files[i+1:]...)
			if try(with(files, cur.targets)) {
				progress = true
				break
			}
		}
	}
	for i := range cur.files {
		if pc := c05PkgClause(cur.files[i].src); pc != "gorules" && pc != "" {
			files := append([]e2eSrc{}, cur.files...)
			loc := c05PkgClauseRe.FindStringIndex(files[i].src)
			files[i].src = files[i].src[:loc[0]] + "package gorules" + files[i].src[loc[1]:]
			try(with(files, cur.targets))
		}
	}
	if len(cur.targets) > 1 {
		for _, t := range cur.targets {
			if try(with(cur.files, []*hx.Target{t})) {
				break
			}
		}
	}
	// text level, file by file: every cut is tried once per pass on top of the cuts already made
	for progress := true; progress && time.Now().Before(deadline); {
		progress = false
		for i := range cur.files {
			orig := cur.files[i].src
			var done []c05Span
			without := func(spans []c05Span) string {
				sorted := append([]c05Span{}, spans...)
				sort.Slice(sorted, func(a, b int) bool { return sorted[a].from < sorted[b].from })
				var sb strings.Builder
				at := 0
				for _, sp := range sorted {
					sb.WriteString(orig[at:sp.from])
					at = sp.to
				}
				sb.WriteString(orig[at:])
				return sb.String()
			}
		cuts:
			for _, cut := range c05TextCuts(orig) {
				for _, d := range done {
					if cut.from < d.to && d.from < cut.to {
						continue cuts
					}
				}
				files := append([]e2eSrc{}, cur.files...)
				files[i].src = without(append(append([]c05Span{}, done...), cut))
				if try(with(files, cur.targets)) {
					done = append(done, cut)
					progress = true
				}
			}
		}
	}
	return cur, curV
}
