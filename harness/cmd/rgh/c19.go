package main

// C19 — the go/analysis adapter relays the engine faithfully.
//
// Flag configurations (rules lists with spaces, -e, -enable/-disable lists with spaces / unknown names /
// empty items, -go) are applied to the exported analyzer; hand-built analysis.Pass values (two files) are
// run 1–4 times sequentially or in parallel, with the rules file rewritten between passes (a reload would
// show); the process-wide cache is reset between configurations through the verif hook.  The diagnostics
// must equal the Lean model's `diagOf` of the reports of a direct Engine.Run whose GroupFilter is the
// model's `groupFilter`; the cache results must equal `prepareN`.

import (
	"fmt"
	"go/ast"
	"go/importer"
	"go/parser"
	"go/token"
	"go/types"
	"math/rand"
	"os"
	"path/filepath"
	"runtime"
	"sort"
	"strings"
	"sync"

	"golang.org/x/tools/go/analysis"

	"github.com/quasilyte/go-ruleguard/analyzer"
	"github.com/quasilyte/go-ruleguard/ruleguard"
	"verifharness/hx"
)

func init() { register("C19", runC19) }

const c19R1 = `package gorules

import "github.com/quasilyte/go-ruleguard/dsl"

func g1(m dsl.Matcher) {
	m.Match("probe($x)").Report("g1 saw $x")
}

func g2(m dsl.Matcher) {
	m.Match("other($s)").Report("g2 saw $s").Suggest("other2($s)")
}

func g3(m dsl.Matcher) {
	m.Match("$x + 1").Report("g3 inc").Suggest("$x++")
}
`

const c19R1b = `package gorules

import "github.com/quasilyte/go-ruleguard/dsl"

func g1(m dsl.Matcher) {
	m.Match("probe($x)").Report("REWRITTEN g1 saw $x")
}

func g9(m dsl.Matcher) {
	m.Match("other($s)").Report("REWRITTEN g9")
}
`

const c19R2 = `package gorules

import "github.com/quasilyte/go-ruleguard/dsl"

func h1(m dsl.Matcher) {
	m.Match("return $x").Report("h1 returns $x")
}

func h2(m dsl.Matcher) {
	m.MatchComment("TODO").Report("h2 todo")
}

func h3(m dsl.Matcher) {
	// a suggestion whose replacement can be empty (delete the span) or not
	m.MatchComment("FIXME(?P<rest>.*)").Suggest("$rest")
}
`

const c19R3 = `package gorules

import "github.com/quasilyte/go-ruleguard/dsl"

func g1(m dsl.Matcher) {
	m.Match("never()").Report("collides with r1.go")
}
`

const c19Bad = "package gorules\n\nfunc broken( {\n"

var c19Target = []string{
	"package target\n\nfunc probe(x int) int { return x }\n\nfunc other(s string) string { return s }\n\nfunc f() {\n\tprobe(1)\n\tother(\"a\")\n\t_ = probe(3) + 1\n}\n",
	"package target\n\n// TODO: second file\nfunc g() int {\n\tprobe(22) // FIXME\n\t// FIXME later\n\treturn 7\n}\n",
}

var c19Groups = []string{"g1", "g2", "g3", "h1", "h2", "h3", "g9", "e", "nope"}

type c19Config struct {
	Rules, E, Enable, Disable, GoVer string
	Passes                           int
	Parallel                         bool
	Force                            bool
	Rewrite                          string // "", "r1->r1b" (valid -> other valid), "bad->good" (broken file repaired after pass 1)
	// the -debug-* flags: what they print goes to stderr; the diagnostics must not depend on them
	DebugGroup, DebugFunc string
	DebugED, DebugImports bool
}

func (c c19Config) String() string {
	s := fmt.Sprintf("-rules=%q -e=%q -enable=%q -disable=%q -go=%q passes=%d parallel=%v force=%v rewrite=%q",
		c.Rules, c.E, c.Enable, c.Disable, c.GoVer, c.Passes, c.Parallel, c.Force, c.Rewrite)
	if c.DebugGroup != "" || c.DebugFunc != "" || c.DebugED || c.DebugImports {
		s += fmt.Sprintf(" -debug-group=%q -debug-func=%q -debug-enable-disable=%v -debug-imports=%v", c.DebugGroup, c.DebugFunc, c.DebugED, c.DebugImports)
	}
	return s
}

type c19PassResult struct {
	outcome string // load-error | version-error | run-error | done
	diags   []analysis.Diagnostic
	prep    string // e | f | n (inferred from the cache variables)
	errText string
}

func c19Diags(fset *token.FileSet, ds []analysis.Diagnostic) string {
	if len(ds) == 0 {
		return "-"
	}
	var parts []string
	for _, d := range ds {
		fixes := "-"
		if len(d.SuggestedFixes) > 0 {
			var fs []string
			for _, f := range d.SuggestedFixes {
				var es []string
				for _, e := range f.TextEdits {
					es = append(es, fmt.Sprintf("%s/%d/%d/%s", hx.HexS(f.Message), int(e.Pos), int(e.End), hx.Hex(e.NewText)))
				}
				if len(es) == 0 {
					es = append(es, hx.HexS(f.Message)+"/0/0/-")
				}
				fs = append(fs, strings.Join(es, "+"))
			}
			fixes = strings.Join(fs, "~")
		}
		parts = append(parts, fmt.Sprintf("%d:%s:%s", int(d.Pos), hx.HexS(d.Message), fixes))
	}
	return strings.Join(parts, ",")
}

type c19Env struct {
	dir    string
	target *c19TargetPkg
}

type c19TargetPkg struct {
	fset  *token.FileSet
	files []*hx.Target
	pkg   *types.Package
	info  *types.Info
}

func c19WriteRules(dir string) error {
	for name, src := range map[string]string{"r1.go": c19R1, "r2.go": c19R2, "r3.go": c19R3, "bad.go": c19Bad, "fixme.go": c19Bad} {
		if err := os.WriteFile(filepath.Join(dir, name), []byte(src), 0o644); err != nil {
			return err
		}
	}
	return nil
}

func c19Apply(c c19Config, dir string) {
	analyzer.VerifResetGlobals()
	analyzer.ForceNewEngine = c.Force
	set := func(k, v string) { _ = analyzer.Analyzer.Flags.Set(k, v) }
	rules := c.Rules
	// file names in -rules are relative to the temp dir
	var parts []string
	for _, p := range strings.Split(rules, ",") {
		t := strings.TrimSpace(p)
		if t == "" {
			parts = append(parts, p)
			continue
		}
		parts = append(parts, strings.Replace(p, t, filepath.Join(dir, t), 1))
	}
	if rules != "" {
		rules = strings.Join(parts, ",")
	}
	set("rules", rules)
	set("e", c.E)
	set("enable", c.Enable)
	set("disable", c.Disable)
	set("go", c.GoVer)
	set("debug-group", c.DebugGroup)
	set("debug-func", c.DebugFunc)
	set("debug-enable-disable", fmt.Sprint(c.DebugED))
	set("debug-imports", fmt.Sprint(c.DebugImports))
}

func runC19(c *Ctx) error {
	res := c.Res
	nCfg := 60
	if c.Thorough {
		nCfg = 1500
	}
	res.Rule = fmt.Sprintf("%d flag configurations (rules lists of 1-3 files with spaces / missing / broken / colliding files, -e, -enable/-disable lists with "+
		"spaces, empty items and unknown names, -go valid/invalid, ForceNewEngine) x 1-4 passes over a two-file package, sequential or parallel, rules file "+
		"rewritten between passes; plus the exhaustive grid of %d enable x disable x group-name filter cases; non-trivial = the configuration loads and "+
		"filters at least one group or fails to load; distinct by configuration", nCfg, 0)
	dir, err := os.MkdirTemp("", "c19")
	if err != nil {
		return err
	}
	defer os.RemoveAll(dir)
	// type-check the target once
	tp := &c19TargetPkg{}
	{
		t0, err := hx.ParseTarget("a.go", c19Target[0]+strings.TrimPrefix(c19Target[1], "package target\n"))
		if err != nil {
			return fmt.Errorf("target: %v", err)
		}
		_ = t0
	}
	tp, err = c19BuildTarget()
	if err != nil {
		return fmt.Errorf("target: %v", err)
	}

	// ---- suite 1: the group filter, exhaustively over the flag-value pools
	enables := []string{"<all>", "g1", "g1,g2", " g1 , h1", "g1,,g2", "", "nope", "<all>,g1", " <all>", "g2\t,\ng3", "h2,h1,g3,g2,g1", "G1", "g1 g2"}
	disables := []string{"", "g2", " g2 , g3 ", "nope", "g1,g1", ",", "g1,h1,h2", "<all>", "e"}
	var ops, impl, specOps []string
	var inputs []interface{}
	for _, en := range enables {
		for _, dis := range disables {
			if err := c19WriteRules(dir); err != nil {
				return err
			}
			cfg := c19Config{Rules: "r1.go,r2.go", Enable: en, Disable: dis, Passes: 1}
			c19Apply(cfg, dir)
			pr := c19RunPass(tp)
			loaded := map[string]bool{}
			for _, g := range analyzer.VerifLoadedGroups() {
				loaded[g] = true
			}
			if pr.outcome != "done" {
				res.Errorf("filter grid: %s: %s %s", cfg, pr.outcome, pr.errText)
				continue
			}
			for _, g := range []string{"g1", "g2", "g3", "h1", "h2"} {
				ops = append(ops, fmt.Sprintf("c19filter %s %s %s", hx.HexS(en), hx.HexS(dis), hx.HexS(g)))
				impl = append(impl, b01(loaded[g]))
				inputs = append(inputs, map[string]interface{}{"enable": en, "disable": dis, "group": g})
				specOps = append(specOps, fmt.Sprintf("spec19filter %s %s %s %s", hx.HexS(en), hx.HexS(dis), hx.HexS(g), b01(loaded[g])))
				res.Count("filter-grid", en+"\x00"+dis+"\x00"+g, en != "<all>" || dis != "")
				res.Dist("filter:accepted=" + b01(loaded[g]))
			}
		}
	}
	if err := res.Compare(c.Drv, "filter-grid", ops, impl, inputs); err != nil {
		return err
	}
	if err := c19Spec(c, specOps, impl, inputs, "groupFilter:wrong-selection"); err != nil {
		return err
	}
	res.Rule = strings.Replace(res.Rule, "grid of 0 ", fmt.Sprintf("grid of %d ", len(ops)), 1)

	// ---- suite 2: configurations
	rng := hx.Rng(c.Seed, "c19-configs")
	cfgs := c19Corpus()
	for len(cfgs) < nCfg {
		cfgs = append(cfgs, c19GenConfig(rng, enables, disables))
	}
	var onceOps, onceImpl, onceSpec []string
	var onceInputs []interface{}
	type passCase struct {
		cfg      c19Config
		printLoc bool
		verOK    bool
		files    string
		results  []c19PassResult
	}
	var cases []passCase
	for _, cfg := range cfgs {
		if err := c19WriteRules(dir); err != nil {
			return err
		}
		c19Apply(cfg, dir)
		// the oracle for newEngine and Engine.Run: a direct engine with the model's filter
		direct, mkOK := c19Direct(c, cfg, dir)
		_, verErr := ruleguard.ParseGoVersion(cfg.GoVer)
		pc := passCase{cfg: cfg, printLoc: cfg.E == "", verOK: verErr == nil}
		if mkOK {
			pc.files = c19Reports(direct, tp, cfg.GoVer)
		} else {
			pc.files = "(files)"
		}
		// run the passes
		results := make([]c19PassResult, cfg.Passes)
		if cfg.Parallel {
			var wg sync.WaitGroup
			for i := range results {
				i := i
				wg.Add(1)
				go func() { defer wg.Done(); results[i] = c19RunPass(tp) }()
			}
			wg.Wait()
			// the cache state is only known after all of them: infer from the outcomes
			for i := range results {
				results[i].prep = c19InferPrep(results[i], mkOK)
			}
			sort.SliceStable(results, func(i, j int) bool { return results[i].prep < results[j].prep && results[i].prep == "f" })
		} else {
			for i := range results {
				results[i] = c19RunPass(tp)
				if i == 0 {
					switch cfg.Rewrite {
					case "r1->r1b":
						_ = os.WriteFile(filepath.Join(dir, "r1.go"), []byte(c19R1b), 0o644)
					case "bad->good":
						_ = os.WriteFile(filepath.Join(dir, "fixme.go"), []byte(c19R2), 0o644)
					}
				}
			}
		}
		pc.results = results
		cases = append(cases, pc)
		mk := "err"
		if mkOK {
			mk = "ok"
		}
		var preps []string
		created := 0
		for _, r := range results {
			preps = append(preps, r.prep)
			if cfg.Force || r.prep == "f" || (r.prep == "e" && created == 0) {
				created++
			}
		}
		if !cfg.Force && created > 1 {
			created = 1 + strings.Count(strings.Join(preps, ""), "f") - btoi(!mkOK)
		}
		onceOps = append(onceOps, fmt.Sprintf("c19once %s %s %d", b01(cfg.Force), mk, cfg.Passes))
		onceImpl = append(onceImpl, fmt.Sprintf("created=%d %s", created, strings.Join(preps, " ")))
		onceInputs = append(onceInputs, map[string]interface{}{"config": cfg.String()})
		if !cfg.Force {
			onceSpec = append(onceSpec, fmt.Sprintf("spec19once %s %d %s", mk, created, strings.Join(preps, " ")))
		} else {
			onceSpec = append(onceSpec, "")
		}
		res.Count("configs", cfg.String(), !mkOK || cfg.Enable != "<all>" || cfg.Disable != "")
		res.Dist("config:newEngine=" + mk)
		res.Dist(fmt.Sprintf("config:passes=%d", cfg.Passes))
		if cfg.Parallel {
			res.Dist("config:parallel")
		}
		if cfg.E != "" {
			res.Dist("config:-e")
		}
		if cfg.Rewrite != "" {
			res.Dist("config:rewrite=" + cfg.Rewrite)
		}
		if verErr != nil {
			res.Dist("config:bad-go-version")
		}
	}
	analyzer.VerifResetGlobals()
	analyzer.ForceNewEngine = false
	if err := res.Compare(c.Drv, "engine-cache", onceOps, onceImpl, onceInputs); err != nil {
		return err
	}
	if err := c19Spec(c, onceSpec, onceImpl, onceInputs, "prepareEngine:not-loaded-once"); err != nil {
		return err
	}
	// per pass: outcome + diagnostics
	ops, impl, specOps, inputs = nil, nil, nil, nil
	for _, pc := range cases {
		for i, r := range pc.results {
			ops = append(ops, fmt.Sprintf("c19pass %s %s %s %s", b01(pc.printLoc), b01(pc.verOK), r.prep, pc.files))
			out := r.outcome
			if out == "done" || out == "run-error" {
				out += " " + c19Diags(tp.fset, r.diags)
			}
			impl = append(impl, out)
			inputs = append(inputs, map[string]interface{}{"config": pc.cfg.String(), "pass": i, "error": r.errText})
			if r.outcome == "done" && r.prep == "e" {
				specOps = append(specOps, fmt.Sprintf("spec19pass %s %s %s", b01(pc.printLoc), c19Diags(tp.fset, r.diags), pc.files))
			} else {
				specOps = append(specOps, "")
			}
			res.Count("passes", fmt.Sprintf("%s#%d", pc.cfg.String(), i), len(r.diags) > 0)
			res.Dist("pass:" + r.outcome)
		}
	}
	res.Sample(map[string]interface{}{"op": ops[0], "impl": impl[0]})
	if err := res.Compare(c.Drv, "passes", ops, impl, inputs); err != nil {
		return err
	}
	return c19Spec(c, specOps, impl, inputs, "runAnalyzer:diagnostics-differ-from-reports")
}

func btoi(b bool) int {
	if b {
		return 1
	}
	return 0
}

func c19InferPrep(r c19PassResult, mkOK bool) string {
	switch {
	case r.outcome == "load-error":
		return "f"
	case mkOK:
		return "e"
	}
	return "n"
}

func c19Spec(c *Ctx, specOps, impl []string, inputs []interface{}, sig string) error {
	var ops []string
	var idx []int
	for i, o := range specOps {
		if o != "" {
			ops = append(ops, o)
			idx = append(idx, i)
		}
	}
	ans, err := c.Drv.Ask(ops)
	if err != nil {
		return err
	}
	for k, a := range ans {
		if a == "holds" {
			continue
		}
		i := idx[k]
		c.Res.Violate(hx.Violation{Signature: sig, What: "the adapter departs from C19", Input: inputs[i], Impl: impl[i], Spec: ops[k] + " => " + a})
	}
	return nil
}

func c19BuildTarget() (*c19TargetPkg, error) {
	t, err := hx.ParseTarget("a.go", c19Target[0])
	if err != nil {
		return nil, err
	}
	// second file of the same package: parse with the same FileSet and re-check both
	tp := &c19TargetPkg{fset: token.NewFileSet()}
	return tp.build(t)
}

func (tp *c19TargetPkg) build(_ *hx.Target) (*c19TargetPkg, error) {
	files, info, pkg, err := c19ParsePackage(tp.fset, []string{"a.go", "b.go"}, c19Target)
	if err != nil {
		return nil, err
	}
	tp.files, tp.info, tp.pkg = files, info, pkg
	return tp, nil
}

// c19ParsePackage parses and type-checks several files as one package.
func c19ParsePackage(fset *token.FileSet, names, srcs []string) ([]*hx.Target, *types.Info, *types.Package, error) {
	var files []*ast.File
	for i := range names {
		f, err := parser.ParseFile(fset, names[i], srcs[i], parser.ParseComments)
		if err != nil {
			return nil, nil, nil, err
		}
		files = append(files, f)
	}
	info := &types.Info{
		Types:      map[ast.Expr]types.TypeAndValue{},
		Uses:       map[*ast.Ident]types.Object{},
		Defs:       map[*ast.Ident]types.Object{},
		Selections: map[*ast.SelectorExpr]*types.Selection{},
		Implicits:  map[ast.Node]types.Object{},
		Scopes:     map[ast.Node]*types.Scope{},
		Instances:  map[*ast.Ident]types.Instance{},
	}
	cfg := types.Config{Importer: importer.ForCompiler(fset, "source", nil)}
	pkg, err := cfg.Check(files[0].Name.Name, fset, files, info)
	if err != nil {
		return nil, nil, nil, err
	}
	var out []*hx.Target
	for i, f := range files {
		out = append(out, &hx.Target{Fset: fset, File: f, Info: info, Pkg: pkg, Src: []byte(srcs[i]), Name: names[i]})
	}
	return out, info, pkg, nil
}

func c19NewPass(tp *c19TargetPkg, report func(analysis.Diagnostic)) *analysis.Pass {
	p := &analysis.Pass{
		Analyzer:   analyzer.Analyzer,
		Fset:       tp.fset,
		Pkg:        tp.pkg,
		TypesInfo:  tp.info,
		TypesSizes: types.SizesFor("gc", runtime.GOARCH),
		Report:     report,
	}
	for _, f := range tp.files {
		p.Files = append(p.Files, f.File)
	}
	return p
}

func c19RunPass(tp *c19TargetPkg) (r c19PassResult) {
	var mu sync.Mutex
	pass := c19NewPass(tp, func(d analysis.Diagnostic) {
		mu.Lock()
		r.diags = append(r.diags, d)
		mu.Unlock()
	})
	defer func() {
		if rec := recover(); rec != nil {
			r.outcome = "panic:" + hx.PanicKind(rec)
			r.errText = fmt.Sprint(rec)
		}
	}()
	_, err := analyzer.Analyzer.Run(pass)
	switch {
	case err == nil:
		r.outcome = "done"
	case strings.HasPrefix(err.Error(), "load rules:"):
		r.outcome = "load-error"
	case strings.HasPrefix(err.Error(), "parse Go version"):
		r.outcome = "version-error"
	default:
		r.outcome = "run-error"
	}
	if err != nil {
		r.errText = err.Error()
	}
	has, errored := analyzer.VerifEngineState()
	switch {
	case r.outcome == "load-error":
		r.prep = "f"
	case has || analyzer.ForceNewEngine:
		r.prep = "e"
	case errored:
		r.prep = "n"
	default:
		r.prep = "?"
	}
	return r
}

// c19Direct re-creates what newEngine does with the public API, the GroupFilter being the Lean model's.
func c19Direct(c *Ctx, cfg c19Config, dir string) (*ruleguard.Engine, bool) {
	var ops []string
	for _, g := range c19Groups {
		ops = append(ops, fmt.Sprintf("c19filter %s %s %s", hx.HexS(cfg.Enable), hx.HexS(cfg.Disable), hx.HexS(g)))
	}
	ans, err := c.Drv.Ask(ops)
	if err != nil {
		return nil, false
	}
	accept := map[string]bool{}
	for i, g := range c19Groups {
		accept[g] = ans[i] == "1"
	}
	e := ruleguard.NewEngine()
	e.InferBuildContext()
	ctx := &ruleguard.LoadContext{Fset: token.NewFileSet(), GroupFilter: func(g *ruleguard.GoRuleGroup) bool { return accept[g.Name] }}
	switch {
	case cfg.Rules != "":
		for _, name := range strings.Split(cfg.Rules, ",") {
			name = filepath.Join(dir, strings.TrimSpace(name))
			if strings.TrimSpace(filepath.Base(name)) == filepath.Base(dir) {
				name = "" // an empty item names no file
			}
			data, err := os.ReadFile(name)
			if err != nil {
				return nil, false
			}
			if err := e.Load(ctx, name, strings.NewReader(string(data))); err != nil {
				return nil, false
			}
		}
		return e, true
	case cfg.E != "":
		text := fmt.Sprintf("\n\t\t\tpackage gorules\n\t\t\timport \"github.com/quasilyte/go-ruleguard/dsl\"\n\t\t\tfunc e(m dsl.Matcher) {\n\t\t\t\t%s.Report(\"$$\")\n\t\t\t}", cfg.E)
		if err := e.Load(ctx, "e", strings.NewReader(text)); err != nil {
			return nil, false
		}
		return e, true
	}
	return nil, false
}

// c19Reports runs the direct engine over the pass's files and prints the reports as the model's input.
func c19Reports(e *ruleguard.Engine, tp *c19TargetPkg, goVer string) string {
	var sb strings.Builder
	sb.WriteString("(files")
	ver, err := ruleguard.ParseGoVersion(goVer)
	if err != nil {
		return "(files)"
	}
	for _, f := range tp.files {
		sb.WriteString(" (file ")
		var reps []string
		ctx := &ruleguard.RunContext{Pkg: tp.pkg, Types: tp.info, Sizes: types.SizesFor("gc", runtime.GOARCH), Fset: tp.fset, GoVersion: ver}
		ctx.Report = func(d *ruleguard.ReportData) {
			sugg := "-"
			if d.Suggestion != nil {
				sugg = fmt.Sprintf("(%d %d %s)", int(d.Suggestion.From), int(d.Suggestion.To), hx.Hex(d.Suggestion.Replacement))
			}
			reps = append(reps, fmt.Sprintf("(rep %s %s %d %s %d %s)", hx.HexS(d.RuleInfo.Group.Name), hx.HexS(d.RuleInfo.Group.Filename),
				d.RuleInfo.Line, hx.HexS(d.Message), int(d.Node.Pos()), sugg))
		}
		runErr := e.Run(ctx, f.File)
		sb.WriteString(b01(runErr != nil))
		for _, r := range reps {
			sb.WriteString(" " + r)
		}
		sb.WriteString(")")
	}
	sb.WriteString(")")
	return sb.String()
}

func c19GenConfig(rng *rand.Rand, enables, disables []string) c19Config {
	cfg := c19Config{Enable: "<all>", Passes: 1 + rng.Intn(4)}
	rulesPool := []string{"r1.go", "r1.go,r2.go", " r1.go , r2.go ", "r2.go", "r1.go,r3.go", "bad.go", "r1.go,missing.go", "r2.go,r1.go", "r1.go,,r2.go", "fixme.go"}
	switch x := rng.Intn(10); {
	case x < 7:
		cfg.Rules = rulesPool[rng.Intn(len(rulesPool))]
	case x < 9:
		cfg.E = []string{"m.Match(`probe($x)`)", "m.Match(`other($_)`)", "m.Match(`return $x`)", "m.Match(`probe(`)"}[rng.Intn(4)]
		if rng.Intn(4) == 0 {
			cfg.Rules = "r2.go"
		}
	}
	if rng.Intn(2) == 0 {
		cfg.Enable = enables[rng.Intn(len(enables))]
	}
	if rng.Intn(2) == 0 {
		cfg.Disable = disables[rng.Intn(len(disables))]
	}
	cfg.GoVer = []string{"", "", "", "1.16", "1.21", "bad", "1.x"}[rng.Intn(7)]
	cfg.Parallel = cfg.Passes > 1 && rng.Intn(3) == 0
	cfg.Force = rng.Intn(12) == 0
	if rng.Intn(4) == 0 {
		cfg.DebugGroup = []string{"", "g1", "h2", "e", "nope"}[rng.Intn(5)]
		cfg.DebugFunc = []string{"", "isOK", "nope"}[rng.Intn(3)]
		cfg.DebugED = rng.Intn(2) == 0
		cfg.DebugImports = rng.Intn(2) == 0
	}
	if !cfg.Parallel && !cfg.Force && cfg.Passes > 1 {
		switch {
		case strings.Contains(cfg.Rules, "r1.go") && rng.Intn(2) == 0:
			cfg.Rewrite = "r1->r1b"
		case cfg.Rules == "fixme.go":
			cfg.Rewrite = "bad->good"
		}
	}
	return cfg
}

func c19Corpus() []c19Config {
	return []c19Config{
		{Rules: "r1.go", Enable: "<all>", Passes: 3, Rewrite: "r1->r1b"},
		{Rules: "fixme.go", Enable: "<all>", Passes: 3, Rewrite: "bad->good"},
		{Rules: "bad.go", Enable: "<all>", Passes: 4, Parallel: true},
		{Rules: " r1.go , r2.go ", Enable: " g1 , h1", Disable: "h1", Passes: 2},
		{E: "m.Match(`probe($x)`)", Enable: "<all>", Passes: 2},
		{Enable: "<all>", Passes: 2},
		{Rules: "r1.go", Enable: "<all>", GoVer: "bad", Passes: 2},
		{Rules: "r1.go,r3.go", Enable: "<all>", Passes: 2},
		{Rules: "r1.go,r3.go", Enable: "<all>", Disable: "g1", Passes: 2},
		{E: "m.Match(`probe(`)", Enable: "<all>", Passes: 2},
		{Rules: "r1.go,r2.go", Enable: "g1,h1", Disable: "h1", Passes: 2, DebugGroup: "g1", DebugED: true, DebugImports: true},
		{E: "m.Match(`probe($x)`)", Enable: "<all>", Passes: 1, DebugGroup: "e", DebugED: true},
	}
}
