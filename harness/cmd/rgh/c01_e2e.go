package main

import (
	"fmt"
	"go/ast"
	"go/token"
	"strings"

	"github.com/quasilyte/go-ruleguard/ruleguard"
	"github.com/quasilyte/gogrep"
	"verifharness/hx"
)

// poolRule is one rule of the pool: pattern + optional Where clause.
type poolRule struct {
	pat   string
	where string
}

var c01Pool = []poolRule{
	{"probe($x)", ""},
	{"probe($x)", `m["x"].Text.Matches("7$")`},
	{"probe($x)", `m["x"].Text.Matches("[0-4]$")`},
	{"$f($*_)", ""},
	{"$f($*_)", `m["f"].Text == "probe"`},
	{"$x + $y", ""},
	{"$x > $y", `m["y"].Const`},
	{"$x; $y", ""},
	{"probe($a); probe($b)", ""},
	{"probe($a); probe($b)", `m["a"].Text.Matches("[13579]$")`},
	{"1, $x", ""},
	{"$x, 2", `m["x"].Const`},
	{"if $c { $*_ }", ""},
	{"if $c { $*_ }", `m["c"].Const`},
	{"if $c { $*_ } else { $*_ }", ""},
	{"for $*_ { $*_ }", ""},
	{"return $x", ""},
	{"return $*_", ""},
	{"x", ""},
	{"flag", ""},
	{"42", ""},
	{`"lit"`, ""},
	{"func $f($*_) $*_ { $*_ }", ""},
	{"func() { $*_ }", ""},
	{"var $x = $y", ""},
	{"func $f($*_) { $*_ }; func $g($*_) { $*_ }", ""},
	{"$x := $y", ""},
	{"_ = $x", `m["x"].Pure`},
	{"{ $*_ }", ""},
	{"[]int{$*_}", ""},
	{"$t{$*_}", ""},
	{"($x)", ""},
	{"!$x", ""},
	{"$x.$y", ""},
	{"switch $*_ { $*_ }", ""},
	{"$x++", ""},
	{"$x[$i]", ""},
	{"$k: $v", ""},
	// list patterns with several sub-matches per node and a filter that accepts only some of them
	{"$x, $x", ""},
	{"$x, $x", `m["x"].Text == "1"`},
	{"$x, $y", `m["y"].Text == "2"`},
	{"sum($*_)", ""},
	{"$f($*_)", `m["f"].Text == "sum"`},
}

const c01Extra = `
type T struct{ a, b int }

func extra(x int, xs []int) (int, int) {
	y := x + 42
	_ = (y)
	_ = !flag
	_ = []int{1, 2, 3}
	_ = T{a: 1, b: 2}
	_ = T{1, 2}
	probe(1)
	probe(2)
	probe(17)
	_ = add(1, 2)
	_ = add(1, x)
	s := "lit"
	_ = s
	switch x {
	case 1, 2:
		probe(5)
		probe(7)
	default:
		x++
	}
	if x > 1 {
		return xs[0], 2
	}
	return 1, x
}

func add(a, b int) int { return a + b }

func sum(xs ...int) int { return len(xs) }

func sel(ch chan int, x int) {
	select {
	case v := <-ch:
		x++
		x--
		probe(v)
		probe(x)
	case ch <- x:
		probe(11)
		probe(13)
		return
	default:
		probe(1)
		probe(2)
	}
	switch x {
	case 3:
		probe(21)
		probe(23)
	}
}

func sums(x int) (int, int, int, int) {
	_ = sum(1, 1, 2, 2)
	_ = sum(2, 2, 1, 1)
	_ = sum(1, 1, 1, 1)
	_ = sum(3, 2, 3, 2)
	_ = []int{1, 1, 4, 4}
	_ = []int{x, 2, 1, 2}
	if x > 2 {
		return 1, 1, 5, 5
	}
	return x, 2, x, x
}

func empty1() {}

func empty2() {}

var g1 = 42
`

// attribution maps a report back to the visited node that produced it.
type attribution struct {
	tree    *hx.Tree
	byKey   map[string]int    // pos:end:type -> node id (-1 if ambiguous)
	listOf  map[string]int    // category:pos of a direct list element -> container node id
	fset    *token.FileSet
}

func newAttribution(t *hx.Target, tree *hx.Tree) *attribution {
	a := &attribution{tree: tree, byKey: map[string]int{}, listOf: map[string]int{}, fset: t.Fset}
	off := func(p token.Pos) int { return t.Fset.Position(p).Offset }
	for _, n := range tree.Nodes {
		k := fmt.Sprintf("%d:%d:%T", off(n.Node.Pos()), off(n.Node.End()), n.Node)
		if _, dup := a.byKey[k]; dup {
			a.byKey[k] = -1
		} else {
			a.byKey[k] = n.ID
		}
		add := func(cat int, p token.Pos) {
			key := fmt.Sprintf("%d:%d", cat, off(p))
			if _, dup := a.listOf[key]; dup {
				a.listOf[key] = -1
			} else {
				a.listOf[key] = n.ID
			}
		}
		switch x := n.Node.(type) {
		case *ast.BlockStmt:
			for _, s := range x.List {
				add(int(gogrep.StmtNodeSlice), s.Pos())
			}
		case *ast.CaseClause:
			for _, s := range x.Body {
				add(int(gogrep.StmtNodeSlice), s.Pos())
			}
		case *ast.CommClause:
			for _, s := range x.Body {
				add(int(gogrep.StmtNodeSlice), s.Pos())
			}
		case *ast.CallExpr:
			for _, e := range x.Args {
				add(int(gogrep.ExprNodeSlice), e.Pos())
			}
		case *ast.CompositeLit:
			for _, e := range x.Elts {
				add(int(gogrep.ExprNodeSlice), e.Pos())
			}
		case *ast.ReturnStmt:
			for _, e := range x.Results {
				add(int(gogrep.ExprNodeSlice), e.Pos())
			}
		case *ast.File:
			for _, d := range x.Decls {
				add(int(gogrep.DeclNodeSlice), d.Pos())
			}
		}
	}
	return a
}

// nodeOf returns the id of the visited node a report belongs to, or -1.
func (a *attribution) nodeOf(r hx.Report) int {
	if r.SliceKind >= 0 {
		if r.SliceLen == 0 {
			return -1
		}
		if id, ok := a.listOf[fmt.Sprintf("%d:%d", r.SliceKind, r.Pos)]; ok {
			return id
		}
		return -1
	}
	if id, ok := a.byKey[fmt.Sprintf("%d:%d:%s", r.Pos, r.End, r.NodeKind)]; ok {
		return id
	}
	return -1
}

func ruleText(k int, pr poolRule) string {
	s := "\tm.Match(`" + pr.pat + "`)"
	if pr.where != "" {
		s += ".Where(" + pr.where + ")"
	}
	return s + fmt.Sprintf(".Report(\"R%d\")\n", k)
}

// c01E2E: generated rule sets through Engine.Load/Run vs the model of placement+merge+loop and vs
// the property-level reference, the per-(rule,node) oracle coming from running each rule alone.
func c01E2E(c *Ctx) error {
	return ruleSetComposition(c, "e2e-rules", "c01-e2e", c01Pool, c01Extra, "")
}

// ruleSetComposition: rule sets drawn from `pool` through Engine.Load/Run vs the model/reference fed with
// the per-(rule,node) oracle obtained by running each pool rule alone.  `decls` are custom function
// declarations every generated rules file carries (for pool rules using Filter(...)).
func ruleSetComposition(c *Ctx, suite, stream string, pool []poolRule, extraTarget, decls string) error {
	c01Pool := pool
	c01Extra := extraTarget
	res := c.Res
	nSets, nTargets := 25, 3
	if c.Thorough {
		nSets, nTargets = 400, 8
	}
	rng := hx.Rng(c.Seed, stream)
	// root tags of the pool (gogrep is the oracle)
	tags := make([]int, len(c01Pool))
	for i, pr := range c01Pool {
		p, _, err := gogrep.Compile(gogrep.CompileConfig{Fset: token.NewFileSet(), Src: pr.pat, WithTypes: true})
		if err != nil {
			return fmt.Errorf("pool pattern %q: %v", pr.pat, err)
		}
		tags[i] = int(p.NodeTag())
	}
	type target struct {
		t     *hx.Target
		tree  *hx.Tree
		attr  *attribution
		visit string // "(id tag) …" of the implementation's walk
		alone map[int]map[int][]bool // pool index -> node id -> verdict of every gogrep callback, in order
	}
	var targets []*target
	for i := 0; i < nTargets; i++ {
		src := genIfFile(rng, 2+rng.Intn(3)) + c01Extra
		t, err := hx.ParseTarget(fmt.Sprintf("t%d.go", i), src)
		if err != nil {
			return fmt.Errorf("target: %v\n%s", err, src)
		}
		tree := hx.BuildTree(t.File, t.Info)
		tg := &target{t: t, tree: tree, attr: newAttribution(t, tree), alone: map[int]map[int][]bool{}}
		var sb strings.Builder
		_, vs := implTrace(t, tree)
		for _, v := range vs {
			if v.Node != nil {
				fmt.Fprintf(&sb, "(%d %d) ", tree.ByAST[v.Node].ID, int(v.Tag))
			}
		}
		tg.visit = sb.String()
		targets = append(targets, tg)
	}
	// Oracle for "does rule k match node n, with how many sub-matches, each accepted or not": the rule alone with
	// its Where clause gives the accepted sub-matches, the same pattern without the clause gives all of them (in
	// callback order); a sub-match is identified by its span.
	aloneEngines := map[string]*ruleguard.Engine{}
	runAlone := func(k int, bare bool, tg *target) ([]hx.Report, error) {
		pr := c01Pool[k]
		if bare {
			pr.where = ""
		}
		key := fmt.Sprintf("%d:%v", k, bare)
		e, ok := aloneEngines[key]
		if !ok {
			var err error
			e, err = hx.LoadRules(hx.RulesFile(decls + "func r(m dsl.Matcher) {\n" + ruleText(k, pr) + "}\n"))
			if err != nil {
				return nil, fmt.Errorf("pool rule %d (%s): %v", k, pr.pat, err)
			}
			aloneEngines[key] = e
		}
		rs, pk, frame, err := hx.Run(e, tg.t, hx.RunOpts{})
		if err != nil {
			return nil, err
		}
		if pk != "" {
			return nil, fmt.Errorf("pool rule %d (%s) alone: %s at %s", k, pr.pat, pk, frame)
		}
		return rs, nil
	}
	aloneOf := func(k int, tg *target) (map[int][]bool, error) {
		if m, ok := tg.alone[k]; ok {
			return m, nil
		}
		all, err := runAlone(k, true, tg)
		if err != nil {
			return nil, err
		}
		accepted := map[string]int{}
		if c01Pool[k].where != "" {
			acc, err := runAlone(k, false, tg)
			if err != nil {
				return nil, err
			}
			for _, r := range acc {
				accepted[fmt.Sprintf("%d:%d:%d", tg.attr.nodeOf(r), r.Pos, r.End)]++
			}
		}
		m := map[int][]bool{}
		for _, r := range all {
			id := tg.attr.nodeOf(r)
			if id < 0 {
				m[-1] = append(m[-1], true)
				continue
			}
			v := true
			if c01Pool[k].where != "" {
				key := fmt.Sprintf("%d:%d:%d", id, r.Pos, r.End)
				v = accepted[key] > 0
				if v {
					accepted[key]--
				}
			}
			m[id] = append(m[id], v)
		}
		for key, n := range accepted {
			if n > 0 {
				// an accepted sub-match the bare pattern did not produce: the oracle cannot be trusted for this rule
				res.Errorf("e2e oracle: pool rule %d (%s): accepted sub-match %s not among the bare pattern's matches", k, c01Pool[k].pat, key)
			}
		}
		tg.alone[k] = m
		return m, nil
	}

	var ops, impl, specOps, specImpl []string
	var inputs []interface{}
	for s := 0; s < nSets; s++ {
		nf := 1 + rng.Intn(3)
		nextOcc := 0
		var files []string
		var hist [][]int
		var histS strings.Builder
		var used []int
		for f := 0; f < nf; f++ {
			var sb strings.Builder
			ng := 1 + rng.Intn(2)
			var fileRules []int
			for g := 0; g < ng; g++ {
				fmt.Fprintf(&sb, "func g%d_%d_%d(m dsl.Matcher) {\n", s, f, g)
				nr := 1 + rng.Intn(4)
				for r := 0; r < nr; r++ {
					k := rng.Intn(len(c01Pool))
					sb.WriteString(ruleText(nextOcc, c01Pool[k]))
					nextOcc++
					fileRules = append(fileRules, k)
					used = append(used, k)
				}
				sb.WriteString("}\n")
			}
			files = append(files, hx.RulesFile(decls+sb.String()))
			hist = append(hist, fileRules)
		}
		if rng.Intn(4) == 0 {
			// a last file without any syntax rule (comment rules only): the rules loaded before it keep reporting
			files = append(files, hx.RulesFile(decls+fmt.Sprintf("func gc%d(m dsl.Matcher) {\n\tm.MatchComment(`never-matches-anything-zzz`).Report(`c`)\n}\n", s)))
			hist = append(hist, nil)
			res.Dist("e2e:last-file-has-comment-rules-only")
		}
		// model rule ids must be unique per occurrence: occurrence index; root tag from the pool
		occ := 0
		occPool := []int{}
		histS.WriteString("(hist")
		for _, fr := range hist {
			histS.WriteString(" (")
			for _, k := range fr {
				fmt.Fprintf(&histS, "(%d %d)", occ, tags[k])
				occPool = append(occPool, k)
				occ++
			}
			histS.WriteString(")")
		}
		histS.WriteString(")")
		e := ruleguard.NewEngine()
		loadOK := true
		for i, f := range files {
			if err := hx.LoadInto(e, fmt.Sprintf("rules%d.go", i), f, nil); err != nil {
				res.Errorf("e2e: generated rules do not load: %v", err)
				loadOK = false
				break
			}
		}
		if !loadOK {
			continue
		}
		// buckets: model vs implementation (rule occurrences in order per tag)
		byTag, _ := ruleguard.VerifBuckets(e)
		{
			// the implementation identifies a rule by group:line; translate to occurrence index via order of appearance per group/line
			lineOcc := map[string]int{}
			o := 0
			for fi, fr := range hist {
				_ = fi
				for range fr {
					o++
				}
			}
			_ = lineOcc
		}
		for _, tg := range targets {
			full, pk, frame, err := hx.Run(e, tg.t, hx.RunOpts{})
			if err != nil {
				return err
			}
			if pk != "" {
				res.Violate(hx.Violation{Signature: "run:" + pk + "@" + frame, What: "Run panics", Input: map[string]interface{}{"rules": files, "target": string(tg.t.Src)}, Impl: pk, Spec: "reports"})
				continue
			}
			// oracle: each occurrence alone
			var cb strings.Builder
			cb.WriteString("(cb")
			bad := false
			mixed := false
			for o, k := range occPool {
				m, err := aloneOf(k, tg)
				if err != nil {
					return err
				}
				if len(m[-1]) > 0 {
					bad = true
				}
				for id, vs := range m {
					if id < 0 {
						continue
					}
					fmt.Fprintf(&cb, " (%d %d", id, o)
					acc, rej := false, false
					for _, v := range vs {
						if v {
							cb.WriteString(" 1")
							acc = true
						} else {
							cb.WriteString(" 0")
							rej = true
						}
					}
					cb.WriteString(")")
					if acc && rej {
						mixed = true
					}
				}
			}
			cb.WriteString(")")
			// implementation pairs; a message R<k> identifies the pool rule, the occurrence is the first
			// occurrence of k not ruled out — occurrences of the same pool rule behave identically, so map
			// each report to (node, pool k) and compare at pool level
			var pairs []string
			for _, r := range full {
				id := tg.attr.nodeOf(r)
				if id < 0 {
					bad = true
					break
				}
				pairs = append(pairs, fmt.Sprintf("%d:%s", id, strings.TrimPrefix(r.Message, "R")))
			}
			if bad {
				res.Dist("e2e:unattributable-skipped")
				continue
			}
			arg := "((visits " + tg.visit + ") " + histS.String() + " " + cb.String() + ")"
			ops = append(ops, "rules.run "+arg)
			impl = append(impl, "ok "+strings.Join(pairs, " "))
			specOps = append(specOps, "rules.spec "+arg)
			// spec level: the reference delivers one entry per accepted sub-match of the first accepting rule
			specImpl = append(specImpl, "ok "+strings.Join(pairs, " "))
			inputs = append(inputs, map[string]interface{}{"rules": files, "target": tg.t.Name, "occurrence_to_pool": occPool, "target_src": string(tg.t.Src)})
			res.Count(suite, strings.Join(files, "\n")+tg.t.Name, len(full) >= 3 && len(occPool) >= 2)
			res.Dist(fmt.Sprintf("e2e:files=%d", nf))
			if mixed {
				res.Dist("e2e:mixed-verdict-sub-matches")
			}
			if len(ops) == 1 {
				res.Sample(map[string]interface{}{"rules": files, "target": tg.t.Name, "reports": len(full), "pairs(node:rule)": clip(strings.Join(pairs, " "))})
			}
		}
		_ = byTag
		_ = used
	}
	// model answers in occurrence ids: translate to pool ids before comparing
	trans := func(ans string, occPool []int) string {
		if strings.TrimSpace(ans) == "ok" {
			return "ok "
		}
		return ans
	}
	ans, err := c.Drv.Ask(ops)
	if err != nil {
		return err
	}
	spec, err := c.Drv.Ask(specOps)
	if err != nil {
		return err
	}
	for i := range ops {
		occPool := inputs[i].(map[string]interface{})["occurrence_to_pool"].([]int)
		if got := trans(ans[i], occPool); got != impl[i] {
			res.Disagree(hx.Disagreement{Suite: suite, Op: clip(ops[i]), Impl: clip(impl[i]), Model: clip(got), Input: inputs[i]})
		}
		if got := trans(spec[i], occPool); got != specImpl[i] {
			sig, what := rulesSignature(specImpl[i], got)
			res.Violate(hx.Violation{Signature: sig, What: what, Input: inputs[i], Impl: clip(specImpl[i]), Spec: clip(got)})
		}
	}
	return nil
}

// rulesSignature classifies a difference between delivered (node, rule) pairs and the reference.
func rulesSignature(impl, spec string) (string, string) {
	iv, sv := strings.Fields(impl)[1:], strings.Fields(spec)[1:]
	is, ss := map[string]bool{}, map[string]bool{}
	for _, p := range iv {
		is[p] = true
	}
	for _, p := range sv {
		ss[p] = true
	}
	for _, p := range sv {
		if !is[p] {
			return "rules:missing-report", "pair node:rule " + p + " should be reported and is not"
		}
	}
	for _, p := range iv {
		if !ss[p] {
			return "rules:extra-report", "pair node:rule " + p + " is reported although an earlier rule accepts the node (or the rule does not match)"
		}
	}
	if len(iv) != len(sv) {
		return "rules:duplicate-report", "a (node, rule) pair is reported more than once"
	}
	return "rules:order", "reports are not delivered in source order / load order"
}
