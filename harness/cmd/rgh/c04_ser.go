package main

import (
	"fmt"
	"go/ast"
	"go/constant"
	"go/token"
	"go/types"
	"strings"

	"github.com/quasilyte/go-ruleguard/ruleguard/goutil"
	"golang.org/x/tools/go/ast/astutil"
	"verifharness/hx"
)

// qSer turns the type-checked go/ast of a file into the S-expression form of Rg.Model.QSrc.
// Everything compile.go asks go/types for (constant values, typeIsInt/typeIsString/isSupportedType of a
// recorded type, the resolved callee and its signature) is computed here from the same types.Info
// and recorded in the tree; identifiers and function keys are numbered.
type qSer struct {
	info  *types.Info
	names map[string]int
	keys  map[[2]string]int
}

func newQSer(info *types.Info) *qSer {
	return &qSer{info: info, names: map[string]int{}, keys: map[[2]string]int{}}
}

func (q *qSer) name(s string) int {
	if id, ok := q.names[s]; ok {
		return id
	}
	id := len(q.names)
	q.names[s] = id
	return id
}

func (q *qSer) key(qualifier, name string) int {
	k := [2]string{qualifier, name}
	if id, ok := q.keys[k]; ok {
		return id
	}
	id := len(q.keys)
	q.keys[k] = id
	return id
}

func qTy(t types.Type) string {
	if t == nil {
		return "bad"
	}
	if tup, ok := t.(*types.Tuple); ok && tup.Len() == 0 {
		return "void"
	}
	switch u := t.Underlying().(type) {
	case *types.Basic:
		switch {
		case u.Kind() == types.Int || u.Kind() == types.UntypedInt:
			return "int"
		case u.Info()&types.IsString != 0:
			if u.Kind() == types.String {
				return "str"
			}
			return "str!" // untyped string: typeIsString yes, isSupportedType no; only constants have it
		case u.Kind() == types.Bool:
			return "bool"
		}
		return "bad"
	case *types.Pointer:
		if _, ok := u.Elem().Underlying().(*types.Struct); ok {
			return "obj"
		}
		return "bad"
	case *types.Interface:
		return "obj"
	}
	return "bad"
}

// qTyA is qTy for annotation positions where only typeIsInt/typeIsString matter.
func qTyA(t types.Type) string {
	s := qTy(t)
	if s == "str!" {
		return "str"
	}
	return s
}

// qTyS is qTy for positions guarded by isSupportedType.
func qTyS(t types.Type) string {
	s := qTy(t)
	if s == "str!" {
		return "bad"
	}
	return s
}

func (q *qSer) constant(cv constant.Value, lit bool) string {
	switch cv.Kind() {
	case constant.Bool:
		return fmt.Sprintf("(cb %s %s)", b01(constant.BoolVal(cv)), b01(lit))
	case constant.String:
		return "(cs " + hx.HexS(constant.StringVal(cv)) + ")"
	case constant.Int:
		v, exact := constant.Int64Val(cv)
		if !exact {
			return "(cbad)"
		}
		return fmt.Sprintf("(ci %d)", v)
	}
	return "(cbad)"
}


func (q *qSer) expr(e ast.Expr) string { return q.exprL(e, true) }

func (q *qSer) exprL(e ast.Expr, direct bool) string {
	if cv := q.info.Types[e].Value; cv != nil {
		id, ok := e.(*ast.Ident)
		return q.constant(cv, direct && ok && (id.Name == "true" || id.Name == "false"))
	}
	switch e := e.(type) {
	case *ast.ParenExpr:
		return q.exprL(e.X, false)
	case *ast.Ident:
		if e.Name == "nil" {
			return "(nil)"
		}
		return fmt.Sprintf("(id %d %s)", q.name(e.Name), qTyA(q.info.Types[e].Type))
	case *ast.SelectorExpr:
		typ := q.info.TypeOf(e.X)
		if typ == nil {
			return "(bad)"
		}
		k := q.key(typ.String(), e.Sel.String())
		return fmt.Sprintf("(call %d 1 0 0 0 obj () (%s) ())", k, q.expr(e.X))
	case *ast.UnaryExpr:
		if e.Op == token.NOT {
			return "(not " + q.expr(e.X) + ")"
		}
		return "(bad)"
	case *ast.SliceExpr:
		if e.Slice3 {
			return "(bad)"
		}
		xty := qTyA(q.info.TypeOf(e.X))
		switch {
		case e.Low == nil && e.High == nil:
			return "(sa " + q.expr(e.X) + ")"
		case e.Low == nil:
			return fmt.Sprintf("(st %s %s %s)", xty, q.expr(e.X), q.expr(e.High))
		case e.High == nil:
			return fmt.Sprintf("(sf %s %s %s)", xty, q.expr(e.X), q.expr(e.Low))
		default:
			return fmt.Sprintf("(sl %s %s %s %s)", xty, q.expr(e.X), q.expr(e.Low), q.expr(e.High))
		}
	case *ast.BinaryExpr:
		op := "other"
		switch e.Op {
		case token.LOR, token.LAND, token.NEQ, token.EQL, token.GTR, token.GEQ, token.LSS, token.LEQ, token.ADD, token.SUB:
			op = e.Op.String()
		}
		return fmt.Sprintf("(bin %s %s %s %s)", op, qTyA(q.info.TypeOf(e.X)), q.exprIdentAware(e.X), q.exprIdentAware(e.Y))
	case *ast.CallExpr:
		return q.call(e)
	}
	return "(bad)"
}

// operands of a binary expression: identName(e.X) == "nil" is a purely syntactic test (no Unparen)
func (q *qSer) exprIdentAware(e ast.Expr) string {
	if p, ok := e.(*ast.ParenExpr); ok {
		if id, ok := astutil.Unparen(p).(*ast.Ident); ok && id.Name == "nil" {
			return "(bad)" // `(nil)` in parentheses is not recognised by compileBinaryExpr: ends in compileIdent's error
		}
	}
	return q.expr(e)
}

func (q *qSer) call(call *ast.CallExpr) string {
	if id, ok := astutil.Unparen(call.Fun).(*ast.Ident); ok {
		if _, isBuiltin := q.info.ObjectOf(id).(*types.Builtin); isBuiltin {
			switch id.Name {
			case "len":
				return fmt.Sprintf("(len %s %s)", qTyA(q.info.TypeOf(call.Args[0])), q.expr(call.Args[0]))
			case "println":
				if len(call.Args) != 1 {
					return "(bad)"
				}
				fn := "Print"
				if qTyA(q.info.TypeOf(call.Args[0])) == "int" {
					fn = "PrintInt"
				}
				return fmt.Sprintf("(call %d 1 0 0 %s void (%s) () (%s))", q.key("builtin", fn),
					q.tupleArg(call.Args), qTyA(q.info.TypeOf(call.Args[0])), q.expr(call.Args[0]))
			}
			return "(bad)"
		}
	}
	expr, fn := goutil.ResolveFunc(q.info, call.Fun)
	if fn == nil {
		return "(bad)"
	}
	sig := fn.Type().(*types.Signature)
	var k int
	if sig.Recv() != nil {
		k = q.key(sig.Recv().Type().String(), fn.Name())
	} else {
		k = q.key(fn.Pkg().Path(), fn.Name())
	}
	variadic := 0
	if sig.Variadic() {
		variadic = sig.Params().Len() - 1
	}
	res := "void"
	if sig.Results().Len() > 0 {
		res = qTyA(sig.Results().At(0).Type())
	}
	recv := ""
	if expr != nil {
		recv = q.expr(expr)
	}
	var tys, args []string
	for _, a := range call.Args {
		tys = append(tys, qTyA(q.info.TypeOf(a)))
		args = append(args, q.expr(a))
	}
	return fmt.Sprintf("(call %d 0 %s %d %s %s (%s) (%s) (%s))", k, b01(sig.Variadic()), variadic,
		q.tupleArg(call.Args), res, strings.Join(tys, " "), recv, strings.Join(args, " "))
}

// tupleArg is the `len(args) == 1` test of compileNativeCall: 1 = the argument is a call with several
// results, 2 = it is a call whose Fun has no recorded *types.Signature (the unchecked type assertion panics).
func (q *qSer) tupleArg(args []ast.Expr) string {
	if len(args) != 1 {
		return "0"
	}
	c, ok := args[0].(*ast.CallExpr)
	if !ok {
		return "0"
	}
	sig, ok := q.info.TypeOf(c.Fun).(*types.Signature)
	if !ok {
		return "2"
	}
	if sig.Results() != nil && sig.Results().Len() > 1 {
		return "1"
	}
	return "0"
}

func (q *qSer) stmt(s ast.Stmt) string {
	switch s := s.(type) {
	case *ast.ReturnStmt:
		if s.Results == nil {
			return "(ret0)"
		}
		return fmt.Sprintf("(ret %s %s)", qTyA(q.info.TypeOf(s.Results[0])), q.expr(s.Results[0]))
	case *ast.AssignStmt:
		if len(s.Rhs) != 1 {
			return "(asbad)"
		}
		var lhs []string
		for i, l := range s.Lhs {
			id, ok := l.(*ast.Ident)
			if !ok {
				return "(asbad)"
			}
			lt := q.info.TypeOf(id)
			if lt == nil && id.Name == "_" && s.Tok == token.ASSIGN {
				// go/types records no type for a blank identifier on the left of `=`; the value stored has the type of
				// the right operand (the i-th component when that is a call with several results).  The compiler as it is
				// asks typeIsInt of the missing type and panics: the harness reports that as a compile panic (c04Spec).
				lt = q.info.TypeOf(s.Rhs[0])
				if tup, ok := lt.(*types.Tuple); ok && i < tup.Len() {
					lt = tup.At(i).Type()
				}
			}
			ty := qTyA(lt)
			if s.Tok == token.DEFINE {
				ty = qTyS(lt)
			}
			lhs = append(lhs, fmt.Sprintf("(%d %s)", q.name(id.Name), ty))
		}
		if s.Tok != token.DEFINE && s.Tok != token.ASSIGN {
			// `+=` and friends (go/types guarantees a single operand on each side)
			op := "other"
			switch s.Tok {
			case token.ADD_ASSIGN:
				op = "+"
			case token.SUB_ASSIGN:
				op = "-"
			}
			id := s.Lhs[0].(*ast.Ident)
			return fmt.Sprintf("(asop %s %d %s %s)", op, q.name(id.Name), qTyA(q.info.TypeOf(id)), q.expr(s.Rhs[0]))
		}
		return fmt.Sprintf("(as %s (%s) %s)", b01(s.Tok == token.DEFINE), strings.Join(lhs, " "), q.expr(s.Rhs[0]))
	case *ast.IncDecStmt:
		id, ok := s.X.(*ast.Ident)
		if !ok {
			return "(incbad)"
		}
		return fmt.Sprintf("(inc %s %d)", b01(s.Tok == token.INC), q.name(id.Name))
	case *ast.IfStmt:
		var r string
		if s.Else == nil {
			r = fmt.Sprintf("(if %s %s)", q.expr(s.Cond), q.stmt(s.Body))
		} else {
			r = fmt.Sprintf("(ife %s %s %s)", q.expr(s.Cond), q.stmt(s.Body), q.stmt(s.Else))
		}
		if s.Init != nil {
			return fmt.Sprintf("(ifi %s %s)", q.stmt(s.Init), r)
		}
		return r
	case *ast.ForStmt:
		switch {
		case s.Cond != nil && s.Init == nil && s.Post == nil:
			return fmt.Sprintf("(for %s %s)", q.expr(s.Cond), q.stmt(s.Body))
		case s.Cond == nil && s.Init == nil && s.Post == nil:
			return fmt.Sprintf("(loop %s)", q.stmt(s.Body))
		default:
			init, cond, post := "(blk)", "(cb 1 0)", "(blk)"
			if s.Init != nil {
				init = q.stmt(s.Init)
			}
			if s.Cond != nil {
				cond = q.expr(s.Cond)
			}
			if s.Post != nil {
				post = q.stmt(s.Post)
			}
			return fmt.Sprintf("(forc %s %s %s %s %s %s %s)", b01(s.Init != nil), b01(s.Cond != nil), b01(s.Post != nil),
				init, cond, post, q.stmt(s.Body))
		}
	case *ast.BranchStmt:
		if s.Label == nil && s.Tok == token.BREAK {
			return "(brk)"
		}
		return "(sbad)"
	case *ast.ExprStmt:
		if call, ok := s.X.(*ast.CallExpr); ok {
			sig, ok := q.info.TypeOf(call.Fun).(*types.Signature)
			if ok && sig.Results() == nil {
				return "(ecall " + q.call(call) + ")"
			}
		}
		return "(ebad)"
	case *ast.BlockStmt:
		var ss []string
		for _, x := range s.List {
			ss = append(ss, q.stmt(x))
		}
		return "(blk" + spaced(ss) + ")"
	}
	return "(sbad)"
}

func spaced(ss []string) string {
	if len(ss) == 0 {
		return ""
	}
	return " " + strings.Join(ss, " ")
}

func (q *qSer) funcDecl(pkgPath string, fn *ast.FuncDecl) string {
	sig := q.info.ObjectOf(fn.Name).Type().(*types.Signature)
	var ps, rs []string
	for i := 0; i < sig.Params().Len(); i++ {
		p := sig.Params().At(i)
		ps = append(ps, fmt.Sprintf("(%d %s)", q.name(p.Name()), qTyS(p.Type())))
	}
	for i := 0; i < sig.Results().Len(); i++ {
		rs = append(rs, qTyS(sig.Results().At(i).Type()))
	}
	return fmt.Sprintf("(fn %d (%s) (%s) %s)", q.key(pkgPath, fn.Name.String()), strings.Join(ps, " "), strings.Join(rs, " "), q.stmt(fn.Body))
}
