package main

// `rgh c04child` — the real quasigo VM in a process of its own (C04).
//
// quasigo.Call has no step bound and a goroutine cannot be stopped: a miscompiled loop (or a VM that
// jumps to the wrong place) would hang the harness, and a loop that doubles a string on every round
// would eat the machine.  All real calls of the C04 check are therefore made in a child: the parent
// sends a program (the same source text and the same registration order of the natives, so that the
// child's compiler output can be compared byte for byte with what the parent observed) and then one
// call per line; the answer to every line is awaited with a deadline.  A call that does not answer
// is reported as `timeout` (the child is killed and a fresh one is started), a child that outgrows
// its memory cap or dies as `memory` / `died`.  The deadline is the step bound of the search: the
// caller only asks for calls that terminate under Go's semantics within the reference fuel, which
// the VM executes in well under a millisecond.
//
// Protocol (one request line, one answer line):
//
//	W 0 <hex of a file text>                                    ->  W ok     (type check only: warms the importer up)
//	P <native order, comma separated> <hex of the file text>   ->  P <compile answer of qBuild>   |  E <hex of error>
//	C <function index> <argument tuple in protocol form>       ->  R <answer of qCallReal>

import (
	"bufio"
	"bytes"
	"fmt"
	"io"
	"os"
	"os/exec"
	"strconv"
	"strings"
	"sync"
	"syscall"
	"time"

	"github.com/quasilyte/go-ruleguard/ruleguard/quasigo"
	"verifharness/hx"
)

func init() {
	// main.go dispatches on os.Args[1]; the child entry point is taken before it gets there
	if len(os.Args) >= 2 && os.Args[1] == "c04child" {
		os.Exit(c04ChildMain())
	}
}

const (
	qChildRSSCap   = 3 << 30 // parent-side resident-set cap of the child
	qChildASCap    = 12 << 30
	qCallDeadline  = 6 * time.Second
	qBuildDeadline = 120 * time.Second // the first program imports strings/strconv/fmt from source
)

func c04ChildMain() int {
	// address-space cap: a run-away allocation dies here (fatal "out of memory") instead of on the host
	_ = syscall.Setrlimit(syscall.RLIMIT_AS, &syscall.Rlimit{Cur: qChildASCap, Max: qChildASCap})
	in := bufio.NewReaderSize(os.Stdin, 1<<20)
	out := bufio.NewWriter(os.Stdout)
	var cur *qCase
	var ee *quasigo.EvalEnv
	reply := func(s string) {
		out.WriteString(s)
		out.WriteByte('\n')
		out.Flush()
	}
	for {
		line, err := in.ReadString('\n')
		if err != nil {
			return 0
		}
		f := strings.Fields(line)
		if len(f) < 3 {
			reply("E " + hx.HexS("malformed request"))
			continue
		}
		switch f[0] {
		case "P":
			var order []int
			for _, s := range strings.Split(f[1], ",") {
				n, err := strconv.Atoi(s)
				if err != nil {
					reply("E " + hx.HexS("malformed order"))
					continue
				}
				order = append(order, n)
			}
			qc, err := qBuildOrder(0, qProgram{Raw: string(hx.UnHex(f[2]))}, func() []int { return order })
			if err != nil {
				cur = nil
				reply("E " + hx.HexS(err.Error()))
				continue
			}
			cur, ee = qc, qc.env.GetEvalEnv()
			reply("P " + qc.compile)
		case "W":
			// warm-up: the first type check reads the imported packages from source
			if _, _, _, _, err := qCheck("w", "w.go", string(hx.UnHex(f[2]))); err != nil {
				reply("E " + hx.HexS(err.Error()))
				continue
			}
			reply("W ok")
		case "C":
			fi, err := strconv.Atoi(f[1])
			if err != nil || cur == nil || fi < 0 || fi >= len(cur.funcs) {
				reply("E " + hx.HexS("no such function"))
				continue
			}
			args, err := qParseTuple(f[2])
			if err != nil {
				reply("E " + hx.HexS(err.Error()))
				continue
			}
			// one evaluation environment per program, like the engine's filterParams (qCallReal resets its stack)
			reply("R " + qCallReal(ee, cur.funcs[fi], cur.sigs[fi], args))
		default:
			reply("E " + hx.HexS("unknown request"))
		}
	}
}

// qParseTuple is the inverse of the protocol form written by qGenArgs ("-" = no arguments).
func qParseTuple(s string) ([]interface{}, error) {
	if s == "-" {
		return nil, nil
	}
	var vals []interface{}
	for _, p := range strings.Split(s, ",") {
		if len(p) < 3 || p[1] != ':' {
			return nil, fmt.Errorf("malformed argument %q", p)
		}
		switch p[0] {
		case 'i':
			n, err := strconv.Atoi(p[2:])
			if err != nil {
				return nil, err
			}
			vals = append(vals, n)
		case 's':
			vals = append(vals, string(hx.UnHex(p[2:])))
		case 'b':
			vals = append(vals, p[2:] == "1")
		default:
			return nil, fmt.Errorf("malformed argument %q", p)
		}
	}
	return vals, nil
}

// qProc is one child process.
type qProc struct {
	cmd     *exec.Cmd
	stdin   io.WriteCloser
	lines   chan string
	stderr  *bytes.Buffer
	stop    chan struct{}
	memMu   sync.Mutex
	memKill bool
}

// qReal is the parent's handle on the child.  A second, already warmed-up child (its importer has read
// strings/strconv/fmt) is kept ready, so that replacing a killed child costs nothing.
type qReal struct {
	self      string
	p         *qProc
	spare     chan *qProc
	loaded    *qCase
	Timeouts  int  // calls that did not answer within the deadline
	Confirmed bool // one of them did not answer within three times the deadline in a fresh child either
	Restarts  int
	deadline  time.Duration
}

func newQReal() (*qReal, error) {
	self, err := os.Executable()
	if err != nil {
		return nil, err
	}
	r := &qReal{self: self, deadline: qCallDeadline, spare: make(chan *qProc, 1)}
	go r.prepare()
	return r, nil
}

const qWarmSrc = "package w\n\nimport (\n\t\"fmt\"\n\t\"strconv\"\n\t\"strings\"\n)\n\nfunc w(s string, i int) string { return fmt.Sprintf(\"%s\", strings.TrimPrefix(s, strconv.Itoa(i))) }\n"

// prepare starts a child, warms it up and parks it in r.spare (nil when that failed).
func (r *qReal) prepare() {
	p, err := startQProc(r.self)
	if err == nil {
		if _, why := p.ask("W 0 "+hx.HexS(qWarmSrc), qBuildDeadline); why != "" {
			p.kill()
			p = nil
		}
	} else {
		p = nil
	}
	r.spare <- p
}

func startQProc(self string) (*qProc, error) {
	cmd := exec.Command(self, "c04child")
	stdin, err := cmd.StdinPipe()
	if err != nil {
		return nil, err
	}
	stdout, err := cmd.StdoutPipe()
	if err != nil {
		return nil, err
	}
	p := &qProc{cmd: cmd, stdin: stdin, stderr: &bytes.Buffer{}, lines: make(chan string, 4), stop: make(chan struct{})}
	cmd.Stderr = p.stderr
	if err := cmd.Start(); err != nil {
		return nil, err
	}
	go func() {
		rd := bufio.NewReaderSize(stdout, 1<<20)
		for {
			l, err := rd.ReadString('\n')
			if err != nil {
				close(p.lines)
				return
			}
			p.lines <- strings.TrimRight(l, "\n")
		}
	}()
	pid := cmd.Process.Pid
	go func() {
		for {
			select {
			case <-p.stop:
				return
			case <-time.After(25 * time.Millisecond):
			}
			b, err := os.ReadFile(fmt.Sprintf("/proc/%d/statm", pid))
			if err != nil {
				continue
			}
			f := strings.Fields(string(b))
			if len(f) > 1 {
				if pages, err := strconv.Atoi(f[1]); err == nil && pages*os.Getpagesize() > qChildRSSCap {
					p.memMu.Lock()
					p.memKill = true
					p.memMu.Unlock()
					_ = cmd.Process.Kill()
					return
				}
			}
		}
	}()
	return p, nil
}

func (p *qProc) kill() {
	close(p.stop)
	_ = p.stdin.Close()
	if os.Getenv("GOCOVERDIR") != "" {
		// a coverage-instrumented harness: the child writes its counters when it exits by itself (end of input)
		done := make(chan struct{})
		go func() { _ = p.cmd.Wait(); close(done) }()
		select {
		case <-done:
			return
		case <-time.After(2 * time.Second):
		}
		_ = p.cmd.Process.Kill()
		<-done
		return
	}
	_ = p.cmd.Process.Kill()
	_ = p.cmd.Wait()
}

func (p *qProc) memKilled() bool {
	p.memMu.Lock()
	defer p.memMu.Unlock()
	return p.memKill
}

// ask sends one request; the answer is "" with a reason ("timeout", "memory", "died…") when none came.
func (p *qProc) ask(req string, deadline time.Duration) (string, string) {
	if _, err := io.WriteString(p.stdin, req+"\n"); err != nil {
		return "", p.deathReason()
	}
	select {
	case l, ok := <-p.lines:
		if !ok {
			return "", p.deathReason()
		}
		return l, ""
	case <-time.After(deadline):
		if p.memKilled() {
			return "", "memory"
		}
		return "", "timeout"
	}
}

func (p *qProc) deathReason() string {
	// the reader saw EOF: the process is gone (or going); collect its last words
	if p.memKilled() {
		return "memory"
	}
	done := make(chan struct{})
	go func() { _ = p.cmd.Wait(); close(done) }()
	select {
	case <-done:
	case <-time.After(5 * time.Second):
	}
	if p.memKilled() {
		return "memory"
	}
	msg := p.stderr.String()
	if strings.Contains(msg, "out of memory") || strings.Contains(msg, "cannot allocate memory") {
		return "memory"
	}
	if strings.Contains(msg, "stack exceeds") || strings.Contains(msg, "stack overflow") {
		return "died:stack-overflow"
	}
	return "died"
}

func (r *qReal) start() error {
	p := <-r.spare
	go r.prepare()
	if p == nil {
		var err error
		if p, err = startQProc(r.self); err != nil {
			return err
		}
	}
	r.p, r.loaded = p, nil
	return nil
}

func (r *qReal) kill() {
	if r.p == nil {
		return
	}
	r.p.kill()
	r.p, r.loaded = nil, nil
}

// Close ends the child and the spare one.
func (r *qReal) Close() {
	r.kill()
	if r.spare != nil {
		if p := <-r.spare; p != nil {
			p.kill()
		}
		r.spare = nil
	}
}

// load makes qc the child's current program and checks that the child's compiler produced what the parent saw.
func (r *qReal) load(qc *qCase) error {
	if r.p != nil && r.loaded == qc {
		return nil
	}
	if r.p == nil {
		if err := r.start(); err != nil {
			return err
		}
		r.Restarts++
	}
	var order []string
	for _, i := range qc.order {
		order = append(order, strconv.Itoa(i))
	}
	ans, why := r.p.ask("P "+strings.Join(order, ",")+" "+hx.HexS(qc.file), qBuildDeadline)
	if why != "" {
		msg := r.p.stderr.String()
		r.kill()
		return fmt.Errorf("c04child did not compile a program (%s): %s", why, msg)
	}
	if ans != "P "+qc.compile {
		r.kill()
		return fmt.Errorf("c04child compiled a program differently from the parent:\nparent: %.300s\nchild:  %.300s", "P "+qc.compile, ans)
	}
	r.loaded = qc
	return nil
}

// Call runs function fi of qc on one argument tuple in the child.  Besides the answers of qCallReal it returns
// "timeout" (no answer within the deadline), "memory" (the call outgrew the child's memory cap) and "died…"
// (the process ended: fatal error of the Go runtime).
func (r *qReal) Call(qc *qCase, fi int, tuple string) (string, error) {
	if err := r.load(qc); err != nil {
		return "", err
	}
	ans, why := r.p.ask(fmt.Sprintf("C %d %s", fi, tuple), r.deadline)
	if why != "" {
		r.kill()
		if why == "timeout" {
			r.Timeouts++
		}
		return why, nil
	}
	if !strings.HasPrefix(ans, "R ") {
		return "", fmt.Errorf("c04child: unexpected answer %q", ans)
	}
	return strings.TrimPrefix(ans, "R "), nil
}

// Confirm repeats a call that timed out in a fresh child with three times the deadline.
func (r *qReal) Confirm(qc *qCase, fi int, tuple string) (string, error) {
	r.kill()
	old := r.deadline
	r.deadline = 3 * qCallDeadline
	defer func() { r.deadline = old }()
	t := r.Timeouts
	out, err := r.Call(qc, fi, tuple)
	r.Timeouts = t
	return out, err
}
