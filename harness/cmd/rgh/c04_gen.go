package main

import (
	"fmt"
	"math/rand"
	"strconv"
	"strings"
)

// Type-directed generator of programs in the Go subset quasigo accepts (C04).
// A program is a list of functions; a function may call the functions before it.

type qType int

const (
	tInt qType = iota
	tStr
	tBool
	tVoid
)

func (t qType) String() string {
	switch t {
	case tInt:
		return "int"
	case tStr:
		return "string"
	case tBool:
		return "bool"
	}
	return ""
}

type qVar struct {
	name     string
	ty       qType
	readonly bool // loop counters and parameters are never assigned by generated statements
	param    bool
	used     bool
}

type qSig struct {
	name   string
	params []qVar
	res    qType
}

type qGen struct {
	r         *rand.Rand
	prefix    string
	funcs     []qSig
	cur       *qSig
	scope     []*qVar
	nLocals   int
	names     map[string]bool
	loop      int
	imports   map[string]bool
	feat      map[string]int
	nameSeq   int
	budget    int    // remaining expression nodes of the current function (keeps programs small)
	nestFirst bool   // the next statement generated is a nested-loop shape (first statement of a loop-focused function)
	acc       string // int accumulator local of the current function ("" = none)
	sacc      string // string accumulator local
}

var qIntLits = []string{"0", "1", "2", "3", "5", "7", "10", "-1", "-3", "100", "255", "256", "1000000"}
var qBigLits = []string{"9223372036854775807", "-9223372036854775808", "4611686018427387904"}
var qStrLits = []string{"", "a", "b", "ab", "abc", "x", "hello", "go", "é", "foo bar"}

func (g *qGen) hit(f string) { g.feat[f]++ }

func (g *qGen) pick(n int) int { return g.r.Intn(n) }

func (g *qGen) chance(p float64) bool { return g.r.Float64() < p }

func (g *qGen) varsOf(ty qType, writable bool) []*qVar {
	var out []*qVar
	// innermost declaration of a name wins (a local may shadow a parameter)
	seen := map[string]bool{}
	for i := len(g.scope) - 1; i >= 0; i-- {
		v := g.scope[i]
		if seen[v.name] {
			continue
		}
		seen[v.name] = true
		if v.ty == ty && (!writable || !v.readonly) {
			out = append(out, v)
		}
	}
	return out
}

func (g *qGen) lit(ty qType) string {
	switch ty {
	case tInt:
		if g.chance(0.04) {
			return qBigLits[g.pick(len(qBigLits))]
		}
		return qIntLits[g.pick(len(qIntLits))]
	case tStr:
		if g.chance(0.05) {
			b := make([]byte, 1+g.pick(3))
			for i := range b {
				b[i] = byte(g.pick(256))
			}
			return strconv.Quote(string(b))
		}
		return strconv.Quote(qStrLits[g.pick(len(qStrLits))])
	default:
		if g.chance(0.5) {
			return "true"
		}
		return "false"
	}
}

func (g *qGen) leaf(ty qType, preferVar bool) string {
	vs := g.varsOf(ty, false)
	p := 0.6
	if preferVar {
		p = 0.92
	}
	if len(vs) > 0 && g.chance(p) {
		v := vs[g.pick(len(vs))]
		v.used = true
		return v.name
	}
	return g.lit(ty)
}

func isLit(s string) bool {
	if s == "true" || s == "false" || s == "" {
		return true
	}
	c := s[0]
	return c == '"' || c == '-' || (c >= '0' && c <= '9')
}

func (g *qGen) callable(ty qType) []qSig {
	var out []qSig
	for _, f := range g.funcs {
		if f.res == ty {
			out = append(out, f)
		}
	}
	return out
}

func (g *qGen) callExpr(f qSig, d int) string {
	var args []string
	for _, p := range f.params {
		args = append(args, g.expr(p.ty, d-1))
	}
	g.hit("call:user")
	return f.name + "(" + strings.Join(args, ", ") + ")"
}

// a string expression that go/types does not constant-fold (slicing a constant with constant
// indices out of range is a type error)
func (g *qGen) nonConstStr(d int) string {
	vs := g.varsOf(tStr, false)
	if len(vs) > 0 && g.chance(0.8) {
		v := vs[g.pick(len(vs))]
		v.used = true
		return v.name
	}
	if fs := g.callable(tStr); len(fs) > 0 && d > 0 {
		return g.callExpr(fs[g.pick(len(fs))], d)
	}
	if len(vs) > 0 {
		v := vs[0]
		v.used = true
		return v.name
	}
	return ""
}

func (g *qGen) index(d int) string {
	// non-negative literal, or an expression over variables
	if g.chance(0.5) {
		return []string{"0", "1", "2", "3"}[g.pick(4)]
	}
	e := g.expr(tInt, d-1)
	if isLit(e) && strings.HasPrefix(e, "-") {
		return "1"
	}
	if isLit(e) && len(e) > 3 {
		return "2"
	}
	return e
}

func (g *qGen) expr(ty qType, d int) string {
	g.budget--
	if d <= 0 || g.budget <= 0 {
		return g.leaf(ty, false)
	}
	switch ty {
	case tInt:
		switch k := g.pick(12); {
		case k < 3:
			return g.leaf(ty, false)
		case k < 6:
			op := []string{"+", "-"}[g.pick(2)]
			x := g.expr(tInt, d-1)
			y := g.expr(tInt, d-1)
			if isLit(x) && isLit(y) {
				y = g.leaf(tInt, true)
				if isLit(y) && (len(x) > 7 || len(y) > 7) {
					return x // avoid constant overflow (a type error)
				}
			}
			g.hit("int:" + op)
			return "(" + x + " " + op + " " + y + ")"
		case k < 8:
			g.hit("len")
			s := g.expr(tStr, d-1)
			return "len(" + s + ")"
		case k < 11:
			if fs := g.callable(tInt); len(fs) > 0 {
				return g.callExpr(fs[g.pick(len(fs))], d)
			}
			return g.leaf(ty, true)
		default:
			return g.leaf(ty, true)
		}
	case tStr:
		switch k := g.pick(14); {
		case k < 3:
			return g.leaf(ty, false)
		case k < 6:
			g.hit("str:+")
			x := g.expr(tStr, d-1)
			y := g.expr(tStr, d-1)
			return "(" + x + " + " + y + ")"
		case k < 9:
			base := g.nonConstStr(d - 1)
			if base == "" {
				return g.leaf(ty, false)
			}
			switch g.pick(4) {
			case 0:
				g.hit("slice:to")
				return base + "[:" + g.index(d) + "]"
			case 1:
				g.hit("slice:from")
				return base + "[" + g.index(d) + ":]"
			case 2:
				g.hit("slice:all")
				return base + "[:]"
			default:
				lo, hi := g.index(d), g.index(d)
				if isLit(lo) && isLit(hi) {
					a, _ := strconv.Atoi(lo)
					b, _ := strconv.Atoi(hi)
					if a > b {
						lo, hi = hi, lo
					}
				}
				g.hit("slice:both")
				return base + "[" + lo + ":" + hi + "]"
			}
		case k < 11:
			if fs := g.callable(tStr); len(fs) > 0 {
				return g.callExpr(fs[g.pick(len(fs))], d)
			}
			return g.leaf(ty, true)
		case k < 13:
			switch g.pick(5) {
			case 4:
				g.imports["strings"] = true
				if g.chance(0.5) {
					g.hit("native:ReplaceAll")
					return "strings.ReplaceAll(" + g.expr(tStr, d-1) + ", " + g.expr(tStr, d-1) + ", " + g.expr(tStr, d-1) + ")"
				}
				g.hit("native:Replace")
				return "strings.Replace(" + g.expr(tStr, d-1) + ", " + g.expr(tStr, d-1) + ", " + g.expr(tStr, d-1) + ", " + g.expr(tInt, d-1) + ")"
			case 0:
				g.imports["strings"] = true
				g.hit("native:TrimPrefix")
				return "strings.TrimPrefix(" + g.expr(tStr, d-1) + ", " + g.expr(tStr, d-1) + ")"
			case 1:
				g.imports["strings"] = true
				g.hit("native:TrimSuffix")
				return "strings.TrimSuffix(" + g.expr(tStr, d-1) + ", " + g.expr(tStr, d-1) + ")"
			case 2:
				g.imports["strconv"] = true
				g.hit("native:Itoa")
				return "strconv.Itoa(" + g.expr(tInt, d-1) + ")"
			default:
				g.imports["fmt"] = true
				g.hit("native:Sprintf")
				return `fmt.Sprintf("%s/%d/%v", ` + g.expr(tStr, d-1) + ", " + g.expr(tInt, d-1) + ", " + g.expr(tBool, d-1) + ")"
			}
		default:
			return g.leaf(ty, true)
		}
	default: // bool
		switch k := g.pick(20); {
		case k < 2:
			return g.leaf(ty, false)
		case k < 4:
			g.hit("bool:!")
			return "!" + g.paren(g.expr(tBool, d-1))
		case k < 7:
			g.hit("bool:||")
			return "(" + g.expr(tBool, d-1) + " || " + g.expr(tBool, d-1) + ")"
		case k < 10:
			g.hit("bool:&&")
			return "(" + g.expr(tBool, d-1) + " && " + g.expr(tBool, d-1) + ")"
		case k < 14:
			op := []string{"==", "!=", "<", "<=", ">", ">="}[g.pick(6)]
			x := g.expr(tInt, d-1)
			y := g.expr(tInt, d-1)
			if isLit(x) && isLit(y) {
				x = g.leaf(tInt, true)
			}
			g.hit("cmp:int" + op)
			return "(" + x + " " + op + " " + y + ")"
		case k < 16:
			op := []string{"==", "!="}[g.pick(2)]
			x := g.expr(tStr, d-1)
			y := g.expr(tStr, d-1)
			if isLit(x) && isLit(y) {
				x = g.leaf(tStr, true)
			}
			g.hit("cmp:str" + op)
			return "(" + x + " " + op + " " + y + ")"
		case k < 18:
			if fs := g.callable(tBool); len(fs) > 0 {
				return g.callExpr(fs[g.pick(len(fs))], d)
			}
			return g.leaf(ty, true)
		case k < 19:
			g.imports["strings"] = true
			fn := []string{"HasPrefix", "HasSuffix", "Contains"}[g.pick(3)]
			g.hit("native:" + fn)
			return "strings." + fn + "(" + g.expr(tStr, d-1) + ", " + g.expr(tStr, d-1) + ")"
		default:
			return g.leaf(ty, true)
		}
	}
}

func (g *qGen) paren(s string) string {
	if strings.HasPrefix(s, "(") || !strings.ContainsAny(s, " ") {
		return s
	}
	return "(" + s + ")"
}

// a bool expression that reads variables (conditions that are constant-folded exercise little)
func (g *qGen) cond(d int) string {
	for i := 0; i < 4; i++ {
		e := g.expr(tBool, d)
		if !isLit(e) {
			return e
		}
	}
	return g.expr(tBool, d)
}

func (g *qGen) fresh(base string) string {
	for {
		g.nameSeq++
		n := fmt.Sprintf("%s%d", base, g.nameSeq)
		if !g.names[n] {
			g.names[n] = true
			return n
		}
	}
}

func (g *qGen) randType() qType { return qType(g.pick(3)) }

type qBlock struct {
	lines []string
	ends  bool // last statement is a return or break
}

func ind(n int) string { return strings.Repeat("\t", n) }

func (g *qGen) declare(v *qVar) {
	g.scope = append(g.scope, v)
	g.nLocals++
}

// useStmt feeds the final value of a local into the function's accumulators (a0 int, z0 string), so that the
// result of the function depends on what the block computed.
func (g *qGen) useStmt(v *qVar, lvl int) string {
	v.used = true
	if g.acc == "" {
		switch v.ty {
		case tInt:
			return ind(lvl) + "if " + v.name + " > 1 {\n" + ind(lvl) + "}"
		case tStr:
			return ind(lvl) + "if len(" + v.name + ") > 1 {\n" + ind(lvl) + "}"
		default:
			return ind(lvl) + "if " + v.name + " {\n" + ind(lvl) + "}"
		}
	}
	switch v.ty {
	case tInt:
		return ind(lvl) + g.acc + " = " + g.acc + " + " + v.name
	case tStr:
		// inside two loops (always) or one loop (every other time) only the length flows into the result: a string
		// local that was computed from z0 would otherwise double z0 on every round of every enclosing loop
		if g.loop >= 2 || (g.loop == 1 && g.chance(0.5)) {
			return ind(lvl) + g.acc + " = " + g.acc + " + len(" + v.name + ")"
		}
		return ind(lvl) + g.sacc + " = " + g.sacc + " + " + v.name
	default:
		return ind(lvl) + "if " + v.name + " {\n" + ind(lvl+1) + g.acc + "++\n" + ind(lvl) + "}"
	}
}

// block generates the statements of a block at nesting level lvl with statement depth d.
func (g *qGen) block(n, d, lvl int, allowReturn bool) qBlock {
	var b qBlock
	mark := len(g.scope)
	for i := 0; i < n && !b.ends; i++ {
		st, ends := g.stmt(d, lvl, allowReturn)
		if st != "" {
			b.lines = append(b.lines, st)
		}
		b.ends = ends
	}
	uses := g.closeScope(mark, lvl)
	if len(uses) > 0 {
		if b.ends {
			last := b.lines[len(b.lines)-1]
			b.lines = append(append(b.lines[:len(b.lines)-1:len(b.lines)-1], uses...), last)
		} else {
			b.lines = append(b.lines, uses...)
		}
	}
	return b
}

// closeScope pops the locals declared since mark and returns the statements that read them: every local must
// be read somewhere (Go rejects unused variables), and with accumulators its final value flows into the result.
func (g *qGen) closeScope(mark, lvl int) []string {
	var uses []string
	for _, v := range g.scope[mark:] {
		if !v.param && v.name != g.acc && v.name != g.sacc && (!v.used || g.acc != "") {
			uses = append(uses, g.useStmt(v, lvl))
		}
	}
	g.scope = g.scope[:mark]
	return uses
}

func (b qBlock) text() string {
	if len(b.lines) == 0 {
		return ""
	}
	return strings.Join(b.lines, "\n") + "\n"
}

func (g *qGen) returnStmt(lvl, d int) string {
	if g.cur.res == tVoid {
		return ind(lvl) + "return"
	}
	if g.cur.res == tBool && g.chance(0.15) {
		return ind(lvl) + "return " + []string{"true", "false"}[g.pick(2)]
	}
	return ind(lvl) + "return " + g.expr(g.cur.res, d)
}

func (g *qGen) stmt(d, lvl int, allowReturn bool) (string, bool) {
	if g.nestFirst {
		g.nestFirst = false
		g.hit("nest:top-level")
		return g.nestLoopStmt(d, lvl, allowReturn), false
	}
	ed := 2
	if g.chance(0.3) {
		ed = 3
	}
	k := g.pick(100)
	switch {
	case k < 20: // define a local
		if g.nLocals >= 8 && !g.chance(0.02) {
			return g.assignStmt(lvl, ed), false
		}
		ty := g.randType()
		e := g.expr(ty, ed)
		name := g.fresh([]string{"n", "s", "b"}[ty])
		// occasionally reuse the name of a parameter in a nested block (legal Go: it shadows the parameter)
		if lvl > 1 && g.chance(0.03) && len(g.cur.params) > 0 {
			p := g.cur.params[g.pick(len(g.cur.params))]
			if !g.names["shadow:"+p.name] {
				g.names["shadow:"+p.name] = true
				name = p.name
				g.hit("shape:shadow-param")
			}
		}
		v := &qVar{name: name, ty: ty}
		g.declare(v)
		g.hit("stmt:define")
		return ind(lvl) + name + " := " + e, false
	case k < 29:
		return g.assignStmt(lvl, ed), false
	case k < 32:
		// v, err := strconv.Atoi(s); if err != nil / == nil { … }: multi-assign from a native, nil tests, object local
		if g.nLocals >= 7 {
			return g.assignStmt(lvl, ed), false
		}
		g.imports["strconv"] = true
		g.hit("stmt:atoi-multi-assign")
		arg := g.expr(tStr, 2)
		if g.chance(0.4) {
			arg = []string{`"12"`, `"-7"`, `"+3"`, `"x1"`, `""`, `"99999999999999999999"`, `"007"`, `"-"`}[g.pick(8)]
		}
		nv := &qVar{name: g.fresh("n"), ty: tInt}
		ev := g.fresh("e")
		line := ind(lvl) + nv.name + ", " + ev + " := strconv.Atoi(" + arg + ")\n"
		g.declare(nv)
		g.nLocals++ // the error variable takes a slot as well
		op := []string{"!=", "=="}[g.pick(2)]
		nilFirst := g.chance(0.3)
		cond := ev + " " + op + " nil"
		if nilFirst {
			cond = "nil " + op + " " + ev
		}
		body := ind(lvl+1) + nv.name + " = " + g.expr(tInt, 1)
		return line + ind(lvl) + "if " + cond + " {\n" + body + "\n" + ind(lvl) + "}", false
	case k < 37:
		vs := g.varsOf(tInt, true)
		if len(vs) == 0 {
			return g.assignStmt(lvl, ed), false
		}
		v := vs[g.pick(len(vs))]
		if v.param {
			return "", false
		}
		g.hit("stmt:incdec")
		return ind(lvl) + v.name + []string{"++", "--"}[g.pick(2)], false
	case k < 40: // compound assignment (rejected by the repaired compiler: one in three keeps the class alive)
		if !g.chance(0.34) {
			return g.assignStmt(lvl, ed), false
		}
		ty := []qType{tInt, tStr}[g.pick(2)]
		vs := g.varsOf(ty, true)
		var loc []*qVar
		for _, v := range vs {
			if !v.param {
				loc = append(loc, v)
			}
		}
		if len(loc) == 0 {
			return "", false
		}
		v := loc[g.pick(len(loc))]
		op := "+="
		if ty == tInt && g.chance(0.4) {
			op = "-="
		}
		g.hit("stmt:op-assign")
		return ind(lvl) + v.name + " " + op + " " + g.expr(ty, ed), false
	case k < 62: // if
		if d <= 0 {
			return g.assignStmt(lvl, ed), false
		}
		return g.ifStmt(d, lvl, allowReturn), false
	case k < 74: // loop
		if d <= 0 || g.loop >= 2 || g.nLocals >= 7 {
			return g.assignStmt(lvl, ed), false
		}
		if d >= 2 && g.loop <= 1 && g.nLocals <= 4 && g.chance(0.45) {
			return g.nestLoopStmt(d, lvl, allowReturn), false
		}
		return g.loopStmt(d, lvl, allowReturn), false
	case k < 86:
		if !allowReturn || lvl <= 1 {
			return g.assignStmt(lvl, ed), false
		}
		g.hit("stmt:return-nested")
		return g.returnStmt(lvl, ed), true
	case k < 92:
		if g.loop > 0 {
			g.hit("stmt:break")
			c := g.cond(ed)
			return ind(lvl) + "if " + c + " {\n" + ind(lvl+1) + "break\n" + ind(lvl) + "}", false
		}
		return g.assignStmt(lvl, ed), false
	default:
		if fs := g.callable(tVoid); len(fs) > 0 {
			g.hit("stmt:void-call")
			return ind(lvl) + g.callExpr(fs[g.pick(len(fs))], ed), false
		}
		return g.assignStmt(lvl, ed), false
	}
}

func (g *qGen) assignStmt(lvl, ed int) string {
	ty := g.randType()
	var loc []*qVar
	for _, v := range g.varsOf(ty, true) {
		if !v.param {
			loc = append(loc, v)
		}
	}
	if len(loc) == 0 {
		return ""
	}
	v := loc[g.pick(len(loc))]
	g.hit("stmt:assign")
	return ind(lvl) + v.name + " = " + g.expr(ty, ed)
}

func (g *qGen) ifStmt(d, lvl int, allowReturn bool) string {
	var sb strings.Builder
	init := ""
	if g.chance(0.04) {
		// `if x = e; cond` / `if x++; cond` (the init statement must not declare: quasigo would reject the use)
		if vs := g.varsOf(tInt, true); len(vs) > 0 && !vs[0].param {
			g.hit("shape:if-init")
			if g.chance(0.5) {
				init = vs[0].name + "++; "
			} else {
				init = vs[0].name + " = " + g.expr(tInt, 1) + "; "
			}
		}
	}
	sb.WriteString(ind(lvl) + "if " + init + g.cond(2) + " {\n")
	n := 1 + g.pick(3)
	if g.chance(0.08) {
		n = 0
	}
	then := g.block(n, d-1, lvl+1, allowReturn)
	sb.WriteString(then.text())
	k := g.pick(10)
	switch {
	case k < 4:
		g.hit("stmt:if")
		sb.WriteString(ind(lvl) + "}")
	case k < 8:
		g.hit("stmt:if-else")
		sb.WriteString(ind(lvl) + "} else {\n")
		els := g.block(1+g.pick(3), d-1, lvl+1, allowReturn)
		sb.WriteString(els.text())
		sb.WriteString(ind(lvl) + "}")
	default:
		g.hit("stmt:if-elseif")
		sb.WriteString(ind(lvl) + "} else if " + g.cond(2) + " {\n")
		b2 := g.block(1+g.pick(2), d-1, lvl+1, allowReturn)
		sb.WriteString(b2.text())
		if g.chance(0.6) {
			sb.WriteString(ind(lvl) + "} else {\n")
			b3 := g.block(1+g.pick(2), d-1, lvl+1, allowReturn)
			sb.WriteString(b3.text())
		}
		sb.WriteString(ind(lvl) + "}")
	}
	return sb.String()
}

func (g *qGen) loopStmt(d, lvl int, allowReturn bool) string {
	var sb strings.Builder
	i := g.fresh("i")
	iv := &qVar{name: i, ty: tInt, readonly: true, used: true}
	start := []string{"0", "0", "1", "-1"}[g.pick(4)]
	bound := []string{"1", "2", "3", "4"}[g.pick(4)]
	if g.chance(0.25) {
		// only a parameter (never assigned) may bound a loop
		for _, v := range g.varsOf(tStr, false) {
			if v.param {
				bound = "len(" + v.name + ")"
				break
			}
		}
	}
	sb.WriteString(ind(lvl) + i + " := " + start + "\n")
	g.declare(iv)
	g.loop++
	n := 1 + g.pick(3)
	switch k := g.pick(10); {
	case k < 4:
		g.hit("loop:for-cond")
		sb.WriteString(ind(lvl) + "for " + i + " < " + bound + " {\n")
		body := g.block(n, d-1, lvl+1, allowReturn)
		sb.WriteString(body.text())
		if !body.ends {
			sb.WriteString(ind(lvl+1) + i + "++\n")
		}
		sb.WriteString(ind(lvl) + "}")
	case k < 8:
		g.hit("loop:for-ever")
		sb.WriteString(ind(lvl) + "for {\n")
		sb.WriteString(ind(lvl+1) + "if " + i + " >= " + bound + " {\n" + ind(lvl+2) + "break\n" + ind(lvl+1) + "}\n")
		body := g.block(n, d-1, lvl+1, allowReturn)
		sb.WriteString(body.text())
		if !body.ends {
			sb.WriteString(ind(lvl+1) + i + "++\n")
		}
		sb.WriteString(ind(lvl) + "}")
	case k < 9 || !g.chance(0.3):
		// `for cond && i < bound`: an arbitrary condition in front of the guard
		g.hit("loop:for-cond-and")
		sb.WriteString(ind(lvl) + "for " + g.cond(2) + " && " + i + " < " + bound + " {\n")
		body := g.block(n, d-1, lvl+1, allowReturn)
		sb.WriteString(body.text())
		if !body.ends {
			sb.WriteString(ind(lvl+1) + i + "++\n")
		}
		sb.WriteString(ind(lvl) + "}")
	default:
		// `for ; i < bound; i++ { g++; if g > k { break }; … }`: terminates under Go's meaning and also when
		// the condition and the post statement are ignored
		g.hit("shape:for-clause")
		gd := g.fresh("g")
		gv := &qVar{name: gd, ty: tInt, readonly: true, used: true}
		sb.WriteString(ind(lvl) + gd + " := 0\n")
		g.declare(gv)
		sb.WriteString(ind(lvl) + "for ; " + i + " < " + bound + "; " + i + "++ {\n")
		sb.WriteString(ind(lvl+1) + gd + "++\n")
		sb.WriteString(ind(lvl+1) + "if " + gd + " > " + []string{"2", "3", "5"}[g.pick(3)] + " {\n" + ind(lvl+2) + "break\n" + ind(lvl+1) + "}\n")
		body := g.block(n, d-1, lvl+1, allowReturn)
		sb.WriteString(body.text())
		sb.WriteString(ind(lvl) + "}")
	}
	g.loop--
	return sb.String()
}

// exitCond is a condition for leaving a loop from inside its body: over the loop counter alone (true on some
// iteration whatever the arguments are; base is the counter's value in the first iteration), over a parameter,
// or a mixture.  The second result says that the condition does not depend on the arguments.
func (g *qGen) exitCond(i string, base, rounds int) (string, bool) {
	k := base + g.pick(rounds)
	counter := fmt.Sprintf("(%s >= %d)", i, k)
	if g.chance(0.3) {
		counter = fmt.Sprintf("(%s == %d)", i, k)
	}
	var ints, strs []string
	for _, p := range g.cur.params {
		switch p.ty {
		case tInt:
			ints = append(ints, p.name)
		case tStr:
			strs = append(strs, p.name)
		}
	}
	switch c := g.pick(10); {
	case c < 4:
		return counter, true
	case c < 5 && len(ints) > 0:
		return fmt.Sprintf("(%s >= %s)", i, ints[g.pick(len(ints))]), false
	case c < 6 && len(strs) > 0:
		return fmt.Sprintf("(%s >= len(%s))", i, strs[g.pick(len(strs))]), false
	case c < 8:
		return "(" + counter + " " + []string{"&&", "||"}[g.pick(2)] + " " + g.cond(2) + ")", false
	case c < 9:
		return g.cond(2), false
	}
	return counter, true
}

// effect is a statement that makes one more round of a loop visible in the function's result.
func (g *qGen) effect(n, i string, lvl int) string {
	switch g.pick(4) {
	case 0:
		return ind(lvl) + n + "++"
	case 1:
		return ind(lvl) + n + " = " + n + " + " + []string{"2", "3", "10", "100"}[g.pick(4)]
	case 2:
		return ind(lvl) + n + " = (" + n + " + " + i + ") + 1"
	default:
		if g.sacc != "" {
			return ind(lvl) + g.sacc + " = " + g.sacc + " + " + strconv.Quote([]string{"a", "b", "x", "ab"}[g.pick(4)])
		}
		return ind(lvl) + n + "++"
	}
}

// nestLoopStmt generates an outer loop whose body contains a nested loop (any loop shape, possibly two, possibly
// itself a nest) and, *behind* it, a way out of the outer loop: `if c { break }`, a block ending in break, break in
// an else branch, break under two ifs, a bare break.  The single-pass compiler keeps the jump targets of the
// innermost loop in its state and must restore them after the inner loop; the shapes here are the ones in which a
// stale target is used.  The exit condition mostly reads the loop counter, so that the break is executed whatever
// the arguments are; the counter is advanced at the top, in the middle or at the end of the body, so that a break
// that behaves like `continue` shows either as a different number of rounds or as a loop that never ends.
func (g *qGen) nestLoopStmt(d, lvl int, allowReturn bool) string {
	var sb strings.Builder
	i := g.fresh("i")
	n := g.fresh("n")
	rounds := 2 + g.pick(3)
	bound := strconv.Itoa(rounds)
	if g.chance(0.15) {
		for _, v := range g.varsOf(tStr, false) {
			if v.param {
				bound = "len(" + v.name + ")"
				break
			}
		}
	}
	sb.WriteString(ind(lvl) + i + " := 0\n")
	sb.WriteString(ind(lvl) + n + " := 0\n")
	g.declare(&qVar{name: i, ty: tInt, readonly: true, used: true})
	g.declare(&qVar{name: n, ty: tInt, readonly: true})
	g.loop++
	incPos := g.pick(3) // where the counter is advanced: 0 top, 1 between the nested loop and the exit, 2 end
	g.hit("nest:inc-" + []string{"top", "mid", "end"}[incPos])
	switch k := g.pick(10); {
	case k < 5:
		g.hit("nest:outer-for-cond")
		sb.WriteString(ind(lvl) + "for " + i + " < " + bound + " {\n")
	case k < 9:
		g.hit("nest:outer-for-ever")
		sb.WriteString(ind(lvl) + "for {\n")
		sb.WriteString(ind(lvl+1) + "if " + i + " >= " + bound + " {\n" + ind(lvl+2) + "break\n" + ind(lvl+1) + "}\n")
	default:
		g.hit("nest:outer-for-cond-and")
		sb.WriteString(ind(lvl) + "for " + g.cond(2) + " && " + i + " < " + bound + " {\n")
	}
	mark := len(g.scope)
	base := 0
	if incPos == 0 {
		sb.WriteString(ind(lvl+1) + i + "++\n")
		base = 1
	}
	sb.WriteString(g.effect(n, i, lvl+1) + "\n")
	ended := false
	if g.chance(0.4) {
		pre := g.block(1, d-2, lvl+1, false)
		sb.WriteString(pre.text())
	}
	if g.chance(0.15) {
		// control: a way out *before* the nested loop
		c, _ := g.exitCond(i, base, rounds)
		g.hit("nest:break-before")
		sb.WriteString(ind(lvl+1) + "if " + c + " {\n" + ind(lvl+2) + "break\n" + ind(lvl+1) + "}\n")
	}
	// the nested loop(s); without returns in two cases out of three, so that the exit behind them is reached
	innerReturn := allowReturn && g.chance(0.33)
	inners := 1
	if g.chance(0.15) {
		inners = 2
	}
	for k := 0; k < inners; k++ {
		inIf := g.chance(0.15)
		l := lvl + 1
		if inIf {
			g.hit("nest:inner-under-if")
			sb.WriteString(ind(l) + "if " + g.cond(2) + " {\n")
			l++
		}
		imark := len(g.scope)
		if g.loop <= 1 && g.nLocals <= 4 && g.chance(0.2) {
			g.hit("nest:three-levels")
			sb.WriteString(g.nestLoopStmt(d-1, l, innerReturn) + "\n")
		} else {
			sb.WriteString(g.loopStmt(d-1, l, innerReturn) + "\n")
		}
		if inIf {
			for _, u := range g.closeScope(imark, l) {
				sb.WriteString(u + "\n")
			}
			sb.WriteString(ind(lvl+1) + "}\n")
		}
	}
	// the inner counters flow into the result before the exit is taken
	for _, u := range g.closeScope(mark, lvl+1) {
		sb.WriteString(u + "\n")
	}
	if g.chance(0.3) {
		mid := g.block(1, d-2, lvl+1, allowReturn && g.chance(0.3))
		sb.WriteString(mid.text())
		ended = mid.ends
	}
	if incPos == 1 && !ended {
		sb.WriteString(ind(lvl+1) + i + "++\n")
		base = 1
	}
	if !ended {
		c, always := g.exitCond(i, base, rounds)
		form := g.pick(10)
		switch {
		case form < 4:
			g.hit("nest:exit-if-break")
			sb.WriteString(ind(lvl+1) + "if " + c + " {\n" + ind(lvl+2) + "break\n" + ind(lvl+1) + "}\n")
		case form < 6:
			g.hit("nest:exit-block-break")
			sb.WriteString(ind(lvl+1) + "if " + c + " {\n" + g.effect(n, i, lvl+2) + "\n" + ind(lvl+2) + "break\n" + ind(lvl+1) + "}\n")
		case form < 7:
			g.hit("nest:exit-else-break")
			sb.WriteString(ind(lvl+1) + "if !" + c + " {\n" + g.effect(n, i, lvl+2) + "\n" + ind(lvl+1) + "} else {\n" + ind(lvl+2) + "break\n" + ind(lvl+1) + "}\n")
		case form < 8:
			g.hit("nest:exit-if-if-break")
			c2, a2 := g.exitCond(i, base, rounds)
			always = always && a2
			sb.WriteString(ind(lvl+1) + "if " + c + " {\n" + ind(lvl+2) + "if " + c2 + " {\n" + ind(lvl+3) + "break\n" + ind(lvl+2) + "}\n" +
				g.effect(n, i, lvl+2) + "\n" + ind(lvl+1) + "}\n")
		case form < 9:
			g.hit("nest:exit-bare-break")
			sb.WriteString(ind(lvl+1) + "break\n")
			ended = true
		default:
			g.hit("nest:no-exit")
			always = false
		}
		if always && !innerReturn {
			g.hit("nest:exit-independent-of-arguments")
		}
	}
	if !ended && incPos != 2 && g.chance(0.03) {
		// `continue` is not in the accepted subset: the compiler must reject the function (and the model with it)
		c, _ := g.exitCond(i, base, rounds)
		g.hit("nest:continue-rejected")
		sb.WriteString(ind(lvl+1) + "if " + c + " {\n" + ind(lvl+2) + "continue\n" + ind(lvl+1) + "}\n")
	}
	if !ended {
		// statements behind the exit: executed by the rounds that stay in the loop
		if g.chance(0.6) {
			sb.WriteString(g.effect(n, i, lvl+1) + "\n")
		}
		if g.chance(0.3) {
			post := g.block(1, d-2, lvl+1, allowReturn && g.chance(0.3))
			sb.WriteString(post.text())
			ended = post.ends
		}
	}
	if incPos == 2 && !ended {
		sb.WriteString(ind(lvl+1) + i + "++\n")
	}
	sb.WriteString(ind(lvl) + "}")
	g.loop--
	g.hit("nest:loop-then-exit")
	return sb.String()
}

func (g *qGen) function(idx int) (string, qSig) {
	sig := qSig{name: fmt.Sprintf("%sf%d", g.prefix, idx)}
	np := g.pick(4)
	if g.chance(0.1) {
		np = 4 + g.pick(2)
	}
	for i := 0; i < np; i++ {
		ty := g.randType()
		sig.params = append(sig.params, qVar{name: fmt.Sprintf("%s%d", []string{"x", "t", "c"}[ty], i), ty: ty, readonly: true, param: true, used: true})
	}
	sig.res = g.randType()
	if g.chance(0.06) {
		sig.res = tVoid
	}
	g.cur = &sig
	g.scope = nil
	g.nLocals = 0
	g.names = map[string]bool{}
	g.nameSeq = 0
	g.loop = 0
	g.budget = 60 + g.pick(60)
	for i := range sig.params {
		g.scope = append(g.scope, &sig.params[i])
		g.names[sig.params[i].name] = true
	}
	var sb strings.Builder
	var ps []string
	for _, p := range sig.params {
		ps = append(ps, p.name+" "+p.ty.String())
	}
	res := ""
	if sig.res != tVoid {
		res = " " + sig.res.String()
	}
	sb.WriteString("func " + sig.name + "(" + strings.Join(ps, ", ") + ")" + res + " {\n")
	g.acc, g.sacc = "", ""
	// one function in five starts with a nested-loop shape at the top level of its body: every argument tuple reaches it
	nestFirst := sig.res != tVoid && g.chance(0.2)
	if sig.res != tVoid && (nestFirst || g.chance(0.8)) {
		// accumulators: every local's final value is folded into them and they are folded into the result
		g.acc, g.sacc = "a0", "z0"
		g.names["a0"], g.names["z0"] = true, true
		sb.WriteString("\ta0 := 0\n\tz0 := \"\"\n")
		g.declare(&qVar{name: "a0", ty: tInt, readonly: true, used: true})
		g.declare(&qVar{name: "z0", ty: tStr, readonly: true, used: true})
	}
	n := 1 + g.pick(5)
	if g.chance(0.15) {
		n = 0
	}
	if nestFirst && n == 0 {
		n = 1
	}
	g.nestFirst = nestFirst
	body := g.block(n, 3, 1, true)
	// block() popped the scope of the body; the final return may use the parameters and the accumulators
	sb.WriteString(body.text())
	if g.acc == "" {
		sb.WriteString(g.returnStmt(1, 3) + "\n")
	} else {
		switch sig.res {
		case tInt:
			sb.WriteString("\treturn (" + g.expr(tInt, 2) + " + a0) + len(z0)\n")
		case tStr:
			g.imports["strconv"] = true
			sb.WriteString("\treturn (" + g.expr(tStr, 2) + " + z0) + strconv.Itoa(a0)\n")
		case tBool:
			sb.WriteString("\tif " + g.cond(2) + " {\n\t\treturn (a0 + len(z0)) > " + []string{"0", "2", "5"}[g.pick(3)] + "\n\t}\n")
			sb.WriteString("\treturn (a0 - len(z0)) < " + []string{"1", "3", "-2"}[g.pick(3)] + "\n")
		default:
			sb.WriteString("\treturn\n")
		}
	}
	sb.WriteString("}\n")
	return sb.String(), sig
}

// qProgram is one generated file.
type qProgram struct {
	Raw     string // complete file text (debugging aid); overrides Src/Imports
	Src     string
	Sigs    []qSig
	Imports []string
}

func genProgram(r *rand.Rand, prefix string, feat map[string]int) qProgram {
	g := &qGen{r: r, prefix: prefix, imports: map[string]bool{}, feat: feat}
	nf := 2 + g.pick(4)
	var bodies []string
	for i := 0; i < nf; i++ {
		src, sig := g.function(i)
		bodies = append(bodies, src)
		g.funcs = append(g.funcs, sig)
	}
	var p qProgram
	for _, im := range []string{"fmt", "strconv", "strings"} {
		if g.imports[im] {
			p.Imports = append(p.Imports, im)
		}
	}
	p.Src = strings.Join(bodies, "\n")
	p.Sigs = g.funcs
	return p
}

func (p qProgram) file(pkg string) string {
	var sb strings.Builder
	sb.WriteString("package " + pkg + "\n\n")
	for _, im := range p.Imports {
		sb.WriteString("import \"" + im + "\"\n")
	}
	sb.WriteString("\n" + p.Src)
	return sb.String()
}

// stressProgram: functions that exceed the encoding limits of the bytecode (more than 256 constants of each kind;
// with big = true also a branch over more than 32767 bytes of code).
func stressProgram(r *rand.Rand, prefix string, big bool, arms int) (qProgram, [][]interface{}) {
	var sb strings.Builder
	if arms == 0 {
		arms = 258 + r.Intn(60)
	}
	name := prefix + "pick"
	sb.WriteString("func " + name + "(i int) string {\n")
	for k := 0; k < arms; k++ {
		fmt.Fprintf(&sb, "\tif i == %d {\n\t\treturn \"s%d\"\n\t}\n", k, k)
	}
	sb.WriteString("\treturn \"none\"\n}\n")
	args := [][]interface{}{{0}, {1}, {253}, {254}, {255}, {256}, {257}, {arms - 2}, {arms - 1}, {arms}}
	if big {
		far := prefix + "far"
		sb.WriteString("\nfunc " + far + "(c bool, x int) int {\n\tif c {\n")
		for k := 0; k < 4800; k++ {
			sb.WriteString("\t\tx = x + 1\n")
		}
		sb.WriteString("\t}\n\treturn x\n}\n")
	}
	return qProgram{Src: sb.String()}, args
}
