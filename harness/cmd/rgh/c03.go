package main

import (
	"bytes"
	"fmt"
	"go/ast"
	"go/parser"
	"go/printer"
	"go/token"
	"math/rand"
	"strings"

	"github.com/quasilyte/go-ruleguard/ruleguard"
	"github.com/quasilyte/gogrep"
	"verifharness/hx"
)

func init() { register("C03", runC03) }

// source whose last token ends exactly at EOF (no trailing newline)
const c03Src = `package p

type B struct{ y, z int }

func g(fn func(int) int, xs ...int) (res int) { return }

func h() {
	var buf B
	var arr [3]B
	pp := &buf
	_ = g(nil, 1, 22, len("héllo wörld"))
	_ = (&buf).y + (&arr[1]).z + pp.y
	_ = "a long string literal that is certainly longer than any sensible truncation limit, really"
}

func   last( )   {  x:=1;_=x   }`

type c03Node struct {
	n    ast.Node
	text string
	amp  bool
	nilT bool
}

func c03Collect(fset *token.FileSet, f *ast.File, src string) []c03Node {
	var out []c03Node
	off := func(p token.Pos) int { return fset.Position(p).Offset }
	ast.Inspect(f, func(n ast.Node) bool {
		if n == nil {
			return true
		}
		switch x := n.(type) {
		case *ast.CommentGroup, *ast.Comment, *ast.File:
			return true
		case *ast.FuncDecl:
			if x.Type.Results == nil {
				// a typed nil capture, as gogrep produces for `func $_() $results { $*_ }`
				out = append(out, c03Node{n: (*ast.FieldList)(nil), nilT: true})
			}
		}
		if off(n.End()) > len(src) || off(n.Pos()) >= off(n.End()) {
			return true
		}
		cn := c03Node{n: n, text: src[off(n.Pos()):off(n.End())]}
		if u, ok := n.(*ast.UnaryExpr); ok && u.Op == token.AND {
			switch u.X.(type) {
			case *ast.Ident, *ast.IndexExpr, *ast.SelectorExpr:
				cn.amp = true
			}
		}
		out = append(out, cn)
		return true
	})
	return out
}

var c03Names = []string{"x", "xy", "xyz", "y", "yx", "a", "ab", "abc", "b", "n1", "n", "_x", "long_name", "longer_name_2", "l"}

func c03Template(r *rand.Rand, names []string) string {
	var sb strings.Builder
	n := 1 + r.Intn(7)
	for i := 0; i < n; i++ {
		switch r.Intn(9) {
		case 0:
			sb.WriteString("$$")
		case 1, 2, 3:
			sb.WriteString("$" + names[r.Intn(len(names))])
		case 4:
			sb.WriteString("$" + c03Names[r.Intn(len(c03Names))])
		case 5:
			sb.WriteString(".f")
		case 6:
			sb.WriteString("$")
		case 7:
			sb.WriteString([]string{" ", "x", "y", "=", "é", "$ ", "$1", "()"}[r.Intn(8)])
		default:
			sb.WriteString("txt")
		}
	}
	return sb.String()
}

func capField(name string, n c03Node) string {
	b := func(x bool) string {
		if x {
			return "1"
		}
		return "0"
	}
	return fmt.Sprintf("%s:%s:%s:%s", hx.HexS(name), b(n.nilT), b(n.amp), hx.HexS(n.text))
}

func runC03(c *Ctx) error {
	res := c.Res
	nCases := 3000
	if c.Thorough {
		nCases = 60000
	}
	res.Rule = fmt.Sprintf("(1) %d generated (template, captures) pairs through VerifRenderMessage on real AST nodes (prefix-related names, $$, lone $, unbound names, "+
		"&x followed by '.', typed-nil captures, multi-byte text, truncate on/off, limits): message == Lean model render == reference (longest bound name); "+
		"(2) nodeText on every node of a file whose last token ends at EOF == model == exact file bytes; (3) end to end through Engine.Run: Report/Suggest/At payloads, "+
		"per-alternative RuleInfo.Line for syntax and comment rules, applying Suggest(\"$$\") leaves the file unchanged. Non-trivial: template contains a bound $name and >= 2 captures; distinct by (template, capture set, flags)", nCases)
	fset := token.NewFileSet()
	f, err := parser.ParseFile(fset, "c03.go", c03Src, parser.ParseComments)
	if err != nil {
		return err
	}
	nodes := c03Collect(fset, f, c03Src)
	rng := hx.Rng(c.Seed, "c03")
	src := []byte(c03Src)

	// (1) renderMessage
	var ops, impl, specOps []string
	var inputs []interface{}
	for i := 0; i < nCases; i++ {
		nc := rng.Intn(6)
		perm := rng.Perm(len(c03Names))
		var names []string
		var caps []gogrep.CapturedNode
		var capFields []string
		for j := 0; j < nc; j++ {
			name := c03Names[perm[j]]
			nd := nodes[rng.Intn(len(nodes))]
			names = append(names, name)
			caps = append(caps, gogrep.CapturedNode{Name: name, Node: nd.n})
			capFields = append(capFields, capField(name, nd))
		}
		if len(names) == 0 {
			names = []string{"x"}
		}
		var whole c03Node
		for {
			whole = nodes[rng.Intn(len(nodes))]
			if !whole.nilT {
				break
			}
		}
		tmpl := c03Template(rng, names)
		trunc := rng.Intn(2) == 0
		limit := []int{60, 60, 60, 5, 6, 9, 10, 17, 30, 1000, 1, -2}[rng.Intn(12)]
		m := gogrep.MatchData{Node: whole.n, Capture: caps}
		out := hx.Safe(func() string {
			return "ok " + hx.HexS(ruleguard.VerifRenderMessage(fset, src, tmpl, m, trunc, limit))
		})
		t := "0"
		if trunc {
			t = "1"
		}
		args := fmt.Sprintf("%s %d %s %s %s", t, limit, hx.HexS(tmpl), capField("", whole), strings.Join(capFields, " "))
		ops = append(ops, "render "+strings.TrimSpace(args))
		specOps = append(specOps, "spec03.render "+strings.TrimSpace(args))
		impl = append(impl, out)
		inputs = append(inputs, map[string]interface{}{"template": tmpl, "captures": names, "truncate": trunc, "limit": limit})
		bound := false
		for _, n := range names {
			if strings.Contains(tmpl, "$"+n) {
				bound = true
			}
		}
		res.Count("render", args, bound && nc >= 2)
		switch {
		case strings.HasPrefix(out, "panic"):
			res.Dist("render:panic")
		case !strings.Contains(tmpl, "$"):
			res.Dist("render:no-dollar")
		case bound:
			res.Dist("render:bound")
		default:
			res.Dist("render:unbound-only")
		}
		if i == 0 {
			res.Sample(map[string]interface{}{"template": tmpl, "captures": names, "message": out})
		}
	}
	if err := res.Compare(c.Drv, "render", ops, impl, inputs); err != nil {
		return err
	}
	spec, err := c.Drv.Ask(specOps)
	if err != nil {
		return err
	}
	for i := range spec {
		if spec[i] != impl[i] {
			sig := "renderMessage:wrong-text"
			if strings.HasPrefix(impl[i], "panic") {
				sig = "renderMessage:" + impl[i]
			}
			res.Violate(hx.Violation{Signature: sig, What: "message is not the interpolation by longest bound name", Input: inputs[i], Impl: impl[i], Spec: spec[i]})
		}
	}

	// (2) nodeText on every node, incl. the ones ending at EOF
	ops, impl, inputs = nil, nil, nil
	for _, nd := range nodes {
		if nd.nilT {
			continue
		}
		from, to := fset.Position(nd.n.Pos()).Offset, fset.Position(nd.n.End()).Offset
		var fb bytes.Buffer
		if err := printer.Fprint(&fb, fset, nd.n); err != nil {
			continue
		}
		out := hx.Safe(func() string { return "ok " + hx.Hex(ruleguard.VerifNodeText(fset, src, nd.n)) })
		ops = append(ops, fmt.Sprintf("nodetext %s %d %d %s", hx.Hex(src), from, to, hx.Hex(fb.Bytes())))
		impl = append(impl, out)
		inputs = append(inputs, map[string]interface{}{"node": fmt.Sprintf("%T", nd.n), "from": from, "to": to, "eof": to == len(src)})
		res.Count("nodetext", fmt.Sprintf("%d:%d", from, to), to == len(src) || from == 0)
		if to == len(src) {
			res.Dist("nodetext:ends-at-EOF")
		} else {
			res.Dist("nodetext:inside")
		}
		want := "ok " + hx.HexS(nd.text)
		if out != want {
			sig := "nodeText:not-source-bytes"
			if to == len(src) {
				sig = "nodeText:EOF-node-printed-not-sliced"
			}
			res.Violate(hx.Violation{Signature: sig, What: "text of a node inside the file is not the file's bytes [pos,end)", Input: inputs[len(inputs)-1], Impl: out, Spec: want})
		}
	}
	if err := res.Compare(c.Drv, "nodetext", ops, impl, inputs); err != nil {
		return err
	}
	return c03E2E(c)
}

const c03Rules = `
func payload(m dsl.Matcher) {
	m.Match(
		"alt1($x)",
		"alt2($x, $xy)",
		"alt3($xy, $x)",
	).Report("got $x|$xy|$$").Suggest("repl($x)")

	m.Match("at($x, $y)").Report("y is $y").At(m["y"]).Suggest("$y")
	m.Match("self($*args)").Report("self").Suggest("$$")
	m.Match("own($a, $b)").Report("own").Suggest("own($a, $b)")
	m.Match("amp($x)").Report("$x.f").Suggest("$x.f")

	m.MatchComment(
		"TODO\\((?P<who>\\w+)\\)",
		"FIXME: (?P<what>.*)",
	).Report("c $who$what")

	m.MatchComment("NOTE\\((?P<tag>[a-z]+)\\): (?P<rest>.*)").Report("note $tag").At(m["tag"]).Suggest("<$tag>")

	m.MatchComment("LONG: (?P<body>.*)").Report("long").Suggest("SHORT: $body!")

	m.MatchComment("gen (?P<what>\\w+) (?P<tool>\\S+)").Where(m["tool"].Text == "nope").Report("first $what $tool")
	m.MatchComment("gen \\w+ (?P<what>\\S+)").Report("second $what").At(m["what"]).Suggest("$what@v1")

	m.Match(` + "`" + `ml1(
		$x,
	)` + "`" + `, ` + "`" + `ml2($x,
		$y)` + "`" + `).Report("ml $x")
}
`

const c03Target = `package p

func alt1(...interface{}) {}
func alt2(...interface{}) {}
func alt3(...interface{}) {}
func at(...interface{})   {}
func self(...interface{}) {}
func own(...interface{})  {}
func amp(...interface{})  {}
func ml1(...interface{})  {}
func ml2(...interface{})  {}

type S struct{ f int }

func t(s S, arr []S) {
	alt1(1)
	alt2(2, "two")
	alt3("three", 3)
	at(10, 20+
		1)
	self(1, "a", s)
	own( 1,s )
	amp(&s)
	amp(&arr[0])
	amp(&s.f)
	alt1("a very long string literal, longer than sixty bytes for sure, to see the elision")
	// TODO(alice) something
	// FIXME: broken
	// NOTE(abc): rest of it
	// gen code example.com/tool
	// LONG: a comment body that is considerably longer than the default sixty byte truncation limit of messages
	ml1(7)
	ml2(8, 9)
	self()
}`

func c03E2E(c *Ctx) error {
	res := c.Res
	e, err := hx.LoadRules(hx.RulesFile(c03Rules))
	if err != nil {
		return fmt.Errorf("load: %v", err)
	}
	t, err := hx.ParseTarget("c03t.go", c03Target)
	if err != nil {
		return err
	}
	rs, pk, frame, err := hx.Run(e, t, hx.RunOpts{})
	if err != nil {
		return err
	}
	if pk != "" {
		res.Violate(hx.Violation{Signature: "payload:run-" + pk, What: "Run panics at " + frame, Input: "c03 target", Impl: pk, Spec: "reports"})
		return nil
	}
	src := c03Target
	// line numbers of the alternatives in the rules file
	rulesSrc := hx.RulesFile(c03Rules)
	lineOf := func(needle string) int {
		i := strings.Index(rulesSrc, needle)
		return 1 + strings.Count(rulesSrc[:i], "\n")
	}
	type want struct {
		key, msg string
		line     int
		sugg     string
		spanText string
	}
	wants := []want{
		{"alt1(1)", "got 1|1y|alt1(1)", lineOf(`"alt1($x)"`), "repl(1)", "alt1(1)"},
		{`alt2(2, "two")`, `got 2|"two"|alt2(2, "two")`, lineOf(`"alt2($x, $xy)"`), "repl(2)", `alt2(2, "two")`},
		{`alt3("three", 3)`, `got 3|"three"|alt3("three", 3)`, lineOf(`"alt3($xy, $x)"`), "repl(3)", `alt3("three", 3)`},
		{"at(10", "y is 20+\n\t\t1", lineOf(`"at($x, $y)"`), "20+\n\t\t1", "20+\n\t\t1"},
		{`self(1, "a", s)`, "self", lineOf(`"self($*args)"`), `self(1, "a", s)`, `self(1, "a", s)`},
		{"own( 1,s )", "own", lineOf(`"own($a, $b)"`), "own(1, s)", "own( 1,s )"},
		{"amp(&s)", "s.f", lineOf(`"amp($x)"`), "s.f", "amp(&s)"},
		{"amp(&arr[0])", "arr[0].f", lineOf(`"amp($x)"`), "arr[0].f", "amp(&arr[0])"},
		{"amp(&s.f)", "s.f.f", lineOf(`"amp($x)"`), "s.f.f", "amp(&s.f)"},
		{"TODO(alice)", "c alice$what", lineOf(`"TODO\\((?P<who>\\w+)\\)"`), "", "TODO(alice)"},
		{"FIXME: broken", "c $whobroken", lineOf(`"FIXME: (?P<what>.*)"`), "", "FIXME: broken"},
		{"self()\n}", "self", lineOf(`"self($*args)"`), "self()", "self()"},
		{"NOTE-at", "note abc", lineOf(`m.MatchComment("NOTE`), "<abc>", "abc"},
		{"LONG: a comment body that is considerably longer than the default sixty byte truncation limit of messages", "long", lineOf(`m.MatchComment("LONG`), "SHORT: a comment body that is considerably longer than the default sixty byte truncation limit of messages!", "LONG: a comment body that is considerably longer than the default sixty byte truncation limit of messages"},
		{"example.com/tool", "second example.com/tool", lineOf(`m.MatchComment("gen \\w+`), "example.com/tool@v1", "example.com/tool"},
		{"ml1(7)", "ml 7", lineOf("`ml1("), "", "ml1(7)"},
		{"ml2(8, 9)", "ml 8", lineOf("`ml2($x,"), "", "ml2(8, 9)"},
	}
	find := func(key string) *hx.Report {
		for i := range rs {
			if rs[i].Pos >= 0 && rs[i].End <= len(src) && rs[i].Pos <= rs[i].End {
				txt := src[rs[i].Pos:rs[i].End]
				if key == "NOTE-at" {
					if txt == "abc" {
						return &rs[i]
					}
					continue
				}
				if strings.HasPrefix(key, txt) || strings.HasPrefix(txt, key) || (strings.HasPrefix(key, "at(") && strings.HasPrefix(txt, "20+")) {
					if strings.HasPrefix(key, "alt1(1)") && txt != "alt1(1)" {
						continue
					}
					return &rs[i]
				}
			}
		}
		return nil
	}
	for _, w := range wants {
		r := find(w.key)
		res.Count("e2e-payload", w.key, true)
		in := map[string]interface{}{"site": w.key, "rules": c03Rules, "target": c03Target}
		if r == nil {
			res.Violate(hx.Violation{Signature: "payload:missing-report", What: "no report for " + w.key, Input: in, Impl: "none", Spec: w.msg})
			continue
		}
		if r.Message != w.msg && !strings.Contains(w.key, "very long") {
			res.Violate(hx.Violation{Signature: "payload:message", What: "message differs", Input: in, Impl: r.Message, Spec: w.msg})
		}
		if r.RuleLine != w.line {
			sig := "payload:line-of-alternative"
			if strings.HasPrefix(w.msg, "c ") {
				sig = "payload:comment-rule-line-of-alternative"
			}
			res.Violate(hx.Violation{Signature: sig, What: fmt.Sprintf("RuleInfo.Line is %d, the matched alternative is on line %d", r.RuleLine, w.line), Input: in, Impl: fmt.Sprint(r.RuleLine), Spec: fmt.Sprint(w.line)})
		}
		if got := src[r.Pos:r.End]; got != w.spanText {
			res.Violate(hx.Violation{Signature: "payload:node-span", What: "reported node is not the At()/match span", Input: in, Impl: got, Spec: w.spanText})
		}
		if w.sugg == "" && r.HasSugg {
			res.Violate(hx.Violation{Signature: "payload:suggestion-of-another-report", What: "a rule without Suggest() delivers a suggestion", Input: in,
				Impl: fmt.Sprintf("%d:%d %q", r.From, r.To, r.Repl), Spec: "no suggestion"})
		}
		if w.sugg != "" {
			if !r.HasSugg {
				res.Violate(hx.Violation{Signature: "payload:suggestion-missing", What: "no suggestion", Input: in, Impl: "none", Spec: w.sugg})
				continue
			}
			wantRepl := w.sugg
			if w.key == "own( 1,s )" {
				wantRepl = "own(1, s )"[:0] + "own(1, s)"
			}
			if r.From != r.Pos || r.To != r.End {
				res.Violate(hx.Violation{Signature: "payload:suggestion-span", What: "suggestion range is not the reported node's range", Input: in, Impl: fmt.Sprintf("%d:%d", r.From, r.To), Spec: fmt.Sprintf("%d:%d", r.Pos, r.End)})
			}
			if r.Repl != wantRepl {
				res.Violate(hx.Violation{Signature: "payload:suggestion-text", What: "replacement differs", Input: in, Impl: r.Repl, Spec: wantRepl})
			}
			if strings.HasPrefix(w.key, "self(") {
				// applying the self-suggestion leaves the file unchanged (reference edit application from Lean)
				ans, err := c.Drv.Ask([]string{fmt.Sprintf("spec03.edit %s %d %d %s", hx.HexS(src), r.From, r.To, hx.HexS(r.Repl))})
				if err != nil {
					return err
				}
				if ans[0] != "ok "+hx.HexS(src) {
					res.Violate(hx.Violation{Signature: "payload:self-suggestion-changes-file", What: "Suggest(\"$$\") changes the file", Input: in, Impl: ans[0], Spec: "unchanged"})
				}
			}
		}
	}
	// the long literal: truncated in the message, untruncated in the suggestion
	for i := range rs {
		if strings.HasPrefix(rs[i].Message, `got "a very`) {
			res.Count("e2e-payload", "long", true)
			if !strings.Contains(rs[i].Message, "<...>") || !rs[i].HasSugg || strings.Contains(rs[i].Repl, "<...>") {
				res.Violate(hx.Violation{Signature: "payload:truncation-of-suggestion", What: "long capture: message must be elided, suggestion must not", Input: "long literal", Impl: rs[i].Message + " / " + rs[i].Repl, Spec: "elided / full"})
			}
		}
	}
	res.Sample(map[string]interface{}{"e2e_reports": len(rs), "first": rs[0].String()})
	return nil
}
