package main

// C02, captures that are part of a declaration the pattern is rooted at.
//
// The probe patterns of the main grid capture expressions below a statement.  Here the pattern's root is the function
// declaration (or literal) itself and the capture is one of its parameter names, its name, or its receiver: the
// predicates whose fact depends on "the function the node belongs to" (Object.IsVariadicParam) or on the declared
// object (Object.Is, Object.IsGlobal, Type.Is) are evaluated while the walker stands ON the declaration, not inside it.
//
// Oracle: the rule without Where() gives the matches; the captured identifier is located in the matched declaration by
// the pattern's shape (first / last parameter name, function name, receiver name); the fact is read from go/types
// (Info.Defs of the identifier; `...T` parameter of the declaration's own signature; package scope membership;
// types.Identical with the type the string spells).  A rule with the predicate must report exactly the matches for
// which the fact holds, the rule with the negated predicate the others.

import (
	"fmt"
	"go/ast"
	"go/types"
	"sort"
	"strings"

	"verifharness/hx"
)

const c02DeclTarget = `package p

type T struct{ n int }

var gv = 1

func plain(a int) {}

func vari(xs ...int) {}

func mixed(s string, rest ...string) {}

func two(a int, b string) {}

func none() {}

func (t T) method(ys ...int) {}

func (t *T) pmethod(k int) {}

func slicep(zs []int) {}

func user() {
	f := func(vs ...int) {}
	g := func(w int) {}
	h := func(p string, qs ...interface{}) {}
	_, _, _ = f, g, h
	vari(1, 2)
}

func shadow(gv ...int) {}

// end
`

type c02DeclShape struct {
	name    string
	pattern string
	// which identifier of the matched FuncDecl / FuncLit is $x: "first-param", "last-param", "name", "recv"
	x string
}

var c02DeclShapes = []c02DeclShape{
	{"decl:variadic-last-param", "func $f($x ...$_) { $*_ }", "last-param"},
	{"decl:only-param", "func $f($x $_) { $*_ }", "first-param"},
	{"decl:last-of-two", "func $f($_ $_, $x $_) { $*_ }", "last-param"},
	{"decl:last-of-two-variadic", "func $f($_ $_, $x ...$_) { $*_ }", "last-param"},
	{"decl:first-of-two", "func $f($x $_, $_ $_) { $*_ }", "first-param"},
	{"decl:name", "func $x($*_) { $*_ }", "name"},
	{"method:variadic-param", "func ($_ $_) $f($x ...$_) { $*_ }", "last-param"},
	{"method:param", "func ($_ $_) $f($x $_) { $*_ }", "first-param"},
	{"method:receiver", "func ($x $_) $f($*_) { $*_ }", "recv"},
	{"lit:variadic-param", "func($x ...$_) { $*_ }", "last-param"},
	{"lit:only-param", "func($x $_) { $*_ }", "first-param"},
	{"lit:last-of-two-variadic", "func($_ $_, $x ...$_) { $*_ }", "last-param"},
}

type c02DeclPred struct {
	name string
	dsl  string
	fact func(t *hx.Target, fn ast.Node, id *ast.Ident) bool
}

func c02DeclFuncType(fn ast.Node) (*ast.FuncType, *ast.FieldList) {
	switch n := fn.(type) {
	case *ast.FuncDecl:
		return n.Type, n.Recv
	case *ast.FuncLit:
		return n.Type, nil
	}
	return nil, nil
}

var c02DeclPreds = []c02DeclPred{
	{"Object.IsVariadicParam", `m["x"].Object.IsVariadicParam()`, func(t *hx.Target, fn ast.Node, id *ast.Ident) bool {
		ft, _ := c02DeclFuncType(fn)
		if ft == nil || ft.Params == nil || len(ft.Params.List) == 0 {
			return false
		}
		last := ft.Params.List[len(ft.Params.List)-1]
		if _, ok := last.Type.(*ast.Ellipsis); !ok {
			return false
		}
		for _, n := range last.Names {
			if n == id {
				return true
			}
		}
		return false
	}},
	{"Object.Is(Var)", `m["x"].Object.Is("Var")`, func(t *hx.Target, fn ast.Node, id *ast.Ident) bool {
		_, ok := t.Info.ObjectOf(id).(*types.Var)
		return ok
	}},
	{"Object.Is(Func)", `m["x"].Object.Is("Func")`, func(t *hx.Target, fn ast.Node, id *ast.Ident) bool {
		_, ok := t.Info.ObjectOf(id).(*types.Func)
		return ok
	}},
	{"Object.IsGlobal", `m["x"].Object.IsGlobal()`, func(t *hx.Target, fn ast.Node, id *ast.Ident) bool {
		obj := t.Info.ObjectOf(id)
		return obj != nil && obj.Parent() == t.Pkg.Scope()
	}},
	{"Type.Is([]int)", `m["x"].Type.Is("[]int")`, func(t *hx.Target, fn ast.Node, id *ast.Ident) bool {
		obj := t.Info.ObjectOf(id)
		return obj != nil && types.Identical(obj.Type(), types.NewSlice(types.Typ[types.Int]))
	}},
	{"Type.Is(int)", `m["x"].Type.Is("int")`, func(t *hx.Target, fn ast.Node, id *ast.Ident) bool {
		obj := t.Info.ObjectOf(id)
		return obj != nil && types.Identical(obj.Type(), types.Typ[types.Int])
	}},
}

// c02DeclCapture: the identifier $x stands for in the matched declaration.
func c02DeclCapture(fn ast.Node, which string) *ast.Ident {
	ft, recv := c02DeclFuncType(fn)
	if ft == nil {
		return nil
	}
	one := func(f *ast.Field) *ast.Ident {
		if f == nil || len(f.Names) != 1 {
			return nil
		}
		return f.Names[0]
	}
	switch which {
	case "name":
		if d, ok := fn.(*ast.FuncDecl); ok {
			return d.Name
		}
	case "recv":
		if recv != nil && len(recv.List) == 1 {
			return one(recv.List[0])
		}
	case "first-param":
		if ft.Params != nil && len(ft.Params.List) > 0 {
			return one(ft.Params.List[0])
		}
	case "last-param":
		if ft.Params != nil && len(ft.Params.List) > 0 {
			return one(ft.Params.List[len(ft.Params.List)-1])
		}
	}
	return nil
}

func runC02Decl(c *Ctx) error {
	res := c.Res
	t, err := hx.ParseTarget("c02decl.go", c02DeclTarget)
	if err != nil {
		return fmt.Errorf("c02 decl target: %v", err)
	}
	// the declarations and literals of the file by start offset
	byPos := map[int]ast.Node{}
	ast.Inspect(t.File, func(n ast.Node) bool {
		switch n.(type) {
		case *ast.FuncDecl, *ast.FuncLit:
			byPos[t.Fset.Position(n.Pos()).Offset] = n
		}
		return true
	})
	run := func(pattern, where string) ([]int, string, error) {
		body := "m.Match(`" + pattern + "`)"
		if where != "" {
			body += ".Where(" + where + ")"
		}
		e, lerr := hx.LoadRules(hx.RulesFile("func r(m dsl.Matcher) {\n\t" + body + ".Report(\"hit\")\n}\n"))
		if lerr != nil {
			return nil, "", fmt.Errorf("load %s / %s: %v", pattern, where, lerr)
		}
		reps, pk, frame, rerr := hx.Run(e, t, hx.RunOpts{})
		if rerr != nil {
			return nil, "", rerr
		}
		if pk != "" {
			return nil, pk + "@" + frame, nil
		}
		var ps []int
		for _, r := range reps {
			ps = append(ps, r.Pos)
		}
		sort.Ints(ps)
		return ps, "", nil
	}
	for _, sh := range c02DeclShapes {
		matches, pk, err := run(sh.pattern, "")
		if err != nil {
			return err
		}
		if pk != "" {
			res.Violate(hx.Violation{Signature: "decl-capture:panic:" + pk, What: "Run panics on a declaration-rooted pattern", Input: map[string]interface{}{"pattern": sh.pattern, "file_source": c02DeclTarget}, Impl: pk, Spec: "no panic"})
			continue
		}
		if len(matches) == 0 {
			res.Errorf("c02 decl: pattern %s matches nothing in the target", sh.pattern)
			continue
		}
		res.Dist(fmt.Sprintf("decl-capture:shape:%s:matches=%d", sh.name, len(matches)))
		for _, pr := range c02DeclPreds {
			for _, neg := range []bool{false, true} {
				where := pr.dsl
				if neg {
					where = "!" + where
				}
				var want []int
				var wantNames []string
				for _, p := range matches {
					fn := byPos[p]
					id := c02DeclCapture(fn, sh.x)
					if fn == nil || id == nil {
						res.Errorf("c02 decl: cannot locate $x of %s in the match at offset %d", sh.pattern, p)
						continue
					}
					if pr.fact(t, fn, id) != neg {
						want = append(want, p)
						wantNames = append(wantNames, id.Name)
					}
				}
				got, pk, err := run(sh.pattern, where)
				if err != nil {
					return err
				}
				res.Count("decl-capture", sh.pattern+"\x00"+where, true)
				in := map[string]interface{}{"pattern": sh.pattern, "where": where, "capture": "$x = the " + sh.x + " of the matched declaration", "file_source": c02DeclTarget}
				switch {
				case pk != "":
					res.Violate(hx.Violation{Signature: "decl-capture:" + pr.name + ":panic", What: "Run panics", Input: in, Impl: pk, Spec: "no panic"})
				case fmt.Sprint(got) != fmt.Sprint(want):
					dir := "want-t"
					if len(got) > len(want) {
						dir = "want-f"
					}
					res.Violate(hx.Violation{Signature: "decl-capture:" + pr.name + ":" + strings.SplitN(sh.name, ":", 2)[0] + ":" + dir,
						What:  "a predicate on a capture that is part of the declaration the pattern is rooted at does not report the matches for which the fact (go/types) holds",
						Input: in, Impl: fmt.Sprintf("reports at offsets %v", got), Spec: fmt.Sprintf("offsets %v (captures %v)", want, wantNames)})
					res.Dist("decl-capture:DIFFERS:" + pr.name)
				default:
					res.Dist("decl-capture:agrees:" + pr.name)
					if len(want) > 0 {
						res.Dist("decl-capture:verdict-seen:" + pr.name + ":t")
					}
					if len(want) < len(matches) {
						res.Dist("decl-capture:verdict-seen:" + pr.name + ":f")
					}
				}
			}
		}
	}
	return nil
}
