package main

// C02, predicates whose string argument names a package: Contains(`pkg.F(...)`), Type.Is("pkg.T"), Type.Implements("pkg.I"),
// Type.HasMethod("pkg.I.M") (and File().Imports("path"), which must NOT go through any table) in rules files with SEVERAL
// rule groups that bind the same package name differently.
//
// dsl: "Import loads given package path into a rule group imports table"; the table is the group's own.  A package name in
// the argument of a predicate means the path the group's table gives it (the base name of an Import()ed path), otherwise the
// standard library package of that name (rand -> math/rand, template -> text/template); a name bound by neither makes a
// Contains sub-pattern a plain selector on an identifier of that name.
//
// Every rule k of a generated file matches `p<k>($x)`; the target calls every p<k> on each of a pool of expressions, so the
// set of reported calls of rule k shows what its argument meant.  The fact per (rule, expression) is computed from go/ast and
// go/types of the target alone:
//   Contains(`P.F(args)`)  some call inside the captured expression has the shape of args and its function is `id.F` with
//                          ObjectOf(id) a *types.PkgName importing the path P resolves to
//   Type.Is("..P.T")       types.Identical(type of the capture, the type built from the object T of the package at that path)
//   Type.Underlying().Is   the same for the underlying type of the capture
//   SinkType.Is("..P.T")   rule k matches `w<k>($_).($_)`, an argument of a call: the callee's parameter type is identical to that type
//   Type.Implements        types.Implements(type, that interface)
//   Type.HasMethod         the method set of an addressable value of the type has M with an identical signature
//   File().Imports(path)   the file has an import of exactly that path
// The packages c02m/... exist twice: on disk in a scratch module (the loader resolves Implements / HasMethod arguments by
// importing the package) and type-checked in memory for the target.

import (
	"fmt"
	"go/ast"
	"go/importer"
	"go/parser"
	"go/token"
	"go/types"
	"math/rand"
	"os"
	"path"
	"path/filepath"
	"regexp"
	"runtime"
	"sort"
	"strconv"
	"strings"
	"sync"

	"github.com/quasilyte/go-ruleguard/ruleguard"
	"verifharness/hx"
)

var c02IMDiskPkgs = map[string]string{
	"c02m/a/kit":  "package kit\n\ntype T struct{ A int }\n\ntype I interface{ M() }\n\nfunc Make(x int) T { return T{} }\n\nfunc Read(b []byte) (int, error) { return 0, nil }\n",
	"c02m/b/kit":  "package kit\n\ntype T struct{ B string }\n\ntype I interface{ M(x int) }\n\ntype Only struct{}\n\nfunc Make(x int) T { return T{} }\n\nfunc Read(b []byte) (int, error) { return 0, nil }\n",
	"c02m/c/rand": "package rand\n\ntype T struct{}\n\ntype Rand struct{}\n\ntype Source interface{ Int63() int }\n\nfunc Read(b []byte) (int, error) { return 0, nil }\n\nfunc Int() int { return 0 }\n",
}

// the standard library package a name stands for when the group's table does not bind it
var c02IMDefaults = map[string]string{"rand": "math/rand", "template": "text/template", "fmt": "fmt", "io": "io"}

const c02IMNumRules = 12

const c02IMTargetHead = `package target

import (
	akit "c02m/a/kit"
	kit "c02m/b/kit"
	xrand "c02m/c/rand"
	crand "crypto/rand"
	"fmt"
	htemplate "html/template"
	"io"
	"math/rand"
	"text/template"
)

type implA struct{}

func (implA) M() {}

type implB struct{}

func (implB) M(x int) {}

type srcStd struct{}

func (srcStd) Int63() int64    { return 0 }
func (srcStd) Seed(seed int64) {}

type srcX struct{}

func (srcX) Int63() int { return 0 }

type MA map[string]akit.T
type MB map[string]kit.T
type SB []kit.T
type PA *akit.T

type local struct{}

func (local) Read(b []byte) (int, error) { return 0, nil }
func (local) Make(x int) int             { return 0 }
func (local) Int() int                   { return 0 }

var (
	buf   []byte
	va    akit.T
	vb    kit.T
	vbs   []kit.T
	vas   []akit.T
	vma   map[string]akit.T
	vmb   map[string]kit.T
	vonly kit.Only
	vx    xrand.T
	vxr   *xrand.Rand
	vr    *rand.Rand
	vttp  *template.Template
	vhtp  *htemplate.Template
	vtt   template.Template
	vht   htemplate.Template
	vsrc  rand.Source
	vxsrc xrand.Source
	vMA   MA
	vMB   MB
	vSB   SB
	vPA   PA
)

var _ = fmt.Sprint
var _ io.Reader
var _ = crand.Reader

`

// the expressions every rule is run on
var c02IMValues = []string{
	"va", "vb", "&va", "&vb", "vbs", "vas", "vma", "vmb", "vonly", "vx", "vxr", "vr", "vttp", "vhtp", "vtt", "vht", "vsrc", "vxsrc",
	"implA{}", "implB{}", "srcStd{}", "srcX{}", "&srcX{}", "1", "buf", "vMA", "vMB", "vSB", "vPA",
	"func() { crand.Read(buf) }", "func() { rand.Read(buf) }", "func() { xrand.Read(buf) }", "func() { akit.Read(buf) }", "func() { kit.Read(buf) }",
	"func() { rand := local{}; rand.Read(buf) }", "func() { kit := local{}; _ = kit.Make(1) }", "func() { template := local{}; _ = template.Int() }",
	"func() { crand.Read(buf); rand.Read(buf) }", "func() { if _, err := crand.Read(buf); err != nil { xrand.Read(buf) } }",
	"rand.Int()", "xrand.Int()", "rand.Int() + xrand.Int()", "akit.Make(1)", "kit.Make(2)", "[]interface{}{akit.Make(1), kit.Make(2)}", "akit.Make(rand.Int())", "kit.Make(xrand.Int())",
	"akit.Make", "kit.Make", "rand.Read", "func() (int, error) { return (crand.Read)(buf) }",
	"template.New(\"a\")", "htemplate.New(\"b\")", "template.Must(template.New(\"x\").Parse(\"\"))", "htemplate.Must(htemplate.New(\"y\").Parse(\"\"))",
	"fmt.Sprint(rand.Int())", "fmt.Sprint(xrand.Int(), 1)", "func() { io.WriteString(nil, \"\") }",
}

// the parameter types of the sink functions s<i>: rule k's match `w<k>(1).(T)` is passed to each of them
var c02IMSinks = []string{"akit.T", "kit.T", "*akit.T", "*kit.T", "xrand.T", "*rand.Rand", "*xrand.Rand", "*template.Template", "*htemplate.Template", "template.Template", "htemplate.Template",
	"[]kit.T", "map[string]akit.T", "rand.Source", "xrand.Source", "kit.Only", "int"}

func c02IMTargetSrc() string {
	var sb strings.Builder
	sb.WriteString(c02IMTargetHead)
	for k := 0; k < c02IMNumRules; k++ {
		fmt.Fprintf(&sb, "func p%d(interface{}) {}\n", k)
		fmt.Fprintf(&sb, "func w%d(int) interface{} { return nil }\n", k)
	}
	for i, t := range c02IMSinks {
		fmt.Fprintf(&sb, "func s%d(%s) {}\n", i, t)
	}
	sb.WriteString("\nfunc f() {\n")
	for k := 0; k < c02IMNumRules; k++ {
		for _, v := range c02IMValues {
			fmt.Fprintf(&sb, "\tp%d(%s)\n", k, v)
		}
		for i, t := range c02IMSinks {
			fmt.Fprintf(&sb, "\ts%d(w%d(1).(%s))\n", i, k, t)
		}
	}
	sb.WriteString("}\n")
	return sb.String()
}

type c02IMImporter struct {
	pkgs map[string]*types.Package
	std  types.Importer
}

func (im *c02IMImporter) Import(path string) (*types.Package, error) {
	if p, ok := im.pkgs[path]; ok {
		return p, nil
	}
	return im.std.Import(path)
}

type c02IMWorld struct {
	t     *hx.Target
	calls [c02IMNumRules][]*ast.CallExpr // the call p<k>(v<i>), by rule and value
	sinks [c02IMNumRules][]*ast.CallExpr // the call s<i>(w<k>(1).(T)), by rule and sink function
	site  map[int][2]int                 // offset of a match (the call p<k>(E) / the assertion w<k>(1).(T)) -> (rule, site: values first, then sinks)
	pkgs  map[string]*types.Package      // the packages the target imports, by path
}

func c02IMBuildWorld() (*c02IMWorld, error) {
	fset := token.NewFileSet()
	im := &c02IMImporter{pkgs: map[string]*types.Package{}, std: importer.ForCompiler(fset, "source", nil)}
	var paths []string
	for p := range c02IMDiskPkgs {
		paths = append(paths, p)
	}
	sort.Strings(paths)
	for _, p := range paths {
		f, err := parser.ParseFile(fset, path.Base(p)+".go", c02IMDiskPkgs[p], 0)
		if err != nil {
			return nil, err
		}
		pkg, err := (&types.Config{Importer: im}).Check(p, fset, []*ast.File{f}, nil)
		if err != nil {
			return nil, err
		}
		im.pkgs[p] = pkg
	}
	info := &types.Info{
		Types:      map[ast.Expr]types.TypeAndValue{},
		Uses:       map[*ast.Ident]types.Object{},
		Defs:       map[*ast.Ident]types.Object{},
		Selections: map[*ast.SelectorExpr]*types.Selection{},
		Implicits:  map[ast.Node]types.Object{},
		Scopes:     map[ast.Node]*types.Scope{},
		Instances:  map[*ast.Ident]types.Instance{},
	}
	src := c02IMTargetSrc()
	f, err := parser.ParseFile(fset, "target.go", src, parser.ParseComments)
	if err != nil {
		return nil, err
	}
	pkg, err := (&types.Config{Importer: im}).Check("target", fset, []*ast.File{f}, info)
	if err != nil {
		return nil, err
	}
	w := &c02IMWorld{t: &hx.Target{Fset: fset, File: f, Info: info, Pkg: pkg, Src: []byte(src), Name: "target.go"}, site: map[int][2]int{}, pkgs: map[string]*types.Package{}}
	for _, p := range pkg.Imports() {
		w.pkgs[p.Path()] = p
	}
	re := regexp.MustCompile(`^p(\d+)$`)
	reW := regexp.MustCompile(`^w(\d+)$`)
	ast.Inspect(f, func(n ast.Node) bool {
		call, ok := n.(*ast.CallExpr)
		if !ok {
			return true
		}
		id, ok := call.Fun.(*ast.Ident)
		if !ok {
			return true
		}
		if len(call.Args) == 1 {
			if ta, ok := call.Args[0].(*ast.TypeAssertExpr); ok {
				if wc, ok := ta.X.(*ast.CallExpr); ok {
					if wid, ok := wc.Fun.(*ast.Ident); ok && reW.MatchString(wid.Name) {
						k, _ := strconv.Atoi(wid.Name[1:])
						w.site[fset.Position(ta.Pos()).Offset] = [2]int{k, len(c02IMValues) + len(w.sinks[k])}
						w.sinks[k] = append(w.sinks[k], call)
						return false
					}
				}
			}
		}
		m := re.FindStringSubmatch(id.Name)
		if m == nil || len(call.Args) != 1 {
			return true
		}
		k, _ := strconv.Atoi(m[1])
		w.site[fset.Position(call.Pos()).Offset] = [2]int{k, len(w.calls[k])}
		w.calls[k] = append(w.calls[k], call)
		return false // the arguments hold no probe calls
	})
	for k := range w.calls {
		if len(w.calls[k]) != len(c02IMValues) || len(w.sinks[k]) != len(c02IMSinks) {
			return nil, fmt.Errorf("imports target: %d calls of p%d for %d values, %d sink sites of w%d for %d", len(w.calls[k]), k, len(c02IMValues), len(w.sinks[k]), k, len(c02IMSinks))
		}
	}
	return w, nil
}

// ---------------------------------------------------------------------------------------------
// rules

type c02IMArg struct {
	kind   string // contains | is | uis | sink | implements | hasmethod | fileimports
	pkg    string // the package name in the text ("" for fileimports)
	prefix string // is: type constructor around pkg.name
	name   string // function / type / interface, or the path of fileimports
	method string // hasmethod
	nargs  int    // contains: number of `$_` arguments; -1: `$*_`
}

func (a c02IMArg) text() string {
	switch a.kind {
	case "contains":
		args := "$*_"
		if a.nargs >= 0 {
			args = strings.TrimSuffix(strings.Repeat("$_, ", a.nargs), ", ")
		}
		return a.pkg + "." + a.name + "(" + args + ")"
	case "is", "uis", "sink", "implements":
		return a.prefix + a.pkg + "." + a.name
	case "hasmethod":
		return a.pkg + "." + a.name + "." + a.method
	}
	return a.name
}

var c02IMArgs = []c02IMArg{
	{kind: "contains", pkg: "rand", name: "Read", nargs: 1},
	{kind: "contains", pkg: "rand", name: "Read", nargs: -1},
	{kind: "contains", pkg: "rand", name: "Int", nargs: 0},
	{kind: "contains", pkg: "kit", name: "Make", nargs: 1},
	{kind: "contains", pkg: "kit", name: "Make", nargs: -1},
	{kind: "contains", pkg: "kit", name: "Read", nargs: 1},
	{kind: "contains", pkg: "template", name: "New", nargs: 1},
	{kind: "contains", pkg: "template", name: "Must", nargs: 1},
	{kind: "contains", pkg: "fmt", name: "Sprint", nargs: -1},
	{kind: "contains", pkg: "io", name: "WriteString", nargs: 2},
	{kind: "is", pkg: "kit", name: "T"},
	{kind: "is", pkg: "kit", name: "T", prefix: "*"},
	{kind: "is", pkg: "kit", name: "T", prefix: "[]"},
	{kind: "is", pkg: "kit", name: "T", prefix: "map[string]"},
	{kind: "is", pkg: "kit", name: "Only"},
	{kind: "is", pkg: "rand", name: "T"},
	{kind: "is", pkg: "rand", name: "Rand", prefix: "*"},
	{kind: "is", pkg: "rand", name: "Source"},
	{kind: "is", pkg: "template", name: "Template"},
	{kind: "is", pkg: "template", name: "Template", prefix: "*"},
	{kind: "uis", pkg: "kit", name: "T", prefix: "map[string]"},
	{kind: "uis", pkg: "kit", name: "T", prefix: "[]"},
	{kind: "uis", pkg: "kit", name: "T", prefix: "*"},
	{kind: "sink", pkg: "kit", name: "T"},
	{kind: "sink", pkg: "kit", name: "T", prefix: "*"},
	{kind: "sink", pkg: "kit", name: "T", prefix: "[]"},
	{kind: "sink", pkg: "rand", name: "T"},
	{kind: "sink", pkg: "rand", name: "Rand", prefix: "*"},
	{kind: "sink", pkg: "rand", name: "Source"},
	{kind: "sink", pkg: "template", name: "Template", prefix: "*"},
	{kind: "sink", pkg: "template", name: "Template"},
	{kind: "implements", pkg: "kit", name: "I"},
	{kind: "implements", pkg: "rand", name: "Source"},
	{kind: "hasmethod", pkg: "kit", name: "I", method: "M"},
	{kind: "hasmethod", pkg: "rand", name: "Source", method: "Int63"},
	{kind: "fileimports", name: "math/rand"},
	{kind: "fileimports", name: "crypto/rand"},
	{kind: "fileimports", name: "c02m/c/rand"},
	{kind: "fileimports", name: "c02m/b/kit"},
	{kind: "fileimports", name: "rand"},
	{kind: "fileimports", name: "kit"},
	{kind: "fileimports", name: "template"},
	{kind: "fileimports", name: "encoding/json"},
}

// import tables of a group: the Import() calls, in order
var c02IMTables = [][]string{
	{}, {"c02m/a/kit"}, {"c02m/b/kit"}, {"crypto/rand"}, {"c02m/c/rand"}, {"math/rand"}, {"html/template"}, {"text/template"},
	{"c02m/a/kit", "crypto/rand"}, {"c02m/b/kit", "c02m/c/rand"}, {"c02m/a/kit", "c02m/c/rand", "html/template"}, {"crypto/rand", "html/template", "c02m/b/kit"},
}

// what a package name means in a group with the given Import()s: ("", false) when nothing binds it
func c02IMResolve(table []string, name string) (string, bool) {
	for _, p := range table {
		if path.Base(p) == name {
			return p, true
		}
	}
	p, ok := c02IMDefaults[name]
	return p, ok
}

// loadable: the documented forms the loader must accept under the table: a Contains pattern always; a type name when its
// package name is bound; an interface / method when the package at that path declares it
func (w *c02IMWorld) loadable(a c02IMArg, table []string) bool {
	switch a.kind {
	case "contains", "fileimports":
		return true
	}
	p, ok := c02IMResolve(table, a.pkg)
	if !ok {
		return false
	}
	if a.kind == "is" || a.kind == "uis" || a.kind == "sink" {
		return true
	}
	obj := w.pkgs[p].Scope().Lookup(a.name)
	if obj == nil {
		return false
	}
	iface, ok := obj.Type().Underlying().(*types.Interface)
	if !ok {
		return false
	}
	if a.kind == "hasmethod" {
		for i := 0; i < iface.NumMethods(); i++ {
			if iface.Method(i).Name() == a.method {
				return true
			}
		}
		return false
	}
	return true
}

type c02IMRule struct {
	arg c02IMArg
	neg bool
}

func (r c02IMRule) where() string {
	var s string
	switch r.arg.kind {
	case "contains":
		s = "m[\"x\"].Contains(`" + r.arg.text() + "`)"
	case "is":
		s = fmt.Sprintf(`m["x"].Type.Is(%q)`, r.arg.text())
	case "uis":
		s = fmt.Sprintf(`m["x"].Type.Underlying().Is(%q)`, r.arg.text())
	case "sink":
		s = fmt.Sprintf(`m["$$"].SinkType.Is(%q)`, r.arg.text())
	case "implements":
		s = fmt.Sprintf(`m["x"].Type.Implements(%q)`, r.arg.text())
	case "hasmethod":
		s = fmt.Sprintf(`m["x"].Type.HasMethod(%q)`, r.arg.text())
	default:
		s = fmt.Sprintf(`m.File().Imports(%q)`, r.arg.text())
	}
	if r.neg {
		return "!" + s
	}
	return s
}

func (r c02IMRule) predName() string {
	n := map[string]string{"contains": "Contains", "is": "Type.Is", "uis": "Type.Underlying.Is", "sink": "SinkType.Is", "implements": "Type.Implements", "hasmethod": "Type.HasMethod", "fileimports": "File.Imports"}[r.arg.kind]
	if r.neg {
		return "!" + n
	}
	return n
}

type c02IMGroup struct {
	table []string
	rules []c02IMRule
}

type c02IMFile struct {
	origin string // systematic | random
	groups []c02IMGroup
	src    string
	route  string
	// observation
	load    string
	errText string
	sets    [][]bool // per rule: the verdict per value
	anomaly string
}

func (f *c02IMFile) numRules() int {
	n := 0
	for _, g := range f.groups {
		n += len(g.rules)
	}
	return n
}

func (f *c02IMFile) render() {
	var sb strings.Builder
	k := 0
	for gi, g := range f.groups {
		fmt.Fprintf(&sb, "func g%d(m dsl.Matcher) {\n", gi)
		for _, imp := range g.table {
			fmt.Fprintf(&sb, "\tm.Import(%q)\n", imp)
		}
		for _, r := range g.rules {
			pat := fmt.Sprintf("p%d($x)", k)
			if r.arg.kind == "sink" {
				pat = fmt.Sprintf("w%d($_).($_)", k)
			}
			fmt.Fprintf(&sb, "\tm.Match(`%s`).Where(%s).Report(\"R%d\")\n", pat, r.where(), k)
			k++
		}
		sb.WriteString("}\n\n")
	}
	f.src = hx.RulesFile(sb.String())
}

// ---------------------------------------------------------------------------------------------
// the facts

// hasCall: some call inside root is `id.fn(args)` with id accepted by isPkg and the argument count asked for
func c02IMHasCall(root ast.Node, fn string, nargs int, isPkg func(*ast.Ident) bool) bool {
	found := false
	ast.Inspect(root, func(n ast.Node) bool {
		call, ok := n.(*ast.CallExpr)
		if !ok || found {
			return !found
		}
		sel, ok := call.Fun.(*ast.SelectorExpr)
		if !ok || sel.Sel.Name != fn {
			return true
		}
		id, ok := sel.X.(*ast.Ident)
		if !ok || !isPkg(id) {
			return true
		}
		if nargs >= 0 && (len(call.Args) != nargs || call.Ellipsis.IsValid()) {
			return true
		}
		found = true
		return false
	})
	return found
}

// fact at site i of rule k (the values first, then the sink sites); a rule's pattern matches only its own family of sites
func (w *c02IMWorld) fact(r c02IMRule, table []string, k, i int) bool {
	a := r.arg
	if (a.kind == "sink") != (i >= len(c02IMValues)) {
		return false
	}
	var e ast.Expr
	var t types.Type
	if a.kind == "sink" {
		// the sink of the match: the parameter the enclosing call passes it as
		call := w.sinks[k][i-len(c02IMValues)]
		t = w.t.Info.TypeOf(call.Fun).(*types.Signature).Params().At(0).Type()
	} else {
		e = w.calls[k][i].Args[0]
		t = w.t.Info.TypeOf(e)
		if a.kind == "uis" && t != nil {
			t = t.Underlying()
		}
	}
	var holds bool
	switch a.kind {
	case "fileimports":
		for _, spec := range w.t.File.Imports {
			if p, err := strconv.Unquote(spec.Path.Value); err == nil && p == a.name {
				holds = true
			}
		}
	case "contains":
		p, bound := c02IMResolve(table, a.pkg)
		holds = c02IMHasCall(e, a.name, a.nargs, func(id *ast.Ident) bool {
			if !bound {
				return id.Name == a.pkg // no package is meant: any identifier of that name
			}
			pn, ok := w.t.Info.ObjectOf(id).(*types.PkgName)
			return ok && pn.Imported().Path() == p
		})
	default:
		p, _ := c02IMResolve(table, a.pkg)
		obj := w.pkgs[p].Scope().Lookup(a.name)
		if tn, ok := obj.(*types.TypeName); ok && t != nil {
			switch a.kind {
			case "is", "uis", "sink":
				want := tn.Type()
				switch a.prefix {
				case "*":
					want = types.NewPointer(want)
				case "[]":
					want = types.NewSlice(want)
				case "map[string]":
					want = types.NewMap(types.Typ[types.String], want)
				}
				holds = types.Identical(t, want)
			case "implements":
				holds = types.Implements(t, tn.Type().Underlying().(*types.Interface))
			case "hasmethod":
				iface := tn.Type().Underlying().(*types.Interface)
				for i := 0; i < iface.NumMethods(); i++ {
					if m := iface.Method(i); m.Name() == a.method {
						o, _, _ := types.LookupFieldOrMethod(t, true, m.Pkg(), a.method)
						got, ok := o.(*types.Func)
						holds = ok && types.Identical(got.Type(), m.Type())
					}
				}
			}
		}
	}
	return holds != r.neg
}

// ---------------------------------------------------------------------------------------------
// generation

// the ordered pairs of tables of the systematic files: every way two groups can bind one name (default / explicit default /
// another package / a third one / nothing), both orders
func c02IMTablePairs(rng *rand.Rand, thorough bool) [][2]int {
	var all [][2]int
	for i := range c02IMTables {
		for j := range c02IMTables {
			if i != j {
				all = append(all, [2]int{i, j})
			}
		}
	}
	if thorough {
		return all
	}
	// the pairs around the default binding, the explicit default and two other packages of the names rand / kit / template
	// (both orders), and a seed-chosen handful of the rest
	core := [][2]int{{0, 3}, {3, 0}, {3, 4}, {4, 5}, {5, 3}, {1, 2}, {2, 1}, {0, 1}, {2, 0}, {6, 7}, {0, 6}, {6, 0}, {8, 9}, {9, 8}, {10, 11}, {11, 0}}
	seen := map[[2]int]bool{}
	for _, p := range core {
		seen[p] = true
	}
	rng.Shuffle(len(all), func(i, j int) { all[i], all[j] = all[j], all[i] })
	for _, p := range all {
		if len(core) >= 22 {
			break
		}
		if !seen[p] {
			core = append(core, p)
		}
	}
	return core
}

func (w *c02IMWorld) generate(seed int64, thorough bool) []*c02IMFile {
	rng := hx.Rng(seed, "c02-imports")
	var files []*c02IMFile
	// systematic: two groups with different tables and the SAME argument texts (every text both tables admit), in chunks of
	// one kind; a third of the files gets an unrelated group in between, Contains rules are negated in turn
	byKind := map[string][]c02IMArg{}
	var kinds []string
	for _, a := range c02IMArgs {
		if _, ok := byKind[a.kind]; !ok {
			kinds = append(kinds, a.kind)
		}
		byKind[a.kind] = append(byKind[a.kind], a)
	}
	nfile := 0
	for _, pr := range c02IMTablePairs(rng, thorough) {
		t1, t2 := c02IMTables[pr[0]], c02IMTables[pr[1]]
		for _, kind := range kinds {
			if kind == "fileimports" && !thorough && nfile%5 != 0 {
				continue
			}
			var common []c02IMArg
			for _, a := range byKind[kind] {
				if !w.loadable(a, t1) || !w.loadable(a, t2) {
					continue
				}
				// the texts whose meaning differs between the two groups, and (fewer) texts that mean the same in both
				p1, b1 := c02IMResolve(t1, a.pkg)
				p2, b2 := c02IMResolve(t2, a.pkg)
				if p1 != p2 || b1 != b2 || rng.Intn(4) == 0 {
					common = append(common, a)
				}
			}
			for len(common) > 0 {
				n := len(common)
				if n > c02IMNumRules/2 {
					n = c02IMNumRules / 2
				}
				chunk := common[:n]
				common = common[n:]
				f := &c02IMFile{origin: "systematic"}
				mk := func(table []string, negate func(i int) bool) c02IMGroup {
					g := c02IMGroup{table: table}
					for i, a := range chunk {
						g.rules = append(g.rules, c02IMRule{arg: a, neg: a.kind == "contains" && negate(i)})
					}
					return g
				}
				variant := nfile % 4
				f.groups = append(f.groups, mk(t1, func(i int) bool { return variant == 1 && i%2 == 0 }))
				if nfile%3 == 2 && 2*len(chunk) < c02IMNumRules {
					f.groups = append(f.groups, c02IMGroup{table: c02IMTables[rng.Intn(len(c02IMTables))], rules: []c02IMRule{{arg: c02IMArg{kind: "contains", pkg: "fmt", name: "Sprint", nargs: -1}}}})
				}
				f.groups = append(f.groups, mk(t2, func(i int) bool { return variant == 2 && i%2 == 1 || variant == 3 }))
				files = append(files, f)
				nfile++
			}
		}
	}
	// random: 2-5 groups, random tables, 1-3 rules each; a text already used in the file is reused more often than not
	n := 24
	if thorough {
		n = 400
	}
	for i := 0; i < n; i++ {
		f := &c02IMFile{origin: "random"}
		var used []c02IMArg
		k := 0
		for gi, ng := 0, 2+rng.Intn(4); gi < ng && k < c02IMNumRules; gi++ {
			g := c02IMGroup{table: c02IMTables[rng.Intn(len(c02IMTables))]}
			for ri, nr := 0, 1+rng.Intn(3); ri < nr && k < c02IMNumRules; ri++ {
				var a c02IMArg
				for {
					if len(used) > 0 && rng.Intn(5) < 3 {
						a = used[rng.Intn(len(used))]
					} else {
						a = c02IMArgs[rng.Intn(len(c02IMArgs))]
					}
					if w.loadable(a, g.table) && (a.kind != "fileimports" || rng.Intn(4) == 0) {
						break
					}
				}
				used = append(used, a)
				g.rules = append(g.rules, c02IMRule{arg: a, neg: a.kind == "contains" && rng.Intn(3) == 0})
				k++
			}
			f.groups = append(f.groups, g)
		}
		files = append(files, f)
	}
	for i, f := range files {
		f.render()
		f.route = "Engine.Load"
		if i%3 == 1 {
			f.route = "irconv+LoadFromIR"
		}
	}
	return files
}

// ---------------------------------------------------------------------------------------------
// observation

func (f *c02IMFile) exec(w *c02IMWorld) {
	var e *ruleguard.Engine
	if f.route == "Engine.Load" {
		e, f.load, f.errText = c17LoadDSL(f.src)
	} else {
		irf, err := c17ConvertIR(f.src)
		if err != nil {
			f.load, f.errText = "err", "irconv: "+err.Error()
			return
		}
		e, f.load, f.errText = c17LoadIR(irf)
	}
	if f.load != "ok" {
		return
	}
	reports, pk, frame, err := hx.Run(e, w.t, hx.RunOpts{})
	if err != nil || pk != "" {
		f.anomaly = fmt.Sprintf("run failed: %v %s at %s", err, pk, frame)
		return
	}
	n := f.numRules()
	f.sets = make([][]bool, n)
	for k := range f.sets {
		f.sets[k] = make([]bool, len(c02IMValues)+len(c02IMSinks))
	}
	for _, r := range reports {
		s, ok := w.site[r.Pos]
		if !ok || s[0] >= n || r.Message != fmt.Sprintf("R%d", s[0]) || f.sets[s[0]][s[1]] {
			f.anomaly = "unexpected report " + r.String()
			return
		}
		f.sets[s[0]][s[1]] = true
	}
}

func c02IMWorkspace() (string, error) {
	dir, err := os.MkdirTemp("", "c02m")
	if err != nil {
		return "", err
	}
	if err := os.WriteFile(filepath.Join(dir, "go.mod"), []byte("module c02m\n\ngo 1.22\n\nrequire github.com/quasilyte/go-ruleguard/dsl v0.3.22\n"), 0o644); err != nil {
		return dir, err
	}
	if sum, err := os.ReadFile("go.sum"); err == nil {
		_ = os.WriteFile(filepath.Join(dir, "go.sum"), sum, 0o644)
	}
	for p, src := range c02IMDiskPkgs {
		d := filepath.Join(dir, strings.TrimPrefix(p, "c02m/"))
		if err := os.MkdirAll(d, 0o755); err != nil {
			return dir, err
		}
		if err := os.WriteFile(filepath.Join(d, path.Base(p)+".go"), []byte(src), 0o644); err != nil {
			return dir, err
		}
	}
	return dir, os.Chdir(dir)
}

func runC02Imports(c *Ctx) error {
	res := c.Res
	harnessDir, err := os.Getwd()
	if err != nil {
		return err
	}
	dir, err := c02IMWorkspace()
	if dir != "" {
		defer os.RemoveAll(dir)
	}
	defer os.Chdir(harnessDir)
	if err != nil {
		return fmt.Errorf("imports workspace: %v", err)
	}
	os.Setenv("GODEBUG", "gotypesalias=1")
	w, err := c02IMBuildWorld()
	if err != nil {
		return fmt.Errorf("imports target: %v", err)
	}
	files := w.generate(c.Seed, c.Thorough)
	var wg sync.WaitGroup
	sem := make(chan struct{}, runtime.GOMAXPROCS(0))
	for _, f := range files {
		f := f
		wg.Add(1)
		sem <- struct{}{}
		go func() {
			defer wg.Done()
			defer func() { <-sem }()
			defer func() {
				if rec := recover(); rec != nil {
					f.anomaly = fmt.Sprintf("harness panic: %v", rec)
				}
			}()
			f.exec(w)
		}()
	}
	wg.Wait()
	for _, f := range files {
		res.Dist("imports:file:" + f.origin)
		res.Dist("imports:route:" + f.route)
		res.Dist("imports:load:" + f.load)
		res.Dist(fmt.Sprintf("imports:groups:%d", len(f.groups)))
		input := func() map[string]interface{} {
			return map[string]interface{}{"rules": f.src, "route": f.route, "target": "every p<k>(E) for E in: " + strings.Join(c02IMValues, " | ") + "; every s<i>(w<k>(1).(T)) with func s<i>(T) for T in: " + strings.Join(c02IMSinks, " | "),
				"target imports": "akit c02m/a/kit, kit c02m/b/kit, xrand c02m/c/rand, crand crypto/rand, fmt, htemplate html/template, io, math/rand, text/template"}
		}
		if f.load != "ok" {
			// every generated rule is a documented form whose names the group's table (or the standard library) binds
			in := input()
			in["error"] = f.errText
			res.Violate(hx.Violation{Signature: "import-table:file-not-loaded", What: "a rules file whose predicate arguments are all resolvable under their group's import table is refused", Input: in, Impl: f.load + ": " + f.errText, Spec: "loads"})
			continue
		}
		if f.anomaly != "" {
			in := input()
			res.Violate(hx.Violation{Signature: "import-table:run-anomaly", What: "the run did not produce one report per accepted probe call", Input: in, Impl: f.anomaly, Spec: "reports p<k>(E) with message R<k>, each at most once"})
			continue
		}
		// how often an argument text occurs in the file, and under how many meanings
		type use struct {
			metas map[string]bool
			n     int
		}
		uses := map[string]*use{}
		key := func(r c02IMRule) string { return r.arg.kind + " " + r.arg.text() }
		for _, g := range f.groups {
			for _, r := range g.rules {
				u := uses[key(r)]
				if u == nil {
					u = &use{metas: map[string]bool{}}
					uses[key(r)] = u
				}
				p, bound := c02IMResolve(g.table, r.arg.pkg)
				u.metas[p+b01(bound)] = true
				u.n++
			}
		}
		k := 0
		for gi, g := range f.groups {
			res.Dist(fmt.Sprintf("imports:table-size:%d", len(g.table)))
			for _, r := range g.rules {
				u := uses[key(r)]
				class := "single-use"
				switch {
				case len(u.metas) > 1:
					class = "same-text-other-table"
				case u.n > 1:
					class = "same-text-same-meaning"
				}
				binding := "table"
				if r.arg.kind == "fileimports" {
					binding = "path"
				} else if _, viaTable := c02IMResolve(g.table, r.arg.pkg); !viaTable {
					binding = "unbound"
				} else {
					viaImport := false
					for _, p := range g.table {
						viaImport = viaImport || path.Base(p) == r.arg.pkg
					}
					if !viaImport {
						binding = "default"
					}
				}
				res.Dist("imports:pred:" + r.predName())
				res.Dist("imports:class:" + r.arg.kind + ":" + class)
				res.Dist("imports:binding:" + r.arg.kind + ":" + binding)
				var verdicts []byte
				for i := range f.sets[k] {
					want := w.fact(r, g.table, k, i)
					got := f.sets[k][i]
					if (r.arg.kind == "sink") == (i >= len(c02IMValues)) {
						verdicts = append(verdicts, b01(got)[0])
					}
					if got == want {
						continue
					}
					in := input()
					in["group"] = fmt.Sprintf("g%d with Import%q", gi, g.table)
					in["where"] = r.where()
					if i < len(c02IMValues) {
						in["site"] = fmt.Sprintf("p%d(%s)", k, c02IMValues[i])
					} else {
						in["site"] = fmt.Sprintf("s%d(w%d(1).(%s)) with func s%d(%s)", i-len(c02IMValues), k, c02IMSinks[i-len(c02IMValues)], i-len(c02IMValues), c02IMSinks[i-len(c02IMValues)])
					}
					meaning, bound := c02IMResolve(g.table, r.arg.pkg)
					if r.arg.kind != "fileimports" {
						if bound {
							in["meaning"] = fmt.Sprintf("%s is %s in this group", r.arg.pkg, meaning)
						} else {
							in["meaning"] = r.arg.pkg + " is no package in this group"
						}
					}
					res.Violate(hx.Violation{Signature: fmt.Sprintf("%s:import-table:%s:want-%s", r.predName(), class, map[bool]string{true: "t", false: "f"}[want]),
						What: "the predicate's verdict is not the fact under the group's own import table", Input: in,
						Impl: "verdict " + map[bool]string{true: "t", false: "f"}[got], Spec: "the fact computed from go/ast + go/types wants " + map[bool]string{true: "t", false: "f"}[want]})
				}
				nontrivial := strings.Trim(string(verdicts), string(verdicts[:1])) != ""
				for i := range verdicts {
					res.Count("imports", fmt.Sprintf("%s/%q/%d", r.where(), g.table, i), nontrivial)
				}
				for _, ch := range "01" {
					if strings.ContainsRune(string(verdicts), ch) {
						res.Dist("imports:verdict-seen:" + r.predName() + ":" + map[rune]string{'0': "f", '1': "t"}[ch])
					}
				}
				k++
			}
		}
	}
	if len(files) > 0 {
		res.Sample(map[string]interface{}{"imports-suite rules": files[0].src})
	}
	res.Rule += fmt.Sprintf("; import tables: %d rules files of 2-5 groups with different Import() tables (%d tables over c02m/a/kit, c02m/b/kit, c02m/c/rand, crypto/rand, math/rand, text/template, html/template; "+
		"systematic pairs of groups using the SAME argument texts under two tables, both orders, with unrelated groups in between, and random files that reuse texts) x %d argument texts of "+
		"Contains(`pkg.F(...)`) (plain and negated), Type.Is, Type.Underlying().Is, SinkType.Is (match `w<k>($_).($_)` passed to functions of %d parameter types), Type.Implements, Type.HasMethod, File().Imports x %d target expressions (values of the same-named types of every package, implementors, "+
		"calls of the same-named functions of every package under renamed imports, local variables named like a package); loaded through Engine.Load and irconv + LoadFromIR; "+
		"fact from go/ast + go/types of the target under the group's own table", len(files), len(c02IMTables), len(c02IMArgs), len(c02IMSinks), len(c02IMValues))
	return nil
}
