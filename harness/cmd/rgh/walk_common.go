package main

import (
	"fmt"
	"go/ast"
	"os"
	"strings"

	"github.com/quasilyte/go-ruleguard/ruleguard"
	"verifharness/hx"
)

// implTrace runs the real walker over the file and renders the visits like the driver does.
func implTrace(t *hx.Target, tree *hx.Tree) (string, []ruleguard.VerifVisit) {
	var vs []ruleguard.VerifVisit
	out := hx.Safe(func() string {
		var sb strings.Builder
		sb.WriteString("ok")
		ruleguard.VerifWalk(t.File, t.Info, false, func(v ruleguard.VerifVisit) {
			vs = append(vs, v)
			if v.Node == nil {
				fmt.Fprintf(&sb, " END-DEAD=%v", v.Deadcode)
				return
			}
			id := func(n ast.Node) string {
				if n == nil || (fmt.Sprintf("%v", n) == "<nil>") {
					return "-"
				}
				if tn, ok := tree.ByAST[n]; ok {
					return fmt.Sprint(tn.ID)
				}
				return "?"
			}
			fn := "-"
			if v.CurrentFunc != nil {
				fn = id(v.CurrentFunc)
			}
			par := "-"
			if v.Parent != nil {
				par = id(v.Parent)
			}
			d := 0
			if v.Deadcode {
				d = 1
			}
			fmt.Fprintf(&sb, " %s,%d,%d,%s,%d,%s", id(v.Node), int(v.Tag), d, fn, v.PathLen, par)
		})
		if sb.Len() == 2 {
			sb.WriteString(" ")
		}
		return sb.String()
	})
	return out, vs
}

type walkCase struct {
	name string
	t    *hx.Target
	tree *hx.Tree
	impl string
}

// walkSignature classifies how the implementation's trace differs from the property-level reference.
type sigWhat struct{ sig, what string }

func walkSignatures(wc *walkCase, impl, spec string) []sigWhat {
	var out []sigWhat
	seenSig := map[string]bool{}
	add := func(sig, what string) {
		if !seenSig[sig] {
			seenSig[sig] = true
			out = append(out, sigWhat{sig, what})
		}
	}
	if strings.HasPrefix(impl, "panic") {
		add("walker:"+impl, "the walk panics")
		return out
	}
	iv := strings.Fields(strings.TrimPrefix(impl, "ok"))
	sv := strings.Fields(strings.TrimPrefix(spec, "ok"))
	ids := func(vs []string) ([]string, map[string]string) {
		var o []string
		m := map[string]string{}
		for _, v := range vs {
			id := strings.SplitN(v, ",", 2)[0]
			o = append(o, id)
			m[id] = v
		}
		return o, m
	}
	ii, im := ids(iv)
	si, sm := ids(sv)
	kindSeen := map[int]bool{}
	for _, id := range ii {
		var n int
		if _, err := fmt.Sscan(id, &n); err == nil && n < len(wc.tree.Nodes) {
			kindSeen[wc.tree.Nodes[n].Kind] = true
		}
	}
	for _, id := range si {
		if _, ok := im[id]; !ok {
			var n int
			fmt.Sscan(id, &n)
			tn := wc.tree.Nodes[n]
			if !kindSeen[tn.Kind] {
				add("walker:"+hx.KindNames[tn.Kind]+"-not-offered",
					fmt.Sprintf("node %d (%s) is never offered to the rules", n, hx.KindNames[tn.Kind]))
				continue
			}
			p := tn.Parent
			// climb to the first ancestor that was visited or is the skipped field's owner
			for p != nil && p.Parent != nil {
				if _, ok := im[fmt.Sprint(p.ID)]; ok {
					break
				}
				if _, tagged := sm[fmt.Sprint(p.ID)]; tagged {
					tn = p
					p = p.Parent
					continue
				}
				tn = p
				p = p.Parent
			}
			if p == nil {
				add("walker:root-not-offered", "root")
				continue
			}
			add("walker:"+hx.KindNames[p.Kind]+"."+hx.SlotName(p.Kind, tn.Slot)+"-not-descended",
				fmt.Sprintf("node %d (%s) under %s.%s is not offered", n, hx.KindNames[wc.tree.Nodes[n].Kind], hx.KindNames[p.Kind], hx.SlotName(p.Kind, tn.Slot)))
		}
	}
	if len(out) > 0 {
		return out
	}
	for _, id := range ii {
		if _, ok := sm[id]; !ok {
			add("walker:extra-visit", "node "+id+" is offered although the reference does not offer it")
			return out
		}
	}
	if len(ii) != len(si) {
		add("walker:duplicate-visit", "a node is offered more than once")
		return out
	}
	for k := range ii {
		if ii[k] != si[k] {
			add("walker:order", fmt.Sprintf("visit %d is node %s, source order says %s", k, ii[k], si[k]))
			return out
		}
	}
	for k := range iv {
		if iv[k] != sv[k] {
			a, b := strings.Split(iv[k], ","), strings.Split(sv[k], ",")
			names := []string{"id", "tag", "deadcode", "currentFunc", "pathLen", "parent"}
			for j := range a {
				if j < len(b) && a[j] != b[j] {
					add("walker:ctx:"+names[j], fmt.Sprintf("visit of node %s: %s is %s, ancestors say %s", a[0], names[j], a[j], b[j]))
				}
			}
		}
	}
	if len(out) == 0 {
		add("walker:other", "traces differ")
	}
	return out
}

// walkSuite runs: impl trace == model trace (correspondence), impl trace == specFull (property),
// tree well-typed/sorted (sanity of the serialiser).
func walkSuite(c *Ctx, suite string, cases []*walkCase) error {
	res := c.Res
	var ops, impl []string
	var inputs []interface{}
	var specOps, checkOps []string
	for _, wc := range cases {
		sx := wc.tree.SExp()
		ops = append(ops, "walk.trace "+sx)
		impl = append(impl, wc.impl)
		inputs = append(inputs, map[string]interface{}{"file": wc.name})
		specOps = append(specOps, "walk.spec "+sx)
		checkOps = append(checkOps, "walk.check "+sx)
	}
	if err := res.Compare(c.Drv, suite, ops, impl, inputs); err != nil {
		return err
	}
	spec, err := c.Drv.Ask(specOps)
	if err != nil {
		return err
	}
	chk, err := c.Drv.Ask(checkOps)
	if err != nil {
		return err
	}
	for i, wc := range cases {
		f := strings.Fields(chk[i])
		if len(f) != 4 || f[1] != "1" || f[2] != "1" {
			res.Errorf("%s: serialised tree of %s is not well-typed/sorted (%s): the serialiser and the regenerated tables disagree", suite, wc.name, chk[i])
		}
		if spec[i] != wc.impl {
			for _, sw := range walkSignatures(wc, wc.impl, spec[i]) {
				res.Violate(hx.Violation{Signature: sw.sig, What: sw.what,
					Input: map[string]interface{}{"file": wc.name, "src": srcExcerpt(wc)}, Impl: clip(wc.impl), Spec: clip(spec[i])})
			}
		}
	}
	return nil
}

func clip(s string) string {
	if len(s) > 600 {
		return s[:600] + "…"
	}
	return s
}

func srcExcerpt(wc *walkCase) string {
	if len(wc.t.Src) < 1500 {
		return string(wc.t.Src)
	}
	return "(file too large to inline; see path)"
}

func mkWalkCase(name string, src []byte) (*walkCase, error) {
	t, err := hx.ParseLoose(name, src)
	if err != nil {
		return nil, err
	}
	tree := hx.BuildTree(t.File, t.Info)
	wc := &walkCase{name: name, t: t, tree: tree}
	wc.impl, _ = implTrace(t, tree)
	return wc, nil
}

func gorootCases(c *Ctx, n int, stream string) []*walkCase {
	files := hx.SampleStrings(hx.Rng(c.Seed, stream), hx.GorootFiles(), n)
	var out []*walkCase
	for _, p := range files {
		src, err := os.ReadFile(p)
		if err != nil {
			continue
		}
		wc, err := mkWalkCase(p, src)
		if err != nil {
			continue // files that do not parse (build-ignored experiments) are not inputs
		}
		out = append(out, wc)
	}
	return out
}
