package main

// LockEvents.lean — tie (c) of C08 (and of the lock part of C19).
//
// For every function of the repository that *directly* locks/unlocks a sync.Mutex / sync.RWMutex
// declared in the repository, or reads/writes a variable such a mutex is meant to guard (naming
// convention `<prefix>Mu` guards its sibling fields / package variables `<prefix>*`), the list of
// lock / unlock / read / write events along every control-flow path is extracted from the SSA form:
//
//   * deferred calls are replayed (LIFO) where the function returns or panics;
//   * static calls to other such functions are inlined (all their paths);
//   * a lock-free loop or recursion becomes `any [accesses]` (any sequence of these accesses);
//   * every other call that can reach (CHA call graph) a function locking a tracked mutex becomes
//     `calls [mutexes]` (lock-order information for calls made while holding a lock);
//   * a lock operation inside a loop / recursion, a `go` statement, or a lock operation on a mutex
//     that cannot be identified makes the function `approx := true` (the Lean obligation rejects it).
//
// Mutex ids are assigned in a lock order that makes every entry path check (if one exists), so the
// Lean side can use `id` as the rank.  An *entry* function is one that is called from outside this
// set of functions (it must be self-contained: start and end with no lock held).

import (
	"fmt"
	"go/types"
	"sort"
	"strings"

	"golang.org/x/tools/go/ssa"
)

func init() { registerGen("LockEvents.lean", cachedGen("LockEvents.lean", genLockEvents)) }

type lstep struct {
	op string // rlock runlock lock unlock read write
	id int
}

type litem struct {
	kind  string // step any (steps + ms) calls
	st    lstep
	steps []lstep
	ms    []int
}

func (it litem) key() string {
	switch it.kind {
	case "step":
		return fmt.Sprintf("%s%d", it.st.op, it.st.id)
	case "any":
		var s []string
		for _, x := range it.steps {
			s = append(s, fmt.Sprintf("%s%d", x.op, x.id))
		}
		return "any(" + strings.Join(s, ",") + fmt.Sprint(it.ms) + ")"
	default:
		return fmt.Sprintf("calls%v", it.ms)
	}
}

func pathKey(p []litem) string {
	var s []string
	for _, it := range p {
		s = append(s, it.key())
	}
	return strings.Join(s, ";")
}

type lockFn struct {
	fn     *ssa.Function
	name   string
	entry  bool
	approx bool
	why    []string
	paths  [][]litem
}

type lockExtract struct {
	p        *program
	mutexes  []*types.Var // tracked mutex objects (fields or package variables)
	mutexID  map[*types.Var]int
	mutexNm  []string
	mutexRW  []bool
	vars     []*types.Var
	varID    map[*types.Var]int
	varNm    []string
	varGuard []int // index into mutexes, -1 = none
	table    map[*ssa.Function]*lockFn
	order    []*lockFn
	direct   map[*ssa.Function]map[int]bool // mutexes locked directly
	reach    map[*ssa.Function]map[int]bool // mutexes possibly locked transitively
	fresh    int
	// extra tracked variables without a guarding mutex by naming convention
	extraVars map[string]bool
}

func isSyncType(t types.Type, name string) bool {
	n, ok := types.Unalias(t).(*types.Named)
	if !ok {
		return false
	}
	o := n.Obj()
	return o.Pkg() != nil && o.Pkg().Path() == "sync" && o.Name() == name
}

func (x *lockExtract) addMutex(v *types.Var, name string) {
	if _, ok := x.mutexID[v]; ok {
		return
	}
	x.mutexID[v] = len(x.mutexes)
	x.mutexes = append(x.mutexes, v)
	x.mutexNm = append(x.mutexNm, name)
	x.mutexRW = append(x.mutexRW, isSyncType(v.Type(), "RWMutex"))
}

func (x *lockExtract) addVar(v *types.Var, name string, guard int) {
	if _, ok := x.varID[v]; ok {
		return
	}
	x.varID[v] = len(x.vars)
	x.vars = append(x.vars, v)
	x.varNm = append(x.varNm, name)
	x.varGuard = append(x.varGuard, guard)
}

// discover finds the tracked mutexes and the variables they guard by naming convention.
func (x *lockExtract) discover() {
	var pkgs []*types.Package
	seen := map[*types.Package]bool{}
	for _, f := range x.p.repoFuncs {
		if pk := f.Pkg.Pkg; !seen[pk] {
			seen[pk] = true
			pkgs = append(pkgs, pk)
		}
	}
	sort.Slice(pkgs, func(i, j int) bool { return pkgs[i].Path() < pkgs[j].Path() })
	for _, pk := range pkgs {
		sc := pk.Scope()
		names := sc.Names()
		// package-level
		var group []cand
		for _, n := range names {
			if v, ok := sc.Lookup(n).(*types.Var); ok {
				group = append(group, cand{v, shortPkg(pk) + "." + n})
			}
		}
		x.discoverGroup(group)
		for _, n := range names {
			tn, ok := sc.Lookup(n).(*types.TypeName)
			if !ok {
				continue
			}
			st, ok := tn.Type().Underlying().(*types.Struct)
			if !ok {
				continue
			}
			group = nil
			for i := 0; i < st.NumFields(); i++ {
				f := st.Field(i)
				group = append(group, cand{f, shortPkg(pk) + "." + n + "." + f.Name()})
			}
			x.discoverGroup(group)
		}
	}
}

type cand struct {
	v    *types.Var
	name string
}

func (x *lockExtract) discoverGroup(group []cand) {
	for _, c := range group {
		if isSyncType(c.v.Type(), "Mutex") || isSyncType(c.v.Type(), "RWMutex") {
			x.addMutex(c.v, c.name)
		}
	}
	for _, c := range group {
		mid, ok := x.mutexID[c.v]
		if !ok {
			continue
		}
		prefix := strings.TrimSuffix(c.v.Name(), "Mu")
		if prefix == c.v.Name() || prefix == "" {
			continue
		}
		for _, d := range group {
			if d.v != c.v && strings.HasPrefix(d.v.Name(), prefix) {
				if _, isM := x.mutexID[d.v]; !isM {
					x.addVar(d.v, d.name, mid)
				}
			}
		}
	}
	for _, c := range group {
		if x.extraVars[c.name] {
			x.addVar(c.v, c.name, -1)
		}
	}
}

// fieldVar returns the field object addressed by a FieldAddr.
func fieldVar(fa *ssa.FieldAddr) *types.Var {
	st := structOf(fa.X.Type())
	if st == nil {
		return nil
	}
	return st.Field(fa.Field)
}

// trackedAddr: does v address a tracked variable (or a part of it)?
func (x *lockExtract) trackedAddr(v ssa.Value) (id int, fresh bool, ok bool) {
	switch v := v.(type) {
	case *ssa.Global:
		if o, isVar := v.Object().(*types.Var); isVar {
			if id, ok := x.varID[o]; ok {
				return id, false, true
			}
		}
	case *ssa.FieldAddr:
		if fv := fieldVar(v); fv != nil {
			if id, ok := x.varID[fv]; ok {
				_, isAlloc := v.X.(*ssa.Alloc)
				return id, isAlloc, true
			}
		}
		return x.trackedAddr(v.X)
	case *ssa.IndexAddr:
		return x.trackedAddr(v.X)
	}
	return 0, false, false
}

// trackedLoad: is v a value loaded from a tracked variable?
func (x *lockExtract) trackedLoad(v ssa.Value) (int, bool) {
	if u, ok := v.(*ssa.UnOp); ok && u.Op.String() == "*" {
		if id, fresh, ok := x.trackedAddr(u.X); ok && !fresh {
			return id, true
		}
	}
	return 0, false
}

func (x *lockExtract) mutexOf(v ssa.Value) (int, bool) {
	switch v := v.(type) {
	case *ssa.Global:
		if o, isVar := v.Object().(*types.Var); isVar {
			id, ok := x.mutexID[o]
			return id, ok
		}
	case *ssa.FieldAddr:
		if fv := fieldVar(v); fv != nil {
			id, ok := x.mutexID[fv]
			return id, ok
		}
	}
	return 0, false
}

// mutexOp classifies a call as an operation of sync.Mutex / sync.RWMutex.
func mutexOp(c *ssa.CallCommon) (op string, isOp bool) {
	callee := c.StaticCallee()
	if callee == nil || callee.Pkg == nil || callee.Pkg.Pkg.Path() != "sync" {
		return "", false
	}
	recv := callee.Signature.Recv()
	if recv == nil {
		return "", false
	}
	rt := derefNamed(recv.Type())
	if rt != "sync.Mutex" && rt != "sync.RWMutex" {
		return "", false
	}
	switch callee.Name() {
	case "Lock":
		return "lock", true
	case "Unlock":
		return "unlock", true
	case "RLock":
		return "rlock", true
	case "RUnlock":
		return "runlock", true
	}
	return "other:" + callee.Name(), true
}

// directEvents lists the tracked events of one instruction, ignoring calls to other functions.
// unknown reports a lock operation that cannot be attributed to a tracked mutex.
func (x *lockExtract) directEvents(in ssa.Instruction, countFresh bool) (evs []lstep, unknown string) {
	switch in := in.(type) {
	case *ssa.UnOp:
		if in.Op.String() == "*" {
			if id, fresh, ok := x.trackedAddr(in.X); ok {
				if fresh {
					if countFresh {
						x.fresh++
					}
				} else {
					evs = append(evs, lstep{"read", id})
				}
			}
		}
	case *ssa.Store:
		if id, fresh, ok := x.trackedAddr(in.Addr); ok {
			if fresh {
				if countFresh {
					x.fresh++
				}
			} else {
				evs = append(evs, lstep{"write", id})
			}
		}
	case *ssa.MapUpdate:
		if id, ok := x.trackedLoad(in.Map); ok {
			evs = append(evs, lstep{"write", id})
		} else if u, isU := in.Map.(*ssa.UnOp); isU && countFresh {
			if _, fresh, ok := x.trackedAddr(u.X); ok && fresh {
				x.fresh++
			}
		}
	case ssa.CallInstruction:
		c := in.Common()
		if _, isDefer := in.(*ssa.Defer); isDefer {
			return nil, "" // replayed at RunDefers
		}
		return x.callDirect(c)
	}
	return evs, ""
}

func (x *lockExtract) callDirect(c *ssa.CallCommon) (evs []lstep, unknown string) {
	if op, ok := mutexOp(c); ok {
		if len(c.Args) == 0 {
			return nil, "mutex operation without receiver"
		}
		id, known := x.mutexOf(c.Args[0])
		if !known {
			// a mutex that is not declared in the repository (local, parameter, foreign): not tracked
			if derefNamed(c.Args[0].Type()) != "" {
				if _, isAddr := c.Args[0].(*ssa.FieldAddr); isAddr {
					return nil, "lock operation on an unidentified mutex field"
				}
			}
			return nil, ""
		}
		if strings.HasPrefix(op, "other:") {
			return nil, "unsupported mutex operation " + strings.TrimPrefix(op, "other:") + " on " + x.mutexNm[id]
		}
		return []lstep{{op, id}}, ""
	}
	if b, ok := c.Value.(*ssa.Builtin); ok {
		switch b.Name() {
		case "delete", "clear":
			if len(c.Args) > 0 {
				if id, ok := x.trackedLoad(c.Args[0]); ok {
					evs = append(evs, lstep{"write", id})
				}
			}
		}
		return evs, ""
	}
	// the address of a tracked variable escapes into a call (method with pointer receiver, &v argument)
	args := c.Args
	for _, a := range args {
		if id, fresh, ok := x.trackedAddr(a); ok && !fresh {
			evs = append(evs, lstep{"read", id})
		}
		// a map / slice loaded from a tracked variable handed to another function: it may be written there
		if id, ok := x.trackedLoad(a); ok {
			switch types.Unalias(a.Type()).Underlying().(type) {
			case *types.Map, *types.Slice:
				evs = append(evs, lstep{"write", id})
			}
		}
	}
	return evs, ""
}

func isLockOp(s lstep) bool { return s.op != "read" && s.op != "write" }

// buildTable finds the functions with direct events and the mutex reachability.
func (x *lockExtract) buildTable() {
	x.table = map[*ssa.Function]*lockFn{}
	x.direct = map[*ssa.Function]map[int]bool{}
	for _, f := range x.p.repoFuncs {
		has := false
		for _, b := range f.Blocks {
			for _, in := range b.Instrs {
				var evs []lstep
				if d, ok := in.(*ssa.Defer); ok {
					evs, _ = x.callDirect(d.Common())
				} else {
					evs, _ = x.directEvents(in, true)
				}
				for _, e := range evs {
					has = true
					if e.op == "lock" || e.op == "rlock" {
						if x.direct[f] == nil {
							x.direct[f] = map[int]bool{}
						}
						x.direct[f][e.id] = true
					}
				}
			}
		}
		if has {
			lf := &lockFn{fn: f, name: shortFn(f)}
			x.table[f] = lf
			x.order = append(x.order, lf)
		}
	}
	// reach: propagate directly locked mutexes to all (transitive) callers over the CHA graph
	x.reach = map[*ssa.Function]map[int]bool{}
	var work []*ssa.Function
	for f, ms := range x.direct {
		x.reach[f] = map[int]bool{}
		for m := range ms {
			x.reach[f][m] = true
		}
		work = append(work, f)
	}
	sort.Slice(work, func(i, j int) bool { return fnKey(work[i]) < fnKey(work[j]) })
	rg := x.p.repoGraph()
	radj := map[*ssa.Function][]*ssa.Function{}
	for f, cs := range rg.adj {
		for c := range cs {
			radj[c] = append(radj[c], f)
		}
	}
	for len(work) > 0 {
		f := work[len(work)-1]
		work = work[:len(work)-1]
		for _, caller := range radj[f] {
			changed := false
			if x.reach[caller] == nil {
				x.reach[caller] = map[int]bool{}
			}
			for m := range x.reach[f] {
				if !x.reach[caller][m] {
					x.reach[caller][m] = true
					changed = true
				}
			}
			if changed {
				work = append(work, caller)
			}
		}
	}
	// entry: called from outside the table, through a dynamic call, or not called at all
	for _, lf := range x.order {
		n := x.p.cg.Nodes[lf.fn]
		if n == nil || len(n.In) == 0 {
			lf.entry = true
			continue
		}
		for _, e := range n.In {
			_, callerInTable := x.table[e.Caller.Func]
			static := e.Site != nil && e.Site.Common().StaticCallee() == lf.fn
			if !(callerInTable && static) {
				lf.entry = true
			}
		}
	}
}

type pstate struct {
	items  []litem
	defers []*ssa.CallCommon
}

func (s pstate) key() string {
	k := pathKey(s.items) + "|"
	for _, d := range s.defers {
		k += fmt.Sprintf("%p,", d)
	}
	return k
}

func (s pstate) with(its ...litem) pstate {
	n := pstate{items: append(append([]litem{}, s.items...), its...), defers: s.defers}
	return n
}

// allAccesses: the read/write events a (possibly recursive) call of f can perform, following
// static calls into table functions; lockops reports whether any lock operation occurs.
func (x *lockExtract) allAccesses(f *ssa.Function, seen map[*ssa.Function]bool, out map[lstep]bool) (lockops bool) {
	if seen[f] {
		return false
	}
	seen[f] = true
	for _, b := range f.Blocks {
		for _, in := range b.Instrs {
			var evs []lstep
			if d, ok := in.(*ssa.Defer); ok {
				evs, _ = x.callDirect(d.Common())
			} else {
				evs, _ = x.directEvents(in, false)
			}
			for _, e := range evs {
				if isLockOp(e) {
					lockops = true
				} else {
					out[e] = true
				}
			}
			if ci, ok := in.(ssa.CallInstruction); ok {
				if sc := ci.Common().StaticCallee(); sc != nil {
					if _, inTable := x.table[sc]; inTable {
						if x.allAccesses(sc, seen, out) {
							lockops = true
						}
					}
				}
				if len(x.siteMutexes(f, ci)) > 0 {
					lockops = true
				}
			}
		}
	}
	return lockops
}

// siteMutexes: mutexes that may be locked inside the callees of a call site that is not inlined.
func (x *lockExtract) siteMutexes(f *ssa.Function, ci ssa.CallInstruction) []int {
	n := x.p.cg.Nodes[f]
	if n == nil {
		return nil
	}
	set := map[int]bool{}
	for _, e := range n.Out {
		if e.Site != ci {
			continue
		}
		callee := e.Callee.Func
		if sc := ci.Common().StaticCallee(); sc != nil && sc == callee {
			if _, inTable := x.table[callee]; inTable {
				continue // inlined
			}
		}
		for _, t := range x.p.repoGraph().targets(x.p, f, callee) {
			for m := range x.reach[t] {
				set[m] = true
			}
		}
	}
	var ms []int
	for m := range set {
		ms = append(ms, m)
	}
	sort.Ints(ms)
	return ms
}

func sortedSteps(set map[lstep]bool) []lstep {
	var s []lstep
	for e := range set {
		s = append(s, e)
	}
	sort.Slice(s, func(i, j int) bool {
		if s[i].id != s[j].id {
			return s[i].id < s[j].id
		}
		return s[i].op < s[j].op
	})
	return s
}

const maxPaths = 400

// callItems: the alternatives a call contributes to a path.
func (x *lockExtract) callItems(lf *lockFn, f *ssa.Function, ci ssa.CallInstruction, c *ssa.CallCommon, stack []*ssa.Function) [][]litem {
	evs, unknown := x.callDirect(c)
	if unknown != "" {
		lf.approx = true
		lf.why = append(lf.why, unknown)
	}
	if _, isOp := mutexOp(c); isOp {
		var its []litem
		for _, e := range evs {
			its = append(its, litem{kind: "step", st: e})
		}
		return [][]litem{its}
	}
	var pre []litem
	for _, e := range evs {
		pre = append(pre, litem{kind: "step", st: e})
	}
	if sc := c.StaticCallee(); sc != nil {
		if _, inTable := x.table[sc]; inTable {
			for _, g := range stack {
				if g == sc {
					// recursion: any sequence of the accesses of the cycle
					acc := map[lstep]bool{}
					if x.allAccesses(sc, map[*ssa.Function]bool{}, acc) {
						lf.approx = true
						lf.why = append(lf.why, "lock operation inside the recursion of "+shortFn(sc))
					}
					if len(acc) == 0 {
						return [][]litem{pre}
					}
					return [][]litem{append(pre, litem{kind: "any", steps: sortedSteps(acc)})}
				}
			}
			var alts [][]litem
			for _, p := range x.paths(lf, sc, stack) {
				alts = append(alts, append(append([]litem{}, pre...), p...))
			}
			return alts
		}
	}
	if ci != nil {
		if ms := x.siteMutexes(f, ci); len(ms) > 0 {
			return [][]litem{append(pre, litem{kind: "calls", ms: ms})}
		}
	}
	return [][]litem{pre}
}

// paths enumerates the event paths of f (lf collects approximations of the function being reported).
func (x *lockExtract) paths(lf *lockFn, f *ssa.Function, stack []*ssa.Function) [][]litem {
	stack = append(stack, f)
	// strongly connected components of the CFG (Tarjan); comps come out in reverse topological order
	index := map[*ssa.BasicBlock]int{}
	low := map[*ssa.BasicBlock]int{}
	on := map[*ssa.BasicBlock]bool{}
	comp := map[*ssa.BasicBlock]int{}
	var st []*ssa.BasicBlock
	var comps [][]*ssa.BasicBlock
	var strong func(b *ssa.BasicBlock)
	strong = func(b *ssa.BasicBlock) {
		index[b] = len(index) + 1
		low[b] = index[b]
		st = append(st, b)
		on[b] = true
		for _, s := range b.Succs {
			if index[s] == 0 {
				strong(s)
				if low[s] < low[b] {
					low[b] = low[s]
				}
			} else if on[s] && index[s] < low[b] {
				low[b] = index[s]
			}
		}
		if low[b] == index[b] {
			var c []*ssa.BasicBlock
			for {
				t := st[len(st)-1]
				st = st[:len(st)-1]
				on[t] = false
				comp[t] = len(comps)
				c = append(c, t)
				if t == b {
					break
				}
			}
			sort.Slice(c, func(i, j int) bool { return c[i].Index < c[j].Index })
			comps = append(comps, c)
		}
	}
	if len(f.Blocks) == 0 {
		return [][]litem{nil}
	}
	strong(f.Blocks[0])
	reachSt := make([]map[string]pstate, len(comps))
	for i := range reachSt {
		reachSt[i] = map[string]pstate{}
	}
	entry := comp[f.Blocks[0]]
	reachSt[entry][pstate{}.key()] = pstate{}
	final := map[string][]litem{}
	runDefers := func(s pstate) []pstate {
		cur := []pstate{{items: s.items}}
		for i := len(s.defers) - 1; i >= 0; i-- {
			var next []pstate
			for _, c := range cur {
				for _, alt := range x.callItems(lf, f, nil, s.defers[i], stack) {
					next = append(next, c.with(alt...))
				}
			}
			cur = next
		}
		return cur
	}
	for ci := len(comps) - 1; ci >= 0; ci-- { // topological order
		blocks := comps[ci]
		if len(reachSt[ci]) == 0 {
			continue
		}
		keys := make([]string, 0, len(reachSt[ci]))
		for k := range reachSt[ci] {
			keys = append(keys, k)
		}
		sort.Strings(keys)
		selfLoop := false
		if len(blocks) == 1 {
			for _, s := range blocks[0].Succs {
				if s == blocks[0] {
					selfLoop = true
				}
			}
		}
		isLoop := len(blocks) > 1 || selfLoop
		for _, k := range keys {
			s0 := reachSt[ci][k]
			var outs []pstate
			ended := false
			if isLoop {
				acc := map[lstep]bool{}
				accMs := map[int]bool{}
				var ordered []litem
				for _, b := range blocks {
					for _, in := range b.Instrs {
						switch in := in.(type) {
						case *ssa.Defer, *ssa.RunDefers, *ssa.Go:
							lf.approx = true
							lf.why = append(lf.why, "defer/go inside a loop of "+shortFn(f))
						case ssa.CallInstruction:
							for _, alt := range x.callItems(lf, f, in, in.Common(), stack) {
								for _, it := range alt {
									switch it.kind {
									case "step":
										if isLockOp(it.st) {
											ordered = append(ordered, it)
										} else {
											acc[it.st] = true
										}
									case "any":
										for _, e := range it.steps {
											acc[e] = true
										}
										for _, m := range it.ms {
											accMs[m] = true
										}
									case "calls":
										for _, m := range it.ms {
											accMs[m] = true
										}
									}
								}
							}
						default:
							evs, _ := x.directEvents(in, false)
							for _, e := range evs {
								acc[e] = true
							}
						}
					}
				}
				s1 := s0
				if len(ordered) > 0 {
					lf.approx = true
					lf.why = append(lf.why, "lock operation inside a loop of "+shortFn(f))
					s1 = s1.with(ordered...)
				}
				if len(acc) > 0 || len(accMs) > 0 {
					var ms []int
					for m := range accMs {
						ms = append(ms, m)
					}
					sort.Ints(ms)
					s1 = s1.with(litem{kind: "any", steps: sortedSteps(acc), ms: ms})
				}
				outs = []pstate{s1}
			} else {
				cur := []pstate{s0}
				for _, in := range blocks[0].Instrs {
					var next []pstate
					switch in := in.(type) {
					case *ssa.Defer:
						for _, c := range cur {
							n := pstate{items: c.items, defers: append(append([]*ssa.CallCommon{}, c.defers...), in.Common())}
							next = append(next, n)
						}
					case *ssa.RunDefers:
						for _, c := range cur {
							next = append(next, runDefers(c)...)
						}
					case *ssa.Go:
						lf.approx = true
						lf.why = append(lf.why, "go statement in "+shortFn(f))
						next = cur
					case *ssa.Panic:
						for _, c := range cur {
							next = append(next, runDefers(c)...)
						}
						ended = true
					case *ssa.Return:
						next = cur
						ended = true
					case ssa.CallInstruction:
						for _, c := range cur {
							for _, alt := range x.callItems(lf, f, in, in.Common(), stack) {
								next = append(next, c.with(alt...))
							}
						}
					default:
						evs, _ := x.directEvents(in, false)
						if len(evs) == 0 {
							next = cur
						} else {
							var its []litem
							for _, e := range evs {
								its = append(its, litem{kind: "step", st: e})
							}
							for _, c := range cur {
								next = append(next, c.with(its...))
							}
						}
					}
					// dedupe
					seen := map[string]bool{}
					cur = cur[:0:0]
					for _, n := range next {
						if k := n.key(); !seen[k] {
							seen[k] = true
							cur = append(cur, n)
						}
					}
					if len(cur) > maxPaths {
						lf.approx = true
						lf.why = append(lf.why, "too many paths in "+shortFn(f))
						cur = cur[:maxPaths]
					}
				}
				outs = cur
			}
			if ended {
				for _, o := range outs {
					final[pathKey(o.items)] = o.items
				}
				continue
			}
			succ := map[int]bool{}
			for _, b := range blocks {
				for _, s := range b.Succs {
					if comp[s] != ci {
						succ[comp[s]] = true
					}
				}
			}
			if len(succ) == 0 { // e.g. an endless loop: the path ends here
				for _, o := range outs {
					final[pathKey(o.items)] = o.items
				}
			}
			for sc := range succ {
				for _, o := range outs {
					if len(reachSt[sc]) < maxPaths {
						reachSt[sc][o.key()] = o
					}
				}
			}
		}
	}
	keys := make([]string, 0, len(final))
	for k := range final {
		keys = append(keys, k)
	}
	sort.Strings(keys)
	var res [][]litem
	for _, k := range keys {
		res = append(res, final[k])
	}
	if len(res) == 0 {
		res = [][]litem{nil}
	}
	return res
}

// ---- the checker (same as Lean's `itemsOK`), used only to choose the mutex numbering ----

type heldLock struct {
	m int
	w bool
}

func itemsOKGo(rank []int, guard []int, items []litem) bool {
	var held []heldLock
	stepOK := func(s lstep, mutate bool) bool {
		switch s.op {
		case "lock", "rlock":
			for _, h := range held {
				if rank[h.m] >= rank[s.id] {
					return false
				}
			}
			if mutate {
				held = append(held, heldLock{s.id, s.op == "lock"})
			}
		case "unlock", "runlock":
			for i, h := range held {
				if h.m == s.id && h.w == (s.op == "unlock") {
					if mutate {
						held = append(held[:i:i], held[i+1:]...)
					}
					return true
				}
			}
			return false
		case "read":
			g := guard[s.id]
			if g < 0 {
				return true
			}
			for _, h := range held {
				if h.m == g {
					return true
				}
			}
			return false
		case "write":
			g := guard[s.id]
			if g < 0 {
				return true
			}
			for _, h := range held {
				if h.m == g && h.w {
					return true
				}
			}
			return false
		}
		return true
	}
	for _, it := range items {
		switch it.kind {
		case "step":
			if !stepOK(it.st, true) {
				return false
			}
		case "any":
			for _, s := range it.steps {
				if isLockOp(s) || !stepOK(s, false) {
					return false
				}
			}
			for _, m := range it.ms {
				for _, h := range held {
					if rank[h.m] >= rank[m] {
						return false
					}
				}
			}
		case "calls":
			for _, m := range it.ms {
				for _, h := range held {
					if rank[h.m] >= rank[m] {
						return false
					}
				}
			}
		}
	}
	return len(held) == 0
}

func permutations(n int) [][]int {
	if n == 0 {
		return [][]int{{}}
	}
	var res [][]int
	for _, p := range permutations(n - 1) {
		for i := 0; i <= len(p); i++ {
			q := append(append(append([]int{}, p[:i]...), n-1), p[i:]...)
			res = append(res, q)
		}
	}
	sort.Slice(res, func(i, j int) bool {
		for k := range res[i] {
			if res[i][k] != res[j][k] {
				return res[i][k] < res[j][k]
			}
		}
		return false
	})
	return res
}

// renumber chooses mutex ids such that id order is a lock order of all entry paths, if possible.
func (x *lockExtract) renumber() {
	n := len(x.mutexes)
	if n == 0 || n > 6 {
		return
	}
	count := func(rank []int) int {
		ok := 0
		for _, lf := range x.order {
			if !lf.entry {
				continue
			}
			for _, p := range lf.paths {
				if itemsOKGo(rank, x.varGuard, p) {
					ok++
				}
			}
		}
		return ok
	}
	best, bestOK := []int(nil), -1
	for _, perm := range permutations(n) { // perm[i] = rank of mutex i
		if c := count(perm); c > bestOK {
			best, bestOK = perm, c
		}
	}
	// apply: new id of mutex i = best[i]
	newNm := make([]string, n)
	newRW := make([]bool, n)
	newM := make([]*types.Var, n)
	for i := 0; i < n; i++ {
		newNm[best[i]] = x.mutexNm[i]
		newRW[best[i]] = x.mutexRW[i]
		newM[best[i]] = x.mutexes[i]
	}
	x.mutexNm, x.mutexRW, x.mutexes = newNm, newRW, newM
	for i, m := range x.mutexes {
		x.mutexID[m] = i
	}
	for i, g := range x.varGuard {
		if g >= 0 {
			x.varGuard[i] = best[g]
		}
	}
	mapStep := func(s lstep) lstep {
		if isLockOp(s) {
			s.id = best[s.id]
		}
		return s
	}
	for _, lf := range x.order {
		for _, p := range lf.paths {
			for i := range p {
				p[i].st = mapStep(p[i].st)
				for j := range p[i].steps {
					p[i].steps[j] = mapStep(p[i].steps[j])
				}
				for j := range p[i].ms {
					p[i].ms[j] = best[p[i].ms[j]]
				}
				sort.Ints(p[i].ms)
			}
		}
	}
}

func runLockExtract() (*lockExtract, error) {
	p, err := loadProgram()
	if err != nil {
		return nil, err
	}
	x := &lockExtract{p: p, mutexID: map[*types.Var]int{}, varID: map[*types.Var]int{},
		extraVars: map[string]bool{"analyzer.runnerStatePool": true}}
	x.discover()
	x.buildTable()
	for _, lf := range x.order {
		lf.paths = x.paths(lf, lf.fn, nil)
		// dedupe reasons
		seen := map[string]bool{}
		var why []string
		for _, w := range lf.why {
			if !seen[w] {
				seen[w] = true
				why = append(why, w)
			}
		}
		lf.why = why
	}
	x.renumber()
	return x, nil
}

func leanStep(s lstep) string { return fmt.Sprintf(".%s %d", s.op, s.id) }

func leanItem(it litem) string {
	switch it.kind {
	case "step":
		return fmt.Sprintf(".step (%s)", leanStep(it.st))
	case "any":
		var s []string
		for _, e := range it.steps {
			s = append(s, leanStep(e))
		}
		var ms []string
		for _, m := range it.ms {
			ms = append(ms, fmt.Sprint(m))
		}
		return ".any [" + strings.Join(s, ", ") + "] [" + strings.Join(ms, ", ") + "]"
	default:
		var s []string
		for _, m := range it.ms {
			s = append(s, fmt.Sprint(m))
		}
		return ".calls [" + strings.Join(s, ", ") + "]"
	}
}

func genLockEvents() (string, error) {
	x, err := runLockExtract()
	if err != nil {
		return "", err
	}
	var b strings.Builder
	b.WriteString("import Rg.Model.Locks\n")
	b.WriteString("/-! GENERATED by `rgh extract` (harness/cmd/rgh/extract_locks.go) from the SSA form of the code in the\n")
	b.WriteString("repository — do not edit.  Lock / unlock / read / write events per control-flow path of every function\n")
	b.WriteString("that touches a tracked mutex or a variable it guards.  Mutex id = lock rank. -/\n")
	b.WriteString("namespace Gen.LockEvents\nopen Locks\n\n")
	fmt.Fprintf(&b, "def sourceHash : String := %s\n\n", leanStr(x.p.sourceHash()))
	b.WriteString("def mutexNames : List String := [")
	for i, n := range x.mutexNm {
		if i > 0 {
			b.WriteString(", ")
		}
		b.WriteString(leanStr(n))
	}
	b.WriteString("]\n")
	b.WriteString("def mutexIsRW : List Bool := [")
	for i, n := range x.mutexRW {
		if i > 0 {
			b.WriteString(", ")
		}
		fmt.Fprint(&b, n)
	}
	b.WriteString("]\n")
	b.WriteString("def varNames : List String := [")
	for i, n := range x.varNm {
		if i > 0 {
			b.WriteString(", ")
		}
		b.WriteString(leanStr(n))
	}
	b.WriteString("]\n")
	b.WriteString("/-- guard by naming convention (`<p>Mu` guards `<p>*`), `none` = tracked but not guarded by convention -/\n")
	b.WriteString("def varGuard : List (Option Mutex) := [")
	for i, g := range x.varGuard {
		if i > 0 {
			b.WriteString(", ")
		}
		if g < 0 {
			b.WriteString("none")
		} else {
			fmt.Fprintf(&b, "some %d", g)
		}
	}
	b.WriteString("]\n")
	fmt.Fprintf(&b, "/-- accesses through an object allocated in the same function (constructors), not listed as events -/\ndef freshAccesses : Nat := %d\n\n", x.fresh)
	for i, lf := range x.order {
		fmt.Fprintf(&b, "/-- %s (%s)%s -/\n", lf.name, x.p.pos(lf.fn.Pos()), func() string {
			if len(lf.why) > 0 {
				return " approx: " + strings.Join(lf.why, "; ")
			}
			return ""
		}())
		fmt.Fprintf(&b, "def fn%d : Fn := { name := %s, entry := %v, approx := %v, paths := [\n", i, leanStr(lf.name), lf.entry, lf.approx)
		for j, p := range lf.paths {
			var s []string
			for _, it := range p {
				s = append(s, leanItem(it))
			}
			sep := ","
			if j == len(lf.paths)-1 {
				sep = ""
			}
			fmt.Fprintf(&b, "  [%s]%s\n", strings.Join(s, ", "), sep)
		}
		b.WriteString("] }\n")
	}
	b.WriteString("\ndef table : Table := { nMutex := ")
	fmt.Fprintf(&b, "%d, guard := varGuard, fns := [", len(x.mutexNm))
	for i := range x.order {
		if i > 0 {
			b.WriteString(", ")
		}
		fmt.Fprintf(&b, "fn%d", i)
	}
	b.WriteString("] }\n\nend Gen.LockEvents\n")
	return b.String(), nil
}
