package main

// C13 — loading composes rule sets as an ordered union and fails atomically.
//
// The harness generates *histories* of Load / LoadFromIR calls on one engine (files with colliding group
// names, equal custom-function names, forward references between custom functions, failing stages,
// GroupFilters, bundles with prefixes, hand-made IR with dangling references), runs them through the
// public API and records after every call: the error class, LoadedGroups(), and the reports of a run
// over a fixed probe file.  The Lean model (`c13hist`) must predict all of it from the structure of the
// files; the executable statement of the property (`spec13`) is evaluated on the implementation's
// observations and every departure becomes a violation with a specific signature.

import (
	"fmt"
	"go/token"
	"math/rand"
	"os"
	"path/filepath"
	"regexp"
	"runtime"
	"runtime/debug"
	"sort"
	"strconv"
	"strings"
	"sync"

	"github.com/quasilyte/go-ruleguard/ruleguard"
	"github.com/quasilyte/go-ruleguard/ruleguard/ir"
	"verifharness/hx"
)

func init() { register("C13", runC13) }

// c13CompareFixed selects the model variant the correspondence compares the code with:
// false = the code as it is (`load false`), true = the code after verif/fixes/c13-*.diff.
const c13CompareFixed = true

// ---------------------------------------------------------------------------------------------
// abstract files (mirror of Rg/Model/Loads.lean)

type c13Func struct {
	Name   int // kind = Name % 4: 0 string helper, 1 bool helper, 2 Do function, 3 Filter function
	Tag    int
	Lit    bool
	Callee int // -1 = none
	Bad    bool
}

func (f c13Func) kind() int { return f.Name % 4 }

type c13Rule struct {
	Bucket, Key int
	Wild        bool
	Msg         int
	Do, Filt    int // -1 = none
	Bad         bool
	Line        int
	// rendering details that the model does not see:
	// Typed: the rule (bucket 0, one key) also carries Where(m["$$"].Type.Is("*<pkg>.<T>")) spelt with the package NAME
	// that, in the rule's own group (its Import()s, else the stdlib default), denotes the package of the result type of
	// c<Key>() — so under the documented resolution the filter is true exactly on the nodes the model expects;
	// badKind: which unloadable construct a Bad rule is rendered as (0 pattern that does not parse, 1 type filter
	// naming a package nobody imports)
	Typed   bool
	badKind int
}

type c13Group struct {
	Name, Line int
	Rules      []c13Rule
	Imports    []string // Import() declarations of the group (rendering detail: the model does not see them)
}

// c13KeyTypes: the result type of the probe function c<K>() — pairs of standard packages that share a base name, one of
// each pair being the default the engine resolves the bare name to (scanner -> go/scanner, template -> text/template)
var c13KeyTypes = map[int][2]string{
	1: {"go/scanner", "Scanner"}, 2: {"text/scanner", "Scanner"}, 3: {"text/template", "Template"}, 4: {"html/template", "Template"},
	5: {"math/rand", "Rand"},
}

var c13ImportPool = []string{"text/scanner", "html/template", "go/scanner", "text/template", "text/scanner", "html/template"}

var c13Defaults = map[string]string{"scanner": "go/scanner", "template": "text/template", "rand": "math/rand"}

// c13Resolve: the package a bare package name denotes inside a group: the group's last Import() with that base name,
// else the stdlib default (the property's own reading, C20).
func c13Resolve(imports []string, name string) string {
	for i := len(imports) - 1; i >= 0; i-- {
		if filepath.Base(imports[i]) == name {
			return imports[i]
		}
	}
	return c13Defaults[name]
}

// c13TypedKeys: the keys whose result type can be spelt with a bare package name inside a group with these imports
func c13TypedKeys(imports []string) []int {
	var ks []int
	for k := 1; k <= 4; k++ {
		kt := c13KeyTypes[k]
		if c13Resolve(imports, filepath.Base(kt[0])) == kt[0] {
			ks = append(ks, k)
		}
	}
	return ks
}

func c13TypeFilterArg(r c13Rule) string {
	if r.Bad {
		return "*nosuchpkg.Thing"
	}
	kt := c13KeyTypes[r.Key]
	return "*" + filepath.Base(kt[0]) + "." + kt[1]
}

type c13Unit struct {
	File     int
	ConvErr  bool
	DeclsErr bool
	Funcs    []c13Func
	Groups   []c13Group
	// rendering details that the model does not see
	convKind int    // which conversion error is injected
	src      string // rendered source (filled by render)
}

type c13Bundle struct {
	Pfx   int
	Err   bool
	Files []*c13Unit
	pkg   string // import path of the bundle package
}

type c13Req struct {
	IsIR     bool
	PkgPath  int
	Unit     *c13Unit
	Bundles  []c13Bundle
	Rejected [][2]int
	// IR-only mutations (already reflected in the abstract fields above)
	dropDecls   bool
	// importerConvErr: the conversion of this call fails because of the engine's package cache (see
	// c13ImporterOracle); like ConvErr it is an input of the model (conversion is a trusted component)
	importerConvErr bool
	garbageDecl bool
	note        []string
}

func c13FuncName(n int) string {
	return [...]string{"hs", "hb", "do", "fl"}[n%4] + "_" + strconv.Itoa(n)
}
func c13GroupName(pfx, n int) string {
	s := fmt.Sprintf("g%03d", n)
	if pfx != 0 {
		s = fmt.Sprintf("p%02d/", pfx) + s
	}
	return s
}
func c13FileName(id int) string { return fmt.Sprintf("f%03d.go", id) }

func b01(b bool) string {
	if b {
		return "1"
	}
	return "0"
}
func optAtom(n int) string {
	if n < 0 {
		return "-"
	}
	return strconv.Itoa(n)
}

func (u *c13Unit) sexp(convErr bool) string {
	var sb strings.Builder
	fmt.Fprintf(&sb, "(u %d %s %s (funcs", u.File, b01(convErr), b01(u.DeclsErr))
	for _, f := range u.Funcs {
		fmt.Fprintf(&sb, " (fn %d %c %d %s %s %s)", f.Name, "sbdf"[f.kind()], f.Tag, b01(f.Lit), optAtom(f.Callee), b01(f.Bad))
	}
	sb.WriteString(") (groups")
	for _, g := range u.Groups {
		fmt.Fprintf(&sb, " (g %d %d", g.Name, g.Line)
		for _, r := range g.Rules {
			fmt.Fprintf(&sb, " (r %d %d %s %d %s %s %s %d)", r.Bucket, r.Key, b01(r.Wild), r.Msg, optAtom(r.Do), optAtom(r.Filt), b01(r.Bad), r.Line)
		}
		sb.WriteString(")")
	}
	sb.WriteString("))")
	return sb.String()
}

func (r *c13Req) sexp() string {
	var sb strings.Builder
	fmt.Fprintf(&sb, "(req %s %d %s (bundles", b01(r.IsIR), r.PkgPath, r.Unit.sexp(r.Unit.ConvErr || r.importerConvErr))
	for _, b := range r.Bundles {
		fmt.Fprintf(&sb, " (b %d %s", b.Pfx, b01(b.Err))
		for _, u := range b.Files {
			sb.WriteString(" " + u.sexp(u.ConvErr))
		}
		sb.WriteString(")")
	}
	sb.WriteString(") (rej")
	for _, n := range r.Rejected {
		fmt.Fprintf(&sb, " (%d %d)", n[0], n[1])
	}
	sb.WriteString("))")
	return sb.String()
}

// ---------------------------------------------------------------------------------------------
// probe file: bucket 0 = calls cK(), bucket 1 = vK++, bucket 2 = comments "kK"

var c13ProbeNodes = [][2]int{{0, 1}, {0, 2}, {1, 1}, {0, 3}, {1, 2}, {0, 4}, {1, 3}, {0, 5}, {0, 1}, {1, 4}, {2, 1}, {2, 2}, {2, 3}, {2, 5}}

func c13ProbeSrc() string {
	var sb strings.Builder
	sb.WriteString("package p\n\nimport (\n")
	for k := 1; k <= 5; k++ {
		fmt.Fprintf(&sb, "\tq%d %q\n", k, c13KeyTypes[k][0])
	}
	sb.WriteString(")\n\n")
	for k := 1; k <= 5; k++ {
		fmt.Fprintf(&sb, "func c%d() *q%d.%s { return nil }\n", k, k, c13KeyTypes[k][1])
	}
	sb.WriteString("\nfunc f() {\n\tvar v1, v2, v3, v4 int\n")
	for _, n := range c13ProbeNodes {
		switch n[0] {
		case 0:
			fmt.Fprintf(&sb, "\tc%d()\n", n[1])
		case 1:
			fmt.Fprintf(&sb, "\tv%d++\n", n[1])
		}
	}
	sb.WriteString("}\n\n")
	for _, n := range c13ProbeNodes {
		if n[0] == 2 {
			fmt.Fprintf(&sb, "// note k%d.\n\n", n[1])
		}
	}
	return sb.String()
}

func c13ProbeSexp() string {
	var sb strings.Builder
	sb.WriteString("(probe")
	for _, n := range c13ProbeNodes {
		fmt.Fprintf(&sb, " (%d %d)", n[0], n[1])
	}
	sb.WriteString(")")
	return sb.String()
}

// ---------------------------------------------------------------------------------------------
// rendering

func c13FuncSrc(f c13Func) string {
	name := c13FuncName(f.Name)
	if f.Bad {
		// type-checks, but quasigo cannot compile a composite literal
		switch f.kind() {
		case 0:
			return fmt.Sprintf("func %s() string { x := []string{\"T%d\"}; return x[0] }", name, f.Tag)
		case 1:
			return fmt.Sprintf("func %s() bool { x := []bool{%v}; return x[0] }", name, f.Lit)
		case 2:
			return fmt.Sprintf("func %s(ctx *dsl.DoContext) { x := []string{\"T%d\"}; ctx.SetReport(x[0]) }", name, f.Tag)
		default:
			return fmt.Sprintf("func %s(ctx *dsl.VarFilterContext) bool { x := []bool{%v}; return x[0] }", name, f.Lit)
		}
	}
	callee := ""
	if f.Callee >= 0 {
		callee = c13FuncName(f.Callee)
	}
	switch f.kind() {
	case 0:
		if callee == "" {
			return fmt.Sprintf("func %s() string { return \"T%d\" }", name, f.Tag)
		}
		return fmt.Sprintf("func %s() string { s := %s(); return \"T%d>\" + s }", name, callee, f.Tag)
	case 1:
		if callee == "" {
			return fmt.Sprintf("func %s() bool { return %v }", name, f.Lit)
		}
		return fmt.Sprintf("func %s() bool { b := %s(); return b }", name, callee)
	case 2:
		if callee == "" {
			return fmt.Sprintf("func %s(ctx *dsl.DoContext) { ctx.SetReport(\"T%d\") }", name, f.Tag)
		}
		return fmt.Sprintf("func %s(ctx *dsl.DoContext) { s := %s(); ctx.SetReport(\"T%d>\" + s) }", name, callee, f.Tag)
	default:
		if callee == "" {
			return fmt.Sprintf("func %s(ctx *dsl.VarFilterContext) bool { return %v }", name, f.Lit)
		}
		return fmt.Sprintf("func %s(ctx *dsl.VarFilterContext) bool { b := %s(); return b }", name, callee)
	}
}

// hasTypeFilter: the rule is rendered with a Type.Is filter (a typed rule, or a Bad rule of kind 1)
func (r c13Rule) hasTypeFilter() bool {
	return r.Bucket != 2 && (r.Typed && !r.Bad || r.Bad && r.badKind == 1)
}

func c13Pattern(r c13Rule) string {
	if r.Bad && r.badKind == 1 && r.Bucket != 2 {
		r.Bad = false
	}
	switch r.Bucket {
	case 0:
		if r.Bad {
			return fmt.Sprintf("c%d(", r.Key)
		}
		if r.Wild {
			return "$_()"
		}
		return fmt.Sprintf("c%d()", r.Key)
	case 1:
		if r.Bad {
			return fmt.Sprintf("v%d++ +", r.Key)
		}
		if r.Wild {
			return "$_++"
		}
		return fmt.Sprintf("v%d++", r.Key)
	default:
		if r.Bad {
			return fmt.Sprintf("k%d(", r.Key)
		}
		if r.Wild {
			return `k\d+`
		}
		return fmt.Sprintf(`\bk%d\b`, r.Key)
	}
}

// render writes the unit as a rules file (pkgName "gorules" for top-level files, the bundle's package
// name for bundle files), fills in the group and rule lines, and stores the text in u.src.
func (u *c13Unit) render(pkgName string, bundles []c13Bundle, declareBundle bool) {
	var lines []string
	add := func(s string) int { lines = append(lines, s); return len(lines) }
	add("package " + pkgName)
	add("")
	if len(bundles) == 0 {
		add(`import "github.com/quasilyte/go-ruleguard/dsl"`)
	} else {
		add("import (")
		add("\t\"github.com/quasilyte/go-ruleguard/dsl\"")
		seen := map[string]bool{}
		for _, b := range bundles {
			if !seen[b.pkg] {
				seen[b.pkg] = true
				add(fmt.Sprintf("\t%s %q", filepath.Base(b.pkg), b.pkg))
			}
		}
		add(")")
		add("")
		add("func init() {")
		for _, b := range bundles {
			pfx := ""
			if b.Pfx != 0 {
				pfx = fmt.Sprintf("p%02d", b.Pfx)
			}
			add(fmt.Sprintf("\tdsl.ImportRules(%q, %s.Bundle)", pfx, filepath.Base(b.pkg)))
		}
		add("}")
	}
	add("")
	add("var _ dsl.Matcher")
	if declareBundle {
		add("var Bundle = dsl.Bundle{}")
		add("")
	}
	for _, f := range u.Funcs {
		add(c13FuncSrc(f))
	}
	add("")
	for gi := range u.Groups {
		g := &u.Groups[gi]
		g.Line = add(fmt.Sprintf("func g%03d(m dsl.Matcher) {", g.Name))
		for _, imp := range g.Imports {
			add(fmt.Sprintf("\tm.Import(%q)", imp))
		}
		for ri := range g.Rules {
			r := &g.Rules[ri]
			var s string
			if r.Bucket == 2 {
				s = fmt.Sprintf("\tm.MatchComment(%q)", c13Pattern(*r))
			} else {
				s = fmt.Sprintf("\tm.Match(%q)", c13Pattern(*r))
			}
			var conds []string
			if r.Filt >= 0 {
				conds = append(conds, fmt.Sprintf("m[\"$$\"].Filter(%s)", c13FuncName(r.Filt)))
			}
			if r.hasTypeFilter() {
				conds = append(conds, fmt.Sprintf("m[\"$$\"].Type.Is(%q)", c13TypeFilterArg(*r)))
			}
			if len(conds) > 0 {
				s += ".Where(" + strings.Join(conds, " && ") + ")"
			}
			if r.Do >= 0 {
				s += fmt.Sprintf(".Do(%s)", c13FuncName(r.Do))
			} else {
				s += fmt.Sprintf(".Report(\"M%d\")", r.Msg)
			}
			r.Line = add(s)
		}
		add("}")
		add("")
	}
	if u.ConvErr {
		switch u.convKind % 3 {
		case 0:
			add("func broken( {") // parse error
		case 1:
			add("var _ int = \"type error\"") // type-check error
		default:
			add("func gbad(m dsl.Matcher) { m.Match(\"x\").Where(m[\"x\"].Type.Size >= notConst()).Report(\"x\") }\nfunc notConst() int { return 1 }") // irconv error
		}
	}
	u.src = strings.Join(lines, "\n") + "\n"
}

// toIR builds the ir.File a precompiled bundle of this request would hold (lines as rendered).
func (r *c13Req) toIR() *ir.File {
	u := r.Unit
	f := &ir.File{PkgPath: "gorules"}
	if r.PkgPath != 0 {
		f.PkgPath = fmt.Sprintf("pkg%d", r.PkgPath)
	}
	for _, b := range r.Bundles {
		pfx := ""
		if b.Pfx != 0 {
			pfx = fmt.Sprintf("p%02d", b.Pfx)
		}
		f.BundleImports = append(f.BundleImports, ir.BundleImport{Line: 1, PkgPath: b.pkg, Prefix: pfx})
	}
	if !r.dropDecls {
		for _, fn := range u.Funcs {
			f.CustomDecls = append(f.CustomDecls, c13FuncSrc(fn))
		}
	}
	if r.garbageDecl {
		f.CustomDecls = append(f.CustomDecls, "func broken( {")
	}
	emit := func(g c13Group) {
		ig := ir.RuleGroup{Line: g.Line, Name: fmt.Sprintf("g%03d", g.Name), MatcherName: "m"}
		for _, imp := range g.Imports {
			ig.Imports = append(ig.Imports, ir.PackageImport{Path: imp, Name: filepath.Base(imp)})
		}
		for _, rl := range g.Rules {
			ir1 := ir.Rule{Line: rl.Line}
			ps := ir.PatternString{Line: rl.Line, Value: c13Pattern(rl)}
			if rl.Bucket == 2 {
				ir1.CommentPatterns = []ir.PatternString{ps}
			} else {
				ir1.SyntaxPatterns = []ir.PatternString{ps}
			}
			if rl.Filt >= 0 {
				fn := c13FuncName(rl.Filt)
				ir1.WhereExpr = ir.FilterExpr{Line: rl.Line, Op: ir.FilterVarFilterOp, Src: `m["$$"].Filter(` + fn + `)`, Value: "$$",
					Args: []ir.FilterExpr{{Op: ir.FilterFilterFuncRefOp, Value: fn}}}
			}
			if rl.hasTypeFilter() {
				arg := c13TypeFilterArg(rl)
				tf := ir.FilterExpr{Line: rl.Line, Op: ir.FilterVarTypeIsOp, Src: fmt.Sprintf(`m["$$"].Type.Is(%q)`, arg), Value: "$$",
					Args: []ir.FilterExpr{{Line: rl.Line, Op: ir.FilterStringOp, Src: strconv.Quote(arg), Value: arg}}}
				if rl.Filt >= 0 {
					ir1.WhereExpr = ir.FilterExpr{Line: rl.Line, Op: ir.FilterAndOp, Src: ir1.WhereExpr.Src + " && " + tf.Src, Args: []ir.FilterExpr{ir1.WhereExpr, tf}}
				} else {
					ir1.WhereExpr = tf
				}
			}
			if rl.Do >= 0 {
				ir1.DoFuncName = c13FuncName(rl.Do)
			} else {
				ir1.ReportTemplate = fmt.Sprintf("M%d", rl.Msg)
			}
			ig.Rules = append(ig.Rules, ir1)
		}
		f.RuleGroups = append(f.RuleGroups, ig)
	}
	for _, g := range u.Groups {
		emit(g)
	}
	return f
}

// leftOver points one plain rule of the request at a Do/Filter function that another file — of an earlier call of the
// history or of a bundle this call imports — declares and the request's own file does not.
func (g *c13Gen) leftOver(r *c13Req, prev []*c13Req) bool {
	own := map[int]bool{}
	for _, f := range r.Unit.Funcs {
		own[f.Name] = true
	}
	var dos, fls []int
	seen := map[int]bool{}
	collect := func(u *c13Unit) {
		for _, f := range u.Funcs {
			if own[f.Name] || seen[f.Name] {
				continue
			}
			seen[f.Name] = true
			switch f.kind() {
			case 2:
				dos = append(dos, f.Name)
			case 3:
				fls = append(fls, f.Name)
			}
		}
	}
	for _, b := range r.Bundles {
		for _, u := range b.Files {
			collect(u)
		}
	}
	for _, p := range prev {
		collect(p.Unit)
		for _, b := range p.Bundles {
			for _, u := range b.Files {
				collect(u)
			}
		}
	}
	for gi := range r.Unit.Groups {
		for ri := range r.Unit.Groups[gi].Rules {
			rl := &r.Unit.Groups[gi].Rules[ri]
			if rl.Bucket == 2 || rl.Do >= 0 || rl.Filt >= 0 {
				continue
			}
			switch {
			case len(dos) > 0 && (len(fls) == 0 || g.chance(0.5)):
				rl.Do = dos[g.rng.Intn(len(dos))]
			case len(fls) > 0:
				rl.Filt = fls[g.rng.Intn(len(fls))]
			default:
				return false
			}
			return true
		}
	}
	return false
}

// dangle points one plain rule of the request at a function nobody declares.
func (g *c13Gen) dangle(r *c13Req) bool {
	for gi := range r.Unit.Groups {
		for ri := range r.Unit.Groups[gi].Rules {
			rl := &r.Unit.Groups[gi].Rules[ri]
			if rl.Bucket != 2 && rl.Do < 0 && rl.Filt < 0 {
				if g.chance(0.5) {
					rl.Do = 4*9 + 2
				} else {
					rl.Filt = 4*9 + 3
				}
				return true
			}
		}
	}
	return false
}

// ---------------------------------------------------------------------------------------------
// generation

type c13Gen struct {
	rng     *rand.Rand
	nextTag int
	nextMsg int
	nextFil int
	pool    []c13Bundle // static bundle packages (Pfx unset)
}

func (g *c13Gen) chance(p float64) bool { return g.rng.Float64() < p }

// unit generates one file. fileID < 0 allocates a fresh id.
func (g *c13Gen) unit(fileID int, small bool) *c13Unit {
	rng := g.rng
	u := &c13Unit{File: fileID}
	nf := rng.Intn(6)
	if small {
		nf = rng.Intn(3)
	}
	if g.chance(0.25) {
		nf = 0
	}
	used := map[int]bool{}
	for i := 0; i < nf; i++ {
		kind := []int{0, 0, 1, 2, 2, 3}[rng.Intn(6)]
		name := 4*(1+rng.Intn(3)) + kind
		if used[name] {
			continue
		}
		used[name] = true
		g.nextTag++
		u.Funcs = append(u.Funcs, c13Func{Name: name, Tag: g.nextTag, Lit: rng.Intn(3) != 0, Callee: -1})
	}
	// calls: backward references to helpers of the matching value kind, sometimes a forward reference
	// to a leaf helper declared later in the same file (valid Go; the loader binds calls at compile time)
	leafOnly := map[int]bool{}
	for i := range u.Funcs {
		f := &u.Funcs[i]
		if leafOnly[i] || !g.chance(0.55) {
			continue
		}
		want := 0
		if f.kind() == 1 || f.kind() == 3 {
			want = 1
		}
		var back, fwd []int
		for j := range u.Funcs {
			if j != i && u.Funcs[j].kind() == want {
				if j < i {
					back = append(back, j)
				} else if u.Funcs[j].Callee < 0 {
					fwd = append(fwd, j)
				}
			}
		}
		switch {
		case len(fwd) > 0 && (len(back) == 0 || g.chance(0.3)):
			j := fwd[rng.Intn(len(fwd))]
			leafOnly[j] = true
			f.Callee = u.Funcs[j].Name
		case len(back) > 0:
			f.Callee = u.Funcs[back[rng.Intn(len(back))]].Name
		}
	}
	if len(u.Funcs) > 0 && g.chance(0.04) {
		u.Funcs[rng.Intn(len(u.Funcs))].Bad = true
	}
	var dos, fls []int
	for _, f := range u.Funcs {
		switch f.kind() {
		case 2:
			dos = append(dos, f.Name)
		case 3:
			fls = append(fls, f.Name)
		}
	}
	ng := 1 + rng.Intn(3)
	if small {
		ng = 1 + rng.Intn(2)
	}
	usedG := map[int]bool{}
	for i := 0; i < ng; i++ {
		name := 1 + rng.Intn(7)
		if usedG[name] {
			continue
		}
		usedG[name] = true
		grp := c13Group{Name: name}
		if g.chance(0.4) {
			for n := 1 + rng.Intn(2); n > 0; n-- {
				grp.Imports = append(grp.Imports, c13ImportPool[rng.Intn(len(c13ImportPool))])
			}
		}
		typedKeys := c13TypedKeys(grp.Imports)
		nr := 1 + rng.Intn(4)
		if g.chance(0.05) {
			nr = 0
		}
		for k := 0; k < nr; k++ {
			g.nextMsg++
			r := c13Rule{Bucket: []int{0, 0, 0, 1, 2}[rng.Intn(5)], Key: 1 + rng.Intn(4), Wild: g.chance(0.15), Msg: g.nextMsg, Do: -1, Filt: -1}
			// qualified type names: a rule of one call key may carry a Type.Is filter spelt with the bare package name;
			// in a group with Import()s mostly on a key whose package that name denotes there
			if r.Bucket == 0 && !r.Wild && len(typedKeys) > 0 && g.chance(0.45) {
				if len(grp.Imports) > 0 || g.chance(0.5) {
					r.Key = typedKeys[rng.Intn(len(typedKeys))]
				}
				for _, tk := range typedKeys {
					r.Typed = r.Typed || tk == r.Key
				}
			}
			if r.Bucket != 2 {
				if len(dos) > 0 && g.chance(0.5) {
					r.Do = dos[rng.Intn(len(dos))]
				}
				if len(fls) > 0 && g.chance(0.4) {
					r.Filt = fls[rng.Intn(len(fls))]
				}
			}
			if g.chance(0.03) || len(grp.Imports) > 0 && g.chance(0.08) {
				// a rule the loader rejects while it is inside the group (after the group's Import()s were entered)
				r.Bad = true
				r.badKind = rng.Intn(2)
			}
			grp.Rules = append(grp.Rules, r)
		}
		u.Groups = append(u.Groups, grp)
	}
	return u
}

func (g *c13Gen) freshFile() int { g.nextFil++; return g.nextFil }

// request generates one Load/LoadFromIR call; prev = earlier requests of the history (for reloads).
func (g *c13Gen) request(prev []*c13Req, bundlesOK bool) *c13Req {
	rng := g.rng
	if len(prev) > 0 && g.chance(0.12) {
		// the same file again (every accepted name collides), possibly under another filter
		p := prev[rng.Intn(len(prev))]
		cp := *p
		cp.note = append([]string{"reload"}, p.note...)
		if g.chance(0.5) {
			cp.Rejected = g.rejected(&cp)
		}
		return &cp
	}
	r := &c13Req{Unit: g.unit(g.freshFile(), false)}
	if bundlesOK && len(g.pool) > 0 && g.chance(0.22) {
		nb := 1 + rng.Intn(2)
		for i := 0; i < nb; i++ {
			b := g.pool[rng.Intn(len(g.pool))]
			b.Pfx = rng.Intn(3)
			r.Bundles = append(r.Bundles, b)
		}
		r.note = append(r.note, "bundle")
	}
	if g.chance(0.3) {
		r.IsIR = true
		r.note = append(r.note, "ir")
		if g.chance(0.4) {
			switch rng.Intn(7) {
			case 6: // one Do/Filter name that this file does not declare but an earlier call (accepted or not) or a
				// bundle file of this call does: only the engine-wide name table knows it
				if g.leftOver(r, prev) {
					r.note = append(r.note, "ir:name-of-another-file")
				}
			case 0: // the file's PkgPath is not "gorules" (the package its declarations are compiled under)
				r.PkgPath = 1
				r.note = append(r.note, "ir:pkgpath")
			case 1: // rules refer to functions the file does not declare
				r.dropDecls = true
				r.Unit.Funcs = nil
				r.note = append(r.note, "ir:no-decls")
			case 2: // one dangling Do/Filter name
				if g.dangle(r) {
					r.note = append(r.note, "ir:dangling")
				}
			case 3:
				if len(r.Unit.Groups) > 0 {
					// the unit simply lists one group twice
					k := rng.Intn(len(r.Unit.Groups))
					gs := append([]c13Group{}, r.Unit.Groups[:k+1]...)
					gs = append(gs, r.Unit.Groups[k])
					gs = append(gs, r.Unit.Groups[k+1:]...)
					r.Unit.Groups = gs
					r.note = append(r.note, "ir:dup-group")
				}
			case 4:
				r.garbageDecl = true
				r.Unit.DeclsErr = true
				r.note = append(r.note, "ir:bad-decls")
			case 5: // bundle import that cannot be found
				r.Bundles = append(r.Bundles, c13Bundle{Pfx: rng.Intn(3), Err: true, pkg: "c13b/nonexistent"})
				r.note = append(r.note, "ir:missing-bundle")
			}
		}
	} else if g.chance(0.06) {
		r.Unit.ConvErr = true
		r.Unit.convKind = rng.Intn(3)
		r.note = append(r.note, "conv-error")
	}
	if g.chance(0.35) {
		r.Rejected = g.rejected(r)
	}
	return r
}

func (g *c13Gen) rejected(r *c13Req) [][2]int {
	var all [][2]int
	for _, gr := range r.Unit.Groups {
		all = append(all, [2]int{0, gr.Name})
	}
	for _, b := range r.Bundles {
		for _, u := range b.Files {
			for _, gr := range u.Groups {
				all = append(all, [2]int{b.Pfx, gr.Name})
			}
		}
	}
	var out [][2]int
	seen := map[[2]int]bool{}
	for _, n := range all {
		if !seen[n] && g.chance(0.4) {
			seen[n] = true
			out = append(out, n)
		}
	}
	if g.chance(0.2) {
		out = append(out, [2]int{g.rng.Intn(3), 1 + g.rng.Intn(7)})
	}
	return out
}

// c13ImporterOracle supplies the one conversion outcome that depends on the history: `convertAST`
// type-checks a file that imports a bundle package with (a) the dsl package found in the engine's
// package cache and (b) the bundle package from the cache or, when it is not there yet, freshly
// built by this call's source importer against *its own* copy of dsl.  When the two copies differ the
// type-check fails ("cannot use b.Bundle (variable of type dsl.Bundle) as dsl.Bundle value"); the
// freshly built packages are cached nevertheless, so the same call succeeds when repeated.
// The importer is a trusted component; its effect on the outcome of the conversion step is computed
// here and handed to the model as the `convErr` input of the step (copies of requests are made so
// that a reloaded request can carry a different flag).
//
// Since the `fix:` commit that makes every Load's source importer start from the engine's package cache the two
// copies can no longer differ: the oracle then never reports an importer-caused conversion error (the quirk was a
// genuine defect, found by C05's load histories: a bundle-importing file loaded second failed to type-check).
const c13ImporterSharesCache = true

func c13ImporterOracle(reqs []*c13Req) []*c13Req {
	dsl, fresh := 0, 0
	bundleInst := map[string]int{}
	out := make([]*c13Req, len(reqs))
	for i, r0 := range reqs {
		r := *r0
		out[i] = &r
		r.importerConvErr = false
		if r.IsIR {
			// bundle files, then the custom declarations, import dsl through the engine's importer
			// (LoadFile order; a missing bundle ends the call, unparsable declarations import nothing)
			uses, aborted := false, false
			for _, b := range r.Bundles {
				if b.Err {
					aborted = true
					break
				}
				uses = uses || len(b.Files) > 0
			}
			if !aborted && len(r.Unit.Funcs) > 0 && !r.garbageDecl {
				uses = true
			}
			if uses && dsl == 0 {
				fresh++
				dsl = fresh
			}
			continue
		}
		if r.Unit.ConvErr && r.Unit.convKind%3 == 0 {
			continue // parse error: nothing is imported
		}
		src := 0 // the dsl copy of this call's source importer
		if dsl == 0 {
			fresh++
			dsl, src = fresh, fresh
		}
		d := dsl
		seen := map[string]bool{}
		for _, b := range r.Bundles {
			if seen[b.pkg] {
				continue
			}
			seen[b.pkg] = true
			inst, ok := bundleInst[b.pkg]
			if !ok {
				if src == 0 {
					fresh++
					src = fresh
				}
				inst = src
				bundleInst[b.pkg] = inst
				dsl = src
			}
			if inst != d && !c13ImporterSharesCache {
				r.importerConvErr = true
			}
		}
	}
	return out
}

// ---------------------------------------------------------------------------------------------
// execution on the real engine

var c13GroupRe = regexp.MustCompile(`^(?:p(\d\d)/)?g(\d\d\d)$`)
var c13FileRe = regexp.MustCompile(`f(\d+)\.go$`)

func c13Name(s string) string {
	m := c13GroupRe.FindStringSubmatch(s)
	if m == nil {
		return "?" + s
	}
	p := 0
	if m[1] != "" {
		p, _ = strconv.Atoi(m[1])
	}
	n, _ := strconv.Atoi(m[2])
	return fmt.Sprintf("%d.%d", p, n)
}

func c13ErrClass(err error) string {
	if err == nil {
		return "ok"
	}
	s := err.Error()
	switch {
	case strings.HasPrefix(s, "PANIC "):
		return "panic:" + strings.Fields(s)[1]
	case strings.Contains(s, "redefinition of"):
		return "err:redef"
	case strings.Contains(s, "can't find imported bundle files"):
		return "err:bundle"
	case strings.Contains(s, "parse file error"), strings.Contains(s, "typechecker error"), strings.Contains(s, "irconv error"):
		if strings.Contains(s, "parse custom decls") {
			return "err:decls"
		}
		return "err:conv"
	case strings.Contains(s, "can't find a compiled version"):
		return "err:nofunc"
	case strings.Contains(s, "can't compile"):
		return "err:compile"
	case strings.Contains(s, "parse match pattern"), strings.Contains(s, "compile regexp"), strings.Contains(s, "parse type expr"):
		return "err:rule"
	}
	return "err:other:" + strings.ReplaceAll(s, " ", "_")
}

func c13Load(e *ruleguard.Engine, r *c13Req) (err error) {
	defer func() {
		if rec := recover(); rec != nil {
			err = fmt.Errorf("PANIC %s %v at %s", hx.PanicKind(rec), rec, c13Frame(debug.Stack()))
		}
	}()
	rej := map[string]bool{}
	for _, n := range r.Rejected {
		rej[c13GroupName(n[0], n[1])] = true
	}
	ctx := &ruleguard.LoadContext{Fset: token.NewFileSet()}
	if len(r.Rejected) > 0 {
		ctx.GroupFilter = func(g *ruleguard.GoRuleGroup) bool { return !rej[g.Name] }
	}
	name := c13FileName(r.Unit.File)
	if r.IsIR {
		return e.LoadFromIR(ctx, name, r.toIR())
	}
	return e.Load(ctx, name, strings.NewReader(r.Unit.src))
}

// c13Frame: innermost frame inside the ruleguard packages
func c13Frame(stack []byte) string {
	lines := strings.Split(string(stack), "\n")
	for i := 0; i+1 < len(lines); i++ {
		l := strings.TrimSpace(lines[i+1])
		if strings.Contains(l, "/ruleguard/") && !strings.Contains(l, "verif_hooks") && strings.Contains(lines[i], "go-ruleguard") {
			fn := strings.TrimSpace(lines[i])
			if j := strings.LastIndex(fn, "("); j > 0 {
				fn = fn[:j]
			}
			if j := strings.LastIndex(fn, "/"); j >= 0 {
				fn = fn[j+1:]
			}
			return fn
		}
	}
	return "?"
}

func c13Groups(e *ruleguard.Engine) string {
	return hx.Safe(func() string {
		gs := e.LoadedGroups()
		if len(gs) == 0 {
			return "-"
		}
		var parts []string
		for _, g := range gs {
			file := "?"
			if m := c13FileRe.FindStringSubmatch(g.Filename); m != nil {
				n, _ := strconv.Atoi(m[1])
				file = strconv.Itoa(n)
			}
			parts = append(parts, fmt.Sprintf("%s@%s:%d", c13Name(g.Name), file, g.Line))
		}
		return strings.Join(parts, ",")
	})
}

func c13Msg(s string) string {
	if s == "<empty message>" {
		return "E"
	}
	return strings.NewReplacer(" ", "_", ",", "_", ";", "_", "|", "_", ".", "_", "!", "_").Replace(s)
}

func c13Run(e *ruleguard.Engine, t *hx.Target, st *ruleguard.RunnerState) string {
	reports, pk, _, err := hx.Run(e, t, hx.RunOpts{State: st})
	if err != nil {
		if strings.Contains(err.Error(), "empty rule set") {
			return "norules"
		}
		return "error:" + c13Msg(err.Error())
	}
	var parts []string
	for _, r := range reports {
		b, k := -1, -1
		if r.Pos >= 0 && r.End <= len(t.Src) && r.Pos <= r.End {
			text := string(t.Src[r.Pos:r.End])
			switch {
			case r.NodeKind == "*ast.CallExpr" && strings.HasPrefix(text, "c"):
				b = 0
				k, _ = strconv.Atoi(strings.TrimSuffix(text[1:], "()"))
			case r.NodeKind == "*ast.IncDecStmt" && strings.HasPrefix(text, "v"):
				b = 1
				k, _ = strconv.Atoi(strings.TrimSuffix(text[1:], "++"))
			case r.NodeKind == "*ast.Comment" && strings.HasPrefix(text, "k"):
				b = 2
				k, _ = strconv.Atoi(text[1:])
			}
		}
		parts = append(parts, fmt.Sprintf("%d.%d.%s.%d.%s", b, k, c13Name(r.Group), r.RuleLine, c13Msg(r.Message)))
	}
	body := "-"
	if len(parts) > 0 {
		body = strings.Join(parts, ",")
	}
	if pk != "" {
		body += "!panic:" + strings.TrimPrefix(pk, "panic ")
	}
	return body
}

type c13History struct {
	Reqs   []*c13Req
	StaleK int // -1: no reused RunnerState; otherwise the state is created after step StaleK (0 = before any Load)
	// results
	steps []string // out|groups|run per step
	stale []string // run with the reused state after steps StaleK+1..
	errs  []string // raw error texts (for replays)
}

func (h *c13History) sexp() string {
	var sb strings.Builder
	sb.WriteString("(c13 " + c13ProbeSexp() + " (hist")
	for _, r := range h.Reqs {
		sb.WriteString(" " + r.sexp())
	}
	sb.WriteString("))")
	return sb.String()
}

func (h *c13History) exec(t *hx.Target) {
	e := ruleguard.NewEngine()
	var st *ruleguard.RunnerState
	if h.StaleK == 0 {
		st = ruleguard.NewRunnerState(e)
	}
	for i, r := range h.Reqs {
		err := c13Load(e, r)
		if err != nil {
			h.errs = append(h.errs, err.Error())
		} else {
			h.errs = append(h.errs, "")
		}
		h.steps = append(h.steps, c13ErrClass(err)+"|"+strings.ReplaceAll(c13Groups(e), "panic ", "panic:")+"|"+c13Run(e, t, nil))
		if st != nil {
			h.stale = append(h.stale, c13Run(e, t, st))
		}
		if h.StaleK == i+1 {
			st = ruleguard.NewRunnerState(e)
		}
	}
}

func (h *c13History) input() map[string]interface{} {
	var files []map[string]interface{}
	for i, r := range h.Reqs {
		m := map[string]interface{}{"step": i, "api": "Load", "file": c13FileName(r.Unit.File), "notes": strings.Join(r.note, ","), "error": ""}
		if i < len(h.errs) {
			m["error"] = h.errs[i]
		}
		if r.IsIR {
			m["api"] = "LoadFromIR"
			m["ir"] = fmt.Sprintf("%+v", *r.toIR())
		} else {
			m["src"] = r.Unit.src
		}
		var rej []string
		for _, n := range r.Rejected {
			rej = append(rej, c13GroupName(n[0], n[1]))
		}
		m["groupFilterRejects"] = rej
		var bs []string
		for _, b := range r.Bundles {
			s := fmt.Sprintf("%s prefix=%d", b.pkg, b.Pfx)
			for _, u := range b.Files {
				s += "\n--- " + c13FileName(u.File) + "\n" + u.src
			}
			bs = append(bs, s)
		}
		if len(bs) > 0 {
			m["bundles"] = bs
		}
		files = append(files, m)
	}
	return map[string]interface{}{"history": files, "runnerStateCreatedAfterStep": h.StaleK, "model": h.sexp()}
}

// ---------------------------------------------------------------------------------------------

// c13Workspace creates the throw-away module that holds the bundle packages and makes it the
// working directory (findBundleFiles runs `go list` in the current directory).
func c13Workspace(g *c13Gen, harnessDir string) (string, error) {
	dir, err := os.MkdirTemp("", "c13b")
	if err != nil {
		return "", err
	}
	gomod := "module c13b\n\ngo 1.22\n\nrequire github.com/quasilyte/go-ruleguard/dsl v0.3.22\n"
	if err := os.WriteFile(filepath.Join(dir, "go.mod"), []byte(gomod), 0o644); err != nil {
		return dir, err
	}
	if sum, err := os.ReadFile(filepath.Join(harnessDir, "go.sum")); err == nil {
		_ = os.WriteFile(filepath.Join(dir, "go.sum"), sum, 0o644)
	}
	for bi := 1; bi <= 4; bi++ {
		pkg := fmt.Sprintf("b%d", bi)
		b := c13Bundle{pkg: "c13b/" + pkg}
		if err := os.MkdirAll(filepath.Join(dir, pkg), 0o755); err != nil {
			return dir, err
		}
		nf := 1 + g.rng.Intn(2)
		for k := 0; k < nf; k++ {
			u := g.unit(100+bi*10+k, true)
			// bundle files are type-checked as part of their package by the importer of the importing
			// file, so function and group names must be unique across the files of one bundle
			if k > 0 {
				u.Funcs = nil
				for gi := range u.Groups {
					for ri := range u.Groups[gi].Rules {
						u.Groups[gi].Rules[ri].Do, u.Groups[gi].Rules[ri].Filt = -1, -1
					}
				}
				var gs []c13Group
				for _, gr := range u.Groups {
					dup := false
					for _, o := range b.Files[0].Groups {
						dup = dup || o.Name == gr.Name
					}
					if !dup {
						gs = append(gs, gr)
					}
				}
				u.Groups = gs
			}
			for fi := range u.Funcs {
				u.Funcs[fi].Bad = false
				// within a package-level type-check forward references are fine, keep them
			}
			for gi := range u.Groups {
				for ri := range u.Groups[gi].Rules {
					u.Groups[gi].Rules[ri].Bad = false
				}
			}
			u.render(pkg, nil, k == 0)
			if err := os.WriteFile(filepath.Join(dir, pkg, c13FileName(u.File)), []byte(u.src), 0o644); err != nil {
				return dir, err
			}
			b.Files = append(b.Files, u)
		}
		g.pool = append(g.pool, b)
	}
	return dir, os.Chdir(dir)
}

func runC13(c *Ctx) error {
	res := c.Res
	nHist, maxLen := 600, 8
	if c.Thorough {
		nHist, maxLen = 15000, 14
	}
	res.Rule = fmt.Sprintf("%d generated histories of 1..%d Load/LoadFromIR calls on one engine (files with group names from a pool of 7, "+
		"custom function names from a pool of 12, forward/backward calls between custom functions, failing conversion/compile/rule stages, "+
		"GroupFilters, reloads of an earlier file, bundles with prefixes, hand-made IR with dangling references/duplicate groups/foreign PkgPath; "+
		"groups with Import() of text/scanner, html/template, go/scanner, text/template, rules with Type.Is filters spelt with the bare package name (true exactly on the "+
		"probe nodes of the rule's key when the name resolves through the rule's own group, else the stdlib default), unloadable rules (broken pattern / unknown package in a type filter) inside groups with Import()); "+
		"after every call: error class, LoadedGroups(), reports of a run over the probe file (%d nodes), and runs with a RunnerState created earlier; "+
		"non-trivial = at least two calls of which one succeeds and one fails or is filtered; distinct by history text", nHist, maxLen, len(c13ProbeNodes))

	harnessDir, _ := os.Getwd()
	g := &c13Gen{rng: hx.Rng(c.Seed, "c13-files")}
	dir, err := c13Workspace(g, harnessDir)
	if dir != "" {
		defer os.RemoveAll(dir)
	}
	defer os.Chdir(harnessDir)
	if err != nil {
		return fmt.Errorf("bundle workspace: %v", err)
	}
	t, err := hx.ParseTarget("probe.go", c13ProbeSrc())
	if err != nil {
		return fmt.Errorf("probe: %v", err)
	}

	// fixed histories first: the smallest witnesses of the known edges
	var hists []*c13History
	hists = append(hists, c13Corpus(g)...)
	for len(hists) < nHist {
		h := &c13History{StaleK: -1}
		n := 1 + g.rng.Intn(maxLen)
		if g.chance(0.1) {
			n = 1
		}
		for i := 0; i < n; i++ {
			h.Reqs = append(h.Reqs, g.request(h.Reqs, true))
		}
		if g.chance(0.3) {
			h.StaleK = g.rng.Intn(n + 1)
			if h.StaleK == n {
				h.StaleK = n - 1
			}
		}
		hists = append(hists, h)
	}
	for _, h := range hists {
		for _, r := range h.Reqs {
			if r.Unit.src == "" {
				r.Unit.render("gorules", r.Bundles, false)
			}
		}
		h.Reqs = c13ImporterOracle(h.Reqs)
		for _, r := range h.Reqs {
			if r.importerConvErr {
				r.note = append(append([]string{}, r.note...), "importer-cache-conv-error")
			}
		}
	}

	// run the real engine (one engine per history; histories in parallel)
	var wg sync.WaitGroup
	sem := make(chan struct{}, runtime.GOMAXPROCS(0))
	for _, h := range hists {
		h := h
		wg.Add(1)
		sem <- struct{}{}
		go func() {
			defer wg.Done()
			defer func() { <-sem }()
			defer func() {
				if rec := recover(); rec != nil {
					h.steps = append(h.steps, fmt.Sprintf("harness-panic:%v", rec))
				}
			}()
			h.exec(t)
		}()
	}
	wg.Wait()

	fx := b01(c13CompareFixed)
	var ops, impl, specOps []string
	var inputs []interface{}
	var staleOps, staleImpl, staleSpec []string
	var staleInputs []interface{}
	var staleHists []*c13History
	for _, h := range hists {
		sx := h.sexp()
		ops = append(ops, "c13hist "+fx+" "+sx)
		impl = append(impl, strings.Join(h.steps, ";"))
		inputs = append(inputs, h.input())
		specOps = append(specOps, "spec13 "+strings.Join(h.steps, ";")+" "+sx)
		c13Distribution(res, h)
		if h.StaleK >= 0 && len(h.stale) > 0 {
			staleOps = append(staleOps, fmt.Sprintf("c13stale %s %d %s", fx, h.StaleK, sx))
			staleImpl = append(staleImpl, strings.Join(h.stale, ";"))
			staleInputs = append(staleInputs, h.input())
			staleHists = append(staleHists, h)
			// the property on the reused state: the same observations with the run replaced
			steps := append([]string{}, h.steps...)
			for i, s := range h.stale {
				parts := strings.Split(steps[h.StaleK+i], "|")
				parts[2] = s
				steps[h.StaleK+i] = strings.Join(parts, "|")
			}
			staleSpec = append(staleSpec, "spec13 "+strings.Join(steps, ";")+" "+sx)
		}
	}
	res.Sample(map[string]interface{}{"op": ops[0], "impl": impl[0]})
	if len(ops) > 7 {
		res.Sample(map[string]interface{}{"op": ops[len(ops)-1], "impl": impl[len(impl)-1]})
	}
	if err := res.Compare(c.Drv, "histories", ops, impl, inputs); err != nil {
		return err
	}
	if err := res.Compare(c.Drv, "reused-state", staleOps, staleImpl, staleInputs); err != nil {
		return err
	}
	if err := c13Spec(c, hists, specOps, impl, inputs, "", nil); err != nil {
		return err
	}
	// with a reused state only the runs are new observations, and only where they differ from the
	// run with a fresh state after the same step
	return c13Spec(c, nil, staleSpec, staleImpl, staleInputs, "reused-RunnerState:", func(i, step int, aspect string) bool {
		h := staleHists[i]
		if aspect != "reports" || step < h.StaleK {
			return false
		}
		return h.stale[step-h.StaleK] != strings.Split(h.steps[step], "|")[2]
	})
}

func c13Distribution(res *hx.Result, h *c13History) {
	okN, failN, filt := 0, 0, 0
	for i, s := range h.steps {
		out := strings.SplitN(s, "|", 2)[0]
		res.Dist("step:" + strings.SplitN(out, ":other", 2)[0])
		if out == "ok" {
			okN++
		} else {
			failN++
		}
		if i < len(h.Reqs) {
			r := h.Reqs[i]
			if len(r.Rejected) > 0 {
				filt++
			}
			for _, n := range r.note {
				res.Dist("req:" + n)
			}
			if r.IsIR {
				res.Dist("api:LoadFromIR")
			} else {
				res.Dist("api:Load")
			}
			fwd := false
			for fi, f := range r.Unit.Funcs {
				for fj, o := range r.Unit.Funcs {
					if f.Callee == o.Name && fj > fi {
						fwd = true
					}
				}
			}
			if fwd {
				res.Dist("req:forward-call")
			}
			imports, typed, badInImports := false, false, false
			for _, g := range r.Unit.Groups {
				imports = imports || len(g.Imports) > 0
				for _, rl := range g.Rules {
					typed = typed || rl.Typed && !rl.Bad
					badInImports = badInImports || rl.Bad && len(g.Imports) > 0
				}
			}
			if imports {
				res.Dist("req:group-with-Import()")
			}
			if typed {
				res.Dist("req:rule-with-qualified-type-name")
			}
			if badInImports {
				res.Dist("req:unloadable-rule-in-a-group-with-Import()")
				if out != "ok" {
					res.Dist("req:rejected-inside-a-group-with-Import()")
				}
			}
		}
	}
	if h.StaleK >= 0 {
		res.Dist("hist:reused-state")
	}
	res.Dist(fmt.Sprintf("hist:len=%d", len(h.Reqs)))
	res.Count("histories", h.sexp(), len(h.Reqs) >= 2 && okN >= 1 && (failN >= 1 || filt >= 1))
}

// c13Spec evaluates the executable statement of C13 on the implementation's observations.
// keep (optional) selects which (history, step, aspect) departures are reported.
func c13Spec(c *Ctx, hs []*c13History, specOps, impl []string, inputs []interface{}, sigPrefix string, keep func(i, step int, aspect string) bool) error {
	ans, err := c.Drv.Ask(specOps)
	if err != nil {
		return err
	}
	for i, a := range ans {
		if a == "holds" {
			continue
		}
		if !strings.HasPrefix(a, "violates ") {
			c.Res.Errorf("spec13 answered %q for %s", a, specOps[i])
			continue
		}
		obs := strings.Split(strings.Fields(specOps[i])[1], ";")
		unresolvedAt := 1 << 30 // a rule bound to a function its file does not declare: later report
		// differences are consequences of that step, not separate findings
		for _, v := range strings.Split(strings.TrimPrefix(a, "violates "), ",") {
			p := strings.SplitN(v, ":", 2)
			step, _ := strconv.Atoi(p[0])
			aspect := p[1]
			if aspect == "unresolved-accepted" && step < unresolvedAt {
				unresolvedAt = step
			}
			if aspect == "reports" && step >= unresolvedAt {
				continue
			}
			if keep != nil && !keep(i, step, aspect) {
				continue
			}
			fields := strings.Split(obs[step], "|")
			var sig string
			switch aspect {
			case "load-panic":
				sig = "Load:" + strings.Replace(fields[0], ":", " ", 1)
			case "groups":
				if strings.HasPrefix(fields[1], "panic") {
					sig = "LoadedGroups:before-first-successful-Load:" + strings.Replace(fields[1], ":", " ", 1)
				} else {
					sig = "LoadedGroups:wrong-list"
				}
			case "reports":
				cause := ""
				if hs != nil {
					cause = hs[i].reportsCause(step, obs)
				}
				switch {
				case cause != "":
					sig = cause
				case strings.Contains(fields[2], "!panic:"):
					sig = "Run:panic " + fields[2][strings.Index(fields[2], "!panic:")+7:]
				case strings.HasPrefix(fields[2], "error:"):
					sig = "Run:error"
				default:
					sig = "Run:wrong-reports"
				}
			default:
				sig = "Load:" + aspect
			}
			sig = sigPrefix + sig
			in := inputs[i].(map[string]interface{})
			n := len(in["history"].([]map[string]interface{}))
			c.Res.Violate(hx.Violation{Signature: sig,
				What:  fmt.Sprintf("C13 fails at step %d (%s) of a history of %d calls", step, aspect, n),
				Input: in, Impl: impl[i], Spec: specOps[i] + " => " + a})
		}
	}
	return nil
}

// reportsCause names the feature of the successfully loaded files (steps 0..step) that explains a
// difference between the reports and what the files say, most specific first.
func (h *c13History) reportsCause(step int, obs []string) string {
	forward, typed, failedInImports := false, false, false
	for i := 0; i <= step && i < len(h.Reqs); i++ {
		if !strings.HasPrefix(obs[i], "ok|") {
			for _, g := range h.Reqs[i].Unit.Groups {
				failedInImports = failedInImports || len(g.Imports) > 0
			}
			continue
		}
		r := h.Reqs[i]
		units := []*c13Unit{r.Unit}
		for _, b := range r.Bundles {
			units = append(units, b.Files...)
		}
		for _, u := range units {
			usesFuncs := false
			for _, g := range u.Groups {
				for _, rl := range g.Rules {
					usesFuncs = usesFuncs || rl.Do >= 0 || rl.Filt >= 0
					typed = typed || rl.hasTypeFilter()
				}
			}
			if u == r.Unit && r.PkgPath != 0 && usesFuncs {
				return "LoadFromIR:PkgPath-not-gorules:custom-function-lookup-misses"
			}
			for fi, f := range u.Funcs {
				if f.Callee < 0 {
					continue
				}
				before := false
				for fj := 0; fj < fi; fj++ {
					before = before || u.Funcs[fj].Name == f.Callee
				}
				forward = forward || !before
			}
		}
	}
	if forward {
		return "Run:custom-function-bound-to-another-file"
	}
	if typed && failedInImports {
		// a loaded rule spells a type with a bare package name, and an earlier call failed in a file whose groups Import()
		return "Run:qualified-type-name-resolved-differently-after-a-failed-Load"
	}
	if typed {
		return "Run:qualified-type-name-in-Type.Is-resolved-differently-than-on-a-fresh-engine"
	}
	return ""
}

// c13Corpus: hand-picked minimal histories, run before the generated ones.
func c13Corpus(g *c13Gen) []*c13History {
	mk := func(staleK int, reqs ...*c13Req) *c13History { return &c13History{Reqs: reqs, StaleK: staleK} }
	file := func(id int, funcs []c13Func, groups ...c13Group) *c13Req {
		return &c13Req{Unit: &c13Unit{File: id, Funcs: funcs, Groups: groups}, note: []string{"corpus"}}
	}
	rule := func(bucket, key, msg, do, filt int) c13Rule {
		return c13Rule{Bucket: bucket, Key: key, Msg: msg, Do: do, Filt: filt}
	}
	// A: helper hs_4 + Do function calling it; B: the same names, helper declared *after* its use
	a := file(901, []c13Func{{Name: 4, Tag: 9001, Callee: -1}, {Name: 6, Tag: 9002, Callee: 4}},
		c13Group{Name: 1, Rules: []c13Rule{rule(0, 1, 9001, 6, -1)}})
	b := file(902, []c13Func{{Name: 6, Tag: 9003, Callee: 4}, {Name: 4, Tag: 9004, Callee: -1}},
		c13Group{Name: 2, Rules: []c13Rule{rule(0, 2, 9002, 6, -1)}})
	plain := file(903, nil, c13Group{Name: 3, Rules: []c13Rule{rule(0, 3, 9003, -1, -1), rule(2, 1, 9004, -1, -1)}})
	// IR whose rule names a function that no file declares
	dang := file(904, nil, c13Group{Name: 4, Rules: []c13Rule{rule(0, 4, 9005, 38, -1)}})
	dang.IsIR = true
	// file with a custom function called through another (stale RunnerState witness)
	d := file(905, []c13Func{{Name: 8, Tag: 9006, Callee: -1}, {Name: 10, Tag: 9007, Callee: 8}},
		c13Group{Name: 5, Rules: []c13Rule{rule(0, 4, 9006, 10, -1)}})
	cp := func(r *c13Req) *c13Req { x := *r; u := *r.Unit; x.Unit = &u; return &x }
	dup := file(906, nil, c13Group{Name: 6, Rules: []c13Rule{rule(0, 1, 9007, -1, -1)}}, c13Group{Name: 6, Rules: []c13Rule{rule(0, 1, 9007, -1, -1)}})
	dup.IsIR = true
	// a file rejected inside a group with Import()s, then files whose rules spell types with the bare package name
	typedRule := func(key, msg int) c13Rule { return c13Rule{Bucket: 0, Key: key, Msg: msg, Do: -1, Filt: -1, Typed: true} }
	rej := file(907, nil, c13Group{Name: 1, Imports: []string{"text/scanner", "html/template"},
		Rules: []c13Rule{typedRule(2, 9008), {Bucket: 0, Key: 4, Msg: 9009, Do: -1, Filt: -1, Bad: true, badKind: 1}}})
	dflt := file(908, nil, c13Group{Name: 2, Rules: []c13Rule{typedRule(1, 9010), typedRule(3, 9011)}},
		c13Group{Name: 3, Imports: []string{"html/template"}, Rules: []c13Rule{typedRule(4, 9012), typedRule(1, 9013)}})
	// a Do / Filter name that only another file declares: precompiled IR naming do_6 / fl_7 without declaring them, after
	// a file that declares them was accepted (a, fl), after one that registered do_6 and was then rejected (half: its second
	// declaration does not compile), alone, and next to a bundle file of the same call that declares the name (leftB)
	left := file(909, nil, c13Group{Name: 7, Rules: []c13Rule{rule(0, 2, 9014, 6, -1)}})
	left.IsIR = true
	fl := file(910, []c13Func{{Name: 7, Tag: 9015, Lit: true, Callee: -1}}, c13Group{Name: 5, Rules: []c13Rule{rule(0, 3, 9016, -1, 7)}})
	leftF := file(911, nil, c13Group{Name: 6, Rules: []c13Rule{rule(0, 3, 9017, -1, 7), rule(0, 1, 9018, -1, -1)}})
	leftF.IsIR = true
	half := file(912, []c13Func{{Name: 6, Tag: 9019, Callee: -1}, {Name: 8, Tag: 9020, Callee: -1, Bad: true}},
		c13Group{Name: 4, Rules: []c13Rule{rule(0, 1, 9021, 6, -1)}})
	// the same file as `a` under other names, as precompiled IR with a PkgPath that is not "gorules": it declares what it uses
	pk := file(913, []c13Func{{Name: 4, Tag: 9022, Callee: -1}, {Name: 6, Tag: 9023, Callee: 4}},
		c13Group{Name: 2, Rules: []c13Rule{rule(0, 2, 9024, 6, -1)}})
	pk.IsIR, pk.PkgPath = true, 1
	var own []*c13History
	own = append(own, mk(-1, cp(a), cp(left)), mk(-1, cp(half), cp(left)), mk(-1, cp(fl), cp(leftF)), mk(-1, cp(left)),
		mk(-1, cp(a), cp(pk), cp(left)), mk(-1, cp(pk)))
	for _, b := range g.pool {
		for _, u := range b.Files {
			for _, f := range u.Funcs {
				if f.kind() != 2 && f.kind() != 3 {
					continue
				}
				rl := rule(0, 2, 9025, -1, -1)
				if f.kind() == 2 {
					rl.Do = f.Name
				} else {
					rl.Filt = f.Name
				}
				leftB := file(914, nil, c13Group{Name: 7, Rules: []c13Rule{rl}})
				leftB.IsIR = true
				bb := b
				bb.Pfx = 1
				leftB.Bundles = []c13Bundle{bb}
				own = append(own, mk(-1, leftB))
				break
			}
			if len(own) > 6 {
				break
			}
		}
		if len(own) > 6 {
			break
		}
	}
	return append(own, []*c13History{
		mk(-1, cp(dflt)),
		mk(-1, cp(rej), cp(dflt)),
		mk(-1, cp(dflt), cp(rej), cp(plain)),
		mk(-1, cp(plain)),
		mk(-1, cp(dup)),
		mk(-1, cp(b)),
		mk(-1, cp(a), cp(b)),
		mk(-1, cp(a), cp(a)),
		mk(-1, cp(dang)),
		mk(-1, cp(a), cp(dang)),
		mk(1, cp(plain), cp(d)),
		mk(0, cp(a)),
	}...)
}

var _ = sort.Strings
