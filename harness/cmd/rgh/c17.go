package main

// C17 — Where() connectives and comparisons form the expected algebra.
//
// The tie: generated filter expressions (a tree type of the harness' own) over a pool of opaque
// predicates ("atoms") and of comparisons over Line / Type.Size / Value.Int() / Text are loaded into
// the real engine twice over — as DSL source through Engine.Load (covers irconv) and as ir.File
// through Engine.LoadFromIR (also reaches trees the DSL cannot spell) — and run on a generated target
// file in which every probe call site lives in its own function, so that the verdict of a rule at a
// single match (report / no report / panic) is observable through Engine.Run on a one-declaration
// view of the file.  The atoms' verdicts are obtained the same way (each atom as its own rule); the
// facts the comparisons read are computed by the harness from go/types and the source text.  The
// Lean model (`c17`) must reproduce load outcome, per-site verdicts and the whole-file run; the Lean
// statement of the property (`spec17`) is evaluated on the implementation's verdicts; the relational
// laws are checked on the implementation directly.

import (
	"fmt"
	"go/ast"
	"go/constant"
	"go/importer"
	"go/parser"
	"go/token"
	"go/types"
	"math"
	"math/rand"
	"os"
	"path/filepath"
	"runtime"
	"sort"
	"strconv"
	"strings"

	"github.com/quasilyte/go-ruleguard/ruleguard"
	"github.com/quasilyte/go-ruleguard/ruleguard/ir"
	"github.com/quasilyte/go-ruleguard/ruleguard/irconv"
	"verifharness/hx"
)

// c17Variant chooses the Lean variant the correspondence compares the code with:
// "asis" = the unchanged tree, "fixed" = after fixes/typesize-rhs-op-guard.diff.
const c17Variant = "fixed"

func init() { register("C17", runC17) }

// ---------------------------------------------------------------------------------------------
// target file

type c17Expr struct {
	src     string
	generic bool // mentions the type parameters of the enclosing function
}

var c17Pool = []c17Expr{
	{"1", false}, {"2", false}, {"7", false}, {"c5", false}, {"c5 + 1", false}, {"u64c", false}, {"-3", false},
	{"'a'", false}, {"len(\"abc\")", false}, {"1.5", false}, {"\"str\"", false}, {"true", false}, {"cs", false},
	{"g8", false}, {"g16", false}, {"g32", false}, {"g64", false}, {"gi", false}, {"gs", false}, {"gsl", false},
	{"garr", false}, {"gst", false}, {"ge", false}, {"gz", false}, {"gc", false}, {"gif", false}, {"gp", false},
	{"gb", false}, {"l8", false}, {"ls", false}, {"gi + 1", false}, {"fn(gi)", false}, {"gs + \"x\"", false},
	{"garr[1]", false}, {"gst.b", false}, {"(gi)", false}, {"*gp", false}, {"&gi", false}, {"int64(g8)", false},
	{"gi +\n\t\t2", false}, {"[]int{1, 2}", false}, {"fmt.Sprint(gi)", false}, {"nil", false},
	{"t", true}, {"u", true}, {"w", true}, {"w + 1", true},
}

const c17Prelude = `package p

import "fmt"

func probe(a, b interface{}) int                     { return 0 }
func probeN(a interface{}, rest ...interface{}) int  { return 0 }
func fn(x int) int                                   { return x }

type S1 struct {
	a int8
	b int64
}

const c5 = 5
const cs = "k"
const u64c uint64 = 1<<63 + 5

var (
	g8   int8
	g16  int16
	g32  int32
	g64  int64
	gi   int
	gs   string
	gsl  []int
	garr [3]int64
	gst  S1
	ge   struct{}
	gz   [0]int
	gc   complex128
	gif  interface{}
	gp   *int
	gb   [100]byte
)

var _ = fmt.Sprint

`

type c17Site struct {
	decl *ast.FuncDecl
	call *ast.CallExpr
	pat  int // 0 = probe($x, $y), 1 = probeN($x, $*ys)
	tgt  *hx.Target
}

type c17World struct {
	t     *hx.Target
	sizes types.Sizes
	sites [2][]*c17Site
	ctx   [2][]string // per pattern, per site: the `(c …)` S-expression (atoms filled in later)
	facts [2][]map[string]*c17Cap
	dir   string
	// prev: an earlier revision of the same file name with another line layout, in a file set of its own.  Every
	// engine is run on it first (reports discarded): what a run reports must not depend on what the engine analysed before.
	prev *hx.Target
}

type c17EF struct {
	tparam  bool
	size    int64
	sizeBad bool   // Sizes.Sizeof panics on this type (go/types asserts that the type is typed)
	ival    string // "_" = none
}

type c17Cap struct {
	list bool
	line int
	text string
	e    *c17EF // node only; nil = not an expression
	es   []c17EF
}

func c17BuildTarget(rng *rand.Rand, nProbe, nProbeN int) string {
	var sb strings.Builder
	sb.WriteString(c17Prelude)
	k := 0
	site := func(body string, generic bool) {
		if generic {
			fmt.Fprintf(&sb, "func s%d[T any, W ~int](t T, u []T, w W, l8 int8, ls string) {\n\t%s\n}\n\n", k, body)
		} else {
			fmt.Fprintf(&sb, "func s%d(l8 int8, ls string) {\n\t%s\n}\n\n", k, body)
		}
		k++
		// blank lines so that line numbers spread
		for i := rng.Intn(3); i > 0; i-- {
			sb.WriteString("\n")
		}
	}
	pick := func(i int) c17Expr {
		if i < len(c17Pool) {
			return c17Pool[i]
		}
		return c17Pool[rng.Intn(len(c17Pool))]
	}
	for i := 0; i < nProbe; i++ {
		a, b := pick(i), pick(rng.Intn(2*len(c17Pool))) // every pool entry is an `a` once
		if i >= len(c17Pool) && i < 2*len(c17Pool) {
			b = c17Pool[i-len(c17Pool)] // … and a `b` once
		}
		switch rng.Intn(5) {
		case 0:
			site(fmt.Sprintf("probe(%s,\n\t\t%s)", a.src, b.src), a.generic || b.generic)
		case 1:
			site(fmt.Sprintf("probe(%s, %s)", a.src, a.src), a.generic)
		default:
			site(fmt.Sprintf("probe(%s, %s)", a.src, b.src), a.generic || b.generic)
		}
	}
	// integer constants of which exactly one (both, none) lies outside the int64 range, in both operand positions
	for _, body := range []string{"probe(5, u64c)", "probe(u64c, 7)", "probe(u64c, u64c)", "probe(c5, u64c + 1)", "probe(-3, u64c)", "probe(u64c, -3)",
		"probeN(u64c, 1, 2)", "probeN(2, u64c, 1)", "probeN(2, 1, u64c)"} {
		site(body, false)
	}
	// function-local types of one name and different sizes (their types.Type.String() is the same text)
	for _, body := range []string{
		"type tc struct{ a int8 }\n\tvar v tc\n\tprobe(v, v)",
		"type tc struct{ a [8]int64 }\n\tvar v tc\n\tprobe(v, v)",
		"type tc struct{ a, b int32 }\n\tvar v tc\n\tvar w [2]tc\n\tprobe(v, w)",
		"type tc [3]string\n\tvar v tc\n\tprobe(v,\n\t\tl8)",
		"type tc struct{ a int8 }\n\tvar v tc\n\tprobeN(v, v, v)",
		"type tc struct{ a [8]int64 }\n\tvar v tc\n\tprobeN(v, v)",
	} {
		site(body, false)
	}
	for i := 0; i < nProbeN; i++ {
		a := pick(rng.Intn(2 * len(c17Pool)))
		n := i % 4
		g := a.generic
		args := []string{a.src}
		for j := 0; j < n; j++ {
			e := pick(rng.Intn(2 * len(c17Pool)))
			if i%3 == 0 { // homogeneous integer constants: lists on which ∀ can be true
				e = c17Pool[rng.Intn(9)]
			}
			g = g || e.generic
			args = append(args, e.src)
		}
		site("probeN("+strings.Join(args, ", ")+")", g)
	}
	return sb.String()
}

func (w *c17World) efOf(e ast.Expr) c17EF {
	var typ types.Type
	if e != nil {
		typ = w.t.Info.TypeOf(e)
	}
	if typ == nil {
		typ = types.Typ[types.Invalid]
	}
	ef := c17EF{ival: "_"}
	if _, ok := typ.(*types.TypeParam); ok {
		ef.tparam = true
	} else {
		func() {
			defer func() {
				if recover() != nil {
					ef.sizeBad = true
				}
			}()
			ef.size = w.sizes.Sizeof(typ)
		}()
	}
	if e != nil {
		if tv, ok := w.t.Info.Types[e]; ok && tv.Value != nil && tv.Value.Kind() == constant.Int {
			ef.ival = tv.Value.ExactString()
		}
	}
	return ef
}

func (w *c17World) text(from, to token.Pos) string {
	return string(w.t.Src[w.t.Fset.Position(from).Offset:w.t.Fset.Position(to).Offset])
}

func (w *c17World) nodeCap(e ast.Expr) *c17Cap {
	ef := w.efOf(e)
	return &c17Cap{line: w.t.Fset.Position(e.Pos()).Line, text: w.text(e.Pos(), e.End()), e: &ef}
}

func (w *c17World) listCap(es []ast.Expr) *c17Cap {
	c := &c17Cap{list: true}
	if len(es) > 0 {
		c.line = w.t.Fset.Position(es[0].Pos()).Line
		c.text = w.text(es[0].Pos(), es[len(es)-1].End())
	}
	for _, e := range es {
		c.es = append(c.es, w.efOf(e))
	}
	return c
}

func (ef c17EF) sexp() string {
	tp := "0"
	if ef.tparam {
		tp = "1"
	}
	if ef.sizeBad {
		return fmt.Sprintf("(%s ! %s)", tp, ef.ival)
	}
	return fmt.Sprintf("(%s %d %s)", tp, ef.size, ef.ival)
}

func (c *c17Cap) sexp(name string) string {
	if c.list {
		parts := []string{"l", hx.HexS(name), strconv.Itoa(c.line), hx.HexS(c.text)}
		for _, e := range c.es {
			parts = append(parts, e.sexp())
		}
		return "(" + strings.Join(parts, " ") + ")"
	}
	e := "-"
	if c.e != nil {
		e = c.e.sexp()
	}
	return fmt.Sprintf("(n %s %d %s %s)", hx.HexS(name), c.line, hx.HexS(c.text), e)
}

var c17Patterns = [2]string{"probe($x, $y)", "probeN($x, $*ys)"}
var c17SecondVar = [2]string{"y", "ys"}

func c17NewWorld(seed int64, thorough bool) (*c17World, error) {
	rng := hx.Rng(seed, "c17-target")
	nP, nN := 2*len(c17Pool)+16, 36
	if thorough {
		nP, nN = 4*len(c17Pool), 80
	}
	src := c17BuildTarget(rng, nP, nN)
	dir, err := os.MkdirTemp("", "c17-")
	if err != nil {
		return nil, err
	}
	path := filepath.Join(dir, "c17target.go")
	// trailing comment: no capture ends at EOF (nodeText's `to < len(src)`, finding D11 of C03)
	src += "\n// end\n"
	if err := os.WriteFile(path, []byte(src), 0o644); err != nil {
		return nil, err
	}
	t, err := hx.ParseTarget(path, src)
	if err != nil {
		return nil, fmt.Errorf("target: %v", err)
	}
	w := &c17World{t: t, sizes: types.SizesFor("gc", runtime.GOARCH), dir: dir}
	prevSrc := "/* revision 0 */ " + strings.ReplaceAll(strings.ReplaceAll(src, ",\n\t\t", ", "), "}\n\n", "}\n// gap\n// gap\n\n")
	if w.prev, err = hx.ParseTargetMem(t.Name, prevSrc); err != nil {
		return nil, fmt.Errorf("previous revision of the target: %v", err)
	}
	for _, d := range t.File.Decls {
		fd, ok := d.(*ast.FuncDecl)
		if !ok || !strings.HasPrefix(fd.Name.Name, "s") || fd.Body == nil || len(fd.Body.List) == 0 {
			continue
		}
		if _, err := strconv.Atoi(fd.Name.Name[1:]); err != nil {
			continue
		}
		// the probe call is the last statement (sites with function-local types declare them first)
		call := fd.Body.List[len(fd.Body.List)-1].(*ast.ExprStmt).X.(*ast.CallExpr)
		pat := 0
		if call.Fun.(*ast.Ident).Name == "probeN" {
			pat = 1
		}
		f2 := *t.File
		f2.Decls = []ast.Decl{d}
		t2 := *t
		t2.File = &f2
		w.sites[pat] = append(w.sites[pat], &c17Site{decl: fd, call: call, pat: pat, tgt: &t2})
		caps := map[string]*c17Cap{"x": w.nodeCap(call.Args[0]), "$$": w.nodeCap(call)}
		if pat == 0 {
			caps["y"] = w.nodeCap(call.Args[1])
		} else {
			caps["ys"] = w.listCap(call.Args[1:])
		}
		w.facts[pat] = append(w.facts[pat], caps)
	}
	return w, nil
}

// ---------------------------------------------------------------------------------------------
// atoms

type c17Atom struct {
	dsl  string // with %x / %y placeholders
	bad  bool   // does not load
	cust bool   // needs the custom function
}

var c17Atoms = []c17Atom{
	{dsl: `m["%x"].Pure`},
	{dsl: `m["%y"].Const`},
	{dsl: `m["%x"].Type.Is("int")`},
	{dsl: `m["%x"].Type.OfKind("integer")`},
	{dsl: `m["%y"].Addressable`},
	{dsl: `m["%x"].Text.Matches("^g")`},
	{dsl: `m["%x"].Node.Is("Ident")`},
	{dsl: `m["%y"].Object.IsGlobal()`}, // panics on non-identifiers today (finding D8 of C02)
	{dsl: `m.Deadcode()`},
	{dsl: `m.File().Imports("fmt")`},
	{dsl: `m["%x"].Filter(boom)`, cust: true}, // panics when the size of the type is 8
	{dsl: `m["%x"].Contains("gi")`},
	{dsl: `m["$$"].Node.Parent().Is("ExprStmt")`},
	{dsl: `m["%x"].Type.HasPointers()`},
	{dsl: `m["%x"].Comparable`},
	{dsl: `m["%y"].Text.Matches("2")`},
	{dsl: `m["%x"].Text.Matches("(")`, bad: true},
	{dsl: `m["%x"].Type.OfKind("nonsense")`, bad: true},
}

const c17Custom = `
func boom(ctx *dsl.VarFilterContext) bool {
	if ctx.SizeOf(ctx.Type) == 8 {
		return ctx.SizeOf(ctx.GetType("nosuchpkg.T")) == 1
	}
	return ctx.SizeOf(ctx.Type) > 2
}
`

func c17AtomDSL(a c17Atom, pat int) string {
	s := strings.ReplaceAll(a.dsl, "%x", "x")
	return strings.ReplaceAll(s, "%y", c17SecondVar[pat])
}

func c17RuleSrc(pat int, where string, custom bool) string {
	body := fmt.Sprintf("func r(m dsl.Matcher) {\n\tm.Match(`%s`).Where(%s).Report(\"hit\")\n}\n", c17Patterns[pat], where)
	if custom {
		body += c17Custom
	}
	return hx.RulesFile(body)
}

// c17ConvertIR type-checks a rules file with the harness' own importer and runs irconv on it.
func c17ConvertIR(src string) (*ir.File, error) {
	fset := token.NewFileSet()
	f, err := parser.ParseFile(fset, "rules.go", src, parser.ParseComments)
	if err != nil {
		return nil, err
	}
	info := &types.Info{Types: map[ast.Expr]types.TypeAndValue{}, Uses: map[*ast.Ident]types.Object{}, Defs: map[*ast.Ident]types.Object{}}
	cfg := types.Config{Importer: importer.ForCompiler(fset, "source", nil)}
	pkg, err := cfg.Check("gorules", fset, []*ast.File{f}, info)
	if err != nil {
		return nil, err
	}
	return irconv.ConvertFile(&irconv.Context{Pkg: pkg, Types: info, Fset: fset, Src: []byte(src)}, f)
}

// ---------------------------------------------------------------------------------------------
// expression trees

type fx struct {
	Op   string // ir op name: Not And Or Eq Neq Gt Lt GtEq LtEq VarText VarLine VarValueInt VarTypeSize String Int Invalid Atom
	Atom int
	V    interface{} // nil | string | int64 | float64 (= "anything else")
	Args []*fx
	Lit  string // optional DSL spelling of a literal
}

var c17CmpOps = []string{"Eq", "Neq", "Gt", "Lt", "GtEq", "LtEq"}
var c17CmpTok = map[string]string{"Eq": "==", "Neq": "!=", "Gt": ">", "Lt": "<", "GtEq": ">=", "LtEq": "<="}
var c17ValOps = []string{"VarLine", "VarTypeSize", "VarValueInt", "VarText"}
var c17OpByName = map[string]ir.FilterOp{
	"Invalid": ir.FilterInvalidOp, "Not": ir.FilterNotOp, "And": ir.FilterAndOp, "Or": ir.FilterOrOp,
	"Eq": ir.FilterEqOp, "Neq": ir.FilterNeqOp, "Gt": ir.FilterGtOp, "Lt": ir.FilterLtOp,
	"GtEq": ir.FilterGtEqOp, "LtEq": ir.FilterLtEqOp,
	"VarText": ir.FilterVarTextOp, "VarLine": ir.FilterVarLineOp, "VarValueInt": ir.FilterVarValueIntOp,
	"VarTypeSize": ir.FilterVarTypeSizeOp, "String": ir.FilterStringOp, "Int": ir.FilterIntOp,
}

func isCmp(op string) bool { _, ok := c17CmpTok[op]; return ok }

// dsl spelling; ok=false when the tree cannot be written (or would not type-check) in the DSL
func (e *fx) dsl(pat int) (string, bool) {
	switch e.Op {
	case "Atom":
		return c17AtomDSL(c17Atoms[e.Atom], pat), len(e.Args) == 0
	case "Not":
		if len(e.Args) != 1 {
			return "", false
		}
		s, ok := e.Args[0].dsl(pat)
		return "!(" + s + ")", ok && e.Args[0].isBool()
	case "And", "Or":
		if len(e.Args) != 2 {
			return "", false
		}
		a, ok1 := e.Args[0].dsl(pat)
		b, ok2 := e.Args[1].dsl(pat)
		tok := " && "
		if e.Op == "Or" {
			tok = " || "
		}
		return "(" + a + tok + b + ")", ok1 && ok2 && e.Args[0].isBool() && e.Args[1].isBool()
	case "VarLine", "VarTypeSize", "VarValueInt", "VarText":
		v, ok := e.V.(string)
		if !ok || len(e.Args) != 0 {
			return "", false
		}
		suffix := map[string]string{"VarLine": ".Line", "VarTypeSize": ".Type.Size", "VarValueInt": ".Value.Int()", "VarText": ".Text"}[e.Op]
		return `m["` + v + `"]` + suffix, true
	case "Int":
		v, ok := e.V.(int64)
		if !ok || len(e.Args) != 0 {
			return "", false
		}
		if e.Lit != "" {
			return e.Lit, true
		}
		if v < 0 {
			return "(" + strconv.FormatInt(v, 10) + ")", true
		}
		return strconv.FormatInt(v, 10), true
	case "String":
		v, ok := e.V.(string)
		if !ok || len(e.Args) != 0 {
			return "", false
		}
		if e.Lit != "" {
			return e.Lit, true
		}
		return strconv.Quote(v), true
	}
	if isCmp(e.Op) {
		if len(e.Args) != 2 {
			return "", false
		}
		a, ok1 := e.Args[0].dsl(pat)
		b, ok2 := e.Args[1].dsl(pat)
		ka, kb := e.Args[0].valKind(), e.Args[1].valKind()
		return "(" + a + " " + c17CmpTok[e.Op] + " " + b + ")", ok1 && ok2 && ka != "" && ka == kb
	}
	return "", false
}

func (e *fx) isBool() bool {
	return e.Op == "Atom" || e.Op == "Not" || e.Op == "And" || e.Op == "Or" || isCmp(e.Op)
}

// "int" / "string" for value operands, "" otherwise
func (e *fx) valKind() string {
	switch e.Op {
	case "VarLine", "VarTypeSize", "VarValueInt", "Int":
		return "int"
	case "VarText", "String":
		return "string"
	}
	return ""
}

func c17ValSexp(v interface{}) string {
	switch v := v.(type) {
	case nil:
		return "_"
	case string:
		return "s:" + hx.HexS(v)
	case int64:
		return "i:" + strconv.FormatInt(v, 10)
	}
	return "o"
}

func (e *fx) sexp(w *c17Run, pat int) string {
	op := e.Op
	v := e.V
	if op == "Atom" {
		a := c17Atoms[e.Atom]
		op = "P" + strconv.Itoa(e.Atom)
		if a.bad {
			op = "B" + strconv.Itoa(e.Atom)
		}
		v = w.atomIR[pat][e.Atom].Value
	}
	parts := []string{op, c17ValSexp(v)}
	for _, a := range e.Args {
		parts = append(parts, a.sexp(w, pat))
	}
	return "(" + strings.Join(parts, " ") + ")"
}

func (e *fx) ir(w *c17Run, pat int) ir.FilterExpr {
	if e.Op == "Atom" && len(e.Args) == 0 {
		return w.atomIR[pat][e.Atom]
	}
	var out ir.FilterExpr
	if e.Op == "Atom" {
		out = w.atomIR[pat][e.Atom]
		out.Args = nil
	} else {
		out = ir.FilterExpr{Op: c17OpByName[e.Op], Value: e.V}
	}
	out.Line = 1
	out.Src = e.sexp(w, pat)
	for _, a := range e.Args {
		out.Args = append(out.Args, a.ir(w, pat))
	}
	return out
}

func (e *fx) usesCustom() bool {
	if e.Op == "Atom" && c17Atoms[e.Atom].cust {
		return true
	}
	for _, a := range e.Args {
		if a.usesCustom() {
			return true
		}
	}
	return false
}

func (e *fx) size() int {
	n := 1
	for _, a := range e.Args {
		n += a.size()
	}
	return n
}

// ---------------------------------------------------------------------------------------------
// running the real engine

type c17Run struct {
	c       *Ctx
	w       *c17World
	atomIR  [2][]ir.FilterExpr
	custom  []string // CustomDecls of the custom atom
	atomV   [2][]string
	rng     *rand.Rand
	conv    map[string]ir.FilterExpr // pattern|DSL text -> what irconv made of it
	convErr map[string]string        // … or the error it raised
}

type c17Outcome struct {
	load     string // "ok" | "err" | "panic:<kind>"
	errText  string
	verdicts string
	nrep     int
	end      string // "-" or panic letter
	orderOK  bool
}

func (o c17Outcome) line() string {
	if o.load != "ok" {
		return o.load
	}
	v := o.verdicts
	if v == "" {
		v = "-"
	}
	s := fmt.Sprintf("ok:%s:%d:%s", v, o.nrep, o.end)
	if !o.orderOK {
		s += ":reports-differ-from-per-site-verdicts"
	}
	return s
}

var c17PanicLetter = map[string]string{"panic slice": "s", "panic index": "i", "panic nil": "n", "panic assert": "a", "panic explicit": "x", "panic callback": "x"}

func c17LoadDSL(src string) (e *ruleguard.Engine, out string, errText string) {
	e, err := hx.LoadRules(src)
	if err != nil {
		msg := err.Error()
		if strings.HasPrefix(msg, "PANIC ") {
			return nil, "panic:" + strings.Fields(msg)[1], msg
		}
		return nil, "err", msg
	}
	return e, "ok", ""
}

func c17LoadIR(f *ir.File) (e *ruleguard.Engine, out string, errText string) {
	defer func() {
		if r := recover(); r != nil {
			e, out, errText = nil, "panic:"+hx.PanicKind(r), fmt.Sprint(r)
		}
	}()
	e = ruleguard.NewEngine()
	err := e.LoadFromIR(&ruleguard.LoadContext{Fset: token.NewFileSet()}, "rules.go", f)
	if err != nil {
		return nil, "err", err.Error()
	}
	return e, "ok", ""
}

// evaluate a loaded rule.  The whole-file run gives the verdict of every site up to and including
// the first panic (reports = accepted sites, in order); the sites behind a panic are then run one
// declaration at a time.  perSite forces the one-declaration runs for every site (used for the atoms
// and on a sample of the expressions, as a cross-check of the two ways of observing).
func (r *c17Run) observe(e *ruleguard.Engine, pat int, perSite bool) (c17Outcome, error) {
	out := c17Outcome{load: "ok", end: "-", orderOK: true}
	st := ruleguard.NewRunnerState(e) // one state per engine, as a long-lived linter process has
	sites := r.w.sites[pat]
	if r.w.prev != nil {
		if _, _, _, err := hx.Run(e, r.w.prev, hx.RunOpts{State: st}); err != nil {
			return out, err
		}
	}
	reps, pk, _, err := hx.Run(e, r.w.t, hx.RunOpts{State: st})
	if err != nil {
		return out, err
	}
	out.nrep = len(reps)
	if pk != "" {
		l, ok := c17PanicLetter[pk]
		if !ok {
			return out, fmt.Errorf("unknown panic kind %q", pk)
		}
		out.end = l
	}
	// reports -> site indices (strictly increasing: sites are visited in source order)
	verdict := make([]byte, len(sites))
	next := 0
	for _, rep := range reps {
		found := false
		for ; next < len(sites); next++ {
			if r.w.t.Fset.Position(sites[next].call.Pos()).Offset == rep.Pos {
				verdict[next] = 't'
				next++
				found = true
				break
			}
			verdict[next] = 'f'
		}
		if !found {
			return out, fmt.Errorf("report at offset %d is not a probe site in source order (%v)", rep.Pos, reps)
		}
	}
	known := len(sites)
	if pk == "" {
		for ; next < len(sites); next++ {
			verdict[next] = 'f'
		}
	} else {
		known = next // sites[next..] : the first one that is not an answer is where the run died
	}
	one := func(i int) (byte, error) {
		s := sites[i]
		reps, pk, _, err := hx.Run(e, s.tgt, hx.RunOpts{State: st})
		if err != nil {
			return 0, err
		}
		switch {
		case pk != "":
			l, ok := c17PanicLetter[pk]
			if !ok {
				return 0, fmt.Errorf("unknown panic kind %q", pk)
			}
			return l[0], nil
		case len(reps) == 0:
			return 'f', nil
		case len(reps) == 1 && reps[0].Pos == r.w.t.Fset.Position(s.call.Pos()).Offset:
			return 't', nil
		}
		return 0, fmt.Errorf("site %s: unexpected reports %v", s.decl.Name.Name, reps)
	}
	for i := range sites {
		if i < known && !perSite {
			continue
		}
		v, err := one(i)
		if err != nil {
			return out, err
		}
		if i < known {
			if v != verdict[i] {
				out.orderOK = false // the two ways of observing disagree
			}
			continue
		}
		verdict[i] = v
	}
	out.verdicts = string(verdict)
	if pk != "" {
		// the whole-file run must have died at the first site that does not answer, with that panic
		died := -1
		for i := known; i < len(sites); i++ {
			if verdict[i] != 'f' {
				died = i
				break
			}
		}
		if died < 0 || verdict[died] == 't' || string(verdict[died]) != out.end {
			out.orderOK = false
		}
	}
	return out, nil
}

func (r *c17Run) irFile(pat int, where ir.FilterExpr, custom bool) *ir.File {
	f := &ir.File{PkgPath: "gorules", RuleGroups: []ir.RuleGroup{{
		Line: 1, Name: "r", MatcherName: "m",
		Rules: []ir.Rule{{Line: 1, SyntaxPatterns: []ir.PatternString{{Line: 1, Value: c17Patterns[pat]}},
			ReportTemplate: "hit", WhereExpr: where}},
	}}}
	if custom {
		f.CustomDecls = r.custom
	}
	return f
}

// preconvert runs irconv on many DSL spellings at once (one rules file, one rule group per
// expression: the source importer costs a `go list` per type-check) and caches the resulting IR.
func (r *c17Run) preconvert(pat int, es []*fx) error {
	var todo []*fx
	var srcs []string
	seen := map[string]bool{}
	for _, e := range es {
		src, ok := e.dsl(pat)
		key := strconv.Itoa(pat) + "|" + src
		if !ok || seen[key] {
			continue
		}
		if _, done := r.conv[key]; done {
			continue
		}
		if _, failed := r.convErr[key]; failed {
			continue
		}
		seen[key] = true
		todo = append(todo, e)
		srcs = append(srcs, src)
	}
	const chunk = 150
	for i := 0; i < len(todo); i += chunk {
		j := i + chunk
		if j > len(todo) {
			j = len(todo)
		}
		var sb strings.Builder
		for k, src := range srcs[i:j] {
			fmt.Fprintf(&sb, "func r%d(m dsl.Matcher) {\n\tm.Match(`%s`).Where(%s).Report(\"hit\")\n}\n", k, c17Patterns[pat], src)
		}
		sb.WriteString(c17Custom)
		irf, err := c17ConvertIR(hx.RulesFile(sb.String()))
		if err != nil {
			if j-i == 1 {
				r.convErr[strconv.Itoa(pat)+"|"+srcs[i]] = err.Error()
				continue
			}
			// find the offender(s): one expression at a time
			for k := i; k < j; k++ {
				if err := r.preconvert(pat, []*fx{todo[k]}); err != nil {
					return err
				}
			}
			continue
		}
		if len(irf.RuleGroups) != j-i {
			return fmt.Errorf("irconv of a batch: %d groups for %d rules", len(irf.RuleGroups), j-i)
		}
		for k, g := range irf.RuleGroups {
			if len(g.Rules) != 1 {
				return fmt.Errorf("irconv of a batch: group %s has %d rules", g.Name, len(g.Rules))
			}
			r.conv[strconv.Itoa(pat)+"|"+srcs[i+k]] = g.Rules[0].WhereExpr
		}
	}
	return nil
}

// run one expression through one route:
//
//	"load": DSL text through Engine.Load (parse, type-check, irconv, ir_loader)
//	"dsl":  DSL text through irconv.ConvertFile (type-checked by the harness), then Engine.LoadFromIR
//	"ir":   the tree as ir.File through Engine.LoadFromIR
//	"helper": DSL text with the comparisons moved into local helper functions, through Engine.Load (c17_helper.go)
func (r *c17Run) eval(e *fx, pat int, route string) (c17Outcome, error) {
	var eng *ruleguard.Engine
	var load, errText string
	switch route {
	case "load":
		src, ok := e.dsl(pat)
		if !ok {
			return c17Outcome{}, fmt.Errorf("not expressible in the DSL: %s", e.sexp(r, pat))
		}
		eng, load, errText = c17LoadDSL(c17RuleSrc(pat, src, e.usesCustom()))
	case "helper":
		src, ok := e.helperSrc(r, pat)
		if !ok {
			return c17Outcome{}, fmt.Errorf("not expressible in the DSL: %s", e.sexp(r, pat))
		}
		if !strings.Contains(src, ":= func(") {
			r.c.Res.Dist("helper:no-helper-in-this-tree")
		}
		if len(src)%5 == 0 {
			eng, load, errText = c17LoadDSL(src) // end to end through Engine.Load
		} else {
			// type-checked by the harness (one importer for the whole run), irconv.ConvertFile, Engine.LoadFromIR: the steps of
			// Engine.Load without its per-call import resolution
			l, err := c18Load(src)
			if err != nil {
				return c17Outcome{load: "err", errText: "typechecker error: " + err.Error()}, nil
			}
			f, out := l.convert()
			switch {
			case strings.HasPrefix(out, "panic"):
				return c17Outcome{load: "panic:" + strings.TrimSuffix(strings.Fields(out)[1], ":"), errText: out}, nil
			case out != "ok":
				return c17Outcome{load: "err", errText: "irconv error: " + strings.TrimPrefix(out, "error: ")}, nil
			}
			eng, load, errText = c17LoadIR(f)
		}
	case "dsl":
		src, ok := e.dsl(pat)
		if !ok {
			return c17Outcome{}, fmt.Errorf("not expressible in the DSL: %s", e.sexp(r, pat))
		}
		key := strconv.Itoa(pat) + "|" + src
		if _, done := r.conv[key]; !done {
			if err := r.preconvert(pat, []*fx{e}); err != nil {
				return c17Outcome{}, err
			}
		}
		if msg, failed := r.convErr[key]; failed {
			return c17Outcome{load: "err", errText: "irconv: " + msg}, nil
		}
		eng, load, errText = c17LoadIR(r.irFile(pat, r.conv[key], e.usesCustom()))
	default:
		eng, load, errText = c17LoadIR(r.irFile(pat, e.ir(r, pat), e.usesCustom()))
	}
	if load != "ok" {
		return c17Outcome{load: load, errText: errText}, nil
	}
	return r.observe(eng, pat, route == "load" && e.Op == "Atom" || r.rng.Intn(16) == 0)
}

// ---------------------------------------------------------------------------------------------
// setup: atoms' IR and valuations, site contexts

func (r *c17Run) setup() error {
	for pat := 0; pat < 2; pat++ {
		var rules strings.Builder
		rules.WriteString("func r(m dsl.Matcher) {\n")
		for _, a := range c17Atoms {
			fmt.Fprintf(&rules, "\tm.Match(`%s`).Where(%s).Report(\"hit\")\n", c17Patterns[pat], c17AtomDSL(a, pat))
		}
		rules.WriteString("}\n" + c17Custom)
		irf, err := c17ConvertIR(hx.RulesFile(rules.String()))
		if err != nil {
			return fmt.Errorf("irconv of the atom pool: %v", err)
		}
		if len(irf.RuleGroups) != 1 || len(irf.RuleGroups[0].Rules) != len(c17Atoms) {
			return fmt.Errorf("irconv of the atom pool: unexpected shape")
		}
		for _, rule := range irf.RuleGroups[0].Rules {
			r.atomIR[pat] = append(r.atomIR[pat], rule.WhereExpr)
		}
		r.custom = irf.CustomDecls
		// valuation of every atom at every site (as its own rule, through the DSL route)
		n := len(r.w.sites[pat])
		r.atomV[pat] = make([]string, n)
		cols := make([]string, len(c17Atoms))
		for k, a := range c17Atoms {
			if a.bad {
				_, load, _ := c17LoadDSL(c17RuleSrc(pat, c17AtomDSL(a, pat), a.cust))
				if load != "err" {
					return fmt.Errorf("atom %d was expected not to load, got %s", k, load)
				}
				cols[k] = strings.Repeat("x", n) // never evaluated
				continue
			}
			o, err := r.eval(&fx{Op: "Atom", Atom: k}, pat, "load")
			if err != nil {
				return err
			}
			if o.load != "ok" {
				return fmt.Errorf("atom %d (%s) does not load: %s %s", k, a.dsl, o.load, o.errText)
			}
			cols[k] = o.verdicts
			for _, ch := range o.verdicts {
				r.c.Res.Dist(fmt.Sprintf("atom:%d:%c", k, ch))
			}
		}
		for i := 0; i < n; i++ {
			parts := []string{"a"}
			for k := range c17Atoms {
				parts = append(parts, string(cols[k][i]))
			}
			caps := r.w.facts[pat][i]
			names := make([]string, 0, len(caps))
			for name := range caps {
				names = append(names, name)
			}
			sort.Strings(names)
			var cs []string
			for _, name := range names {
				cs = append(cs, caps[name].sexp(name))
				if caps[name].list {
					r.c.Res.Dist(fmt.Sprintf("cap:list:%d", len(caps[name].es)))
				}
			}
			inv := r.w.sizes.Sizeof(types.Typ[types.Invalid])
			r.w.ctx[pat] = append(r.w.ctx[pat], fmt.Sprintf("(c %d (%s) %s)", inv, strings.Join(parts, " "), strings.Join(cs, " ")))
		}
	}
	return nil
}

func (r *c17Run) sitesSexp(pat int) string {
	return "(sites " + strings.Join(r.w.ctx[pat], " ") + ")"
}

// ---------------------------------------------------------------------------------------------
// generators

func (r *c17Run) vars(pat int) []string { return []string{"x", c17SecondVar[pat], "$$"} }

func (r *c17Run) pickVar(pat int) string {
	if r.rng.Intn(25) == 0 {
		return "z" // not bound by the pattern
	}
	return r.vars(pat)[r.rng.Intn(3)]
}

// a literal near the facts some site has for (var, kind)
func (r *c17Run) nearConst(pat int, kind, v string) *fx {
	site := r.rng.Intn(len(r.w.sites[pat]))
	c := r.w.facts[pat][site][v]
	if kind == "VarText" {
		s := "gi"
		if c != nil {
			s = c.text
		}
		switch r.rng.Intn(6) {
		case 0:
			if len(s) > 0 {
				s = s[:len(s)-1]
			}
		case 1:
			s += "a"
		case 2:
			s = ""
		case 3:
			s = []string{"g", "gi", "h", "1", "2"}[r.rng.Intn(5)]
		}
		if strings.ContainsAny(s, "\n\r") && r.rng.Intn(2) == 0 {
			s = "gi"
		}
		e := &fx{Op: "String", V: s}
		if len(s) >= 2 && r.rng.Intn(4) == 0 && !strings.ContainsAny(s, "\n\r\"\\`") {
			e.Lit = strconv.Quote(s[:1]) + " + " + strconv.Quote(s[1:]) // folded by go/types in irconv
		} else if r.rng.Intn(3) == 0 {
			e.Lit = c17SpellStr(r.rng, s) // raw, escaped, parenthesised, concatenated
		}
		return e
	}
	var base int64
	switch {
	case c == nil:
		base = 8
	case kind == "VarLine":
		base = int64(c.line)
	case kind == "VarTypeSize":
		ef := c.e
		if c.list && len(c.es) > 0 {
			ef = &c.es[r.rng.Intn(len(c.es))]
		}
		if ef != nil {
			base = ef.size
		}
	case kind == "VarValueInt":
		ef := c.e
		if c.list && len(c.es) > 0 {
			ef = &c.es[r.rng.Intn(len(c.es))]
		}
		if ef != nil && ef.ival != "_" {
			if v, err := strconv.ParseInt(ef.ival, 10, 64); err == nil {
				base = v
			} else {
				base = 1<<63 - 1
			}
		} else {
			base = int64(r.rng.Intn(8))
		}
	}
	d := int64(r.rng.Intn(3) - 1)
	if base == 1<<63-1 && d > 0 {
		d = 0
	}
	v64 := base + d
	e := &fx{Op: "Int", V: v64}
	if v64 >= 2 && v64 < 1<<30 && r.rng.Intn(4) == 0 {
		e.Lit = fmt.Sprintf("(%d + %d)", v64-1, 1)
	} else if v64 >= 0 && r.rng.Intn(8) == 0 {
		e.Lit = fmt.Sprintf("0x%x", v64)
	} else if v64 > math.MinInt64 && r.rng.Intn(3) == 0 {
		e.Lit = c17SpellInt(r.rng, v64, false) // every literal syntax: legacy octal, 0o, 0x, 0b, separators, runes, constant expressions
	}
	return e
}

// a comparison the DSL can spell and go/types accepts
func (r *c17Run) genCmp(pat int) *fx {
	op := c17CmpOps[r.rng.Intn(6)]
	kind := c17ValOps[r.rng.Intn(4)]
	v := r.pickVar(pat)
	lhs := &fx{Op: kind, V: v}
	switch p := r.rng.Intn(100); {
	case p < 55: // value OP literal
		return &fx{Op: op, Args: []*fx{lhs, r.nearConst(pat, kind, v)}}
	case p < 70: // literal OP value (loads for == and != only)
		if r.rng.Intn(3) != 0 {
			op = c17CmpOps[r.rng.Intn(2)]
		}
		return &fx{Op: op, Args: []*fx{r.nearConst(pat, kind, v), lhs}}
	case p < 85: // value OP value of the same kind
		return &fx{Op: op, Args: []*fx{lhs, {Op: kind, V: r.pickVar(pat)}}}
	case p < 95: // value OP value of another kind of the same Go type (int)
		if kind == "VarText" {
			kind = "VarTypeSize"
			lhs.Op = kind
		}
		if r.rng.Intn(2) == 0 {
			lhs.Op = "VarTypeSize"
		}
		other := c17ValOps[r.rng.Intn(3)]
		return &fx{Op: op, Args: []*fx{lhs, {Op: other, V: r.pickVar(pat)}}}
	default: // literal OP literal
		if kind == "VarText" {
			return &fx{Op: op, Args: []*fx{{Op: "String", V: "a"}, {Op: "String", V: "b"}}}
		}
		return &fx{Op: op, Args: []*fx{{Op: "Int", V: int64(r.rng.Intn(3))}, {Op: "Int", V: int64(1)}}}
	}
}

func (r *c17Run) genAtom() *fx {
	k := r.rng.Intn(len(c17Atoms))
	if c17Atoms[k].bad && r.rng.Intn(4) != 0 {
		k = r.rng.Intn(len(c17Atoms) - 2)
	}
	if c17Atoms[k].cust && r.rng.Intn(8) != 0 { // the custom function makes loading slow
		k = r.rng.Intn(10)
	}
	return &fx{Op: "Atom", Atom: k}
}

func (r *c17Run) genBool(pat, depth int) *fx {
	if depth <= 0 || r.rng.Intn(4) == 0 {
		if r.rng.Intn(100) < 50 {
			return r.genAtom()
		}
		return r.genCmp(pat)
	}
	switch p := r.rng.Intn(10); {
	case p < 2:
		return &fx{Op: "Not", Args: []*fx{r.genBool(pat, depth-1)}}
	case p < 6:
		return &fx{Op: "And", Args: []*fx{r.genBool(pat, depth-1), r.genBool(pat, depth-1)}}
	default:
		return &fx{Op: "Or", Args: []*fx{r.genBool(pat, depth-1), r.genBool(pat, depth-1)}}
	}
}

// trees only ir.File can carry: ill-typed, malformed, wrong arity, wrong Value types
func (r *c17Run) genMalformed(pat, depth int) *fx {
	b := func() *fx { return r.genBool(pat, depth-1) }
	val := func() *fx { return &fx{Op: c17ValOps[r.rng.Intn(4)], V: r.pickVar(pat)} }
	op := c17CmpOps[r.rng.Intn(6)]
	switch r.rng.Intn(16) {
	case 0: // mixed literal type
		return &fx{Op: op, Args: []*fx{{Op: "VarLine", V: r.pickVar(pat)}, {Op: "String", V: []string{"", "a", "12"}[r.rng.Intn(3)]}}}
	case 1:
		return &fx{Op: op, Args: []*fx{{Op: "VarText", V: r.pickVar(pat)}, {Op: "Int", V: int64(r.rng.Intn(20))}}}
	case 2:
		k := []string{"VarTypeSize", "VarValueInt"}[r.rng.Intn(2)]
		return &fx{Op: op, Args: []*fx{{Op: k, V: r.pickVar(pat)}, {Op: "String", V: "8"}}}
	case 3: // missing operands
		return &fx{Op: []string{"Not", "And", "Or", op}[r.rng.Intn(4)]}
	case 4:
		return &fx{Op: []string{"And", "Or"}[r.rng.Intn(2)], Args: []*fx{b()}}
	case 5:
		if r.rng.Intn(2) == 0 {
			return &fx{Op: op, Args: []*fx{val()}}
		}
		return &fx{Op: op, Args: []*fx{{Op: "Int", V: int64(3)}}}
	case 6: // wrong Value types
		v := []interface{}{nil, int64(3), 1.5}[r.rng.Intn(3)]
		return &fx{Op: op, Args: []*fx{{Op: c17ValOps[r.rng.Intn(4)], V: v}, {Op: "Int", V: int64(8)}}}
	case 7:
		v := []interface{}{nil, int64(3), 1.5}[r.rng.Intn(3)]
		k := c17ValOps[r.rng.Intn(4)]
		return &fx{Op: op, Args: []*fx{{Op: k, V: r.pickVar(pat)}, {Op: k, V: v}}}
	case 8:
		if r.rng.Intn(2) == 0 {
			return &fx{Op: op, Args: []*fx{val(), {Op: "String", V: int64(1)}}}
		}
		return &fx{Op: op, Args: []*fx{val(), {Op: "Int", V: "1"}}}
	case 9: // literal with a Value that is neither string nor int64 on the left
		return &fx{Op: []string{"Eq", "Neq"}[r.rng.Intn(2)], Args: []*fx{{Op: "Int", V: []interface{}{nil, 1.5}[r.rng.Intn(2)]}, val()}}
	case 10: // a value where a condition is expected
		if r.rng.Intn(2) == 0 {
			return &fx{Op: "Not", Args: []*fx{val()}}
		}
		return &fx{Op: []string{"And", "Or"}[r.rng.Intn(2)], Args: []*fx{b(), {Op: []string{"Int", "String", "Invalid", "VarLine"}[r.rng.Intn(4)], V: nil}}}
	case 11: // a condition where a value is expected
		k := c17ValOps[r.rng.Intn(4)]
		if r.rng.Intn(2) == 0 {
			return &fx{Op: op, Args: []*fx{{Op: k, V: r.pickVar(pat)}, r.genAtom()}}
		}
		return &fx{Op: op, Args: []*fx{r.genAtom(), {Op: k, V: r.pickVar(pat)}}}
	case 12: // surplus operands
		return &fx{Op: []string{"And", "Or"}[r.rng.Intn(2)], Args: []*fx{b(), b(), {Op: "Invalid"}}}
	case 13:
		c := r.genCmp(pat)
		c.Args = append(c.Args, &fx{Op: "Invalid"})
		return c
	case 14:
		return &fx{Op: "Not", Args: []*fx{b(), {Op: "Invalid"}}}
	default: // connective over malformed operands
		return &fx{Op: []string{"And", "Or"}[r.rng.Intn(2)], Args: []*fx{r.genMalformed(pat, depth-1), b()}}
	}
}

// ---------------------------------------------------------------------------------------------
// the check

type c17Case struct {
	e     *fx
	pat   int
	route string
	class string
	out   c17Outcome
}

func (cs *c17Case) input(r *c17Run) map[string]interface{} {
	in := map[string]interface{}{"pattern": c17Patterns[cs.pat], "route": cs.route, "expr": cs.e.sexp(r, cs.pat), "class": cs.class}
	if s, ok := cs.e.dsl(cs.pat); ok {
		in["where"] = s
	}
	if cs.route == "helper" {
		if src, ok := cs.e.helperSrc(r, cs.pat); ok {
			in["rules"] = src
		}
	}
	if cs.out.errText != "" {
		in["load"] = cs.out.errText
	}
	if r.w.prev != nil {
		in["history"] = "the engine (one RunnerState) was first run on an earlier revision of the same file name with another line layout, parsed into a file set of its own"
	}
	return in
}

func runC17(c *Ctx) error {
	res := c.Res
	w, err := c17NewWorld(c.Seed, c.Thorough)
	if err != nil {
		return err
	}
	defer os.RemoveAll(w.dir)
	r := &c17Run{c: c, w: w, rng: hx.Rng(c.Seed, "c17-exprs"), conv: map[string]ir.FilterExpr{}, convErr: map[string]string{}}
	if err := r.setup(); err != nil {
		return err
	}
	nDSL, nIR, nBad, nLaw, depth := 220, 500, 260, 120, 4
	nHelper, nHelperLaw := 90, 40
	if c.Thorough {
		nDSL, nIR, nBad, nLaw, depth = 2500, 9000, 3000, 1500, 7
		nHelper, nHelperLaw = 900, 400
	}
	res.Rule = fmt.Sprintf("generated Where() trees (depth <= %d) over %d opaque predicates and comparisons of Line/Type.Size/Value.Int()/Text with "+
		"literals near the sites' own facts, loaded through Engine.Load (%d, DSL text) and Engine.LoadFromIR (%d well-formed + %d malformed) and "+
		"run on %d+%d probe sites one declaration at a time and as a whole file; model op `c17 %s`, statement `spec17` on the implementation's verdicts, "+
		"%d law instances on the implementation alone; %d trees and %d x 6 comparisons with their comparisons moved into local helper functions (literal of every Go "+
		"spelling in the body, as an argument, under a closure, behind a nested helper; judged by the model, spec17, the Go operator on the go/types facts and the inline "+
		"spelling of the same comparison); a case is non-trivial when its verdict vector is not constant or it fails to load, distinct by tree",
		depth, len(c17Atoms), nDSL, nIR, nBad, len(w.sites[0]), len(w.sites[1]), c17Variant, nLaw, nHelper, nHelperLaw)

	var cases []*c17Case
	add := func(e *fx, pat int, route, class string) {
		cases = append(cases, &c17Case{e: e, pat: pat, route: route, class: class})
	}
	for i := 0; i < nDSL; i++ {
		pat := i % 2
		var e *fx
		for {
			e = r.genBool(pat, 1+r.rng.Intn(depth))
			if _, ok := e.dsl(pat); ok {
				break
			}
		}
		route := "dsl"
		if i%8 == 0 {
			route = "load" // end to end through Engine.Load
		}
		add(e, pat, route, "wellformed")
	}
	for i := 0; i < nIR; i++ {
		pat := i % 2
		add(r.genBool(pat, 1+r.rng.Intn(depth)), pat, "ir", "wellformed")
	}
	for i := 0; i < nHelper; i++ {
		pat := i % 2
		var e *fx
		for {
			if i%3 == 0 {
				e = r.genCmp(pat)
			} else {
				e = r.genBool(pat, 1+r.rng.Intn(3))
			}
			if _, ok := e.dsl(pat); ok {
				break
			}
		}
		c17Respell(r.rng, e)
		add(e, pat, "helper", "wellformed")
	}
	for i := 0; i < nBad; i++ {
		pat := i % 2
		add(r.genMalformed(pat, 1+r.rng.Intn(3)), pat, "ir", "malformed")
	}
	// every comparison shape once, on purpose (lhs kind x rhs kind x op), through the IR route
	for pat := 0; pat < 2; pat++ {
		for _, op := range c17CmpOps {
			for _, lk := range append([]string{"Int", "String"}, c17ValOps...) {
				for _, rk := range append([]string{"Int", "String"}, c17ValOps...) {
					mk := func(k string, v string) *fx {
						switch k {
						case "Int":
							return &fx{Op: "Int", V: int64(8)}
						case "String":
							return &fx{Op: "String", V: "gi"}
						}
						return &fx{Op: k, V: v}
					}
					e := &fx{Op: op, Args: []*fx{mk(lk, "x"), mk(rk, c17SecondVar[pat])}}
					route := "ir"
					if _, ok := e.dsl(pat); ok && (pat == 0 || op == "Eq") {
						route = "dsl"
					}
					add(e, pat, route, "grid")
				}
			}
		}
	}

	// short circuit, on purpose: a right operand that must not be consulted when the left one decides (the custom filter
	// panics on some sites) next to every kind of left operand, and the mirrored order
	{
		boom := -1
		for k, a := range c17Atoms {
			if a.cust {
				boom = k
			}
		}
		for pat := 0; pat < 2 && boom >= 0; pat++ {
			for k, a := range c17Atoms {
				if a.bad || a.cust || (!c.Thorough && k%2 == 1) {
					continue
				}
				at := func() *fx { return &fx{Op: "Atom", Atom: k} }
				bm := func() *fx { return &fx{Op: "Atom", Atom: boom} }
				for _, e := range []*fx{
					{Op: "Or", Args: []*fx{at(), bm()}}, {Op: "And", Args: []*fx{at(), bm()}},
					{Op: "Or", Args: []*fx{{Op: "Not", Args: []*fx{at()}}, bm()}}, {Op: "And", Args: []*fx{{Op: "Not", Args: []*fx{at()}}, bm()}},
					{Op: "Or", Args: []*fx{bm(), at()}},
				} {
					add(e, pat, "ir", "short-circuit")
				}
			}
		}
	}

	for pat := 0; pat < 2; pat++ {
		var es []*fx
		for _, cs := range cases {
			if cs.pat == pat && cs.route == "dsl" {
				es = append(es, cs.e)
			}
		}
		if err := r.preconvert(pat, es); err != nil {
			return err
		}
	}
	for _, cs := range cases {
		o, err := r.eval(cs.e, cs.pat, cs.route)
		if err != nil {
			return err
		}
		cs.out = o
		if cs.route == "helper" {
			switch {
			case o.load == "ok":
				res.Dist("helper:loaded")
			case o.load == "err" && strings.HasPrefix(o.errText, "irconv error"):
				res.Dist("helper:rejected-by-irconv")
				res.Dist("helper:rejected-by-irconv:" + c17ErrClass(o.errText))
			default:
				res.Dist("helper:" + o.load)
			}
		}
		key := cs.e.sexp(r, cs.pat)
		nontrivial := o.load != "ok" || strings.Trim(o.verdicts, o.verdicts[:1]) != ""
		res.Count("model:"+cs.route, key, nontrivial)
		res.Dist("route:" + cs.route + ":" + cs.class)
		res.Dist("load:" + strings.SplitN(o.load, ":", 2)[0])
		if o.load == "ok" {
			for _, ch := range "tfsinax" {
				if strings.ContainsRune(o.verdicts, ch) {
					res.Dist("verdict-seen:" + string(ch))
				}
			}
			if o.end != "-" {
				res.Dist("run:aborted")
			}
		}
		c17DistShape(res, cs.e)
	}
	if len(cases) > 2 {
		res.Sample(cases[0].input(r))
		res.Sample(map[string]interface{}{"case": cases[len(cases)/2].input(r), "impl": cases[len(cases)/2].out.line()})
	}
	if err := r.compareModel(cases); err != nil {
		return err
	}
	if err := r.checkSpec(cases); err != nil {
		return err
	}
	if err := r.checkLaws(nLaw); err != nil {
		return err
	}
	return r.c17HelperLaws(nHelperLaw)
}

func c17DistShape(res *hx.Result, e *fx) {
	if isCmp(e.Op) && len(e.Args) >= 2 {
		res.Dist("cmp:" + e.Args[0].Op + "~" + e.Args[1].Op)
		res.Dist("cmp-op:" + e.Op)
	} else {
		res.Dist("node:" + e.Op + "/" + strconv.Itoa(len(e.Args)))
	}
	for _, a := range e.Args {
		c17DistShape(res, a)
	}
}

// model vs implementation, in batches (the site contexts are sent once per batch)
func (r *c17Run) compareModel(cases []*c17Case) error {
	const batch = 40
	for pat := 0; pat < 2; pat++ {
		var group []*c17Case
		for _, cs := range cases {
			if cs.pat == pat {
				group = append(group, cs)
			}
		}
		sites := r.sitesSexp(pat)
		for i := 0; i < len(group); i += batch {
			j := i + batch
			if j > len(group) {
				j = len(group)
			}
			var es []string
			for _, cs := range group[i:j] {
				es = append(es, cs.e.sexp(r, pat))
			}
			op := fmt.Sprintf("c17 %s %s (exprs %s)", c17Variant, sites, strings.Join(es, " "))
			ans, err := r.c.Drv.Ask([]string{op})
			if err != nil {
				return err
			}
			toks := strings.Fields(ans[0])
			if len(toks) != j-i {
				// a malformed request: find the offender one by one
				for _, cs := range group[i:j] {
					a, err := r.c.Drv.Ask([]string{fmt.Sprintf("c17 %s %s (exprs %s)", c17Variant, sites, cs.e.sexp(r, pat))})
					if err != nil {
						return err
					}
					if len(strings.Fields(a[0])) != 1 {
						return fmt.Errorf("driver answered %q for %s", a[0], cs.e.sexp(r, pat))
					}
				}
				return fmt.Errorf("driver answered %d tokens for %d expressions", len(toks), j-i)
			}
			for k, cs := range group[i:j] {
				model := toks[k]
				impl := cs.out.line()
				r.c.Res.Dist("model-load:" + strings.SplitN(model, ":", 3)[0] + ":" + func() string {
					if strings.HasPrefix(model, "err:") {
						return model[4:]
					}
					return ""
				}())
				if strings.HasPrefix(model, "err:") {
					model = "err" // the error text is not compared (wording is not behaviour)
				}
				if impl == "err" && strings.Contains(cs.out.errText, "non-existing var") && strings.HasPrefix(model, "ok") {
					// since the `fix:` commits of C06, Load validates the variables used as comparison operands against
					// the pattern; that validation is the loader model of C06, not this model (which gets no pattern)
					r.c.Res.Dist("model-load:rejected-unbound-operand-variable(C06)")
					continue
				}
				if cs.route == "helper" && impl == "err" && strings.HasPrefix(cs.out.errText, "irconv error") && strings.HasPrefix(model, "ok") {
					// a helper-using group may be rejected by the converter (C18: rejected, never different); what this
					// model describes is the behaviour of the groups that load
					r.c.Res.Dist("model-load:helper-group-rejected-by-irconv(C18)")
					continue
				}
				if model != impl {
					r.c.Res.Disagree(hx.Disagreement{Suite: "model:" + cs.route, Op: "c17 " + c17Variant + " … " + cs.e.sexp(r, pat),
						Impl: impl, Model: model, Input: cs.input(r)})
				}
			}
		}
	}
	return nil
}

// the Lean statement of the property on the implementation's verdicts
func (r *c17Run) checkSpec(cases []*c17Case) error {
	const batch = 40
	for pat := 0; pat < 2; pat++ {
		var group []*c17Case
		for _, cs := range cases {
			if cs.pat == pat && cs.out.load == "ok" {
				group = append(group, cs)
			}
		}
		sites := r.sitesSexp(pat)
		for i := 0; i < len(group); i += batch {
			j := i + batch
			if j > len(group) {
				j = len(group)
			}
			var qs []string
			for _, cs := range group[i:j] {
				qs = append(qs, fmt.Sprintf("(q %s %s)", cs.e.sexp(r, pat), cs.out.verdicts))
			}
			ans, err := r.c.Drv.Ask([]string{"spec17 " + sites + " " + strings.Join(qs, " ")})
			if err != nil {
				return err
			}
			toks := strings.Fields(ans[0])
			if len(toks) != j-i {
				return fmt.Errorf("spec17: driver answered %q", ans[0])
			}
			for k, cs := range group[i:j] {
				r.c.Res.Count("spec", cs.route+cs.e.sexp(r, pat), !strings.HasPrefix(toks[k], "holds:0"))
				if strings.HasPrefix(toks[k], "holds") {
					continue
				}
				if err := r.reportViolation(cs, toks[k]); err != nil {
					return err
				}
			}
		}
	}
	return nil
}

func (r *c17Run) judgeOne(e *fx, pat int, verdicts string) (string, error) {
	ans, err := r.c.Drv.Ask([]string{fmt.Sprintf("spec17 %s (q %s %s)", r.sitesSexp(pat), e.sexp(r, pat), verdicts)})
	if err != nil {
		return "", err
	}
	return ans[0], nil
}

// shrink a violating tree to a smallest violating subtree (same route), then report it
func (r *c17Run) reportViolation(cs *c17Case, verdict string) error {
	cur, curOut, curVerdict := cs.e, cs.out, verdict
	for {
		shrunk := false
		for _, a := range cur.Args {
			if !a.isBool() {
				continue
			}
			if cs.route != "ir" {
				if _, ok := a.dsl(cs.pat); !ok {
					continue
				}
			}
			o, err := r.eval(a, cs.pat, cs.route)
			if err != nil || o.load != "ok" {
				continue
			}
			v, err := r.judgeOne(a, cs.pat, o.verdicts)
			if err != nil {
				return err
			}
			if !strings.HasPrefix(v, "holds") && v != "bad-op" {
				cur, curOut, curVerdict, shrunk = a, o, v, true
				break
			}
		}
		if !shrunk {
			break
		}
	}
	parts := strings.Split(curVerdict, ":")
	site, _ := strconv.Atoi(parts[1])
	sig := r.signature(cur, cs.pat, site, parts[0], parts[len(parts)-1])
	min := &c17Case{e: cur, pat: cs.pat, route: cs.route, class: cs.class, out: curOut}
	in := min.input(r)
	in["site"] = r.w.sites[cs.pat][site].decl.Name.Name + ": " + r.w.text(r.w.sites[cs.pat][site].call.Pos(), r.w.sites[cs.pat][site].call.End())
	in["site_facts"] = r.w.ctx[cs.pat][site]
	what := "verdict differs from the value the comparison/connective denotes"
	if parts[0] == "panics" {
		what = "Run panics although every predicate answers and every variable is bound"
	}
	r.c.Res.Violate(hx.Violation{Signature: sig, What: what, Input: in, Impl: curOut.line(), Spec: "spec17 → " + curVerdict})
	return nil
}

var c17PanicName = map[string]string{"s": "slice", "i": "index", "n": "nil", "a": "assert", "x": "explicit"}

// the value operands (op, variable) of a tree
func (e *fx) valueOperands(out *[][2]string) {
	if v, ok := e.V.(string); ok && e.valKind() != "" && e.Op != "String" {
		*out = append(*out, [2]string{e.Op, v})
	}
	for _, a := range e.Args {
		a.valueOperands(out)
	}
}

// c17Signature names the input class of a violation: the cause visible in the site's facts for
// panics, the dispatch branch for wrong verdicts.
func (r *c17Run) signature(e *fx, pat, site int, kind, got string) string {
	if isCmp(e.Op) && len(e.Args) >= 2 {
		// a Type.Size on the left whose right operand is another kind of value: that operand is
		// treated as a size too, whatever happens next (wrong verdict, or Sizeof panicking on it)
		if l, rr := e.Args[0], e.Args[1]; l.Op == "VarTypeSize" && rr.Op != "VarTypeSize" && rr.Op != "Int" && rr.Op != "String" {
			return "newBinaryExprFilter:VarTypeSize:rhs-op-unchecked"
		}
	}
	if kind == "panics" {
		var ops [][2]string
		e.valueOperands(&ops)
		for _, o := range ops {
			c := r.w.facts[pat][site][o[1]]
			if c == nil {
				continue
			}
			if got == "i" && o[0] == "VarLine" && c.list && len(c.es) == 0 {
				return "VarLine:empty-list-capture:panic index"
			}
			if got == "x" && o[0] == "VarTypeSize" {
				bad := c.e != nil && c.e.sizeBad
				for _, ef := range c.es {
					bad = bad || ef.sizeBad
				}
				if bad {
					return "VarTypeSize:untyped-operand:panic explicit"
				}
			}
		}
		return fmt.Sprintf("%s:panic %s", e.Op, c17PanicName[got])
	}
	if isCmp(e.Op) && len(e.Args) >= 2 {
		l, rr := e.Args[0], e.Args[1]
		if l.Op == "VarTypeSize" && rr.Op != "VarTypeSize" && rr.Op != "Int" && rr.Op != "String" {
			return "newBinaryExprFilter:VarTypeSize:rhs-op-unchecked"
		}
		return fmt.Sprintf("compare:%s~%s:%s:wrong-verdict", l.Op, rr.Op, e.Op)
	}
	return fmt.Sprintf("connective:%s:wrong-verdict", e.Op)
}

// ---------------------------------------------------------------------------------------------
// relational laws, checked on the implementation alone (no model, no golden output)

func (r *c17Run) lawViolation(sig, what string, pat int, exprs map[string]*fx, outs map[string]c17Outcome, site int) {
	in := map[string]interface{}{"pattern": c17Patterns[pat]}
	impl := ""
	names := make([]string, 0, len(exprs))
	for n := range exprs {
		names = append(names, n)
	}
	sort.Strings(names)
	for _, n := range names {
		in[n] = exprs[n].sexp(r, pat)
		if s, ok := exprs[n].dsl(pat); ok {
			in[n+"_where"] = s
		}
		impl += n + "=" + outs[n].line() + " "
	}
	if site >= 0 {
		s := r.w.sites[pat][site]
		in["site"] = s.decl.Name.Name + ": " + r.w.text(s.call.Pos(), s.call.End())
		in["site_facts"] = r.w.ctx[pat][site]
	}
	r.c.Res.Violate(hx.Violation{Signature: sig, What: what, Input: in, Impl: strings.TrimSpace(impl), Spec: what})
}

func (r *c17Run) checkLaws(n int) error {
	res := r.c.Res
	route := func() string {
		if r.rng.Intn(5) == 0 {
			return "dsl"
		}
		return "ir"
	}
	// DSL spellings of one instance are converted together
	pre := func(pat int, rt string, es ...*fx) error {
		if rt != "dsl" {
			return nil
		}
		return r.preconvert(pat, es)
	}
	genLoadable := func(pat, depth int, rt string) (*fx, c17Outcome, error) {
		for {
			e := r.genBool(pat, depth)
			if rt == "dsl" {
				if _, ok := e.dsl(pat); !ok {
					continue
				}
				// find a loadable one through the cheap route first
				if o, err := r.eval(e, pat, "ir"); err != nil || o.load != "ok" {
					continue
				}
			}
			o, err := r.eval(e, pat, rt)
			if err != nil {
				return nil, o, err
			}
			if o.load == "ok" {
				return e, o, nil
			}
		}
	}
	for i := 0; i < n; i++ {
		pat := i % 2
		rt := route()
		F, oF, err := genLoadable(pat, r.rng.Intn(3), rt)
		if err != nil {
			return err
		}
		G, oG, err := genLoadable(pat, r.rng.Intn(3), rt)
		if err != nil {
			return err
		}
		skip := false
		ev := func(e *fx) (c17Outcome, error) {
			o, err := r.eval(e, pat, rt)
			if err == nil && o.load != "ok" {
				// the operands load, the compound does not
				r.lawViolation("law:loads:"+e.Op, "an expression whose operands load (or whose mirror image loads) does not load: "+o.errText, pat,
					map[string]*fx{"expr": e}, map[string]c17Outcome{"expr": o}, -1)
				skip = true
				o.verdicts = strings.Repeat("?", len(r.w.sites[pat]))
			}
			return o, err
		}
		notF := &fx{Op: "Not", Args: []*fx{F}}
		and := &fx{Op: "And", Args: []*fx{F, G}}
		or := &fx{Op: "Or", Args: []*fx{F, G}}
		dm1 := &fx{Op: "Not", Args: []*fx{and}}
		dm2 := &fx{Op: "Or", Args: []*fx{notF, {Op: "Not", Args: []*fx{G}}}}
		kind := c17ValOps[r.rng.Intn(4)]
		v := r.vars(pat)[r.rng.Intn(3)]
		lit := r.nearConst(pat, kind, v)
		val := &fx{Op: kind, V: v}
		cmpE := map[string]*fx{}
		swapE := map[string]*fx{}
		all := []*fx{notF, and, or, dm1, dm2}
		for _, op := range c17CmpOps {
			cmpE[op] = &fx{Op: op, Args: []*fx{val, lit}}
			all = append(all, cmpE[op])
		}
		for _, op := range []string{"Eq", "Neq"} {
			swapE[op] = &fx{Op: op, Args: []*fx{lit, val}}
			all = append(all, swapE[op])
		}
		if err := pre(pat, rt, all...); err != nil {
			return err
		}
		oN, err := ev(notF)
		if err != nil {
			return err
		}
		oA, err := ev(and)
		if err != nil {
			return err
		}
		oO, err := ev(or)
		if err != nil {
			return err
		}
		oD1, err := ev(dm1)
		if err != nil {
			return err
		}
		oD2, err := ev(dm2)
		if err != nil {
			return err
		}
		if skip {
			continue
		}
		exprs := map[string]*fx{"F": F, "G": G}
		for s := range oF.verdicts {
			f, g := oF.verdicts[s], oG.verdicts[s]
			// complement
			wantN := f
			if f == 't' {
				wantN = 'f'
			} else if f == 'f' {
				wantN = 't'
			}
			if oN.verdicts[s] != wantN {
				r.lawViolation("law:not-complement", "!F does not report exactly the matches F rejects", pat, exprs, map[string]c17Outcome{"F": oF, "!F": oN}, s)
			}
			// intersection with short circuit
			wantA := g
			if f != 't' {
				wantA = f
			}
			if oA.verdicts[s] != wantA {
				sig := "law:and-intersection"
				if f == 'f' && g != 't' && g != 'f' {
					sig = "law:and-short-circuit"
				}
				r.lawViolation(sig, "F && G differs from the short-circuit conjunction of F and G", pat, exprs, map[string]c17Outcome{"F": oF, "G": oG, "F&&G": oA}, s)
			}
			wantO := g
			if f != 'f' {
				wantO = f
			}
			if oO.verdicts[s] != wantO {
				sig := "law:or-union"
				if f == 't' && g != 't' && g != 'f' {
					sig = "law:or-short-circuit"
				}
				r.lawViolation(sig, "F || G differs from the short-circuit disjunction of F and G", pat, exprs, map[string]c17Outcome{"F": oF, "G": oG, "F||G": oO}, s)
			}
			if oD1.verdicts[s] != oD2.verdicts[s] {
				r.lawViolation("law:de-morgan", "!(F && G) differs from !F || !G", pat, exprs, map[string]c17Outcome{"!(F&&G)": oD1, "!F||!G": oD2}, s)
			}
			if f == 'f' && g != 't' && g != 'f' {
				res.Dist("law:and-short-circuit-exercised")
			}
			if f == 't' && g != 't' && g != 'f' {
				res.Dist("law:or-short-circuit-exercised")
			}
		}
		res.Count("laws:connectives", F.sexp(r, pat)+G.sexp(r, pat), true)

		// comparisons: operand order for == / !=, negation pairs, the Go operator itself
		outs := map[string]c17Outcome{}
		for _, op := range c17CmpOps {
			o, err := ev(cmpE[op])
			if err != nil {
				return err
			}
			outs[op] = o
		}
		for _, op := range []string{"Eq", "Neq"} {
			e := swapE[op]
			o, err := ev(e)
			if err != nil {
				return err
			}
			if o.verdicts != outs[op].verdicts {
				r.lawViolation("law:"+strings.ToLower(op)+"-operand-order", "c "+c17CmpTok[op]+" x differs from x "+c17CmpTok[op]+" c", pat,
					map[string]*fx{"x.c": cmpE[op], "c.x": e}, map[string]c17Outcome{"x.c": outs[op], "c.x": o}, -1)
			}
		}
		if skip {
			continue
		}
		neg := map[string]string{"Lt": "GtEq", "LtEq": "Gt", "Eq": "Neq", "Gt": "LtEq", "GtEq": "Lt", "Neq": "Eq"}
		for s := range outs["Eq"].verdicts {
			known, val64, sval := r.factValue(pat, s, kind, v)
			for _, op := range c17CmpOps {
				got := outs[op].verdicts[s]
				if !known {
					// an unknown value rejects every comparison
					if single, unknown := r.factUnknown(pat, s, kind, v); single && unknown && got != 'f' {
						r.lawViolation("law:unknown-rejects:"+kind, "a comparison over an unknown value accepted", pat,
							map[string]*fx{"cmp": cmpE[op]}, map[string]c17Outcome{"cmp": outs[op]}, s)
					}
					continue
				}
				// x op c  ==  !(x negop c)
				other := outs[neg[op]].verdicts[s]
				if (got == 't') == (other == 't') || (got != 't' && got != 'f') {
					r.lawViolation("law:"+strings.ToLower(op)+"-not-"+strings.ToLower(neg[op])+":"+kind, "x "+c17CmpTok[op]+" c does not agree with !(x "+c17CmpTok[neg[op]]+" c) on a known value", pat,
						map[string]*fx{"a": cmpE[op], "b": cmpE[neg[op]]}, map[string]c17Outcome{"a": outs[op], "b": outs[neg[op]]}, s)
				}
				// the Go operator on the underlying value
				var want bool
				if kind == "VarText" {
					want = c17GoCmpS(op, sval, lit.V.(string))
				} else {
					want = c17GoCmpI(op, val64, lit.V.(int64))
				}
				if (got == 't') != want {
					r.lawViolation("law:go-operator:"+kind+":"+op, "the comparison is not the Go operator on the underlying value", pat,
						map[string]*fx{"cmp": cmpE[op]}, map[string]c17Outcome{"cmp": outs[op]}, s)
				}
				res.Dist("law:go-operator:" + kind)
			}
		}
		res.Count("laws:comparisons", kind+v+lit.sexp(r, pat), true)
	}
	return nil
}

// the single known value a (variable, kind) has at a site; ok=false for unknown values, lists, big ints
func (r *c17Run) factValue(pat, site int, kind, v string) (ok bool, i int64, s string) {
	c := r.w.facts[pat][site][v]
	if c == nil {
		return false, 0, ""
	}
	switch kind {
	case "VarLine":
		if c.list && len(c.es) == 0 {
			return false, 0, ""
		}
		return true, int64(c.line), ""
	case "VarText":
		return true, 0, c.text
	}
	if c.list || c.e == nil {
		return false, 0, ""
	}
	if kind == "VarTypeSize" {
		return !c.e.tparam && !c.e.sizeBad, c.e.size, ""
	}
	if c.e.ival == "_" {
		return false, 0, ""
	}
	n, err := strconv.ParseInt(c.e.ival, 10, 64)
	return err == nil, n, ""
}

func (r *c17Run) factUnknown(pat, site int, kind, v string) (single, unknown bool) {
	c := r.w.facts[pat][site][v]
	if c == nil || c.list || c.e == nil {
		return false, false
	}
	switch kind {
	case "VarTypeSize":
		return true, c.e.tparam
	case "VarValueInt":
		return true, c.e.ival == "_"
	}
	return true, false
}

func c17GoCmpI(op string, a, b int64) bool {
	switch op {
	case "Eq":
		return a == b
	case "Neq":
		return a != b
	case "Gt":
		return a > b
	case "Lt":
		return a < b
	case "GtEq":
		return a >= b
	}
	return a <= b
}

func c17GoCmpS(op string, a, b string) bool {
	switch op {
	case "Eq":
		return a == b
	case "Neq":
		return a != b
	case "Gt":
		return a > b
	case "Lt":
		return a < b
	case "GtEq":
		return a >= b
	}
	return a <= b
}
