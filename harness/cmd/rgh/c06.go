package main

import (
	"fmt"
	"go/ast"
	"go/parser"
	"go/token"
	"go/types"
	"math/rand"
	"os"
	"path/filepath"
	"regexp"
	"runtime/debug"
	"sort"
	"strings"
	"time"

	"github.com/quasilyte/go-ruleguard/ruleguard"
	"github.com/quasilyte/go-ruleguard/ruleguard/ir"
	"github.com/quasilyte/go-ruleguard/ruleguard/irconv"
	"github.com/quasilyte/go-ruleguard/ruleguard/textmatch"
	"github.com/quasilyte/go-ruleguard/ruleguard/typematch"
	"github.com/quasilyte/gogrep"
	"github.com/quasilyte/gogrep/nodetag"
	"github.com/quasilyte/stdinfo"
	"verifharness/hx"
)

func init() { register("C06", runC06) }

// ---- serialisation of ir values ---------------------------------------------------------------

func c06Val(v interface{}) string {
	switch x := v.(type) {
	case nil:
		return "n"
	case string:
		return "s" + hx.HexS(x)
	case int64:
		return fmt.Sprintf("i%d", x)
	default:
		return "o"
	}
}

func c06FE(sb *strings.Builder, e ir.FilterExpr) {
	fmt.Fprintf(sb, "(%d %d %s", int(e.Op), e.Line, c06Val(e.Value))
	for _, a := range e.Args {
		sb.WriteByte(' ')
		c06FE(sb, a)
	}
	sb.WriteByte(')')
}

func c06File(f *ir.File) string {
	var sb strings.Builder
	sb.WriteString("(file")
	for _, g := range f.RuleGroups {
		fmt.Fprintf(&sb, " (group %s %d", hx.HexS(g.Name), g.Line)
		for _, r := range g.Rules {
			fmt.Fprintf(&sb, " (rule %d (syn", r.Line)
			for _, p := range r.SyntaxPatterns {
				fmt.Fprintf(&sb, " (%d %s)", p.Line, hx.HexS(p.Value))
			}
			sb.WriteString(") (com")
			for _, p := range r.CommentPatterns {
				fmt.Fprintf(&sb, " (%d %s)", p.Line, hx.HexS(p.Value))
			}
			fmt.Fprintf(&sb, ") %s %s ", hx.HexS(r.DoFuncName), hx.HexS(r.LocationVar))
			c06FE(&sb, r.WhereExpr)
			sb.WriteString(")")
		}
		sb.WriteString(")")
	}
	sb.WriteString(")")
	return sb.String()
}

// ---- oracles: answers of the trusted libraries on the strings of one file -----------------------

type c06Oracles struct {
	probeCache map[string]int
}

// probeLeaf asks the real loader about one leaf in isolation: a well-formed single-filter file.
// Returns 0 = accepted, otherwise the class of the error message.
func (o *c06Oracles) probeLeaf(op ir.FilterOp, s string) int {
	key := fmt.Sprintf("%d/%s", op, s)
	if v, ok := o.probeCache[key]; ok {
		return v
	}
	f := &ir.File{PkgPath: "gorules", RuleGroups: []ir.RuleGroup{{Line: 1, Name: "probe", MatcherName: "m", Rules: []ir.Rule{{
		Line: 2, SyntaxPatterns: []ir.PatternString{{Line: 2, Value: "$x"}}, ReportTemplate: "r",
		WhereExpr: ir.FilterExpr{Line: 2, Op: op, Value: "x", Args: []ir.FilterExpr{{Line: 2, Op: ir.FilterStringOp, Value: s}}},
	}}}}}
	// `$x` alone is "too general": use a call pattern instead
	f.RuleGroups[0].Rules[0].SyntaxPatterns[0].Value = "f($x)"
	e := ruleguard.NewEngine()
	err := func() (err error) {
		defer func() {
			if r := recover(); r != nil {
				err = fmt.Errorf("PANIC %v", r)
			}
		}()
		return e.LoadFromIR(&ruleguard.LoadContext{Fset: token.NewFileSet()}, "probe.go", f)
	}()
	v := 0
	switch {
	case err == nil:
		v = 0
	case strings.Contains(err.Error(), "can't convert"), strings.Contains(err.Error(), "can't resolve HasMethod"):
		v = 2
	default:
		v = 1
	}
	o.probeCache[key] = v
	return v
}

// c06Try runs a trusted-library call of the oracle; a panic inside it is the loader's to exhibit (it makes the same
// call), not a reason for the harness to stop: the oracle then answers "not accepted".
func c06Try(f func() bool) (ok bool) {
	defer func() {
		if recover() != nil {
			ok = false
		}
	}()
	return f()
}

func (o *c06Oracles) render(f *ir.File, accepted func(string) bool, funcs []string) string {
	var gg, tm, txm, re, tfs, ntag, iface, fref, gover []string
	seen := map[string]bool{}
	once := func(kind, s string) bool {
		k := kind + "\x00" + s
		if seen[k] {
			return false
		}
		seen[k] = true
		return true
	}
	addGogrep := func(s string) {
		if !once("gg", s) {
			return
		}
		var p *gogrep.Pattern
		var info gogrep.PatternInfo
		var err error
		if !c06Try(func() bool {
			p, info, err = gogrep.Compile(gogrep.CompileConfig{Fset: token.NewFileSet(), Src: s, WithTypes: true})
			return true
		}) {
			err = fmt.Errorf("panic")
		}
		if err != nil {
			gg = append(gg, fmt.Sprintf("(%s -1)", hx.HexS(s)))
			return
		}
		var vars []string
		for v := range info.Vars {
			vars = append(vars, v)
		}
		sort.Strings(vars)
		item := fmt.Sprintf("(%s %d", hx.HexS(s), int(p.NodeTag()))
		for _, v := range vars {
			item += " " + hx.HexS(v)
		}
		gg = append(gg, item+")")
	}
	addRegexp := func(s string) {
		if !once("re", s) {
			return
		}
		r, err := regexp.Compile(s)
		if err != nil {
			return
		}
		item := "(" + hx.HexS(s)
		for _, n := range r.SubexpNames() {
			if n != "" {
				item += " " + hx.HexS(n)
			}
		}
		re = append(re, item+")")
	}
	var walk func(e ir.FilterExpr)
	walk = func(e ir.FilterExpr) {
		if s, ok := e.Value.(string); ok {
			switch e.Op {
			case ir.FilterGoVersionEqOp, ir.FilterGoVersionLessThanOp, ir.FilterGoVersionGreaterThanOp, ir.FilterGoVersionLessEqThanOp, ir.FilterGoVersionGreaterEqThanOp:
				if c06VersionOK(s) && once("gv", s) {
					gover = append(gover, hx.HexS(s))
				}
			case ir.FilterFilePkgPathMatchesOp, ir.FilterFileNameMatchesOp:
				addRegexp(s)
			}
		}
		if len(e.Args) > 0 {
			if s, ok := e.Args[0].Value.(string); ok {
				switch e.Op {
				case ir.FilterVarTextMatchesOp:
					if c06Try(func() bool { _, err := textmatch.Compile(s); return err == nil }) && once("txm", s) {
						txm = append(txm, hx.HexS(s))
					}
				case ir.FilterRootNodeParentIsOp, ir.FilterVarNodeIsOp:
					if c06Try(func() bool { return nodetag.FromString(s) != nodetag.Unknown }) && once("ntag", s) {
						ntag = append(ntag, hx.HexS(s))
					}
				case ir.FilterRootSinkTypeIsOp, ir.FilterVarTypeIsOp, ir.FilterVarTypeUnderlyingIsOp:
					ctx := typematch.Context{Itab: typematch.NewImportsTab(stdinfo.PathByName)}
					if c06Try(func() bool { _, err := typematch.Parse(&ctx, s); return err == nil }) && once("tm", s) {
						tm = append(tm, hx.HexS(s))
					}
				case ir.FilterVarTypeConvertibleToOp, ir.FilterVarTypeAssignableToOp:
					if once("tfs", s) {
						tfs = append(tfs, fmt.Sprintf("(%s %d)", hx.HexS(s), o.probeLeaf(ir.FilterVarTypeConvertibleToOp, s)))
					}
				case ir.FilterVarTypeImplementsOp:
					if o.probeLeaf(ir.FilterVarTypeImplementsOp, s) == 0 && once("iface", s) {
						iface = append(iface, hx.HexS(s))
					}
				case ir.FilterVarTypeHasMethodOp:
					if once("fref", s) {
						fref = append(fref, fmt.Sprintf("(%s %d)", hx.HexS(s), o.probeLeaf(ir.FilterVarTypeHasMethodOp, s)))
					}
				case ir.FilterVarContainsOp:
					addGogrep(s)
				}
			}
		}
		for _, a := range e.Args {
			walk(a)
		}
	}
	var groups []string
	for _, g := range f.RuleGroups {
		if accepted(g.Name) {
			groups = append(groups, hx.HexS(g.Name))
		}
		for _, r := range g.Rules {
			for _, p := range r.SyntaxPatterns {
				addGogrep(p.Value)
			}
			for _, p := range r.CommentPatterns {
				addRegexp(p.Value)
			}
			walk(r.WhereExpr)
		}
	}
	var fs []string
	for _, fn := range funcs {
		fs = append(fs, hx.HexS(fn))
	}
	j := func(name string, xs []string) string { return "(" + name + " " + strings.Join(xs, " ") + ")" }
	return "(oracles " + strings.Join([]string{j("gogrep", gg), j("tm", tm), j("txm", txm), j("re", re), j("tfs", tfs), j("ntag", ntag),
		j("iface", iface), j("fref", fref), j("gover", gover), j("funcs", fs), fmt.Sprintf("(nfuncs %d)", len(funcs)), j("groups", groups)}, " ") + ")"
}

// ---- generator of ir.File values --------------------------------------------------------------

var (
	c06Patterns   = []string{"f($x)", "$x + $y", "$x; $y", "$x, $y", "if $c { $*_ }", "x", "$x", "$*xs", "f(", "func $f() {}; func $g() {}", "return $x", "$x = $y"}
	c06Comments   = []string{`TODO`, `(?P<x>\w+)`, `(?P<who>a)|(?P<y>b)`, `(`, `\d+`}
	c06Vars       = []string{"x", "y", "c", "who", "$$", "zz", "f"}
	c06TypeStrs   = []string{"int", "[]$t", "map[$k]$v", "error", "io.Reader", "func(", "", "*$x", "nosuchpkg.T"}
	c06Regexps    = []string{"^foo", "a.*b", "(", "", "[a-z]+$", "(?i)x"}
	c06Kinds      = []string{"integer", "unsigned", "float", "complex", "untyped", "numeric", "signed", "int", "uint", "bogus", ""}
	c06NodeTags   = []string{"CallExpr", "Ident", "Expr", "Nope", "", "BasicLit"}
	c06ObjKinds   = []string{"Func", "Var", "Const", "TypeName", "Label", "PkgName", "Builtin", "Nil", "Other", ""}
	c06Ifaces     = []string{"error", "io.Reader", "fmt.Stringer", "nosuch.T", "int", "", "io.NoSuch"}
	c06FuncRefs   = []string{"io.Reader.Read", "fmt.Stringer.String", "io.Reader.Nope", "bad", "f()", "", "io.NoSuch.X"}
	c06GoVersions = []string{"1.16", "1.2", "2.0", "1", "abc", "1.x", ""}
	c06Funcs      = []string{"isOK", "missing", "nil", ""}
)

type c06Gen struct {
	r         *rand.Rand
	line      int
	malformed bool
}

func (g *c06Gen) pick(xs []string) string { return xs[g.r.Intn(len(xs))] }

// typeStrs: the fixed type strings plus generated ones (interface types of every element count and kind, at any depth)
func (g *c06Gen) typeStrs() []string {
	xs := append([]string{}, c06TypeStrs...)
	for i := 0; i < 6; i++ {
		xs = append(xs, c06TypeString(g.r, 1+g.r.Intn(3)))
	}
	return xs
}

func (g *c06Gen) strArg(xs []string) ir.FilterExpr {
	// an argument is not always on its call's line (a call that spans lines, a helper's expansion): the loader
	// reports some errors at the argument's line and some at the call's
	line := g.line
	switch g.r.Intn(4) {
	case 0:
		line = g.line + 1
	case 1:
		line = g.line + 100
	}
	if g.malformed && g.r.Intn(4) == 0 {
		switch g.r.Intn(3) {
		case 0:
			return ir.FilterExpr{Line: line, Op: ir.FilterStringOp, Value: int64(3)}
		case 1:
			return ir.FilterExpr{Line: line, Op: ir.FilterIntOp, Value: int64(3)}
		default:
			return ir.FilterExpr{Line: line, Op: ir.FilterVarTextOp, Value: "x"}
		}
	}
	return ir.FilterExpr{Line: line, Op: ir.FilterStringOp, Value: g.pick(xs)}
}

func (g *c06Gen) varValue() interface{} {
	if g.malformed && g.r.Intn(5) == 0 {
		return []interface{}{nil, int64(1), 1.5}[g.r.Intn(3)]
	}
	return g.pick(c06Vars)
}

func (g *c06Gen) operand() ir.FilterExpr {
	switch g.r.Intn(7) {
	case 0:
		return ir.FilterExpr{Line: g.line, Op: ir.FilterStringOp, Value: g.pick([]string{"a", "", "foo"})}
	case 1:
		return ir.FilterExpr{Line: g.line, Op: ir.FilterIntOp, Value: int64(g.r.Intn(100) - 10)}
	case 2:
		return ir.FilterExpr{Line: g.line, Op: ir.FilterVarLineOp, Value: g.varValue()}
	case 3:
		return ir.FilterExpr{Line: g.line, Op: ir.FilterVarTypeSizeOp, Value: g.varValue()}
	case 4:
		return ir.FilterExpr{Line: g.line, Op: ir.FilterVarValueIntOp, Value: g.varValue()}
	case 5:
		return ir.FilterExpr{Line: g.line, Op: ir.FilterVarTextOp, Value: g.varValue()}
	default:
		if g.malformed {
			return ir.FilterExpr{Line: g.line, Op: ir.FilterDeadcodeOp}
		}
		return ir.FilterExpr{Line: g.line, Op: ir.FilterVarTextOp, Value: g.pick(c06Vars)}
	}
}

func (g *c06Gen) fe(depth int) ir.FilterExpr {
	g.line++
	line := g.line
	mk := func(op ir.FilterOp, v interface{}, args ...ir.FilterExpr) ir.FilterExpr {
		if g.malformed && len(args) > 0 && g.r.Intn(8) == 0 {
			args = args[:len(args)-1] // drop an argument
		}
		return ir.FilterExpr{Line: line, Op: op, Value: v, Args: args, Src: "src"}
	}
	if depth > 0 && g.r.Intn(3) == 0 {
		switch g.r.Intn(3) {
		case 0:
			return mk(ir.FilterNotOp, nil, g.fe(depth-1))
		case 1:
			return mk(ir.FilterAndOp, nil, g.fe(depth-1), g.fe(depth-1))
		default:
			return mk(ir.FilterOrOp, nil, g.fe(depth-1), g.fe(depth-1))
		}
	}
	switch g.r.Intn(24) {
	case 0:
		ops := []ir.FilterOp{ir.FilterEqOp, ir.FilterNeqOp, ir.FilterGtOp, ir.FilterLtOp, ir.FilterGtEqOp, ir.FilterLtEqOp}
		return mk(ops[g.r.Intn(len(ops))], nil, g.operand(), g.operand())
	case 1:
		return mk(ir.FilterVarTextMatchesOp, g.varValue(), g.strArg(c06Regexps))
	case 2:
		return mk(ir.FilterVarObjectIsOp, g.varValue(), g.strArg(c06ObjKinds))
	case 3:
		return mk(ir.FilterRootNodeParentIsOp, nil, g.strArg(c06NodeTags))
	case 4:
		return mk(ir.FilterVarNodeIsOp, g.varValue(), g.strArg(c06NodeTags))
	case 5:
		return mk(ir.FilterRootSinkTypeIsOp, nil, g.strArg(g.typeStrs()))
	case 6:
		return mk(ir.FilterVarTypeHasPointersOp, g.varValue())
	case 7:
		return mk([]ir.FilterOp{ir.FilterVarTypeOfKindOp, ir.FilterVarTypeUnderlyingOfKindOp}[g.r.Intn(2)], g.varValue(), g.strArg(c06Kinds))
	case 8:
		return mk(ir.FilterVarTypeIdenticalToOp, g.varValue(), ir.FilterExpr{Line: line, Op: ir.FilterStringOp, Value: g.varValue()})
	case 9:
		return mk([]ir.FilterOp{ir.FilterVarTypeIsOp, ir.FilterVarTypeUnderlyingIsOp}[g.r.Intn(2)], g.varValue(), g.strArg(g.typeStrs()))
	case 10:
		return mk([]ir.FilterOp{ir.FilterVarTypeConvertibleToOp, ir.FilterVarTypeAssignableToOp}[g.r.Intn(2)], g.varValue(), g.strArg(g.typeStrs()))
	case 11:
		return mk(ir.FilterVarTypeImplementsOp, g.varValue(), g.strArg(c06Ifaces))
	case 12:
		return mk(ir.FilterVarTypeHasMethodOp, g.varValue(), g.strArg(c06FuncRefs))
	case 13:
		ops := []ir.FilterOp{ir.FilterVarPureOp, ir.FilterVarConstOp, ir.FilterVarObjectIsGlobalOp, ir.FilterVarObjectIsVariadicParamOp,
			ir.FilterVarConstSliceOp, ir.FilterVarAddressableOp, ir.FilterVarComparableOp}
		return mk(ops[g.r.Intn(len(ops))], g.varValue())
	case 14:
		return mk(ir.FilterFileImportsOp, g.varValue())
	case 15:
		return mk(ir.FilterDeadcodeOp, nil)
	case 16:
		ops := []ir.FilterOp{ir.FilterGoVersionEqOp, ir.FilterGoVersionLessThanOp, ir.FilterGoVersionGreaterThanOp, ir.FilterGoVersionLessEqThanOp, ir.FilterGoVersionGreaterEqThanOp}
		var v interface{} = g.pick(c06GoVersions)
		if g.malformed && g.r.Intn(4) == 0 {
			v = int64(1)
		}
		return mk(ops[g.r.Intn(len(ops))], v)
	case 17:
		var v interface{} = g.pick(c06Regexps)
		if g.malformed && g.r.Intn(4) == 0 {
			v = nil
		}
		return mk([]ir.FilterOp{ir.FilterFilePkgPathMatchesOp, ir.FilterFileNameMatchesOp}[g.r.Intn(2)], v)
	case 18:
		return mk(ir.FilterVarContainsOp, g.varValue(), ir.FilterExpr{Line: line, Op: ir.FilterStringOp, Value: g.pick(c06Patterns)})
	case 19:
		return mk(ir.FilterVarFilterOp, g.varValue(), ir.FilterExpr{Line: line, Op: ir.FilterFilterFuncRefOp, Value: g.pick(c06Funcs)})
	case 20:
		if g.malformed {
			return mk(ir.FilterFilterFuncRefOp, "x") // not a filter on its own
		}
		return mk(ir.FilterVarPureOp, g.pick(c06Vars))
	case 21:
		if g.malformed {
			return mk(ir.FilterOp(77), nil) // out-of-range op
		}
		return mk(ir.FilterVarConstOp, g.pick(c06Vars))
	default:
		return mk(ir.FilterVarTextMatchesOp, g.pick(c06Vars), ir.FilterExpr{Line: line, Op: ir.FilterStringOp, Value: g.pick(c06Regexps)})
	}
}

func (g *c06Gen) file() (*ir.File, []string) {
	f := &ir.File{PkgPath: "gorules"}
	var funcs []string
	if g.r.Intn(2) == 0 {
		f.CustomDecls = []string{"func isOK(ctx *dsl.VarFilterContext) bool { return true }"}
		funcs = []string{"isOK"}
		if g.r.Intn(2) == 0 {
			f.CustomDecls = append(f.CustomDecls, "func doIt(ctx *dsl.DoContext) { ctx.SetReport(\"x\") }")
			funcs = append(funcs, "doIt")
		}
	}
	ng := 1 + g.r.Intn(3)
	for gi := 0; gi < ng; gi++ {
		g.line += 2
		grp := ir.RuleGroup{Line: g.line, Name: fmt.Sprintf("g%d", gi), MatcherName: "m"}
		nr := 1 + g.r.Intn(3)
		for ri := 0; ri < nr; ri++ {
			g.line++
			rule := ir.Rule{Line: g.line, ReportTemplate: "msg $x"}
			if g.r.Intn(5) == 0 {
				nc := 1 + g.r.Intn(2)
				for k := 0; k < nc; k++ {
					g.line++
					rule.CommentPatterns = append(rule.CommentPatterns, ir.PatternString{Line: g.line, Value: g.pick(c06Comments)})
				}
			} else {
				ns := 1 + g.r.Intn(3)
				for k := 0; k < ns; k++ {
					g.line++
					rule.SyntaxPatterns = append(rule.SyntaxPatterns, ir.PatternString{Line: g.line, Value: g.pick(c06Patterns)})
				}
			}
			if g.r.Intn(4) != 0 {
				rule.WhereExpr = g.fe(3)
			}
			if g.r.Intn(5) == 0 {
				rule.LocationVar = g.pick(c06Vars)
			}
			if g.r.Intn(8) == 0 {
				rule.DoFuncName = g.pick([]string{"doIt", "missing", "nil"})
				rule.ReportTemplate = ""
			}
			if g.r.Intn(6) == 0 {
				rule.SuggestTemplate = "$x"
			}
			grp.Rules = append(grp.Rules, rule)
		}
		f.RuleGroups = append(f.RuleGroups, grp)
	}
	return f, funcs
}

var errLineRE = regexp.MustCompile(`^rules\.go:(\d+):`)

// c06Load runs the real LoadFromIR and canonicalises the outcome.
func c06Load(f *ir.File, accepted func(string) bool) (out, frame string) {
	e := ruleguard.NewEngine()
	var err error
	func() {
		defer func() {
			if r := recover(); r != nil {
				out = "panic " + hx.PanicKind(r)
				frame = hx.Frame(debug.Stack())
			}
		}()
		ctx := &ruleguard.LoadContext{Fset: token.NewFileSet(), GroupFilter: func(g *ruleguard.GoRuleGroup) bool { return accepted(g.Name) }}
		err = e.LoadFromIR(ctx, "rules.go", f)
	}()
	if out != "" {
		return
	}
	if err != nil {
		if m := errLineRE.FindStringSubmatch(err.Error()); m != nil {
			return "err " + m[1], ""
		}
		return "err ?: " + err.Error(), ""
	}
	byTag, comment := ruleguard.VerifBuckets(e)
	tags := map[string][]string{}
	for t, rs := range byTag {
		for _, r := range rs {
			tags[r] = append(tags[r], fmt.Sprint(t))
		}
	}
	var items []string
	for r, ts := range tags {
		items = append(items, r+":"+strings.Join(ts, ","))
	}
	for _, r := range comment {
		items = append(items, r+":c")
	}
	sort.Strings(items)
	return "ok " + strings.Join(items, " "), ""
}

func runC06(c *Ctx) error {
	res := c.Res
	nIR, nSrc := 1500, 400
	if c.Thorough {
		nIR, nSrc = 20000, 6000
	}
	res.Rule = fmt.Sprintf("(1) %d generated ir.File values (every filter op, And/Or/Not nesting, comparisons with constants on either side, syntax and comment alternatives, "+
		"At() variables, Do functions, group filters; 1/3 malformed: wrong value kinds, missing args, bad ops): real LoadFromIR outcome class (accepted alternatives with buckets / "+
		"error line / panic kind) == Lean model loadFile with the trusted libraries' answers as oracles; what the implementation accepts must be structurally sound (spec06.unsound); "+
		"(2) IR produced by the real irconv from the fixture rule files and generated DSL must satisfy the well-formedness hypothesis of load_total (spec06.wf); "+
		"(3) front-half search: %d rules sources (fixtures, token-level mutations, arbitrary bytes) through Engine.Load under recover+timeout: error or success, never a panic or hang; "+
		"(4) look-alike stream: generated rules files that are valid Go but not valid DSL (user types whose members are named like the DSL's chain methods and predicates, called with 0/1/2 "+
		"arguments of right and wrong types; bodyless functions and methods, extra parameters/results, methods as groups, local helpers over look-alike values, groups mixing real and look-alike "+
		"chains) through Engine.Load under recover; single look-alike Where clauses: real ConvertFile == Lean Conv.convert, irconv's output inside the well-formedness domain (spec06.wfwhy) "+
		"and LoadFromIR on it does not panic (the executable form of C06.source_filter_load_total); single call statements: real convertRuleExpr == Lean Comp.convertRuleG; "+
		"(4b) group stream: whole generated files (helper definitions of every accepted and refused shape, helper chains, helpers that reach themselves through package-level namesakes or their own parameter "+
		"(converted in a child process: a stack overflow cannot be recovered), Import() order and arguments, doc pragmas, rules with one defect of every kind the walk knows, chains with parenthesised / call / look-alike "+
		"receivers, statements of every other kind, init functions with the real dsl.ImportRules and with look-alikes of any arity) serialised as the abstract syntax of Rg/Model/SrcGroup.lean: real irconv.ConvertFile "+
		"== Lean Grp.convertFileM (outcome class and the whole converted file: rules, lines, Where IR, imports, doc fields, bundle imports); a panic or fatal error of the converter on valid Go is a violation; "+
		"(5) class streams through Engine.Load + the loader model + the soundness oracle: comparisons between two variables (every operator, Line/Text/Type.Size/Value.Int) x Match/MatchComment "+
		"alternatives binding different subsets x At(); group-local helpers over named string constants (package-level, function-local, typed, concatenated) at every string position, nested; "+
		"type strings with interface types of every element count and kind at any depth at every type position (also in the IR stream). "+
		"(6) function stream (child processes: a fatal error is a verdict): rules files around generated custom filter / Do functions — bodies inside the subset the byte code compiler accepts, such bodies with one "+
		"expression or statement of every kind outside it (one file per production: every go/ast statement and expression kind, every builtin, constants of every kind, values of every type class), "+
		"declarations of every shape (parameter / result / local / variadic types, generic functions, methods, names), bodies over the whole grammar, the encoding limits (constants, locals, parameters, "+
		"variadic arguments, 16-bit jumps, nesting), the ways a rule refers to a function, functions over strings / strconv / fmt and other imports — each through Engine.Load twice and, converted by the real irconv, "+
		"through LoadFromIR (twice; in the quick tier twice for every fourth file): success or an error that names rules.go and a line, no panic, no fatal error, the same verdict both times; "+
		"(7) argument stream: Type.Implements / Type.HasMethod argument strings built from parts, rule statements aimed at the converter's index / key / receiver branches, dsl.ImportRules of bundles that load, "+
		"do not convert, do not load, nest or collide (in IR form also bundles that are not there and custom declarations of any text), and the load settings LoadContext.DebugFunc / DebugImports, whose verdict "+
		"must be the verdict without them. "+
		"Non-trivial IR: a where clause with >= 2 nodes; distinct by serialised value", nIR, nSrc)
	if only := os.Getenv("VERIF_C06_ONLY"); only != "" { // debugging aid: one of the child-process streams alone
		return c06LoadStreams(c, only)
	}
	rng := hx.Rng(c.Seed, "c06")
	orc := &c06Oracles{probeCache: map[string]int{}}
	var ops, impl, unsoundOps []string
	var inputs []interface{}
	var okIdx []int
	for i := 0; i < nIR; i++ {
		g := &c06Gen{r: rng, malformed: i%3 == 2}
		f, funcs := g.file()
		rejected := ""
		if rng.Intn(4) == 0 {
			rejected = f.RuleGroups[rng.Intn(len(f.RuleGroups))].Name
		}
		accepted := func(name string) bool { return name != rejected }
		out, frame := c06Load(f, accepted)
		arg := "(" + c06File(f) + " " + orc.render(f, accepted, funcs) + ")"
		strict := "1"
		if os.Getenv("VERIF_C06_ASIS") != "" {
			strict = "0"
		}
		ops = append(ops, "loader.load "+strict+" "+arg)
		impl = append(impl, out)
		in := map[string]interface{}{"ir": c06File(f), "rejected_group": rejected, "malformed_stream": g.malformed, "frame": frame}
		inputs = append(inputs, in)
		size := 0
		for _, grp := range f.RuleGroups {
			for _, r := range grp.Rules {
				size += strings.Count(func() string { var sb strings.Builder; c06FE(&sb, r.WhereExpr); return sb.String() }(), "(")
			}
		}
		res.Count("ir-load", arg, size >= 2)
		cls := strings.Fields(out)[0]
		if g.malformed {
			res.Dist("ir:malformed:" + cls)
		} else {
			res.Dist("ir:wf:" + cls)
		}
		if cls == "ok" {
			okIdx = append(okIdx, i)
			unsoundOps = append(unsoundOps, "spec06.unsound "+arg)
		}
		if cls == "panic" && !g.malformed {
			res.Violate(hx.Violation{Signature: "load:" + out + "@" + frame, What: "LoadFromIR panics on well-formed IR", Input: in, Impl: out, Spec: "error or rule set"})
		}
		if i == 0 {
			res.Sample(map[string]interface{}{"ir": c06File(f), "outcome": out})
		}
	}
	if err := res.Compare(c.Drv, "ir-load", ops, impl, inputs); err != nil {
		return err
	}
	uns, err := c.Drv.Ask(unsoundOps)
	if err != nil {
		return err
	}
	for k, a := range uns {
		if strings.TrimSpace(a) != "ok" {
			i := okIdx[k]
			kind := "syntax"
			if strings.Contains(inputs[i].(map[string]interface{})["ir"].(string), "(com (") {
				kind = "syntax-or-comment"
			}
			res.Violate(hx.Violation{Signature: "load:accepts-unbound-variable", What: "Load accepts a " + kind + " rule whose Where/At variable is not bound by the pattern: " + a,
				Input: inputs[i], Impl: impl[i], Spec: "load error"})
		}
	}
	if err := c06WF(c); err != nil {
		return err
	}
	if err := c06Front(c, nSrc); err != nil {
		return err
	}
	if err := c06Look(c); err != nil {
		return err
	}
	if err := c06Groups(c); err != nil {
		return err
	}
	if err := c06Classes(c); err != nil {
		return err
	}
	return c06LoadStreams(c, "")
}

// c06LoadStreams: the function stream and the argument stream, through one pool of child processes
func c06LoadStreams(c *Ctx, only string) error {
	var fc []*c06fCase
	var ac []*c06aCase
	if only != "args" {
		fc = c06FuncCases(c)
	}
	if only != "fn" {
		ac = c06ArgCases(c)
	}
	var jobs []*c06xJob
	for _, cs := range fc {
		jobs = append(jobs, cs.job)
	}
	for _, cs := range ac {
		jobs = append(jobs, cs.job)
	}
	if !c.Thorough {
		for i, j := range jobs {
			j.IROnce = i%4 != 0
		}
	}
	outs := c06xRun(jobs)
	c06FuncJudge(c, fc, outs[:len(fc)])
	c06ArgsJudge(c, ac, outs[len(fc):])
	return nil
}

// c06Convert runs the real front half (parse, type-check, irconv) on a rules source.
func c06Convert(src []byte) (f *ir.File, err error) {
	defer func() {
		if r := recover(); r != nil {
			err = fmt.Errorf("PANIC %s at %s: %v", hx.PanicKind(r), hx.Frame(debug.Stack()), r)
		}
	}()
	fset := token.NewFileSet()
	af, perr := parser.ParseFile(fset, "rules.go", src, parser.ParseComments)
	if perr != nil {
		return nil, perr
	}
	info := &types.Info{Types: map[ast.Expr]types.TypeAndValue{}, Uses: map[*ast.Ident]types.Object{}, Defs: map[*ast.Ident]types.Object{}}
	cfg := types.Config{Importer: hx.SourceImporter(fset)}
	pkg, terr := cfg.Check("gorules", fset, []*ast.File{af}, info)
	if terr != nil {
		return nil, terr
	}
	return irconv.ConvertFile(&irconv.Context{Pkg: pkg, Types: info, Fset: fset, Src: src}, af)
}

func c06Fixtures() [][]byte {
	var out [][]byte
	root := hx.RepoRoot()
	for _, pat := range []string{root + "/analyzer/testdata/src/*/rules*.go", root + "/analyzer/testdata/src/*/*/rules*.go", root + "/rules/*.go", root + "/_docs/*.go"} {
		files, _ := filepath.Glob(pat)
		sort.Strings(files)
		for _, p := range files {
			if strings.HasSuffix(p, "_test.go") {
				continue
			}
			if b, err := os.ReadFile(p); err == nil && strings.Contains(string(b), "dsl.Matcher") {
				out = append(out, b)
			}
		}
	}
	return out
}

// c06WF: the IR irconv produces satisfies the hypothesis of load_total.
func c06WF(c *Ctx) error {
	res := c.Res
	var ops []string
	var names []string
	for i, src := range c06Fixtures() {
		f, err := c06Convert(src)
		if err != nil {
			continue
		}
		ops = append(ops, "spec06.wf "+c06File(f))
		names = append(names, fmt.Sprintf("fixture#%d", i))
		res.Count("irconv-wf", fmt.Sprint(i), len(f.RuleGroups) > 0)
	}
	ans, err := c.Drv.Ask(ops)
	if err != nil {
		return err
	}
	for i, a := range ans {
		if a != "ok 1" {
			res.Errorf("irconv produced IR outside the well-formedness hypothesis of C06.load_total for %s (%s): the hypothesis no longer describes the code", names[i], a)
		}
	}
	res.Distribution["irconv-wf:files"] = len(ops)
	return nil
}

const c06ProbeTarget = `package p

func f(...interface{}) int { return 0 }
func g(...interface{}) int { return 0 }

func use(x int, s string) {
	f(x)
	f(x + 1)
	g(s, x)
	if x > 0 {
		f(1, 2)
	}
	// TODO(me): a comment
	_ = f(g(x))
}
`

var c06LocatedRE = regexp.MustCompile(`rules\.go:\d+`)

// c06Located: the error names the rules file and a line (parser and type-checker errors carry line:col too).
func c06Located(msg string) bool { return c06LocatedRE.MatchString(msg) }

// c06Front: the un-modelled front half under mutation; a panic or a hang is a violation.
func c06Front(c *Ctx, n int) error {
	res := c.Res
	probeTarget, perr := hx.ParseTarget("c06probe.go", c06ProbeTarget)
	if perr != nil {
		return perr
	}
	rng := hx.Rng(c.Seed, "c06-front")
	fixtures := c06Fixtures()
	if len(fixtures) == 0 {
		return fmt.Errorf("no fixture rule files found")
	}
	seeds := [][]byte{}
	for _, s := range c06FrontSeeds {
		seeds = append(seeds, []byte(hx.RulesFile(s)))
	}
	tokens := []string{"m", ".", "Match", "Where", "Report", "Suggest", "At", "(", ")", `"$x"`, `"`, "$", "[", "]", "{", "}", "!", "&&", "||", "==", "<", "nil", "0", "func", "dsl.Var", "return", "\n", ",", "m[\"x\"]", ".Type", ".Is", ".Text", ".Matches", ".Filter", ".Do", "Import", "MatchComment", "Bundle", "var", ":=", "`"}
	for i := 0; i < n+len(seeds); i++ {
		var src []byte
		kind := ""
		if i < len(seeds) {
			// every hand-written seed first, unmutated
			kind = "seed"
			src = append([]byte{}, seeds[i]...)
		} else {
			switch k := rng.Intn(10); {
			case k == 0:
				kind = "bytes"
				src = make([]byte, rng.Intn(200))
				rng.Read(src)
			case k < 4:
				kind = "seed"
				src = append([]byte{}, seeds[rng.Intn(len(seeds))]...)
			default:
				kind = "mutated"
				if rng.Intn(2) == 0 {
					src = append([]byte{}, seeds[rng.Intn(len(seeds))]...)
				} else {
					src = append([]byte{}, fixtures[rng.Intn(len(fixtures))]...)
					if len(src) > 6000 {
						src = src[:6000+rng.Intn(200)]
					}
				}
				nm := 1 + rng.Intn(3)
				for m := 0; m < nm && len(src) > 10; m++ {
					pos := rng.Intn(len(src))
					tok := tokens[rng.Intn(len(tokens))]
					switch rng.Intn(3) {
					case 0: // insert
						src = append(src[:pos], append([]byte(tok), src[pos:]...)...)
					case 1: // delete a span
						end := pos + rng.Intn(12)
						if end > len(src) {
							end = len(src)
						}
						src = append(src[:pos], src[end:]...)
					default: // replace an identifier-ish span
						end := pos
						for end < len(src) && end-pos < 10 && (src[end] >= 'a' && src[end] <= 'z' || src[end] >= 'A' && src[end] <= 'Z') {
							end++
						}
						src = append(src[:pos], append([]byte(tok), src[end:]...)...)
					}
				}
			}
		}
		done := make(chan string, 1)
		go func() {
			e := ruleguard.NewEngine()
			err := hx.LoadInto(e, "rules.go", string(src), nil)
			switch {
			case err == nil:
				// an accepted rule set must not fail for structural reasons at run time
				if _, pk, frame, rerr := hx.Run(e, probeTarget, hx.RunOpts{}); rerr == nil && pk != "" {
					done <- "RUNPANIC " + pk + " " + frame
					return
				}
				done <- "ok"
			case !strings.HasPrefix(err.Error(), "PANIC") && !c06Located(err.Error()):
				done <- "UNLOCATED " + err.Error()
			case strings.HasPrefix(err.Error(), "PANIC"):
				done <- err.Error()
			default:
				done <- "err"
			}
		}()
		var out string
		select {
		case out = <-done:
		case <-time.After(120 * time.Second):
			out = "HANG"
		}
		res.Count("front", string(src), kind != "bytes")
		switch {
		case out == "ok":
			res.Dist("front:" + kind + ":loaded")
		case out == "err":
			res.Dist("front:" + kind + ":error")
		case strings.HasPrefix(out, "RUNPANIC"):
			res.Dist("front:" + kind + ":RUNPANIC")
			f := strings.Fields(out)
			res.Violate(hx.Violation{Signature: "load:accepted-rule-fails-at-run-time:" + strings.Join(f[1:], " "), What: "Load accepts a rule set that panics when run on a plain file: " + clip(out),
				Input: map[string]interface{}{"rules_src": string(src), "target": c06ProbeTarget}, Impl: clip(out), Spec: "load error, or a rule that runs"})
		case strings.HasPrefix(out, "UNLOCATED"):
			res.Dist("front:" + kind + ":unlocated-error")
			res.Violate(hx.Violation{Signature: "load:error-without-file-and-line", What: "Load returns an error that does not name the file and line: " + clip(out),
				Input: map[string]interface{}{"rules_src": string(src)}, Impl: clip(out), Spec: "rules.go:<line>: ..."})
		default:
			res.Dist("front:" + kind + ":CRASH")
			sig := "load:hang"
			if strings.HasPrefix(out, "PANIC") {
				f := strings.Fields(out)
				sig = "load:panic " + f[1] + "@" + strings.TrimSuffix(f[3], ":")
			}
			res.Violate(hx.Violation{Signature: sig, What: "Engine.Load does not return an error: " + clip(out), Input: map[string]interface{}{"rules_src": string(src)}, Impl: clip(out), Spec: "success or located error"})
		}
	}
	return nil
}

// hand-written sources around the known weak spots of the front half
var c06FrontSeeds = []string{
	`func r(m dsl.Matcher) { m.Match("f($x)").Where(m["x"].Type.Is("int")).Report("$x") }`,
	`func r(dsl.Matcher) {}`,
	`var s = "fmt"
func r(m dsl.Matcher) { m.Import(s); m.Match(s).Report(s) }`,
	`func r(m dsl.Matcher) { m.Match("f($x)").Do(nil) }`,
	`func r(m dsl.Matcher) {
	isT := func(Text dsl.Var) bool { return Text.Text.Matches("1") }
	m.Match("f($x)").Where(isT(m["x"])).Report("x")
}`,
	`func r(m dsl.Matcher) { m.Match("func $f() {}; func $g() {}").Report("two") }`,
	`func r(m dsl.Matcher) { m.Match("_ = $x").At(m["y"]).Report("c") }`,
	`func r(m dsl.Matcher) { m.MatchComment("foo").Where(m["x"].Text.Matches("a")).Report("c") }`,
	`func helper(ctx *dsl.VarFilterContext) bool { return ctx.Type.Size() > 4 }
func r(m dsl.Matcher) { m.Match("f($x)").Where(m["x"].Filter(helper)).Report("x") }`,
	`func r(m dsl.Matcher) { m.Match("$x").Report("general") }`,
	`func r(m dsl.Matcher) { m.Match("f($x)").Where(m["x"].Type.Size == m["x"].Line).Report("x") }`,
	`const pat = "f(" + "$x)"
func r(m dsl.Matcher) { m.Match(pat).Where(m.GoVersion().Eq("1." + "16")).Suggest("g($x)") }`,
	`func r(m dsl.Matcher) { m.Match("f($x)").Where(m.GoVersion().Eq("1")).Report("x") }`,
	`func r(m dsl.Matcher) { m.Match("f($x)").Where(m.GoVersion().LessThan("go1")).Report("x") }`,
	`func r(m dsl.Matcher) { m.Match("f($x)").Where(m.GoVersion().GreaterEqThan("1.2.3")).Report("x") }`,
	`func r1(m dsl.Matcher) {
	h := func(v dsl.Var) bool { return v.Pure }
	m.Match("f($x)").Where(h(m["x"])).Report("x")
}
func r2(m dsl.Matcher) {
	h := func(v dsl.Var, w dsl.Var) bool { return v.Pure && w.Const }
	m.Match("g($x, $y)").Where(h(m["x"], m["y"])).Report("x")
}`,
	`func r(m dsl.Matcher) {
	f := func(dsl.Var) bool { return true }
	m.Match("f($x)").Where(f(m["x"])).Report("x")
}`,
	`func r(m dsl.Matcher) {
	f := func() (b bool) { return }
	m.Match("f($x)").Where(f()).Report("x")
}`,
	`type T struct{}
func (T) Filter() bool { return true }
func r(m dsl.Matcher) {
	var t T
	m.Match("f($x)").Where(t.Filter()).Report("x")
}`,
	`func flt(_ *dsl.VarFilterContext, _ *dsl.VarFilterContext) bool { return true }
func r(m dsl.Matcher) { m.Match("f($x)").Report("x") }`,
	`func r(m dsl.Matcher) { m.Match("f($x)").Where(m["x"].Type.IdenticalTo(m["y"])).Report("x") }`,
	`func r(m dsl.Matcher) { m.Match("f($x)").Where(m["x"].Type.HasMethod("%%")).Report("x") }`,
	`func r(m dsl.Matcher) {
	h := func(v dsl.Var, k string) bool { return v.Type.Is(k) }
	m.Match("f($x)").Where(h(m["x"], "int") || h(m["x"], ("string"))).Report("x")
}`,
	`func r(m dsl.Matcher) { m.Match("f($x)", "g($y)").Where(m["x"].Pure).Report("x") }`,
	`func r(m dsl.Matcher) { m.Match("g($y)", "f($x)").Where(m["x"].Text != "a").At(m["x"]).Report("x") }`,
}

// c06VersionOK asks the real parser whether a version string is well-formed; a panic inside it is the loader's
// problem to exhibit (the front stream feeds the same strings to Load), not a reason for the oracle to stop.
func c06VersionOK(s string) (ok bool) {
	defer func() {
		if recover() != nil {
			ok = false
		}
	}()
	_, err := ruleguard.ParseGoVersion(s)
	return err == nil
}
