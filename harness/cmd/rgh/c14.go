package main

import (
	"fmt"
	"go/types"
	"sort"
	"strings"

	"github.com/quasilyte/go-ruleguard/ruleguard"
	"github.com/quasilyte/go-ruleguard/ruleguard/verifx"
	"verifharness/hx"
)

func init() { register("C14", runC14) }

// c14ModelVariant selects the Lean variant the correspondence compares the code with:
// "0" = internal/xtypes as it stands (typeIdentical_asis), "1" = after fixes/xtypes-identical.diff.
const c14ModelVariant = "1"

type c14Group struct {
	gi     int
	alias  string
	enc    *hx.TyEnc
	s      [2]*c14Session
	probes [2][]c14Probe
	sx     [2][]string // serialised types; "" = not serialisable (cyclic)
	labels map[string]string
	calls  []c14Call
	bases  []c14Base
}

func c14Bool(b bool) string {
	if b {
		return "true"
	}
	return "false"
}

func c14NewGroup(c *Ctx, gi int, nBase int) (*c14Group, error) {
	g := &c14Group{gi: gi, alias: "1"}
	if gi%2 == 1 {
		g.alias = "0"
	}
	rng := hx.Rng(c.Seed, fmt.Sprintf("c14-group-%d", gi))
	e2eVars := 0
	if gi < 2 || c.Thorough {
		e2eVars = 40
	}
	srcs, labels, calls, bases := c14SourcesTx(rng, nBase, e2eVars)
	g.labels = labels
	g.calls = calls
	g.bases = bases
	g.enc = hx.NewTyEnc()
	for k := 0; k < 2; k++ {
		s, err := c14Check(k+1, srcs, "example.com/m/p", g.alias)
		if err != nil {
			return nil, fmt.Errorf("group %d (seed %d): %v\n%s", gi, c.Seed, err, srcs["example.com/m/p"])
		}
		g.s[k] = s
		for _, p := range s.Pkgs {
			g.enc.Universe(k+1, s.Fset, p)
		}
		g.probes[k] = c14Probes(s)
	}
	if len(g.probes[0]) != len(g.probes[1]) {
		return nil, fmt.Errorf("group %d: probe lists differ in length", gi)
	}
	for k := 0; k < 2; k++ {
		g.sx[k] = make([]string, len(g.probes[k]))
		for i, p := range g.probes[k] {
			if g.probes[0][i].Name != g.probes[1][i].Name {
				return nil, fmt.Errorf("group %d: probe %d differs in name", gi, i)
			}
			s, err := g.enc.Enc(p.Type)
			if err == nil {
				g.sx[k][i] = s
			} else if err != hx.ErrCyclic {
				return nil, err
			}
		}
	}
	return g, nil
}

// kindOf classifies a type for the distribution record.
func c14Kind(t types.Type) string {
	switch t := t.(type) {
	case nil:
		return "nil"
	case *types.Named:
		if t.TypeArgs().Len() > 0 {
			return "Named[inst]"
		}
		if t.TypeParams().Len() > 0 {
			return "Named[generic]"
		}
		if t.Obj().Pkg() != nil && t.Obj().Parent() != t.Obj().Pkg().Scope() {
			return "Named[local]"
		}
		return "Named"
	case *types.Signature:
		if t.TypeParams().Len() > 0 {
			return "Signature[generic]"
		}
		if t.Variadic() {
			return "Signature[variadic]"
		}
		return "Signature"
	case *types.Interface:
		if !t.IsMethodSet() {
			return "Interface[typeset]"
		}
		return "Interface"
	}
	return strings.TrimPrefix(fmt.Sprintf("%T", t), "*types.")
}

func runC14(c *Ctx) error {
	res := c.Res
	// cyclic anonymous interfaces first, in a child process: if a comparison does not return there, the in-process suites
	// below (whose universes contain recursive interfaces too) would take this process down with them
	if err := c14Cyclic(c); err != nil {
		return err
	}
	for _, v := range res.Violations {
		if strings.HasSuffix(v.Signature, "does-not-return:cyclic-anonymous-interface") {
			res.Notes = append(res.Notes, "in-process suites skipped: a comparison of cyclic interface types does not return")
			return nil
		}
	}
	groups, nBase := 2, 6
	implBudget := 4000
	if c.Thorough {
		groups, nBase = 40, 10
		implBudget = 12000
	}
	res.Rule = "per group: generated sources (3 packages, 2 of them the same text under different import paths, a vendored copy; " +
		"kernel declarations + random type expressions each with an identical copy, a respelt copy and near misses; array lengths 0, 1, 2, 3, 8 incl. arrays of " +
		"arrays and pointers to arrays, near misses to and from length zero; twin declarations func(A, B) / map[A]B / struct{A; B} / []func(A) B with B a copy or near miss of A) are type-checked " +
		"twice (two universes), under gotypesalias=1 (even groups) and =0 (odd groups); every ordered pair of probe types of the union " +
		"of both universes goes through verifx.Identical (model op xidmat), go/types.Identical in universe 1 is the oracle (same-universe " +
		"pairs directly, cross-universe pairs through the counterpart), the Lean spec (specmat14) is validated against that oracle inside " +
		"its fragment; refl/symm/trans are evaluated by laws14 on the implementation's matrix; Implements: every (type, interface) pair, " +
		"LookupFieldOrMethod answers as oracle inputs (ximpl), go/types.Implements as the oracle. " +
		"A case is non-trivial when the two types are not the same pointer and have the same top-level constructor; distinct by (group, i, j, block)"
	for gi := 0; gi < groups; gi++ {
		g, err := c14NewGroup(c, gi, nBase)
		if err != nil {
			return err
		}
		if err := c14Identical(c, g); err != nil {
			return err
		}
		if err := c14Implements(c, g, implBudget); err != nil {
			return err
		}
		if len(g.calls) > 0 {
			if err := c14E2E(c, g); err != nil {
				return err
			}
		}
	}
	return c14Synthetic(c)
}

// c14Identical: the four blocks (U1×U1, U1×U2, U2×U1, U2×U2) of the Identical matrix.
func c14Identical(c *Ctx, g *c14Group) error {
	res := c.Res
	n := len(g.probes[0])
	// usable probes (serialisable in both universes)
	var idx []int
	for i := 0; i < n; i++ {
		if g.sx[0][i] != "" && g.sx[1][i] != "" {
			idx = append(idx, i)
		} else {
			res.Dist("skipped:cyclic")
		}
	}
	// types that cannot be serialised (infinite trees) are still compared with the oracle
	for i := 0; i < n; i++ {
		if g.sx[0][i] != "" && g.sx[1][i] != "" {
			continue
		}
		for j := 0; j < n; j++ {
			for k := 0; k < 2; k++ {
				x, y := g.probes[0][i].Type, g.probes[k][j].Type
				out := hx.Safe(func() string { return c14Bool(verifx.Identical(x, y)) })
				want := c14Bool(types.Identical(g.probes[0][i].Type, g.probes[0][j].Type))
				res.Count("identical:cyclic-oracle-only", fmt.Sprintf("%d/%d/%d/%d", g.gi, i, j, k), g.sx[0][j] == "")
				if out != want {
					res.Violate(hx.Violation{Signature: "Identical:cyclic-interface:" + out, What: "xtypes.Identical differs from go/types.Identical on a cyclic anonymous interface",
						Input: map[string]interface{}{"group": g.gi, "x": g.probes[0][i].Name, "y": g.probes[k][j].Name, "cross": k == 1,
							"x_type": types.TypeString(x, nil), "y_type": types.TypeString(y, nil)}, Impl: out, Spec: "go/types.Identical = " + want})
				}
			}
		}
	}
	m := len(idx)
	list := func(k int) string {
		parts := make([]string, m)
		for a, i := range idx {
			parts[a] = g.sx[k][i]
		}
		return "(" + strings.Join(parts, " ") + ")"
	}
	lists := [2]string{list(0), list(1)}
	// implementation: full 2m × 2m matrix
	N := 2 * m
	typ := func(a int) types.Type { return g.probes[a/m][idx[a%m]].Type }
	impl := make([]byte, N*N)
	for a := 0; a < N; a++ {
		for b := 0; b < N; b++ {
			x, y := typ(a), typ(b)
			out := hx.Safe(func() string {
				if verifx.Identical(x, y) {
					return "1"
				}
				return "0"
			})
			if len(out) != 1 {
				impl[a*N+b] = 'p'
				res.Dist("identical:" + out)
			} else {
				impl[a*N+b] = out[0]
			}
		}
	}
	// oracle: go/types in universe 1 (and, as a sanity check of the harness, in universe 2)
	oracle := make([]byte, m*m)
	for a := 0; a < m; a++ {
		for b := 0; b < m; b++ {
			o1 := types.Identical(g.probes[0][idx[a]].Type, g.probes[0][idx[b]].Type)
			o2 := types.Identical(g.probes[1][idx[a]].Type, g.probes[1][idx[b]].Type)
			if o1 != o2 {
				res.Errorf("group %d: go/types.Identical differs between the two universes on (%s, %s)", g.gi,
					g.probes[0][idx[a]].Name, g.probes[0][idx[b]].Name)
			}
			oracle[a*m+b] = '0'
			if o1 {
				oracle[a*m+b] = '1'
			}
		}
	}
	// model + spec, per block
	var ops []string
	for ka := 0; ka < 2; ka++ {
		for kb := 0; kb < 2; kb++ {
			mode := "same"
			if ka != kb {
				mode = "cross"
			}
			ops = append(ops, fmt.Sprintf("xidmat %s %s %s", c14ModelVariant, lists[ka], lists[kb]))
			ops = append(ops, fmt.Sprintf("specmat14 %s %s %s", mode, lists[ka], lists[kb]))
		}
	}
	ops = append(ops, fmt.Sprintf("laws14 %d %s", N, string(impl)))
	ans, err := c.Drv.Ask(ops)
	if err != nil {
		return err
	}
	type viol struct {
		mode, x, y, impl, want string
		in                    map[string]interface{}
	}
	var viols []viol
	for ka := 0; ka < 2; ka++ {
		for kb := 0; kb < 2; kb++ {
			mode := "same"
			if ka != kb {
				mode = "cross"
			}
			model := ans[(ka*2+kb)*2]
			spec := ans[(ka*2+kb)*2+1]
			if len(model) != m*m || len(spec) != m*m {
				return fmt.Errorf("driver: matrix answers of wrong size (%d, %d for %d): %.80s", len(model), len(spec), m*m, model)
			}
			suite := "identical:" + mode
			for a := 0; a < m; a++ {
				for b := 0; b < m; b++ {
					i, j := idx[a], idx[b]
					pa, pb := g.probes[ka][i], g.probes[kb][j]
					ic := impl[(ka*m+a)*N+kb*m+b]
					oc := oracle[a*m+b]
					in := map[string]interface{}{"group": g.gi, "gotypesalias": g.alias, "mode": mode,
						"x": pa.Name, "y": pb.Name, "x_type": types.TypeString(pa.Type, nil), "y_type": types.TypeString(pb.Type, nil),
						"x_label": g.labels[pa.Name], "y_label": g.labels[pb.Name]}
					samePtr := ka == kb && pa.Type == pb.Type
					nontrivial := !samePtr && c14Kind(pa.Type) == c14Kind(pb.Type)
					res.Count(suite, fmt.Sprintf("%d/%d/%d/%d%d", g.gi, i, j, ka, kb), nontrivial)
					res.Dist("id:" + c14Kind(pa.Type))
					if oc == '1' {
						res.Dist("id:oracle-identical:" + mode)
					} else {
						res.Dist("id:oracle-different:" + mode)
					}
					if l := g.labels[pb.Name]; l != "" && g.labels[pa.Name] != "" {
						res.Dist("id:variant:" + l)
					}
					if model[a*m+b] != ic {
						res.Disagree(hx.Disagreement{Suite: suite,
							Op:    fmt.Sprintf("xid %s %s %s", c14ModelVariant, g.sx[ka][i], g.sx[kb][j]),
							Impl:  c14Bool(ic == '1'), Model: c14Bool(model[a*m+b] == '1'), Input: in})
					}
					if spec[a*m+b] == 'n' {
						res.Dist("id:spec-na")
					} else if spec[a*m+b] != oc {
						res.Disagree(hx.Disagreement{Suite: "spec-vs-gotypes:" + mode,
							Op:    fmt.Sprintf("spec14 %s %s %s %s", mode, g.sx[ka][i], g.sx[kb][j], c14Bool(oc == '1')),
							Impl:  "go/types: " + c14Bool(oc == '1'), Model: "lean spec: " + c14Bool(spec[a*m+b] == '1'), Input: in})
					}
					if ic != oc {
						viols = append(viols, viol{mode, g.sx[ka][i], g.sx[kb][j], c14Bool(ic == '1'), c14Bool(oc == '1'), in})
					}
				}
			}
		}
	}
	if len(res.Samples) < 3 && m > 3 {
		res.Sample(map[string]interface{}{"op": fmt.Sprintf("xid %s %s %s", c14ModelVariant, g.sx[0][idx[m/2]], g.sx[1][idx[m/3]]),
			"x": g.probes[0][idx[m/2]].Name, "y": g.probes[1][idx[m/3]].Name})
	}
	// signatures of the violations: where model and spec part
	if len(viols) > 0 {
		// smallest witness first (one witness is kept per signature)
		sort.SliceStable(viols, func(a, b int) bool { return len(viols[a].x)+len(viols[a].y) < len(viols[b].x)+len(viols[b].y) })
		bops := make([]string, len(viols))
		for k, v := range viols {
			bops[k] = fmt.Sprintf("blame14 %s %s %s %s", v.mode, c14ModelVariant, v.x, v.y)
		}
		labels, err := c.Drv.Ask(bops)
		if err != nil {
			return err
		}
		for k, v := range viols {
			dir := "accepts"
			if v.impl == "false" {
				dir = "rejects"
			}
			if v.impl == "panic" {
				dir = "panics"
			}
			res.Dist("id:violation:" + labels[k])
			res.Violate(hx.Violation{Signature: "Identical:" + dir + ":" + labels[k],
				What:  "xtypes.Identical differs from go/types.Identical (" + v.mode + " universe)",
				Input: v.in, Impl: v.impl,
				Spec: fmt.Sprintf("spec14 %s %s %s %s  (go/types: %s)", v.mode, v.x, v.y, v.impl, v.want)})
		}
	}
	// equivalence laws on the implementation's own matrix
	law := ans[len(ans)-1]
	res.Count("identical:laws", fmt.Sprintf("%d", g.gi), true)
	if law != "holds" {
		f := strings.Fields(law)
		in := map[string]interface{}{"group": g.gi, "gotypesalias": g.alias, "law": law}
		name := func(s string) string {
			var a int
			fmt.Sscan(s, &a)
			p := g.probes[a/m][idx[a%m]]
			return fmt.Sprintf("U%d:%s:%s", a/m+1, p.Name, types.TypeString(p.Type, nil))
		}
		for k, s := range f[2:] {
			in[fmt.Sprintf("t%d", k)] = name(s)
		}
		if len(f) >= 2 {
			res.Violate(hx.Violation{Signature: "Identical:law:" + f[1], What: "xtypes.Identical is not an equivalence relation",
				Input: in, Impl: law, Spec: fmt.Sprintf("laws14 %d <matrix>", N)})
		}
	}
	return nil
}

// c14Implements: every (type, interface) pair, same universe and across.
func c14Implements(c *Ctx, g *c14Group, budget int) error {
	res := c.Res
	rng := hx.Rng(c.Seed, fmt.Sprintf("c14-impl-%d", g.gi))
	n := len(g.probes[0])
	var vs, is []int
	for i := 0; i < n; i++ {
		t := g.probes[0][i].Type
		if g.sx[0][i] == "" || g.sx[1][i] == "" || t == nil {
			continue
		}
		switch tt := t.(type) {
		case *types.Tuple, *types.Union:
			continue
		case *types.Named:
			if tt.TypeParams().Len() > 0 && tt.TypeArgs().Len() == 0 {
				continue // behaviour of go/types.Implements unspecified for uninstantiated generic types
			}
		}
		vs = append(vs, i)
		if _, ok := t.Underlying().(*types.Interface); ok {
			is = append(is, i)
		}
	}
	type cas struct {
		kv, ki, v, i int
	}
	var cases []cas
	for _, i := range is {
		for _, v := range vs {
			cases = append(cases, cas{0, 0, v, i}, cas{0, 1, v, i}, cas{1, 0, v, i})
		}
	}
	if len(cases) > budget {
		rng.Shuffle(len(cases), func(a, b int) { cases[a], cases[b] = cases[b], cases[a] })
		cases = cases[:budget]
	}
	var ops, impl, specOps []string
	var inputs []interface{}
	var oracles []bool
	for _, cs := range cases {
		v := g.probes[cs.kv][cs.v].Type
		it := g.probes[cs.ki][cs.i].Type.Underlying().(*types.Interface)
		mode := "same"
		if cs.kv != cs.ki {
			mode = "cross"
		}
		// oracle inputs, obtained exactly as the code obtains them
		_, vIsIface := v.Underlying().(*types.Interface)
		var sb strings.Builder
		ok := true
		for k := 0; k < it.NumMethods(); k++ {
			m := it.Method(k)
			obj, _, _ := types.LookupFieldOrMethod(v, false, m.Pkg(), m.Name())
			found, ot := "none", "nil"
			if obj != nil {
				found = "field"
				if _, isF := obj.(*types.Func); isF {
					found = "func"
				}
				s, err := g.enc.Enc(obj.Type())
				if err != nil {
					ok = false
					break
				}
				ot = s
			}
			mt, err := g.enc.Enc(m.Type())
			if err != nil {
				ok = false
				break
			}
			if k > 0 {
				sb.WriteByte(' ')
			}
			fmt.Fprintf(&sb, "(%s %s %s)", found, ot, mt)
		}
		if !ok {
			res.Dist("skipped:cyclic")
			continue
		}
		out := hx.Safe(func() string { return c14Bool(verifx.Implements(v, it)) })
		want := types.Implements(g.probes[0][cs.v].Type, g.probes[0][cs.i].Type.Underlying().(*types.Interface))
		empty := "0"
		if it.Empty() {
			empty = "1"
		}
		vi := "0"
		if vIsIface {
			vi = "1"
		}
		ops = append(ops, fmt.Sprintf("ximpl %s %s %s (%s)", c14ModelVariant, empty, vi, sb.String()))
		impl = append(impl, out)
		msFlag := "0"
		if it.IsMethodSet() {
			msFlag = "1"
		}
		specOps = append(specOps, fmt.Sprintf("specimpl14 %s %s %s (%s) %s", mode, empty, msFlag, sb.String(), out))
		oracles = append(oracles, want)
		inputs = append(inputs, map[string]interface{}{"group": g.gi, "gotypesalias": g.alias, "mode": mode,
			"v": g.probes[0][cs.v].Name, "iface": g.probes[0][cs.i].Name,
			"v_type": types.TypeString(v, nil), "iface_type": types.TypeString(it, nil)})
		res.Count("implements:"+mode, fmt.Sprintf("%d/%d/%d/%d%d", g.gi, cs.v, cs.i, cs.kv, cs.ki), it.NumMethods() > 0)
		switch {
		case it.Empty():
			res.Dist("impl:iface-empty")
		case !it.IsMethodSet():
			res.Dist("impl:iface-typeset")
		case vIsIface:
			res.Dist("impl:v-interface")
		default:
			res.Dist("impl:v-concrete")
		}
		if want {
			res.Dist("impl:oracle-true:" + mode)
		} else {
			res.Dist("impl:oracle-false:" + mode)
		}
	}
	if err := res.Compare(c.Drv, "implements", ops, impl, inputs); err != nil {
		return err
	}
	sans, err := c.Drv.Ask(specOps)
	if err != nil {
		return err
	}
	order := make([]int, len(ops))
	for k := range order {
		order[k] = k
	}
	wsize := func(k int) int {
		return len(specOps[k]) + len(inputs[k].(map[string]interface{})["v_type"].(string))
	}
	sort.SliceStable(order, func(a, b int) bool { return wsize(order[a]) < wsize(order[b]) })
	for _, k := range order {
		in := inputs[k].(map[string]interface{})
		want := c14Bool(oracles[k])
		// the Lean statement must agree with go/types inside its fragment
		if sans[k] != "na" {
			leanSaysOK := sans[k] == "holds"
			if leanSaysOK != (impl[k] == want) {
				res.Disagree(hx.Disagreement{Suite: "spec-vs-gotypes:implements", Op: specOps[k],
					Impl: "go/types: " + want, Model: "lean spec: " + sans[k], Input: in})
			}
		} else {
			res.Dist("impl:spec-na")
		}
		if impl[k] != want {
			dir := "accepts"
			if impl[k] == "false" {
				dir = "rejects"
			}
			if strings.HasPrefix(impl[k], "panic") {
				dir = "panics"
			}
			cause := "method-type-identity"
			if sans[k] == "na" {
				cause = "constraint-interface"
			} else if in["mode"] == "cross" && impl[k] == "false" && strings.Contains(specOps[k], "(tparam ") {
				// a method signature mentions a type parameter: across two type-checks it is the open finding
				// Identical:rejects:tparam:cross-universe (pointer comparison only) seen through Implements
				cause = "tparam:cross-universe"
			}
			res.Violate(hx.Violation{Signature: "Implements:" + dir + ":" + cause,
				What:  "xtypes.Implements differs from go/types.Implements (" + in["mode"].(string) + " universe)",
				Input: in, Impl: impl[k], Spec: specOps[k] + "  (go/types: " + want + ")"})
		}
	}
	return nil
}

const c14Rules = `
func r(m dsl.Matcher) {
	m.Match("same($x, $y)").Where(m["x"].Type.IdenticalTo(m["y"])).Report("identical")
	m.Match("implS($x)").Where(m["x"].Type.Implements("fmt.Stringer")).Report("stringer")
	m.Match("implE($x)").Where(m["x"].Type.Implements("error")).Report("error")
}`

var c14Engine *ruleguard.Engine

// c14E2E observes Identical / Implements through the public API: the IdenticalTo and Implements filters of
// a loaded rule set, run over the main file of the group (universe 1).  The interface of the Implements
// filter comes from the engine's own importer, i.e. from another universe than the file's types.
func c14E2E(c *Ctx, g *c14Group) error {
	res := c.Res
	if c14Engine == nil {
		e, err := hx.LoadRules(hx.RulesFile(c14Rules))
		if err != nil {
			return fmt.Errorf("load: %v", err)
		}
		c14Engine = e
	}
	s := g.s[0]
	t := &hx.Target{Fset: s.Fset, File: s.Files["example.com/m/p"], Info: s.Info, Pkg: s.Main, Name: "example.com/m/p/file.go"}
	reports, pk, frame, err := hx.Run(c14Engine, t, hx.RunOpts{})
	if err != nil {
		return err
	}
	if pk != "" {
		res.Violate(hx.Violation{Signature: "Engine.Run:" + pk + ":" + frame, What: "Run panicked on the end-to-end file",
			Input: map[string]interface{}{"group": g.gi}, Impl: pk, Spec: "no panic"})
		return nil
	}
	reported := map[int]bool{}
	for _, r := range reports {
		reported[r.Line] = true
	}
	scope := s.Main.Scope()
	typeOf := func(name string) types.Type { return scope.Lookup(name).Type() }
	stringer := types.NewInterfaceType([]*types.Func{types.NewFunc(0, nil, "String",
		types.NewSignatureType(nil, nil, nil, nil, types.NewTuple(types.NewVar(0, nil, "", types.Typ[types.String])), false))}, nil)
	stringer.Complete()
	errIface := types.Universe.Lookup("error").Type().Underlying().(*types.Interface)
	var ops, impl []string
	var inputs []interface{}
	for _, cl := range g.calls {
		got := c14Bool(reported[cl.Line])
		ta := typeOf(cl.A)
		in := map[string]interface{}{"group": g.gi, "gotypesalias": g.alias, "call": cl.Kind, "x": cl.A, "x_type": types.TypeString(ta, nil)}
		switch cl.Kind {
		case "same":
			tb := typeOf(cl.B)
			in["y"], in["y_type"] = cl.B, types.TypeString(tb, nil)
			sa, e1 := g.enc.Enc(ta)
			sb, e2 := g.enc.Enc(tb)
			if e1 != nil || e2 != nil {
				continue
			}
			ops = append(ops, fmt.Sprintf("xid %s %s %s", c14ModelVariant, sa, sb))
			impl = append(impl, got)
			inputs = append(inputs, in)
			res.Count("e2e:IdenticalTo", fmt.Sprintf("%d/%s/%s", g.gi, cl.A, cl.B), ta != tb && c14Kind(ta) == c14Kind(tb))
			res.Dist("e2e:IdenticalTo")
			if want := c14Bool(types.Identical(ta, tb)); got != want {
				label, err := c.Drv.Ask([]string{fmt.Sprintf("blame14 same %s %s %s", c14ModelVariant, sa, sb)})
				if err != nil {
					return err
				}
				res.Violate(hx.Violation{Signature: "IdenticalTo-filter:" + map[string]string{"true": "accepts", "false": "rejects"}[got] + ":" + label[0],
					What:  "Where(m[\"x\"].Type.IdenticalTo(m[\"y\"])) differs from go/types.Identical",
					Input: in, Impl: got, Spec: fmt.Sprintf("spec14 same %s %s %s  (go/types: %s)", sa, sb, got, want)})
			}
		default:
			it := stringer
			if cl.Kind == "implE" {
				it = errIface
			}
			want := c14Bool(types.Implements(ta, it))
			res.Count("e2e:Implements", fmt.Sprintf("%d/%s/%s", g.gi, cl.Kind, cl.A), true)
			res.Dist("e2e:Implements")
			if got != want {
				res.Violate(hx.Violation{Signature: "Implements-filter:" + map[string]string{"true": "accepts", "false": "rejects"}[got],
					What:  "Where(m[\"x\"].Type.Implements(...)) differs from go/types.Implements",
					Input: in, Impl: got, Spec: "go/types.Implements = " + want})
			}
		}
	}
	return res.Compare(c.Drv, "e2e:IdenticalTo", ops, impl, inputs)
}

// c14Synthetic: the edge stream — types built with the go/types constructors that no type-checked
// program produces: objects without a package (unexported fields, methods and type names "introduced via
// Eval"), arrays of unknown length, the invalid and the untyped basic types, nil and empty tuples.
func c14Synthetic(c *Ctx) error {
	res := c.Res
	pa := types.NewPackage("syn/a", "a")
	pb := types.NewPackage("syn/b", "b")
	enc := hx.NewTyEnc()
	enc.Universe(1, nil, pa, pb)
	pkgs := []*types.Package{nil, pa, pb}
	tInt, tStr := types.Typ[types.Int], types.Typ[types.String]
	var ts []types.Type
	var names []string
	add := func(n string, t types.Type) { ts = append(ts, t); names = append(names, n) }
	add("nil", nil)
	add("invalid", types.Typ[types.Invalid])
	add("untyped-int", types.Typ[types.UntypedInt])
	add("untyped-nil", types.Typ[types.UntypedNil])
	add("int", tInt)
	add("byte", types.Universe.Lookup("byte").Type())
	add("uint8", types.Typ[types.Uint8])
	// array lengths: unknown (negative), zero (a known length) and positive; nested and behind pointers
	for _, n := range []int64{-1, -2, 0, 1, 3, 4} {
		add(fmt.Sprintf("[%d]int", n), types.NewArray(tInt, n))
		add(fmt.Sprintf("*[%d]int", n), types.NewPointer(types.NewArray(tInt, n)))
	}
	for _, n := range []int64{-1, 0, 3} {
		add(fmt.Sprintf("[%d]string", n), types.NewArray(tStr, n))
		for _, m := range []int64{-1, 0, 3} {
			add(fmt.Sprintf("[%d][%d]int", n, m), types.NewArray(types.NewArray(tInt, m), n))
		}
	}
	add("tuple()", types.NewTuple())
	add("tuple(int)", types.NewTuple(types.NewVar(0, nil, "", tInt)))
	add("tuple(int,string)", types.NewTuple(types.NewVar(0, pa, "a", tInt), types.NewVar(0, pa, "b", tStr)))
	for i, pk := range pkgs {
		for _, fn := range []string{"x", "X"} {
			add(fmt.Sprintf("struct{%s int}@%d", fn, i), types.NewStruct([]*types.Var{types.NewField(0, pk, fn, tInt, false)}, nil))
			sig := types.NewSignatureType(nil, nil, nil, nil, nil, false)
			it := types.NewInterfaceType([]*types.Func{types.NewFunc(0, pk, fn, sig)}, nil)
			it.Complete()
			add(fmt.Sprintf("interface{%s()}@%d", fn, i), it)
		}
		for _, tn := range []string{"t", "T"} {
			obj := types.NewTypeName(0, pk, tn, nil)
			if pk != nil {
				pk.Scope().Insert(obj)
			}
			add(fmt.Sprintf("named %s@%d", tn, i), types.NewNamed(obj, tInt, nil))
		}
		add(fmt.Sprintf("struct{x int; T}@%d", i), types.NewStruct([]*types.Var{types.NewField(0, pk, "x", tInt, false),
			types.NewField(0, pk, "T", tStr, true)}, []string{"", "tag"}))
	}
	var sx []string
	for _, t := range ts {
		sx = append(sx, enc.MustEnc(t))
	}
	list := "(" + strings.Join(sx, " ") + ")"
	n := len(ts)
	impl := make([]byte, n*n)
	for a := 0; a < n; a++ {
		for b := 0; b < n; b++ {
			x, y := ts[a], ts[b]
			out := hx.Safe(func() string {
				if verifx.Identical(x, y) {
					return "1"
				}
				return "0"
			})
			impl[a*n+b] = out[0]
		}
	}
	ans, err := c.Drv.Ask([]string{fmt.Sprintf("xidmat %s %s %s", c14ModelVariant, list, list),
		fmt.Sprintf("specmat14 same %s %s", list, list)})
	if err != nil {
		return err
	}
	if len(ans[0]) != n*n || len(ans[1]) != n*n {
		return fmt.Errorf("driver: synthetic matrix of wrong size")
	}
	for a := 0; a < n; a++ {
		for b := 0; b < n; b++ {
			in := map[string]interface{}{"x": names[a], "y": names[b]}
			res.Count("identical:synthetic", fmt.Sprintf("%d/%d", a, b), a != b)
			res.Dist("syn:" + c14Kind(ts[a]))
			if ans[0][a*n+b] != impl[a*n+b] {
				res.Disagree(hx.Disagreement{Suite: "identical:synthetic", Op: fmt.Sprintf("xid %s %s %s", c14ModelVariant, sx[a], sx[b]),
					Impl: string(impl[a*n+b]), Model: string(ans[0][a*n+b]), Input: in})
			}
			want := byte('0')
			if types.Identical(ts[a], ts[b]) {
				want = '1'
			}
			if ans[1][a*n+b] != 'n' && ans[1][a*n+b] != want {
				res.Disagree(hx.Disagreement{Suite: "spec-vs-gotypes:synthetic", Op: fmt.Sprintf("spec14 same %s %s %s", sx[a], sx[b], c14Bool(want == '1')),
					Impl: "go/types: " + string(want), Model: "lean spec: " + string(ans[1][a*n+b]), Input: in})
			}
			if impl[a*n+b] != want {
				res.Dist("syn:differs-from-gotypes")
				label, err := c.Drv.Ask([]string{fmt.Sprintf("blame14 same %s %s %s", c14ModelVariant, sx[a], sx[b])})
				if err != nil {
					return err
				}
				dir := "accepts"
				if impl[a*n+b] == '0' {
					dir = "rejects"
				}
				res.Violate(hx.Violation{Signature: "Identical:" + dir + ":" + label[0], What: "xtypes.Identical differs from go/types.Identical (synthetic types)",
					Input: in, Impl: string(impl[a*n+b]), Spec: fmt.Sprintf("spec14 same %s %s  (go/types: %s)", sx[a], sx[b], string(want))})
			}
		}
	}
	return nil
}
