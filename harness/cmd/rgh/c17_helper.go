package main

// C17 — the "helper" route (strengthening round): the DSL text of a Where() tree with its comparisons
// (and, now and then, whole conditions and opaque predicates) moved into local helper functions of the
// rule group — the literal in the helper's body, passed as an argument, under a closure over the matcher,
// behind a nested helper — loaded end to end through Engine.Load.  A helper-using group may be rejected
// by irconv (C18 allows that); when it loads, its verdicts go through the same judges as every other
// route: the Lean model (`c17`), the Lean statement (`spec17`), and — in c17HelperLaws — the Go operator
// on the facts go/types gives, and equality with the verdicts of the comparison written inline.

import (
	"fmt"
	"hash/fnv"
	"math/rand"
	"strings"
	"unicode/utf8"

	"verifharness/hx"
)

type c17HB struct {
	rng  *rand.Rand
	defs []string
}

func (hb *c17HB) def(sig, body string) string {
	name := fmt.Sprintf("h%d", len(hb.defs))
	hb.defs = append(hb.defs, fmt.Sprintf("%s := func(%s) bool { return %s }", name, sig, body))
	return name
}

var c17ValSuffix = map[string]string{"VarLine": ".Line", "VarTypeSize": ".Type.Size", "VarValueInt": ".Value.Int()", "VarText": ".Text"}

// dslH: like dsl, with helpers.  top is false below a helper body (no helper inside a helper's own text other
// than calls of helpers defined before).
func (e *fx) dslH(pat int, hb *c17HB) (string, bool) {
	plain, ok := e.dsl(pat)
	if !ok {
		return "", false
	}
	closure := func(body string) string { return hb.def("", body) + "()" }
	switch e.Op {
	case "Atom":
		if hb.rng.Intn(4) == 0 {
			return closure(plain), true
		}
		return plain, true
	case "Not":
		s, _ := e.Args[0].dslH(pat, hb)
		out := "!(" + s + ")"
		if hb.rng.Intn(6) == 0 {
			return closure(out), true
		}
		return out, true
	case "And", "Or":
		a, _ := e.Args[0].dslH(pat, hb)
		b, _ := e.Args[1].dslH(pat, hb)
		tok := " && "
		if e.Op == "Or" {
			tok = " || "
		}
		out := "(" + a + tok + b + ")"
		if hb.rng.Intn(6) == 0 {
			return closure(out), true
		}
		return out, true
	}
	if !isCmp(e.Op) {
		return plain, true
	}
	l, r := e.Args[0], e.Args[1]
	tok := c17CmpTok[e.Op]
	isVal := func(x *fx) bool { return x.Op != "Int" && x.Op != "String" }
	ty := "int"
	if l.valKind() == "string" {
		ty = "dsl.MatchedText" // the type of Var.Text
	}
	mvar := func(x *fx) string { return `m["` + x.V.(string) + `"]` }
	switch {
	case isVal(l) && isVal(r):
		switch hb.rng.Intn(3) {
		case 0:
			h := hb.def("a dsl.Var, b dsl.Var", "a"+c17ValSuffix[l.Op]+" "+tok+" b"+c17ValSuffix[r.Op])
			return h + "(" + mvar(l) + ", " + mvar(r) + ")", true
		case 1:
			h := hb.def("b dsl.Var, a dsl.Var", "a"+c17ValSuffix[l.Op]+" "+tok+" b"+c17ValSuffix[r.Op])
			return h + "(" + mvar(r) + ", " + mvar(l) + ")", true
		}
		return closure(plain), true
	case !isVal(l) && !isVal(r):
		return closure(plain), true
	}
	// one value, one literal
	val, lit, litLeft := l, r, false
	if !isVal(l) {
		val, lit, litLeft = r, l, true
	}
	lits, _ := lit.dsl(pat)
	cmpText := func(v, k string) string {
		if litLeft {
			return k + " " + tok + " " + v + c17ValSuffix[val.Op]
		}
		return v + c17ValSuffix[val.Op] + " " + tok + " " + k
	}
	switch hb.rng.Intn(6) {
	case 0, 1: // the literal in the helper's body
		h := hb.def("v dsl.Var", cmpText("v", lits))
		return h + "(" + mvar(val) + ")", true
	case 2: // the literal as an argument
		h := hb.def("v dsl.Var, k "+ty, cmpText("v", "k"))
		return h + "(" + mvar(val) + ", " + lits + ")", true
	case 3: // a closure over the matcher
		return closure(cmpText(mvar(val), lits)), true
	case 4: // behind a nested helper, the literal in the inner body
		inner := hb.def("v dsl.Var", cmpText("v", lits))
		outer := hb.def("w dsl.Var", inner+"(w)")
		return outer + "(" + mvar(val) + ")", true
	}
	// behind a nested helper, the literal an argument written in the outer body
	inner := hb.def("v dsl.Var, k "+ty, cmpText("v", "k"))
	outer := hb.def("w dsl.Var", inner+"(w, "+lits+")")
	return outer + "(" + mvar(val) + ")", true
}

// helperSrc: the rules file of the helper route; deterministic in the tree (the same tree gives the same file
// whenever it is evaluated again, e.g. while a violation is shrunk)
func (e *fx) helperSrc(r *c17Run, pat int) (string, bool) {
	plain, ok := e.dsl(pat)
	if !ok {
		return "", false
	}
	hs := fnv.New64a()
	hs.Write([]byte(plain))
	hb := &c17HB{rng: hx.Rng(int64(hs.Sum64()>>1), "c17-helper")}
	where, _ := e.dslH(pat, hb)
	var sb strings.Builder
	sb.WriteString("func r(m dsl.Matcher) {\n")
	for _, d := range hb.defs {
		sb.WriteString("\t" + d + "\n")
	}
	fmt.Fprintf(&sb, "\tm.Match(`%s`).Where(%s).Report(\"hit\")\n}\n", c17Patterns[pat], where)
	if e.usesCustom() {
		sb.WriteString(c17Custom)
	}
	return hx.RulesFile(sb.String()), true
}

// c17Spell picks a Go spelling for an integer or string literal (every literal syntax the language has)
func c17SpellInt(rng *rand.Rand, v int64, singleToken bool) string {
	sp := c18LocalSpellings(c18IntSpellings(v, rng))
	for tries := 0; tries < 40; tries++ {
		s := sp[rng.Intn(len(sp))]
		if singleToken {
			switch s.class {
			case "decimal", "legacy-octal", "0o-octal", "hex", "binary", "decimal-sep", "legacy-octal-sep", "0o-octal-sep", "hex-sep", "binary-sep",
				"paren", "paren-legacy-octal", "paren-hex":
			default:
				continue
			}
		}
		if strings.ContainsAny(s.text, " ") {
			return "(" + s.text + ")"
		}
		return s.text
	}
	return ""
}

func c17SpellStr(rng *rand.Rand, s string) string {
	if !utf8.ValidString(s) {
		return ""
	}
	var sp []c18Spell
	for _, x := range c18StrSpellings(s) {
		if strings.HasPrefix(x.class, "named-const") || x.class == "concat-const" || x.class == "const-expr" {
			continue
		}
		if x.class == "raw" && strings.ContainsAny(s, "\n") {
			continue
		}
		sp = append(sp, x)
	}
	x := sp[rng.Intn(len(sp))]
	if strings.Contains(x.text, " + ") {
		return "(" + x.text + ")"
	}
	return x.text
}

// c17HelperLaws: comparisons written in a helper against (a) the Go operator on the fact the comparison
// reads and (b) the same comparison written inline.
func (r *c17Run) c17HelperLaws(n int) error {
	res := r.c.Res
	for i := 0; i < n; i++ {
		pat := i % 2
		kind := c17ValOps[r.rng.Intn(4)]
		v := r.vars(pat)[r.rng.Intn(3)]
		lit := r.nearConst(pat, kind, v)
		if r.rng.Intn(4) != 0 {
			if iv, ok := lit.V.(int64); ok {
				lit.Lit = c17SpellInt(r.rng, iv, iv >= 0)
			}
		}
		val := &fx{Op: kind, V: v}
		for _, op := range c17CmpOps {
			cmp := &fx{Op: op, Args: []*fx{val, lit}}
			if (op == "Eq" || op == "Neq") && r.rng.Intn(3) == 0 {
				cmp = &fx{Op: op, Args: []*fx{lit, val}}
			}
			oH, err := r.eval(cmp, pat, "helper")
			if err != nil {
				return err
			}
			in := map[string]*fx{"cmp": cmp}
			src, _ := cmp.helperSrc(r, pat)
			if oH.load != "ok" {
				if oH.load == "err" && strings.HasPrefix(oH.errText, "irconv error") {
					res.Dist("helper-law:rejected-by-irconv")
					continue
				}
				r.lawViolation("helper:load:"+oH.load, "a comparison in a helper neither loads nor is rejected by the converter: "+oH.errText+" :: "+src, pat, in, map[string]c17Outcome{"cmp": oH}, -1)
				continue
			}
			res.Dist("helper-law:loaded")
			res.Count("laws:helper", src, true)
			if err := r.preconvert(pat, []*fx{cmp}); err != nil {
				return err
			}
			oI, err := r.eval(cmp, pat, "dsl")
			if err != nil {
				return err
			}
			if oI.load == "ok" && oI.verdicts != oH.verdicts {
				site := 0
				for site < len(oI.verdicts) && oI.verdicts[site] == oH.verdicts[site] {
					site++
				}
				r.lawViolation("helper:compare:"+kind+":differs-from-inline", "a comparison written in a local helper gives other verdicts than the same comparison written inline :: "+src, pat,
					map[string]*fx{"inline": cmp, "in-helper": cmp}, map[string]c17Outcome{"inline": oI, "in-helper": oH}, site)
			}
			for s := range oH.verdicts {
				known, val64, sval := r.factValue(pat, s, kind, v)
				if !known {
					continue
				}
				var want bool
				if kind == "VarText" {
					want = c17GoCmpS(op, sval, lit.V.(string))
				} else {
					want = c17GoCmpI(op, val64, lit.V.(int64))
				}
				if got := oH.verdicts[s]; (got == 't') != want {
					r.lawViolation("helper:go-operator:"+kind+":"+op, "a comparison written in a local helper is not the Go operator on the underlying value :: "+src, pat,
						map[string]*fx{"in-helper": cmp}, map[string]c17Outcome{"in-helper": oH}, s)
					break
				}
			}
		}
	}
	return nil
}

// c17ErrClass: the wording of a converter error without its position and its quoted source
func c17ErrClass(msg string) string {
	msg = strings.TrimPrefix(msg, "irconv error: ")
	if i := strings.Index(msg, ": "); i >= 0 && strings.HasPrefix(msg, "rules.go:") {
		msg = msg[i+2:]
	}
	if i := strings.Index(msg, ": "); i >= 0 {
		rest := msg[i+2:]
		msg = msg[:i]
		if j := strings.LastIndex(rest, "(*ast."); j >= 0 {
			msg += " " + rest[j:]
		}
	}
	if len(msg) > 60 {
		msg = msg[:60]
	}
	return msg
}

// c17Respell: most literals of a tree bound for the helper route are single tokens (the spellings a helper body
// can carry); one in three keeps whatever spelling it has
func c17Respell(rng *rand.Rand, e *fx) {
	if e.Op == "Int" {
		if v, ok := e.V.(int64); ok && v >= 0 && rng.Intn(3) != 0 {
			e.Lit = c17SpellInt(rng, v, true)
		}
	}
	if e.Op == "String" && strings.Contains(e.Lit, " + ") && rng.Intn(3) != 0 {
		e.Lit = ""
	}
	for _, a := range e.Args {
		c17Respell(rng, a)
	}
}
