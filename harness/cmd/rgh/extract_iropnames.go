package main

import (
	"fmt"
	"go/ast"
	"go/parser"
	"go/token"
	"os"
	"path/filepath"
	"regexp"
	"sort"
	"strconv"
	"strings"

	"github.com/quasilyte/go-ruleguard/ruleguard/ir"
)

// Regenerated table Rg/Gen/IROpNames.lean: the op-name and op-flag tables of
// ruleguard/ir/filter_op.gen.go (a generated file, read with go/ast), cross-checked against the
// behaviour of the linked package (FilterOp.String, IsBinaryExpr/IsBasicLit/HasVar).

func init() { registerGen("IROpNames.lean", genIROpNames) }

// repoDir finds the go-ruleguard tree the harness is built against.
func repoDir() string {
	if d := os.Getenv("VERIF_REPO"); d != "" {
		return d
	}
	for _, gm := range []string{"go.mod", "../go.mod", "../../go.mod"} {
		b, err := os.ReadFile(gm)
		if err != nil {
			continue
		}
		m := regexp.MustCompile(`(?m)^replace\s+github\.com/quasilyte/go-ruleguard\s+=>\s+(\S+)`).FindSubmatch(b)
		if m != nil {
			return string(m[1])
		}
	}
	return "/repo"
}

type filterOpRow struct {
	Num   int
	Const string // FilterXOp
	Name  string // X
	Flags uint64
}

func readFilterOps() ([]filterOpRow, error) {
	path := filepath.Join(repoDir(), "ruleguard", "ir", "filter_op.gen.go")
	fset := token.NewFileSet()
	f, err := parser.ParseFile(fset, path, nil, 0)
	if err != nil {
		return nil, err
	}
	nums := map[string]int{}
	names := map[string]string{}
	flags := map[string]uint64{}
	flagBits := map[string]uint64{"flagIsBinaryExpr": 1, "flagIsBasicLit": 2, "flagHasVar": 4}
	var flagExpr func(e ast.Expr) (uint64, error)
	flagExpr = func(e ast.Expr) (uint64, error) {
		switch e := e.(type) {
		case *ast.Ident:
			b, ok := flagBits[e.Name]
			if !ok {
				return 0, fmt.Errorf("unknown flag %s", e.Name)
			}
			return b, nil
		case *ast.BinaryExpr:
			if e.Op != token.OR {
				return 0, fmt.Errorf("unexpected flag operator %s", e.Op)
			}
			x, err := flagExpr(e.X)
			if err != nil {
				return 0, err
			}
			y, err := flagExpr(e.Y)
			return x | y, err
		case *ast.ParenExpr:
			return flagExpr(e.X)
		}
		return 0, fmt.Errorf("unexpected flag expression %T", e)
	}
	for _, d := range f.Decls {
		gd, ok := d.(*ast.GenDecl)
		if !ok {
			continue
		}
		for _, s := range gd.Specs {
			vs, ok := s.(*ast.ValueSpec)
			if !ok {
				continue
			}
			if gd.Tok == token.CONST {
				for i, n := range vs.Names {
					if i >= len(vs.Values) {
						return nil, fmt.Errorf("%s: constant without a value", n.Name)
					}
					bl, ok := vs.Values[i].(*ast.BasicLit)
					if !ok || bl.Kind != token.INT {
						return nil, fmt.Errorf("%s: value is not an int literal", n.Name)
					}
					v, err := strconv.ParseInt(bl.Value, 0, 64)
					if err != nil || v < 0 {
						return nil, fmt.Errorf("%s: bad value %s", n.Name, bl.Value)
					}
					nums[n.Name] = int(v)
				}
				continue
			}
			for i, n := range vs.Names {
				if i >= len(vs.Values) {
					continue
				}
				cl, ok := vs.Values[i].(*ast.CompositeLit)
				if !ok {
					continue
				}
				for _, el := range cl.Elts {
					kv, ok := el.(*ast.KeyValueExpr)
					if !ok {
						return nil, fmt.Errorf("%s: element without a key", n.Name)
					}
					k, ok := kv.Key.(*ast.Ident)
					if !ok {
						return nil, fmt.Errorf("%s: key is not an identifier", n.Name)
					}
					switch n.Name {
					case "filterOpNames":
						bl, ok := kv.Value.(*ast.BasicLit)
						if !ok || bl.Kind != token.STRING {
							return nil, fmt.Errorf("filterOpNames[%s] is not a string literal", k.Name)
						}
						s, err := strconv.Unquote(bl.Value)
						if err != nil {
							return nil, err
						}
						if _, dup := names[k.Name]; dup {
							return nil, fmt.Errorf("filterOpNames: duplicate key %s", k.Name)
						}
						names[k.Name] = s
					case "filterOpFlags":
						v, err := flagExpr(kv.Value)
						if err != nil {
							return nil, err
						}
						flags[k.Name] = v
					}
				}
			}
		}
	}
	var rows []filterOpRow
	for c, n := range nums {
		nm, ok := names[c]
		if !ok {
			continue // a constant without a name prints as "" (absent from the table, like any other number)
		}
		rows = append(rows, filterOpRow{Num: n, Const: c, Name: nm, Flags: flags[c]})
	}
	for c := range names {
		if _, ok := nums[c]; !ok {
			return nil, fmt.Errorf("filterOpNames key %s is not a declared constant", c)
		}
	}
	sort.Slice(rows, func(i, j int) bool {
		if rows[i].Num != rows[j].Num {
			return rows[i].Num < rows[j].Num
		}
		return rows[i].Const < rows[j].Const
	})
	// cross-check with the linked package
	for _, r := range rows {
		if got := ir.FilterOp(r.Num).String(); got != r.Name {
			return nil, fmt.Errorf("filter_op.gen.go says %d is %q, the linked ir package says %q", r.Num, r.Name, got)
		}
		e := ir.FilterExpr{Op: ir.FilterOp(r.Num)}
		var fl uint64
		if e.IsBinaryExpr() {
			fl |= 1
		}
		if e.IsBasicLit() {
			fl |= 2
		}
		if e.HasVar() {
			fl |= 4
		}
		if fl != r.Flags {
			return nil, fmt.Errorf("flags of %s: file %d, linked package %d", r.Const, r.Flags, fl)
		}
	}
	return rows, nil
}

func leanIdentSafe(s string) bool {
	for _, c := range s {
		if !(c == '_' || c >= '0' && c <= '9' || c >= 'a' && c <= 'z' || c >= 'A' && c <= 'Z') {
			return false
		}
	}
	return true
}

func genIROpNames() (string, error) {
	rows, err := readFilterOps()
	if err != nil {
		return "", err
	}
	var sb strings.Builder
	sb.WriteString("/-! GENERATED by `rgh extract` from ruleguard/ir/filter_op.gen.go — do not edit.\n")
	sb.WriteString("`irOpNames`: FilterOp number ↦ name (`filterOpNames` map); `irOpFlags`: number ↦ flag bits\n")
	sb.WriteString("(1 = IsBinaryExpr, 2 = IsBasicLit, 4 = HasVar). -/\nnamespace Gen\n\n")
	sb.WriteString("def irOpNames : List (Nat × String) := [\n")
	for i, r := range rows {
		if !leanIdentSafe(r.Name) {
			return "", fmt.Errorf("op name %q is not an identifier fragment", r.Name)
		}
		sep := ","
		if i == len(rows)-1 {
			sep = ""
		}
		fmt.Fprintf(&sb, "  (%d, %q)%s\n", r.Num, r.Name, sep)
	}
	sb.WriteString("]\n\ndef irOpFlags : List (Nat × Nat) := [\n")
	for i, r := range rows {
		sep := ","
		if i == len(rows)-1 {
			sep = ""
		}
		fmt.Fprintf(&sb, "  (%d, %d)%s\n", r.Num, r.Flags, sep)
	}
	sb.WriteString("]\n\nend Gen\n")
	return sb.String(), nil
}
