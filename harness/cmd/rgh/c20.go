package main

// C20 — qualified type names resolve through the documented import table.
//
// Generated rule files (1–5 groups, Import() overrides with colliding base names and stdlib names,
// groups rejected by the GroupFilter, unresolvable names) use qualified names in Type.Is,
// Type.Underlying().Is, Type.Implements and Type.HasMethod.  Every rule k matches `p<k>($x)`; the target
// calls every p<k> on one value of each type of interest (same-named types of different packages,
// vendored copies, implementors), so the set of reported values of rule k shows what the name resolved to.
// The Lean model (`c20file`) must predict the load outcome and every set; the executable statement of
// the property (`spec20`) is evaluated on the observations.

import (
	"fmt"
	"go/ast"
	"go/importer"
	"go/parser"
	"go/token"
	"go/types"
	"math/rand"
	"os"
	"path/filepath"
	"regexp"
	"runtime"
	"sort"
	"strconv"
	"strings"
	"sync"

	"github.com/quasilyte/go-ruleguard/ruleguard"
	"github.com/quasilyte/go-ruleguard/ruleguard/typematch"
	"github.com/quasilyte/stdinfo"
	"verifharness/hx"
)

func init() { register("C20", runC20) }

// c20CompareFixed selects the model variant the correspondence compares the code with:
// false = the code as it is, true = the code after verif/fixes/c20-*.diff.
const c20CompareFixed = true

var c20DiskPkgs = map[string]string{
	"c20m/p1/foo":      "package foo\n\ntype T struct{ A int }\n\ntype I interface{ M() }\n",
	"c20m/p2/foo":      "package foo\n\ntype T struct{ B string }\n\ntype I interface{ N() }\n\ntype Only2 struct{}\n",
	"c20m/p3/io":       "package io\n\ntype Reader interface{ Custom() }\n\ntype T struct{}\n",
	"c20m/p4/template": "package template\n\ntype Template struct{ X int }\n",
}

// copies of c20m/p1/foo that exist only in the target's universe (vendored)
var c20Vendored = []string{"app/vendor/c20m/p1/foo", "app/vendor/lib/vendor/c20m/p1/foo", "vendor/c20m/p1/foo"}

// objects of each importable package the model is told about (anything else: "not found")
var c20Objects = []struct {
	path string
	objs []string
}{
	{"io", []string{"Reader", "Writer"}},
	{"fmt", []string{"Stringer"}},
	{"text/template", []string{"Template"}},
	{"html/template", []string{"Template"}},
	{"c20m/p1/foo", []string{"T", "I"}},
	{"c20m/p2/foo", []string{"T", "I", "Only2"}},
	{"c20m/p3/io", []string{"Reader", "T"}},
	{"c20m/p4/template", []string{"Template"}},
}

const c20NumRules = 12

var c20Values = []string{
	"p1foo.T", "p2foo.T", "*p1foo.T", "[]p2foo.T", "*ttemplate.Template", "*htemplate.Template", "p4t.Template", "p3io.T",
	"v1foo.T", "v2foo.T", "v3foo.T", "implM", "implN", "implRead", "implCustom", "implString", "NP", "int", "p2foo.Only2", "*v2foo.T",
	"ttemplate.Template", "htemplate.Template",
}

func c20TargetSrc() string { return c20TargetSrcN(c20NumRules) }

// c20TargetSrcN: the target with numRules probe functions p<k> (the history suite needs one per rule of a whole history).
func c20TargetSrcN(numRules int) string {
	var sb strings.Builder
	sb.WriteString(`package target

import (
	v1foo "app/vendor/c20m/p1/foo"
	v2foo "app/vendor/lib/vendor/c20m/p1/foo"
	p1foo "c20m/p1/foo"
	p2foo "c20m/p2/foo"
	p3io "c20m/p3/io"
	p4t "c20m/p4/template"
	"fmt"
	htemplate "html/template"
	"io"
	ttemplate "text/template"
	v3foo "vendor/c20m/p1/foo"
)

type implM struct{}

func (implM) M() {}

type implN struct{}

func (implN) N() {}

type implRead struct{}

func (implRead) Read(p []byte) (int, error) { return 0, nil }

type implCustom struct{}

func (implCustom) Custom() {}

type implString struct{}

func (implString) String() string { return "" }

type NP *p1foo.T

var _ io.Reader
var _ fmt.Stringer

`)
	for i, t := range c20Values {
		fmt.Fprintf(&sb, "var v%d %s\n", i, t)
	}
	for k := 0; k < numRules; k++ {
		fmt.Fprintf(&sb, "func p%d(interface{}) {}\n", k)
	}
	sb.WriteString("\nfunc f() {\n")
	for k := 0; k < numRules; k++ {
		for i := range c20Values {
			fmt.Fprintf(&sb, "\tp%d(v%d)\n", k, i)
		}
	}
	sb.WriteString("}\n")
	return sb.String()
}

type c20Importer struct {
	pkgs map[string]*types.Package
	std  types.Importer
}

func (im *c20Importer) Import(path string) (*types.Package, error) {
	if p, ok := im.pkgs[path]; ok {
		return p, nil
	}
	return im.std.Import(path)
}

type c20World struct {
	numRules   int
	target     *hx.Target
	valueTypes []types.Type
	sexp       string // (pkgs …) (targets …) (underlying …)
}

func c20TType(t types.Type) string {
	switch t := t.(type) {
	case *types.Named:
		if t.Obj().Pkg() == nil {
			return "o"
		}
		return fmt.Sprintf("(n %s %s)", hx.HexS(t.Obj().Pkg().Path()), hx.HexS(t.Obj().Name()))
	case *types.Pointer:
		return "(p " + c20TType(t.Elem()) + ")"
	case *types.Slice:
		return "(s " + c20TType(t.Elem()) + ")"
	}
	return "o"
}

func c20BuildWorld() (*c20World, error) { return c20BuildWorldN(c20NumRules) }

func c20BuildWorldN(numRules int) (*c20World, error) {
	fset := token.NewFileSet()
	im := &c20Importer{pkgs: map[string]*types.Package{}, std: importer.ForCompiler(fset, "source", nil)}
	check := func(path, src string, info *types.Info) (*types.Package, *ast.File, error) {
		f, err := parser.ParseFile(fset, filepath.Base(path)+".go", src, parser.ParseComments)
		if err != nil {
			return nil, nil, err
		}
		pkg, err := (&types.Config{Importer: im}).Check(path, fset, []*ast.File{f}, info)
		return pkg, f, err
	}
	for path, src := range c20DiskPkgs {
		pkg, _, err := check(path, src, nil)
		if err != nil {
			return nil, err
		}
		im.pkgs[path] = pkg
	}
	for _, path := range c20Vendored {
		pkg, _, err := check(path, c20DiskPkgs["c20m/p1/foo"], nil)
		if err != nil {
			return nil, err
		}
		im.pkgs[path] = pkg
	}
	info := &types.Info{
		Types:      map[ast.Expr]types.TypeAndValue{},
		Uses:       map[*ast.Ident]types.Object{},
		Defs:       map[*ast.Ident]types.Object{},
		Selections: map[*ast.SelectorExpr]*types.Selection{},
		Implicits:  map[ast.Node]types.Object{},
		Scopes:     map[ast.Node]*types.Scope{},
		Instances:  map[*ast.Ident]types.Instance{},
	}
	src := c20TargetSrcN(numRules)
	pkg, f, err := check("target", src, info)
	if err != nil {
		return nil, err
	}
	w := &c20World{numRules: numRules, target: &hx.Target{Fset: fset, File: f, Info: info, Pkg: pkg, Src: []byte(src), Name: "target.go"}}
	for i := range c20Values {
		w.valueTypes = append(w.valueTypes, pkg.Scope().Lookup(fmt.Sprintf("v%d", i)).Type())
	}
	var sb strings.Builder
	sb.WriteString("(pkgs")
	for _, po := range c20Objects {
		p, err := im.Import(po.path)
		if err != nil {
			return nil, err
		}
		fmt.Fprintf(&sb, " (pkg %s", hx.HexS(po.path))
		for _, name := range po.objs {
			obj := p.Scope().Lookup(name)
			if obj == nil {
				return nil, fmt.Errorf("%s.%s does not exist", po.path, name)
			}
			iface, isIface := obj.Type().Underlying().(*types.Interface)
			if !isIface {
				fmt.Fprintf(&sb, " (obj %s o (methods) (impls) (mi))", hx.HexS(name))
				continue
			}
			fmt.Fprintf(&sb, " (obj %s i (methods", hx.HexS(name))
			for m := 0; m < iface.NumMethods(); m++ {
				sb.WriteString(" " + hx.HexS(iface.Method(m).Name()))
			}
			sb.WriteString(") (impls")
			for i, t := range w.valueTypes {
				if types.Implements(t, iface) {
					fmt.Fprintf(&sb, " %d", i)
				}
			}
			sb.WriteString(") (mi")
			for m := 0; m < iface.NumMethods(); m++ {
				fn := iface.Method(m)
				fmt.Fprintf(&sb, " (%s", hx.HexS(fn.Name()))
				for i, t := range w.valueTypes {
					o, _, _ := types.LookupFieldOrMethod(t, true, fn.Pkg(), fn.Name())
					if fn2, ok := o.(*types.Func); ok && types.Identical(fn.Type(), fn2.Type()) {
						fmt.Fprintf(&sb, " %d", i)
					}
				}
				sb.WriteString(")")
			}
			sb.WriteString("))")
		}
		sb.WriteString(")")
	}
	sb.WriteString(") (targets")
	for _, t := range w.valueTypes {
		sb.WriteString(" " + c20TType(t))
	}
	sb.WriteString(") (underlying")
	for _, t := range w.valueTypes {
		sb.WriteString(" " + c20TType(t.Underlying()))
	}
	sb.WriteString(")")
	w.sexp = sb.String()
	return w, nil
}

// ---------------------------------------------------------------------------------------------

type c20Rule struct {
	Kind string // is uis impl hasm
	Arg  string
}

type c20Group struct {
	Name     int
	Rejected bool
	Imports  []string // package paths, in order
	Rules    []c20Rule
}

type c20File struct {
	Groups []c20Group
	// rendering details the model does not see: the first rule is rule k0 (pattern p<k0>, message R<k0>),
	// group <Name> is declared as g<gBase+Name> (so that several files can share one engine)
	k0, gBase int
	src       string
	out    string // observed canonical outcome
	errTxt string
}

var c20ImportPool = []string{"c20m/p1/foo", "c20m/p2/foo", "c20m/p3/io", "html/template", "c20m/p4/template", "c20m/nonexistent/bar", "text/template"}

var c20TypeArgs = []string{"foo.T", "*foo.T", "[]foo.T", "template.Template", "*template.Template", "io.T", "io.Reader", "foo.Only2",
	"foo.Nonexistent", "bar.T", "unknownpkg.T", "c20m/p1/foo.T", "fmt.Stringer"}
var c20IfaceArgs = []string{"foo.I", "io.Reader", "c20m/p1/foo.I", "c20m/p2/foo.I", "c20m/p3/io.Reader", "foo.T", "foo.Nope", "unknownpkg.I",
	"fmt.Stringer", "template.Template", "bar.I", "io.Writer"}
var c20MethArgs = []string{"io.Reader.Read", "fmt.Stringer.String", "foo.I.M", "foo.I.N", "io.Reader.Custom", "io.Reader.Nope", "io.Writer.Write", "unknownpkg.I.M"}

func c20GenFile(rng *rand.Rand) *c20File {
	f := &c20File{}
	ng := 1 + rng.Intn(4)
	k := 0
	for gi := 0; gi < ng && k < c20NumRules; gi++ {
		g := c20Group{Name: gi + 1, Rejected: rng.Intn(6) == 0}
		for n := rng.Intn(3); n > 0; n-- {
			g.Imports = append(g.Imports, c20ImportPool[rng.Intn(len(c20ImportPool))])
		}
		nr := 1 + rng.Intn(3)
		for ri := 0; ri < nr && k < c20NumRules; ri++ {
			var r c20Rule
			switch x := rng.Intn(10); {
			case x < 4:
				r = c20Rule{"is", c20TypeArgs[rng.Intn(len(c20TypeArgs))]}
			case x < 5:
				r = c20Rule{"uis", c20TypeArgs[rng.Intn(3)]}
			case x < 8:
				r = c20Rule{"impl", c20IfaceArgs[rng.Intn(len(c20IfaceArgs))]}
			default:
				r = c20Rule{"hasm", c20MethArgs[rng.Intn(len(c20MethArgs))]}
			}
			// most files should load: keep the rate of unresolvable names low
			if c20Unresolvable(g, r) && rng.Intn(14) != 0 {
				ri--
				continue
			}
			g.Rules = append(g.Rules, r)
			k++
		}
		f.Groups = append(f.Groups, g)
	}
	return f
}

// c20Unresolvable: a cheap guess (not the oracle) whether the loader will reject the rule
func c20Unresolvable(g c20Group, r c20Rule) bool {
	for _, s := range []string{"Nonexistent", "Nope", "unknownpkg", "bar.", "Custom"} {
		if strings.Contains(r.Arg, s) {
			return true
		}
	}
	if strings.Contains(r.Arg, "/") {
		return r.Kind != "impl"
	}
	q := strings.TrimLeft(r.Arg, "*[]")
	q = q[:strings.Index(q, ".")]
	bound := q == "io" || q == "fmt" || q == "template"
	for _, imp := range g.Imports {
		bound = bound || filepath.Base(imp) == q
	}
	if !bound {
		return true
	}
	if r.Kind == "hasm" {
		return q != "io" && q != "fmt"
	}
	if r.Kind == "impl" {
		return strings.HasSuffix(r.Arg, ".T") || strings.HasSuffix(r.Arg, ".Template")
	}
	return false
}

func (f *c20File) render() {
	var sb strings.Builder
	sb.WriteString("package gorules\n\nimport \"github.com/quasilyte/go-ruleguard/dsl\"\n\n")
	k := f.k0
	for _, g := range f.Groups {
		fmt.Fprintf(&sb, "func g%d(m dsl.Matcher) {\n", f.gBase+g.Name)
		for _, imp := range g.Imports {
			fmt.Fprintf(&sb, "\tm.Import(%q)\n", imp)
		}
		for _, r := range g.Rules {
			var w string
			switch r.Kind {
			case "is":
				w = fmt.Sprintf(`m["x"].Type.Is(%q)`, r.Arg)
			case "uis":
				w = fmt.Sprintf(`m["x"].Type.Underlying().Is(%q)`, r.Arg)
			case "impl":
				w = fmt.Sprintf(`m["x"].Type.Implements(%q)`, r.Arg)
			default:
				w = fmt.Sprintf(`m["x"].Type.HasMethod(%q)`, r.Arg)
			}
			fmt.Fprintf(&sb, "\tm.Match(\"p%d($x)\").Where(%s).Report(\"R%d\")\n", k, w, k)
			k++
		}
		sb.WriteString("}\n\n")
	}
	f.src = sb.String()
}

func c20Base(names map[string]bool) string {
	var ns []string
	for n := range names {
		ns = append(ns, n)
	}
	sort.Strings(ns)
	var sb strings.Builder
	sb.WriteString("(base")
	for _, n := range ns {
		if p, ok := stdinfo.PathByName[n]; ok {
			fmt.Fprintf(&sb, " (%s %s)", hx.HexS(n), hx.HexS(p))
		}
	}
	sb.WriteString(")")
	return sb.String()
}

func (f *c20File) sexp(w *c20World) string {
	names := map[string]bool{}
	var sb strings.Builder
	sb.WriteString("(file")
	for _, g := range f.Groups {
		fmt.Fprintf(&sb, " (g %d %s (imports", g.Name, b01(g.Rejected))
		for _, imp := range g.Imports {
			fmt.Fprintf(&sb, " (%s %s)", hx.HexS(filepath.Base(imp)), hx.HexS(imp))
		}
		sb.WriteString(")")
		for _, r := range g.Rules {
			fmt.Fprintf(&sb, " (r %s %s)", r.Kind, hx.HexS(r.Arg))
			for _, part := range regexp.MustCompile(`[A-Za-z0-9_]+`).FindAllString(r.Arg, -1) {
				names[part] = true
			}
		}
		sb.WriteString(")")
	}
	sb.WriteString(")")
	return "(c20 " + c20Base(names) + " " + w.sexp + " " + sb.String() + ")"
}

func c20ErrClass(s string) string {
	switch {
	case strings.HasPrefix(s, "PANIC "):
		return "panic:" + strings.Fields(s)[1]
	case strings.Contains(s, "parse type expr"):
		return "err:typeExpr"
	case strings.Contains(s, "is not imported"):
		return "err:notImported"
	case strings.Contains(s, "can't load"):
		return "err:importFail"
	case strings.Contains(s, "is not found in"):
		return "err:notFound"
	case strings.Contains(s, "is not an interface type"), strings.Contains(s, "only interfaces are supported"):
		return "err:notIface"
	case strings.Contains(s, "try a fully-qualified name"), strings.Contains(s, "invalid selector expression"),
		strings.Contains(s, "invalid package name"), strings.Contains(s, "type expr:"):
		return "err:badExpr"
	case strings.Contains(s, "can't find") && strings.Contains(s, "type"):
		return "err:notFound"
	case strings.Contains(s, "can't resolve HasMethod"):
		return "err:noMethod"
	}
	return "err:other:" + strings.ReplaceAll(s, " ", "_")
}

var c20ReportRe = regexp.MustCompile(`^p(\d+)\(v(\d+)\)$`)

// filter: the GroupFilter of the file (nil when no group is rejected)
func (f *c20File) filter() func(*ruleguard.GoRuleGroup) bool {
	rej := map[string]bool{}
	for _, g := range f.Groups {
		if g.Rejected {
			rej[fmt.Sprintf("g%d", f.gBase+g.Name)] = true
		}
	}
	if len(rej) == 0 {
		return nil
	}
	return func(g *ruleguard.GoRuleGroup) bool { return !rej[g.Name] }
}

// c20Sets sorts the reports of a run into the set of reported values per rule number; a report that is
// not `p<k>(v<i>)` with message R<k> is returned as an anomaly.
func c20Sets(w *c20World, reports []hx.Report) (sets [][]int, anomaly string) {
	sets = make([][]int, w.numRules)
	for _, r := range reports {
		m := c20ReportRe.FindStringSubmatch(string(w.target.Src[r.Pos:r.End]))
		if m == nil || r.Message != "R"+m[1] {
			return nil, "unexpected-report:" + strings.ReplaceAll(r.String(), " ", "_")
		}
		k, _ := strconv.Atoi(m[1])
		i, _ := strconv.Atoi(m[2])
		sets[k] = append(sets[k], i)
	}
	for k := range sets {
		sort.Ints(sets[k])
	}
	return sets, ""
}

// canon: the canonical observation of a loaded file from the per-rule sets of a run
func (f *c20File) canon(sets [][]int) string {
	var gs []string
	k := f.k0
	for _, g := range f.Groups {
		var rs []string
		for range g.Rules {
			s := "-"
			if len(sets[k]) > 0 {
				var parts []string
				for _, i := range sets[k] {
					parts = append(parts, strconv.Itoa(i))
				}
				s = strings.Join(parts, ",")
			}
			rs = append(rs, s)
			k++
		}
		switch {
		case g.Rejected:
			// a skipped group must not report at all
			all := strings.Join(rs, "")
			if strings.Trim(all, "-") != "" {
				gs = append(gs, "skipped-group-reported:"+strings.Join(rs, ";"))
			} else {
				gs = append(gs, "skip")
			}
		case len(rs) == 0:
			gs = append(gs, "none")
		default:
			gs = append(gs, strings.Join(rs, ";"))
		}
	}
	return "ok " + strings.Join(gs, "|")
}

func (f *c20File) exec(w *c20World) {
	e := ruleguard.NewEngine()
	if err := hx.LoadInto(e, "rules.go", f.src, f.filter()); err != nil {
		f.errTxt = err.Error()
		f.out = c20ErrClass(f.errTxt)
		return
	}
	reports, pk, _, err := hx.Run(e, w.target, hx.RunOpts{})
	if err != nil || pk != "" {
		f.out = fmt.Sprintf("run-failed:%v:%s", err, pk)
		return
	}
	sets, anomaly := c20Sets(w, reports)
	if anomaly != "" {
		f.out = anomaly
		return
	}
	f.out = f.canon(sets)
}

func c20Workspace() (string, error) {
	dir, err := os.MkdirTemp("", "c20m")
	if err != nil {
		return "", err
	}
	if err := os.WriteFile(filepath.Join(dir, "go.mod"), []byte("module c20m\n\ngo 1.22\n\nrequire github.com/quasilyte/go-ruleguard/dsl v0.3.22\n"), 0o644); err != nil {
		return dir, err
	}
	if sum, err := os.ReadFile("go.sum"); err == nil {
		_ = os.WriteFile(filepath.Join(dir, "go.sum"), sum, 0o644)
	}
	for path, src := range c20DiskPkgs {
		d := filepath.Join(dir, strings.TrimPrefix(path, "c20m/"))
		if err := os.MkdirAll(d, 0o755); err != nil {
			return dir, err
		}
		if err := os.WriteFile(filepath.Join(d, filepath.Base(path)+".go"), []byte(src), 0o644); err != nil {
			return dir, err
		}
	}
	return dir, os.Chdir(dir)
}

func (f *c20File) input() map[string]interface{} {
	var rej []string
	for _, g := range f.Groups {
		if g.Rejected {
			rej = append(rej, fmt.Sprintf("g%d", g.Name))
		}
	}
	return map[string]interface{}{"rules": f.src, "groupFilterRejects": rej, "error": f.errTxt,
		"target": "every p<k>(v<i>) with v<i> of type " + strings.Join(c20Values, " | ")}
}

func runC20(c *Ctx) error {
	res := c.Res
	nFiles := 150
	if c.Thorough {
		nFiles = 2000
	}
	res.Rule = fmt.Sprintf("%d generated rule files with 1-4 groups (Import() of colliding base names / stdlib names / unknown packages, "+
		"groups rejected by the GroupFilter) using qualified names in Type.Is, Underlying().Is, Implements, HasMethod (pools of %d/%d/%d strings incl. FQNs, "+
		"wrappers, unknown types and packages); per rule the set of reported target values out of %d (same-named types of 4 packages, 3 vendored copies, "+
		"implementors); plus the vendor-stripping and FQN-split functions on an enumerated path grid; plus histories of 2-8 such files loaded into ONE engine "+
		"(a third of them rejected inside a group that has Import()s of shadowing packages): every file must be observed as the model / spec20 say for it alone and as on a fresh engine; "+
		"plus dependency worlds app -> l1 -> ... -> l<d> (d = 1..4, type-checked in memory, some levels also imported directly, some present on disk as a DIFFERENT copy): custom filters "+
		"GetType / GetInterface of the full path of every level, expected sets from go/types on the analysed program's own packages; "+
		"non-trivial = the file loads and some group has an Import() / a file loads after a rejected file with Import()s / the level is an indirect dependency; distinct by file text", nFiles, len(c20TypeArgs), len(c20IfaceArgs), len(c20MethArgs), len(c20Values))
	harnessDir, _ := os.Getwd()
	dir, err := c20Workspace()
	if dir != "" {
		defer os.RemoveAll(dir)
	}
	defer os.Chdir(harnessDir)
	if err != nil {
		return fmt.Errorf("workspace: %v", err)
	}
	w, err := c20BuildWorld()
	if err != nil {
		return fmt.Errorf("target universe: %v", err)
	}
	rng := hx.Rng(c.Seed, "c20-files")
	files := c20Corpus()
	for len(files) < nFiles {
		files = append(files, c20GenFile(rng))
	}
	for _, f := range files {
		f.render()
	}
	var wg sync.WaitGroup
	sem := make(chan struct{}, runtime.GOMAXPROCS(0))
	for _, f := range files {
		f := f
		wg.Add(1)
		sem <- struct{}{}
		go func() {
			defer wg.Done()
			defer func() { <-sem }()
			defer func() {
				if rec := recover(); rec != nil {
					f.out = fmt.Sprintf("harness-panic:%v", rec)
				}
			}()
			f.exec(w)
		}()
	}
	wg.Wait()

	fx := b01(c20CompareFixed)
	var ops, impl, specOps []string
	var inputs []interface{}
	for _, f := range files {
		sx := f.sexp(w)
		ops = append(ops, "c20file "+fx+" "+sx)
		impl = append(impl, f.out)
		inputs = append(inputs, f.input())
		specOps = append(specOps, "spec20 "+f.out+" "+sx)
		hasImport := false
		for _, g := range f.Groups {
			hasImport = hasImport || len(g.Imports) > 0
			for _, r := range g.Rules {
				res.Dist("rule:" + r.Kind)
			}
			if g.Rejected {
				res.Dist("group:rejected")
			}
			res.Dist(fmt.Sprintf("group:imports=%d", len(g.Imports)))
		}
		res.Dist("file:" + strings.SplitN(strings.SplitN(f.out, " ", 2)[0], ":other", 2)[0])
		res.Count("files", f.src, strings.HasPrefix(f.out, "ok") && hasImport)
	}
	res.Sample(map[string]interface{}{"rules": files[len(files)-1].src, "impl": impl[len(impl)-1]})
	if err := res.Compare(c.Drv, "files", ops, impl, inputs); err != nil {
		return err
	}
	if err := c20Spec(c, files, specOps, impl, inputs); err != nil {
		return err
	}
	if err := c20PathGrid(c); err != nil {
		return err
	}
	if err := c20Histories(c, w, dir); err != nil {
		return err
	}
	return c20Deps(c, dir)
}

// c20PathGrid: vendor stripping through the real matcher and FQN split, on enumerated paths.
func c20PathGrid(c *Ctx) error {
	res := c.Res
	segs := []string{"a", "vendor", "b.c", "vendorx", "xvendor"}
	var paths []string
	var gen func(prefix string, depth int)
	gen = func(prefix string, depth int) {
		if depth == 0 {
			return
		}
		for _, s := range segs {
			p := s
			if prefix != "" {
				p = prefix + "/" + s
			}
			paths = append(paths, p)
			gen(p, depth-1)
		}
	}
	depth := 4
	if c.Thorough {
		depth = 5
	}
	gen("", depth)
	fx := b01(c20CompareFixed)
	var ops, impl, specOps, specImpl []string
	var inputs []interface{}
	for _, p := range paths {
		// the pattern `q.T` with q bound to the candidate identity matches T of package p iff strip(p) == identity
		pkg := types.NewPackage(p, "q")
		named := types.NewNamed(types.NewTypeName(token.NoPos, pkg, "T", nil), types.NewStruct(nil, nil), nil)
		got := c20StripProbe(p, named)
		ops = append(ops, "c20strip "+fx+" "+hx.HexS(p))
		impl = append(impl, hx.HexS(got))
		inputs = append(inputs, map[string]interface{}{"objPath": p})
		specOps = append(specOps, "c20ident "+hx.HexS(p))
		specImpl = append(specImpl, hx.HexS(got))
		res.Count("vendor-grid", p, strings.Contains(p, "vendor"))
		res.Dist("grid:vendor-occurrences=" + strconv.Itoa(strings.Count("/"+p, "/vendor/")))
	}
	if err := res.Compare(c.Drv, "vendor-grid", ops, impl, inputs); err != nil {
		return err
	}
	// the property on the grid: the stripped path must be the package a vendored copy stands for
	ans, err := c.Drv.Ask(specOps)
	if err != nil {
		return err
	}
	for i, a := range ans {
		if a != specImpl[i] {
			p := paths[i]
			sig := "opNamed:nested-vendor"
			if strings.HasPrefix(p, "vendor/") && strings.Count(p, "/vendor/") == 0 {
				sig = "opNamed:leading-vendor"
			}
			res.Violate(hx.Violation{Signature: sig, What: "a vendored copy is not treated as the package itself",
				Input: map[string]interface{}{"objPath": p}, Impl: string(hx.UnHex(specImpl[i])), Spec: string(hx.UnHex(a))})
		}
	}
	return nil
}

// c20StripProbe finds, through the real typematch matcher, the package path that `q.T` must be bound to
// in order to match type T of package objPath: every suffix of objPath that starts a segment is tried.
func c20StripProbe(objPath string, named *types.Named) string {
	cands := []string{objPath}
	for i := 0; i < len(objPath); i++ {
		if objPath[i] == '/' {
			cands = append(cands, objPath[i+1:])
		}
	}
	for _, cand := range cands {
		itab := typematch.NewImportsTab(map[string]string{"q": cand})
		pat, err := typematch.Parse(&typematch.Context{Itab: itab}, "q.T")
		if err == nil && pat.MatchIdentical(typematch.NewMatcherState(), named) {
			return cand
		}
	}
	return "?"
}

func c20Spec(c *Ctx, files []*c20File, specOps, impl []string, inputs []interface{}) error {
	ans, err := c.Drv.Ask(specOps)
	if err != nil {
		return err
	}
	for i, a := range ans {
		if a == "holds" {
			continue
		}
		if !strings.HasPrefix(a, "violates ") {
			c.Res.Errorf("spec20 answered %q for %s", a, specOps[i][:60])
			continue
		}
		f := files[i]
		for _, v := range strings.Split(strings.TrimPrefix(a, "violates "), ",") {
			p := strings.SplitN(v, ":", 2)
			gr := strings.SplitN(p[0], ".", 2)
			gi, _ := strconv.Atoi(gr[0])
			ri, _ := strconv.Atoi(gr[1])
			aspect, exp := p[1], ""
			if k := strings.Index(aspect, ":exp="); k >= 0 {
				aspect, exp = aspect[:k], aspect[k+5:]
			}
			sig := c20Signature(f, gi, ri, aspect)
			if aspect == "wrong-matches" && (sig == "opNamed:nested-vendor") {
				sig = c20VendorOrBinding(f, gi, ri, impl[i], exp)
			}
			p[1] = aspect
			c.Res.Violate(hx.Violation{Signature: sig, What: fmt.Sprintf("C20 fails for rule %d of group %d (%s)", ri, gi, p[1]),
				Input: inputs[i], Impl: impl[i], Spec: a})
		}
	}
	return nil
}

// c20VendorOrBinding: a type pattern matched the wrong values. When exactly the values of vendored copies
// (8, 9, 10 and the pointer 19) are missing it is the vendor stripping; anything else means the package
// name was bound to another package than the group's Import()s and the defaults say.
func c20VendorOrBinding(f *c20File, gi, ri int, out, exp string) string {
	want := map[string]bool{}
	for _, x := range strings.Split(exp, "/") {
		if x != "-" && x != "" {
			want[x] = true
		}
	}
	// observed set of the rule
	got := map[string]bool{}
	groups := strings.Split(strings.TrimPrefix(out, "ok "), "|")
	if gi < len(groups) {
		rules := strings.Split(groups[gi], ";")
		if ri < len(rules) {
			for _, x := range strings.Split(rules[ri], ",") {
				if x != "-" && x != "" {
					got[x] = true
				}
			}
		}
	}
	vendored := map[string]bool{"8": true, "9": true, "10": true, "19": true}
	onlyVendoredMissing := true
	for x := range got {
		if !want[x] {
			onlyVendoredMissing = false
		}
	}
	for x := range want {
		if !got[x] && !vendored[x] {
			onlyVendoredMissing = false
		}
	}
	if onlyVendoredMissing {
		return "opNamed:nested-vendor"
	}
	return "import-table:package-name-bound-to-the-wrong-package"
}

func c20Signature(f *c20File, gi, ri int, aspect string) string {
	kindName := map[string]string{"is": "Type.Is", "uis": "Type.Underlying.Is", "impl": "Type.Implements", "hasm": "Type.HasMethod"}
	if aspect == "rejected-resolvable" {
		// the file failed although every name resolves: find the construct the loader cannot handle
		for _, g := range f.Groups {
			if g.Rejected {
				continue
			}
			for _, r := range g.Rules {
				if (r.Kind == "is" || r.Kind == "uis") && strings.Contains(r.Arg, "/") {
					return "Type.Is:fully-qualified-name:load-error"
				}
			}
		}
		for _, g := range f.Groups {
			if g.Rejected {
				continue
			}
			for _, r := range g.Rules {
				if r.Kind == "hasm" {
					return "Type.HasMethod:import-table-ignored"
				}
			}
		}
		return "Load:resolvable-name-rejected"
	}
	if gi >= len(f.Groups) || ri >= len(f.Groups[gi].Rules) {
		return "C20:" + aspect
	}
	r := f.Groups[gi].Rules[ri]
	switch aspect {
	case "accepted-unresolvable":
		if r.Kind == "hasm" {
			return "Type.HasMethod:import-table-ignored"
		}
		if r.Kind == "impl" {
			return "Type.Implements:Import()-shadowed-by-FQN-lookup"
		}
		// an unbound package name that nevertheless resolved: a binding leaked from another group
		q := strings.TrimLeft(r.Arg, "*[]")
		if k := strings.Index(q, "."); k >= 0 && !strings.Contains(q, "/") {
			q = q[:k]
			_, std := stdinfo.PathByName[q]
			bound := std
			for _, imp := range f.Groups[gi].Imports {
				bound = bound || filepath.Base(imp) == q
			}
			if !bound {
				return "import-table:binding-leaked-from-another-group"
			}
		}
		return "Type.Is:unresolvable-name-accepted"
	case "wrong-matches":
		switch r.Kind {
		case "is", "uis":
			return "opNamed:nested-vendor"
		case "impl":
			return "Type.Implements:Import()-shadowed-by-FQN-lookup"
		default:
			return "Type.HasMethod:import-table-ignored"
		}
	}
	return kindName[r.Kind] + ":" + aspect
}

func c20Corpus() []*c20File {
	one := func(imports []string, r c20Rule) *c20File {
		return &c20File{Groups: []c20Group{{Name: 1, Imports: imports, Rules: []c20Rule{r}}}}
	}
	return []*c20File{
		one(nil, c20Rule{"is", "io.Nonexistent"}),
		one([]string{"c20m/p1/foo"}, c20Rule{"is", "foo.T"}),
		one([]string{"c20m/p3/io"}, c20Rule{"impl", "io.Reader"}),
		one([]string{"c20m/p1/foo"}, c20Rule{"hasm", "foo.I.M"}),
		one(nil, c20Rule{"is", "c20m/p1/foo.T"}),
		{Groups: []c20Group{
			{Name: 1, Imports: []string{"html/template"}, Rules: []c20Rule{{"is", "*template.Template"}}},
			{Name: 2, Rules: []c20Rule{{"is", "*template.Template"}}},
		}},
	}
}
