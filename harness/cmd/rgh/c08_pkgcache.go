package main

// C08, the engine-wide package cache: what one insertion puts into it.
//
// goImporter.Import stores every package it loads with engineState.AddCachedPackage, which also stores "all complete
// packages that are dependencies of the package" (recursively), so that later runs are served the same *types.Package
// objects.  An incomplete dependency (a stub the export-data importer leaves behind for an indirect import) must never
// be stored: a later by-name lookup in another run would be answered from the stub.  Which importer produced a package
// depends on the machine (cgo, C compiler, export data at hand), so the insertion is tied here directly, through the
// hook, on synthetic package graphs: after any sequence of insertions the cache holds
//   - the inserted package under the path it was inserted with,
//   - every COMPLETE package reachable from it through complete packages only, under its own path,
//   - and nothing else new; a later insertion replaces an earlier entry of the same path.
// The oracle is that sentence, evaluated on the graph (go/types only says which packages are complete and what they import).

import (
	"fmt"
	"go/types"
	"sort"

	"github.com/quasilyte/go-ruleguard/ruleguard"
	"verifharness/hx"
)

func runC08PkgCache(c *Ctx) error {
	res := c.Res
	rng := hx.Rng(c.Seed, "c08-pkgcache")
	rounds := 300
	if c.Thorough {
		rounds = 6000
	}
	for round := 0; round < rounds; round++ {
		n := 2 + rng.Intn(9)
		pkgs := make([]*types.Package, n)
		complete := make([]bool, n)
		for i := range pkgs {
			pkgs[i] = types.NewPackage(fmt.Sprintf("verifpc/r%d/p%d", round, i), fmt.Sprintf("p%d", i))
			complete[i] = rng.Intn(3) != 0
		}
		// a DAG: package i imports some packages of higher index
		imports := make([][]int, n)
		for i := 0; i < n; i++ {
			var imps []*types.Package
			for j := i + 1; j < n; j++ {
				if rng.Intn(3) == 0 {
					imports[i] = append(imports[i], j)
					imps = append(imps, pkgs[j])
				}
			}
			pkgs[i].SetImports(imps)
			if complete[i] {
				pkgs[i].MarkComplete()
			}
		}
		e := ruleguard.NewEngine()
		// 1-3 insertions, the way Import does them: (path, package); sometimes a second package object under a path already used
		want := map[string]*types.Package{}
		var history []string
		nIns := 1 + rng.Intn(3)
		for k := 0; k < nIns; k++ {
			root := rng.Intn(n)
			path := pkgs[root].Path()
			if k > 0 && rng.Intn(4) == 0 {
				// a fresh object for a path that may already be cached (a reload): the newer one wins
				twin := types.NewPackage(path, pkgs[root].Name())
				twin.SetImports(pkgs[root].Imports())
				if complete[root] {
					twin.MarkComplete()
				}
				pkgs[root] = twin
				history = append(history, "reinsert "+path)
			} else {
				history = append(history, "insert "+path)
			}
			ruleguard.VerifAddCachedPackage(e, path, pkgs[root])
			// the oracle: root, then complete packages through complete packages
			want[path] = pkgs[root]
			// (walked on the package objects themselves: after a reinsertion the importers still point at the older object)
			var visit func(p *types.Package)
			visit = func(p *types.Package) {
				for _, imp := range p.Imports() {
					if imp.Complete() {
						want[imp.Path()] = imp
						visit(imp)
					}
				}
			}
			visit(pkgs[root])
		}
		got := ruleguard.VerifPkgCacheKeys(e)
		var wantKeys []string
		for k := range want {
			wantKeys = append(wantKeys, k)
		}
		sort.Strings(wantKeys)
		// the engine may pre-populate the cache: only paths of this round count
		var gotKeys []string
		for _, k := range got {
			if len(k) > 8 && k[:8] == "verifpc/" {
				gotKeys = append(gotKeys, k)
			}
		}
		desc := func() map[string]interface{} {
			var g []string
			for i := range pkgs {
				g = append(g, fmt.Sprintf("%s complete=%v imports=%v", pkgs[i].Path(), complete[i], imports[i]))
			}
			return map[string]interface{}{"packages": g, "insertions": history}
		}
		res.Count("pkgcache", fmt.Sprint(round, history), true)
		res.Dist(fmt.Sprintf("pkgcache:insertions=%d", nIns))
		bad := ""
		switch {
		case fmt.Sprint(gotKeys) != fmt.Sprint(wantKeys):
			bad = "pkgcache:keys-differ"
			extra := false
			for _, k := range gotKeys {
				if _, ok := want[k]; !ok {
					extra = true
				}
			}
			if extra {
				bad = "pkgcache:a-package-that-must-not-be-cached-is-cached"
				for i := range pkgs {
					if !complete[i] {
						for _, k := range gotKeys {
							if _, ok := want[k]; !ok && k == pkgs[i].Path() {
								bad = "pkgcache:an-incomplete-dependency-is-cached"
							}
						}
					}
				}
			}
		default:
			for _, k := range wantKeys {
				if ruleguard.VerifCachedPackage(e, k) != want[k] {
					bad = "pkgcache:another-package-object-under-the-path"
				}
			}
		}
		if bad != "" {
			res.Violate(hx.Violation{Signature: bad, What: "the package cache after a sequence of insertions is not {inserted package} ∪ {complete packages reachable through complete packages}",
				Input: desc(), Impl: fmt.Sprint(gotKeys), Spec: fmt.Sprint(wantKeys)})
			res.Dist("pkgcache:DIFFERS")
		} else {
			res.Dist("pkgcache:agrees")
		}
		for i := range pkgs {
			if !complete[i] {
				res.Dist("pkgcache:graph-has-incomplete-packages")
				break
			}
		}
	}
	return nil
}

